// C17: format()/sprintf agree with Go's fmt for every documented verb.
//
// Bounded exhaustive enumeration, three parts:
//
//	grid    every directive  % flags width prec argindex verb  of the documented
//	        grammar (docs/formatting.md) x every argument list built from the
//	        per-position alphabets (operand position: all values of the five
//	        directly mapped types; '*' positions: the star alphabet; other
//	        positions: a two-value filler), 0..3 arguments;
//	reorder hand-written directive shapes the grid grammar cannot spell (index
//	        in front of '*', two directives, malformed indexes) x every verb x
//	        every argument list of length 0..3 over a 6-value alphabet;
//	arb     every string of length <= L over a 17-character alphabet as the
//	        format x a fixed set of argument lists.
//
// Oracle: the host toolchain's fmt.Sprintf on the corresponding Go values
// (int64, float64, string, bool, []byte), minus the three exclusions of the
// property text; "returns a string or ErrStringLimit, never panics" for
// everything, including a dedicated phase with a small tengo.MaxStringLen.
// Every grid and reorder case and the short arb formats are also driven
// through the builtin format() and the stdlib fmt.sprintf() by real scripts
// and must equal tengo.Format's result.
//
// Which (verb, argument) pairs Go actually applies in a format, with which
// flags/width/precision, is not re-implemented here: it is read off Go's own
// parser by formatting tracing values that implement fmt.Formatter.
package main

import (
	"errors"
	"fmt"
	"math"
	"os"
	"runtime"
	"runtime/debug"
	"sort"
	"strconv"
	"strings"
	"sync"
	"sync/atomic"
	"unicode/utf8"

	"github.com/d5/tengo/v2"
	"github.com/d5/tengo/v2/stdlib"
	"verif/engine/report"
	"verif/engine/tg"
)

// ---------------------------------------------------------------------------
// argument values

type argv struct {
	Enc    string // canonical, ASCII-only, replayable spelling: "int:7", "string:\"a\""
	Typ    string // int float string bool bytes | array undefined char map error
	Mk     func() tengo.Object
	obj    tengo.Object // shared, read-only: used for direct tengo.Format calls
	Go     interface{}  // corresponding Go value; nil: not one of the five mapped types
	Tr     interface{}  // tracing twin of Go
	I      int64
	Script bool // member of the script-level sub-alphabet (only used when scriptAll is off)
}

func mkInt(v int64) *argv {
	return &argv{Enc: "int:" + strconv.FormatInt(v, 10), Typ: "int", I: v,
		Mk: func() tengo.Object { return &tengo.Int{Value: v} }, Go: v, Tr: tInt(v)}
}
func mkFloat(v float64) *argv {
	enc := "float:" + strconv.FormatFloat(v, 'g', -1, 64)
	return &argv{Enc: enc, Typ: "float",
		Mk: func() tengo.Object { return &tengo.Float{Value: v} }, Go: v, Tr: tAny{enc}}
}
func mkString(v string) *argv {
	enc := "string:" + strconv.QuoteToASCII(v)
	return &argv{Enc: enc, Typ: "string",
		Mk: func() tengo.Object { return &tengo.String{Value: v} }, Go: v, Tr: tAny{enc}}
}
func mkBool(v bool) *argv {
	enc := "bool:" + strconv.FormatBool(v)
	return &argv{Enc: enc, Typ: "bool", Mk: func() tengo.Object {
		if v {
			return tengo.TrueValue
		}
		return tengo.FalseValue
	}, Go: v, Tr: tAny{enc}}
}
func mkBytes(v string) *argv {
	enc := "bytes:" + strconv.QuoteToASCII(v)
	return &argv{Enc: enc, Typ: "bytes",
		Mk: func() tengo.Object { return &tengo.Bytes{Value: []byte(v)} }, Go: []byte(v), Tr: tAny{enc}}
}
func mkOther(name string) *argv {
	a := &argv{Enc: "other:" + name, Typ: name}
	switch name {
	case "array":
		a.Mk = func() tengo.Object {
			return &tengo.Array{Value: []tengo.Object{&tengo.Int{Value: 1}, &tengo.String{Value: "a"}}}
		}
	case "undefined":
		a.Mk = func() tengo.Object { return tengo.UndefinedValue }
	case "char":
		a.Mk = func() tengo.Object { return &tengo.Char{Value: 'c'} }
	case "map":
		a.Mk = func() tengo.Object {
			return &tengo.Map{Value: map[string]tengo.Object{"a": &tengo.Int{Value: 1}}}
		}
	case "error":
		a.Mk = func() tengo.Object { return &tengo.Error{Value: &tengo.String{Value: "e"}} }
	default:
		return nil
	}
	return a
}

func fin(a *argv) *argv {
	if a != nil {
		a.obj = a.Mk()
	}
	return a
}

// decodeArg is the inverse of argv.Enc (used by replay).
func decodeArg(enc string) (*argv, error) {
	i := strings.IndexByte(enc, ':')
	if i < 0 {
		return nil, fmt.Errorf("bad argument encoding %q", enc)
	}
	kind, rest := enc[:i], enc[i+1:]
	switch kind {
	case "int":
		v, err := strconv.ParseInt(rest, 10, 64)
		if err != nil {
			return nil, err
		}
		return fin(mkInt(v)), nil
	case "float":
		v, err := strconv.ParseFloat(rest, 64)
		if err != nil {
			return nil, err
		}
		return fin(mkFloat(v)), nil
	case "string", "bytes":
		v, err := strconv.Unquote(rest)
		if err != nil {
			return nil, err
		}
		if kind == "string" {
			return fin(mkString(v)), nil
		}
		return fin(mkBytes(v)), nil
	case "bool":
		return fin(mkBool(rest == "true")), nil
	case "other":
		if a := fin(mkOther(rest)); a != nil {
			return a, nil
		}
	}
	return nil, fmt.Errorf("bad argument encoding %q", enc)
}

func must(enc string) *argv {
	a, err := decodeArg(enc)
	if err != nil {
		panic(err)
	}
	return a
}

// alist is one argument list with the per-API views precomputed.
type alist struct {
	args   []*argv
	objs   []tengo.Object
	gos    []interface{}
	trs    []interface{}
	mapped bool // every argument is of one of the five mapped types
	script bool
}

func newAlist(args []*argv) *alist {
	l := &alist{args: args, mapped: true, script: true}
	for _, a := range args {
		l.objs = append(l.objs, a.obj)
		l.gos = append(l.gos, a.Go)
		l.trs = append(l.trs, a.Tr)
		if a.Go == nil {
			l.mapped = false
		}
		if !a.Script {
			l.script = false
		}
	}
	return l
}

func (l *alist) encs() []string {
	out := make([]string, len(l.args))
	for i, a := range l.args {
		out[i] = a.Enc
	}
	return out
}

var (
	intVals = []int64{0, 1, -1, 7, 255, 65, 1114111, 0x1F600 /* printable, 4 UTF-8 bytes */, math.MinInt64, math.MaxInt64,
		// beyond 32 bits, with and without a valid code point in the low 32 bits
		1<<32 + 65, 1 << 32, -(1 << 32) + 65, 1<<40 + 0x4e16, math.MaxInt32 + 1, math.MinInt32 - 1}
	fltVals = []float64{0, math.Copysign(0, -1), 1, 1.5, -2.5, 1e21, 5e-324, math.MaxFloat64,
		math.NaN(), math.Inf(1), math.Inf(-1), 123456789.125}
	strVals = []string{"", "a", "héllo", "a\x00b", "\xff", "q\"uo`t'e\n"}
	bytVals = []string{"", "ab", "\xff\x00é"}

	alphaV  []*argv // operand alphabet: every value of the five mapped types
	alphaS  []*argv // '*' alphabet
	alphaVS []*argv // operand position that is also a '*' position
	alphaX  []*argv // filler for positions that are neither
	alphaM  []*argv // reorder templates: one or two values per type
	argOne  *argv   // int 1 (perturbation value)
)

func initAlphabets() {
	for _, v := range intVals {
		alphaV = append(alphaV, fin(mkInt(v)))
	}
	for _, v := range fltVals {
		alphaV = append(alphaV, fin(mkFloat(v)))
	}
	for _, v := range strVals {
		alphaV = append(alphaV, fin(mkString(v)))
	}
	alphaV = append(alphaV, fin(mkBool(true)), fin(mkBool(false)))
	for _, v := range bytVals {
		alphaV = append(alphaV, fin(mkBytes(v)))
	}
	byEnc := map[string]*argv{}
	for _, a := range alphaV {
		byEnc[a.Enc] = a
	}
	pick := func(encs ...string) (out []*argv) {
		for _, e := range encs {
			a := byEnc[e]
			if a == nil {
				a = must(e)
				byEnc[e] = a
			}
			out = append(out, a)
		}
		return
	}
	// ints: zero, positive, negative, beyond the 68-byte scratch buffer of the number formatters, beyond fmt's 1e6 cap; then values Go
	// rejects for '*' (BADWIDTH/BADPREC) because they are not ints.
	alphaS = pick("int:0", "int:3", "int:-4", "int:70", "int:2000000", "float:2.5", `string:"2"`, "bool:true")
	alphaVS = append(alphaVS, alphaV...)
	for _, a := range alphaS {
		dup := false
		for _, b := range alphaV {
			if a == b {
				dup = true
			}
		}
		if !dup {
			alphaVS = append(alphaVS, a)
		}
	}
	alphaX = pick("int:7", `string:"a"`)
	alphaM = pick("int:7", "int:-4", "float:1.5", `string:"héllo"`, "bool:true", `bytes:"ab"`)
	for _, a := range pick("int:7", "int:-4", "float:-2.5", "float:2.5", `string:"héllo"`,
		`string:"2"`, "bool:true", `bytes:"ab"`) {
		a.Script = true
	}
	argOne = pick("int:1")[0]
}

// ---------------------------------------------------------------------------
// tracing twins: formatting them with Go's fmt reveals which (verb, argument)
// applications Go's own directive parser performs, and with which state.

type tInt int64 // integer kind, so Go still accepts it for '*'
type tAny struct{ enc string }

func (v tInt) Format(s fmt.State, verb rune) { rec(s, verb, "int:"+strconv.FormatInt(int64(v), 10)) }
func (v tAny) Format(s fmt.State, verb rune) { rec(s, verb, v.enc) }

func rec(s fmt.State, verb rune, enc string) {
	b := make([]byte, 0, 48)
	b = append(b, 1)
	b = utf8.AppendRune(b, verb)
	b = append(b, 0x1f)
	for _, c := range "#0+- " {
		if s.Flag(int(c)) {
			b = append(b, byte(c))
		}
	}
	b = append(b, 0x1f)
	if w, ok := s.Width(); ok {
		b = strconv.AppendInt(b, int64(w), 10)
	}
	b = append(b, 0x1f)
	if p, ok := s.Precision(); ok {
		b = strconv.AppendInt(b, int64(p), 10)
	}
	b = append(b, 0x1f)
	b = append(b, enc...)
	b = append(b, 2)
	_, _ = s.Write(b)
}

// app is one application of a verb to an argument.
type app struct {
	verb      rune
	flags     string // subset of "#0+- " in that order
	wid, prec int    // -1: absent
	arg       *argv
}

func (a app) directive() string {
	s := "%" + a.flags
	if a.wid > 0 {
		s += strconv.Itoa(a.wid)
	}
	if a.prec >= 0 {
		s += "." + strconv.Itoa(a.prec)
	}
	return s + string(a.verb)
}

func trace(format string, l *alist) []app {
	out := fmt.Sprintf(format, l.trs...)
	var apps []app
	for {
		i := strings.IndexByte(out, 1)
		if i < 0 {
			break
		}
		j := strings.IndexByte(out[i:], 2)
		if j < 0 {
			break
		}
		f := strings.SplitN(out[i+1:i+j], "\x1f", 5)
		out = out[i+j+1:]
		if len(f) != 5 {
			continue
		}
		v, _ := utf8.DecodeRuneInString(f[0])
		a := app{verb: v, flags: f[1], wid: -1, prec: -1}
		if f[2] != "" {
			a.wid, _ = strconv.Atoi(f[2])
		}
		if f[3] != "" {
			a.prec, _ = strconv.Atoi(f[3])
		}
		for _, x := range l.args {
			if x.Enc == f[4] {
				a.arg = x
				break
			}
		}
		if a.arg != nil {
			apps = append(apps, a)
		}
	}
	return apps
}

// ---------------------------------------------------------------------------
// classification of (verb, argument type) by Go's rules, and signatures

const docVerbs = "vTtbcdoOqxXUeEfFgGs%" // every verb docs/formatting.md lists

var goodVerbs = map[string]string{
	"bool":   "tvT",
	"int":    "bcdoOqxXUvT",
	"float":  "beEfFgGxXvT",
	"string": "sqxXvT",
	"bytes":  "sqxXvTd",
}

// verbClass: "ok" the verb is defined for the type; "elem" Go applies the
// verb to every byte of a []byte; "bad" Go renders %!verb(type=value).
func verbClass(typ string, verb rune) string {
	if verb < utf8.RuneSelf && strings.ContainsRune(goodVerbs[typ], verb) {
		return "ok"
	}
	if typ == "bytes" && strings.ContainsRune("bcoOU", verb) {
		return "elem"
	}
	return "bad"
}

// (verb,type) pairs that disagree for the plain directive already, so every
// flag combination disagrees too: no flag class in the signature.
var coarse = map[string]bool{
	"verb=v/arg=string": true, "verb=v/arg=bytes": true, "verb=v/arg=float": true,
	"verb=T/arg=int": true, "verb=T/arg=float": true, "verb=T/arg=bytes": true,
}

// flagClass names the first feature present, in a fixed priority order.
func flagClass(flags string, wid, prec int) string {
	switch {
	case prec >= 0:
		return "prec"
	case strings.Contains(flags, "+"):
		return "plus"
	case strings.Contains(flags, " "):
		return "space"
	case strings.Contains(flags, "0"):
		return "zero"
	case strings.Contains(flags, "#"):
		return "sharp"
	case strings.Contains(flags, "-"):
		return "minus"
	case wid > 0:
		return "width"
	}
	return "plain"
}

func verbName(v rune) string {
	if v > ' ' && v < 0x7f && v != '/' {
		return string(v)
	}
	return fmt.Sprintf("U+%04X", v)
}

func appSig(a app) string {
	switch verbClass(a.arg.Typ, a.verb) {
	case "bad":
		return "badverb/arg=" + a.arg.Typ
	case "elem":
		return "elemverb/arg=bytes"
	}
	base := "verb=" + verbName(a.verb) + "/arg=" + a.arg.Typ
	if coarse[base] {
		return base
	}
	return base + "/" + flagClass(a.flags, a.wid, a.prec)
}

func validCodePoint(v int64) bool {
	return v >= 0 && v <= utf8.MaxRune && !(v >= 0xD800 && v <= 0xDFFF)
}

// excludedApp: the two per-application exclusions of the property text.
func excludedApp(a app) string {
	if a.verb == 'q' && a.arg.Typ == "int" && !validCodePoint(a.arg.I) {
		return "q-of-int-not-a-code-point"
	}
	if (a.verb == 'x' || a.verb == 'X') && a.arg.Typ == "float" && strings.Contains(a.flags, "#") {
		return "sharp-x-of-float"
	}
	return ""
}

// ---------------------------------------------------------------------------
// running one case

type Case struct {
	Part   string   `json:"part"` // grid | reorder | pairs | arb | limit
	Format string   `json:"format"`
	Args   []string `json:"args"`
	MaxLen int      `json:"max_string_len,omitempty"` // limit part: tengo.MaxStringLen during the call
	Script bool     `json:"script,omitempty"`         // also driven through format() and fmt.sprintf()
	Verb   string   `json:"verb,omitempty"`           // grid: the directive's verb
	Op     int      `json:"operand_pos,omitempty"`    // grid: 1-based position of the operand (0: none)
}

// fail is one oracle failure; the message is rendered only when it is kept.
type fail struct {
	sig  string
	tmpl string // Sprintf template over (a, b), both quoted and shortened
	a, b string
}

func (f fail) what(c *Case, l *alist) string {
	return fmt.Sprintf(f.tmpl, short(f.a), short(f.b)) +
		fmt.Sprintf(": format=%s args=%v", short(c.Format), l.encs())
}

type result struct {
	class      string // outcome class (vacuity guard)
	fails      []fail
	compared   bool // compared with fmt.Sprintf inside the equality claim
	nontrivial bool // Go's output has no %! marker
	calls      int64
	got, want  string
	errText    string
	scriptObs  string
}

func tengoFormat(format string, objs []tengo.Object) (s string, err error, pan string) {
	defer func() {
		if r := recover(); r != nil {
			pan = fmt.Sprint(r)
			if pan == "" {
				pan = "panic"
			}
		}
	}()
	s, err = tengo.Format(format, objs...)
	return
}

const extraMarker = "%!(EXTRA "

func cutExtra(s string) (string, bool) {
	i := strings.LastIndex(s, extraMarker)
	if i < 0 {
		return s, false
	}
	return s[:i], true
}

func short(s string) string {
	q := strconv.QuoteToASCII(s)
	if len(q) > 90 {
		q = q[:90] + "...\""
	}
	return q
}

// isoMismatch runs one application on its own. A verb character that the
// directive syntax reads as a flag, digit, '*', '.', '[' or '%' cannot be
// spelled on its own (it is a verb only behind a width, '*' or index); Go
// renders it as a bad verb for every type, which Tengo renders differently.
func isoMismatch(a app, calls *int64) bool {
	if strings.ContainsRune("#0+- *.[%123456789", a.verb) {
		return true
	}
	d := a.directive()
	*calls++
	g, err, pan := tengoFormat(d, []tengo.Object{a.arg.obj})
	return pan != "" || err != nil || g != fmt.Sprintf(d, a.arg.Go)
}

func markers(s string) int {
	return strings.Count(s, "%!(BADWIDTH)") + strings.Count(s, "%!(BADPREC)")
}

// attribute names the input class responsible for got != want.
func attribute(c *Case, l *alist, apps []app, got, want string, calls *int64) string {
	// (1) one application that disagrees on its own
	for _, a := range apps {
		if excludedApp(a) == "" && isoMismatch(a, calls) {
			return appSig(a)
		}
	}
	// (2) '*' taken from an argument that is not an Int. Which argument is
	// found by perturbation: replacing it by int 1 removes a BADWIDTH/BADPREC
	// marker from Go's output (Go consumed it for a '*' and rejected it) but
	// none from Tengo's (Tengo had accepted it).
	if nBad := markers(want); nBad > 0 && markers(got) != nBad {
		for i, a := range l.args {
			if a.Typ == "int" {
				continue
			}
			objs := append([]tengo.Object{}, l.objs...)
			gos := append([]interface{}{}, l.gos...)
			objs[i], gos[i] = argOne.obj, argOne.Go
			*calls++
			g2, _, _ := tengoFormat(c.Format, objs)
			if markers(fmt.Sprintf(c.Format, gos...)) < nBad && markers(g2) == markers(got) {
				return "star/arg=" + a.Typ
			}
		}
	}
	// (3) %T is formatted by Go before the Formatter hook: not in the trace.
	if strings.ContainsRune(c.Format, 'T') {
		if c.Part == "grid" {
			if c.Op > 0 && c.Op <= len(l.args) && !strings.Contains(want, "%!T(") {
				flags, wid, prec := directiveShape(c.Format)
				t := app{verb: 'T', flags: flags, wid: wid, prec: prec, arg: l.args[c.Op-1]}
				if isoMismatch(t, calls) {
					return appSig(t)
				}
			}
		} else {
			for _, a := range l.args {
				t := app{verb: 'T', wid: -1, prec: -1, arg: a}
				if isoMismatch(t, calls) {
					return appSig(t)
				}
			}
		}
	}
	// (4) nothing about a single application or a '*': indexes, markers, state
	marker := "none"
	for _, m := range []string{"BADWIDTH", "BADPREC", "BADINDEX", "MISSING", "NOVERB"} {
		if strings.Contains(want, "("+m+")") {
			marker = m
			break
		}
	}
	v := c.Verb
	if v == "" && len(apps) > 0 {
		v = verbName(apps[0].verb)
	}
	return "struct/go=" + marker + "/verb=" + v + "/nargs=" + strconv.Itoa(len(l.args))
}

// directiveShape recovers the literal flags/width/precision of a grid
// directive (used for %T only; a '*' width/precision counts as absent).
func directiveShape(f string) (flags string, wid, prec int) {
	wid, prec = -1, -1
	i := 1
	for ; i < len(f) && strings.IndexByte("#0+- ", f[i]) >= 0; i++ {
		flags += string(f[i])
	}
	j := i
	for j < len(f) && f[j] >= '0' && f[j] <= '9' {
		j++
	}
	if j > i {
		wid, _ = strconv.Atoi(f[i:j])
	}
	if j < len(f) && f[j] == '*' {
		j++
	}
	if j < len(f) && f[j] == '.' {
		k := j + 1
		for k < len(f) && f[k] >= '0' && f[k] <= '9' {
			k++
		}
		if k < len(f) && f[k] == '*' {
			return
		}
		prec, _ = strconv.Atoi(f[j+1 : k])
	}
	return
}

var scriptSrc = [4]string{
	`fmt := import("fmt"); o1 := format(f); o2 := fmt.sprintf(f)`,
	`fmt := import("fmt"); o1 := format(f, a0); o2 := fmt.sprintf(f, a0)`,
	`fmt := import("fmt"); o1 := format(f, a0, a1); o2 := fmt.sprintf(f, a0, a1)`,
	`fmt := import("fmt"); o1 := format(f, a0, a1, a2); o2 := fmt.sprintf(f, a0, a1, a2)`,
}

// scriptFails compares what format()/fmt.sprintf() returned inside a script
// (obs[0], obs[1]; ok[i] false: not a string) with tengo.Format's result.
func scriptFails(nargs int, got string, obs [2]string, ok [2]bool) (fails []fail) {
	noargs := ""
	if nargs == 0 {
		noargs = "/noargs"
	}
	for i, name := range [2]string{"format", "sprintf"} {
		if !ok[i] || obs[i] != got {
			fails = append(fails, fail{"api=" + name + "/differs-from-Format" + noargs,
				name + "(...) in a script gives %s, tengo.Format gives %s", obs[i], got})
		}
	}
	return
}

// runScript drives one case through the builtin format() and fmt.sprintf().
func runScript(c *Case, l *alist, res *result) {
	in := map[string]tengo.Object{"f": &tengo.String{Value: c.Format}}
	for i, a := range l.args {
		in["a"+strconv.Itoa(i)] = a.Mk()
	}
	o := tg.Run(scriptSrc[len(l.args)], tg.Opts{Inputs: in, Modules: stdlib.GetModuleMap("fmt")})
	res.calls += 2
	if o.Class != "ok" {
		res.scriptObs = o.Class + ": " + tg.FirstLine(o.ErrText)
		noargs := ""
		if len(l.args) == 0 {
			noargs = "/noargs"
		}
		res.fails = append(res.fails, fail{"api=script/" + o.Class + noargs,
			"script calling format()/fmt.sprintf() ended with %s but tengo.Format returned %s",
			o.Class + ": " + tg.FirstLine(o.ErrText), res.got})
		return
	}
	var obs [2]string
	var ok [2]bool
	for i, name := range [2]string{"o1", "o2"} {
		obs[i] = "<not a string>"
		if s, isS := o.Globals[name].(*tengo.String); isS {
			obs[i], ok[i] = s.Value, true
		}
	}
	res.scriptObs = "format=" + short(obs[0]) + " sprintf=" + short(obs[1])
	res.fails = append(res.fails, scriptFails(len(l.args), res.got, obs, ok)...)
}

// One script evaluates a whole batch of cases (one VM start per batch instead
// of one per case): cases is an array of [format, arg...] arrays.
const batchSrc = `
fmt := import("fmt")
o1 := []
o2 := []
for c in cases {
	n := len(c)
	if n == 1 {
		o1 = append(o1, format(c[0]))
		o2 = append(o2, fmt.sprintf(c[0]))
	} else if n == 2 {
		o1 = append(o1, format(c[0], c[1]))
		o2 = append(o2, fmt.sprintf(c[0], c[1]))
	} else if n == 3 {
		o1 = append(o1, format(c[0], c[1], c[2]))
		o2 = append(o2, fmt.sprintf(c[0], c[1], c[2]))
	} else {
		o1 = append(o1, format(c[0], c[1], c[2], c[3]))
		o2 = append(o2, fmt.sprintf(c[0], c[1], c[2], c[3]))
	}
}
`

type bitem struct {
	key uint64
	c   Case
	l   *alist
	got string
}

// runBatch drives the collected cases through format()/fmt.sprintf(). If the
// batch script does not complete, every case is re-run in a script of its own.
func runBatch(w *acc, items []bitem) {
	if len(items) == 0 {
		return
	}
	pc := w.part(items[0].c.Part)
	cases := w.rows[:0]
	for i := range items {
		it := &items[i]
		row := make([]tengo.Object, 0, 1+len(it.l.args))
		row = append(row, &tengo.String{Value: it.c.Format})
		for _, a := range it.l.args {
			row = append(row, a.Mk())
		}
		cases = append(cases, &tengo.Array{Value: row})
	}
	w.rows = cases
	o := tg.Run(batchSrc, tg.Opts{Inputs: map[string]tengo.Object{"cases": &tengo.Array{Value: cases}},
		Modules: stdlib.GetModuleMap("fmt")})
	w.scriptRuns++
	o1, _ := o.Globals["o1"].(*tengo.Array)
	o2, _ := o.Globals["o2"].(*tengo.Array)
	if o.Class != "ok" || o1 == nil || o2 == nil || len(o1.Value) != len(items) || len(o2.Value) != len(items) {
		w.batchReruns++
		for i := range items {
			it := &items[i]
			res := result{got: it.got}
			runScript(&it.c, it.l, &res)
			w.scriptRuns++
			w.calls += res.calls
			pc.scriptCases++
			for _, f := range res.fails {
				w.addFail(it.key, &it.c, it.l, f)
			}
		}
		return
	}
	w.calls += 2 * int64(len(items))
	pc.scriptCases += int64(len(items))
	for i := range items {
		it := &items[i]
		var obs [2]string
		var ok [2]bool
		for k, arr := range [2]*tengo.Array{o1, o2} {
			obs[k] = "<not a string>"
			if s, isS := arr.Value[i].(*tengo.String); isS {
				obs[k], ok[k] = s.Value, true
			}
		}
		if ok[0] && ok[1] && obs[0] == it.got && obs[1] == it.got {
			pc.outcomes["script:equals-Format"]++
			continue
		}
		pc.outcomes["script:differs-from-Format"]++
		for _, f := range scriptFails(len(it.l.args), it.got, obs, ok) {
			w.addFail(it.key, &it.c, it.l, f)
		}
	}
}

// runCase executes one case. MaxStringLen must already have the value the case
// asks for (the enumeration sets it per phase, replay per case).
func runCase(c *Case, l *alist, inlineScript bool) (res result) {
	got, err, pan := tengoFormat(c.Format, l.objs)
	res.calls++
	res.got = got
	if pan != "" {
		res.class = "panic"
		res.errText = "panic: " + pan
		res.fails = append(res.fails, fail{"panic/part=" + c.Part + "/" + firstVerbSig(c, l),
			"tengo.Format panicked: %s%.0s", tg.FirstLine(pan), ""})
		return
	}
	if err != nil {
		res.errText = err.Error()
	}
	if c.Part == "limit" {
		switch {
		case err != nil && errors.Is(err, tengo.ErrStringLimit):
			res.class = "limit-error"
		case err != nil:
			res.class = "other-error"
			res.fails = append(res.fails, fail{"limit/other-error", "error is not ErrStringLimit: %s%.0s", err.Error(), ""})
		case len(got) > c.MaxLen:
			// A result longer than MaxStringLen is still "a string": C17 only claims termination with a
			// string or the limit error. The length bound itself is property C06's claim (checked there).
			res.class = "overlong(C06-owns)"
		default:
			res.class = "within-limit"
		}
		return
	}
	if err != nil {
		res.class = "error"
		res.fails = append(res.fails, fail{"error-at-default-limit/part=" + c.Part,
			"tengo.Format returned an error with the default MaxStringLen: %s%.0s", err.Error(), ""})
		return
	}
	if !l.mapped {
		res.class = "no-panic(unmapped-args)"
	} else {
		want := fmt.Sprintf(c.Format, l.gos...)
		res.want = want
		res.nontrivial = !strings.Contains(want, "%!")
		if got == want {
			res.compared = true
			res.class = "equal"
			if !res.nontrivial {
				res.class = "equal(go-error-marker)"
			}
		} else {
			apps := trace(c.Format, l)
			excl := ""
			for _, a := range apps {
				if e := excludedApp(a); e != "" {
					excl = e
					break
				}
			}
			hw, okw := cutExtra(want)
			hg, okg := cutExtra(got)
			switch {
			case excl != "":
				res.class = "outside-claim:" + excl
			case okw && okg && hw == hg:
				res.compared = true
				res.class = "equal-up-to-EXTRA-rendering"
			default:
				res.compared = true
				sig := attribute(c, l, apps, got, want, &res.calls)
				res.class = "differs:" + sig
				res.fails = append(res.fails, fail{sig, "tengo.Format gives %s, fmt.Sprintf gives %s", got, want})
			}
		}
	}
	if c.Script && inlineScript {
		runScript(c, l, &res)
	}
	return
}

func firstVerbSig(c *Case, l *alist) string {
	if c.Verb != "" {
		t := "none"
		if c.Op > 0 && c.Op <= len(l.args) {
			t = l.args[c.Op-1].Typ
		}
		return "verb=" + c.Verb + "/arg=" + t
	}
	if l.mapped {
		if apps := trace(c.Format, l); len(apps) > 0 {
			return "verb=" + verbName(apps[0].verb) + "/arg=" + apps[0].arg.Typ
		}
	}
	return "verb=?"
}

// ---------------------------------------------------------------------------
// per-worker accumulation (merged deterministically: sums and min-key examples)

type keyed struct {
	key  uint64
	c    Case
	what string
	obs  string
}

type vgroup struct {
	count int64
	ex    []keyed // up to 5 smallest keys
}

type partCounts struct {
	cases, compared, nontrivial, differs, scriptCases int64
	outcomes                                          map[string]int64
}

type acc struct {
	parts       map[string]*partCounts
	calls       int64
	scriptRuns  int64
	batchReruns int64
	viol        map[string]*vgroup
	samples     []keyed
	batch       []bitem        // reused per unit
	rows        []tengo.Object // reused per batch
}

func newAcc() *acc {
	return &acc{parts: map[string]*partCounts{}, viol: map[string]*vgroup{}}
}

func (w *acc) part(p string) *partCounts {
	pc := w.parts[p]
	if pc == nil {
		pc = &partCounts{outcomes: map[string]int64{}}
		w.parts[p] = pc
	}
	return pc
}

func keepSmallest(ex []keyed, k keyed, n int) []keyed {
	if len(ex) == n && k.key >= ex[n-1].key {
		return ex
	}
	ex = append(ex, k)
	sort.Slice(ex, func(i, j int) bool { return ex[i].key < ex[j].key })
	if len(ex) > n {
		ex = ex[:n]
	}
	return ex
}

func (w *acc) addFail(key uint64, c *Case, l *alist, f fail) {
	g := w.viol[f.sig]
	if g == nil {
		g = &vgroup{}
		w.viol[f.sig] = g
	}
	g.count++
	if len(g.ex) < 5 || key < g.ex[len(g.ex)-1].key {
		cc := *c
		cc.Args = l.encs()
		g.ex = keepSmallest(g.ex, keyed{key: key, c: cc, what: f.what(c, l)}, 5)
	}
}

func (w *acc) fold(key uint64, c *Case, l *alist, res *result, sample bool) {
	pc := w.part(c.Part)
	pc.cases++
	w.calls += res.calls
	if res.compared {
		pc.compared++
	}
	if res.nontrivial {
		pc.nontrivial++
	}
	if len(res.fails) > 0 && strings.HasPrefix(res.class, "differs:") {
		pc.differs++
	}
	pc.outcomes[res.class]++
	for _, f := range res.fails {
		w.addFail(key, c, l, f)
	}
	if sample {
		cc := *c
		cc.Args = l.encs()
		obs := "tengo=" + short(res.got)
		if res.errText != "" {
			obs += " err=" + res.errText
		}
		if l.mapped && c.Part != "limit" {
			obs += " go=" + short(res.want)
		}
		w.samples = keepSmallest(w.samples, keyed{key: key, c: cc, obs: obs + " -> " + res.class}, 4)
	}
}

// parallel runs fn(worker accumulator, unit) for every unit on all cores.
func parallel(n int, fn func(w *acc, unit int)) []*acc {
	workers := runtime.GOMAXPROCS(0)
	accs := make([]*acc, workers)
	var next int64
	var wg sync.WaitGroup
	for i := range accs {
		accs[i] = newAcc()
		wg.Add(1)
		go func(w *acc) {
			defer wg.Done()
			for {
				u := int(atomic.AddInt64(&next, 1) - 1)
				if u >= n {
					return
				}
				fn(w, u)
			}
		}(accs[i])
	}
	wg.Wait()
	return accs
}

// ---------------------------------------------------------------------------
// part 1: the directive grid

var (
	flagChars = "#0+- "
	widthsAll = []string{"", "1", "5", "12", "*"}
	precsAll  = []string{"", ".", ".0", ".3", ".*"}
	idxAll    = []string{"", "[1]", "[2]", "[9]"}
)

type grid struct {
	masks  []int
	widths []string
	precs  []string
	idxs   []string
	verbs  string
}

func (g grid) size() int {
	return len(g.masks) * len(g.widths) * len(g.precs) * len(g.idxs) * len(g.verbs)
}

// flagString spells the flag subset of mask (bits 0..4) in the order "#0+- "; bit 5 asks for the reverse order
// (flags may be written in any order: a parser that lets a later flag undo an earlier one shows in one of the two)
func flagString(mask int) string {
	s := ""
	for i := 0; i < len(flagChars); i++ {
		if mask&(1<<i) != 0 {
			if mask&32 != 0 {
				s = string(flagChars[i]) + s
			} else {
				s += string(flagChars[i])
			}
		}
	}
	return s
}

// directive d of the grid: format, number of '*', operand position (0-based; may be >= any list length)
func (g grid) at(d int) (format string, verb byte, stars, opPos int) {
	v := d % len(g.verbs)
	d /= len(g.verbs)
	ix := d % len(g.idxs)
	d /= len(g.idxs)
	p := d % len(g.precs)
	d /= len(g.precs)
	wi := d % len(g.widths)
	d /= len(g.widths)
	m := g.masks[d]
	if g.widths[wi] == "*" {
		stars++
	}
	if g.precs[p] == ".*" {
		stars++
	}
	switch g.idxs[ix] {
	case "":
		opPos = stars
	case "[1]":
		opPos = 0
	case "[2]":
		opPos = 1
	default:
		opPos = 8
	}
	verb = g.verbs[v]
	return "%" + flagString(m) + g.widths[wi] + g.precs[p] + g.idxs[ix] + string(verb), verb, stars, opPos
}

// product returns every list of length 0..3 whose position j ranges over alpha(j).
func product(alpha func(j int) []*argv) []*alist {
	out := []*alist{newAlist(nil)}
	for n := 1; n <= 3; n++ {
		cur := [][]*argv{{}}
		for j := 0; j < n; j++ {
			var nxt [][]*argv
			for _, pre := range cur {
				for _, a := range alpha(j) {
					nxt = append(nxt, append(append([]*argv{}, pre...), a))
				}
			}
			cur = nxt
		}
		for _, l := range cur {
			out = append(out, newAlist(l))
		}
	}
	return out
}

// listsFor builds every argument list of length 0..3 for a directive with the
// given number of '*' and operand position, from the per-position alphabets.
func listsFor(stars, opPos int) []*alist {
	return product(func(j int) []*argv {
		switch {
		case j == opPos && j < stars:
			return alphaVS
		case j == opPos:
			return alphaV
		case j < stars:
			return alphaS
		}
		return alphaX
	})
}

// ---------------------------------------------------------------------------
// part 1b: shapes outside the grid grammar ('V' is replaced by each verb)

var reorderTemplates = []string{
	"%[1]*V", "%[2]*[1]V", "%[2]*V", "%[1]*[1]V", "%[3]*.[2]*[1]V", "%.[2]*V", "%.[1]*[2]V", "%[1]*.*V",
	"%[2]V|%[1]V", "%[1]V|%V", "%V|%[1]V", "%[2]V|%V", "%V|%V", "%-5V|%V", "%.1V|%5V", "%[3]V|%[1]V",
	"%[1]5V", "%[1].2V", "%[1]-V", "%5[1]V|%V", "%[0]V", "%[-1]V", "%[x]V", "%[1V", "%[]V", "%[1][2]V",
	"%[2]*.[1]*V", "%*[3]V", "%.*[3]V", "%[99999999]V", "%[1]*", "%[1]", "%.[1]", "x%Vy%%z",
}

// part 1c: every ordered pair of these directives, joined by "|" (state that
// must be reset between directives: flags, width, precision, index validity)
var pairDirectives = []string{
	"%d", "%s", "%v", "%x", "%c", "%+d", "%3d", "%-4s", "%05d", "%.2f", "%.1s", "%6.2f", "%*d", "%.*f",
	"%[1]d", "%[2]s", "%[3]v", "%[2]*[1]d", "%[5]d", "%[0]s", "%[x]d", "%[1]2d", "%[", "%!", "%%",
}

// ---------------------------------------------------------------------------
// part 2: arbitrary strings over a small alphabet

const arbAlphabet = "%[]*.019dvsqx+-# "

func arbCount(maxLen int) int {
	n, p := 0, 1
	for l := 0; l <= maxLen; l++ {
		n += p
		p *= len(arbAlphabet)
	}
	return n
}

// arbAt: strings ordered by length, then lexicographically in alphabet order.
func arbAt(i int, buf []byte) string {
	l, p := 0, 1
	for i >= p {
		i -= p
		p *= len(arbAlphabet)
		l++
	}
	buf = buf[:l]
	for k := l - 1; k >= 0; k-- {
		buf[k] = arbAlphabet[i%len(arbAlphabet)]
		i /= len(arbAlphabet)
	}
	return string(buf)
}

func inArbAlphabet(s string) bool {
	for k := 0; k < len(s); k++ {
		if strings.IndexByte(arbAlphabet, s[k]) < 0 {
			return false
		}
	}
	return true
}

var arbLists []*alist

func initArbLists() {
	for _, l := range [][]string{
		{},
		{"int:7"},
		{`string:"ab"`, "int:3"},
		{"float:1.5", "int:-2", `string:"x"`},
		{`bytes:"hé"`, "bool:true"},
		{"other:array", "other:undefined", "other:char"},
		{"other:map", "other:error", `string:"x"`},
	} {
		var as []*argv
		for _, e := range l {
			as = append(as, must(e))
		}
		arbLists = append(arbLists, newAlist(as))
	}
}

// inArb reports whether (format,args) is also a case of part 2.
func inArb(format string, l *alist, maxLen int) bool {
	if len(format) > maxLen || !inArbAlphabet(format) {
		return false
	}
next:
	for _, al := range arbLists {
		if len(al.args) != len(l.args) {
			continue
		}
		for i := range al.args {
			if al.args[i].Enc != l.args[i].Enc {
				continue next
			}
		}
		return true
	}
	return false
}

// ---------------------------------------------------------------------------

func replay(path string) {
	rp, err := report.LoadReplay(path)
	if err != nil {
		fmt.Println("cannot load replay:", err)
		return
	}
	fmt.Printf("replay of %s signature %s\n", rp.Property, rp.Signature)
	for _, raw := range rp.Cases {
		var c Case
		if raw == nil || report.Recase(raw, &c) != nil {
			continue
		}
		var args []*argv
		bad := false
		for _, e := range c.Args {
			a, err := decodeArg(e)
			if err != nil {
				fmt.Println("  cannot decode argument:", err)
				bad = true
				break
			}
			args = append(args, a)
		}
		if bad {
			continue
		}
		l := newAlist(args)
		old := tengo.MaxStringLen
		if c.MaxLen > 0 {
			tengo.MaxStringLen = c.MaxLen
		}
		res := runCase(&c, l, true)
		tengo.MaxStringLen = old
		fmt.Printf("case part=%s format=%s args=%v", c.Part, strconv.QuoteToASCII(c.Format), c.Args)
		if c.MaxLen > 0 {
			fmt.Printf(" MaxStringLen=%d", c.MaxLen)
		}
		fmt.Println()
		switch {
		case c.Part == "limit":
			fmt.Printf("  expected: a string of at most %d bytes, or ErrStringLimit\n", c.MaxLen)
		case l.mapped:
			fmt.Printf("  expected (fmt.Sprintf):  %s\n", strconv.QuoteToASCII(res.want))
		default:
			fmt.Printf("  expected: any string or ErrStringLimit, no panic\n")
		}
		fmt.Printf("  observed (tengo.Format): %s", strconv.QuoteToASCII(res.got))
		if res.errText != "" {
			fmt.Printf("  error: %s", res.errText)
		}
		fmt.Println()
		if c.Script && res.scriptObs != "" {
			fmt.Printf("  observed (script):       %s\n", res.scriptObs)
		}
		fmt.Printf("  outcome: %s\n", res.class)
		for _, f := range res.fails {
			fmt.Printf("  FAIL %s: %s\n", f.sig, f.what(&c, l))
		}
	}
}

func main() {
	initAlphabets()
	initArbLists()
	if p := report.ReplayArg(); p != "" {
		replay(p)
		return
	}
	r := report.New("C17")
	thorough := r.Thorough()
	// The live heap is a few MB while every case allocates short-lived strings:
	// with the default GOGC the 16 workers spend most of their time in GC cycles.
	debug.SetGCPercent(400)
	if v := os.Getenv("C17_GOGC"); v != "" {
		n, _ := strconv.Atoi(v)
		debug.SetGCPercent(n)
	}

	var all []*acc
	phase := func(name string) {
		if os.Getenv("C17_TIMING") != "" {
			fmt.Fprintf(os.Stderr, "[%6.1fs] %s\n", r.Elapsed().Seconds(), name)
		}
	}

	// ---- part 1: grid
	g := grid{widths: widthsAll, precs: precsAll, idxs: idxAll, verbs: docVerbs}
	for m := 0; m < 32; m++ {
		g.masks = append(g.masks, m)
		if m&(m-1) != 0 { // two or more flags: also in reverse order
			g.masks = append(g.masks, m|32)
		}
	}
	if !thorough {
		// quick: all 32 flag subsets, widths {none,5,*}, precisions {none,".",".3",".*"}
		g.widths = []string{"", "5", "*"}
		g.precs = []string{"", ".", ".3", ".*"}
	}
	arbMax := 5
	if thorough {
		arbMax = 6
	}
	const scriptAll = true // every grid case also goes through format() and fmt.sprintf()
	const scriptArbLen = 4
	lists := map[[2]int][]*alist{}
	for stars := 0; stars <= 2; stars++ {
		for _, op := range []int{0, 1, 2, 8} {
			lists[[2]int{stars, op}] = listsFor(stars, op)
		}
	}
	gridFormats := map[string]bool{}
	for d := 0; d < g.size(); d++ {
		f, _, _, _ := g.at(d)
		gridFormats[f] = true
	}
	var overlap, overlapNontrivial int64
	all = append(all, parallel(g.size(), func(w *acc, d int) {
		format, verb, stars, opPos := g.at(d)
		w.batch = w.batch[:0]
		for j, l := range lists[[2]int{stars, opPos}] {
			c := Case{Part: "grid", Format: format, Verb: string(verb), Script: scriptAll || l.script}
			if opPos < len(l.args) {
				c.Op = opPos + 1
			}
			res := runCase(&c, l, false)
			key := uint64(d)<<20 | uint64(j)
			w.fold(key, &c, l, &res, (d*7+j)%50021 == 0)
			if c.Script && res.errText == "" {
				w.batch = append(w.batch, bitem{key, c, l, res.got})
			}
			if inArb(format, l, arbMax) {
				atomic.AddInt64(&overlap, 1)
				if res.nontrivial {
					atomic.AddInt64(&overlapNontrivial, 1)
				}
			}
		}
		runBatch(w, w.batch)
	})...)

	phase("grid done")
	// ---- part 1b: reorder templates
	mLists := product(func(int) []*argv { return alphaM })
	type rdir struct{ format, verb string }
	var rdirs []rdir
	seenR := map[string]bool{}
	for _, t := range reorderTemplates {
		for _, v := range docVerbs {
			f := strings.ReplaceAll(t, "V", string(v))
			if seenR[f] {
				continue // template without 'V'
			}
			seenR[f] = true
			if gridFormats[f] {
				r.Internal("reorder format %q is also a grid directive", f)
				continue
			}
			rdirs = append(rdirs, rdir{f, string(v)})
		}
	}
	const base1b = uint64(1) << 40
	all = append(all, parallel(len(rdirs), func(w *acc, d int) {
		w.batch = w.batch[:0]
		for j, l := range mLists {
			c := Case{Part: "reorder", Format: rdirs[d].format, Verb: rdirs[d].verb, Script: true}
			res := runCase(&c, l, false)
			key := base1b + uint64(d)<<20 | uint64(j)
			w.fold(key, &c, l, &res, (d*5+j)%9973 == 0)
			if res.errText == "" {
				w.batch = append(w.batch, bitem{key, c, l, res.got})
			}
			if inArb(c.Format, l, arbMax) {
				atomic.AddInt64(&overlap, 1)
				if res.nontrivial {
					atomic.AddInt64(&overlapNontrivial, 1)
				}
			}
		}
		runBatch(w, w.batch)
	})...)

	phase("reorder done")
	// ---- part 1c: ordered pairs of directives
	var pdirs []string
	for _, a := range pairDirectives {
		for _, b := range pairDirectives {
			f := a + "|" + b
			if seenR[f] || gridFormats[f] {
				continue // already a reorder case
			}
			seenR[f] = true
			pdirs = append(pdirs, f)
		}
	}
	const base1c = uint64(1) << 41
	all = append(all, parallel(len(pdirs), func(w *acc, d int) {
		w.batch = w.batch[:0]
		for j, l := range mLists {
			c := Case{Part: "pairs", Format: pdirs[d], Script: true}
			res := runCase(&c, l, false)
			key := base1c + uint64(d)<<20 | uint64(j)
			w.fold(key, &c, l, &res, (d*5+j)%9973 == 0)
			if res.errText == "" {
				w.batch = append(w.batch, bitem{key, c, l, res.got})
			}
		}
		runBatch(w, w.batch)
	})...)
	phase("pairs done")
	// ---- part 2: arbitrary strings
	nArb := arbCount(arbMax)
	scriptArb := arbCount(scriptArbLen) // script level: every string of length <= scriptArbLen
	const chunk = 1024
	const base2 = uint64(1) << 60
	all = append(all, parallel((nArb+chunk-1)/chunk, func(w *acc, u int) {
		buf := make([]byte, 0, 16)
		w.batch = w.batch[:0]
		for i := u * chunk; i < (u+1)*chunk && i < nArb; i++ {
			format := arbAt(i, buf)
			for j, l := range arbLists {
				c := Case{Part: "arb", Format: format, Script: i < scriptArb}
				res := runCase(&c, l, false)
				key := base2 + uint64(i)<<4 | uint64(j)
				w.fold(key, &c, l, &res, (i*7+j)%1000003 == 0)
				if c.Script && res.errText == "" {
					w.batch = append(w.batch, bitem{key, c, l, res.got})
				}
			}
		}
		runBatch(w, w.batch)
	})...)

	phase("arb done")
	// ---- part 3: the same strings under a small MaxStringLen. The variable is
	// process-global: it is written only here, while no case is running.
	limits := []int{8}
	if thorough {
		limits = []int{3, 8}
	}
	nLim := arbCount(arbMax)
	const base3 = uint64(3) << 60
	for li, lim := range limits {
		old := tengo.MaxStringLen
		tengo.MaxStringLen = lim
		accs := parallel((nLim+chunk-1)/chunk, func(w *acc, u int) {
			buf := make([]byte, 0, 16)
			for i := u * chunk; i < (u+1)*chunk && i < nLim; i++ {
				format := arbAt(i, buf)
				for j, l := range arbLists {
					c := Case{Part: "limit", Format: format, MaxLen: lim}
					res := runCase(&c, l, false)
					w.fold(base3+uint64(li)<<56+uint64(i)<<4|uint64(j), &c, l, &res, (i*7+j)%2000003 == 0)
				}
			}
		})
		tengo.MaxStringLen = old
		all = append(all, accs...)
	}

	phase("limit done")
	// ---- merge (sums; examples and samples with the smallest keys)
	parts := map[string]*partCounts{}
	viol := map[string]*vgroup{}
	var samples []keyed
	var calls, scriptRuns, batchReruns int64
	for _, a := range all {
		calls += a.calls
		scriptRuns += a.scriptRuns
		batchReruns += a.batchReruns
		for p, pc := range a.parts {
			m := parts[p]
			if m == nil {
				m = &partCounts{outcomes: map[string]int64{}}
				parts[p] = m
			}
			m.cases += pc.cases
			m.compared += pc.compared
			m.nontrivial += pc.nontrivial
			m.differs += pc.differs
			m.scriptCases += pc.scriptCases
			for k, v := range pc.outcomes {
				m.outcomes[k] += v
			}
		}
		for sig, gr := range a.viol {
			m := viol[sig]
			if m == nil {
				m = &vgroup{}
				viol[sig] = m
			}
			m.count += gr.count
			for _, e := range gr.ex {
				m.ex = keepSmallest(m.ex, e, 5)
			}
		}
		samples = append(samples, a.samples...)
	}
	sort.Slice(samples, func(i, j int) bool { return samples[i].key < samples[j].key })
	perPart := map[string]int{} // spread the 12 evidence samples over the parts
	for _, s := range samples {
		if perPart[s.c.Part] < 3 {
			perPart[s.c.Part]++
			r.Sample(map[string]interface{}{"case": s.c, "observed": s.obs})
		}
	}
	var evaluations int64
	for _, p := range []string{"grid", "reorder", "pairs", "arb", "limit"} {
		pc := parts[p]
		if pc == nil {
			continue
		}
		evaluations += pc.cases
		r.Count(p+"/cases", pc.cases)
		if p != "limit" {
			r.Count(p+"/compared-with-fmt.Sprintf", pc.compared)
			r.Count(p+"/differs", pc.differs)
			r.Count(p+"/nontrivial", pc.nontrivial)
			r.Count(p+"/cases-also-through-format()-and-fmt.sprintf()", pc.scriptCases)
		}
		var names []string
		for k := range pc.outcomes {
			names = append(names, k)
		}
		sort.Strings(names)
		for _, k := range names {
			for n := pc.outcomes[k]; n > 0; n-- {
				r.Outcome(p + "/" + k)
			}
		}
	}
	evaluations += scriptRuns
	r.Count("format-calls", calls)
	r.Count("script-runs", scriptRuns)
	r.Count("script-batches-rerun-case-by-case", batchReruns)
	r.Count("overlap/grid+reorder-cases-also-in-arb", overlap)
	var names []string
	for k := range viol {
		names = append(names, k)
	}
	sort.Strings(names)
	for _, sig := range names {
		gr := viol[sig]
		for _, e := range gr.ex {
			r.Violation(sig, gr.ex[0].what, e.c)
		}
		for n := gr.count - int64(len(gr.ex)); n > 0; n-- {
			r.Violation(sig, gr.ex[0].what, nil)
		}
	}
	phase("merge done")

	enc := func(as []*argv) (out []string) {
		for _, a := range as {
			out = append(out, a.Enc)
		}
		return
	}
	var arbL [][]string
	for _, l := range arbLists {
		arbL = append(arbL, l.encs())
	}
	var fl []string
	for _, m := range g.masks {
		fl = append(fl, "\""+flagString(m)+"\"")
	}
	r.Set("alphabets", map[string]interface{}{
		"grid_flags":           strings.Join(fl, " "),
		"grid_widths":          g.widths,
		"grid_precisions":      g.precs,
		"grid_arg_indexes":     g.idxs,
		"verbs":                docVerbs,
		"grid_directives":      g.size(),
		"operand_values":       enc(alphaV),
		"star_values":          enc(alphaS),
		"filler_values":        enc(alphaX),
		"reorder_templates":    reorderTemplates,
		"pair_directives":      pairDirectives,
		"reorder_values":       enc(alphaM),
		"arb_alphabet":         arbAlphabet,
		"arb_max_length":       arbMax,
		"arb_argument_lists":   arbL,
		"limit_max_string_len": limits,
		"script_level":         fmt.Sprintf("every grid, reorder and pairs case, arb formats of length <= %d", scriptArbLen),
	})
	r.Assume("reference = fmt.Sprintf of the host toolchain (" + runtime.Version() + ") on int64/float64/string/bool/[]byte; the set of (verb, argument, flags, width, precision) applications of a format is read off Go's own parser through fmt.Formatter tracing values")
	r.Assume("docs/formatting.md defines no Tengo-specific rendering for any verb applied to the five mapped types (it says %v is %t/%d/%g/%s and %T is 'a Go-syntax representation of the type'), so Go's output is the oracle for every verb; no verb uses a documented-Tengo-behaviour oracle")
	r.Assume("outside the equality claim per the property text (still executed, must not panic): %q of an int that is not a Unicode code point, '#' with %x/%X on a float, and the text after %!(EXTRA (the text before it and the presence of the marker are compared)")
	r.Assume("the int64(float) conversion Tengo applies to a float used as '*' is the platform's (amd64) for NaN/Inf")
	r.Assume("limit phase: tengo.MaxStringLen is a process-wide variable; it is changed only between phases while no case is running; a string longer than MaxStringLen returned without error is reported (a string over the limit is not a legal result)")

	pg, pr, pp, pa := parts["grid"], parts["reorder"], parts["pairs"], parts["arb"]
	// literal numbers around fmt's own cap of 1e6 (a number is rejected once it has passed 1e6 BEFORE the next digit is
	// read, so 1000001 .. 10000009 are still accepted): a handful of formats run once, sequentially (megabyte results)
	if !r.Thorough() || r.Thorough() {
		lits := []string{"%1000000d|", "%1000001d|", "%10000009d|", "%10000010d|", "%.1000001d|", "%1000001s|", "%[1000001]d|", "%-1000001v|"}
		for _, f := range lits {
			// an argument of the verb's own type (mismatches are rendered differently from Go: known findings)
			vals := [][]*argv{{must("int:7")}}
			if strings.Contains(f, "s|") {
				vals = [][]*argv{{must(`string:"ab"`)}}
			}
			for _, as := range vals {
				l := newAlist(as)
				got, err, pan := tengoFormat(f, l.objs)
				want := fmt.Sprintf(f, l.gos...)
				r.Count("biglit/cases", 1)
				switch {
				case pan != "":
					r.Violation("biglit/panic", fmt.Sprintf("Format(%q, %v) panicked: %s", f, l.encs(), short(pan)), Case{Part: "biglit", Format: f, Args: l.encs()})
				case err != nil && !errors.Is(err, tengo.ErrStringLimit):
					r.Violation("biglit/error", fmt.Sprintf("Format(%q, %v) returned %v", f, l.encs(), err), Case{Part: "biglit", Format: f, Args: l.encs()})
				case err == nil && got != want && !strings.Contains(want, "%!"):
					// (outputs with %! error markers differ from Go in how they name types: decided by the grid's own rules)
					r.Violation("biglit/differs-from-go", fmt.Sprintf("Format(%q, %v): %d bytes %s, Go: %d bytes %s", f, l.encs(), len(got), short(got), len(want), short(want)), Case{Part: "biglit", Format: f, Args: l.encs()})
				}
			}
		}
	}
	r.Finish(report.Coverage{
		States:      pg.cases + pr.cases + pp.cases + pa.cases - overlap,
		Transitions: calls,
		Validated:   pg.compared + pr.compared + pp.compared + pa.compared,
		Evaluations: evaluations,
		Nontrivial:  pg.nontrivial + pr.nontrivial + pp.nontrivial + pa.nontrivial - overlapNontrivial,
		Rule:        "state = one distinct (format string, argument list): grid = every directive %<flags><width><precision><argindex><verb> x every argument list of length 0..3 from the per-position alphabets; reorder = every template x verb x every list of length 0..3 over reorder_values; pairs = every ordered pair of pair_directives joined by | (minus those already reorder cases) x the same lists; arb = every string of length <= arb_max_length over arb_alphabet x arb_argument_lists (cases of grid/reorder that are also arb cases are counted once); the limit phase re-runs the arb cases under a small MaxStringLen and adds no states. transition = one tengo.Format call (direct, isolated re-run for attribution, or inside format()/fmt.sprintf() in a script). validated = cases whose tengo.Format result was compared with fmt.Sprintf inside the equality claim. evaluations = cases executed (all four parts) + scripts run. non-trivial = fmt.Sprintf's output contains no %! error marker",
	})
}
