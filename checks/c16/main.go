// C16: self tail calls run in constant frame space at any depth.
//
// Exhaustive over: parameter shapes x extra locals x per-iteration closure
// capture x 13 syntactic call contexts (tail and non-tail) x recursion
// depths around every capacity boundary and far beyond (up to 10^6). The
// oracle is the reference interpreter (engine/ref), which knows syntactic
// tail position and runs tail self-calls as a loop: tail-position programs
// must complete at every depth with the loop-equivalent value and the
// per-iteration captured values; non-tail programs must give the reference
// value while within capacity and an error beyond it, never a wrong value.
package main

import (
	"fmt"
	"strings"
	"sync/atomic"

	"github.com/d5/tengo/v2"
	"verif/engine/bcv"
	"verif/engine/gen"
	"verif/engine/ref"
	"verif/engine/report"
	"verif/engine/tg"
	"verif/engine/val"
)

type Case struct {
	Params  string `json:"params"`  // n | n,a | n,a,b | n,...r
	Locals  int    `json:"locals"`  // extra locals 0..2
	Capture bool   `json:"capture"` // closure capturing the parameters each iteration
	Context string `json:"context"`
	Depth   int    `json:"depth"`
	Nest    int    `json:"nest,omitempty"` // frames already in use when f is first called (a non-tail, one-slot-per-frame wrapper recursion)
}

type fail struct{ sig, what string }

// contexts: name -> (tail position per the documented rule?, claimed by the property?)
var contexts = []struct {
	name    string
	tail    bool // syntactic tail position (return f(..), also right operand of && / ||)
	ternary bool // ternary branch: not claimed either way (value-or-error accepted)
}{
	{"return-call", true, false},
	{"return-and", true, false},
	{"return-or", true, false},
	{"if-else-return", true, false},
	{"loop-return", true, false},
	{"method-return", true, false},
	{"paren-return", true, false},
	// instructions removed by the optimiser earlier in the function (the offsets of everything after them shift)
	{"dead-code-return-or", true, false},
	{"dead-code-return-and", true, false},
	{"dead-code-return-call", true, false},
	{"ternary-true", false, true},
	{"ternary-false", false, true},
	{"return-plus0", false, false},
	{"assign-then-return", false, false},
	{"last-statement", false, true}, // discarded result then implicit return: frame reuse is an unclaimed, value-preserving optimisation
	{"stmt-then-return", false, false},
	{"return-in-array", false, false},
	// the call is the operand of a one-instruction wrapper that stands between CALL and RETURN
	{"return-immutable", false, false},
	{"return-error", false, false},
	{"return-not", false, false},
	// the self call is the LEFT operand of a short-circuit operator: the jump that follows it must still run
	{"return-call-or-x", false, false},
	{"return-call-and-x", false, false},
	// two recursive sites of different shape in one function (frame reuse state must survive the alternation)
	{"mixed-odd-returns", false, true},
	{"mixed-even-returns", false, true},
	{"mixed-return-at-1", false, true},
	{"mixed-discard-at-1", false, true},
	// two closure instances of ONE function literal (same code, different captured values) calling each other in
	// return position: not a self call, so never frame reuse - each activation keeps its own captured variables
	{"sibling-closures", false, false},
}

func ctxInfo(name string) (tail, ternary bool) {
	for _, c := range contexts {
		if c.name == name {
			return c.tail, c.ternary
		}
	}
	return false, false
}

// build: f counts n down to 0 accumulating in a (when present); returns a (or n-based value).
func build(c Case) *gen.Program {
	I, N, B := gen.I, gen.N, gen.B
	if c.Context == "sibling-closures" {
		lit := &gen.FuncLit{Params: []string{"n", "me", "other"}, Body: []gen.Stmt{
			&gen.If{Cond: B("==", I("n"), N("0")), Then: []gen.Stmt{&gen.Return{X: &gen.ArrayLit{Elems: []gen.Expr{I("k"), I("n")}}}}},
			&gen.Return{X: &gen.Call{F: I("other"), Args: []gen.Expr{B("-", I("n"), N("1")), I("other"), I("me")}}}}}
		mk := &gen.FuncLit{Params: []string{"k"}, Body: []gen.Stmt{&gen.Return{X: lit}}}
		return &gen.Program{Main: []gen.Stmt{
			gen.Def("mk", mk), gen.Def("fa", C("mk", N("1"))), gen.Def("fb", C("mk", N("2"))),
			gen.Def("out", &gen.Call{F: I("fa"), Args: []gen.Expr{N(fmt.Sprint(c.Depth)), I("fa"), I("fb")}}),
			gen.Def("out2", &gen.Call{F: I("fb"), Args: []gen.Expr{N(fmt.Sprint(c.Depth)), I("fb"), I("fa")}}),
			gen.Set(I("mk"), gen.Undef()), gen.Set(I("fa"), gen.Undef()), gen.Set(I("fb"), gen.Undef())}}
	}
	var params []string
	variadic := false
	switch c.Params {
	case "n":
		params = []string{"n"}
	case "n,a":
		params = []string{"n", "a"}
	case "n,k":
		params = []string{"n", "k"}
	case "n,a,b":
		params = []string{"n", "a", "b"}
	case "n,...r", "n,...v":
		params, variadic = []string{"n", "r"}, true
	}
	// recursive call expression with updated arguments
	callee := gen.Expr(I("f"))
	if c.Context == "method-return" {
		callee = &gen.Sel{X: I("m"), Name: "f"}
	}
	// the extra locals (l0 = n + 0, l1 = n + 1) stay live until the recursive call: its arguments are computed from
	// them, so the slots must survive the evaluation of the callee and the earlier arguments
	next := gen.Expr(B("-", I("n"), N("1")))
	one := gen.Expr(N("1"))
	if c.Locals >= 1 {
		next = B("-", I("l0"), N("1"))
	}
	if c.Locals >= 2 {
		one = B("-", I("l1"), I("l0"))
	}
	var args []gen.Expr
	args = append(args, next)
	switch c.Params {
	case "n,k":
		args = append(args, I("k")) // handed on unchanged
	case "n,a":
		args = append(args, B("+", I("a"), one))
	case "n,a,b":
		args = append(args, B("+", I("a"), one), I("a"))
	}
	call := &gen.Call{F: callee, Args: args}
	if c.Params == "n,...r" {
		// pass the rest through a spread, growing it only at the first step so that arrays stay small
		call = &gen.Call{F: callee, Args: []gen.Expr{next, I("r")}, Spread: true}
	}
	if c.Params == "n,...v" {
		// explicit rest arguments that differ in every iteration (a re-used rest array would show)
		call = &gen.Call{F: callee, Args: []gen.Expr{next, I("n"), B("*", I("n"), N("10"))}}
	}
	// base value
	var base gen.Expr = N("100")
	switch c.Params {
	case "n,k":
		base = I("k")
	case "n,a":
		base = I("a")
	case "n,a,b":
		base = &gen.ArrayLit{Elems: []gen.Expr{I("a"), I("b")}}
	case "n,...r", "n,...v":
		base = C("len", I("r"))
	}
	var body []gen.Stmt
	for i := 0; i < c.Locals; i++ {
		body = append(body, gen.Def(fmt.Sprintf("l%d", i), B("+", I("n"), N(fmt.Sprint(i)))))
	}
	if c.Capture {
		// remember a closure over this iteration's parameter; keep only the first two and the last
		var capv gen.Expr = I("n")
		if c.Params == "n,k" {
			capv = &gen.ArrayLit{Elems: []gen.Expr{I("n"), I("k")}} // k is handed on unchanged, then assigned in a later iteration
		}
		cap := &gen.FuncLit{Body: []gen.Stmt{&gen.Return{X: capv}}}
		body = append(body, &gen.If{Cond: B("<", C("len", I("acc")), N("2")),
			Then: []gen.Stmt{gen.Set(I("acc"), C("append", I("acc"), cap))}})
		body = append(body, gen.Set(I("lastc"), cap))
		if variadic {
			// the variadic array of an earlier iteration stays what it was
			body = append(body, &gen.If{Cond: B("<", C("len", I("racc")), N("2")),
				Then: []gen.Stmt{gen.Set(I("racc"), C("append", I("racc"), I("r"), I("n")))}})
		}
	}
	if c.Params == "n,k" {
		// a later iteration assigns the parameter (after the closures of the earlier iterations captured it)
		body = append(body, &gen.If{Cond: B("==", I("n"), N("1")), Then: []gen.Stmt{gen.Set(I("k"), N("-1"))}})
	}
	isZero := B("==", I("n"), N("0"))
	baseRet := &gen.If{Cond: isZero, Then: []gen.Stmt{&gen.Return{X: base}}}
	switch c.Context {
	case "return-call", "method-return":
		body = append(body, baseRet, &gen.Return{X: call})
	case "paren-return":
		body = append(body, baseRet, &gen.Return{X: &gen.Paren{X: call}})
	case "dead-code-return-or", "dead-code-return-and", "dead-code-return-call":
		// the short-circuit forms end the recursion through their left operand (truthy / falsy at n == 0), so the
		// guarded return with the removed statements is never taken there
		cond := gen.Expr(isZero)
		if c.Context != "dead-code-return-call" {
			cond = B("<", I("n"), N("0"))
		}
		dead := &gen.If{Cond: cond, Then: []gen.Stmt{&gen.Return{X: base}, gen.Def("dead", N("1")), gen.Set(I("dead"), B("+", I("dead"), N("2")))},
			Else: []gen.Stmt{gen.Def("live", N("0"))}}
		var ret gen.Expr = call
		switch c.Context {
		case "dead-code-return-or":
			ret = B("||", B("==", I("n"), N("0")), call)
		case "dead-code-return-and":
			ret = B("&&", B(">", I("n"), N("0")), call)
		}
		body = append(body, dead, &gen.Return{X: ret})
	case "return-and":
		body = append(body, baseRet, &gen.Return{X: B("&&", B(">", I("n"), N("0")), call)})
	case "return-or":
		body = append(body, baseRet, &gen.Return{X: B("||", B("<", I("n"), N("0")), call)})
	case "if-else-return":
		body = append(body, &gen.If{Cond: B(">", I("n"), N("0")), Then: []gen.Stmt{&gen.Return{X: call}}, Else: []gen.Stmt{&gen.Return{X: base}}})
	case "loop-return":
		body = append(body, baseRet, &gen.For{Body: []gen.Stmt{&gen.Return{X: call}}})
	case "ternary-true":
		body = append(body, &gen.Return{X: &gen.Cond{C: B(">", I("n"), N("0")), T: call, F: base}})
	case "ternary-false":
		body = append(body, &gen.Return{X: &gen.Cond{C: isZero, T: base, F: call}})
	case "return-plus0":
		body = append(body, baseRet, &gen.Return{X: B("+", call, N("0"))})
	case "assign-then-return":
		body = append(body, baseRet, gen.Def("x", call), &gen.Return{X: I("x")})
	case "last-statement":
		body = append(body, baseRet, &gen.ExprStmt{X: call})
	case "stmt-then-return":
		body = append(body, baseRet, &gen.ExprStmt{X: call}, &gen.Return{X: N("7")})
	case "return-immutable":
		body = append(body, baseRet, &gen.Return{X: &gen.Immutable{X: call}})
	case "return-error":
		body = append(body, baseRet, &gen.Return{X: &gen.ErrorE{X: call}})
	case "return-not":
		body = append(body, baseRet, &gen.Return{X: &gen.Un{Op: "!", X: call}})
	case "return-call-or-x":
		body = append(body, baseRet, &gen.Return{X: B("||", call, I("n"))})
	case "return-call-and-x":
		body = append(body, baseRet, &gen.Return{X: B("&&", call, I("n"))})
	case "return-in-array":
		body = append(body, baseRet, &gen.Return{X: &gen.Index{X: &gen.ArrayLit{Elems: []gen.Expr{call}}, I: N("0")}})
	case "mixed-odd-returns":
		body = append(body, baseRet, &gen.If{Cond: B("==", B("%", I("n"), N("2")), N("1")), Then: []gen.Stmt{&gen.Return{X: call}}}, &gen.ExprStmt{X: call})
	case "mixed-even-returns":
		body = append(body, baseRet, &gen.If{Cond: B("==", B("%", I("n"), N("2")), N("0")), Then: []gen.Stmt{&gen.Return{X: call}}}, &gen.ExprStmt{X: call})
	case "mixed-return-at-1":
		body = append(body, baseRet, &gen.If{Cond: B("==", I("n"), N("1")), Then: []gen.Stmt{&gen.Return{X: call}}}, &gen.ExprStmt{X: call})
	case "mixed-discard-at-1":
		body = append(body, baseRet, &gen.If{Cond: B("!=", I("n"), N("1")), Then: []gen.Stmt{&gen.Return{X: call}}}, &gen.ExprStmt{X: call})
	}
	first := []gen.Expr{N(fmt.Sprint(c.Depth))}
	switch c.Params {
	case "n,k":
		first = append(first, N("5"))
	case "n,a":
		first = append(first, N("0"))
	case "n,a,b":
		first = append(first, N("0"), N("0"))
	case "n,...r", "n,...v":
		first = append(first, N("8"), N("9"))
	}
	main := []gen.Stmt{
		gen.Def("acc", &gen.ArrayLit{}),
		gen.Def("lastc", gen.Undef()),
		gen.Def("racc", &gen.ArrayLit{}),
		gen.Def("m", &gen.MapLit{}),
		gen.Def("f", &gen.FuncLit{Params: params, VarArgs: variadic, Body: body}),
		gen.Set(&gen.Sel{X: I("m"), Name: "f"}, I("f")),
	}
	if c.Nest > 0 {
		// wrap := func() { if g == 0 { return f(first...) }; g -= 1; return [wrap()][0] }: Nest frames below f
		main = append(main, gen.Def("g", N(fmt.Sprint(c.Nest-1))),
			gen.Def("wrap", &gen.FuncLit{Body: []gen.Stmt{
				&gen.If{Cond: B("==", I("g"), N("0")), Then: []gen.Stmt{&gen.Return{X: &gen.Call{F: I("f"), Args: first}}}},
				&gen.Assign{LHS: I("g"), Op: "-=", RHS: N("1")},
				&gen.Return{X: &gen.Index{X: &gen.ArrayLit{Elems: []gen.Expr{C("wrap")}}, I: N("0")}},
			}}),
			gen.Def("out", C("wrap")), gen.Set(I("wrap"), gen.Undef()))
	} else {
		main = append(main, gen.Def("out", &gen.Call{F: I("f"), Args: first}))
	}
	if c.Capture {
		// the captured parameters of the first, second and last iteration
		main = append(main,
			gen.Def("cap0", &gen.Call{F: &gen.Index{X: I("acc"), I: N("0")}}),
			gen.Def("caplast", &gen.Call{F: I("lastc")}),
		)
	}
	main = append(main, gen.Set(I("acc"), gen.Undef()), gen.Set(I("lastc"), gen.Undef()),
		gen.Set(I("m"), gen.Undef()), gen.Set(I("f"), gen.Undef()))
	return &gen.Program{Main: main}
}

func C(name string, args ...gen.Expr) *gen.Call { return &gen.Call{F: gen.I(name), Args: args} }

func runCase(c Case) (fails []fail, obs string) {
	prog := build(c)
	src := tg.Print(prog)
	tail, ternary := ctxInfo(c.Context)
	add := func(kind, what string) {
		sig := fmt.Sprintf("%s/context=%s/params=%s/locals=%d/capture=%v", kind, c.Context, c.Params, c.Locals, c.Capture)
		if c.Nest > 0 {
			sig += fmt.Sprintf("/nest=%d", c.Nest)
		}
		fails = append(fails, fail{sig, what})
	}
	// reference: loop semantics for tail position, depth-limited otherwise
	r := ref.Run(prog, nil, 40*c.Depth+100000)
	if r.Class == "budget" || r.Class == "unsupported" || r.Class == "compile-error" {
		add("internal-reference", "reference did not produce a verdict: "+r.Class+" "+r.Err)
		return fails, "ref:" + r.Class
	}
	if strings.HasPrefix(c.Context, "mixed-") && r.Class != "ok" {
		return nil, "n/a:reference-out-of-frames"
	}
	o := tg.Run(src.Main.Src, tg.Opts{})
	if o.Class == "panic" || o.Class == "compile-error" || o.Class == "budget" {
		add("impl-"+o.Class, tg.FirstLine(o.ErrText))
		return fails, "impl:" + o.Class
	}
	expect := r
	if ternary && r.Class != "ok" && r.Kind == "stack-overflow" {
		// unclaimed optimisation beyond the frame capacity: the value, if any, must be the loop value,
		// obtained from the sibling program whose call is in claimed tail position
		sib := c
		sib.Context = "return-call"
		expect = ref.Run(build(sib), nil, 40*c.Depth+100000)
		if c.Context == "last-statement" && expect.Globals != nil {
			expect.Globals["out"] = ref.Undefined
		}
	}
	sameGlobals := func() (bool, string) {
		for k, v := range expect.Globals {
			rs := ref.Snapshot(v)
			is := "undefined"
			if iv, ok := o.Globals[k]; ok {
				is = val.Snapshot(iv)
			}
			if rs != is {
				return false, fmt.Sprintf("global %s: reference %s, implementation %s", k, rs, is)
			}
		}
		return true, ""
	}
	obs = fmt.Sprintf("ref:%s|impl:%s", r.Class, o.Class)
	switch {
	case tail:
		// must complete at every depth with the loop-equivalent value
		if r.Class != "ok" {
			add("internal-reference", "tail-position program fails in the reference: "+r.Err)
			return
		}
		if o.Class != "ok" {
			add("tail-call-not-constant-space", fmt.Sprintf("depth %d: %s", c.Depth, tg.FirstLine(o.ErrText)))
			return
		}
		if ok, d := sameGlobals(); !ok {
			add("tail-call-wrong-value", fmt.Sprintf("depth %d: %s", c.Depth, d))
		}
	default:
		// not in tail position (or a ternary branch, which the property does not claim either way):
		// the reference value, or an error once a capacity may be exhausted; never a wrong value
		if o.Class == "ok" {
			if r.Class == "ok" {
				if ok, d := sameGlobals(); !ok {
					add("non-tail-call-wrong-value", fmt.Sprintf("depth %d: %s", c.Depth, d))
				}
			} else if !ternary {
				// the reference ran out of frames but the implementation completed
				add("non-tail-call-treated-as-tail", fmt.Sprintf("depth %d exceeds the frame capacity, yet the run completed", c.Depth))
			} else if expect.Class == "ok" {
				if ok, d := sameGlobals(); !ok {
					add("non-tail-call-wrong-value", fmt.Sprintf("depth %d (beyond frame capacity, optimised): %s", c.Depth, d))
				}
			}
			return
		}
		if r.Class == "runtime-error" && r.Kind != "stack-overflow" {
			return // the program fails for an ordinary reason in both
		}
		// implementation failed: acceptable only if a capacity can be exhausted at this depth
		d := tg.CompileDirect(src.Main.Src, nil, nil, false, true)
		slots := 8
		if d.Class == "ok" {
			for _, fr := range bcv.CheckBytecode(d.Bytecode, tengo.GlobalsSize, 64) {
				if fr.Name != "main" && fr.Fn.NumParameters > 0 && fr.Fn.NumLocals+fr.Res.MaxHeight+1 > slots {
					slots = fr.Fn.NumLocals + fr.Res.MaxHeight + 1
				}
			}
		}
		mayExhaust := c.Depth+1 >= tengo.MaxFrames-1 || (c.Depth+2)*slots >= tengo.StackSize
		if !mayExhaust {
			add("non-tail-call-fails-within-capacity", fmt.Sprintf("depth %d (%d slots/frame): %s", c.Depth, slots, tg.FirstLine(o.ErrText)))
		}
	}
	return
}

func main() {
	if p := report.ReplayArg(); p != "" {
		rp, err := report.LoadReplay(p)
		if err != nil {
			fmt.Println("cannot load replay:", err)
			return
		}
		for _, raw := range rp.Cases {
			var c Case
			_ = report.Recase(raw, &c)
			fails, obs := runCase(c)
			fmt.Printf("case %+v\n%s\n  observed: %s\n", c, tg.Print(build(c)).AllText, obs)
			for _, f := range fails {
				fmt.Printf("  FAIL %s: %s\n", f.sig, f.what)
			}
		}
		return
	}
	r := report.New("C16")
	depths := []int{0, 1, 2, 3, 400, 1021, 1022, 1023, 1024, 1025, 2049, 100000}
	if r.Thorough() {
		depths = append(depths, 300, 511, 682, 2047, 2048, 10000, 1000000)
	}
	var cases []Case
	for _, ps := range []string{"n", "n,a", "n,k", "n,a,b", "n,...r", "n,...v"} {
		for locals := 0; locals <= 2; locals++ {
			for _, capt := range []bool{false, true} {
				for _, cx := range contexts {
					for _, d := range depths {
						if capt && d > 2049 && !r.Thorough() {
							continue
						}
						if cx.name == "sibling-closures" && (ps != "n" || locals != 0 || capt) {
							continue // the shape has no parameter / local / capture variants
						}
						if strings.HasPrefix(cx.name, "mixed-") && d > 1025 {
							continue // beyond the reference's own frame budget the expected value is not defined by a sibling program
						}
						cases = append(cases, Case{Params: ps, Locals: locals, Capture: capt, Context: cx.name, Depth: d})
						// the same function first called when (almost) all frames are already in use: a self tail
						// call needs no new frame, so it completes there too
						if cx.tail && (d <= 3 || d == 2049 || d == 100000) {
							for _, nest := range []int{1021, 1022} {
								if nest == 1021 && !r.Thorough() {
									continue
								}
								cases = append(cases, Case{Params: ps, Locals: locals, Capture: capt, Context: cx.name, Depth: d, Nest: nest})
							}
						}
					}
				}
			}
		}
	}
	var validated int64
	nontrivial := report.NewDistinctSet()
	report.ParallelFor(len(cases), func(i int) {
		c := cases[i]
		fails, obs := runCase(c)
		atomic.AddInt64(&validated, 1)
		tail, _ := ctxInfo(c.Context)
		cls := "non-tail"
		if tail {
			cls = "tail"
		}
		r.Outcome(cls + "/" + obs)
		if c.Depth >= 1023 {
			nontrivial.Add(fmt.Sprintf("%+v", c))
		}
		if i%397 == 0 {
			r.Sample(map[string]interface{}{"case": c, "source": tg.Print(build(c)).AllText, "observed": obs})
		}
		for _, f := range fails {
			r.Violation(f.sig, f.what, c)
		}
	})
	r.Set("depths", depths)
	var names []string
	for _, c := range contexts {
		names = append(names, c.name)
	}
	r.Set("contexts", strings.Join(names, ","))
	r.Assume("tail position = return f(..), also as right operand of && / || (and through parentheses, if/else, loops, a map method referring to the same function); ternary branches are not claimed either way")
	r.Assume("non-tail recursion may fail once (depth+2)*(locals+operand slots) reaches the 2048-slot stack or depth reaches the 1024-frame limit; below that it must return the reference value")
	r.Finish(report.Coverage{
		States:      int64(len(cases)),
		Transitions: validated * 2,
		Validated:   validated,
		Evaluations: int64(len(cases)),
		Nontrivial:  nontrivial.Len(),
		Rule:        "cases = parameter shapes (4) x extra locals (0..2) x capture (2) x call contexts (14) x depths; state = one program; transition = one run of the reference + one of the implementation; non-trivial = cases whose depth is at or beyond the frame capacity (>= 1023)",
	})
}
