// C08: clones of a compiled script run concurrently without interference.
//
// Part 1 (clones): K threads each run Set; Run; GetAll on their own clone of
// one compiled script, under ALL interleavings of the real (instrumented) code;
// per-clone results must equal the sequential baseline in every terminal state,
// and the happens-before checker must see no unordered conflicting access.
// Part 2 (api): 2-3 threads x 1-2 calls from {Set, Get, GetAll, IsDefined, Run,
// RunContext, Clone} on ONE compiled object, all call assignments x all
// interleavings; every recorded call/return history is checked for
// linearizability against a sequential model (porcupine); the happens-before
// checker watches every field of Compiled and the globals' elements.
// Part 3 (shared writes): for every program of the program families: compile,
// clone twice, snapshot everything reachable from the second clone and from
// the original (reflectively, unexported fields included), run the first
// clone, snapshot again: any difference is memory written by one execution and
// reachable by another without synchronisation.
package main

import (
	"context"
	"fmt"
	"os"
	"path/filepath"
	"sort"
	"strings"
	"sync/atomic"

	"github.com/anishathalye/porcupine"
	"github.com/d5/tengo/v2"
	"github.com/d5/tengo/v2/stdlib"
	"verif/engine/deep"
	"verif/engine/gen"
	"verif/engine/report"
	"verif/engine/tg"
	"verif/engine/val"
	"verif/engine/vmk"
	"verif/engine/vsched"
)

// ---------------------------------------------------------------- part 1: clones

type cloneScript struct {
	name   string
	src    string
	mods   map[string]string
	inputs map[string]interface{}
	sets   []int // value of "a" set by thread i
	// builtin module "st" built from this template; every clone installs its own instance with
	// ReplaceBuiltinModule("st", template) before it runs (the documented way to give clones private modules)
	template func() map[string]tengo.Object
	rounds   int // Set + Run repeated (default once): the host's Set after a run meets what the run left in the globals
}

var curTemplate map[string]tengo.Object // the embedder's attribute table of the harness being explored

var cloneScripts = []cloneScript{
	{name: "string-constant-index", src: `s := "héllo"; c := s[a]; out := string(c) + s`, inputs: map[string]interface{}{"a": 0}, sets: []int{1, 2, 3}},
	{name: "closure-and-function-constants", src: `f := func(x) { return func() { return x + a } }; out := f(10)()`, inputs: map[string]interface{}{"a": 0}, sets: []int{1, 2, 3}},
	{name: "source-module", src: `m := import("mod"); out := m.get(a)`, mods: map[string]string{"mod": `k := [1, 2, 3]; export {get: func(i) { return k[i] }}`}, inputs: map[string]interface{}{"a": 0}, sets: []int{1, 2, 0}},
	{name: "mutable-input-array", src: `arr[0] = a; arr = append(arr, a); out := arr`, inputs: map[string]interface{}{"a": 0, "arr": []interface{}{0, 0}}, sets: []int{1, 2, 3}},
	{name: "immutable-input-with-mutable-child", src: `cfg.limits[0] += a; rows[1][0] += a; out := [cfg.limits[0], rows[1][0]]`,
		inputs: map[string]interface{}{"a": 0,
			"cfg":  &tengo.ImmutableMap{Value: map[string]tengo.Object{"limits": &tengo.Array{Value: []tengo.Object{&tengo.Int{Value: 10}}}}},
			"rows": &tengo.ImmutableArray{Value: []tengo.Object{&tengo.Int{Value: 0}, &tengo.Array{Value: []tengo.Object{&tengo.Int{Value: 20}}}}}},
		sets: []int{1, 2, 3}},
	// format() works on a printer taken from a process-wide pool: the only scratch state shared by ALL executions
	{name: "format-builtin", src: `out := format("%d-%s", a, "x")`, inputs: map[string]interface{}{"a": 0}, sets: []int{1, 2, 3}},
	{name: "replaced-builtin-module-with-mutable-attribute", src: `st := import("st"); st.state.n += a; out := st.state.n`, inputs: map[string]interface{}{"a": 0}, sets: []int{1, 2, 3},
		template: func() map[string]tengo.Object {
			return map[string]tengo.Object{"state": &tengo.Map{Value: map[string]tengo.Object{"n": &tengo.Int{Value: 0}}}}
		}},
	// after a run the input variable holds a literal of the script, i.e. a constant object shared by all clones; the
	// next Set must replace the variable's value, not write into that object
	{name: "input-reassigned-to-literal", src: `b := a; a = 3; out := b * 100 + a`, inputs: map[string]interface{}{"a": 0}, sets: []int{1, 2, 4}, rounds: 2},
	// an EMPTY global array that has spare capacity (as splice / slicing leave it): clones must not share it
	{name: "empty-input-array-with-capacity", src: `q = append(q, a); out := q`,
		inputs: map[string]interface{}{"a": 0, "q": &tengo.Array{Value: make([]tengo.Object, 0, 8)}}, sets: []int{1, 2, 3}},
	{name: "runtime-error-in-module", src: `m := import("mod")
out := m.f(a)`, mods: map[string]string{"mod": `export {f: func(x) {
	if x > 1 {
		return x + "s"
	}
	return x
}}`}, inputs: map[string]interface{}{"a": 0}, sets: []int{2, 3, 1}},
	{name: "runtime-error-position", src: `out := 0
if a > 0 {
	out = a + "x"
}`, inputs: map[string]interface{}{"a": 0}, sets: []int{1, 2, 3}},
}

type cloneWorld struct {
	s       *vsched.Sched
	tr      *vmk.Tracker
	clones  []*tengo.Compiled
	results []string
	want    []string
	done    []bool
}

type cloneHarness struct {
	sc cloneScript
	k  int
}

func compileClone(sc cloneScript) *tengo.Compiled {
	s := tengo.NewScript([]byte(sc.src))
	for k, v := range sc.inputs {
		_ = s.Add(k, v)
	}
	if sc.template != nil {
		mm := tengo.NewModuleMap()
		mm.AddBuiltinModule("st", curTemplate)
		s.SetImports(mm)
	}
	if sc.mods != nil {
		mm := tengo.NewModuleMap()
		for n, src := range sc.mods {
			mm.AddSourceModule(n, []byte(src))
		}
		s.SetImports(mm)
	}
	c, err := s.Compile()
	if err != nil {
		panic("clone script does not compile: " + err.Error())
	}
	return c
}

func runOne(cl *tengo.Compiled, a int, rounds int) string {
	if curTemplate != nil {
		cl.ReplaceBuiltinModule("st", curTemplate)
	}
	_ = cl.Set("a", a)
	err := cl.Run()
	for r := 1; r < rounds && err == nil; r++ {
		_ = cl.Set("a", a+10*r)
		err = cl.Run()
	}
	var parts []string
	for _, v := range cl.GetAll() {
		parts = append(parts, v.Name()+"="+val.Snapshot(v.Object()))
	}
	sort.Strings(parts)
	e := "nil"
	if err != nil {
		e = err.Error()
	}
	return "err=" + e + ";" + strings.Join(parts, ";")
}

func (h cloneHarness) Start(s *vsched.Sched) vsched.World {
	w := &cloneWorld{s: s, results: make([]string, h.k), want: make([]string, h.k), done: make([]bool, h.k)}
	// sequential baseline on an independent compilation (pass-through mode: no thread is running)
	curTemplate = nil
	if h.sc.template != nil {
		curTemplate = h.sc.template()
	}
	base := compileClone(h.sc)
	for i := 0; i < h.k; i++ {
		w.want[i] = runOne(base.Clone(), h.sc.sets[i], h.sc.rounds)
	}
	if h.sc.template != nil {
		curTemplate = h.sc.template() // a fresh table for the explored run (the baseline may have been written through)
	}
	c := compileClone(h.sc)
	w.tr = vmk.New(s)
	w.tr.NameFunctions("", c.VerifBytecode())
	for i := 0; i < h.k; i++ {
		w.clones = append(w.clones, c.Clone())
	}
	for i := 0; i < h.k; i++ {
		i := i
		s.Spawn(fmt.Sprintf("clone%d", i), func() {
			w.results[i] = runOne(w.clones[i], h.sc.sets[i], h.sc.rounds)
			w.done[i] = true
		})
	}
	return w
}

func (w *cloneWorld) Key() string {
	var sb strings.Builder
	for i, c := range w.clones {
		fmt.Fprintf(&sb, "c%d:%v:%s:%s|", i, w.done[i], w.results[i], vmk.Globals(c))
	}
	sb.WriteString(w.tr.Keys())
	return sb.String()
}
func (w *cloneWorld) CheckState() []string { return nil }
func (w *cloneWorld) Pending() bool        { return false }
func (w *cloneWorld) CheckTerminal() ([]string, string) {
	var out []string
	for i := range w.clones {
		if w.results[i] != w.want[i] {
			out = append(out, fmt.Sprintf("clone %d run concurrently gave %q, alone it gives %q", i, w.results[i], w.want[i]))
		}
	}
	return out, strings.Join(w.results, " || ")
}

// ---------------------------------------------------------------- part 2: api on one object

var apiOps = []string{"Set(a,5)", "Set(a,7)", "Get(a)", "Get(out)", "GetAll", "IsDefined(out)", "Run", "RunContext", "Clone"}

type apiWorld struct {
	s       *vsched.Sched
	tr      *vmk.Tracker
	c       *tengo.Compiled
	plan    [][]int
	clock   int64
	history []porcupine.Operation
	prog    []int
	outs    []string
}

type apiHarness struct{ plan [][]int }

func (h apiHarness) Start(s *vsched.Sched) vsched.World {
	w := &apiWorld{s: s, plan: h.plan, prog: make([]int, len(h.plan)), outs: make([]string, len(h.plan))}
	// the script also mutates a container global in place (Clone must not read it concurrently)
	sc := tengo.NewScript([]byte(`arr[0] += 1; out := a + 1`))
	_ = sc.Add("a", 1)
	_ = sc.Add("arr", []interface{}{0})
	c, err := sc.Compile()
	if err != nil {
		panic(err)
	}
	w.c = c
	w.tr = vmk.New(s)
	w.tr.NameFunctions("", c.VerifBytecode())
	for t := range h.plan {
		t := t
		s.Spawn(fmt.Sprintf("api%d", t), func() {
			for _, op := range h.plan[t] {
				w.clock++
				call := w.clock
				out := w.do(op)
				w.clock++
				w.history = append(w.history, porcupine.Operation{ClientId: t, Input: op, Call: call, Output: out, Return: w.clock})
				w.prog[t]++
				w.outs[t] += out + ","
			}
		})
	}
	return w
}

func objStr(o tengo.Object) string { return val.Snapshot(o) }

func (w *apiWorld) do(op int) string {
	c := w.c
	switch apiOps[op] {
	case "Set(a,5)":
		return fmt.Sprint(c.Set("a", 5))
	case "Set(a,7)":
		return fmt.Sprint(c.Set("a", 7))
	case "Get(a)":
		return objStr(c.Get("a").Object())
	case "Get(out)":
		return objStr(c.Get("out").Object())
	case "GetAll":
		var parts []string
		for _, v := range c.GetAll() {
			parts = append(parts, v.Name()+"="+objStr(v.Object()))
		}
		sort.Strings(parts)
		return strings.Join(parts, ";")
	case "IsDefined(out)":
		return fmt.Sprint(c.IsDefined("out"))
	case "Run":
		return fmt.Sprint(c.Run())
	case "RunContext":
		return fmt.Sprint(c.RunContext(context.Background()))
	case "Clone":
		cl := c.Clone()
		r := "a=" + objStr(cl.Get("a").Object()) + ";arr=" + objStr(cl.Get("arr").Object()) + ";out=" + objStr(cl.Get("out").Object())
		_ = cl.Set("a", 99) // must not affect the original
		return r
	}
	return "?"
}

// sequential model of Compiled for the script `out := a + 1`
type apiState struct {
	a   int
	out string // "undefined" or "int:N"
	arr int    // arr[0]
}

var apiModel = porcupine.Model{
	Init: func() interface{} { return apiState{a: 1, out: "undefined"} },
	Step: func(state, input, output interface{}) (bool, interface{}) {
		st := state.(apiState)
		got := output.(string)
		all := func() string { return fmt.Sprintf("a=int:%d;arr=array[int:%d];out=%s", st.a, st.arr, st.out) }
		switch apiOps[input.(int)] {
		case "Set(a,5)":
			st.a = 5
			return got == "<nil>", st
		case "Set(a,7)":
			st.a = 7
			return got == "<nil>", st
		case "Get(a)":
			return got == fmt.Sprintf("int:%d", st.a), st
		case "Get(out)":
			return got == st.out, st
		case "GetAll", "Clone":
			return got == all(), st
		case "IsDefined(out)":
			return got == fmt.Sprint(st.out != "undefined"), st
		case "Run", "RunContext":
			st.arr++
			st.out = fmt.Sprintf("int:%d", st.a+1)
			return got == "<nil>", st
		}
		return false, st
	},
	Equal: func(a, b interface{}) bool { return a.(apiState) == b.(apiState) },
}

func (w *apiWorld) Key() string {
	return fmt.Sprintf("%v|%v|%s|%s", w.prog, w.outs, vmk.Globals(w.c), w.tr.Keys())
}
func (w *apiWorld) CheckState() []string { return nil }
func (w *apiWorld) Pending() bool        { return false }
func (w *apiWorld) CheckTerminal() ([]string, string) {
	if !porcupine.CheckOperations(apiModel, w.history) {
		var h []string
		for _, o := range w.history {
			h = append(h, fmt.Sprintf("t%d %s -> %s [%d,%d]", o.ClientId, apiOps[o.Input.(int)], o.Output, o.Call, o.Return))
		}
		return []string{"history is not linearizable: " + strings.Join(h, " | ")}, "non-linearizable"
	}
	return nil, fmt.Sprint(w.outs)
}

// ---------------------------------------------------------------- part 3: shared writes

type Case struct {
	Part    string `json:"part"`
	Script  string `json:"script,omitempty"`
	Plan    [][]int `json:"plan,omitempty"`
	Family  string `json:"family,omitempty"`
	Budget  int    `json:"budget,omitempty"`
	Choices []int  `json:"choices,omitempty"`
	Source  string `json:"source,omitempty"`
	Kind    string `json:"kind,omitempty"`
	Msg     string `json:"msg,omitempty"`
	Schedule []vsched.Action `json:"schedule,omitempty"`
}

func sharedProgram(c Case) *gen.Program {
	switch c.Family {
	case "consts":
		return gen.Replay(c.Choices, gen.Consts(c.Budget))
	case "func":
		return gen.Replay(c.Choices, gen.Funcs(gen.FuncCfg{Budget: c.Budget}))
	case "stmt":
		return gen.Replay(c.Choices, gen.Stmts(gen.StmtCfg{Budget: c.Budget}))
	case "strings":
		return gen.Replay(c.Choices, stringsFamily)
	}
	return nil
}

// a small family aimed at lazily cached state of shared constants: indexing / iterating / slicing
// string constants, failing operations (error positions), inside and outside functions
func stringsFamily(ch *gen.Chooser) *gen.Program {
	str := gen.S(`"héllo"`)
	ops := []func() gen.Stmt{
		func() gen.Stmt { return gen.Def("x", &gen.Index{X: str, I: gen.N("1")}) },
		func() gen.Stmt { return &gen.ForIn{Key: "k", Val: "v", X: str, Body: []gen.Stmt{gen.Set(gen.I("n"), gen.I("k"))}} },
		func() gen.Stmt { return gen.Def("y", &gen.Slice{X: str, Lo: gen.N("1"), Hi: gen.N("3")}) },
		func() gen.Stmt { return gen.Def("z", gen.C(gen.I("len"), str)) },
		func() gen.Stmt { return gen.Def("e", gen.B("+", gen.N("1"), str)) },
		func() gen.Stmt { return gen.Def("w", gen.B("+", str, gen.N("1"))) },
	}
	body := []gen.Stmt{gen.Def("n", gen.N("0"))}
	k := 1 + ch.Choose(2)
	for i := 0; i < k; i++ {
		body = append(body, ops[ch.Choose(len(ops))]())
	}
	if ch.Flip() {
		return &gen.Program{Main: []gen.Stmt{gen.Def("f", &gen.FuncLit{Body: body}), gen.Def("out", gen.C(gen.I("f")))}}
	}
	// variable names must be distinct at top level: the pool defines each name at most once per choice; duplicates give a compile error, which is skipped
	return &gen.Program{Main: body}
}

func sharedCase(c Case) (fails []string, obs string) {
	prog := sharedProgram(c)
	src := tg.Print(prog)
	s := tengo.NewScript([]byte(src.Main.Src))
	mm := stdlib.GetModuleMap("math", "text")
	mm.AddMap(src.ModMap)
	s.SetImports(mm)
	for _, n := range prog.Inputs {
		_ = s.Add(n, true)
	}
	comp, err := func() (c *tengo.Compiled, err error) {
		defer func() {
			if r := recover(); r != nil {
				err = fmt.Errorf("panic: %v", r)
			}
		}()
		return s.Compile()
	}()
	if err != nil {
		return nil, "compile-error"
	}
	a, b := comp.Clone(), comp.Clone()
	before := deep.Take([]interface{}{comp, b})
	rerr := func() (err error) {
		defer func() {
			if r := recover(); r != nil {
				err = fmt.Errorf("panic: %v", r)
			}
		}()
		return a.RunContext(context.Background())
	}()
	after := deep.Take([]interface{}{comp, b})
	obs = "ok"
	if rerr != nil {
		obs = "runtime-error"
		if rerr.Error() == "verif: step budget exhausted" {
			obs = "budget"
		}
	}
	for _, d := range deep.Diff(before, after) {
		fails = append(fails, d)
	}
	return fails, obs
}

// field path -> signature class (which shared structure was written)
func sharedSig(diff string) string {
	path := diff
	if i := strings.Index(path, ": "); i >= 0 {
		path = path[:i]
	}
	// keep only field names
	var fields []string
	for _, p := range strings.FieldsFunc(path, func(r rune) bool { return r == '.' || r == '*' || r == '[' || r == ']' || r == '(' || r == ')' }) {
		if len(p) > 0 && (p[0] >= 'A' && p[0] <= 'Z' || p[0] >= 'a' && p[0] <= 'z') && !strings.Contains(p, "tengo") && !strings.Contains(p, "parser") {
			fields = append(fields, p)
		}
	}
	// the written location = owning struct + field (slice bookkeeping suffixes dropped)
	for len(fields) > 0 && (fields[len(fields)-1] == "len") {
		fields = fields[:len(fields)-1]
	}
	if len(fields) > 2 {
		fields = fields[len(fields)-2:]
	}
	return strings.Join(fields, ".")
}

// ---------------------------------------------------------------- main

func sigOf(kind, msg string) string {
	m := msg
	for _, cut := range []string{": t0 ", "; e.g.", " gave "} {
		if i := strings.Index(m, cut); i >= 0 {
			m = m[:i]
		}
	}
	if len(m) > 100 {
		m = m[:100]
	}
	return kind + "/" + strings.Join(strings.Fields(m), "_")
}

func plans(threads, calls int) [][][]int {
	// all assignments of `calls` operations to each of `threads` threads
	var out [][][]int
	n := len(apiOps)
	total := 1
	for i := 0; i < threads*calls; i++ {
		total *= n
	}
	for idx := 0; idx < total; idx++ {
		p := make([][]int, threads)
		x := idx
		for t := 0; t < threads; t++ {
			for k := 0; k < calls; k++ {
				p[t] = append(p[t], x%n)
				x /= n
			}
		}
		out = append(out, p)
	}
	return out
}

func main() {
	instrumented := true
	if scr := os.Getenv("VERIF_SCR"); scr != "" {
		if _, err := os.Stat(filepath.Join(scr, "overlay.json")); err != nil {
			instrumented = false
		}
	}
	tg.SetStepBudget(0)
	if p := report.ReplayArg(); p != "" {
		rp, err := report.LoadReplay(p)
		if err != nil {
			fmt.Println("cannot load replay:", err)
			return
		}
		for _, raw := range rp.Cases {
			var c Case
			_ = report.Recase(raw, &c)
			fmt.Printf("case part=%s script=%s plan=%v family=%s\n  %s: %s\n  schedule: %v\n", c.Part, c.Script, c.Plan, c.Family, c.Kind, c.Msg, c.Schedule)
			if c.Part == "shared" {
				tg.SetStepBudget(100000)
				fails, obs := sharedCase(c)
				fmt.Printf("%s\n  observed: %s\n", tg.Print(sharedProgram(c)).AllText, obs)
				for _, f := range fails {
					fmt.Println("  WRITE", f)
				}
			}
		}
		return
	}
	r := report.New("C08")
	var states, trans, execs int64
	explore := func(part, name string, h vsched.Harness, mk func(v vsched.Violation) Case) {
		res := vsched.Explore(h, vsched.Options{MaxStates: r.Pick(400000, 4000000)})
		tengo.VerifNewVM = nil
		states += int64(res.States)
		trans += int64(res.Transitions)
		execs += int64(res.Executions)
		r.Count("states/"+part, int64(res.States))
		r.Count("executions/"+part, int64(res.Executions))
		for o := range res.Outcomes {
			r.Outcome(part + "/" + name + ": " + o)
		}
		if vsched.Hung {
			r.NotExhaustive("a thread never reached another scheduling point (reported as a violation); exploration stopped")
		} else if res.Capped {
			r.NotExhaustive(fmt.Sprintf("%s %s: state cap reached after %d states", part, name, res.States))
		}
		for _, m := range res.Internal {
			r.Internal("%s %s: %s", part, name, m)
		}
		for _, v := range res.Violations {
			c := mk(v)
			c.Kind, c.Msg, c.Schedule = v.Kind, v.Msg, v.Schedule
			r.Violation(part+"/"+sigOf(v.Kind, v.Msg), v.Msg, c)
		}
		if part == "clones" {
			r.Set("clones/"+name, map[string]interface{}{"states": res.States, "transitions": res.Transitions, "executions": res.Executions, "outcomes": len(res.Outcomes), "branching_states": res.Branching})
		}
	}
	if !instrumented {
		r.NotExhaustive("instrumentation incomplete: parts 1 and 2 (interleaving exploration) were not run")
	} else {
		k := r.Pick(2, 3)
		for _, sc := range cloneScripts {
			sc := sc
			kk := k
			if kk == 3 && (sc.name == "mutable-input-array" || sc.name == "closure-and-function-constants" || sc.rounds > 1 || sc.template != nil ||
				sc.name == "format-builtin" || sc.name == "runtime-error-in-module" || sc.name == "empty-input-array-with-capacity") {
				kk = 2 // three instruction-level interleaved VMs of the longer scripts exceed the budget; stated in evidence
				r.Note("part 1: %s explored with 2 clones in the thorough tier (3 for the others)", sc.name)
			}
			explore("clones", sc.name, cloneHarness{sc, kk}, func(v vsched.Violation) Case { return Case{Part: "clones", Script: sc.name} })
			r.Sample(map[string]interface{}{"part": "clones", "script": sc.src, "threads": kk})
		}
		var ps [][][]int
		ps = append(ps, plans(2, 1)...)
		ps = append(ps, plans(3, 1)...)
		if r.Thorough() {
			ps = append(ps, plans(2, 2)...)
		}
		for i, p := range ps {
			p := p
			explore("api", fmt.Sprint(p), apiHarness{p}, func(v vsched.Violation) Case { return Case{Part: "api", Plan: p} })
			if i%200 == 0 {
				var names [][]string
				for _, t := range p {
					var ns []string
					for _, o := range t {
						ns = append(ns, apiOps[o])
					}
					names = append(names, ns)
				}
				r.Sample(map[string]interface{}{"part": "api", "plan": names})
			}
		}
		r.Set("api_plans", len(ps))
	}
	// part 3
	tg.SetStepBudget(100000)
	var shared int64
	distinct := report.NewDistinctSet()
	runShared := func(c Case, text string) {
		fails, obs := sharedCase(c)
		atomic.AddInt64(&shared, 1)
		r.Outcome("shared/" + c.Family + "/" + obs)
		if obs != "compile-error" {
			distinct.Add(text)
		}
		seen := map[string]bool{}
		for _, f := range fails {
			sig := "shared-write/" + sharedSig(f)
			if seen[sig] {
				continue
			}
			seen[sig] = true
			c.Source = text
			c.Msg = f
			r.Violation(sig, "running one clone wrote memory reachable from another clone / the original: "+f, c)
		}
	}
	fams := []Case{{Part: "shared", Family: "strings"}, {Part: "shared", Family: "consts", Budget: r.Pick(2, 3)}, {Part: "shared", Family: "func", Budget: 2}, {Part: "shared", Family: "stmt", Budget: r.Pick(1, 2)}}
	for _, f := range fams {
		f := f
		visit := func(p *gen.Program, ch []int) {
			c := f
			c.Choices = append([]int{}, ch...)
			runShared(c, tg.Print(p).AllText)
		}
		switch f.Family {
		case "strings":
			gen.ParallelEnumerate(stringsFamily, 2, visit)
		case "consts":
			gen.ParallelEnumerate(gen.Consts(f.Budget), 2, visit)
		case "func":
			gen.ParallelEnumerate(gen.Funcs(gen.FuncCfg{Budget: f.Budget}), 3, visit)
		case "stmt":
			gen.ParallelEnumerate(gen.Stmts(gen.StmtCfg{Budget: f.Budget}), 3, visit)
		}
	}
	r.Sample(map[string]interface{}{"part": "shared", "family": "strings/consts/func/stmt", "programs": shared})
	r.Set("shared_write_programs", shared)
	r.Assume("parts 1-2: scheduling points = lock operations, atomic loads (one per VM instruction), goroutine start, channel operations, select; between points code runs atomically; data races are decided separately by the vector-clock happens-before checker over annotated accesses (every field of Compiled, elements of the globals slice) and by part 3")
	r.Assume("part 3 detects writes by comparing reflective deep snapshots (unexported fields included) of everything reachable from a second clone and from the original before/after running the first clone; mutex internals are skipped")
	r.Finish(report.Coverage{
		States:      states + distinct.Len(),
		Transitions: trans + shared,
		Validated:   execs + shared,
		Evaluations: execs + shared,
		Nontrivial:  distinct.Len() + states,
		Rule:        "parts 1-2: states = distinct global state keys over all interleavings (per clone script / per API call plan); transitions = scheduling steps on the real instrumented code; part 3: one state per program of the strings/consts/func/stmt families; validated = complete executions + snapshot comparisons; non-trivial = explored interleaving states + distinct programs that compile",
	})
}
