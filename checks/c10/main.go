// C10: value equality, ordering, truthiness, copy and conversion obey their laws.
//
// Exhaustive over the value alphabet V (engine/val): every unordered pair
// {a,b} (both directions evaluated inside one case) for the comparison laws,
// every singleton for truthiness / copy / conversions; host-injected form and,
// where a spelling exists, literal form. All results are observed through
// scripts run by the real compiler+VM (Script.Add/Compile/RunContext/Get).
package main

import (
	"fmt"
	"math"
	"strconv"
	"strings"
	"time"
	"unsafe"

	"github.com/d5/tengo/v2"
	"verif/engine/report"
	"verif/engine/tg"
	"verif/engine/val"
)

type Case struct {
	Kind string `json:"kind"` // pair | single
	A    string `json:"a"`
	B    string `json:"b,omitempty"`
	Form string `json:"form"` // host | lit
}

type fail struct{ sig, what string }

var ops = []string{"==", "!=", "<", "<=", ">", ">="}

// evalBin evaluates `a OP b` through a script. Result: "true" | "false" | "err" | "panic" | "other:<snapshot>".
func evalBin(a, b val.Val, form, op string) string {
	var src string
	var in map[string]tengo.Object
	if form == "lit" {
		src = fmt.Sprintf("out := (%s) %s (%s)", a.Src, op, b.Src)
	} else {
		src = "out := a " + op + " b"
		in = map[string]tengo.Object{"a": a.Mk(), "b": b.Mk()}
	}
	return classify(tg.Run(src, tg.Opts{Inputs: in}))
}

func classify(o tg.Outcome) string {
	switch o.Class {
	case "ok":
		out := o.Globals["out"]
		if out == tengo.TrueValue {
			return "true"
		}
		if out == tengo.FalseValue {
			return "false"
		}
		return "other:" + val.Snapshot(out)
	case "runtime-error":
		return "err"
	case "compile-error":
		return "compile-err"
	}
	return "panic"
}

func isNaN(v val.Val) bool {
	f, ok := v.Mk().(*tengo.Float)
	return ok && math.IsNaN(f.Value)
}

// orderedClass reports whether the pair falls under the trichotomy law.
func orderedClass(a, b val.Val) bool {
	if isNaN(a) || isNaN(b) {
		return false
	}
	switch {
	case a.Kind == b.Kind:
		switch a.Kind {
		case "int", "char", "string", "time", "float":
			return true
		}
	case a.Kind == "int" && b.Kind == "float", a.Kind == "float" && b.Kind == "int":
		return true
	}
	return false
}

func runPair(c Case) (fails []fail, obs string) {
	a, ok1 := val.ByName(c.A)
	b, ok2 := val.ByName(c.B)
	if !ok1 || !ok2 {
		return []fail{{"internal/unknown-value", "unknown value name"}}, ""
	}
	ab := map[string]string{}
	ba := map[string]string{}
	for _, op := range ops {
		ab[op] = evalBin(a, b, c.Form, op)
		ba[op] = evalBin(b, a, c.Form, op)
	}
	obs = fmt.Sprintf("%v|%v", ab, ba)
	kinds := a.Kind + "," + b.Kind
	T := func(s string) bool { return s == "true" }
	add := func(law, what string) {
		fails = append(fails, fail{"law=" + law + "/kinds=" + kinds + "/form=" + c.Form,
			fmt.Sprintf("%s: a=%s b=%s a?b=%v b?a=%v", what, a.Name, b.Name, ab, ba)})
	}
	for _, m := range []map[string]string{ab, ba} {
		for _, op := range ops {
			if m[op] == "panic" || strings.HasPrefix(m[op], "other:") || m[op] == "compile-err" {
				add("comparison-yields-bool-or-error", "comparison produced "+m[op])
				return
			}
		}
		if m["=="] == "err" || m["!="] == "err" {
			add("eq-never-fails", "== or != failed at run time")
		}
	}
	if ab["=="] != ba["=="] {
		add("eq-symmetric", "a==b differs from b==a")
	}
	for _, m := range []map[string]string{ab, ba} {
		if (m["=="] == "true") == (m["!="] == "true") {
			add("ne-is-negation", "!= is not the negation of ==")
		}
	}
	if T(ab["<"]) != T(ba[">"]) || T(ab[">"]) != T(ba["<"]) {
		add("lt-converse-gt", "a<b holds but b>a does not (or vice versa)")
	}
	if T(ab["<="]) != T(ba[">="]) || T(ab[">="]) != T(ba["<="]) {
		add("le-converse-ge", "a<=b holds but b>=a does not (or vice versa)")
	}
	if orderedClass(a, b) {
		for _, m := range []map[string]string{ab, ba} {
			bad := false
			for _, op := range ops {
				if m[op] != "true" && m[op] != "false" {
					bad = true
				}
			}
			if bad {
				add("ordered-total", "comparison undefined on an ordered pair")
				continue
			}
			n := 0
			for _, op := range []string{"<", "==", ">"} {
				if T(m[op]) {
					n++
				}
			}
			if n != 1 {
				add("trichotomy", fmt.Sprintf("%d of <,==,> hold", n))
			}
			if T(m["<="]) != (T(m["<"]) || T(m["=="])) {
				add("le-is-lt-or-eq", "<= differs from (< or ==)")
			}
			if T(m[">="]) != (T(m[">"]) || T(m["=="])) {
				add("ge-is-gt-or-eq", ">= differs from (> or ==)")
			}
		}
	}
	// int/char: ordered by code point, never equal.
	chk := func(iv, cv val.Val, m map[string]string) {
		i := iv.Mk().(*tengo.Int).Value
		cp := int64(cv.Mk().(*tengo.Char).Value)
		want := map[string]bool{"==": false, "!=": true, "<": i < cp, "<=": i <= cp, ">": i > cp, ">=": i >= cp}
		for _, op := range ops {
			if m[op] != strconv.FormatBool(want[op]) {
				add("int-char-by-codepoint", fmt.Sprintf("int %d %s char %d gave %s, want %v", i, op, cp, m[op], want[op]))
				return
			}
		}
	}
	flip := map[string]string{"==": "==", "!=": "!=", "<": ">", "<=": ">=", ">": "<", ">=": "<="}
	flipped := func(m map[string]string) map[string]string {
		r := map[string]string{}
		for k, v := range m {
			r[flip[k]] = v
		}
		return r
	}
	if a.Kind == "int" && b.Kind == "char" {
		chk(a, b, ab)
		chk(a, b, flipped(ba))
	} else if a.Kind == "char" && b.Kind == "int" {
		chk(b, a, ba)
		chk(b, a, flipped(ab))
	}
	return
}

// ---- singles -------------------------------------------------------------

func refFalsy(o tengo.Object) (falsy bool, documented bool) {
	switch x := o.(type) {
	case *tengo.Int:
		return x.Value == 0, true
	case *tengo.String:
		return len(x.Value) == 0, true
	case *tengo.Float:
		return math.IsNaN(x.Value), true
	case *tengo.Bool:
		return x == tengo.FalseValue, true
	case *tengo.Char:
		return x.Value == 0, true
	case *tengo.Bytes:
		return len(x.Value) == 0, true
	case *tengo.Array:
		return len(x.Value) == 0, true
	case *tengo.ImmutableArray:
		return len(x.Value) == 0, true
	case *tengo.Map:
		return len(x.Value) == 0, true
	case *tengo.ImmutableMap:
		return len(x.Value) == 0, true
	case *tengo.Time:
		return x.Value.IsZero(), true
	case *tengo.Error, *tengo.Undefined:
		return true, true
	}
	return false, false
}

const dfltSentinel = "DFLT"

// refConv is the conversion table of docs/runtime-types.md. ok=false means
// "no conversion" (X in the table). skip=true: outside the claim (float->int
// out of range is platform-defined in Go; default-text formats of
// array/map/time/error/float are checked only for being a string).
func refConv(dst string, o tengo.Object) (snap string, ok bool, skip bool) {
	S := func(s string) string { return "string:" + strconv.Quote(s) }
	switch dst {
	case "int":
		switch x := o.(type) {
		case *tengo.Int:
			return "int:" + strconv.FormatInt(x.Value, 10), true, false
		case *tengo.String:
			n, err := strconv.ParseInt(x.Value, 10, 64)
			if err != nil {
				return "", false, false
			}
			return "int:" + strconv.FormatInt(n, 10), true, false
		case *tengo.Float:
			if math.IsNaN(x.Value) || x.Value >= 9.3e18 || x.Value <= -9.3e18 {
				return "", true, true
			}
			return "int:" + strconv.FormatInt(int64(x.Value), 10), true, false
		case *tengo.Bool:
			if x == tengo.TrueValue {
				return "int:1", true, false
			}
			return "int:0", true, false
		case *tengo.Char:
			return "int:" + strconv.FormatInt(int64(x.Value), 10), true, false
		}
	case "string":
		switch x := o.(type) {
		case *tengo.Int:
			return S(strconv.FormatInt(x.Value, 10)), true, false
		case *tengo.String:
			return S(x.Value), true, false
		case *tengo.Bool:
			return S(strconv.FormatBool(x == tengo.TrueValue)), true, false
		case *tengo.Char:
			return S(string(x.Value)), true, false
		case *tengo.Bytes:
			return S(string(x.Value)), true, false
		case *tengo.Float:
			// "strconv": exact format not documented; must parse back to the same float
			return "", true, true
		case *tengo.Array, *tengo.ImmutableArray, *tengo.Map, *tengo.ImmutableMap, *tengo.Time, *tengo.Error:
			return "", true, true
		case *tengo.Undefined:
			return "", false, false
		default: // functions: not in the table
			return "", true, true
		}
	case "float":
		switch x := o.(type) {
		case *tengo.Int:
			return val.Snapshot(&tengo.Float{Value: float64(x.Value)}), true, false
		case *tengo.Float:
			return val.Snapshot(x), true, false
		case *tengo.String:
			f, err := strconv.ParseFloat(x.Value, 64)
			if err != nil {
				return "", false, false
			}
			return val.Snapshot(&tengo.Float{Value: f}), true, false
		}
	case "char":
		switch x := o.(type) {
		case *tengo.Int:
			if x.Value > math.MaxInt32 || x.Value < math.MinInt32 {
				return "", true, true // rune(v) truncation: Go-defined but not a documented domain
			}
			return "char:" + strconv.FormatInt(int64(rune(x.Value)), 10), true, false
		case *tengo.Char:
			return "char:" + strconv.FormatInt(int64(x.Value), 10), true, false
		}
	case "bytes":
		switch x := o.(type) {
		case *tengo.String:
			return "bytes:" + strconv.Quote(x.Value), true, false
		case *tengo.Bytes:
			return "bytes:" + strconv.Quote(string(x.Value)), true, false
		case *tengo.Int:
			if x.Value < 0 || x.Value > 1024 {
				return "", true, true // bytes(N): negative/huge sizes are C05/C06 territory
			}
			return "bytes:" + strconv.Quote(string(make([]byte, x.Value))), true, false
		}
	case "time":
		switch x := o.(type) {
		case *tengo.Int:
			return val.Snapshot(&tengo.Time{Value: time.Unix(x.Value, 0)}), true, false
		case *tengo.Time:
			return val.Snapshot(x), true, false
		}
	}
	return "", false, false
}

func litOrHost(a val.Val, form, expr string) (string, map[string]tengo.Object) {
	if form == "lit" {
		return strings.ReplaceAll(expr, "$a", "("+a.Src+")"), nil
	}
	return strings.ReplaceAll(expr, "$a", "a"), map[string]tengo.Object{"a": a.Mk()}
}

// mutable-state pointers reachable from o (arrays, maps, bytes backing stores)
func mutPtrs(o tengo.Object, acc map[uintptr]bool, seen map[interface{}]bool) {
	if o == nil || seen[o] {
		return
	}
	switch x := o.(type) {
	case *tengo.Array:
		seen[o] = true
		acc[uintptr(unsafe.Pointer(x))] = true
		if len(x.Value) > 0 {
			acc[uintptr(unsafe.Pointer(&x.Value[0]))] = true
		}
		for _, e := range x.Value {
			mutPtrs(e, acc, seen)
		}
	case *tengo.ImmutableArray:
		seen[o] = true
		for _, e := range x.Value {
			mutPtrs(e, acc, seen)
		}
	case *tengo.Map:
		seen[o] = true
		acc[uintptr(unsafe.Pointer(x))] = true
		for _, e := range x.Value {
			mutPtrs(e, acc, seen)
		}
	case *tengo.ImmutableMap:
		seen[o] = true
		for _, e := range x.Value {
			mutPtrs(e, acc, seen)
		}
	case *tengo.Bytes:
		if len(x.Value) > 0 {
			acc[uintptr(unsafe.Pointer(&x.Value[0]))] = true
		}
	case *tengo.Error:
		seen[o] = true
		mutPtrs(x.Value, acc, seen)
	}
}

// structural snapshot with immutable tags erased (copy of an immutable value is documented to be mutable)
func erased(s string) string {
	s = strings.ReplaceAll(s, "imarray[", "array[")
	return strings.ReplaceAll(s, "immap{", "map{")
}

var writes = []string{
	"x[0] = 99", "x[0][0] = 99", "x[1][0] = 99", "x.a = 99", "x.b[0] = 99", "x.zz = 1",
	"x.value[0] = 99", "delete(x, \"a\")", "splice(x, 0, 1)", "splice(x[0], 0, 1)",
	"x[0][0][0] = 99", "x.k.j[0] = 99", "x.k.j = 99", "x[0][0] = 98",
}

func runSingle(c Case) (fails []fail, obs string) {
	a, ok := val.ByName(c.A)
	if !ok {
		return []fail{{"internal/unknown-value", "unknown value name"}}, ""
	}
	add := func(law, what string) {
		fails = append(fails, fail{"law=" + law + "/kind=" + a.Kind + "/form=" + c.Form,
			fmt.Sprintf("%s: a=%s", what, a.Name)})
	}
	var sb strings.Builder
	// --- truthiness
	fal, documented := refFalsy(a.Mk())
	forms := [][2]string{
		{"not", "out := !$a"},
		{"notnot", "out := !!$a"},
		{"if", "out := false; if $a { out = true }"},
		{"ternary", "out := $a ? true : false"},
		{"bool()", "out := bool($a)"},
		{"and", "out := ($a && true) == true"},
		{"for", "out := false; for $a { out = true; break }"},
	}
	for _, nt := range forms {
		name, tmpl := nt[0], nt[1]
		src, in := litOrHost(a, c.Form, tmpl)
		got := classify(tg.Run(src, tg.Opts{Inputs: in}))
		want := !fal
		if name == "not" {
			want = fal
		}
		fmt.Fprintf(&sb, "%s=%s;", name, got)
		if !documented {
			continue
		}
		if got != strconv.FormatBool(want) {
			add("truthiness-table/"+name, fmt.Sprintf("%q gave %s, documented truthiness is %v", tmpl, got, !fal))
		}
	}
	// --- copy: equal and independent
	{
		src, in := litOrHost(a, c.Form, "orig := $a; c := copy(orig); eq := c == orig; refl := orig == orig")
		o := tg.Run(src, tg.Opts{Inputs: in})
		if o.Class != "ok" {
			add("copy-total", "copy failed: "+o.Class+" "+tg.FirstLine(o.ErrText))
		} else {
			orig, cp := o.Globals["orig"], o.Globals["c"]
			so, sc := val.Snapshot(orig), val.Snapshot(cp)
			fmt.Fprintf(&sb, "copy=%s;eq=%s;", sc, val.Snapshot(o.Globals["eq"]))
			if erased(so) != erased(sc) {
				add("copy-structurally-equal", "copy differs structurally: "+so+" vs "+sc)
			}
			if o.Globals["refl"] == tengo.TrueValue && o.Globals["eq"] != tengo.TrueValue {
				add("copy-equal", "copy(x) == x is false although x == x is true")
			}
			po, pc := map[uintptr]bool{}, map[uintptr]bool{}
			mutPtrs(orig, po, map[interface{}]bool{})
			mutPtrs(cp, pc, map[interface{}]bool{})
			for p := range po {
				if pc[p] {
					add("copy-shares-no-mutable-state", "copy shares a mutable container/backing store with the original")
					break
				}
			}
		}
		// behavioural independence: every write through one side leaves the other unchanged
		for _, w := range writes {
			for _, side := range []string{"c", "orig"} {
				other := "orig"
				if side == "orig" {
					other = "c"
				}
				if c.Form == "lit" && side == "orig" {
					// writing through a literal-initialised original is the same path; keep both
				}
				src, in := litOrHost(a, c.Form, "orig := $a; c := copy(orig)")
				o1 := tg.Run(src, tg.Opts{Inputs: in})
				if o1.Class != "ok" {
					continue
				}
				before := val.Snapshot(o1.Globals[other])
				// apply the write in a second script on the live objects
				o2 := tg.Run(strings.ReplaceAll(w, "x", side), tg.Opts{Inputs: map[string]tengo.Object{
					"orig": o1.Globals["orig"], "c": o1.Globals["c"]}})
				if o2.Class == "panic" {
					add("copy-write-panics", "write "+w+" panicked: "+tg.FirstLine(o2.ErrText))
					continue
				}
				after := val.Snapshot(o1.Globals[other])
				if before != after {
					add("copy-independent", fmt.Sprintf("write %q through %s changed %s: %s -> %s", w, side, other, before, after))
				}
			}
		}
	}
	// --- conversions
	for _, dst := range []string{"string", "int", "float", "char", "bytes", "time", "bool"} {
		want, convertible, skip := refConv(dst, a.Mk())
		if dst == "bool" {
			f, doc := refFalsy(a.Mk())
			want, convertible, skip = "bool:"+strconv.FormatBool(!f), true, !doc
		}
		for _, withDefault := range []bool{false, true} {
			if dst == "bool" && withDefault {
				continue // bool() documents no default argument
			}
			expr := "out := " + dst + "($a)"
			if withDefault {
				expr = "out := " + dst + "($a, \"" + dfltSentinel + "\")"
			}
			src, in := litOrHost(a, c.Form, expr)
			o := tg.Run(src, tg.Opts{Inputs: in})
			got := "class:" + o.Class
			if o.Class == "ok" {
				got = val.Snapshot(o.Globals["out"])
			}
			fmt.Fprintf(&sb, "%s/%v=%s;", dst, withDefault, got)
			if skip {
				if o.Class == "panic" {
					add("conversion-no-panic/"+dst, expr+" panicked: "+tg.FirstLine(o.ErrText))
				}
				if o.Class == "ok" && dst == "string" && !strings.HasPrefix(got, "string:") {
					add("conversion-table/"+dst, expr+" gave "+got+", want some string")
				}
				if o.Class == "ok" && dst == "string" {
					if fl, isF := a.Mk().(*tengo.Float); isF {
						s := o.Globals["out"].(*tengo.String).Value
						back, err := strconv.ParseFloat(s, 64)
						if err != nil || (back != fl.Value && !(math.IsNaN(back) && math.IsNaN(fl.Value))) {
							add("conversion-table/string", "string(float) "+s+" does not parse back to the float")
						}
					}
				}
				continue
			}
			var expect string
			switch {
			case convertible:
				expect = want
			case withDefault:
				expect = "string:" + strconv.Quote(dfltSentinel)
			default:
				expect = "undefined"
			}
			if got != expect {
				add("conversion-table/"+dst, fmt.Sprintf("%s gave %s, documented table gives %s", expr, got, expect))
			}
		}
	}
	return fails, sb.String()
}

func runCase(c Case) ([]fail, string) {
	if c.Kind == "pair" {
		return runPair(c)
	}
	return runSingle(c)
}

func main() {
	if p := report.ReplayArg(); p != "" {
		rp, err := report.LoadReplay(p)
		if err != nil {
			fmt.Println("cannot load replay:", err)
			return
		}
		for _, raw := range rp.Cases {
			var c Case
			_ = report.Recase(raw, &c)
			fails, obs := runCase(c)
			fmt.Printf("case %+v\n  observed: %s\n", c, obs)
			for _, f := range fails {
				fmt.Printf("  FAIL %s: %s\n", f.sig, f.what)
			}
		}
		return
	}
	r := report.New("C10")
	V := val.All()
	if r.Thorough() {
		V = val.Thorough()
	}
	var cases []Case
	for _, form := range []string{"host", "lit"} {
		for i, a := range V {
			if form == "lit" && a.Src == "" {
				continue
			}
			cases = append(cases, Case{Kind: "single", A: a.Name, Form: form})
			for _, b := range V[i:] {
				if form == "lit" && b.Src == "" {
					continue
				}
				cases = append(cases, Case{Kind: "pair", A: a.Name, B: b.Name, Form: form})
			}
		}
	}
	distinct := report.NewDistinctSet()
	nontrivial := report.NewDistinctSet()
	report.ParallelFor(len(cases), func(i int) {
		c := cases[i]
		fails, obs := runCase(c)
		key := fmt.Sprintf("%v", c)
		distinct.Add(key)
		// non-trivial: a pair for which at least one ordering comparison is defined (true/false),
		// or a single whose conversions are not all "undefined"
		if c.Kind == "pair" {
			if strings.Contains(obs, "<:true") || strings.Contains(obs, "<:false") || strings.Contains(obs, "==:true") {
				nontrivial.Add(key)
			}
			r.Count("pair-cases", 1)
			r.Count("script-runs", 12)
		} else {
			nontrivial.Add(key)
			r.Count("single-cases", 1)
			r.Count("script-runs", int64(7+1+len(writes)*4+13))
		}
		r.Outcome(obsClass(obs))
		if i%997 == 0 {
			r.Sample(map[string]interface{}{"case": c, "observed": obs})
		}
		for _, f := range fails {
			r.Violation(f.sig, f.what, c)
		}
	})
	r.Set("alphabet_size", len(V))
	r.Set("alphabet", names(V))
	r.Assume("laws are checked as stated in the property; natural-order agreement of <,> with Go's order on same-type operands is C01's job")
	r.Assume("float->int outside int64 range / NaN, rune(v) truncation for ints outside int32, bytes(N) for N<0 or N>1024, and the exact default text of float/array/map/time/error are outside the documented table and only checked for 'no panic' / 'is a string' / 'parses back'")
	r.Finish(report.Coverage{
		States:      distinct.Len(),
		Transitions: r.Counter("script-runs"),
		Validated:   distinct.Len(),
		Evaluations: int64(len(cases)),
		Nontrivial:  nontrivial.Len(),
		Rule:        "cases = all unordered pairs {a,b} of V (both directions evaluated, 6 operators each) + all singletons of V, in host-input form and in literal form where a spelling exists; state = one case; transition = one script executed on the real VM; non-trivial pair = at least one of <,== is defined; every single is non-trivial",
	})
}

func names(V []val.Val) []string {
	var s []string
	for _, v := range V {
		s = append(s, v.Name)
	}
	return s
}

// obsClass abstracts an observation to its shape (for the distinct-outcomes vacuity guard).
func obsClass(obs string) string {
	if len(obs) > 120 {
		return obs[:120]
	}
	return obs
}
