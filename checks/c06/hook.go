package main

// The per-VM observer. tengo.VerifNewVM is called for every VM (also those
// created inside Compiled.Run/RunContext); a caller that wants to observe a
// particular run registers a *vmStat under the main function of its Compiled
// before it calls Run. The probe only reads VM state.

import (
	"context"
	"errors"
	"fmt"
	"runtime/debug"
	"sync"

	"github.com/d5/tengo/v2"
	"github.com/d5/tengo/v2/parser"
	"verif/engine/tg"
)

const stepBudget = 200000

type vmStat struct {
	budget int64
	steps  int64
	first  int64 // allocation counter at the first dispatched instruction
	last   int64 // allocation counter before the last dispatched instruction
	maxSP  int
	maxFI  int
	lastOp parser.Opcode
	lastFI int

	detail    bool  // classify object-creating instructions (unlimited run of part a)
	created   int64 // L(P): container/new-object creating operations that completed
	untracked map[string]int
	variadic  int64

	hasPrev  bool
	prevOp   parser.Opcode
	prevAl   int64
	prevA    tengo.Object // immutable operand / binop left / callee
	prevB    tengo.Object // binop right
	prevArgs []tengo.Object
}

var registry sync.Map // *tengo.CompiledFunction (main function) -> *vmStat

func installHook() {
	tengo.VerifNewVM = func(v *tengo.VM) {
		fn, _, _, _, _ := v.VerifState()
		var st *vmStat
		if x, ok := registry.LoadAndDelete(fn); ok {
			st = x.(*vmStat)
		} else {
			st = &vmStat{budget: stepBudget}
		}
		v.VerifSetProbe(st.probe)
	}
}

func singleton(o tengo.Object) bool {
	return o == tengo.TrueValue || o == tengo.FalseValue || o == tengo.UndefinedValue
}

func (st *vmStat) probe(v *tengo.VM) {
	st.steps++
	if st.steps > st.budget {
		panic(tg.ErrBudget)
	}
	al := v.VerifAllocs()
	if st.steps == 1 {
		st.first = al
	}
	fn, ip, sp, _, fi := v.VerifState()
	if sp > st.maxSP {
		st.maxSP = sp
	}
	if fi > st.maxFI {
		st.maxFI = fi
	}
	op := fn.Instructions[ip]
	st.lastOp, st.lastFI = op, fi
	if st.detail {
		if st.hasPrev {
			st.complete(v, al, sp)
		}
		st.record(v, fn, ip, sp, al, op)
	}
	st.last = al
}

// record remembers what the instruction about to be dispatched works on.
func (st *vmStat) record(v *tengo.VM, fn *tengo.CompiledFunction, ip, sp int, al int64, op parser.Opcode) {
	st.hasPrev, st.prevOp, st.prevAl = true, op, al
	st.prevA, st.prevB, st.prevArgs = nil, nil, st.prevArgs[:0]
	stack := v.VerifStack()
	switch op {
	case parser.OpImmutable:
		if sp >= 1 {
			st.prevA = stack[sp-1]
		}
	case parser.OpBinaryOp:
		if sp >= 2 {
			st.prevA, st.prevB = stack[sp-2], stack[sp-1]
		}
	case parser.OpCall:
		numArgs := int(fn.Instructions[ip+1])
		spread := int(fn.Instructions[ip+2])
		if sp-1-numArgs >= 0 {
			st.prevA = stack[sp-1-numArgs]
			st.prevArgs = append(st.prevArgs, stack[sp-numArgs:sp]...)
			if spread == 1 && numArgs > 0 {
				switch a := stack[sp-1].(type) {
				case *tengo.Array:
					st.prevArgs = append(st.prevArgs, a.Value...)
				case *tengo.ImmutableArray:
					st.prevArgs = append(st.prevArgs, a.Value...)
				}
			}
		}
	}
}

// complete is called when the previously recorded instruction finished without
// an error (the next instruction is being dispatched): did it certainly
// create a new object, and was that creation counted?
func (st *vmStat) complete(v *tengo.VM, al int64, sp int) {
	site := ""
	stack := v.VerifStack()
	switch st.prevOp {
	case parser.OpArray:
		site = "array"
	case parser.OpMap:
		site = "map"
	case parser.OpError:
		site = "error"
	case parser.OpClosure:
		site = "closure"
	case parser.OpIteratorInit:
		site = "iterator"
	case parser.OpSliceIndex:
		site = "slice"
	case parser.OpMinus:
		site = "minus"
	case parser.OpBComplement:
		site = "complement"
	case parser.OpImmutable:
		switch st.prevA.(type) {
		case *tengo.Array, *tengo.Map:
			site = "immutable"
		}
	case parser.OpBinaryOp:
		if sp >= 1 {
			res := stack[sp-1]
			if res != st.prevA && res != st.prevB && !singleton(res) {
				site = "binop"
			}
		}
	case parser.OpCall:
		if cf, ok := st.prevA.(*tengo.CompiledFunction); ok {
			if cf.VarArgs {
				site = "variadic-pack"
				st.variadic++
			}
		} else if sp >= 1 {
			res := stack[sp-1]
			isNew := res != st.prevA && !singleton(res)
			for _, a := range st.prevArgs {
				if a == res {
					isNew = false
				}
			}
			if isNew {
				site = "native-call"
			}
		}
	}
	if site == "" {
		return
	}
	st.created++
	if al >= st.prevAl { // no decrement happened
		if st.untracked == nil {
			st.untracked = map[string]int{}
		}
		st.untracked[site]++
	}
}

// ---- one run through the public API

type runRes struct {
	Class   string // ok | add-error | compile-error | runtime-error | panic | budget
	Err     error
	ErrText string
	Globals map[string]tengo.Object
	Comp    *tengo.Compiled
	St      *vmStat
}

type runOpts struct {
	objInputs map[string]tengo.Object // injected as objects (no conversion)
	rawInputs map[string]interface{}  // injected as Go values (FromInterface)
	setAllocs bool
	maxAllocs int64
	detail    bool
	useRun    bool  // Compiled.Run instead of RunContext (panics are caught here)
	budget    int64 // VM step budget (0 = stepBudget)
}

func runScript(src string, o runOpts) (out runRes) {
	defer func() {
		if r := recover(); r != nil {
			out.Class = "panic"
			if e, ok := r.(error); ok && e == tg.ErrBudget {
				out.Class = "budget"
			}
			out.ErrText = fmt.Sprintf("%v\n%s", r, debug.Stack())
		}
	}()
	s := tengo.NewScript([]byte(src))
	for _, k := range sortedKeysObj(o.objInputs) {
		if err := s.Add(k, o.objInputs[k]); err != nil {
			return runRes{Class: "add-error", Err: err, ErrText: err.Error()}
		}
	}
	for _, k := range sortedKeysRaw(o.rawInputs) {
		if err := s.Add(k, o.rawInputs[k]); err != nil {
			return runRes{Class: "add-error", Err: err, ErrText: err.Error()}
		}
	}
	if o.setAllocs {
		s.SetMaxAllocs(o.maxAllocs)
	}
	c, err := s.Compile()
	if err != nil {
		return runRes{Class: "compile-error", Err: err, ErrText: err.Error()}
	}
	out.Comp = c
	st := &vmStat{budget: stepBudget, detail: o.detail}
	if o.budget > 0 {
		st.budget = o.budget
	}
	out.St = st
	registry.Store(c.VerifBytecode().MainFunction, st)
	defer registry.Delete(c.VerifBytecode().MainFunction)
	if o.useRun {
		err = c.Run()
	} else {
		err = c.RunContext(context.Background())
	}
	out.Globals = map[string]tengo.Object{}
	for _, v := range c.GetAll() {
		out.Globals[v.Name()] = v.Object()
	}
	if err != nil {
		out.Class = "runtime-error"
		if errors.Is(err, tg.ErrBudget) || err.Error() == tg.ErrBudget.Error() {
			out.Class = "budget"
		}
		out.Err = err
		out.ErrText = err.Error()
		return
	}
	out.Class = "ok"
	return
}

func sortedKeysObj(m map[string]tengo.Object) []string {
	ks := make([]string, 0, len(m))
	for k := range m {
		ks = append(ks, k)
	}
	sortStrings(ks)
	return ks
}

func sortedKeysRaw(m map[string]interface{}) []string {
	ks := make([]string, 0, len(m))
	for k := range m {
		ks = append(ks, k)
	}
	sortStrings(ks)
	return ks
}
