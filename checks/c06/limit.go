package main

// Part (b): the string / bytes length limits.
//
// tengo.MaxStringLen and tengo.MaxBytesLen are package variables, so this part
// runs in sequential phases: first every operation once with the default
// limits (the reference run: it tells the true result and the true length R of
// every string/bytes value the operation produces), then one phase per
// (MaxStringLen, MaxBytesLen) setting. Within a phase the cases run in
// parallel; nothing else runs while a phase is active.
//
// Oracle per case and setting (LS, LB), all inputs being within the limits:
//   - no String longer than LS and no Bytes longer than LB is reachable from
//     Compiled.GetAll() after the run (own walker, also through closures);
//   - R > limit  => the run fails with the matching limit error;
//   - R <= limit => the run succeeds with the reference result.

import (
	"errors"
	"fmt"
	"math"
	"sort"
	"strconv"
	"strings"

	"github.com/d5/tengo/v2"
	"verif/engine/tg"
	"verif/engine/val"
)

const letters = "abcdefghijklmnopqrstuvwxyz"

// fullPrefixes (thorough tier): format cases use every prefix length 0..limit
// instead of the lengths that put the result next to the limit.
var fullPrefixes bool

func text(n int) string {
	var sb strings.Builder
	for i := 0; i < n; i++ {
		sb.WriteByte(letters[i%len(letters)])
	}
	return sb.String()
}

func str(n int) tengo.Object { return &tengo.String{Value: text(n)} }
func byt(n int) tengo.Object { return &tengo.Bytes{Value: []byte(text(n))} }

func eff(l int) int {
	if l <= 0 {
		return math.MaxInt32
	}
	return l
}

// dimL is the length a default-limit phase uses for its operand sizes.
func dimL(l int) int {
	if l <= 0 {
		return 16
	}
	return l
}

func setOf(xs ...int) []int {
	m := map[int]bool{}
	var out []int
	for _, x := range xs {
		if x >= 0 && !m[x] {
			m[x] = true
			out = append(out, x)
		}
	}
	sort.Ints(out)
	return out
}

func sset(l int) []int { l = dimL(l); return setOf(0, 1, 2, l/2, l-2, l-1, l) }

// sset2: operand lengths up to its own limit l that also straddle the other limit
func sset2(l, other int) []int {
	l, other = dimL(l), dimL(other)
	var out []int
	for _, x := range setOf(0, 1, 2, l/2, l-2, l-1, l, other-1, other, other+1) {
		if x <= l {
			out = append(out, x)
		}
	}
	return out
}
func full(l int) []int {
	l = dimL(l)
	var out []int
	for i := 0; i <= l; i++ {
		out = append(out, i)
	}
	return out
}

// ---- the non-sized operand alphabet

type opnd struct {
	name string
	src  string              // source spelling ("" = host injected as variable x)
	mk   func() tengo.Object // host object
	kind string
}

var operands = []opnd{
	{"int7", "7", nil, "int"},
	{"int-12345", "-12345", nil, "int"},
	{"intmax", "9223372036854775807", nil, "int"},
	{"float1.5", "1.5", nil, "float"},
	{"float1e21", "1e21", nil, "float"},
	{"bool", "true", nil, "bool"},
	{"char-x", "'x'", nil, "char"},
	{"char-world", "'世'", nil, "char"},
	{"array0", "[]", nil, "array"},
	{"array", `[1, "a"]`, nil, "array"},
	{"imarray0", "immutable([])", nil, "immutable-array"},
	{"map0", "{}", nil, "map"},
	{"map1", "{a: 1}", nil, "map"},
	{"immap0", "immutable({})", nil, "immutable-map"},
	{"error", `error("e")`, nil, "error"},
	{"undefined", "undefined", nil, "undefined"},
	{"time", "", func() tengo.Object { return &tengo.Time{Value: val.RefTime} }, "time"},
	{"builtin-fn", "len", nil, "function"},
	{"compiled-fn", "func() {}", nil, "function"},
	{"user-fn", "", func() tengo.Object {
		return &tengo.UserFunction{Name: "uf", Value: func(args ...tengo.Object) (tengo.Object, error) { return tengo.UndefinedValue, nil }}
	}, "function"},
}

func operand(name string) (opnd, bool) {
	for _, o := range operands {
		if o.name == name {
			return o, true
		}
	}
	return opnd{}, false
}

var operandNames = func() []string {
	var ns []string
	for _, o := range operands {
		ns = append(ns, o.name)
	}
	return ns
}()

// ---- templates

type lbuilt struct {
	src string
	obj map[string]tengo.Object
	raw map[string]interface{}
}

type ltmpl struct {
	op    string
	vars  func(ls, lb int) []string
	dims  func(v string, ls, lb int) (as, bs []int)
	// optional: choose the first operand length per second operand length, given
	// the result length the operation has with a == 0 (measured under the default limits)
	target func(v string, ls, lb int, b int, r0 int) []int
	build  func(v string, a, b int) lbuilt
	sigop func(v string) string
	// explicit result lengths (string, bytes) for operations whose over-long
	// value is refused before it exists in the reference run's globals
	lens func(v string, a, b int) (int, int)
	host bool // the operand itself is the (possibly over-long) host input / literal
	info bool // outside the property text: disagreements are counted, not reported
}

func fixed(vs ...string) func(int, int) []string { return func(int, int) []string { return vs } }

// rhs expression for a non-sized operand (literal, or host variable x)
func rhsOf(name string, obj map[string]tengo.Object) string {
	o, _ := operand(name)
	if o.src != "" {
		return o.src
	}
	obj["x"] = o.mk()
	return "x"
}

func verbOf(spec string) string {
	if i := strings.IndexByte(spec, '|'); i >= 0 {
		spec = spec[:i]
	}
	return spec[len(spec)-1:]
}

func formatSpecs(ls int) []string {
	l := dimL(ls)
	specs := []string{"%s", "%v", "%d", "%x", "%X", "%q", "%c", "%U", "%t", "%T", "%o", "%b", "%e", "%f", "%g", "%%",
		"%+d", "%#x", "% x", "%#v", "%+q", "%#U", "%5d", "%-8s", "%05d", "%.3f", "%8.3f", "%+.2e", "%.2s", "%.1x"}
	for _, w := range []int{l - 1, l, l + 1} {
		ws := strconv.Itoa(w)
		for _, p := range []string{"%{w}d", "%-{w}s", "%0{w}d", "%{w}v", "%{w}x", "%-{w}x", "%{w}q", "%{w}c", "%{w}t", "%.{w}f", "%{w}U", "%{w}T", "%.{w}d", "%{w}s"} {
			specs = append(specs, strings.ReplaceAll(p, "{w}", ws))
		}
	}
	for _, w := range []int{l - 1, l, l + 1, -(l + 1)} {
		for _, p := range []string{"%*d", "%-*s", "%.*f", "%*x"} {
			specs = append(specs, p+"|W="+strconv.Itoa(w))
		}
	}
	return specs
}

var formatArgs = []string{"string", "bytes", "int7", "int-12345", "float1.5", "char-x", "char-world", "bool", "array", "map1", "error", "undefined", "time", "imarray0"}

func splitV(v string) (string, string) {
	i := strings.LastIndex(v, "~")
	return v[:i], v[i+1:]
}

var sliceIdx = []string{"", "0", "1", "A-1", "A", "A+1"}

func idxSrc(s string, a int) string {
	switch s {
	case "A-1":
		return strconv.Itoa(a - 1)
	case "A":
		return strconv.Itoa(a)
	case "A+1":
		return strconv.Itoa(a + 1)
	}
	return s
}

var templates = []ltmpl{
	{
		op:   "plus-string",
		vars: fixed(append([]string{"string", "string-lit", "bytes"}, operandNames...)...),
		dims: func(v string, ls, lb int) ([]int, []int) {
			switch v {
			case "string", "string-lit":
				return sset(ls), sset(ls)
			case "bytes":
				return sset(ls), sset2(lb, ls)
			}
			return full(ls), []int{0}
		},
		build: func(v string, a, b int) lbuilt {
			obj := map[string]tengo.Object{"a": str(a)}
			switch v {
			case "string":
				obj["b"] = str(b)
				return lbuilt{src: "out := a + b", obj: obj}
			case "string-lit":
				return lbuilt{src: fmt.Sprintf("out := %q + %q", text(a), text(b))}
			case "bytes":
				obj["q"] = byt(b)
				return lbuilt{src: "out := a + q", obj: obj}
			}
			return lbuilt{src: "out := a + " + rhsOf(v, obj), obj: obj}
		},
		sigop: func(v string) string {
			if o, ok := operand(v); ok {
				return "plus:string+" + o.kind
			}
			return "plus:string+" + strings.TrimSuffix(v, "-lit")
		},
	},
	{
		op:   "plus-bytes",
		vars: fixed(append([]string{"bytes", "string"}, operandNames...)...),
		dims: func(v string, ls, lb int) ([]int, []int) {
			switch v {
			case "bytes":
				return sset(lb), sset(lb)
			case "string":
				return sset(lb), sset(ls)
			}
			return sset(lb), []int{0}
		},
		build: func(v string, a, b int) lbuilt {
			obj := map[string]tengo.Object{"p": byt(a)}
			switch v {
			case "bytes":
				obj["q"] = byt(b)
				return lbuilt{src: "out := p + q", obj: obj}
			case "string":
				obj["b"] = str(b)
				return lbuilt{src: "out := p + b", obj: obj}
			}
			return lbuilt{src: "out := p + " + rhsOf(v, obj), obj: obj}
		},
		sigop: func(v string) string {
			if o, ok := operand(v); ok {
				return "plus:bytes+" + o.kind
			}
			return "plus:bytes+" + v
		},
	},
	{
		op:   "compound-assign",
		vars: fixed("string", "bytes", "char", "int"),
		dims: func(v string, ls, lb int) ([]int, []int) {
			switch v {
			case "string":
				return sset(ls), sset(ls)
			case "bytes":
				return sset(lb), sset(lb)
			}
			return full(ls), []int{0}
		},
		build: func(v string, a, b int) lbuilt {
			switch v {
			case "string":
				return lbuilt{src: "out := a; out += b", obj: map[string]tengo.Object{"a": str(a), "b": str(b)}}
			case "bytes":
				return lbuilt{src: "out := p; out += q", obj: map[string]tengo.Object{"p": byt(a), "q": byt(b)}}
			case "char":
				return lbuilt{src: "out := a; out += 'x'", obj: map[string]tengo.Object{"a": str(a)}}
			}
			return lbuilt{src: "out := a; out += 12", obj: map[string]tengo.Object{"a": str(a)}}
		},
	},
	{
		op:   "loop-doubling",
		vars: fixed("string~1", "string~2", "string~3", "string~4", "bytes~1", "bytes~2", "bytes~3", "bytes~4"),
		dims: func(v string, ls, lb int) ([]int, []int) {
			k, _ := splitV(v)
			l := ls
			if k == "bytes" {
				l = lb
			}
			l = dimL(l)
			return setOf(0, 1, 2, 3, l/8, l/4, l/4+1, l/2, l/2+1, l-1, l), []int{0}
		},
		build: func(v string, a, b int) lbuilt {
			k, n := splitV(v)
			if k == "string" {
				return lbuilt{src: "out := a; for i := 0; i < " + n + "; i++ { out += out }", obj: map[string]tengo.Object{"a": str(a)}}
			}
			return lbuilt{src: "out := p; for i := 0; i < " + n + "; i++ { out += out }", obj: map[string]tengo.Object{"p": byt(a)}}
		},
	},
	{
		op:   "loop-append",
		vars: fixed("string", "char", "bytes", "forin-chars", "in-function"),
		dims: func(v string, ls, lb int) ([]int, []int) {
			l := dimL(ls)
			if v == "bytes" {
				l = dimL(lb)
			}
			if v == "forin-chars" {
				return sset(l), []int{0}
			}
			return setOf(0, 1, l-1, l, l+1, 2*l), []int{0}
		},
		build: func(v string, a, b int) lbuilt {
			n := strconv.Itoa(a)
			switch v {
			case "string":
				return lbuilt{src: `out := ""; for i := 0; i < ` + n + `; i++ { out += "x" }`}
			case "char":
				return lbuilt{src: `out := ""; for i := 0; i < ` + n + `; i++ { out += 'x' }`}
			case "bytes":
				return lbuilt{src: `out := bytes(""); for i := 0; i < ` + n + `; i++ { out += bytes("x") }`}
			case "forin-chars":
				return lbuilt{src: `out := ""; for c in a { out += c }`, obj: map[string]tengo.Object{"a": str(a)}}
			}
			return lbuilt{src: `f := func(n) { s := ""; for i := 0; i < n; i++ { s += "x" }; return s }; out := [f(` + n + `)]`}
		},
	},
	{
		op:   "string()",
		vars: fixed(append([]string{"string", "bytes", "bytes-default", "undefined-default"}, operandNames...)...),
		dims: func(v string, ls, lb int) ([]int, []int) {
			switch v {
			case "string":
				return sset(ls), []int{0}
			case "bytes", "bytes-default":
				return sset2(lb, ls), []int{0}
			case "undefined-default":
				return sset(ls), []int{0}
			}
			return []int{0}, []int{0}
		},
		build: func(v string, a, b int) lbuilt {
			obj := map[string]tengo.Object{}
			switch v {
			case "string":
				obj["a"] = str(a)
				return lbuilt{src: "out := string(a)", obj: obj}
			case "bytes":
				obj["p"] = byt(a)
				return lbuilt{src: "out := string(p)", obj: obj}
			case "bytes-default":
				obj["p"] = byt(a)
				return lbuilt{src: `out := string(p, "d")`, obj: obj}
			case "undefined-default":
				obj["a"] = str(a)
				return lbuilt{src: `out := string(undefined, a)`, obj: obj}
			}
			return lbuilt{src: "out := string(" + rhsOf(v, obj) + ")", obj: obj}
		},
		sigop: func(v string) string {
			if o, ok := operand(v); ok {
				return "string():" + o.kind
			}
			return "string():" + v
		},
	},
	{
		op:   "bytes()",
		vars: fixed(append([]string{"string", "bytes", "N", "N-huge", "string-slice"}, operandNames...)...),
		dims: func(v string, ls, lb int) ([]int, []int) {
			switch v {
			case "string", "string-slice":
				return sset2(ls, lb), []int{0}
			case "bytes":
				return sset(lb), []int{0}
			case "N":
				l := dimL(lb)
				return setOf(0, 1, l-1, l, l+1, 2*l, 100000), []int{0}
			}
			return []int{0}, []int{0}
		},
		build: func(v string, a, b int) lbuilt {
			obj := map[string]tengo.Object{}
			switch v {
			case "string":
				obj["a"] = str(a)
				return lbuilt{src: "out := bytes(a)", obj: obj}
			case "string-slice":
				obj["a"] = str(a)
				return lbuilt{src: "t := bytes(a); out := t[1:]", obj: obj}
			case "bytes":
				obj["p"] = byt(a)
				return lbuilt{src: "out := bytes(p)", obj: obj}
			case "N":
				return lbuilt{src: "out := bytes(" + strconv.Itoa(a) + ")"}
			case "N-huge":
				return lbuilt{src: "out := bytes(2147483648)"}
			}
			return lbuilt{src: "out := bytes(" + rhsOf(v, obj) + ")", obj: obj}
		},
		sigop: func(v string) string {
			if o, ok := operand(v); ok {
				return "bytes():" + o.kind
			}
			return "bytes():" + v
		},
	},
	{
		op: "format",
		vars: func(ls, lb int) []string {
			var vs []string
			for _, s := range formatSpecs(ls) {
				for _, a := range formatArgs {
					vs = append(vs, s+"~"+a)
				}
			}
			vs = append(vs, "noargs~none", "%s%s~two-strings", "%v~nested-strings", "%d|%s~two-args")
			return vs
		},
		dims: func(v string, ls, lb int) ([]int, []int) {
			spec, arg := splitV(v)
			if i := strings.IndexByte(spec, '|'); i >= 0 && strings.HasPrefix(spec[i:], "|W=") {
				spec = spec[:i]
			}
			room := dimL(ls) - len(spec)
			if spec == "noargs" {
				room = dimL(ls)
			}
			if room < 0 {
				return nil, nil
			}
			var as []int
			for i := 0; i <= room; i++ {
				as = append(as, i)
			}
			if dimL(ls) > 16 && !fullPrefixes {
				as = []int{0} // the prefix lengths are chosen by target()
			}
			switch arg {
			case "string", "two-strings", "nested-strings", "two-args":
				return as, sset(ls)
			case "bytes":
				return as, sset2(lb, ls)
			}
			return as, []int{0}
		},
		target: func(v string, ls, lb int, b int, r0 int) []int {
			// prefix lengths that put the result at limit-1, limit, limit+1 (and the extremes)
			spec, _ := splitV(v)
			if i := strings.Index(spec, "|W="); i >= 0 {
				spec = spec[:i]
			}
			l := dimL(ls)
			if l <= 16 || fullPrefixes {
				return nil
			}
			room := l - len(spec)
			if spec == "noargs" {
				room = l
			}
			var out []int
			for _, x := range setOf(0, 1, l-r0-2, l-r0-1, l-r0, l-r0+1, l-r0+2, room-1, room) {
				if x <= room {
					out = append(out, x)
				}
			}
			return out
		},
		build: func(v string, a, b int) lbuilt {
			spec, arg := splitV(v)
			obj := map[string]tengo.Object{}
			w := ""
			if i := strings.Index(spec, "|W="); i >= 0 {
				w = spec[i+3:] + ", "
				spec = spec[:i]
			}
			switch arg {
			case "none":
				obj["f"] = &tengo.String{Value: text(a)}
				return lbuilt{src: "out := format(f)", obj: obj}
			case "two-strings":
				obj["f"] = &tengo.String{Value: text(a) + spec}
				obj["b"] = str(b)
				return lbuilt{src: "out := format(f, b, b)", obj: obj}
			case "nested-strings":
				obj["f"] = &tengo.String{Value: text(a) + spec}
				obj["b"] = str(b)
				return lbuilt{src: "out := format(f, [b, {k: b}])", obj: obj}
			case "two-args":
				obj["f"] = &tengo.String{Value: text(a) + spec}
				obj["b"] = str(b)
				return lbuilt{src: "out := format(f, 12, b)", obj: obj}
			}
			obj["f"] = &tengo.String{Value: text(a) + spec}
			var x string
			switch arg {
			case "string":
				obj["b"] = str(b)
				x = "b"
			case "bytes":
				obj["q"] = byt(b)
				x = "q"
			default:
				x = rhsOf(arg, obj)
			}
			return lbuilt{src: "out := format(f, " + w + x + ")", obj: obj}
		},
		sigop: func(v string) string {
			spec, _ := splitV(v)
			if spec == "noargs" {
				return "format:noargs"
			}
			return "format:verb=" + verbOf(spec)
		},
	},
	{
		op:   "type_name",
		vars: fixed(append([]string{"string", "bytes"}, operandNames...)...),
		dims: func(v string, ls, lb int) ([]int, []int) { return []int{1}, []int{0} },
		build: func(v string, a, b int) lbuilt {
			obj := map[string]tengo.Object{}
			switch v {
			case "string":
				obj["a"] = str(a)
				return lbuilt{src: "out := type_name(a)", obj: obj}
			case "bytes":
				obj["p"] = byt(a)
				return lbuilt{src: "out := type_name(p)", obj: obj}
			}
			return lbuilt{src: "out := type_name(" + rhsOf(v, obj) + ")", obj: obj}
		},
	},
	{
		op:   "copy",
		vars: fixed("string", "bytes", "array-of-string", "map-of-bytes"),
		dims: func(v string, ls, lb int) ([]int, []int) {
			if v == "bytes" || v == "map-of-bytes" {
				return sset(lb), []int{0}
			}
			return sset(ls), []int{0}
		},
		build: func(v string, a, b int) lbuilt {
			switch v {
			case "string":
				return lbuilt{src: "out := copy(a)", obj: map[string]tengo.Object{"a": str(a)}}
			case "bytes":
				return lbuilt{src: "out := copy(p)", obj: map[string]tengo.Object{"p": byt(a)}}
			case "array-of-string":
				return lbuilt{src: "out := copy([a, [a]])", obj: map[string]tengo.Object{"a": str(a)}}
			}
			return lbuilt{src: "out := copy({k: p})", obj: map[string]tengo.Object{"p": byt(a)}}
		},
	},
	{
		op:   "append",
		vars: fixed("strings", "bytes"),
		dims: func(v string, ls, lb int) ([]int, []int) {
			if v == "bytes" {
				return sset(lb), sset(lb)
			}
			return sset(ls), sset(ls)
		},
		build: func(v string, a, b int) lbuilt {
			if v == "bytes" {
				return lbuilt{src: "out := append([p], q)", obj: map[string]tengo.Object{"p": byt(a), "q": byt(b)}}
			}
			return lbuilt{src: "out := append([a], b)", obj: map[string]tengo.Object{"a": str(a), "b": str(b)}}
		},
	},
	{
		op: "slice",
		vars: func(int, int) []string {
			var vs []string
			for _, k := range []string{"string", "bytes"} {
				for _, lo := range sliceIdx {
					for _, hi := range sliceIdx {
						vs = append(vs, k+"~"+lo+":"+hi)
					}
				}
			}
			return vs
		},
		dims: func(v string, ls, lb int) ([]int, []int) {
			if strings.HasPrefix(v, "bytes") {
				return sset(lb), []int{0}
			}
			return sset(ls), []int{0}
		},
		build: func(v string, a, b int) lbuilt {
			k, idx := splitV(v)
			p := strings.SplitN(idx, ":", 2)
			e := "[" + idxSrc(p[0], a) + ":" + idxSrc(p[1], a) + "]"
			if k == "bytes" {
				return lbuilt{src: "out := p" + e, obj: map[string]tengo.Object{"p": byt(a)}}
			}
			return lbuilt{src: "out := a" + e, obj: map[string]tengo.Object{"a": str(a)}}
		},
		sigop: func(v string) string { k, _ := splitV(v); return "slice:" + k },
	},
	{
		op:   "literal",
		vars: fixed("string", "raw-string", "map-key", "map-key-quoted", "selector", "selector-assign", "index", "bytes-of-literal", "in-function", "in-dead-code"),
		dims: func(v string, ls, lb int) ([]int, []int) {
			l := dimL(ls)
			if v == "bytes-of-literal" {
				return setOf(0, 1, dimL(lb)-1, dimL(lb), dimL(lb)+1, l-1, l, l+1, 2*l), []int{0}
			}
			return setOf(1, l-1, l, l+1, 2*l), []int{0}
		},
		build: func(v string, a, b int) lbuilt {
			t := text(a)
			switch v {
			case "string":
				return lbuilt{src: `out := "` + t + `"`}
			case "raw-string":
				return lbuilt{src: "out := `" + t + "`"}
			case "map-key":
				return lbuilt{src: "out := {" + t + ": 1}"}
			case "map-key-quoted":
				return lbuilt{src: `out := {"` + t + `": 1}`}
			case "selector":
				return lbuilt{src: "m := {}; out := m." + t}
			case "selector-assign":
				return lbuilt{src: "out := {}; out." + t + " = 1"}
			case "index":
				return lbuilt{src: `m := {}; out := m["` + t + `"]`}
			case "bytes-of-literal":
				return lbuilt{src: `out := bytes("` + t + `")`}
			case "in-function":
				return lbuilt{src: `f := func() { return "` + t + `" }; out := f()`}
			}
			return lbuilt{src: `out := 1; if false { out = "` + t + `" }`}
		},
		lens: func(v string, a, b int) (int, int) {
			if v == "bytes-of-literal" {
				return a, a
			}
			return a, 0
		},
		host:  true,
		sigop: func(v string) string { return "literal:" + v },
	},
	{
		op:   "host-input",
		vars: fixed("string", "bytes", "string-in-array", "string-in-map", "bytes-in-array"),
		dims: func(v string, ls, lb int) ([]int, []int) {
			l := dimL(ls)
			if strings.HasPrefix(v, "bytes") {
				l = dimL(lb)
			}
			return setOf(0, 1, l-1, l, l+1, 2*l), []int{0}
		},
		build: func(v string, a, b int) lbuilt {
			var x interface{}
			switch v {
			case "string":
				x = text(a)
			case "bytes":
				x = []byte(text(a))
			case "string-in-array":
				x = []interface{}{1, text(a)}
			case "string-in-map":
				x = map[string]interface{}{"k": text(a)}
			case "bytes-in-array":
				x = []interface{}{[]byte(text(a))}
			}
			return lbuilt{src: "out := a", raw: map[string]interface{}{"a": x}}
		},
		lens: func(v string, a, b int) (int, int) {
			if strings.HasPrefix(v, "bytes") {
				return 0, a
			}
			return a, 0
		},
		host:  true,
		sigop: func(v string) string { return "host-input:" + v },
	},
	{
		// FromInterface conversions the property text does not mention: counted only
		op:   "host-input-unchecked",
		vars: fixed("error-message", "map-key"),
		dims: func(v string, ls, lb int) ([]int, []int) {
			l := dimL(ls)
			return setOf(1, l, l+1), []int{0}
		},
		build: func(v string, a, b int) lbuilt {
			var x interface{}
			if v == "error-message" {
				x = errors.New(text(a))
			} else {
				x = map[string]interface{}{text(a): 1}
			}
			return lbuilt{src: "out := a", raw: map[string]interface{}{"a": x}}
		},
		lens: func(v string, a, b int) (int, int) { return a, 0 },
		host: true,
		info: true,
	},
	{
		op: "stored-result",
		vars: fixed("func-into-array", "closure-into-map", "closure-captured", "runtime-map-key", "format-in-function",
			"error-wrap", "immutable-wrap", "wrap-existing", "map-iteration-keys", "bytes-in-closure"),
		dims: func(v string, ls, lb int) ([]int, []int) {
			switch v {
			case "wrap-existing", "map-iteration-keys":
				return sset(ls), []int{0}
			case "bytes-in-closure":
				return sset(lb), sset(lb)
			}
			return sset(ls), sset(ls)
		},
		build: func(v string, a, b int) lbuilt {
			ab := map[string]tengo.Object{"a": str(a), "b": str(b)}
			switch v {
			case "func-into-array":
				return lbuilt{src: "f := func(x, y) { return x + y }; out := [f(a, b)]", obj: ab}
			case "closure-into-map":
				return lbuilt{src: "m := {}; g := func() { m.k = a + b }; g(); out := m", obj: ab}
			case "closure-captured":
				return lbuilt{src: "mk := func() { s := a + b; return func() { return s } }; out := mk()", obj: ab}
			case "runtime-map-key":
				return lbuilt{src: "out := {}; out[a + b] = 1", obj: ab}
			case "format-in-function":
				return lbuilt{src: `f := func() { return format("%s%s", a, b) }; out := {k: [f()]}`, obj: ab}
			case "error-wrap":
				return lbuilt{src: "out := error(a + b)", obj: ab}
			case "immutable-wrap":
				return lbuilt{src: "out := immutable([a + b])", obj: ab}
			case "wrap-existing":
				return lbuilt{src: "out := [immutable([a]), error(a), {k: a}, immutable({k: [a]})]", obj: map[string]tengo.Object{"a": str(a)}}
			case "map-iteration-keys":
				return lbuilt{src: "out := []; for k, v in m { out = append(out, k) }",
					obj: map[string]tengo.Object{"m": &tengo.Map{Value: map[string]tengo.Object{text(a): &tengo.Int{Value: 1}}}}}
			}
			return lbuilt{src: "mk := func() { s := p + q; return func() { return s } }; out := mk()", obj: map[string]tengo.Object{"p": byt(a), "q": byt(b)}}
		},
		sigop: func(v string) string { return "stored-result:" + v },
	},
}

func tmplByOp(op string) *ltmpl {
	for i := range templates {
		if templates[i].op == op {
			return &templates[i]
		}
	}
	return nil
}

// ---- the walker: longest String / Bytes reachable from a set of objects

type reach struct {
	maxS, maxB int
}

func walk(o tengo.Object, seen map[interface{}]bool, r *reach) {
	if o == nil {
		return
	}
	switch x := o.(type) {
	case *tengo.String:
		if len(x.Value) > r.maxS {
			r.maxS = len(x.Value)
		}
	case *tengo.Bytes:
		if len(x.Value) > r.maxB {
			r.maxB = len(x.Value)
		}
	case *tengo.Array:
		if seen[x] {
			return
		}
		seen[x] = true
		for _, e := range x.Value {
			walk(e, seen, r)
		}
	case *tengo.ImmutableArray:
		if seen[x] {
			return
		}
		seen[x] = true
		for _, e := range x.Value {
			walk(e, seen, r)
		}
	case *tengo.Map:
		if seen[x] {
			return
		}
		seen[x] = true
		for k, e := range x.Value {
			if len(k) > r.maxS {
				r.maxS = len(k)
			}
			walk(e, seen, r)
		}
	case *tengo.ImmutableMap:
		if seen[x] {
			return
		}
		seen[x] = true
		for k, e := range x.Value {
			if len(k) > r.maxS {
				r.maxS = len(k)
			}
			walk(e, seen, r)
		}
	case *tengo.Error:
		walk(x.Value, seen, r)
	case *tengo.ObjectPtr:
		if x.Value != nil {
			walk(*x.Value, seen, r)
		}
	case *tengo.CompiledFunction:
		if seen[x] {
			return
		}
		seen[x] = true
		for _, f := range x.Free {
			if f != nil && f.Value != nil {
				walk(*f.Value, seen, r)
			}
		}
	}
}

func reachOf(g map[string]tengo.Object) reach {
	var r reach
	seen := map[interface{}]bool{}
	for _, o := range g {
		walk(o, seen, &r)
	}
	return r
}

// ---- running

type lres struct {
	class string // ok | add-error | compile-error | runtime-error | panic | budget
	kind  string // "string" / "bytes" when the failure is the matching limit error
	text  string
	snap  string
	reach reach
	outLen int // length of the global "out" when it is a string
}

func limitKind(err error) string {
	if err == nil {
		return ""
	}
	var ce *tengo.CompilerError
	if errors.As(err, &ce) {
		err = ce.Err
	}
	switch {
	case errors.Is(err, tengo.ErrStringLimit):
		return "string"
	case errors.Is(err, tengo.ErrBytesLimit):
		return "bytes"
	}
	return ""
}

func execLimit(b lbuilt) lres {
	r := runScript(b.src+"\n", runOpts{objInputs: b.obj, rawInputs: b.raw})
	out := lres{class: r.Class, text: tg.FirstLine(r.ErrText), kind: limitKind(r.Err)}
	if r.Globals != nil {
		out.reach = reachOf(r.Globals)
		out.snap = tg.GlobalsSnapshot(r.Globals)
		if s, ok := r.Globals["out"].(*tengo.String); ok {
			out.outLen = len(s.Value)
		}
	}
	return out
}

func refKey(c Case) string { return fmt.Sprintf("%s|%s|%d|%d", c.Op, c.V, c.A, c.B) }

// inputsWithin reports whether every injected object respects the limits.
func inputsWithin(b lbuilt, ls, lb int) bool {
	var r reach
	seen := map[interface{}]bool{}
	for _, o := range b.obj {
		walk(o, seen, &r)
	}
	return r.maxS <= eff(ls) && r.maxB <= eff(lb)
}

// judge evaluates one case under the limits that are CURRENTLY set (they must
// equal c.LS / c.LB) against the reference outcome obtained with the defaults.
func judgeLimit(c Case, t *ltmpl, b lbuilt, ref lres) (fails []fail, obs string, nontrivial bool) {
	got := execLimit(b)
	sigop := t.op
	if t.sigop != nil {
		sigop = t.sigop(c.V)
	}
	ls, lb := eff(c.LS), eff(c.LB)
	add := func(kind, what, msg string) {
		fails = append(fails, fail{"limit/" + kind + "/" + sigop + "/" + what,
			fmt.Sprintf("MaxStringLen=%d MaxBytesLen=%d: `%s`%s: %s", ls, lb, b.src, inputsText(b), msg)})
	}
	if got.class == "panic" || got.class == "budget" {
		return []fail{{"internal/" + got.class, got.text}}, "internal", false
	}
	// universal: nothing over-long is reachable
	over := false
	if got.reach.maxS > ls {
		over = true
		add("string", "overlong-value", fmt.Sprintf("a string of %d bytes is reachable from the globals after the run (run: %s %s)", got.reach.maxS, got.class, got.text))
	}
	if got.reach.maxB > lb {
		over = true
		add("bytes", "overlong-value", fmt.Sprintf("a bytes value of %d bytes is reachable from the globals after the run (run: %s %s)", got.reach.maxB, got.class, got.text))
	}
	// expected result lengths
	rs, rb := ref.reach.maxS, ref.reach.maxB
	refOK := ref.class == "ok"
	if t.lens != nil {
		rs, rb = t.lens(c.V, c.A, c.B)
	}
	if !refOK {
		if ref.kind != "" {
			// fails with a limit error already under the default limits: smaller limits keep that
			nontrivial = true
			if got.kind != ref.kind {
				add(ref.kind, "no-limit-error", fmt.Sprintf("fails with the %s limit error under the default limits but here: %s %s", ref.kind, got.class, got.text))
			}
			return fails, "ref-limit-error", nontrivial
		}
		return fails, "ref-" + ref.class, false
	}
	needS, needB := rs > ls, rb > lb
	failed := got.class != "ok"
	switch {
	case needS || needB:
		nontrivial = true
		obs = "over-limit"
		want := "string"
		if !needS {
			want = "bytes"
		}
		switch {
		case !failed:
			if !over {
				add(want, "no-limit-error", fmt.Sprintf("the true result is %d bytes long (string) / %d (bytes), yet the run succeeds", rs, rb))
			}
		case got.kind == "" || (got.kind == "string" && !needS) || (got.kind == "bytes" && !needB):
			add(want, "wrong-error", fmt.Sprintf("the true result length %d/%d exceeds the limit but the failure is not the matching limit error: %s %s", rs, rb, got.class, got.text))
		}
	default:
		obs = "within-limit"
		switch {
		case failed && got.kind != "":
			add(got.kind, "spurious-limit-error", fmt.Sprintf("the true result length is %d (string) / %d (bytes), within the limit, but the run fails: %s %s", rs, rb, got.class, got.text))
		case failed:
			add("string", "wrong-error", fmt.Sprintf("succeeds under the default limits but fails here: %s %s", got.class, got.text))
		case got.snap != ref.snap && !over:
			add("string", "result-differs", fmt.Sprintf("result differs from the run under the default limits: %s vs %s", clip(got.snap), clip(ref.snap)))
		}
	}
	return fails, obs, nontrivial
}

// inputsText renders the host inputs of a case as a trailing source comment.
func inputsText(b lbuilt) string {
	var parts []string
	for _, k := range sortedKeysObj(b.obj) {
		parts = append(parts, k+" = "+clip(val.Snapshot(b.obj[k])))
	}
	for _, k := range sortedKeysRaw(b.raw) {
		parts = append(parts, k+" = (Go value) "+clip(fmt.Sprintf("%#v", b.raw[k])))
	}
	if len(parts) == 0 {
		return ""
	}
	return "  // host inputs: " + strings.Join(parts, "; ")
}

func clip(s string) string {
	if len(s) > 160 {
		return s[:160] + "..."
	}
	return s
}
