// C06: configured resource limits are honoured by every program.
//
// Three exhaustive parts (see alloc.go, limit.go, rec.go):
//
//	(a) allocation budget: program families x every budget N = 0..K and unlimited;
//	(b) string / bytes length limits: every string/bytes producing operation of
//	    the core language x limit settings x operand lengths around the limit;
//	(c) recursion beyond the frame / operand-stack capacity.
package main

import (
	"fmt"
	"runtime"
	"runtime/debug"
	"sort"
	"strings"
	"sync"
	"sync/atomic"

	"github.com/d5/tengo/v2"
	"verif/engine/gen"
	"verif/engine/report"
)

type Case struct {
	Part string `json:"part"` // alloc | limit | recursion
	// part a
	Family  string   `json:"family,omitempty"`
	Budget  int      `json:"budget,omitempty"`
	Lean    bool     `json:"lean,omitempty"`
	Choices []int    `json:"choices,omitempty"`
	Name    string   `json:"name,omitempty"`
	Args    []string `json:"args,omitempty"`
	// part b
	Op string `json:"op,omitempty"`
	V  string `json:"variant,omitempty"`
	LS int    `json:"max_string_len,omitempty"` // 0 = default
	LB int    `json:"max_bytes_len,omitempty"`  // 0 = default
	A  int    `json:"len_a,omitempty"`
	B  int    `json:"len_b,omitempty"`
	// part c
	Shape  string `json:"shape,omitempty"`
	Form   string `json:"form,omitempty"`
	Params int    `json:"params,omitempty"`
	Locals int    `json:"locals,omitempty"`
	Depth  int    `json:"depth,omitempty"`
	Mem    bool   `json:"mem,omitempty"`

	Source string `json:"source,omitempty"`
}

type fail struct{ sig, what string }

func bucket(n int64) string {
	switch {
	case n <= 3:
		return fmt.Sprint(n)
	case n <= 7:
		return "4-7"
	case n <= 15:
		return "8-15"
	case n <= 63:
		return "16-63"
	}
	return "64+"
}

var (
	states, transitions, validated, nontrivial int64
)

// Failures are collected and handed to the report in a fixed order (smallest
// program first), so that the examples kept per signature do not depend on the
// scheduling of the workers.
type vrec struct {
	sig, what string
	c         Case
}

var (
	vmu   sync.Mutex
	vrecs []vrec
)

func report1(r *report.Run, c Case, fails []fail) {
	for _, f := range fails {
		if strings.HasPrefix(f.sig, "internal/") {
			r.Internal("%s: %s (%+v)", f.sig, f.what, c)
			continue
		}
		if c.Source == "" {
			c.Source = sourceOf(c)
		}
		vmu.Lock()
		vrecs = append(vrecs, vrec{f.sig, f.what, c})
		vmu.Unlock()
	}
}

func flushViolations(r *report.Run) {
	key := func(v vrec) string {
		return fmt.Sprintf("%s|%06d|%s|%04d|%04d|%06d|%06d|%09d|%v", v.sig, len(v.c.Source), v.c.Source, v.c.LS, v.c.LB, v.c.A, v.c.B, v.c.Depth, v.c.Choices)
	}
	sort.SliceStable(vrecs, func(i, j int) bool { return key(vrecs[i]) < key(vrecs[j]) })
	for _, v := range vrecs {
		r.Violation(v.sig, v.what, v.c)
	}
}

func sourceOf(c Case) string {
	switch c.Part {
	case "alloc":
		s, _ := allocSource(c)
		return s
	case "limit":
		if t := tmplByOp(c.Op); t != nil {
			b := t.build(c.V, c.A, c.B)
			return b.src + inputsText(b)
		}
	case "recursion":
		return recSource(c)
	}
	return ""
}

// ---------------------------------------------------------------- part a

func partA(r *report.Run) {
	var progs, evals, sampleCtr int64
	exec := func(c Case) {
		fails, o := runAllocCase(c)
		atomic.AddInt64(&progs, 1)
		atomic.AddInt64(&evals, o.runs)
		atomic.AddInt64(&states, o.configs)
		atomic.AddInt64(&transitions, o.runs)
		r.Count("a/programs/"+c.Family, 1)
		r.Count("a/runs", o.runs)
		r.Count("a/runs/"+c.Family, o.runs)
		if strings.HasPrefix(o.class, "skip:") {
			r.Count("a/"+o.class, 1)
			r.Outcome("a/" + c.Family + "/" + o.class)
		} else {
			atomic.AddInt64(&validated, o.runs)
			r.Outcome(fmt.Sprintf("a/%s/%s/T=%s", c.Family, o.class, bucket(o.T)))
			if o.T >= 1 {
				atomic.AddInt64(&nontrivial, 1)
				r.Count("a/programs-with-threshold>=1", 1)
			}
			if o.class == "runtime-error" {
				r.Count("a/programs-whose-unlimited-run-is-an-error", 1)
			}
			if o.L == o.E {
				r.Count("a/programs-with-L(P)==E(P)", 1)
			} else if o.L < o.E {
				r.Count("a/programs-with-L(P)<E(P)", 1)
			} else {
				r.Count("a/programs-with-L(P)>E(P)", 1)
			}
			if o.variadic {
				r.Count("a/programs-calling-a-variadic-function", 1)
			}
		}
		if n := atomic.AddInt64(&sampleCtr, 1); n%9973 == 1 {
			src, _ := allocSource(c)
			r.Sample(map[string]interface{}{"part": "alloc", "case": c, "source": src, "unlimited": o.class, "T": o.T, "E": o.E, "L": o.L, "runs": o.runs})
		}
		report1(r, c, fails)
	}
	enumStmt := func(budget int, lean bool) {
		gen.ParallelEnumerate(gen.Stmts(gen.StmtCfg{Budget: budget, Lean: lean}), 5, func(p *gen.Program, ch []int) {
			exec(Case{Part: "alloc", Family: "stmt", Budget: budget, Lean: lean, Choices: append([]int{}, ch...)})
		})
	}
	phase(r, "a: stmt family")
	if r.Thorough() {
		enumStmt(2, false)
	} else {
		enumStmt(2, true)
	}
	phase(r, "a: func family")
	gen.ParallelEnumerate(gen.Funcs(gen.FuncCfg{Budget: 2}), 5, func(p *gen.Program, ch []int) {
		exec(Case{Part: "alloc", Family: "func", Budget: 2, Choices: append([]int{}, ch...)})
	})
	phase(r, "a: builtin + site families")
	var cases []Case
	for _, b := range tengo.GetAllBuiltinFunctions() {
		cases = append(cases, Case{Part: "alloc", Family: "builtin", Name: b.Name})
		for _, x := range builtinArgAlphabet {
			cases = append(cases, Case{Part: "alloc", Family: "builtin", Name: b.Name, Args: []string{x}})
			for _, y := range builtinArgAlphabet {
				cases = append(cases, Case{Part: "alloc", Family: "builtin", Name: b.Name, Args: []string{x, y}})
			}
		}
	}
	for i := range siteSnippets {
		cases = append(cases, Case{Part: "alloc", Family: "site", Args: []string{fmt.Sprint(i)}})
		for j := range siteSnippets {
			cases = append(cases, Case{Part: "alloc", Family: "site", Args: []string{fmt.Sprint(i), fmt.Sprint(j)}})
		}
	}
	report.ParallelFor(len(cases), func(i int) { exec(cases[i]) })
	r.Set("a_programs", progs)
	r.Set("a_runs", evals)
}

// ---------------------------------------------------------------- part b

type phaseCfg struct{ ls, lb int }

func limitPhases(thorough bool) []phaseCfg {
	ps := []phaseCfg{{0, 0}, {4, 4}, {16, 16}, {64, 64}, {4, 64}, {64, 4}}
	if thorough {
		ps = append(ps, phaseCfg{8, 8}, phaseCfg{4, 16}, phaseCfg{16, 4}, phaseCfg{16, 64}, phaseCfg{64, 16},
			phaseCfg{5, 7}, phaseCfg{32, 32}, phaseCfg{128, 128}, phaseCfg{0, 4}, phaseCfg{4, 0})
	}
	return ps
}

// enumLimit lists the cases of one limit setting. It must be called while the
// default limits are set (target() measures result lengths).
func enumLimit(p phaseCfg) []Case {
	type tv struct {
		t *ltmpl
		v string
	}
	var tvs []tv
	for i := range templates {
		t := &templates[i]
		for _, v := range t.vars(p.ls, p.lb) {
			if p.ls != p.lb && t.op == "format" && !strings.Contains(v, "bytes") {
				continue // mixed settings: only the format cases in which a bytes value takes part
			}
			tvs = append(tvs, tv{t, v})
		}
	}
	parts := make([][]Case, len(tvs))
	report.ParallelFor(len(tvs), func(i int) {
		t, v := tvs[i].t, tvs[i].v
		as, bs := t.dims(v, p.ls, p.lb)
		for _, b := range bs {
			al := as
			if t.target != nil && len(as) > 0 {
				r0 := execLimit(t.build(v, 0, b))
				if more := t.target(v, p.ls, p.lb, b, r0.outLen); more != nil {
					al = more
				}
			}
			for _, a := range al {
				parts[i] = append(parts[i], Case{Part: "limit", Op: t.op, V: v, LS: p.ls, LB: p.lb, A: a, B: b})
			}
		}
	})
	var out []Case
	for _, ps := range parts {
		out = append(out, ps...)
	}
	return out
}

func setLimits(ls, lb int) {
	tengo.MaxStringLen = eff(ls)
	tengo.MaxBytesLen = eff(lb)
}

func partB(r *report.Run) {
	fullPrefixes = r.Thorough()
	phases := limitPhases(r.Thorough())
	perPhase := make([][]Case, len(phases))
	refIdx := map[string]int{}
	var refCases []Case
	setLimits(0, 0)
	for i, p := range phases {
		perPhase[i] = enumLimit(p)
		for _, c := range perPhase[i] {
			k := refKey(c)
			if _, ok := refIdx[k]; !ok {
				refIdx[k] = len(refCases)
				refCases = append(refCases, c)
			}
		}
	}
	// reference runs: default limits
	setLimits(0, 0)
	phase(r, fmt.Sprintf("b: %d reference runs under the default limits", len(refCases)))
	refs := make([]lres, len(refCases))
	report.ParallelFor(len(refCases), func(i int) {
		c := refCases[i]
		t := tmplByOp(c.Op)
		refs[i] = execLimit(t.build(c.V, c.A, c.B))
	})
	atomic.AddInt64(&transitions, int64(len(refCases)))
	atomic.AddInt64(&states, int64(len(refCases)))
	r.Count("b/reference-runs", int64(len(refCases)))
	ops := map[string]bool{}
	var opsMu sync.Mutex
	var sampleCtr int64
	for pi, p := range phases {
		cases := perPhase[pi]
		phase(r, fmt.Sprintf("b: MaxStringLen=%d MaxBytesLen=%d: %d cases", eff(p.ls), eff(p.lb), len(cases)))
		setLimits(p.ls, p.lb)
		report.ParallelFor(len(cases), func(i int) {
			c := cases[i]
			t := tmplByOp(c.Op)
			b := t.build(c.V, c.A, c.B)
			pname := fmt.Sprintf("b/cases/S=%d,B=%d", p.ls, p.lb)
			if !t.host && !inputsWithin(b, c.LS, c.LB) {
				r.Count("b/skipped-input-over-limit", 1)
				return
			}
			ref := refs[refIdx[refKey(c)]]
			fails, obs, nt := judgeLimit(c, t, b, ref)
			atomic.AddInt64(&states, 1)
			atomic.AddInt64(&transitions, 1)
			atomic.AddInt64(&validated, 1)
			r.Count(pname, 1)
			sigop := t.op
			if t.sigop != nil {
				sigop = t.sigop(c.V)
			}
			opsMu.Lock()
			ops[sigop] = true
			opsMu.Unlock()
			if t.info {
				for _, f := range fails {
					r.Count("b/info(not-claimed)/"+f.sig, 1)
				}
				fails = nil
				nt = false
			}
			if nt {
				atomic.AddInt64(&nontrivial, 1)
				r.Count("b/cases-with-R>limit", 1)
			}
			verdict := "agree"
			if len(fails) > 0 {
				verdict = "disagree"
			}
			r.Outcome("b/" + t.op + "/" + obs + "/" + verdict)
			if n := atomic.AddInt64(&sampleCtr, 1); n%40009 == 1 {
				r.Sample(map[string]interface{}{"part": "limit", "case": c, "source": b.src, "observed": obs})
			}
			report1(r, c, fails)
		})
	}
	setLimits(0, 0)
	var opList []string
	for k := range ops {
		opList = append(opList, k)
	}
	sort.Strings(opList)
	r.Set("b_operations_covered", opList)
	var ph []string
	for _, p := range phases {
		ph = append(ph, fmt.Sprintf("MaxStringLen=%d,MaxBytesLen=%d", eff(p.ls), eff(p.lb)))
	}
	r.Set("b_limit_settings", ph)
}

// ---------------------------------------------------------------- part c

func partC(r *report.Run) {
	depths := []int{1, 100, 500, 680, 1021, 1022, 1023, 1024, 1025, 2047, 2048, 2049, 100000}
	if r.Thorough() {
		depths = append(depths, 0, 2, 340, 341, 400, 511, 512, 600, 681, 682, 683, 1000, 1020, 1026, 4096, 10000, 1000000)
	}
	var cases []Case
	for _, sh := range recShapes {
		for _, fo := range recForms {
			for p := 0; p <= 3; p++ {
				if strings.HasSuffix(sh, "counter") && p > 0 {
					continue
				}
				for l := 0; l <= 3; l++ {
					base := Case{Part: "recursion", Shape: sh, Form: fo, Params: p, Locals: l}
					ds := map[int]bool{}
					for _, d := range depths {
						ds[d] = true
					}
					// the exact boundary of this configuration according to the model
					probe := base
					probe.Depth = 1
					if m := buildRecModel(recSource(probe)); m.err == "" {
						g := m.lastGood()
						ds[g-1], ds[g], ds[g+1] = true, true, true
					}
					var dl []int
					for d := range ds {
						if d >= 0 {
							dl = append(dl, d)
						}
					}
					sort.Ints(dl)
					for _, d := range dl {
						c := base
						c.Depth = d
						cases = append(cases, c)
					}
				}
			}
		}
	}
	phase(r, fmt.Sprintf("c: %d recursion cases", len(cases)))
	report.ParallelFor(len(cases), func(i int) {
		c := cases[i]
		fails, o := runRecCase(c)
		atomic.AddInt64(&states, 1)
		atomic.AddInt64(&transitions, 2)
		atomic.AddInt64(&validated, 1)
		r.Count("c/cases", 1)
		r.Count("c/predicted-"+o.pred, 1)
		r.Count("c/Compiled.Run(information)/"+o.runClass, 1)
		if o.pred != "value" {
			atomic.AddInt64(&nontrivial, 1)
		}
		r.Outcome("c/" + c.Shape + "/" + o.pred + "/" + o.class)
		if i%97 == 0 {
			r.Sample(map[string]interface{}{"part": "recursion", "case": c, "source": recSource(c), "predicted": o.pred, "observed": o.class, "steps": o.steps})
		}
		report1(r, c, fails)
	})
	// bounded memory: sequential, nothing else running
	phase(r, "c: memory growth of the deepest recursions (sequential)")
	var worst uint64
	for _, c := range cases {
		if c.Depth != 100000 {
			continue
		}
		c.Mem = true
		fails, grew := runRecMem(c)
		if grew > worst {
			worst = grew
		}
		atomic.AddInt64(&transitions, 1)
		atomic.AddInt64(&validated, 1)
		r.Count("c/memory-bounded-runs", 1)
		report1(r, c, fails)
	}
	r.Set("c_worst_allocation_during_depth_100000_run_bytes_le", roundUp(worst))
}

func roundUp(n uint64) uint64 { // next power of two: coarse, so that the evidence is identical from run to run
	p := uint64(1 << 20)
	for p < n {
		p *= 2
	}
	return p
}

const memBound = 64 << 20

func runRecMem(c Case) ([]fail, uint64) {
	src := recSource(c)
	runtime.GC()
	var m0, m1 runtime.MemStats
	runtime.ReadMemStats(&m0)
	r := runScript(src, runOpts{})
	runtime.ReadMemStats(&m1)
	grew := m1.TotalAlloc - m0.TotalAlloc
	shape := fmt.Sprintf("%s-%s/params=%d/locals=%d", c.Shape, c.Form, c.Params, c.Locals)
	var fails []fail
	if grew > memBound {
		fails = append(fails, fail{"recursion/unbounded-growth/shape=" + shape,
			fmt.Sprintf("depth %d: the run allocated %d bytes (bound %d); outcome %s", c.Depth, grew, memBound, r.Class)})
	}
	if r.Class == "budget" {
		fails = append(fails, fail{"recursion/unbounded-growth/shape=" + shape,
			fmt.Sprintf("depth %d: the run did not return within %d VM steps", c.Depth, stepBudget)})
	}
	return fails, grew
}

// ---------------------------------------------------------------- driver

func phase(r *report.Run, name string) { fmt.Printf("[%6.1fs] %s\n", r.Elapsed().Seconds(), name) }

func replay(path string) {
	rp, err := report.LoadReplay(path)
	if err != nil {
		fmt.Println("cannot load replay:", err)
		return
	}
	fmt.Printf("replay %s\n  signature: %s\n", path, rp.Signature)
	for _, raw := range rp.Cases {
		var c Case
		_ = report.Recase(raw, &c)
		c.Source = ""
		var fails []fail
		obs := ""
		switch c.Part {
		case "alloc":
			f, o := runAllocCase(c)
			fails = f
			obs = fmt.Sprintf("unlimited run: %s; threshold T=%d, E(P)=%d decrements, L(P)=%d certain creations, %d runs", o.class, o.T, o.E, o.L, o.runs)
		case "limit":
			t := tmplByOp(c.Op)
			if t == nil {
				fmt.Println("unknown op", c.Op)
				continue
			}
			b := t.build(c.V, c.A, c.B)
			setLimits(0, 0)
			ref := execLimit(b)
			setLimits(c.LS, c.LB)
			var nt bool
			fails, obs, nt = judgeLimit(c, t, b, ref)
			setLimits(0, 0)
			obs = fmt.Sprintf("%s (R>limit: %v); default-limit run: %s, longest string %d, longest bytes %d", obs, nt, ref.class, ref.reach.maxS, ref.reach.maxB)
		case "recursion":
			if c.Mem {
				f, g := runRecMem(c)
				fails = f
				obs = fmt.Sprintf("allocated %d bytes", g)
			} else {
				f, o := runRecCase(c)
				fails = f
				obs = fmt.Sprintf("model predicts %s; RunContext: %s (%d steps); Run: %s", o.pred, o.class, o.steps, o.runClass)
			}
		}
		fmt.Printf("case %+v\n%s\n  observed: %s\n", c, sourceOf(c), obs)
		for _, f := range fails {
			fmt.Printf("  FAIL %s: %s\n", f.sig, f.what)
		}
		if len(fails) == 0 {
			fmt.Println("  no failure")
		}
	}
}

func main() {
	// every run allocates a fresh VM (about 100 KB of stack and frames): collect less often
	debug.SetGCPercent(800)
	installHook()
	if p := report.ReplayArg(); p != "" {
		replay(p)
		return
	}
	r := report.New("C06")
	partA(r)
	partB(r)
	partC(r)
	phase(r, "done")
	flushViolations(r)
	r.Assume("E(P) and the per-instruction creation classes are read through the build-tag probe (/repo/verif_on.go), which only observes")
	r.Assume("part b: the true result length R of an operation is the length the same operation yields under the default limits (2^31-1); operand texts are ASCII letters")
	r.Assume("part c: frame/stack demand per recursion level is derived from the compiled bytecode with engine/bcv (heights), capacities are tengo.MaxFrames and tengo.StackSize")
	r.Note("not claimed: scalar objects created by iterators (Key/Value of for-in) are not counted by the allocation budget; FromInterface does not length-check error messages and map keys of host inputs (counted under b/info)")
	r.Finish(report.Coverage{
		States:      states,
		Transitions: transitions,
		Validated:   validated,
		Evaluations: transitions,
		Nontrivial:  nontrivial,
		Rule: "state = one (program, configuration) pair: (a) program x allocation budget N in {-1, 0..K}, K found by the run itself (two consecutive unlimited outcomes and N > E(P)), programs = every element of stmt/func (budget 2) + every builtin x 0..2 arguments over an 18-value literal alphabet + ordered pairs of 44 allocation-site snippets; " +
			"(b) operation x variant x operand lengths around the limit x (MaxStringLen, MaxBytesLen) setting, plus one reference configuration (default limits) per operation instance; (c) recursion shape x form x params 0..3 x locals 0..3 x depth; " +
			"transition = one compile+run on the implementation; validated = runs compared with the oracle; non-trivial = programs whose threshold T >= 1 (a) + limit cases whose true result length exceeds the limit (b) + recursion cases at/beyond a capacity (c)",
	})
}
