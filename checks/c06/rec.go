package main

// Part (c): recursion beyond the frame / operand-stack capacity.
//
// The capacities are tengo.MaxFrames (1024 frames, one of them the main
// function) and tengo.StackSize (2048 operand slots). Which of the two a
// recursion of depth D exhausts first follows from the compiled code alone:
// every frame occupies NumLocals slots plus the operands that are on the stack
// when the recursive call is made (callee and arguments; the arguments become
// the first locals of the next frame). The model below takes these numbers
// from the bytecode (engine/bcv heights), never from the running VM.

import (
	"errors"
	"fmt"
	"strings"

	"github.com/d5/tengo/v2"
	"github.com/d5/tengo/v2/parser"
	"verif/engine/bcv"
	"verif/engine/tg"
	"verif/engine/val"
)

var recShapes = []string{"self", "mutual", "closure", "method", "counter", "mutual-counter", "mutual3-counter"}
var recForms = []string{"pre", "post"} // 1 + f(n-1)  |  f(n-1) + 1

func recSource(c Case) string {
	var ps, as, ls []string
	for i := 0; i < c.Params; i++ {
		ps = append(ps, fmt.Sprintf("p%d", i))
		as = append(as, fmt.Sprint(i+1))
	}
	for i := 0; i < c.Locals; i++ {
		ls = append(ls, fmt.Sprintf("l%d := %d", i, i))
	}
	params := strings.Join(append([]string{"n"}, ps...), ", ")
	rec := func(callee string) string {
		call := callee + "(" + strings.Join(append([]string{"n-1"}, ps...), ", ") + ")"
		if c.Form == "post" {
			return "return " + call + " + 1"
		}
		return "return 1 + " + call
	}
	body := func(callee string) string {
		return "{ " + strings.Join(append(ls, "if n == 0 { return 0 }", rec(callee)), "; ") + " }"
	}
	first := strings.Join(append([]string{fmt.Sprint(c.Depth)}, as...), ", ")
	switch c.Shape {
	case "self":
		return fmt.Sprintf("f := func(%s) %s\nout := f(%s)\n", params, body("f"), first)
	case "mutual":
		return fmt.Sprintf("g := undefined\nf := func(%s) %s\ng = func(%s) %s\nout := f(%s)\n", params, body("g"), params, body("f"), first)
	case "closure":
		return fmt.Sprintf("mk := func() { h := undefined; h = func(%s) %s; return h }\nf := mk()\nout := f(%s)\n", params, body("h"), first)
	case "method":
		return fmt.Sprintf("m := {f: undefined}\nm.f = func(%s) %s\nout := m.f(%s)\n", params, body("m.f"), first)
	case "counter":
		// no parameters at all: the depth lives in a global
		call := "return 1 + f()"
		if c.Form == "post" {
			call = "return f() + 1"
		}
		return fmt.Sprintf("g := %d\nf := func() { %s }\nout := f()\n", c.Depth,
			strings.Join(append(ls, "if g == 0 { return 0 }", "g--", call), "; "))
	case "mutual-counter", "mutual3-counter":
		// distinct function objects calling each other with one slot per frame: the frame limit is what runs out
		names := []string{"f", "h"}
		if c.Shape == "mutual3-counter" {
			names = append(names, "k")
		}
		var sb strings.Builder
		fmt.Fprintf(&sb, "g := %d\n", c.Depth)
		for _, n := range names[1:] {
			fmt.Fprintf(&sb, "%s := undefined\n", n)
		}
		for i, n := range names {
			next := names[(i+1)%len(names)]
			call := "return 1 + " + next + "()"
			if c.Form == "post" {
				call = "return " + next + "() + 1"
			}
			def := " = "
			if i == 0 {
				def = " := "
			}
			fmt.Fprintf(&sb, "%s%sfunc() { %s }\n", n, def, strings.Join(append(append([]string{}, ls...), "if g == 0 { return 0 }", "g--", call), "; "))
		}
		sb.WriteString("out := f()\n")
		return sb.String()
	}
	return ""
}

type fnModel struct {
	numLocals, numArgs, hCall, hRec, hBase, hMax int
}

type recModel struct {
	bp0 int
	fns []fnModel // the functions of the recursion cycle, in call order
	err string
}

func buildRecModel(src string) recModel {
	d := tg.CompileDirect(src, nil, nil, false, true)
	if d.Class != "ok" {
		return recModel{err: "compile: " + d.ErrText}
	}
	var m recModel
	for _, fr := range bcv.CheckBytecode(d.Bytecode, tengo.GlobalsSize, len(tengo.GetAllBuiltinFunctions())) {
		ins, _, derr := bcv.Decode(fr.Fn.Instructions)
		if derr != "" {
			return recModel{err: derr}
		}
		if fr.Name == "main" {
			for _, in := range ins {
				if in.Op == parser.OpCall {
					m.bp0 = fr.Res.Heights[in.PC] - in.Args[0] // the last call of main is the entry call
				}
			}
			continue
		}
		fm := fnModel{numLocals: fr.Fn.NumLocals, hCall: -1, hMax: fr.Res.MaxHeight}
		seenRet := false
		for _, in := range ins {
			h, ok := fr.Res.Heights[in.PC]
			if !ok {
				continue
			}
			if fm.hCall < 0 && h > fm.hRec {
				fm.hRec = h
			}
			if !seenRet && h > fm.hBase {
				fm.hBase = h
			}
			if in.Op == parser.OpReturn {
				seenRet = true
			}
			if in.Op == parser.OpCall && fm.hCall < 0 {
				fm.hCall = h
				fm.numArgs = in.Args[0]
			}
		}
		if fm.hCall >= 0 {
			m.fns = append(m.fns, fm)
		}
	}
	if len(m.fns) == 0 {
		m.err = "no recursive function found"
	}
	return m
}

// predict returns "value" (both capacities suffice), "frames" (the frame limit
// is what runs out) or "stack" (the operand stack runs out first).
func (m recModel) predict(depth int) string {
	bp := m.bp0
	upNeed := 0 // what the frames above the base case need after their call has returned
	for j := 0; ; j++ {
		f := m.fns[j%len(m.fns)]
		if j == depth {
			if bp+f.numLocals+f.hBase > tengo.StackSize || upNeed > tengo.StackSize {
				return "stack"
			}
			return "value"
		}
		if bp+f.numLocals+f.hRec > tengo.StackSize {
			return "stack"
		}
		if bp+f.numLocals+f.hMax > upNeed {
			upNeed = bp + f.numLocals + f.hMax
		}
		// frame j is frame index j+1 (main is 0); the call needs framesIndex j+2 < MaxFrames
		if j+2 >= tengo.MaxFrames {
			return "frames"
		}
		bp = bp + f.numLocals + f.hCall - f.numArgs
	}
}

// lastGood is the largest depth for which the model predicts a value.
func (m recModel) lastGood() int {
	d := 0
	for m.predict(d+1) == "value" {
		d++
	}
	return d
}

type recObs struct {
	pred, class string
	runClass    string
	steps       int64
}

func runRecCase(c Case) (fails []fail, o recObs) {
	src := recSource(c)
	shape := fmt.Sprintf("%s-%s/params=%d/locals=%d", c.Shape, c.Form, c.Params, c.Locals)
	add := func(what, msg string) {
		fails = append(fails, fail{"recursion/" + what + "/shape=" + shape, fmt.Sprintf("depth %d: %s", c.Depth, msg)})
	}
	m := buildRecModel(src)
	if m.err != "" {
		return []fail{{"internal/rec-model", m.err}}, recObs{class: "internal"}
	}
	o.pred = m.predict(c.Depth)
	r := runScript(src, runOpts{})
	o.class = r.Class
	if r.St != nil {
		o.steps = r.St.steps
		// entering a frame sets sp = bp + NumLocals (at most 255 locals) without touching the
		// slots, so sp may pass StackSize by that much just before the failing push
		if r.St.maxSP > tengo.StackSize+256 {
			add("unbounded-growth", fmt.Sprintf("the stack pointer reached %d, beyond the %d operand slots", r.St.maxSP, tengo.StackSize))
		}
		if r.St.maxFI > tengo.MaxFrames {
			add("unbounded-growth", fmt.Sprintf("the frame index reached %d, beyond the %d frames", r.St.maxFI, tengo.MaxFrames))
		}
	}
	switch r.Class {
	case "budget":
		add("unbounded-growth", fmt.Sprintf("the run did not return within %d VM steps", stepBudget))
		return
	case "panic":
		add("go-panic", "a Go panic escaped RunContext: "+tg.FirstLine(r.ErrText))
		return
	case "compile-error":
		return []fail{{"internal/rec-compile", r.ErrText}}, o
	}
	want := fmt.Sprintf("int:%d", c.Depth)
	got := "<none>"
	if g, ok := r.Globals["out"]; ok && g != nil {
		got = val.Snapshot(g)
	}
	switch o.pred {
	case "value":
		if r.Class != "ok" {
			add("fails-within-capacity", "frames and operand stack both suffice (model), yet the run fails: "+tg.FirstLine(r.ErrText))
		} else if got != want {
			add("wrong-value", "out is "+got+", expected "+want)
		}
	case "frames":
		if r.Class == "ok" {
			add("no-error", "needs more than the 1024 frames, yet the run succeeds with out="+got)
		} else if !errors.Is(r.Err, tengo.ErrStackOverflow) {
			add("wrong-error", "the frame limit runs out first but the error is not ErrStackOverflow: "+tg.FirstLine(r.ErrText))
		}
	case "stack":
		if r.Class == "ok" {
			add("no-error", "needs more than the 2048 operand slots, yet the run succeeds with out="+got)
		}
	}
	// Compiled.Run (no recover inside): information only
	rr := runScript(src, runOpts{useRun: true})
	o.runClass = rr.Class
	return
}
