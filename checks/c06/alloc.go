package main

// Part (a): the allocation budget.
//
// For every program P of the families: one unlimited run (N = -1) observed by
// the probe, then a run for every budget N = 0, 1, ... until the outcome has
// been the unlimited one twice in a row and N has passed E(P)+1.
// Oracle: the outcomes form  A^T G+  (A = fails with the allocation-limit
// error, G = the unlimited outcome: nil error and identical globals, or - for a
// program whose unlimited run is a run-time error - that same error);
// T == E(P), the number of times the unlimited run decremented the counter;
// every instruction that certainly created a new object (array, map, error,
// immutable wrapper, slice, closure, iterator, unary/arithmetic result that is
// a new object, native-call result that is a new object, variadic argument
// array) decremented the counter (so T >= L(P)).

import (
	"errors"
	"fmt"
	"sort"
	"strings"

	"github.com/d5/tengo/v2"
	"verif/engine/gen"
	"verif/engine/tg"
)

const capK = 200

// allocBudget is the step budget of part a: the families have no program that
// terminates after more than a few hundred dispatched instructions.
const allocBudget = 50000

func sortStrings(s []string) { sort.Strings(s) }

// ---- the hand-written allocation-site snippets (family "site": ordered pairs)

var siteSnippets = []string{
	`x# := [1, 2]`,
	`x# := {a: 1}`,
	`x# := {}`,
	`x# := error(1)`,
	`x# := immutable([1])`,
	`x# := immutable({a: 1})`,
	`x# := immutable(1)`,
	`x# := [1, 2, 3][1:]`,
	`x# := immutable([1, 2, 3])[:2]`,
	`x# := "abc"[1:]`,
	`x# := bytes("abc")[1:]`,
	`x# := func() { return 1 }`,
	`y# := 1; x# := func() { return y# }`,
	`y# := 3; x# := -y#`,
	`y# := 1.5; x# := -y#`,
	`y# := 5; x# := ^y#`,
	`y# := 1; x# := y# + 2`,
	`y# := 1; x# := y# < 2`,
	`y# := 1; x# := y# + 0`,
	`x# := "a" + "b"`,
	`x# := 0; for v in [1, 2] { x# = v }`,
	`x# := 0; for k, v in {a: 1} { x# = k }`,
	`x# := 0; for c in "ab" { x# = c }`,
	`x# := 0; for c in bytes("ab") { x# = c }`,
	`x# := len([1])`,
	`x# := append([1], 2)`,
	`x# := string(1)`,
	`x# := is_int(1)`,
	`f# := func(...a) { return a }; x# := f#(1, 2)`,
	`f# := func(...a) { return a }; x# := f#()`,
	`f# := func(a, ...b) { return b }; x# := f#([1, 2]...)`,
	`f# := func(a) { return a }; x# := f#(1)`,
	`f# := func(n) { if n == 0 { return 0 }; return f#(n-1) }; x# := f#(3)`,
	`x# := 1; x# += 2`,
	`x# := [1][0]`,
	`x# := {a: 1}.a`,
	`x# := 1 ? 2 : 3`,
	`x# := true && false`,
	`x# := !true`,
	`x# := 1 == 1`,
	`x# := [1]; x#[0] = 2`,
	`x# := 1 / 0`,
	`x# := undefined.a.b`,
	`x# := 1 + "a" + [2]`,
}

var builtinArgAlphabet = []string{
	`undefined`, `true`, `0`, `1`, `2`, `1.5`, `'a'`, `"a"`, `"ab"`, `bytes("a")`,
	`[]`, `[1, 2, 3]`, `[[1], [2]]`, `immutable([1])`, `{}`, `{a: 1}`, `error("x")`, `len`,
}

func allocSource(c Case) (string, string) {
	switch c.Family {
	case "stmt":
		p := gen.Replay(c.Choices, gen.Stmts(gen.StmtCfg{Budget: c.Budget, Lean: c.Lean}))
		src := tg.Print(p).Main.Src
		return src, srcFeatures(src)
	case "func":
		p := gen.Replay(c.Choices, gen.Funcs(gen.FuncCfg{Budget: c.Budget}))
		src := tg.Print(p).Main.Src
		return src, srcFeatures(src)
	case "builtin":
		return "out := " + c.Name + "(" + strings.Join(c.Args, ", ") + ")\n", "builtin=" + c.Name
	case "site":
		var parts []string
		for i, a := range c.Args {
			var idx int
			fmt.Sscan(a, &idx)
			parts = append(parts, strings.ReplaceAll(siteSnippets[idx], "#", fmt.Sprint(i)))
		}
		src := strings.Join(parts, "\n") + "\n"
		return src, "site-snippets"
	}
	return "", ""
}

// srcFeatures is the coarse construct set of a generated program: a global
// accounting defect then shows up under a handful of signatures, a defect of one
// allocation site under its own untracked-<site> signature.
func srcFeatures(src string) string {
	var fs []string
	has := func(s string) bool { return strings.Contains(src, s) }
	if has("for ") {
		fs = append(fs, "loop")
	}
	if has("func(") {
		fs = append(fs, "func")
	}
	if has("...") {
		fs = append(fs, "variadic")
	}
	if len(fs) == 0 {
		return "straight-line"
	}
	return strings.Join(fs, "+")
}

type allocObs struct {
	class   string // class of the unlimited run, or a skip reason
	runs    int64
	configs int64
	T       int64
	E       int64
	L       int64
	variadic bool
}

func runAllocCase(c Case) (fails []fail, o allocObs) {
	src, feat := allocSource(c)
	if src == "" {
		return []fail{{"internal/unknown-family", c.Family}}, allocObs{class: "internal"}
	}
	add := func(what, feat, msg string) {
		// the counter is kept by the VM, not by the builtins: accounting defects are
		// not keyed by the builtin's name (wrong-error / result-differs are)
		if (what == "non-monotone" || what == "threshold-mismatch") && strings.HasPrefix(feat, "builtin=") {
			feat = "builtin-call"
		}
		fails = append(fails, fail{"alloc/" + what + "/feat=" + feat, msg})
	}
	ref := runScript(src, runOpts{setAllocs: true, maxAllocs: -1, detail: true, budget: allocBudget})
	o.runs, o.configs = 1, 1
	switch ref.Class {
	case "compile-error":
		o.class = "skip:compile-error"
		return
	case "budget":
		o.class = "skip:non-terminating"
		return
	case "panic":
		// a Go panic escaping RunContext is not C06's subject; counted
		o.class = "skip:panic"
		return
	}
	if errors.Is(ref.Err, tengo.ErrObjectAllocLimit) {
		add("wrong-error", feat, "the unlimited run (SetMaxAllocs(-1)) fails with the allocation-limit error")
		o.class = "unlimited-alloc-error"
		return
	}
	o.class = ref.Class
	refSnap := tg.GlobalsSnapshot(ref.Globals)
	E := ref.St.first - ref.St.last
	o.E, o.L = E, ref.St.created
	o.variadic = ref.St.variadic > 0
	if E+2 > capK {
		o.class = "skip:over-K-cap"
		return
	}
	// per-instruction: every certain object creation must have been counted
	if len(ref.St.untracked) > 0 {
		var sites []string
		for s := range ref.St.untracked {
			sites = append(sites, s)
		}
		sort.Strings(sites)
		for _, s := range sites {
			add("threshold-mismatch", "untracked-"+s, fmt.Sprintf(
				"the unlimited run certainly creates %d new object(s) (L(P)) but %d creation(s) at site %q did not touch the allocation counter (E(P)=%d decrements): a budget N < L(P) is not enforced",
				ref.St.created, ref.St.untracked[s], s, E))
		}
	}
	// the budget ladder
	var seq []byte
	var T int64 = -1
	good := 0
	var firstBad = map[byte]int64{}
	var badText = map[byte]string{}
	for n := int64(0); n <= capK; n++ {
		r := runScript(src, runOpts{setAllocs: true, maxAllocs: n, budget: allocBudget})
		o.runs++
		o.configs++
		var k byte
		switch {
		case r.Class == "runtime-error" && errors.Is(r.Err, tengo.ErrObjectAllocLimit):
			k = 'A'
		case r.Class == "ok" && ref.Class == "ok":
			if tg.GlobalsSnapshot(r.Globals) == refSnap {
				k = 'G'
			} else {
				k = 'D'
				badText[k] = "globals differ from the unlimited run"
			}
		case r.Class == "runtime-error" && ref.Class == "runtime-error" && r.ErrText == ref.ErrText:
			k = 'G'
		case r.Class == "budget":
			k = 'B'
		default:
			k = 'W'
			if r.Class == "ok" {
				k = 'D'
			}
			badText[k] = fmt.Sprintf("unlimited run: %s %s; with budget: %s %s", ref.Class, tg.FirstLine(ref.ErrText), r.Class, tg.FirstLine(r.ErrText))
		}
		if _, seen := firstBad[k]; !seen {
			firstBad[k] = n
		}
		seq = append(seq, k)
		if k == 'G' {
			good++
			if T < 0 {
				T = n
			}
		} else {
			good = 0
		}
		if good >= 2 && n >= E+1 {
			break
		}
	}
	_ = T
	s := string(seq)
	if strings.Contains(s, "B") {
		return []fail{{"internal/budget", "a budgeted run of a terminating program exceeded the step budget"}}, o
	}
	if strings.Contains(s, "W") {
		add("wrong-error", feat, fmt.Sprintf("N=%d: neither the allocation-limit error nor the unlimited outcome: %s (outcomes N=0..: %s)", firstBad['W'], badText['W'], s))
	}
	if strings.Contains(s, "D") {
		add("result-differs", feat, fmt.Sprintf("N=%d: %s (outcomes N=0..: %s)", firstBad['D'], badText['D'], s))
	}
	// monotone: A* then only G
	i := 0
	for i < len(s) && s[i] == 'A' {
		i++
	}
	lead := int64(i)
	o.T = lead
	mono := true
	for ; i < len(s); i++ {
		if s[i] == 'A' {
			mono = false
		}
	}
	if !mono {
		add("non-monotone", feat, fmt.Sprintf("raising the budget turns a non-failing run into an allocation-limit failure (outcomes N=0..: %s; A=alloc-limit error, G=unlimited outcome)", s))
	}
	if good < 2 {
		add("non-monotone", feat, fmt.Sprintf("no stable threshold up to N=%d (outcomes N=0..: %s)", len(s)-1, s))
	} else if mono && !strings.ContainsAny(s, "WD") && lead != E {
		add("threshold-mismatch", feat, fmt.Sprintf("threshold T=%d but the unlimited run decrements the counter E(P)=%d times (outcomes N=0..: %s)", lead, E, s))
	}
	// the budget is per run: the same VM run again (VM.Run resets its state) must reach the same outcome
	// with the threshold budget T and with T+1, run after run
	if ref.Class == "ok" && mono && good >= 2 && !strings.ContainsAny(s, "WD") {
		if sc, err := tengo.NewScript([]byte(src)).Compile(); err == nil {
			for _, n := range []int64{lead, lead + 1} {
				globals := make([]tengo.Object, tengo.GlobalsSize)
				vm := tengo.NewVM(sc.VerifBytecode(), globals, n)
				for k := 1; k <= 3; k++ {
					var rerr error
					func() {
						defer func() {
							if r := recover(); r != nil {
								rerr = fmt.Errorf("panic: %v", r)
							}
						}()
						rerr = vm.Run()
					}()
					o.runs++
					if rerr != nil {
						add("non-monotone", feat, fmt.Sprintf("budget N=%d suffices for one run (threshold %d), but run #%d of the same VM fails: %s", n, lead, k, tg.FirstLine(rerr.Error())))
						break
					}
				}
			}
		}
	}
	return
}
