package main

// Worker process: executes jobs (index ranges of a family) sent by the
// coordinator over stdin and reports aggregated results over stdout. All code
// under test runs here, never in the coordinator, so that a hang or a fatal
// runtime error (stack overflow, out of memory) cannot take the check down: a
// monitor goroutine reports an invocation that does not return ("stall") and
// exits; an unrecoverable death is noticed by the coordinator.

import (
	"bufio"
	"bytes"
	"encoding/base64"
	"encoding/json"
	"fmt"
	"os"
	"runtime"
	"runtime/debug"
	"sort"
	"strconv"
	"sync"
	"sync/atomic"
	"syscall"
	"time"
)

// Case is one invocation: exact input bytes (or the generator spec of a
// limits program) + configuration + entry point. It is what replay files store.
type Case struct {
	Part  string `json:"part"`
	Input string `json:"input_b64,omitempty"` // base64 of the exact input bytes
	Gen   string `json:"gen,omitempty"`       // limits family: "kind/N", the input is regenerated
	Text  string `json:"input_quoted"`        // Go-quoted input (truncated) for reading
	Len   int    `json:"input_len"`
	Mods  string `json:"mods"`
	Vars  bool   `json:"vars"`
	Entry string `json:"entry"`
}

func (c Case) cfg() cfg { return cfg{Entry: c.Entry, Mods: c.Mods, Vars: c.Vars} }

func (c Case) input() ([]byte, error) {
	if c.Gen != "" {
		return genLimit(c.Gen)
	}
	return base64.StdEncoding.DecodeString(c.Input)
}

func mkCase(part string, input []byte, gen string, c cfg) Case {
	cs := Case{Part: part, Gen: gen, Text: quoteShort(input), Len: len(input), Mods: c.Mods, Vars: c.Vars, Entry: c.Entry}
	if gen == "" {
		cs.Input = base64.StdEncoding.EncodeToString(input)
	}
	return cs
}

// Job is a unit of work.
type Job struct {
	ID       int      `json:"id"`
	Part     string   `json:"part"`            // tok | bytes | edit | limits | selfcheck
	Alpha    string   `json:"alpha,omitempty"` // full | sub | b256 | b16
	K        int      `json:"k,omitempty"`     // sequence length
	Lo       int64    `json:"lo"`
	Hi       int64    `json:"hi"`
	Cfg      string   `json:"cfg"`                // full | two
	CfgOnly  int      `json:"cfg_only,omitempty"` // 0 = every configuration of the set; n = only the n-th (1-based)
	Thorough bool     `json:"thorough"`
	Slow     bool     `json:"slow,omitempty"` // announce every invocation before it starts
	One      *Case    `json:"one,omitempty"`  // run exactly this invocation
	Attempt  int      `json:"attempt,omitempty"`
	Inputs   [][]byte `json:"inputs,omitempty"` // edit family: the inputs of indices Lo..Hi-1 (base64 in JSON)
}

// Example is a failing case kept for a signature.
type Example struct {
	Case Case   `json:"case"`
	What string `json:"what"`
	Ord  int    `json:"ord"`
}

func exampleLess(a, b Example) bool {
	if a.Case.Len != b.Case.Len {
		return a.Case.Len < b.Case.Len
	}
	if a.Case.Text != b.Case.Text {
		return a.Case.Text < b.Case.Text
	}
	if a.Case.Gen != b.Case.Gen {
		return a.Case.Gen < b.Case.Gen
	}
	return a.Ord < b.Ord
}

// ViolAgg aggregates the failures of one signature.
type ViolAgg struct {
	Count    int64     `json:"count"`
	Examples []Example `json:"examples"` // the smallest few
}

const keepExamples = 5

func (v *ViolAgg) add(e Example) {
	v.Count++
	v.insert(e)
}

func (v *ViolAgg) insert(e Example) {
	i := sort.Search(len(v.Examples), func(i int) bool { return exampleLess(e, v.Examples[i]) })
	if i >= keepExamples {
		return
	}
	v.Examples = append(v.Examples, Example{})
	copy(v.Examples[i+1:], v.Examples[i:])
	v.Examples[i] = e
	if len(v.Examples) > keepExamples {
		v.Examples = v.Examples[:keepExamples]
	}
}

type oneRes struct {
	Class  string   `json:"class"`
	Detail string   `json:"detail"`
	Fails  []string `json:"fails"`
}

// JobRes is what a worker reports for a job.
type JobRes struct {
	ID         int                 `json:"id"`
	Inputs     int64               `json:"inputs"`
	Calls      int64               `json:"calls"`
	Distinct   int64               `json:"distinct"`
	Nontrivial int64               `json:"nontrivial"`
	Counters   map[string]int64    `json:"counters"`
	Outcomes   map[string]int64    `json:"outcomes"`
	Viols      map[string]*ViolAgg `json:"viols,omitempty"`
	Sample     interface{}         `json:"sample,omitempty"`
	One        *oneRes             `json:"one,omitempty"`
	Notes      []string            `json:"notes,omitempty"`
}

func newRes(id int) *JobRes {
	return &JobRes{ID: id, Counters: map[string]int64{}, Outcomes: map[string]int64{}, Viols: map[string]*ViolAgg{}}
}

func (r *JobRes) merge(o *JobRes) {
	r.Inputs += o.Inputs
	r.Calls += o.Calls
	r.Distinct += o.Distinct
	r.Nontrivial += o.Nontrivial
	for k, v := range o.Counters {
		r.Counters[k] += v
	}
	for k, v := range o.Outcomes {
		r.Outcomes[k] += v
	}
	for sig, va := range o.Viols {
		t := r.Viols[sig]
		if t == nil {
			t = &ViolAgg{}
			r.Viols[sig] = t
		}
		t.Count += va.Count
		for _, e := range va.Examples {
			t.insert(e)
		}
	}
}

type msg struct {
	T    string  `json:"t"` // res | stall | at
	Res  *JobRes `json:"res,omitempty"`
	Idx  int64   `json:"idx,omitempty"`
	Case *Case   `json:"case,omitempty"`
	Why  string  `json:"why,omitempty"`
}

// ---- progress tracking for the monitor ---------------------------------------

type inputInfo struct {
	part  string
	idx   int64
	input []byte
	gen   string
	cfgs  []cfg
}

var (
	curInput atomic.Pointer[inputInfo]
	curCfg   atomic.Int32
	curStart atomic.Int64 // unix nanoseconds of the start of the running invocation; 0 = idle

	outMu  sync.Mutex
	outW   *bufio.Writer
	stallD = func() time.Duration {
		if s := os.Getenv("C04_STALL_S"); s != "" {
			if n, err := strconv.Atoi(s); err == nil && n > 0 {
				return time.Duration(n) * time.Second
			}
		}
		return 20 * time.Second
	}()
)

// The watchdog counts the CPU time the worker process consumed during the
// running invocation (a worker runs one invocation at a time), so that an
// overloaded machine cannot turn a slow moment into a suspected hang; a
// generous wall-clock bound covers a hang that does not burn CPU.
const wallFactor = 9 // wall-clock bound = wallFactor * stallD (180 s)

func cpuNanos() int64 {
	var ru syscall.Rusage
	if err := syscall.Getrusage(syscall.RUSAGE_SELF, &ru); err != nil {
		return 0
	}
	return ru.Utime.Nano() + ru.Stime.Nano()
}

const memLimit = 1536 << 20 // heap bytes a single tiny input may not exceed

func emit(m msg) {
	b, _ := json.Marshal(m)
	outMu.Lock()
	outW.Write(b)
	outW.WriteByte('\n')
	outW.Flush()
	outMu.Unlock()
}

func currentCase() (Case, int64, bool) {
	info := curInput.Load()
	if info == nil {
		return Case{}, 0, false
	}
	ci := int(curCfg.Load())
	if ci < 0 || ci >= len(info.cfgs) {
		ci = 0
	}
	return mkCase(info.part, append([]byte{}, info.input...), info.gen, info.cfgs[ci]), info.idx, true
}

func monitor() {
	t := time.NewTicker(100 * time.Millisecond)
	var ms runtime.MemStats
	var seenSt, baseCPU int64
	n := 0
	for range t.C {
		if os.Getppid() == 1 {
			os.Exit(5) // the coordinator is gone
		}
		st := curStart.Load()
		if st == 0 {
			seenSt = 0
			continue
		}
		if st != seenSt {
			// first sight of this invocation (at most one tick after it started)
			seenSt, baseCPU = st, cpuNanos()
			continue
		}
		why := ""
		n++
		wall := time.Duration(time.Now().UnixNano() - st)
		if wall > wallFactor*stallD {
			why = "time"
		} else if wall > stallD && n%5 == 0 && time.Duration(cpuNanos()-baseCPU) > stallD {
			why = "time"
		}
		if why == "" && n%2 == 0 {
			runtime.ReadMemStats(&ms)
			if ms.HeapAlloc > memLimit+uint64(len(ballast)) && curStart.Load() == st {
				why = "mem"
			}
		}
		if why != "" {
			c, idx, ok := currentCase()
			if ok {
				emit(msg{T: "stall", Idx: idx, Case: &c, Why: why})
			}
			os.Exit(3)
		}
	}
}

// tracked runs one invocation under the monitor's eyes.
func tracked(info *inputInfo, ci int, slow bool) callOut {
	if slow {
		c := mkCase(info.part, info.input, info.gen, info.cfgs[ci])
		emit(msg{T: "at", Idx: info.idx, Case: &c})
	}
	curCfg.Store(int32(ci))
	curStart.Store(time.Now().UnixNano())
	o := runCall(info.input, info.cfgs[ci])
	curStart.Store(0)
	return o
}

var (
	editOnce sync.Once
	editList []string
)

func edits() []string {
	editOnce.Do(func() { editList = editInputs() })
	return editList
}

// ballast: the tiny-input families allocate ~26 KB per Script.Compile (the
// 1024-slot globals array) with a live heap of a few MB, so the default pacing
// would run a GC cycle every ~150 invocations, and a soft memory limit makes
// the scavenger return and re-fault pages all the time (page faults are very
// expensive on this VM). A never-touched pointer-free ballast raises the heap
// goal instead: a cycle every ~32 MB of allocation, same pages reused.
var ballast []byte

func gcSetup() {
	ballast = make([]byte, 32<<20)
	debug.SetGCPercent(100)
}

func runJob(j Job) *JobRes {
	res := newRes(j.ID)
	if j.One != nil {
		in, err := j.One.input()
		if err != nil {
			res.One = &oneRes{Class: "internal", Detail: "cannot rebuild input: " + err.Error()}
			return res
		}
		info := &inputInfo{part: j.One.Part, input: in, gen: j.One.Gen, cfgs: []cfg{j.One.cfg()}}
		curInput.Store(info)
		o := tracked(info, 0, false)
		or := &oneRes{Class: o.class, Detail: o.detail}
		for _, f := range o.fails {
			or.Fails = append(or.Fails, f.sig+": "+f.what)
		}
		res.One = or
		return res
	}
	if j.Part == "selfcheck" {
		for i, p := range corpusValid {
			in := []byte(joinTokens(splitTokens(p)))
			info := &inputInfo{part: "selfcheck", idx: int64(i), input: in, cfgs: []cfg{{Entry: "script", Mods: "src"}}}
			curInput.Store(info)
			o := tracked(info, 0, false)
			res.Calls++
			if o.class != "script:ok" {
				res.Notes = append(res.Notes, fmt.Sprintf("corpus program %d %s does not compile under the src configuration: %s", i, quoteShort(in), o.detail))
			} else {
				res.Counters["corpus-valid"]++
			}
		}
		return res
	}

	b := tierBounds(j.Thorough)
	cfgs := cfgSet(j.Cfg)
	buf := make([]byte, 0, 256)
	partKey := j.Part
	if j.Alpha != "" {
		partKey += "-" + j.Alpha + "-len" + strconv.Itoa(j.K)
	}
	classes := make([]string, len(cfgs))
	for idx := j.Lo; idx < j.Hi; idx++ {
		var input []byte
		gen := ""
		distinct := true
		switch j.Part {
		case "tok":
			buf = tokInput(buf, tokAlphabet(j.Alpha), j.K, idx)
			input = buf
			distinct = !inBytesFamily(input, b)
		case "bytes":
			buf = byteInput(buf, byteAlphabet(j.Alpha), j.K, idx)
			input = buf
		case "edit":
			if int(idx-j.Lo) >= len(j.Inputs) {
				res.Notes = append(res.Notes, "edit job without its inputs")
				continue
			}
			input = j.Inputs[idx-j.Lo]
			distinct = !inBytesFamily(input, b) && !inTokFamily(string(input), b)
		case "limits":
			gen = limitSpecs()[idx]
			in, err := genLimit(gen)
			if err != nil {
				res.Notes = append(res.Notes, err.Error())
				continue
			}
			input = in
		}
		info := &inputInfo{part: j.Part, idx: idx, input: input, gen: gen, cfgs: cfgs}
		curInput.Store(info)
		countInput := j.CfgOnly <= 1 // a job restricted to one configuration counts the input with the first one (parse)
		if countInput {
			res.Inputs++
		}
		parsed := false
		ran := 0
		for ci, c := range cfgs {
			if j.CfgOnly != 0 && ci != j.CfgOnly-1 {
				continue
			}
			ran++
			o := tracked(info, ci, j.Slow)
			res.Calls++
			res.Outcomes[o.class]++
			classes[ci] = o.class
			if c.Entry == "parse" {
				parsed = o.parsed
			}
			for _, f := range o.fails {
				va := res.Viols[f.sig]
				if va == nil {
					va = &ViolAgg{}
					res.Viols[f.sig] = va
				}
				cs := mkCase(j.Part, append([]byte{}, input...), gen, c)
				va.add(Example{Case: cs, Ord: ci,
					What: fmt.Sprintf("%s (mods=%s vars=%v) on input %s: %s", c.Entry, c.Mods, c.Vars, cs.Text, f.what)})
			}
		}
		res.Counters["invocations/"+partKey] += int64(ran)
		if !countInput {
			continue
		}
		res.Counters["inputs/"+partKey]++
		if parsed {
			res.Counters["parsed-ok/"+partKey]++
		}
		if distinct {
			res.Distinct++
			if parsed {
				res.Nontrivial++
			}
		}
		if idx == j.Lo && res.Sample == nil && j.CfgOnly == 0 {
			m := map[string]string{}
			for ci, c := range cfgs {
				m[fmt.Sprintf("%s/%s/vars=%v", c.Entry, c.Mods, c.Vars)] = classes[ci]
			}
			res.Sample = map[string]interface{}{"family": partKey, "index": idx, "input": quoteShort(input), "outcomes": m}
		}
	}
	return res
}

func joinTokens(t []string) string {
	var bb bytes.Buffer
	for i, s := range t {
		if i > 0 {
			bb.WriteByte(' ')
		}
		bb.WriteString(s)
	}
	return bb.String()
}

func workerMain() {
	debug.SetMaxStack(256 << 20)
	in := bufio.NewReaderSize(os.Stdin, 1<<20)
	outW = bufio.NewWriterSize(os.Stdout, 1<<16)
	go monitor()
	gcSetup()
	for {
		line, err := in.ReadBytes('\n')
		if len(bytes.TrimSpace(line)) > 0 {
			var j Job
			if e := json.Unmarshal(line, &j); e != nil {
				fmt.Fprintln(os.Stderr, "worker: bad job:", e)
				os.Exit(4)
			}
			res := runJob(j)
			emit(msg{T: "res", Res: res})
		}
		if err != nil {
			return
		}
	}
}
