// C04: scanner, parser and compiler are total on arbitrary source bytes.
//
// Bounded exhaustive enumeration of four input families
//
//	(1) tok    all token sequences up to a length bound over a 52-token alphabet
//	(2) bytes  all byte strings up to a length bound (all 256 values; longer over 17 hostile bytes)
//	(3) edit   the complete 1-token-edit neighbourhood of a corpus of valid programs
//	(4) limits generated boundary programs (symbol/constant counts, nesting depth)
//
// each fed through the public entry points (Parser.ParseFile; Compiler.Compile
// + Bytecode + RemoveDuplicates; Script.Compile) under the product of module
// configurations and pre-declared variables (see calls.go). Oracle: the call
// returns a value or an error (a Go panic is a violation), terminates (20 s
// watchdog, confirmed by a second run alone in a fresh process), and every
// position carried by a returned error lies inside the input it names with
// line/column consistent with the input.
//
// The code under test only ever runs in worker processes (this binary
// re-executed with -worker), so hangs, runaway allocation and fatal runtime
// errors are observed, attributed to one input and reported, instead of
// killing or blocking the check.
package main

import (
	"bufio"
	"encoding/json"
	"fmt"
	"io"
	"os"
	"os/exec"
	"regexp"
	"runtime"
	"sort"
	"strings"
	"sync"
	"time"

	"verif/engine/report"
)

// ---- worker process handle -----------------------------------------------------

type tailBuf struct {
	mu sync.Mutex
	b  []byte
}

func (t *tailBuf) Write(p []byte) (int, error) {
	t.mu.Lock()
	t.b = append(t.b, p...)
	if len(t.b) > 1<<16 {
		// keep head (the fatal message comes first) and tail
		t.b = append(t.b[:1<<15:1<<15], t.b[len(t.b)-(1<<15):]...)
	}
	t.mu.Unlock()
	return len(p), nil
}

func (t *tailBuf) String() string { t.mu.Lock(); defer t.mu.Unlock(); return string(t.b) }

type proc struct {
	cmd    *exec.Cmd
	in     io.WriteCloser
	msgs   chan msg
	stderr *tailBuf
}

func spawn() (*proc, error) {
	self, err := os.Executable()
	if err != nil {
		return nil, err
	}
	cmd := exec.Command(self, "-worker")
	cmd.Env = append(os.Environ(), "GOMAXPROCS=1")
	in, err := cmd.StdinPipe()
	if err != nil {
		return nil, err
	}
	out, err := cmd.StdoutPipe()
	if err != nil {
		return nil, err
	}
	p := &proc{cmd: cmd, in: in, msgs: make(chan msg, 64), stderr: &tailBuf{}}
	cmd.Stderr = p.stderr
	if err := cmd.Start(); err != nil {
		return nil, err
	}
	go func() {
		rd := bufio.NewReaderSize(out, 1<<20)
		for {
			line, err := rd.ReadBytes('\n')
			if len(line) > 1 {
				var m msg
				if e := json.Unmarshal(line, &m); e == nil {
					p.msgs <- m
				}
			}
			if err != nil {
				break
			}
		}
		_ = cmd.Wait()
		close(p.msgs)
	}()
	return p, nil
}

func (p *proc) kill() {
	if p == nil {
		return
	}
	_ = p.in.Close()
	if p.cmd.Process != nil {
		_ = p.cmd.Process.Kill()
	}
	go func() {
		for range p.msgs {
		}
	}()
}

func (p *proc) send(j Job) error {
	b, _ := json.Marshal(j)
	_, err := p.in.Write(append(b, '\n'))
	return err
}

type waitKind int

const (
	wRes waitKind = iota
	wStall
	wDied
	wTimeout
)

// wait waits for the outcome of the job just sent. lastAt is the last
// invocation announced (slow mode).
func (p *proc) wait(backup time.Duration) (k waitKind, m msg, lastAt *msg) {
	timer := time.NewTimer(backup)
	defer timer.Stop()
	for {
		select {
		case mm, ok := <-p.msgs:
			if !ok {
				return wDied, msg{}, lastAt
			}
			switch mm.T {
			case "at":
				c := mm
				lastAt = &c
				if !timer.Stop() {
					select {
					case <-timer.C:
					default:
					}
				}
				timer.Reset(backup)
			case "res":
				return wRes, mm, lastAt
			case "stall":
				return wStall, mm, lastAt
			}
		case <-timer.C:
			return wTimeout, msg{}, lastAt
		}
	}
}

var fatalRe = regexp.MustCompile(`(?m)^(fatal error: .*|runtime: goroutine stack exceeds .*|panic: .*|signal: .*)$`)

func deathClass(stderr string, p *proc) string {
	if m := fatalRe.FindString(stderr); m != "" {
		m = strings.TrimPrefix(m, "fatal error: ")
		m = strings.TrimPrefix(m, "runtime: ")
		return msgClass(m, 50)
	}
	if p != nil && p.cmd.ProcessState != nil {
		return msgClass(p.cmd.ProcessState.String(), 50)
	}
	return "worker_died"
}

// ---- coordinator -----------------------------------------------------------------

type coord struct {
	r        *report.Run
	mu       sync.Mutex
	cond     *sync.Cond
	queue    []Job
	inflight int
	stop     bool
	skipped  int
	nextID   int
	total    *JobRes
	samples  map[int]interface{}
	hangs    int
	fatals   int
	stallD   time.Duration
}

func (c *coord) push(j Job) {
	j.ID = c.nextID
	c.nextID++
	c.queue = append(c.queue, j)
}

func (c *coord) addViol(sig string, e Example) {
	c.mu.Lock()
	va := c.total.Viols[sig]
	if va == nil {
		va = &ViolAgg{}
		c.total.Viols[sig] = va
	}
	va.add(e)
	c.mu.Unlock()
}

// confirm re-runs one invocation alone in a fresh process.
func (c *coord) confirm(cs Case) (k waitKind, m msg, stderr string, p *proc) {
	p, err := spawn()
	if err != nil {
		c.r.Internal("cannot spawn worker: %v", err)
		return wRes, msg{}, "", nil
	}
	_ = p.send(Job{One: &cs})
	k, m, _ = p.wait(wallFactor*c.stallD + 60*time.Second)
	if k == wDied {
		time.Sleep(50 * time.Millisecond)
	}
	stderr = p.stderr.String()
	p.kill()
	return
}

func (c *coord) slot() {
	var p *proc
	defer func() { p.kill() }()
	for {
		c.mu.Lock()
		for len(c.queue) == 0 && c.inflight > 0 {
			c.cond.Wait()
		}
		if len(c.queue) == 0 {
			c.mu.Unlock()
			return
		}
		j := c.queue[0]
		c.queue = c.queue[1:]
		if c.stop {
			c.skipped++
			c.mu.Unlock()
			continue
		}
		c.inflight++
		c.mu.Unlock()

		requeue := c.process(&p, j)

		c.mu.Lock()
		c.inflight--
		for _, q := range requeue {
			c.push(q)
		}
		c.cond.Broadcast()
		c.mu.Unlock()
	}
}

func describe(j Job) string {
	return fmt.Sprintf("%s/%s len=%d [%d,%d) cfg=%s/%d", j.Part, j.Alpha, j.K, j.Lo, j.Hi, j.Cfg, j.CfgOnly)
}

// split returns the parts of j before and after index idx.
func split(j Job, idx int64) []Job {
	var out []Job
	if idx > j.Lo {
		a := j
		a.Hi, a.Slow, a.Attempt = idx, false, 0
		if len(j.Inputs) > 0 {
			a.Inputs = j.Inputs[:idx-j.Lo]
		}
		out = append(out, a)
	}
	if idx+1 < j.Hi {
		b := j
		b.Lo, b.Slow, b.Attempt = idx+1, false, 0
		if len(j.Inputs) > 0 {
			b.Inputs = j.Inputs[idx+1-j.Lo:]
		}
		out = append(out, b)
	}
	return out
}

func (c *coord) process(pp **proc, j Job) (requeue []Job) {
	if j.Attempt > 3 {
		c.r.Internal("job %s abandoned after %d attempts", describe(j), j.Attempt)
		return nil
	}
	if *pp == nil {
		p, err := spawn()
		if err != nil {
			c.r.Internal("cannot spawn worker: %v", err)
			return nil
		}
		*pp = p
	}
	p := *pp
	if err := p.send(j); err != nil {
		p.kill()
		*pp = nil
		j.Attempt++
		return []Job{j}
	}
	k, m, lastAt := p.wait(wallFactor*c.stallD + 60*time.Second)
	switch k {
	case wRes:
		c.mu.Lock()
		c.total.merge(m.Res)
		if m.Res.Sample != nil {
			c.samples[j.ID] = m.Res.Sample
		}
		for _, n := range m.Res.Notes {
			c.r.Internal("%s", n)
		}
		c.mu.Unlock()
		return nil

	case wStall:
		p.kill()
		*pp = nil
		if m.Case == nil {
			c.r.Internal("stall without case in job %s", describe(j))
			return nil
		}
		cs := *m.Case
		fmt.Fprintf(os.Stderr, "c04: watchdog (%s) on %s %s/%s vars=%v input %s - re-running alone\n", m.Why, cs.Part, cs.Entry, cs.Mods, cs.Vars, cs.Text)
		k2, m2, stderr2, p2 := c.confirm(cs)
		switch k2 {
		case wStall, wTimeout:
			why := fmt.Sprintf("did not return within %v of CPU time", c.stallD)
			if m.Why == "mem" || (k2 == wStall && m2.Why == "mem") {
				why = fmt.Sprintf("did not return before allocating more than %d MiB (or within %v)", memLimit>>20, c.stallD)
			}
			c.addViol("hang/"+cs.Entry, Example{Case: cs,
				What: fmt.Sprintf("%s (mods=%s vars=%v) on the %d-byte input %s %s - twice, the second time alone in a fresh process", cs.Entry, cs.Mods, cs.Vars, cs.Len, cs.Text, why)})
			c.mu.Lock()
			c.hangs++
			if !c.stop {
				c.stop = true
				c.r.NotExhaustive("stopped dispatching work after the first confirmed hang (a stuck input costs 2x the watchdog time); remaining jobs skipped")
			}
			c.mu.Unlock()
			return nil
		case wDied:
			c.addViol("fatal/"+cs.Entry+"/"+deathClass(stderr2, p2), Example{Case: cs,
				What: fmt.Sprintf("%s (mods=%s vars=%v) on input %s stalled, then killed the process when re-run alone: %s", cs.Entry, cs.Mods, cs.Vars, cs.Text, firstLine(fatalRe.FindString(stderr2)))})
			return split(j, m.Idx)
		default:
			// returned when run alone: a slow moment of the machine, not a hang
			c.r.Note("invocation exceeded the watchdog once but returned when re-run alone (machine load): %s %s/%s %s", cs.Part, cs.Entry, cs.Mods, cs.Text)
			j.Attempt++
			return []Job{j}
		}

	case wDied:
		time.Sleep(50 * time.Millisecond)
		stderr := p.stderr.String()
		p.kill()
		*pp = nil
		fmt.Fprintf(os.Stderr, "c04: worker died on job %s (slow=%v): %s\n", describe(j), j.Slow, firstLine(fatalRe.FindString(stderr)))
		if !j.Slow {
			j.Slow = true
			j.Attempt++
			return []Job{j}
		}
		if lastAt == nil || lastAt.Case == nil {
			c.r.Internal("worker died in slow mode before announcing an invocation, job %s: %s", describe(j), firstLine(stderr))
			return nil
		}
		cs := *lastAt.Case
		c.addViol("fatal/"+cs.Entry+"/"+deathClass(stderr, p), Example{Case: cs,
			What: fmt.Sprintf("%s (mods=%s vars=%v) on the %d-byte input %s killed the process (twice): %s", cs.Entry, cs.Mods, cs.Vars, cs.Len, cs.Text, firstLine(fatalRe.FindString(stderr)))})
		c.mu.Lock()
		c.fatals++
		if c.fatals >= 8 && !c.stop {
			c.stop = true
			c.r.NotExhaustive("stopped dispatching work after 8 inputs that kill the process; remaining jobs skipped")
		}
		c.mu.Unlock()
		return split(j, lastAt.Idx)

	case wTimeout:
		p.kill()
		*pp = nil
		c.r.Internal("worker unresponsive (no stall report) on job %s; job dropped", describe(j))
		return nil
	}
	return nil
}

func chunked(c *coord, base Job, total, chunk int64) {
	for lo := int64(0); lo < total; lo += chunk {
		hi := lo + chunk
		if hi > total {
			hi = total
		}
		j := base
		j.Lo, j.Hi = lo, hi
		c.push(j)
	}
}

func (c *coord) buildJobs(th bool) {
	b := tierBounds(th)
	c.push(Job{Part: "selfcheck", Cfg: "full", Thorough: th})
	// limits first: single long jobs
	for i := range limitSpecs() {
		for ci := range fullCfgs {
			c.push(Job{Part: "limits", Lo: int64(i), Hi: int64(i + 1), Cfg: "full", CfgOnly: ci + 1, Thorough: th})
		}
	}
	chunkFor := func(cfgName string) int64 {
		if cfgName == "two" {
			return 16384
		}
		return 2048
	}
	ed := edits()
	for lo := 0; lo < len(ed); lo += 512 {
		hi := lo + 512
		if hi > len(ed) {
			hi = len(ed)
		}
		j := Job{Part: "edit", Cfg: "full", Thorough: th, Lo: int64(lo), Hi: int64(hi)}
		for _, s := range ed[lo:hi] {
			j.Inputs = append(j.Inputs, []byte(s))
		}
		c.push(j)
	}
	chunked(c, Job{Part: "tok", Alpha: b.TokLongAlph, K: b.TokLongLen, Cfg: "two", Thorough: th}, ipow(len(tokAlphabet(b.TokLongAlph)), b.TokLongLen), chunkFor("two"))
	if b.TokSubLen > 0 {
		chunked(c, Job{Part: "tok", Alpha: "sub", K: b.TokSubLen, Cfg: "two", Thorough: th}, ipow(len(tokSub), b.TokSubLen), chunkFor("two"))
	}
	for k := b.TokFullLen; k >= 1; k-- {
		chunked(c, Job{Part: "tok", Alpha: "full", K: k, Cfg: "full", Thorough: th}, ipow(len(tokFull), k), chunkFor("full"))
	}
	for k := b.B256Len; k >= 0; k-- {
		cn := "two"
		if k <= b.B256FullCfg {
			cn = "full"
		}
		chunked(c, Job{Part: "bytes", Alpha: "b256", K: k, Cfg: cn, Thorough: th}, ipow(256, k), chunkFor(cn))
	}
	for k := b.B16Len; k > b.B256Len; k-- {
		cn := "two"
		if k <= b.B16FullCfg {
			cn = "full"
		}
		chunked(c, Job{Part: "bytes", Alpha: "b16", K: k, Cfg: cn, Thorough: th}, ipow(len(bytes16), k), chunkFor(cn))
	}
}

func runOne(cs Case, stallD time.Duration) {
	p, err := spawn()
	if err != nil {
		fmt.Println("  cannot spawn worker:", err)
		return
	}
	_ = p.send(Job{One: &cs})
	k, m, _ := p.wait(wallFactor*stallD + 60*time.Second)
	if k == wDied {
		time.Sleep(50 * time.Millisecond)
	}
	switch k {
	case wRes:
		if m.Res != nil && m.Res.One != nil {
			fmt.Printf("  observed: %s\n  detail: %s\n", m.Res.One.Class, m.Res.One.Detail)
			for _, f := range m.Res.One.Fails {
				fmt.Printf("  FAIL %s\n", f)
			}
		}
	case wStall:
		fmt.Printf("  observed: did not return (%s watchdog, limit %v CPU / %d MiB heap)\n  FAIL hang/%s\n", m.Why, stallD, memLimit>>20, cs.Entry)
	case wTimeout:
		fmt.Printf("  observed: did not return, worker unresponsive\n  FAIL hang/%s\n", cs.Entry)
	case wDied:
		st := p.stderr.String()
		fmt.Printf("  observed: the process died: %s\n  FAIL fatal/%s/%s\n", firstLine(fatalRe.FindString(st)), cs.Entry, deathClass(st, p))
	}
	p.kill()
}

func main() {
	for _, a := range os.Args[1:] {
		if a == "-worker" {
			workerMain()
			return
		}
	}
	if p := report.ReplayArg(); p != "" {
		rp, err := report.LoadReplay(p)
		if err != nil {
			fmt.Println("cannot load replay:", err)
			return
		}
		fmt.Printf("replay of %s (%s)\n", rp.Signature, rp.What)
		for _, raw := range rp.Cases {
			var cs Case
			if err := report.Recase(raw, &cs); err != nil {
				fmt.Println("bad case:", err)
				continue
			}
			in, err := cs.input()
			if err != nil {
				fmt.Println("bad case input:", err)
				continue
			}
			fmt.Printf("case family=%s entry=%s mods=%s vars=%v input(%d bytes)=%s\n", cs.Part, cs.Entry, cs.Mods, cs.Vars, len(in), quoteShort(in))
			runOne(cs, stallD)
		}
		return
	}

	r := report.New("C04")
	th := r.Thorough()
	c := &coord{r: r, total: newRes(0), samples: map[int]interface{}{}, stallD: stallD}
	c.cond = sync.NewCond(&c.mu)
	c.buildJobs(th)
	njobs := len(c.queue)

	workers := runtime.GOMAXPROCS(0)
	var wg sync.WaitGroup
	for w := 0; w < workers; w++ {
		wg.Add(1)
		go func() { defer wg.Done(); c.slot() }()
	}
	wg.Wait()

	t := c.total
	if c.skipped > 0 {
		r.Note("%d of %d jobs skipped after a confirmed hang / repeated process deaths", c.skipped, njobs)
	}
	// violations, deterministic order, smallest examples first
	sigs := make([]string, 0, len(t.Viols))
	for s := range t.Viols {
		sigs = append(sigs, s)
	}
	sort.Strings(sigs)
	for _, s := range sigs {
		va := t.Viols[s]
		if len(va.Examples) == 0 {
			continue
		}
		for _, e := range va.Examples {
			r.Violation(s, va.Examples[0].What, e.Case)
		}
		for n := int64(len(va.Examples)); n < va.Count; n++ {
			r.Violation(s, va.Examples[0].What, nil)
		}
	}
	ocs := make([]string, 0, len(t.Outcomes))
	for k := range t.Outcomes {
		ocs = append(ocs, k)
	}
	sort.Strings(ocs)
	for _, k := range ocs {
		for n := int64(0); n < t.Outcomes[k]; n++ {
			r.Outcome(k)
		}
	}
	for k, v := range t.Counters {
		r.Count(k, v)
	}
	r.Set("outcome_counts", t.Outcomes) // the complete histogram (report keeps the 60 most frequent classes)
	ids := make([]int, 0, len(c.samples))
	for id := range c.samples {
		ids = append(ids, id)
	}
	sort.Ints(ids)
	step := len(ids)/12 + 1
	for i := 0; i < len(ids); i += step {
		r.Sample(c.samples[ids[i]])
	}
	if got := t.Counters["corpus-valid"]; got != int64(len(corpusValid)) {
		r.Internal("only %d of %d corpus programs compile under the src configuration", got, len(corpusValid))
	}

	b := tierBounds(th)
	r.Set("token_alphabet", tokFull)
	r.Set("token_mid_alphabet_len4_quick", tokMid)
	r.Set("token_core_alphabet_len4_thorough", tokCore)
	r.Set("token_sub_alphabet_len5_thorough", tokSub)
	r.Set("byte_alphabet_17", fmt.Sprintf("%q", bytes16))
	r.Set("bounds", fmt.Sprintf("%+v", b))
	r.Set("corpus_valid_programs", len(corpusValid))
	r.Set("corpus_seed_programs", len(corpusSeeds))
	r.Set("edit_neighbourhood_size", len(edits()))
	r.Set("limit_programs", limitSpecs())
	r.Set("configurations_full", fmt.Sprintf("%+v", fullCfgs))
	r.Set("configurations_longest_lengths", fmt.Sprintf("%+v", twoCfgs))
	r.Set("watchdog", fmt.Sprintf("%v of worker CPU time (or %v wall clock, or %d MiB heap) per invocation, confirmed alone in a fresh process", c.stallD, wallFactor*c.stallD, memLimit>>20))
	r.Set("worker_processes", workers)
	r.Set("confirmed_hangs", c.hangs)
	r.Set("confirmed_process_deaths", c.fatals)
	r.Assume("positions: lines are separated by '\\n'; a line that would start at end of input does not exist (EOF after a trailing newline is reported on the last line) and columns are 1-based byte counts - the conventions documented in parser/source_file.go (AddLine: offset < Size; Column: 'byte count')")
	r.Assume("an Importable returning neither an Object nor []byte (nil, a Go string) violates the documented contract of tengo.Importable; the resulting explicit panic 'invalid import value type' is embedder misuse and not flagged; Importables returning any Object (e.g. *Array, Undefined) or any []byte are within the contract")
	r.Assume("termination is decided by a watchdog of 20 s of CPU time (180 s wall clock) on invocations that take microseconds to a second; a suspected hang is re-run alone in a fresh process before it is reported")
	r.Assume("compiled scripts are never run: execution is the subject of other properties")
	r.Finish(report.Coverage{
		States:      t.Distinct,
		Transitions: t.Calls,
		Validated:   t.Calls,
		Evaluations: t.Calls,
		Nontrivial:  t.Nontrivial,
		Rule:        "inputs = every token sequence / byte string below the stated length bounds, every 1-token edit (delete, insert, replace by each alphabet token) of every corpus program, and the listed limit programs; each input is counted once (in the first of bytes, tok, edit, limits containing it); transition = one entry-point invocation (ParseFile | Compiler.Compile+Bytecode+RemoveDuplicates | Script.Compile) under one configuration (modules x pre-declared variables), all of them oracle-checked; non-trivial = distinct inputs that parse successfully (valid programs)",
	})
}
