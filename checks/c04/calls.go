package main

// One invocation of a public entry point of the implementation on one input
// under one configuration, and the oracle evaluated on its result.

import (
	"errors"
	"fmt"
	"io"
	"runtime/debug"
	"strconv"
	"strings"

	"github.com/d5/tengo/v2"
	"github.com/d5/tengo/v2/parser"
	"github.com/d5/tengo/v2/stdlib"
)

// cfg is one configuration × entry point.
//
//	Entry: parse   = parser.NewParser(...).ParseFile()
//	       compile = ParseFile + tengo.NewCompiler(...).Compile(file) + Bytecode() + RemoveDuplicates()
//	       script  = tengo.NewScript(src).Compile()
//	Mods:  none    = nil module getter
//	       stdlib  = stdlib.GetModuleMap(stdlib.AllModuleNames()...)
//	       src     = module map with source modules (m = the input itself, m1, m2, s, bad, cyc, noexp, enum) + builtin math; input is the main script
//	       modbody = same map, but the main script is `x := import("m")`: the input is compiled as a module body
//	       custom  = a custom ModuleGetter/Importable returning odd values
//	Vars:  variables a, b, len pre-declared (Script.Add / SymbolTable.Define)
type cfg struct {
	Entry string
	Mods  string
	Vars  bool
}

var modKinds = []string{"none", "stdlib", "src", "modbody", "custom"}

var fullCfgs = func() []cfg {
	out := []cfg{{Entry: "parse", Mods: "none"}}
	for _, m := range modKinds {
		for _, v := range []bool{false, true} {
			for _, e := range []string{"compile", "script"} {
				out = append(out, cfg{Entry: e, Mods: m, Vars: v})
			}
		}
	}
	return out
}()

// the two most revealing configurations (used for the longest lengths), plus
// the bare parser: plain Script.Compile with the variables pre-declared, and
// the input as a module body (through the Compiler entry point, which skips
// Script's 1024-slot globals allocation and costs half as much)
var twoCfgs = []cfg{
	{Entry: "parse", Mods: "none"},
	{Entry: "script", Mods: "none", Vars: true},
	{Entry: "compile", Mods: "modbody", Vars: false},
}

func cfgSet(name string) []cfg {
	if name == "two" {
		return twoCfgs
	}
	return fullCfgs
}

const wrapperSrc = `x := import("m")`

var garbageSrc = []byte("\x00\xff{{ := \"\n\xef\xbb\xbf'")

// static source modules of the src/modbody configurations
var staticSrcMods = map[string][]byte{
	"m1":    []byte(`export { f : func ( x ) { return x } , c : 1 }`),
	"m2":    []byte("m1 := import(\"m1\")\nexport { g: func(x) { return m1.f(x) + 1 } }"),
	"s":     []byte(`export func(x) { return x }`),
	"bad":   []byte("a := 1\nb := (a +\n"),
	"cyc":   []byte(`export import("cyc")`),
	"noexp": []byte(`a := 1`),
	"enum":  []byte(stdlib.SourceModules["enum"]),
}

var (
	stdlibMap   = stdlib.GetModuleMap(stdlib.AllModuleNames()...)
	srcBaseMap  = buildSrcBase()
	allBuiltins = tengo.GetAllBuiltinFunctions()
	varNames    = []string{"a", "b", "len"}
)

func buildSrcBase() *tengo.ModuleMap {
	mm := tengo.NewModuleMap()
	for n, s := range staticSrcMods {
		mm.AddSourceModule(n, s)
	}
	mm.AddBuiltinModule("math", stdlib.BuiltinModules["math"])
	return mm
}

func srcMap(input []byte) *tengo.ModuleMap {
	mm := srcBaseMap.Copy()
	mm.AddSourceModule("m", input)
	return mm
}

// oddGetter is a custom ModuleGetter whose Importables return unusual values.
// The Importable interface documents "Import should return either an Object
// or module source code ([]byte)": "n" (nil) and "str" (a Go string) break
// that contract (embedder misuse, not flagged); all others respect it.
type oddGetter struct{}

type oddImp struct{ kind string }

func (oddGetter) Get(name string) tengo.Importable {
	switch name {
	case "s", "g", "n", "e", "i", "im", "u", "str":
		return oddImp{name}
	}
	return nil
}

func (o oddImp) Import(string) (interface{}, error) {
	switch o.kind {
	case "s":
		return &tengo.Array{Value: []tengo.Object{&tengo.Int{Value: 1}}}, nil
	case "g":
		return garbageSrc, nil
	case "n":
		return nil, nil
	case "e":
		return nil, errors.New("import failed")
	case "i":
		return &tengo.Int{Value: 7}, nil
	case "im":
		return &tengo.ImmutableMap{Value: map[string]tengo.Object{"k": &tengo.Int{Value: 1}}}, nil
	case "u":
		return tengo.UndefinedValue, nil
	case "str":
		return "a := 1", nil
	}
	return nil, nil
}

type fail struct{ sig, what string }

// callOut is the observed result of one invocation.
type callOut struct {
	class  string // outcome class (histogram)
	detail string // human-readable result (error text / panic text)
	parsed bool   // parse entry only: the input is a syntactically valid program
	fails  []fail
}

// msgClass turns a message into a signature component: digits -> N,
// whitespace -> _, truncated.
func msgClass(s string, max int) string {
	var sb strings.Builder
	lastN := false
	for _, r := range s {
		switch {
		case r >= '0' && r <= '9':
			if !lastN {
				sb.WriteByte('N')
			}
			lastN = true
			continue
		case r == ' ' || r == '\t' || r == '\n' || r == '\r':
			sb.WriteByte('_')
		case r < 0x20 || r > 0x7e:
			sb.WriteByte('?')
		default:
			sb.WriteRune(r)
		}
		lastN = false
		if sb.Len() >= max {
			break
		}
	}
	out := sb.String()
	if len(out) > max {
		out = out[:max]
	}
	return out
}

// errClass abstracts an error message for the outcome histogram: quoted parts
// and the "found ..." tail removed.
func errClass(msg string) string {
	if i := strings.Index(msg, ", found"); i >= 0 {
		msg = msg[:i]
	}
	if i := strings.Index(msg, ": "); i >= 0 {
		msg = msg[:i]
	}
	if strings.HasPrefix(msg, "illegal character") {
		msg = "illegal character"
	}
	// replace 'xxx' segments
	for {
		i := strings.IndexByte(msg, '\'')
		if i < 0 {
			break
		}
		j := strings.IndexByte(msg[i+1:], '\'')
		if j < 0 {
			break
		}
		msg = msg[:i] + "<q>" + msg[i+1+j+1:]
	}
	return msgClass(msg, 48)
}

// lineCol is this check's own line table: lines are separated by '\n'; a line
// that would start at end of input does not exist (the position of EOF after a
// trailing newline belongs to the last line) - the convention of
// parser/source_file.go AddLine (offset < Size). Columns are 1-based byte
// counts ("column number, starting at 1 (byte count)").
func lineCol(src []byte, off int) (line, col int) {
	line = 1
	ls := 0
	for i := 0; i < off && i < len(src); i++ {
		if src[i] == '\n' && i+1 < len(src) {
			line++
			ls = i + 1
		}
	}
	return line, off - ls + 1
}

func quoteShort(b []byte) string {
	if len(b) > 120 {
		return strconv.Quote(string(b[:120])) + fmt.Sprintf("...(%d bytes)", len(b))
	}
	return strconv.Quote(string(b))
}

// checkPos validates one reported source position against the file it names.
func checkPos(entry string, pos parser.SourceFilePos, files func(string) ([]byte, bool), msg string) []fail {
	src, ok := files(pos.Filename)
	if !ok {
		return []fail{{"pos/" + entry + "/unknown-file", fmt.Sprintf("error %q names file %q which is none of the inputs", msg, pos.Filename)}}
	}
	var fails []fail
	if pos.Offset < 0 || pos.Offset > len(src) {
		return []fail{{"pos/" + entry + "/offset-outside-input", fmt.Sprintf("error %q at offset %d, input %q has %d bytes", msg, pos.Offset, pos.Filename, len(src))}}
	}
	if pos.Line < 1 {
		return []fail{{"pos/" + entry + "/line-below-1", fmt.Sprintf("error %q at offset %d has line %d", msg, pos.Offset, pos.Line)}}
	}
	l, c := lineCol(src, pos.Offset)
	if l != pos.Line || c != pos.Column {
		fails = append(fails, fail{"pos/" + entry + "/line-column-mismatch", fmt.Sprintf("error %q at offset %d reports %d:%d, the input's line table gives %d:%d", msg, pos.Offset, pos.Line, pos.Column, l, c)})
	}
	return fails
}

// checkErr evaluates the oracle on a returned error. kind: parse-error |
// compile-error | error.
func checkErr(entry string, err error, files func(string) ([]byte, bool)) (kind, class, text string, fails []fail) {
	func() {
		defer func() {
			if r := recover(); r != nil {
				fails = append(fails, fail{"panic/" + entry + "-errortext/" + msgClass(fmt.Sprint(r), 60),
					fmt.Sprintf("calling Error() on the returned %T panicked: %v", err, r)})
				text = "<Error() panicked>"
			}
		}()
		text = err.Error()
	}()
	if text == "" {
		fails = append(fails, fail{"errtext/" + entry + "/empty", fmt.Sprintf("returned %T has an empty error text", err)})
	}
	switch e := err.(type) {
	case parser.ErrorList:
		kind = "parse-error"
		if len(e) == 0 {
			fails = append(fails, fail{"result/" + entry + "/empty-error-list", "a non-nil empty parser.ErrorList was returned as error"})
			return
		}
		for i, pe := range e {
			if pe == nil {
				fails = append(fails, fail{"result/" + entry + "/nil-error-in-list", "parser.ErrorList contains a nil *Error"})
				continue
			}
			if i == 0 {
				class = errClass(pe.Msg)
			}
			if pe.Msg == "" {
				fails = append(fails, fail{"errtext/" + entry + "/empty", "parser.Error with empty Msg"})
			}
			fails = append(fails, checkPos(entry, pe.Pos, files, pe.Msg)...)
		}
	case *parser.Error:
		kind = "parse-error"
		if e != nil {
			class = errClass(e.Msg)
			fails = append(fails, checkPos(entry, e.Pos, files, e.Msg)...)
		}
	case parser.Error:
		kind = "parse-error"
		class = errClass(e.Msg)
		fails = append(fails, checkPos(entry, e.Pos, files, e.Msg)...)
	case *tengo.CompilerError:
		kind = "compile-error"
		if e == nil || e.FileSet == nil || e.Node == nil || e.Err == nil {
			fails = append(fails, fail{"pos/" + entry + "/compiler-error-incomplete", "CompilerError without FileSet/Node/Err"})
			return
		}
		class = errClass(e.Err.Error())
		var pos parser.SourceFilePos
		var f *parser.SourceFile
		var pv interface{}
		func() {
			defer func() { pv = recover() }()
			np := e.Node.Pos()
			pos = e.FileSet.Position(np)
			f = e.FileSet.File(np)
		}()
		if pv != nil {
			fails = append(fails, fail{"panic/" + entry + "-errorpos/" + msgClass(fmt.Sprint(pv), 60),
				fmt.Sprintf("computing the position of CompilerError %q panicked: %v", e.Err, pv)})
			return
		}
		if !pos.IsValid() || f == nil {
			fails = append(fails, fail{"pos/" + entry + "/compiler-error-position-invalid",
				fmt.Sprintf("CompilerError %q: FileSet.Position(Node.Pos()) is not a valid position (%s)", e.Err, pos)})
			return
		}
		if src, ok := files(f.Name); ok && f.Size != len(src) {
			fails = append(fails, fail{"pos/" + entry + "/file-size-mismatch",
				fmt.Sprintf("CompilerError %q names file %q of size %d, the input has %d bytes", e.Err, f.Name, f.Size, len(src))})
		}
		fails = append(fails, checkPos(entry, pos, files, e.Err.Error())...)
	default:
		kind = "error"
		class = errClass(text)
	}
	return
}

func firstLine(s string) string {
	if i := strings.IndexByte(s, '\n'); i >= 0 {
		return s[:i]
	}
	return s
}

// panicFunc names the implementation function in which the panic was raised
// (first frame of the stack inside the tengo module), e.g.
// "Compiler.compileForInStmt"; part of the signature so that a different panic
// with the same runtime message is a different signature.
func panicFunc(stack string) string {
	const mod = "github.com/d5/tengo/v2"
	for _, l := range strings.Split(stack, "\n") {
		if !strings.HasPrefix(l, mod) || strings.Contains(l, ").ParseFile.func") {
			// ParseFile's deferred handler re-panics everything that is not its own bailout; the
			// frames of the original panic are still below it
			continue
		}
		l = l[len(mod):]
		if i := strings.LastIndexByte(l, '('); i > 0 {
			l = l[:i]
		}
		if i := strings.IndexByte(l, '.'); i >= 0 { // drop "/parser", "/stdlib" package suffix up to the first dot
			pkg := strings.TrimPrefix(l[:i], "/")
			l = l[i+1:]
			if pkg != "" {
				l = pkg + "." + l
			}
		}
		l = strings.NewReplacer("(*", "", ")", "", "(", "").Replace(l)
		return msgClass(l, 40)
	}
	return "unknown"
}

// stackTop extracts the first implementation frames of a panic stack.
func stackTop(stack string) string {
	var keep []string
	for _, l := range strings.Split(stack, "\n") {
		if strings.Contains(l, "/repo") || strings.Contains(l, "tengo/v2") || strings.Contains(l, "c04repo") {
			keep = append(keep, strings.TrimSpace(l))
			if len(keep) >= 4 {
				break
			}
		}
	}
	return strings.Join(keep, " | ")
}

// runCall executes one entry point on one input under one configuration.
func runCall(input []byte, c cfg) (out callOut) {
	mainSrc := input
	var mods tengo.ModuleGetter
	var mm *tengo.ModuleMap
	switch c.Mods {
	case "stdlib":
		mods = stdlibMap
	case "src":
		mm = srcMap(input)
		mods = mm
	case "modbody":
		mm = srcMap(input)
		mods = mm
		mainSrc = []byte(wrapperSrc)
	case "custom":
		mods = oddGetter{}
	}
	files := func(name string) ([]byte, bool) {
		if name == "(main)" {
			return mainSrc, true
		}
		switch c.Mods {
		case "src", "modbody":
			if name == "m" {
				return input, true
			}
			s, ok := staticSrcMods[name]
			return s, ok
		case "stdlib":
			if s, ok := stdlib.SourceModules[name]; ok {
				return []byte(s), true
			}
		case "custom":
			if name == "g" {
				return garbageSrc, true
			}
		}
		return nil, false
	}

	stage := c.Entry
	defer func() {
		if r := recover(); r != nil {
			msg := fmt.Sprint(r)
			stack := string(debug.Stack())
			out.detail = "panic: " + msg + " @ " + stackTop(stack)
			if c.Mods == "custom" && strings.HasPrefix(msg, "invalid import value type") {
				// the Importable returned neither an Object nor []byte: embedder misuse
				out.class = stage + ":misuse-panic"
				return
			}
			out.class = stage + ":panic"
			out.fails = append(out.fails, fail{"panic/" + stage + "/" + msgClass(msg, 48) + "@" + panicFunc(stack),
				fmt.Sprintf("panic: %s [%s]", msg, stackTop(stack))})
		}
	}()

	finishErr := func(entry string, err error) {
		kind, class, text, fails := checkErr(entry, err, files)
		out.class = entry + ":" + kind + ":" + class
		out.detail = kind + ": " + strings.ReplaceAll(text, "\n", " ")
		out.fails = append(out.fails, fails...)
	}

	switch c.Entry {
	case "parse":
		fs := parser.NewFileSet()
		sf := fs.AddFile("(main)", -1, len(mainSrc))
		p := parser.NewParser(sf, mainSrc, nil)
		file, err := p.ParseFile()
		switch {
		case err != nil && file != nil:
			out.fails = append(out.fails, fail{"result/parse/value-and-error", "ParseFile returned a file and an error"})
			finishErr("parse", err)
		case err != nil:
			finishErr("parse", err)
		case file == nil:
			out.class = "parse:nil-nil"
			out.fails = append(out.fails, fail{"result/parse/neither-value-nor-error", "ParseFile returned (nil, nil)"})
		default:
			out.class, out.detail, out.parsed = "parse:ok", "ok", true
		}
		// the same input parsed with a trace writer (the parser's debugging mode): same verdict, no panic
		stage = "parse-traced"
		fs2 := parser.NewFileSet()
		sf2 := fs2.AddFile("(main)", -1, len(mainSrc))
		file2, err2 := parser.NewParser(sf2, mainSrc, io.Discard).ParseFile()
		if (err2 == nil) != (err == nil) || (err != nil && err2.Error() != err.Error()) || (file2 == nil) != (file == nil) {
			out.fails = append(out.fails, fail{"result/parse/traced-parse-differs", fmt.Sprintf("without trace: %v; with a trace writer: %v", err, err2)})
		}

	case "compile":
		st := tengo.NewSymbolTable()
		for idx, fn := range allBuiltins {
			st.DefineBuiltin(idx, fn.Name)
		}
		if c.Vars {
			for _, n := range varNames {
				st.Define(n)
			}
		}
		stage = "parse"
		fs := parser.NewFileSet()
		sf := fs.AddFile("(main)", -1, len(mainSrc))
		p := parser.NewParser(sf, mainSrc, nil)
		file, err := p.ParseFile()
		if err != nil {
			finishErr("compile", err)
			return
		}
		if file == nil {
			out.class = "compile:nil-nil"
			out.fails = append(out.fails, fail{"result/parse/neither-value-nor-error", "ParseFile returned (nil, nil)"})
			return
		}
		stage = "compile"
		cc := tengo.NewCompiler(sf, st, nil, mods, nil)
		if err := cc.Compile(file); err != nil {
			finishErr("compile", err)
			return
		}
		stage = "bytecode"
		bc := cc.Bytecode()
		if bc == nil || bc.MainFunction == nil {
			out.class = "compile:nil-bytecode"
			out.fails = append(out.fails, fail{"result/bytecode/nil", "Compiler.Bytecode() returned nil after a successful Compile"})
			return
		}
		stage = "dedup"
		bc.RemoveDuplicates()
		out.class, out.detail = "compile:ok", "ok"

	case "script":
		s := tengo.NewScript(mainSrc)
		if c.Vars {
			_ = s.Add("a", 1)
			_ = s.Add("b", []interface{}{1, 2})
			_ = s.Add("len", 2)
		}
		if mods != nil {
			s.SetImports(mods)
		}
		comp, err := s.Compile()
		switch {
		case err != nil && comp != nil:
			out.fails = append(out.fails, fail{"result/script/value-and-error", "Script.Compile returned a Compiled and an error"})
			finishErr("script", err)
		case err != nil:
			finishErr("script", err)
		case comp == nil:
			out.class = "script:nil-nil"
			out.fails = append(out.fails, fail{"result/script/neither-value-nor-error", "Script.Compile returned (nil, nil)"})
		default:
			out.class, out.detail = "script:ok", "ok"
		}
	}
	return
}
