package main

// The enumerated input families. Everything is addressed by index so that
// nothing is materialised except the (small) edit neighbourhood.

import (
	"fmt"
	"sort"
	"strconv"
	"strings"
)

// ---- (1) token sequences ---------------------------------------------------

var tokFull = []string{
	// operator / delimiter classes
	":=", "=", "+=", "++", "...", "?", ":", ".", ",", ";", "(", ")", "[", "]", "{", "}",
	"+", "*", "!", "==", "&&",
	// every keyword
	"func", "return", "if", "else", "for", "in", "break", "continue", "export", "import",
	"immutable", "error", "true", "false", "undefined",
	// identifier, builtin name
	"a", "len",
	// literals of each kind
	"1", "1.5", "'c'", "\"s\"", "`r`",
	// malformed literals
	"0x", "'ab'", "\"\\q", "1e", "'",
	// unterminated string, unterminated block comment, newline, line comment
	"\"abc", "/*", "\n", "// c",
}

// core alphabet (48): tokFull without the four extra operator tokens; used for
// length 4 in the thorough tier
var tokCore = func() []string {
	drop := map[string]bool{"*": true, "!": true, "==": true, "&&": true}
	var out []string
	for _, t := range tokFull {
		if !drop[t] {
			out = append(out, t)
		}
	}
	return out
}()

// mid alphabet (32, a subset of tokCore) for length 4 in the quick tier
var tokMid = []string{
	":=", "=", "+=", "++", "...", "?", ":", ".", ",", ";", "(", ")", "[", "]", "{", "}",
	"+", "func", "return", "if", "else", "for", "in", "break", "export", "import",
	"error", "a", "len", "1", "\"s\"", "\n",
}

// sub-alphabet (24) for length 5 in the thorough tier
var tokSub = []string{
	":=", "=", ".", ",", ";", "(", ")", "[", "]", "{", "}", ":", "...",
	"func", "for", "in", "if", "break", "import", "a", "len", "1", "\"s\"", "\n",
}

func tokAlphabet(name string) []string {
	switch name {
	case "sub":
		return tokSub
	case "core":
		return tokCore
	case "mid":
		return tokMid
	}
	return tokFull
}

func ipow(n, k int) int64 {
	r := int64(1)
	for i := 0; i < k; i++ {
		r *= int64(n)
	}
	return r
}

// tokInput builds the idx-th sequence of k tokens (joined by single spaces).
func tokInput(buf []byte, alpha []string, k int, idx int64) []byte {
	buf = buf[:0]
	n := int64(len(alpha))
	var digits [8]int
	for i := k - 1; i >= 0; i-- {
		digits[i] = int(idx % n)
		idx /= n
	}
	for i := 0; i < k; i++ {
		if i > 0 {
			buf = append(buf, ' ')
		}
		buf = append(buf, alpha[digits[i]]...)
	}
	return buf
}

// ---- (2) byte strings ------------------------------------------------------

var bytes16 = []byte{0x00, 0xEF, 0xBB, 0xBF, 0x80, 0xFF, '"', '\'', '\\', '`', '/', '*', '\n', '\r', 'a', '0', '.'}

var bytes256 = func() []byte {
	b := make([]byte, 256)
	for i := range b {
		b[i] = byte(i)
	}
	return b
}()

func byteAlphabet(name string) []byte {
	if name == "b16" {
		return bytes16
	}
	return bytes256
}

func byteInput(buf []byte, alpha []byte, k int, idx int64) []byte {
	buf = buf[:k]
	n := int64(len(alpha))
	for i := k - 1; i >= 0; i-- {
		buf[i] = alpha[idx%n]
		idx /= n
	}
	return buf
}

// ---- bounds per tier ---------------------------------------------------------

type bounds struct {
	TokFullLen  int    // all lengths 1..TokFullLen over tokFull (full configuration product)
	TokLongLen  int    // exactly this length over TokLongAlpha (two configurations)
	TokLongAlph string // mid (32 tokens, quick) | core (48 tokens, thorough)
	TokSubLen   int    // 0 = none; else exactly this length over tokSub (two configurations)
	B256Len     int    // lengths 0..B256Len over all 256 bytes
	B256FullCfg int
	B16Len      int // lengths B256Len+1..B16Len over bytes16
	B16FullCfg  int
}

func tierBounds(thorough bool) bounds {
	if thorough {
		return bounds{TokFullLen: 3, TokLongLen: 4, TokLongAlph: "core", TokSubLen: 5, B256Len: 3, B256FullCfg: 2, B16Len: 5, B16FullCfg: 4}
	}
	return bounds{TokFullLen: 3, TokLongLen: 4, TokLongAlph: "mid", TokSubLen: 0, B256Len: 2, B256FullCfg: 2, B16Len: 4, B16FullCfg: 3}
}

// ---- distinctness across families -------------------------------------------
// An input is counted in the first family (bytes, tok, edit, limits) that
// contains it; these predicates decide membership without materialising.

var in16 = func() [256]bool {
	var t [256]bool
	for _, b := range bytes16 {
		t[b] = true
	}
	return t
}()

func inBytesFamily(s []byte, b bounds) bool {
	if len(s) <= b.B256Len {
		return true
	}
	if len(s) > b.B16Len {
		return false
	}
	for _, c := range s {
		if !in16[c] {
			return false
		}
	}
	return true
}

var tokSets = map[string]map[string]bool{"full": setOf(tokFull), "core": setOf(tokCore), "mid": setOf(tokMid), "sub": setOf(tokSub)}

func setOf(a []string) map[string]bool {
	m := map[string]bool{}
	for _, s := range a {
		m[s] = true
	}
	return m
}

// splitTokens is the corpus tokeniser: tokens are separated by single spaces
// (the token "// c" is re-joined).
func splitTokens(s string) []string {
	if s == "" {
		return nil
	}
	parts := strings.Split(s, " ")
	var out []string
	for i := 0; i < len(parts); i++ {
		if parts[i] == "//" && i+1 < len(parts) && parts[i+1] == "c" {
			out = append(out, "// c")
			i++
			continue
		}
		out = append(out, parts[i])
	}
	return out
}

func inTokFamily(s string, b bounds) bool {
	toks := splitTokens(s)
	all := func(set map[string]bool) bool {
		for _, t := range toks {
			if !set[t] {
				return false
			}
		}
		return true
	}
	switch {
	case len(toks) <= b.TokFullLen:
		return all(tokSets["full"])
	case len(toks) == b.TokLongLen:
		return all(tokSets[b.TokLongAlph])
	case b.TokSubLen > 0 && len(toks) == b.TokSubLen:
		return all(tokSets["sub"])
	}
	return false
}

// ---- (3) corpus and its 1-edit neighbourhood ---------------------------------

// Valid programs (tokens separated by single spaces; "\n" is the newline
// token). Every one must compile under the src configuration (self-checked at
// start-up). Together they use every production of the grammar.
var corpusValid = []string{
	`a := 1 ; b := a + 2 * 3 - 4 / 5 % 6`,
	"a := 1.5 ; b := 'c' ; c := \"s\" ; d := `r` ; e := true ; f := false ; g := undefined",
	`a := [ 1 , 2 , 3 ] ; b := a [ 0 ] ; c := a [ 1 : 2 ] ; d := a [ : 1 ] ; e := a [ 1 : ] ; f := a [ : ]`,
	`a := { b : 1 , "c" : 2 , d : { e : [ ] } } ; x := a . b ; y := a . d . e ; z := a [ "c" ]`,
	`a := { } ; a . b = 1 ; a . c = { } ; a . c . d = 2 ; a [ "e" ] = [ 0 ] ; a . e [ 0 ] = 3`,
	`a := 0 ; a += 1 ; a -= 1 ; a *= 2 ; a /= 2 ; a %= 2 ; a &= 1 ; a |= 1 ; a ^= 1 ; a <<= 1 ; a >>= 1 ; a &^= 1 ; a ++ ; a --`,
	`a := 1 ; b := a == 1 && a != 2 || a < 3 && a <= 4 || a > 0 && a >= 1 ; c := ! b ; d := - a ; e := ^ a ; f := + a`,
	`a := 1 & 2 | 3 ^ 4 &^ 5 << 1 >> 1`,
	`a := true ? 1 : 2 ; b := a == 1 ? "x" : a == 2 ? "y" : "z"`,
	`a := 0 ; if a == 0 { a = 1 } else if a == 1 { a = 2 } else { a = 3 }`,
	`if a := 1 ; a > 0 { b := a } else if c := 2 ; c > a { b := c } else { b := 0 }`,
	`a := 0 ; for i := 0 ; i < 3 ; i ++ { if i == 1 { continue } ; a += i ; if a > 5 { break } }`,
	`a := 0 ; for a < 3 { a ++ }`,
	`a := 0 ; for { a ++ ; if a > 2 { break } }`,
	`a := 0 ; for ; a < 3 ; { a ++ }`,
	`a := 0 ; for v in [ 1 , 2 , 3 ] { a += v }`,
	`a := 0 ; for k , v in { x : 1 , y : 2 } { a += v ; if k == "x" { continue } }`,
	`for _ , v in "abc" { if v == 'b' { break } }`,
	`f := func ( ) { return } ; f ( )`,
	`f := func ( x ) { return x + 1 } ; a := f ( 1 )`,
	`f := func ( x , y ) { return x * y } ; a := f ( 1 , 2 )`,
	`f := func ( ... x ) { return len ( x ) } ; a := f ( 1 , 2 , 3 ) ; b := f ( [ 1 , 2 ] ... )`,
	`f := func ( x , ... y ) { return x + len ( y ) } ; a := f ( 1 ) ; b := f ( 1 , [ 2 ] ... )`,
	`f := func ( x ) { return func ( y ) { return x + y } } ; a := f ( 1 ) ( 2 )`,
	`f := func ( ) { a := 0 ; g := func ( ) { a += 1 ; return a } ; return g ( ) + g ( ) } ; b := f ( )`,
	`f := func ( n ) { if n == 0 { return 0 } ; return f ( n - 1 ) } ; a := f ( 3 )`,
	`f := func ( ) { g := func ( n ) { if n == 0 { return 0 } ; return g ( n - 1 ) } ; return g ( 2 ) } ; a := f ( )`,
	`f := func ( ) { for i := 0 ; i < 3 ; i ++ { g := func ( ) { for { break } ; for x in [ 1 ] { continue } ; return i } ; if g ( ) > 1 { break } else { continue } } } ; f ( )`,
	`for { f := func ( ) { return } ; f ( ) ; break }`,
	`for { func ( ) { return } ; break }`,
	`for { func ( ) { a := 1 ; b := 2 ; c := a + b ; return c } ; break }`,
	`for i in [ 1 ] { f := func ( ) { return i } ; if f ( ) { continue } }`,
	`a := immutable ( [ 1 , 2 ] ) ; b := immutable ( { c : 1 } ) ; e := error ( "x" ) ; d := e . value`,
	`x := import ( "m1" ) ; a := x . f ( 1 )`,
	`x := import ( "math" ) ; a := x . abs ( - 1 )`,
	`x := import ( "m2" ) ; y := import ( "m1" ) ; z := import ( "m1" ) ; w := import ( "s" )`,
	`x := import ( "enum" ) ; a := x . all ( [ 1 ] , func ( k , v ) { return v > 0 } )`,
	`export { f : func ( x ) { return x } , c : 1 }`,
	`a := 1 ; export func ( ) { return a }`,
	`f := func ( ) { return import ( "m1" ) } ; a := f ( )`,
	"a := 1 \n b := 2 \n if a < b { \n a = b \n } \n",
	"a := 1 // c \n b := 2 /* x */ ; c := /* y */ 3",
	`a := len ( [ 1 ] ) ; b := string ( 1 ) ; c := int ( "1" ) ; d := is_error ( a ) ; e := append ( [ ] , 1 ) ; f := type_name ( a ) ; g := copy ( e ) ; h := format ( "%d" , 1 )`,
	`a := "s" [ 0 ] ; b := "abc" [ 1 : 2 ] ; c := [ 1 , 2 ] [ 0 ] ; d := { x : 1 } . x ; e := ( 1 + 2 ) * 3 ; f := func ( ) { return 1 } ( )`,
	"a := [ 1 , \n 2 , \n 3 \n ] ; b := { x : 1 , \n y : 2 \n } ; f := func ( x , \n y ) { return x } ; c := f ( 1 , \n 2 )",
	`a := 0x1F ; b := 0b101 ; c := 0o17 ; d := 1e3 ; e := 1.5e-3 ; f := .5 ; g := 1_000 ; h := 0x1p-2 ; i := '\n' ; j := "\x41é\t" ; k := '\''`,
	`a := [ ] ; a = append ( a , 1 , 2 ) ; b := a [ len ( a ) - 1 ] ; a [ 0 ] = b ; a [ 0 ] += 1 ; a [ 0 ] ++`,
	`a := { b : { c : [ { d : 1 } ] } } ; a . b . c [ 0 ] . d = 2 ; a . b . c [ 0 ] . d += 1 ; x := a . b . c [ 0 ] . d`,
	`f := func ( a ) { a . b = 1 ; a [ "c" ] = 2 ; return a } ; g := func ( ) { h := { y : 0 } ; return func ( ) { h . x = 1 ; h . y += 1 ; return h } } ; x := f ( { } ) ; y := g ( ) ( )`,
	`a := undefined ; b := a || 1 ; c := a && 1 ; d := a ? 1 : 2 ; e := ( a == undefined ) ; f := [ a , b ] ; g := { a : a }`,
	`if true { } ; for false { } ; f := func ( ) { } ; f ( ) ; ; ;`,
	"a := `x\ny` ; b := \"\\\"\" ; c := a + b",
	"\ufeffa := 1",
	`a := 1 ; a = a ; b := [ a ] ; b [ 0 ] = a ; { } ; [ ] ; "s" ; 1`,
}

// Seeds that are not valid programs under the src configuration (they need the
// custom module getter, or are ill-formed in a way no single edit of a valid
// program reaches); their neighbourhood is explored like the valid ones.
var corpusSeeds = []string{
	`for a , b , c in [ 1 ] { }`,
	`x := import ( "s" ) ; y := x`,
	`x := import ( "g" )`,
	`x := import ( "n" )`,
	`x := import ( "str" )`,
	`x := import ( "e" )`,
	`x := import ( "i" ) ; y := import ( "i" )`,
	`x := import ( "im" ) ; y := import ( "im" )`,
	`x := import ( "u" )`,
	// custom import values after constants that de-duplication removes (index re-mapping of kept constants)
	`a := "k" ; b := "k" ; c := import ( "s" ) ; d := "k"`,
	`a := 1 ; b := 1 ; c := import ( "i" ) ; d := import ( "u" ) ; e := 1.5 ; f := 1.5`,
	`x := import ( "im" ) ; y := import ( "im" ) ; z := import ( "s" ) ; w := 'c' ; v := 'c'`,
	`x := import ( "bad" )`,
	`x := import ( "cyc" )`,
	`x := import ( "m" )`,
	`x := import ( "noexp" )`,
	`a , b = 1 , 2`,
	`a , b := 1 , 2`,
	`f := func ( ) { export 1 }`,
	`return 1`,
}

func corpusAll() []string {
	return append(append([]string{}, corpusValid...), corpusSeeds...)
}

// editInputs returns the sorted, de-duplicated 1-edit neighbourhood of the
// corpus (plus the corpus itself), excluding nothing.
func editInputs() []string {
	seen := map[string]struct{}{}
	add := func(toks []string) {
		seen[strings.Join(toks, " ")] = struct{}{}
	}
	for _, prog := range corpusAll() {
		toks := splitTokens(prog)
		add(toks)
		n := len(toks)
		tmp := make([]string, 0, n+1)
		for i := 0; i < n; i++ { // delete
			tmp = append(append(tmp[:0], toks[:i]...), toks[i+1:]...)
			add(tmp)
		}
		for i := 0; i <= n; i++ { // insert
			for _, t := range tokFull {
				tmp = append(append(append(tmp[:0], toks[:i]...), t), toks[i:]...)
				add(tmp)
			}
		}
		for i := 0; i < n; i++ { // replace
			for _, t := range tokFull {
				tmp = append(append(append(tmp[:0], toks[:i]...), t), toks[i+1:]...)
				add(tmp)
			}
		}
	}
	out := make([]string, 0, len(seen))
	for s := range seen {
		out = append(out, s)
	}
	sort.Strings(out)
	return out
}

// ---- (4) limits ---------------------------------------------------------------

// limitSpecs lists the generated boundary programs as "kind/N".
func limitSpecs() []string {
	var out []string
	add := func(kind string, ns ...int) {
		for _, n := range ns {
			out = append(out, fmt.Sprintf("%s/%d", kind, n))
		}
	}
	add("globals", 1022, 1023, 1024, 1025, 2000)
	add("locals", 254, 255, 256, 257, 300)
	add("params", 254, 255, 256)
	add("freevars", 255, 256)
	add("array", 65535, 65536)
	add("map", 32768, 65536)
	add("consts", 65535, 65536)
	add("selectors", 255, 256)
	add("indexchain", 255, 256)
	add("parens", 100, 1000, 10000)
	add("brackets", 100, 1000, 10000)
	add("unary", 100, 1000, 10000)
	add("ifblocks", 100, 1000, 10000)
	add("elseif", 100, 1000, 10000)
	add("funclits", 100, 1000, 10000)
	add("calls", 100, 1000, 10000)
	add("binary", 100, 1000, 10000)
	add("ternary", 100, 1000, 10000)
	add("openparens", 100, 1000, 10000)
	add("openbraces", 100, 1000, 10000)
	// code longer than 64 KiB in one function / in main: jump operands beyond 16 bits, with dead code to remove
	add("longif", 7000, 9000)
	add("longloop", 7000, 9000)
	add("longmain", 9000)
	// error-count limits: the parser stops after 10 errors (bailout); scanner errors are counted too
	for _, k := range []string{"nulbytes", "badutf8", "nul-in-comment", "nul-after-token", "bad-escapes", "stray-parens", "nul-in-module-first-token"} {
		add(k, 9, 10, 11, 12, 13, 100)
	}
	add("longline", 100000)
	add("manylines", 100000)
	return out
}

// genLimit builds the program of a limit spec.
func genLimit(spec string) ([]byte, error) {
	i := strings.IndexByte(spec, '/')
	if i < 0 {
		return nil, fmt.Errorf("bad limit spec %q", spec)
	}
	kind := spec[:i]
	n, err := strconv.Atoi(spec[i+1:])
	if err != nil || n < 0 || n > 1000000 {
		return nil, fmt.Errorf("bad limit spec %q", spec)
	}
	var sb strings.Builder
	rep := func(s string, k int) {
		for j := 0; j < k; j++ {
			sb.WriteString(s)
		}
	}
	switch kind {
	case "globals":
		for j := 0; j < n; j++ {
			fmt.Fprintf(&sb, "v%d := 0\n", j)
		}
	case "locals":
		sb.WriteString("f := func() {\n")
		for j := 0; j < n; j++ {
			fmt.Fprintf(&sb, "v%d := 0\n", j)
		}
		sb.WriteString("return v0\n}\nf()\n")
	case "params":
		sb.WriteString("f := func(")
		for j := 0; j < n; j++ {
			if j > 0 {
				sb.WriteString(", ")
			}
			fmt.Fprintf(&sb, "p%d", j)
		}
		sb.WriteString(") { return p0 }\nx := f(")
		for j := 0; j < n; j++ {
			if j > 0 {
				sb.WriteString(", ")
			}
			sb.WriteString("0")
		}
		sb.WriteString(")\n")
	case "freevars":
		sb.WriteString("f := func() {\n")
		for j := 0; j < n; j++ {
			fmt.Fprintf(&sb, "v%d := 0\n", j)
		}
		sb.WriteString("return func() { return 0")
		for j := 0; j < n; j++ {
			fmt.Fprintf(&sb, " + v%d", j)
		}
		sb.WriteString(" }\n}\nx := f()()\n")
	case "array":
		sb.WriteString("x := [")
		for j := 0; j < n; j++ {
			if j > 0 {
				sb.WriteString(",")
			}
			sb.WriteString("0")
		}
		sb.WriteString("]\n")
	case "map":
		sb.WriteString("x := {")
		for j := 0; j < n; j++ {
			if j > 0 {
				sb.WriteString(",")
			}
			fmt.Fprintf(&sb, "k%d:0", j)
		}
		sb.WriteString("}\n")
	case "consts":
		sb.WriteString("x := [")
		for j := 0; j < n; j++ {
			if j > 0 {
				sb.WriteString(",")
			}
			fmt.Fprintf(&sb, "%d", j)
		}
		sb.WriteString("]\n")
	case "selectors":
		sb.WriteString("x := {}\nx")
		rep(".b", n)
		sb.WriteString(" = 1\n")
	case "indexchain":
		sb.WriteString("x := {}\nx")
		rep("[0]", n)
		sb.WriteString(" += 1\n")
	case "parens":
		sb.WriteString("x := ")
		rep("(", n)
		sb.WriteString("1")
		rep(")", n)
	case "brackets":
		sb.WriteString("x := ")
		rep("[", n)
		rep("]", n)
	case "unary":
		sb.WriteString("x := ")
		rep("!", n)
		sb.WriteString("1")
	case "ifblocks":
		rep("if 1 { ", n)
		rep("}", n)
	case "elseif":
		sb.WriteString("if 0 { }")
		rep(" else if 0 { }", n)
	case "funclits":
		sb.WriteString("f := ")
		rep("func() { return ", n)
		sb.WriteString("1")
		rep(" }", n)
	case "calls":
		sb.WriteString("f := func(x) { return x }\ny := ")
		rep("f(", n)
		sb.WriteString("1")
		rep(")", n)
	case "binary":
		sb.WriteString("x := 1")
		rep(" + 1", n)
	case "ternary":
		sb.WriteString("x := ")
		rep("1 ? 2 : ", n)
		sb.WriteString("3")
	case "openparens":
		sb.WriteString("x := ")
		rep("(", n)
	case "openbraces":
		rep("if 1 {", n)
	case "longline":
		sb.WriteString("x := \"")
		rep("a", n)
		sb.WriteString("\" + )")
	case "longif":
		sb.WriteString("f := func(c) {\nx := 0\nif c {\n")
		rep("x = x + 1\n", n)
		sb.WriteString("return x\nx = 0\n} else {\nx = -5\n}\nreturn c || x\n}\nf(true)\n")
	case "longloop":
		sb.WriteString("f := func(c) {\nx := 0\n")
		rep("x = x + 1\n", n)
		sb.WriteString("for i := 0; i < 3; i++ {\nif i == 1 { continue }\nif c && i == 2 { break }\nx += 100\n}\nreturn x\n}\nf(true)\n")
	case "longmain":
		sb.WriteString("x := 0\nc := true\nif c {\n")
		rep("x = x + 1\n", n)
		sb.WriteString("}\nfor i := 0; i < 3; i++ {\nif i == 1 { continue }\nx += 100\n}\n")
	case "nulbytes":
		rep("\x00", n)
	case "badutf8":
		rep("\xff", n)
	case "nul-in-comment":
		sb.WriteString("/* ")
		rep("\x00", n)
		sb.WriteString(" */ a := 1\n")
	case "nul-after-token":
		sb.WriteString("a := 1\n")
		rep("\x00", n)
	case "bad-escapes":
		sb.WriteString("\"")
		rep("\\q", n)
		sb.WriteString("\"\n")
	case "stray-parens":
		rep(") ", n)
	case "nul-in-module-first-token":
		// the same bytes inside a longer first token: an identifier interrupted by NULs
		sb.WriteString("a")
		rep("\x00", n)
		sb.WriteString("b := 1\n")
	case "manylines":
		rep("\n", n)
		sb.WriteString("x := )")
	default:
		return nil, fmt.Errorf("unknown limit kind %q", kind)
	}
	return []byte(sb.String()), nil
}
