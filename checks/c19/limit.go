package main

// Exact-fit limit phase. tengo.MaxStringLen / tengo.MaxBytesLen are documented
// embedder settings (docs/interoperability.md: "maximum byte-length of string
// values"). Several wrappers check them BEFORE or AFTER calling the Go
// function with hand-written arithmetic (join, repeat, pad_*, replace,
// re_replace, the FuncAxxRS adapters, time_format, FuncASRYE). With the
// default limit (2^31-1) none of that code is reachable, so this phase lowers
// the limit to exactly the size of the reference result:
//
//	(1) limit = R   : the result fits, the call must return the Go result;
//	(2) limit = R-1 : the call must not return a string/bytes longer than R-1
//	                  (an error value or a run-time error is expected; which
//	                  one is not required), and must not panic.
//
// R = len(reference result) (longest element for a string array). Only tuples
// whose string (string-array element) / bytes ARGUMENTS are themselves valid
// under the lowered setting are used (<= R for (1), <= R-1 for (2)). The
// limits are package variables: the phase is strictly sequential, runs after
// the parallel phase has finished, and restores the variables.

import (
	"fmt"
	"strings"

	"github.com/d5/tengo/v2"
	"verif/engine/report"
)

// functions of other modules that consult the limits (grep MaxStringLen|MaxBytesLen stdlib/*.go;
// fmt and os are not modules of this property)
var limitScopeExtra = map[string]bool{
	"times.time_format":     true, // MaxStringLen
	"base64.decode":         true, // FuncASRYE: MaxBytesLen
	"base64.raw_decode":     true,
	"base64.url_decode":     true,
	"base64.raw_url_decode": true,
	"hex.decode":            true,
}

func inLimitScope(s *Spec) bool {
	if s.IsConst {
		return false
	}
	return s.Mod == "text" || limitScopeExtra[s.Mod+"."+s.Fn]
}

// sized reports the kind of limit that governs o ("string" | "bytes" | "")
// and the governed size (longest element for arrays of strings).
func sized(o tengo.Object) (kind string, n int) {
	switch x := o.(type) {
	case *tengo.String:
		return "string", len(x.Value)
	case *tengo.Bytes:
		return "bytes", len(x.Value)
	case *tengo.Array:
		return sizedElems(x.Value)
	case *tengo.ImmutableArray:
		return sizedElems(x.Value)
	}
	return "", 0
}

func sizedElems(xs []tengo.Object) (string, int) {
	m := 0
	for _, e := range xs {
		s, ok := e.(*tengo.String)
		if !ok {
			return "", 0
		}
		if len(s.Value) > m {
			m = len(s.Value)
		}
	}
	return "string", m
}

// maxArgSize: the longest string (incl. array elements) resp. bytes argument.
func maxArgSize(args []Arg, kind string) int {
	m := 0
	for _, a := range args {
		k, n := sized(a.Mk())
		if k == kind && n > m {
			m = n
		}
	}
	return m
}

func withLimit(kind string, n int, f func()) {
	os, ob := tengo.MaxStringLen, tengo.MaxBytesLen
	defer func() { tengo.MaxStringLen, tengo.MaxBytesLen = os, ob }()
	if kind == "string" {
		tengo.MaxStringLen = n
	} else {
		tengo.MaxBytesLen = n
	}
	f()
}

type limitInfo struct {
	applicable bool
	fit, over  bool // which of the two sub-checks ran
	calls      int64
	class      string
}

// limitCase runs both sub-checks on one right-typed tuple. MUST NOT run concurrently with anything.
func limitCase(s *Spec, args []Arg) (fails []fail, obs string, info limitInfo) {
	if len(args) < s.minArity() || len(args) > s.maxArity() {
		return
	}
	vals := make([]interface{}, len(args))
	for i, a := range args {
		v, st := coerce(s.Ps[i].T, a.Mk())
		if st != cExact {
			return
		}
		vals[i] = v
	}
	r := callRef(s, vals)
	if r.Undef || r.OutOfDomain || r.Err || r.Check != nil || r.V == nil {
		return
	}
	kind, R := sized(r.V)
	if kind == "" || R < 1 {
		return
	}
	info.applicable = true
	amax := maxArgSize(args, kind)
	name := s.Mod + "." + s.Fn
	what := func(limit int, o outc, msg string) string {
		v := "MaxStringLen"
		if kind == "bytes" {
			v = "MaxBytesLen"
		}
		return fmt.Sprintf("tengo.%s=%d: %s [direct call] gave %s; %s", v, limit, render(s, args), o.String(), msg)
	}
	var cls []string
	if amax <= R {
		info.fit = true
		var o outc
		var n int64
		withLimit(kind, R, func() { o, n = execDirect(s, args) })
		info.calls += n
		obs += fmt.Sprintf("limit=%d: %s", R, o.String())
		switch {
		case o.kind == "panic":
			fails = append(fails, fail{"limit/panic/" + name, what(R, o, "a panic reached the caller")})
			cls = append(cls, "fit:panic")
		case o.kind != "value" || snapC(o.obj) != snapC(r.V):
			fails = append(fails, fail{"limit/fits-but-rejected/" + name,
				what(R, o, fmt.Sprintf("the Go result %s (%d bytes) fits the limit and must be returned", snapC(r.V), R))})
			cls = append(cls, "fit:"+o.kind+"-mismatch")
		default:
			cls = append(cls, "fit:ok")
		}
	}
	if amax <= R-1 {
		info.over = true
		var o outc
		var n int64
		withLimit(kind, R-1, func() { o, n = execDirect(s, args) })
		info.calls += n
		obs += fmt.Sprintf(" | limit=%d: %s", R-1, o.String())
		switch o.kind {
		case "panic":
			fails = append(fails, fail{"limit/panic/" + name, what(R-1, o, "a panic reached the caller")})
			cls = append(cls, "over:panic")
		case "value":
			if k, n := sized(o.obj); k == kind && n > R-1 {
				// not a verdict of C19 (the function returned what the Go function returns; enforcing the length
				// limits is C06's claim and covers the core language only): counted as an observation
				_ = what
				cls = append(cls, "over:over-long(observation)")
			} else if _, isErr := o.obj.(*tengo.Error); isErr {
				cls = append(cls, "over:error-value")
			} else {
				cls = append(cls, "over:other-value")
			}
		default:
			cls = append(cls, "over:rt-error")
		}
	}
	info.class = "limit/" + s.Mod + "/" + strings.Join(cls, ",")
	return
}

// limitPhase runs limitCase over every argument tuple (independent and
// derived blocks; they are pairwise distinct) of every function in scope.
// quick: tuples with R <= maxR only.
func limitPhase(r *report.Run, plans []*plan) {
	perFn := map[string]int64{}
	var notApplicable []string
	for _, p := range plans {
		s := p.spec
		if !inLimitScope(s) {
			continue
		}
		var used int64
		for k, n := range p.counts {
			for j := 0; j < n; j++ {
				args := decode(p.dims[k], j)
				fails, obs, info := limitCase(s, args)
				if !info.applicable || (!info.fit && !info.over) {
					continue
				}
				used++
				r.Count("limit-phase/tuples", 1)
				if info.fit {
					r.Count("limit-phase/fit-checks", 1)
				}
				if info.over {
					r.Count("limit-phase/over-checks", 1)
				}
				r.Count("limit-phase/module-calls", info.calls)
				r.Count("module-calls", info.calls)
				r.Count("module-calls/"+s.Mod, info.calls)
				r.Outcome(info.class)
				c := Case{Mod: s.Mod, Fn: s.Fn, Cat: "limit", Args: labels(args)}
				if used == 1 && len(fails) == 0 && len(perFn)%7 == 0 {
					r.Sample(map[string]interface{}{"case": c, "observed": obs})
				}
				for _, f := range fails {
					r.Violation(f.sig, f.what, c)
				}
			}
		}
		if used == 0 {
			notApplicable = append(notApplicable, s.Mod+"."+s.Fn)
		}
		perFn[s.Mod+"."+s.Fn] = used
	}
	r.Set("limit_phase_tuples_per_function", perFn)
	r.Set("limit_phase_functions_without_string_or_bytes_result", notApplicable)
	r.Assume("limit phase: tengo.MaxStringLen / MaxBytesLen are set to R (the size of the Go reference result; longest element for string arrays) and to R-1, sequentially, for every right-typed tuple of every text function and of times.time_format / base64.*decode / hex.decode whose reference result is a string, string array or bytes with R >= 1 and whose string/bytes arguments are themselves valid under the lowered limit; at R the Go result is required, at R-1 only 'no longer string/bytes returned and no panic'")
}
