package main

// Oracle table for the clock-independent part of module "times", written from
// docs/stdlib-times.md (the descriptions are the godoc sentences of package
// time). now / since / until read the clock and are listed as not covered.

import (
	"sync"
	"time"

	"github.com/d5/tengo/v2"
)

// loadLoc is time.LoadLocation with a cache (the reference side only; the
// zone files do not change during a run).
var locCache sync.Map

type locRes struct {
	l   *time.Location
	err error
}

func loadLoc(name string) (*time.Location, error) {
	if v, ok := locCache.Load(name); ok {
		r := v.(locRes)
		return r.l, r.err
	}
	l, err := time.LoadLocation(name)
	locCache.Store(name, locRes{l, err})
	return l, err
}

func timesSpecs() []*Spec {
	var out []*Spec
	cS := func(name, v string) {
		out = append(out, &Spec{Mod: "times", Fn: name, IsConst: true, Const: &tengo.String{Value: v}, Go: "time layout constant"})
	}
	cI := func(name string, v int64) {
		out = append(out, &Spec{Mod: "times", Fn: name, IsConst: true, Const: &tengo.Int{Value: v}, Go: "time constant"})
	}
	// the documentation spells the layouts out; the literal strings below are the documented ones
	cS("format_ansic", "Mon Jan _2 15:04:05 2006")
	cS("format_unix_date", "Mon Jan _2 15:04:05 MST 2006")
	cS("format_ruby_date", "Mon Jan 02 15:04:05 -0700 2006")
	cS("format_rfc822", "02 Jan 06 15:04 MST")
	cS("format_rfc822z", "02 Jan 06 15:04 -0700")
	cS("format_rfc850", "Monday, 02-Jan-06 15:04:05 MST")
	cS("format_rfc1123", "Mon, 02 Jan 2006 15:04:05 MST")
	cS("format_rfc1123z", "Mon, 02 Jan 2006 15:04:05 -0700")
	cS("format_rfc3339", "2006-01-02T15:04:05Z07:00")
	cS("format_rfc3339_nano", "2006-01-02T15:04:05.999999999Z07:00")
	cS("format_kitchen", "3:04PM")
	cS("format_stamp", "Jan _2 15:04:05")
	cS("format_stamp_milli", "Jan _2 15:04:05.000")
	cS("format_stamp_micro", "Jan _2 15:04:05.000000")
	cS("format_stamp_nano", "Jan _2 15:04:05.000000000")
	cI("nanosecond", int64(time.Nanosecond))
	cI("microsecond", int64(time.Microsecond))
	cI("millisecond", int64(time.Millisecond))
	cI("second", int64(time.Second))
	cI("minute", int64(time.Minute))
	cI("hour", int64(time.Hour))
	cI("january", int64(time.January))
	cI("february", int64(time.February))
	cI("march", int64(time.March))
	cI("april", int64(time.April))
	cI("may", int64(time.May))
	cI("june", int64(time.June))
	cI("july", int64(time.July))
	cI("august", int64(time.August))
	cI("september", int64(time.September))
	cI("october", int64(time.October))
	cI("november", int64(time.November))
	cI("december", int64(time.December))

	add := func(name, gofn string, ps []P, ref func(a []interface{}) R) {
		out = append(out, &Spec{Mod: "times", Fn: name, Go: gofn, Ps: ps, Ref: ref})
	}
	dur := func(a []interface{}, i int) time.Duration { return time.Duration(aI64(a, i)) }

	add("sleep", "time.Sleep", []P{pI("duration", "SLEEP")},
		func(a []interface{}) R { return rU() }) // Sleep has no result
	add("parse_duration", "time.ParseDuration", []P{pSa("s", "DSTR")},
		func(a []interface{}) R {
			d, err := time.ParseDuration(aS(a, 0))
			if err != nil {
				return rErr()
			}
			return rI(int64(d))
		})
	add("duration_hours", "time.Duration.Hours", []P{pI("duration", "DUR")},
		func(a []interface{}) R { return rF(dur(a, 0).Hours()) })
	add("duration_minutes", "time.Duration.Minutes", []P{pI("duration", "DUR")},
		func(a []interface{}) R { return rF(dur(a, 0).Minutes()) })
	add("duration_nanoseconds", "time.Duration.Nanoseconds", []P{pI("duration", "DUR")},
		func(a []interface{}) R { return rI(dur(a, 0).Nanoseconds()) })
	add("duration_seconds", "time.Duration.Seconds", []P{pI("duration", "DUR")},
		func(a []interface{}) R { return rF(dur(a, 0).Seconds()) })
	add("duration_string", "time.Duration.String", []P{pI("duration", "DUR")},
		func(a []interface{}) R { return rS(dur(a, 0).String()) })
	add("month_string", "time.Month.String", []P{pI("month", "MONTH")},
		func(a []interface{}) R { return rS(time.Month(aI64(a, 0)).String()) })
	add("date", "time.Date", []P{pI("year", "YEAR"), pI("month", "DMON"), pI("day", "DDAY"), pI("hour", "DHOUR"),
		pI("min", "DMIN"), pI("sec", "DSEC"), pI("nsec", "DNSEC"), pSo("loc", "DLOC")},
		func(a []interface{}) R {
			loc := time.Local // "The Local time zone will be used if executed without specifying a location"
			if len(a) == 8 {
				l, err := loadLoc(aS(a, 7))
				if err != nil {
					return rErr()
				}
				loc = l
			}
			return rT(time.Date(aI(a, 0), time.Month(aI(a, 1)), aI(a, 2), aI(a, 3), aI(a, 4), aI(a, 5), aI(a, 6), loc))
		})
	add("parse", "time.Parse", []P{pSa("format", "LAYOUT"), pSa("s", "TSTR")},
		func(a []interface{}) R {
			t, err := time.Parse(aS(a, 0), aS(a, 1))
			if err != nil {
				return rErr()
			}
			return rT(t)
		})
	add("unix", "time.Unix", []P{pI("sec", "USEC"), pI("nsec", "UNSEC")},
		func(a []interface{}) R { return rT(time.Unix(aI64(a, 0), aI64(a, 1))) })
	add("add", "time.Time.Add", []P{pT("t"), pI("duration", "DUR")},
		func(a []interface{}) R { return rT(aT(a, 0).Add(dur(a, 1))) })
	add("add_date", "time.Time.AddDate", []P{pT("t"), pI("years", "ADD"), pI("months", "ADD"), pI("days", "ADD")},
		func(a []interface{}) R { return rT(aT(a, 0).AddDate(aI(a, 1), aI(a, 2), aI(a, 3))) })
	add("sub", "time.Time.Sub", []P{pT("t"), pT("u")},
		func(a []interface{}) R { return rI(int64(aT(a, 0).Sub(aT(a, 1)))) })
	add("after", "time.Time.After", []P{pT("t"), pT("u")},
		func(a []interface{}) R { return rB(aT(a, 0).After(aT(a, 1))) })
	add("before", "time.Time.Before", []P{pT("t"), pT("u")},
		func(a []interface{}) R { return rB(aT(a, 0).Before(aT(a, 1))) })
	t1 := func(name, gofn string, f func(t time.Time) R) {
		add(name, gofn, []P{pT("t")}, func(a []interface{}) R { return f(aT(a, 0)) })
	}
	t1("time_year", "time.Time.Year", func(t time.Time) R { return rI(int64(t.Year())) })
	t1("time_month", "time.Time.Month", func(t time.Time) R { return rI(int64(t.Month())) })
	t1("time_day", "time.Time.Day", func(t time.Time) R { return rI(int64(t.Day())) })
	t1("time_weekday", "time.Time.Weekday", func(t time.Time) R { return rI(int64(t.Weekday())) })
	t1("time_hour", "time.Time.Hour", func(t time.Time) R { return rI(int64(t.Hour())) })
	t1("time_minute", "time.Time.Minute", func(t time.Time) R { return rI(int64(t.Minute())) })
	t1("time_second", "time.Time.Second", func(t time.Time) R { return rI(int64(t.Second())) })
	t1("time_nanosecond", "time.Time.Nanosecond", func(t time.Time) R { return rI(int64(t.Nanosecond())) })
	t1("time_unix", "time.Time.Unix", func(t time.Time) R { return rI(t.Unix()) })
	t1("time_unix_nano", "time.Time.UnixNano", func(t time.Time) R {
		// documented: "The result is undefined if the Unix time in nanoseconds
		// cannot be represented by an int64 (a date before the year 1678 or after 2262)"
		if t.Year() < 1678 || t.Year() > 2262 {
			return rUndef()
		}
		return rI(t.UnixNano())
	})
	add("time_format", "time.Time.Format", []P{pT("t"), pSa("format", "LAYOUT")},
		func(a []interface{}) R { return rS(aT(a, 0).Format(aS(a, 1))) })
	t1("time_location", "time.Time.Location().String", func(t time.Time) R { return rS(t.Location().String()) })
	t1("time_string", "time.Time.String", func(t time.Time) R { return rS(t.String()) })
	t1("is_zero", "time.Time.IsZero", func(t time.Time) R { return rB(t.IsZero()) })
	add("in_location", "time.LoadLocation + time.Time.In", []P{pT("t"), pSa("l", "LOC")},
		func(a []interface{}) R {
			l, err := loadLoc(aS(a, 1))
			if err != nil {
				return rErr()
			}
			return rT(aT(a, 0).In(l))
		})
	t1("to_local", "time.Time.Local", func(t time.Time) R { return rT(t.Local()) })
	t1("to_utc", "time.Time.UTC", func(t time.Time) R { return rT(t.UTC()) })
	return out
}

// documented functions of the covered modules that are deliberately not exercised
var notCovered = map[string]string{
	"times.now":   "reads the clock: no clock-independent reference value",
	"times.since": "reads the clock (time.Since)",
	"times.until": "reads the clock (time.Until)",
}
