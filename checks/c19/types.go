package main

import (
	"fmt"
	"math"
	"strconv"
	"strings"
	"time"

	"github.com/d5/tengo/v2"
	"verif/engine/val"
)

// ---- documented parameter types ------------------------------------------

type ty int

const (
	tString ty = iota
	tInt
	tFloat
	tBool
	tBytes
	tTime
	tStrArr // array of string(-convertible) elements (text.join)
)

func (t ty) String() string {
	return [...]string{"string", "int", "float", "bool", "bytes", "time", "array"}[t]
}

// P is one documented parameter.
type P struct {
	N   string // documented name
	T   ty     // documented type
	A   string // alphabet name
	Opt bool   // documented (or pinned, see assumptions) as optional trailing parameter
}

// R is what the reference (direct Go call) says about one argument tuple.
type R struct {
	V           tengo.Object                  // expected value
	Err         bool                          // the Go function returned an error: expect an Error value
	Undef       bool                          // the documentation does not determine the result: only "no panic"
	OutOfDomain bool                          // the underlying Go function itself panics here: outside the claim, nothing is required
	Check       func(got tengo.Object) string // when set: structural check instead of snapshot equality ("" = ok)
}

// Spec is one row of the oracle table, written from docs/stdlib-*.md.
type Spec struct {
	Mod, Fn string
	Ps      []P
	Ref     func(a []interface{}) R // a[i]: string | int64 | float64 | bool | []byte | time.Time | []string
	Const   tengo.Object            // constants: expected value
	IsConst bool
	Method  string // non-empty: method of the Regexp object returned by re_compile(Ps[0])
	Go      string // the Go function the documentation names / describes (evidence only)
}

func (s *Spec) minArity() int {
	n := 0
	for _, p := range s.Ps {
		if !p.Opt {
			n++
		}
	}
	return n
}
func (s *Spec) maxArity() int { return len(s.Ps) }

// ---- argument values -------------------------------------------------------

// Arg is one element of an argument alphabet.
type Arg struct {
	Label string
	Kind  string
	Mk    func() tengo.Object
}

var timeReg = map[string]time.Time{
	"zero":     {},
	"unix0":    time.Unix(0, 0),
	"ref":      val.RefTime,
	"ref+":     val.RefTime.Add(1).AddDate(0, 1, 0),
	"ref-zone": val.RefTime.In(time.FixedZone("X", 3600)),
	"y2300":    time.Date(2300, 2, 28, 12, 30, 15, 999, time.UTC),
	"leap":     time.Date(2012, 2, 29, 1, 2, 3, 4, time.FixedZone("W", -5*3600)),
}

var strArrReg = map[string][]interface{}{ // elements: string | int64 | bool | nil(undefined)
	"empty":     {},
	"a":         {"a"},
	"abc":       {"a", "b", "c"},
	"gaps":      {"", "x", ""},
	"mixed":     {"a", int64(1), true},
	"utf8":      {"hé", "ö"},
	"undefelem": {"a", nil},
	"w1":        {"abcd"},        // one element (no separator is ever written)
	"w2":        {"ab", "cd"},    // two elements
	"w3":        {"x", "yz", ""}, // three elements
}

func mkStrArr(name string, immutable bool) func() tengo.Object {
	return func() tengo.Object {
		var xs []tengo.Object
		for _, e := range strArrReg[name] {
			switch x := e.(type) {
			case string:
				xs = append(xs, &tengo.String{Value: x})
			case int64:
				xs = append(xs, &tengo.Int{Value: x})
			case bool:
				if x {
					xs = append(xs, tengo.TrueValue)
				} else {
					xs = append(xs, tengo.FalseValue)
				}
			default:
				xs = append(xs, tengo.UndefinedValue)
			}
		}
		if immutable {
			return &tengo.ImmutableArray{Value: xs}
		}
		return &tengo.Array{Value: xs}
	}
}

func fmtFloatLabel(f float64) string {
	switch {
	case math.IsNaN(f):
		return "f:NaN"
	case f == 0 && math.Signbit(f):
		return "f:-0"
	}
	return "f:" + strconv.FormatFloat(f, 'g', -1, 64)
}

// resolve turns a label back into an argument (labels are self-describing so
// that replay files need no registry of alphabets).
func resolve(label string) (Arg, bool) {
	i := strings.IndexByte(label, ':')
	if i < 0 {
		return Arg{}, false
	}
	k, rest := label[:i], label[i+1:]
	switch k {
	case "s":
		s, err := strconv.Unquote(rest)
		if err != nil {
			return Arg{}, false
		}
		return Arg{label, "string", func() tengo.Object { return &tengo.String{Value: s} }}, true
	case "y":
		s, err := strconv.Unquote(rest)
		if err != nil {
			return Arg{}, false
		}
		return Arg{label, "bytes", func() tengo.Object { return &tengo.Bytes{Value: []byte(s)} }}, true
	case "i":
		n, err := strconv.ParseInt(rest, 10, 64)
		if err != nil {
			return Arg{}, false
		}
		return Arg{label, "int", func() tengo.Object { return &tengo.Int{Value: n} }}, true
	case "f":
		var f float64
		switch rest {
		case "NaN":
			f = math.NaN()
		case "-0":
			f = math.Copysign(0, -1)
		default:
			var err error
			f, err = strconv.ParseFloat(rest, 64)
			if err != nil {
				return Arg{}, false
			}
		}
		return Arg{label, "float", func() tengo.Object { return &tengo.Float{Value: f} }}, true
	case "b":
		if rest == "true" {
			return Arg{label, "bool", func() tengo.Object { return tengo.TrueValue }}, true
		}
		return Arg{label, "bool", func() tengo.Object { return tengo.FalseValue }}, true
	case "t":
		t, ok := timeReg[rest]
		if !ok {
			return Arg{}, false
		}
		return Arg{label, "time", func() tengo.Object { return &tengo.Time{Value: t} }}, true
	case "sa", "isa":
		if _, ok := strArrReg[rest]; !ok {
			return Arg{}, false
		}
		if k == "isa" {
			return Arg{label, "imarray", mkStrArr(rest, true)}, true
		}
		return Arg{label, "array", mkStrArr(rest, false)}, true
	case "v":
		v, ok := val.ByName(rest)
		if !ok {
			return Arg{}, false
		}
		return Arg{label, v.Kind, v.Mk}, true
	}
	return Arg{}, false
}

func mustResolve(label string) Arg {
	a, ok := resolve(label)
	if !ok {
		panic("c19: bad label " + label)
	}
	return a
}

// label builders
func sL(xs ...string) []string {
	var out []string
	for _, x := range xs {
		out = append(out, "s:"+strconv.Quote(x))
	}
	return out
}
func yL(xs ...string) []string {
	var out []string
	for _, x := range xs {
		out = append(out, "y:"+strconv.Quote(x))
	}
	return out
}
func iL(xs ...int64) []string {
	var out []string
	for _, x := range xs {
		out = append(out, "i:"+strconv.FormatInt(x, 10))
	}
	return out
}
func fL(xs ...float64) []string {
	var out []string
	for _, x := range xs {
		out = append(out, fmtFloatLabel(x))
	}
	return out
}
func pre(p string, xs ...string) []string {
	var out []string
	for _, x := range xs {
		out = append(out, p+x)
	}
	return out
}

// ---- documented coercion (docs/runtime-types.md) ---------------------------

const (
	cExact  = iota // value already has the documented parameter type
	cConv          // convertible per the conversion table: the adapter must coerce
	cUnspec        // the table says nothing (function values): no requirement but "no panic"
	cNot           // "X" in the table: must be rejected with a run-time error
)

// documented falsiness (docs/runtime-types.md "Object.IsFalsy()")
func docFalsy(o tengo.Object) (falsy, documented bool) {
	switch x := o.(type) {
	case *tengo.Int:
		return x.Value == 0, true
	case *tengo.String:
		return len(x.Value) == 0, true
	case *tengo.Float:
		return math.IsNaN(x.Value), true
	case *tengo.Bool:
		return x == tengo.FalseValue, true
	case *tengo.Char:
		return x.Value == 0, true
	case *tengo.Bytes:
		return len(x.Value) == 0, true
	case *tengo.Array:
		return len(x.Value) == 0, true
	case *tengo.ImmutableArray:
		return len(x.Value) == 0, true
	case *tengo.Map:
		return len(x.Value) == 0, true
	case *tengo.ImmutableMap:
		return len(x.Value) == 0, true
	case *tengo.Time:
		return x.Value.IsZero(), true
	case *tengo.Error, *tengo.Undefined:
		return true, true
	}
	return false, false
}

// coerce applies the documented conversion of o to parameter type t.
func coerce(t ty, o tengo.Object) (interface{}, int) {
	switch t {
	case tString:
		switch x := o.(type) {
		case *tengo.String:
			return x.Value, cExact
		case *tengo.Int:
			return strconv.FormatInt(x.Value, 10), cConv
		case *tengo.Bool:
			return strconv.FormatBool(x == tengo.TrueValue), cConv
		case *tengo.Char:
			return string(x.Value), cConv
		case *tengo.Bytes:
			return string(x.Value), cConv
		case *tengo.Float:
			return strconv.FormatFloat(x.Value, 'f', -1, 64), cConv
		case *tengo.Time:
			return x.Value.String(), cConv
		case *tengo.Array, *tengo.ImmutableArray, *tengo.Map, *tengo.ImmutableMap, *tengo.Error:
			// "[...]", "{...}", "error: ...": exact text is the value's own
			// String() (trusted base; C10/C17 look at it)
			return o.String(), cConv
		case *tengo.Undefined:
			return nil, cNot
		}
		return nil, cUnspec
	case tInt:
		switch x := o.(type) {
		case *tengo.Int:
			return x.Value, cExact
		case *tengo.Float:
			if math.IsNaN(x.Value) || x.Value >= 9.2e18 || x.Value <= -9.2e18 {
				return nil, cUnspec
			}
			return int64(x.Value), cConv
		case *tengo.Char:
			return int64(x.Value), cConv
		case *tengo.Bool:
			if x == tengo.TrueValue {
				return int64(1), cConv
			}
			return int64(0), cConv
		case *tengo.String:
			n, err := strconv.ParseInt(x.Value, 10, 64)
			if err != nil {
				return nil, cNot
			}
			return n, cConv
		}
		return nil, cNot
	case tFloat:
		switch x := o.(type) {
		case *tengo.Float:
			return x.Value, cExact
		case *tengo.Int:
			return float64(x.Value), cConv
		case *tengo.String:
			f, err := strconv.ParseFloat(x.Value, 64)
			if err != nil {
				return nil, cNot
			}
			return f, cConv
		}
		return nil, cNot
	case tBool:
		if b, ok := o.(*tengo.Bool); ok {
			return b == tengo.TrueValue, cExact
		}
		f, doc := docFalsy(o)
		if !doc {
			return nil, cUnspec
		}
		return !f, cConv
	case tBytes:
		switch x := o.(type) {
		case *tengo.Bytes:
			return append([]byte(nil), x.Value...), cExact
		case *tengo.String:
			return []byte(x.Value), cConv
		}
		return nil, cNot
	case tTime:
		switch x := o.(type) {
		case *tengo.Time:
			return x.Value, cExact
		case *tengo.Int:
			return time.Unix(x.Value, 0), cConv
		}
		return nil, cNot
	case tStrArr:
		var xs []tengo.Object
		switch x := o.(type) {
		case *tengo.Array:
			xs = x.Value
		case *tengo.ImmutableArray:
			xs = x.Value
		default:
			return nil, cNot
		}
		out := []string{}
		st := cExact
		for _, e := range xs {
			v, s := coerce(tString, e)
			if s > st {
				st = s
			}
			if s >= cUnspec {
				continue
			}
			out = append(out, v.(string))
		}
		return out, st
	}
	return nil, cNot
}

// ---- result construction / comparison ---------------------------------------

func rS(s string) R    { return R{V: &tengo.String{Value: s}} }
func rI(i int64) R     { return R{V: &tengo.Int{Value: i}} }
func rF(f float64) R   { return R{V: &tengo.Float{Value: f}} }
func rY(b []byte) R    { return R{V: &tengo.Bytes{Value: b}} }
func rT(t time.Time) R { return R{V: &tengo.Time{Value: t}} }
func rU() R            { return R{V: tengo.UndefinedValue} }
func rErr() R          { return R{Err: true} }
func rUndef() R        { return R{Undef: true} }
func rB(b bool) R {
	if b {
		return R{V: tengo.TrueValue}
	}
	return R{V: tengo.FalseValue}
}
func rSs(xs []string) R {
	a := &tengo.Array{}
	for _, x := range xs {
		a.Value = append(a.Value, &tengo.String{Value: x})
	}
	return R{V: a}
}

func aS(a []interface{}, i int) string    { return a[i].(string) }
func aI(a []interface{}, i int) int       { return int(a[i].(int64)) }
func aI64(a []interface{}, i int) int64   { return a[i].(int64) }
func aF(a []interface{}, i int) float64   { return a[i].(float64) }
func aB(a []interface{}, i int) bool      { return a[i].(bool) }
func aY(a []interface{}, i int) []byte    { return a[i].([]byte) }
func aT(a []interface{}, i int) time.Time { return a[i].(time.Time) }
func aSs(a []interface{}, i int) []string { return a[i].([]string) }

// snapC is val.Snapshot with (a) the immutable tags erased (the documentation
// never says whether a returned array/map is immutable) and (b) a time's
// location made visible (name, zone abbreviation, offset).
func snapC(o tengo.Object) string {
	if o == nil {
		return "nil"
	}
	if t, ok := o.(*tengo.Time); ok {
		name, off := t.Value.Zone()
		return fmt.Sprintf("time:%d.%d@%s/%s%+d", t.Value.Unix(), t.Value.Nanosecond(),
			t.Value.Location().String(), name, off)
	}
	s := val.Snapshot(o)
	s = strings.ReplaceAll(s, "imarray[", "array[")
	return strings.ReplaceAll(s, "immap{", "map{")
}

// callRef runs the reference under recover: a panic of the Go function means
// "outside the domain where the underlying Go function is defined" - the
// property claims nothing there (not even the absence of a panic).
func callRef(s *Spec, a []interface{}) (r R) {
	defer func() {
		if p := recover(); p != nil {
			r = R{Undef: true, OutOfDomain: true}
		}
	}()
	return s.Ref(a)
}
