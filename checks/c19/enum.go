package main

// Module "enum" is a source module (written in Tengo): it is executed through
// real scripts only. The reference is a Go model of docs/stdlib-enum.md.
// Iteration order of maps is not specified, so references for maps are
// order-insensitive (multiset / "one of").

import (
	"fmt"
	"sort"
	"strings"

	"github.com/d5/tengo/v2"
	"verif/engine/tg"
)

type kvPair struct{ k, v tengo.Object }

type enumX struct {
	Name  string
	Src   string
	Kind  string // array | map | other
	Items []kvPair
}

func oi(n int64) tengo.Object  { return &tengo.Int{Value: n} }
func os(s string) tengo.Object { return &tengo.String{Value: s} }
func oarr(xs ...tengo.Object) tengo.Object {
	return &tengo.Array{Value: append([]tengo.Object{}, xs...)}
}

func arrItems(xs ...tengo.Object) []kvPair {
	var out []kvPair
	for i, x := range xs {
		out = append(out, kvPair{oi(int64(i)), x})
	}
	return out
}

var enumXs = []enumX{
	{"a-empty", `[]`, "array", nil},
	{"a-123", `[1, 2, 3]`, "array", arrItems(oi(1), oi(2), oi(3))},
	{"a-mixed", `[0, "", "a", false, 2]`, "array", arrItems(oi(0), os(""), os("a"), tengo.FalseValue, oi(2))},
	{"a-5", `[5, 4, 3, 2, 1]`, "array", arrItems(oi(5), oi(4), oi(3), oi(2), oi(1))},
	{"ia-12", `immutable([1, 2])`, "array", arrItems(oi(1), oi(2))},
	{"m-empty", `{}`, "map", nil},
	{"m-a1", `{a: 1}`, "map", []kvPair{{os("a"), oi(1)}}},
	{"m-ab", `{a: 2, b: 0}`, "map", []kvPair{{os("a"), oi(2)}, {os("b"), oi(0)}}},
	{"m-abc", `{a: 2, b: 3, c: "x"}`, "map", []kvPair{{os("a"), oi(2)}, {os("b"), oi(3)}, {os("c"), os("x")}}},
	{"im-a2", `immutable({a: 2})`, "map", []kvPair{{os("a"), oi(2)}}},
	{"int", `5`, "other", nil},
	{"string", `"abc"`, "other", nil},
	{"undefined", `undefined`, "other", nil},
	{"bytes", `bytes("ab")`, "other", nil},
}

type enumFn struct {
	Name  string
	Src   string
	Model func(k, v tengo.Object) tengo.Object
}

var enumFns = []enumFn{
	{"val", `func(k, v) { return v }`, func(k, v tengo.Object) tengo.Object { return v }},
	{"key", `func(k, v) { return k }`, func(k, v tengo.Object) tengo.Object { return k }},
	{"false", `func(k, v) { return false }`, func(k, v tengo.Object) tengo.Object { return tengo.FalseValue }},
	{"pair", `func(k, v) { return [k, v] }`, func(k, v tengo.Object) tengo.Object { return oarr(k, v) }},
	{"gt1", `func(k, v) { return is_int(v) && v > 1 }`, func(k, v tengo.Object) tengo.Object {
		if i, ok := v.(*tengo.Int); ok && i.Value > 1 {
			return tengo.TrueValue
		}
		return tengo.FalseValue
	}},
	{"enum.key", `enum.key`, func(k, v tengo.Object) tengo.Object { return k }},
	{"enum.value", `enum.value`, func(k, v tengo.Object) tengo.Object { return v }},
	{"undef", `func(k, v) { }`, func(k, v tengo.Object) tengo.Object { return tengo.UndefinedValue }},
}

// non-callable values at the fn position
var enumBadFns = []struct{ Name, Src string }{{"int", "5"}, {"undefined", "undefined"}, {"string", `"s"`}}

func truthy(o tengo.Object) bool { f, _ := docFalsy(o); return !f }

// enumExpect describes the acceptable results of one call.
type enumExpect struct {
	Exact    tengo.Object   // exact result (immutability erased)
	OneOf    []tengo.Object // any of these
	Multiset []tengo.Object // an array with exactly these elements in any order
	RtError  bool           // a run-time error is required
	ArityErr bool           // ... and it must be the wrong-number-of-arguments error
	Undef    bool           // documentation silent: anything but a panic
	Acc      []tengo.Object // `each`: the [key, value] pairs fn must have been invoked with (order-free for maps)
	AccOrder bool           // ... in this order (arrays)
}

func findX(name string) (enumX, bool) {
	for _, x := range enumXs {
		if x.Name == name {
			return x, true
		}
	}
	return enumX{}, false
}
func findF(name string) (enumFn, bool) {
	for _, f := range enumFns {
		if f.Name == name {
			return f, true
		}
	}
	return enumFn{}, false
}

// enum cases: Args = [x-name, second] where second is "fn:<name>" | "bad:<name>" | "i:<n>" | "s:<q>" | "src:<tengo expr>"
func enumCases(thorough bool) []Case {
	var out []Case
	withFn := []string{"all", "any", "each", "filter", "find", "find_key", "map"}
	for _, fn := range withFn {
		for _, x := range enumXs {
			for _, f := range enumFns {
				out = append(out, Case{Mod: "enum", Fn: fn, Cat: "tuple", Args: []string{"x:" + x.Name, "fn:" + f.Name}})
			}
		}
		// wrong-typed fn on a non-empty array and a non-empty map
		for _, xn := range []string{"a-123", "m-a1"} {
			for _, b := range enumBadFns {
				out = append(out, Case{Mod: "enum", Fn: fn, Cat: "wrong@1", Args: []string{"x:" + xn, "bad:" + b.Name}})
			}
		}
	}
	sizes := []string{"i:1", "i:2", "i:3", "i:5", "i:0", "i:-1", `s:"a"`, "src:undefined", "src:1.5"}
	for _, x := range enumXs {
		for _, s := range sizes {
			out = append(out, Case{Mod: "enum", Fn: "chunk", Cat: "tuple", Args: []string{"x:" + x.Name, s}})
		}
	}
	keys := []string{"i:0", "i:1", "i:2", "i:-1", "i:5", `s:"a"`, `s:"b"`, `s:"zz"`, "src:undefined", "src:1.0"}
	for _, x := range enumXs {
		for _, k := range keys {
			out = append(out, Case{Mod: "enum", Fn: "at", Cat: "tuple", Args: []string{"x:" + x.Name, k}})
		}
	}
	anys := []string{"i:1", `s:"a"`, "src:undefined", "src:[1]", "src:{a: 1}", "src:false"}
	for _, fn := range []string{"key", "value"} {
		for _, a := range anys {
			for _, b := range anys {
				out = append(out, Case{Mod: "enum", Fn: fn, Cat: "tuple", Args: []string{a, b}})
			}
		}
	}
	// arity -1 / +1 for every function
	for _, fn := range append(append([]string{}, withFn...), "chunk", "at", "key", "value") {
		second := "fn:val"
		switch fn {
		case "chunk":
			second = "i:2"
		case "at":
			second = "i:0"
		case "key", "value":
			second = "i:1"
		}
		out = append(out, Case{Mod: "enum", Fn: fn, Cat: "arity-", Args: []string{"x:a-123"}})
		out = append(out, Case{Mod: "enum", Fn: fn, Cat: "arity+", Args: []string{"x:a-123", second, "i:1"}})
	}
	return out
}

func enumArgSrc(label string) (string, bool) {
	i := strings.IndexByte(label, ':')
	if i < 0 {
		return "", false
	}
	k, rest := label[:i], label[i+1:]
	switch k {
	case "x":
		x, ok := findX(rest)
		return x.Src, ok
	case "fn":
		f, ok := findF(rest)
		return f.Src, ok
	case "bad":
		for _, b := range enumBadFns {
			if b.Name == rest {
				return b.Src, true
			}
		}
	case "i":
		return "(" + rest + ")", true
	case "s", "src":
		return rest, true
	}
	return "", false
}

// anyVal gives the Go-side object for an i:/s:/src: label used by key/value/at.
func anyVal(label string) tengo.Object {
	switch label {
	case "src:undefined":
		return tengo.UndefinedValue
	case "src:[1]":
		return oarr(oi(1))
	case "src:{a: 1}":
		return &tengo.Map{Value: map[string]tengo.Object{"a": oi(1)}}
	case "src:false":
		return tengo.FalseValue
	case "src:1.5":
		return &tengo.Float{Value: 1.5}
	case "src:1.0":
		return &tengo.Float{Value: 1}
	}
	if a, ok := resolve(label); ok {
		return a.Mk()
	}
	return nil
}

func enumReference(c Case) enumExpect {
	nargs := len(c.Args)
	if nargs != 2 {
		return enumExpect{RtError: true, ArityErr: true}
	}
	switch c.Fn {
	case "key":
		return enumExpect{Exact: anyVal(c.Args[0])}
	case "value":
		return enumExpect{Exact: anyVal(c.Args[1])}
	}
	x, _ := findX(strings.TrimPrefix(c.Args[0], "x:"))
	switch c.Fn {
	case "chunk":
		if x.Kind != "array" {
			return enumExpect{Exact: tengo.UndefinedValue} // "returns undefined if x is not array"
		}
		sz, ok := anyVal(c.Args[1]).(*tengo.Int)
		if !ok || sz.Value <= 0 {
			return enumExpect{Undef: true} // size that is not a positive int: not documented
		}
		res := &tengo.Array{}
		for i := 0; i < len(x.Items); i += int(sz.Value) {
			j := i + int(sz.Value)
			if j > len(x.Items) {
				j = len(x.Items)
			}
			ch := &tengo.Array{}
			for _, it := range x.Items[i:j] {
				ch.Value = append(ch.Value, it.v)
			}
			res.Value = append(res.Value, ch)
		}
		return enumExpect{Exact: res}
	case "at":
		if x.Kind == "other" {
			return enumExpect{Exact: tengo.UndefinedValue}
		}
		key := anyVal(c.Args[1])
		if x.Kind == "array" {
			k, ok := key.(*tengo.Int)
			if !ok || k.Value < 0 || int(k.Value) >= len(x.Items) {
				return enumExpect{Undef: true} // out-of-range / non-int index: not documented
			}
			return enumExpect{Exact: x.Items[k.Value].v}
		}
		k, ok := key.(*tengo.String)
		if !ok {
			return enumExpect{Undef: true}
		}
		for _, it := range x.Items {
			if it.k.(*tengo.String).Value == k.Value {
				return enumExpect{Exact: it.v}
			}
		}
		return enumExpect{Undef: true} // missing key: not documented
	}
	// functions taking fn
	enumerable := x.Kind != "other"
	ordered := x.Kind == "array"
	if strings.HasPrefix(c.Args[1], "bad:") {
		if c.Fn == "filter" && x.Kind != "array" {
			return enumExpect{Exact: tengo.UndefinedValue} // "returns undefined if x is not array" comes first
		}
		if !enumerable || len(x.Items) == 0 {
			return enumExpect{Undef: true} // fn is never invoked: not documented
		}
		return enumExpect{RtError: true} // x non-empty and in the function's domain, fn not callable
	}
	f, _ := findF(strings.TrimPrefix(c.Args[1], "fn:"))
	switch c.Fn {
	case "all":
		if !enumerable {
			return enumExpect{Exact: tengo.UndefinedValue}
		}
		for _, it := range x.Items {
			if !truthy(f.Model(it.k, it.v)) {
				return enumExpect{Exact: tengo.FalseValue}
			}
		}
		return enumExpect{Exact: tengo.TrueValue}
	case "any":
		if !enumerable {
			return enumExpect{Exact: tengo.UndefinedValue}
		}
		for _, it := range x.Items {
			if truthy(f.Model(it.k, it.v)) {
				return enumExpect{Exact: tengo.TrueValue}
			}
		}
		return enumExpect{Exact: tengo.FalseValue}
	case "each":
		e := enumExpect{Exact: tengo.UndefinedValue, Acc: []tengo.Object{}, AccOrder: ordered}
		if enumerable {
			for _, it := range x.Items {
				e.Acc = append(e.Acc, oarr(it.k, it.v))
			}
		}
		return e
	case "filter":
		if x.Kind != "array" {
			return enumExpect{Exact: tengo.UndefinedValue} // "returns undefined if x is not array"
		}
		res := &tengo.Array{}
		for _, it := range x.Items {
			if truthy(f.Model(it.k, it.v)) {
				res.Value = append(res.Value, it.v)
			}
		}
		return enumExpect{Exact: res}
	case "find", "find_key":
		if !enumerable {
			return enumExpect{Exact: tengo.UndefinedValue}
		}
		var hits []tengo.Object
		for _, it := range x.Items {
			if truthy(f.Model(it.k, it.v)) {
				if c.Fn == "find" {
					hits = append(hits, it.v)
				} else {
					hits = append(hits, it.k)
				}
			}
		}
		if len(hits) == 0 {
			return enumExpect{Undef: true} // nothing found: the documentation does not say what is returned
		}
		if ordered {
			return enumExpect{Exact: hits[0]}
		}
		return enumExpect{OneOf: hits}
	case "map":
		if !enumerable {
			return enumExpect{Exact: tengo.UndefinedValue}
		}
		var res []tengo.Object
		for _, it := range x.Items {
			res = append(res, f.Model(it.k, it.v))
		}
		if ordered {
			return enumExpect{Exact: &tengo.Array{Value: res}}
		}
		if res == nil {
			res = []tengo.Object{}
		}
		return enumExpect{Multiset: res}
	}
	return enumExpect{Undef: true}
}

func sortedSnaps(xs []tengo.Object) []string {
	var s []string
	for _, x := range xs {
		s = append(s, snapC(x))
	}
	sort.Strings(s)
	return s
}

func elemsOf(o tengo.Object) ([]tengo.Object, bool) {
	switch x := o.(type) {
	case *tengo.Array:
		return x.Value, true
	case *tengo.ImmutableArray:
		return x.Value, true
	}
	return nil, false
}

func runEnumCase(c Case, mods *tengo.ModuleMap) (fails []fail, obs string, info caseInfo) {
	info.calls = 1
	info.scripts = 1
	var srcs []string
	for _, a := range c.Args {
		s, ok := enumArgSrc(a)
		if !ok {
			return []fail{{"internal/bad-enum-label", "bad label " + a}}, "", info
		}
		srcs = append(srcs, s)
	}
	var sb strings.Builder
	sb.WriteString("enum := import(\"enum\")\nacc := []\n")
	call := make([]string, len(srcs))
	for i, s := range srcs {
		fmt.Fprintf(&sb, "a%d := %s\n", i, s)
		call[i] = fmt.Sprintf("a%d", i)
	}
	if c.Fn == "each" && len(c.Args) >= 2 && strings.HasPrefix(c.Args[1], "fn:") {
		// record the invocations, then delegate to the alphabet function (its result must not matter)
		sb.WriteString("rec := func(k, v) { acc = append(acc, [k, v]); return a1(k, v) }\n")
		call[1] = "rec"
	}
	fmt.Fprintf(&sb, "out := enum.%s(%s)\n", c.Fn, strings.Join(call, ", "))
	o := tg.Run(sb.String(), tg.Opts{Modules: mods})
	exp := enumReference(c)
	sig := func(class string) string { return "mod=enum/fn=" + c.Fn + "/" + class }
	what := func(s string) string {
		return fmt.Sprintf("enum.%s(%s): %s", c.Fn, strings.Join(srcs, ", "), s)
	}
	switch o.Class {
	case "panic":
		info.class = "enum/panic"
		return []fail{{sig("panic"), what("panic: " + tg.FirstLine(o.ErrText))}}, "panic", info
	case "compile-error":
		return []fail{{"internal/enum-script-does-not-compile", what(o.ErrText)}}, "compile-error", info
	}
	if o.Class == "ok" {
		obs = "ok:" + snapC(o.Globals["out"])
	} else {
		obs = "runtime-error:" + tg.FirstLine(o.ErrText)
	}
	switch {
	case exp.Undef:
		info.class = "enum/undocumented/" + o.Class
		return nil, obs, info
	case exp.RtError:
		info.validated = true
		info.class = "enum/expect-error/" + o.Class
		if o.Class != "runtime-error" {
			cl := "wrong-type-accepted"
			if exp.ArityErr {
				cl = "arity"
			}
			return []fail{{sig(cl), what("expected a run-time error, got " + obs)}}, obs, info
		}
		if exp.ArityErr && !strings.Contains(o.ErrText, "wrong number of arguments") {
			return []fail{{sig("arity"), what("expected wrong-number-of-arguments, got " + obs)}}, obs, info
		}
		return nil, obs, info
	}
	info.validated = true
	info.nontrivial = true
	info.class = "enum/value/" + o.Class
	if o.Class != "ok" {
		return []fail{{sig("error-mismatch"), what("expected a value, got " + obs)}}, obs, info
	}
	got := o.Globals["out"]
	switch {
	case exp.Exact != nil:
		if snapC(got) != snapC(exp.Exact) {
			fails = append(fails, fail{sig("value-mismatch"), what("got " + snapC(got) + ", documented " + snapC(exp.Exact))})
		}
	case exp.OneOf != nil:
		ok := false
		for _, w := range exp.OneOf {
			if snapC(w) == snapC(got) {
				ok = true
			}
		}
		if !ok {
			fails = append(fails, fail{sig("value-mismatch"), what("got " + snapC(got) + ", documented one of " + strings.Join(sortedSnaps(exp.OneOf), " | "))})
		}
	case exp.Multiset != nil:
		es, isArr := elemsOf(got)
		if !isArr || strings.Join(sortedSnaps(es), ";") != strings.Join(sortedSnaps(exp.Multiset), ";") {
			fails = append(fails, fail{sig("value-mismatch"), what("got " + snapC(got) + ", documented the elements " + strings.Join(sortedSnaps(exp.Multiset), ";") + " in some order")})
		}
	}
	if exp.Acc != nil {
		es, _ := elemsOf(o.Globals["acc"])
		a, b := sortedSnaps(es), sortedSnaps(exp.Acc)
		if exp.AccOrder {
			a, b = nil, nil
			for _, e := range es {
				a = append(a, snapC(e))
			}
			for _, e := range exp.Acc {
				b = append(b, snapC(e))
			}
		}
		if strings.Join(a, ";") != strings.Join(b, ";") {
			fails = append(fails, fail{sig("value-mismatch"), what("fn was invoked with " + strings.Join(a, ";") + ", documented " + strings.Join(b, ";"))})
		}
	}
	return fails, obs, info
}
