package main

// Oracle table for module "text", written from docs/stdlib-text.md: every
// documented function -> documented signature -> the Go function the
// documentation describes (the descriptions are the godoc sentences of
// package strings / strconv / regexp).

import (
	"regexp"
	"strconv"
	"strings"

	"github.com/d5/tengo/v2"
)

func pS(n string) P      { return P{N: n, T: tString, A: "S"} }
func pSa(n, a string) P  { return P{N: n, T: tString, A: a} }
func pI(n, a string) P   { return P{N: n, T: tInt, A: a} }
func pIo(n, a string) P  { return P{N: n, T: tInt, A: a, Opt: true} }
func pSo(n, a string) P  { return P{N: n, T: tString, A: a, Opt: true} }
func pF(n string) P      { return P{N: n, T: tFloat, A: "F"} }
func pT(n string) P      { return P{N: n, T: tTime, A: "T"} }
func ss(a, b string) []P { return []P{pS(a), pS(b)} }

// my own small adapter family (independent of stdlib/func_typedefs.go)
func refSSS(f func(string, string) string) func([]interface{}) R {
	return func(a []interface{}) R { return rS(f(aS(a, 0), aS(a, 1))) }
}
func refSSB(f func(string, string) bool) func([]interface{}) R {
	return func(a []interface{}) R { return rB(f(aS(a, 0), aS(a, 1))) }
}
func refSSI(f func(string, string) int) func([]interface{}) R {
	return func(a []interface{}) R { return rI(int64(f(aS(a, 0), aS(a, 1)))) }
}
func refSSSs(f func(string, string) []string) func([]interface{}) R {
	return func(a []interface{}) R { return rSs(f(aS(a, 0), aS(a, 1))) }
}
func refSSISs(f func(string, string, int) []string) func([]interface{}) R {
	return func(a []interface{}) R { return rSs(f(aS(a, 0), aS(a, 1), aI(a, 2))) }
}
func refSS(f func(string) string) func([]interface{}) R {
	return func(a []interface{}) R { return rS(f(aS(a, 0))) }
}

// matchGroups renders one match (a FindStringSubmatchIndex result) the way the
// documentation describes it: an array of {text, begin, end} maps. ok=false
// when a group did not participate in the match (the documentation does not
// say what such a group looks like).
func matchGroups(s string, m []int) (tengo.Object, bool) {
	arr := &tengo.Array{}
	for i := 0; i+1 < len(m); i += 2 {
		if m[i] < 0 || m[i+1] < 0 {
			return nil, false
		}
		arr.Value = append(arr.Value, &tengo.ImmutableMap{Value: map[string]tengo.Object{
			"text":  &tengo.String{Value: s[m[i]:m[i+1]]},
			"begin": &tengo.Int{Value: int64(m[i])},
			"end":   &tengo.Int{Value: int64(m[i+1])},
		}})
	}
	return arr, true
}

// refFind: find(text[, count]) on a compiled expression.
func refFind(re *regexp.Regexp, s string, hasCount bool, count int) R {
	if !hasCount {
		// pinned: without count the first match only, still wrapped in an outer array
		m := re.FindStringSubmatchIndex(s)
		if m == nil {
			return rU()
		}
		g, ok := matchGroups(s, m)
		if !ok {
			return rUndef()
		}
		return R{V: &tengo.Array{Value: []tengo.Object{g}}}
	}
	ms := re.FindAllStringSubmatchIndex(s, count)
	if ms == nil {
		return rU()
	}
	out := &tengo.Array{}
	for _, m := range ms {
		g, ok := matchGroups(s, m)
		if !ok {
			return rUndef()
		}
		out.Value = append(out.Value, g)
	}
	return R{V: out}
}

func refSplit(re *regexp.Regexp, s string, hasCount bool, count int) R {
	if !hasCount {
		count = -1 // pinned: without count, all substrings
	}
	return rSs(re.Split(s, count))
}

// padRef models pad_left/pad_right from their documentation only: "a copy of
// s padded on the left/right with the contents of pad_with to length pad_len;
// white space if pad_with is not specified". Where the documentation does not
// determine the result (pad string empty, or the gap is not a whole number of
// pad strings) only the invariants are required.
func padRef(left bool) func([]interface{}) R {
	return func(a []interface{}) R {
		s, n := aS(a, 0), aI(a, 1)
		pad := " "
		if len(a) > 2 {
			pad = aS(a, 2)
		}
		if len(s) >= n {
			return rS(s)
		}
		gap := n - len(s)
		if pad == "" {
			return R{Undef: true}
		}
		if gap%len(pad) == 0 {
			if left {
				return rS(strings.Repeat(pad, gap/len(pad)) + s)
			}
			return rS(s + strings.Repeat(pad, gap/len(pad)))
		}
		return R{Undef: true, Check: func(got tengo.Object) string {
			g, ok := got.(*tengo.String)
			if !ok {
				return "" // an error is acceptable here
			}
			if len(g.Value) != n {
				return "padded length is not pad_len"
			}
			if left && !strings.HasSuffix(g.Value, s) || !left && !strings.HasPrefix(g.Value, s) {
				return "padded string does not contain s at the far end"
			}
			return ""
		}}
	}
}

func isCallable(o tengo.Object) bool { return o != nil && o.CanCall() }

func textSpecs() []*Spec {
	compile := func(p string) (*regexp.Regexp, bool) {
		re, err := regexp.Compile(p)
		return re, err == nil
	}
	return []*Spec{
		{Mod: "text", Fn: "re_match", Go: "regexp.MatchString", Ps: []P{pSa("pattern", "PAT"), pS("text")},
			Ref: func(a []interface{}) R {
				m, err := regexp.MatchString(aS(a, 0), aS(a, 1))
				if err != nil {
					return rErr()
				}
				return rB(m)
			}},
		{Mod: "text", Fn: "re_find", Go: "regexp.(*Regexp).FindAllStringSubmatchIndex", Ps: []P{pSa("pattern", "PAT"), pS("text"), pIo("count", "COUNT")},
			Ref: func(a []interface{}) R {
				re, ok := compile(aS(a, 0))
				if !ok {
					return rErr()
				}
				if len(a) == 2 {
					return refFind(re, aS(a, 1), false, 0)
				}
				return refFind(re, aS(a, 1), true, aI(a, 2))
			}},
		{Mod: "text", Fn: "re_replace", Go: "regexp.(*Regexp).ReplaceAllString", Ps: []P{pSa("pattern", "PAT"), pS("text"), pSa("repl", "REPL")},
			Ref: func(a []interface{}) R {
				re, ok := compile(aS(a, 0))
				if !ok {
					return rErr()
				}
				return rS(re.ReplaceAllString(aS(a, 1), aS(a, 2)))
			}},
		{Mod: "text", Fn: "re_split", Go: "regexp.(*Regexp).Split", Ps: []P{pSa("pattern", "PAT"), pS("text"), pIo("count", "COUNT")},
			Ref: func(a []interface{}) R {
				re, ok := compile(aS(a, 0))
				if !ok {
					return rErr()
				}
				if len(a) == 2 {
					return refSplit(re, aS(a, 1), false, 0)
				}
				return refSplit(re, aS(a, 1), true, aI(a, 2))
			}},
		{Mod: "text", Fn: "re_compile", Go: "regexp.Compile", Ps: []P{pSa("pattern", "PAT")},
			Ref: func(a []interface{}) R {
				if _, ok := compile(aS(a, 0)); !ok {
					return rErr()
				}
				return R{Check: func(got tengo.Object) string {
					var m map[string]tengo.Object
					switch x := got.(type) {
					case *tengo.ImmutableMap:
						m = x.Value
					case *tengo.Map:
						m = x.Value
					default:
						return "re_compile did not return a Regexp object (map of methods)"
					}
					for _, k := range []string{"match", "find", "replace", "split"} {
						if !isCallable(m[k]) {
							return "Regexp object lacks callable method " + k
						}
					}
					return ""
				}}
			}},
		// Regexp object methods (docs: section "Regexp")
		{Mod: "text", Fn: "Regexp.match", Method: "match", Go: "regexp.(*Regexp).MatchString", Ps: []P{pSa("pattern", "PATV"), pS("text")},
			Ref: func(a []interface{}) R {
				re, ok := compile(aS(a, 0))
				if !ok {
					return rErr()
				}
				return rB(re.MatchString(aS(a, 1)))
			}},
		{Mod: "text", Fn: "Regexp.find", Method: "find", Go: "regexp.(*Regexp).FindAllStringSubmatchIndex", Ps: []P{pSa("pattern", "PATV"), pS("text"), pIo("count", "COUNT")},
			Ref: func(a []interface{}) R {
				re, ok := compile(aS(a, 0))
				if !ok {
					return rErr()
				}
				if len(a) == 2 {
					return refFind(re, aS(a, 1), false, 0)
				}
				return refFind(re, aS(a, 1), true, aI(a, 2))
			}},
		{Mod: "text", Fn: "Regexp.replace", Method: "replace", Go: "regexp.(*Regexp).ReplaceAllString", Ps: []P{pSa("pattern", "PATV"), pS("src"), pSa("repl", "REPL")},
			Ref: func(a []interface{}) R {
				re, ok := compile(aS(a, 0))
				if !ok {
					return rErr()
				}
				return rS(re.ReplaceAllString(aS(a, 1), aS(a, 2)))
			}},
		{Mod: "text", Fn: "Regexp.split", Method: "split", Go: "regexp.(*Regexp).Split", Ps: []P{pSa("pattern", "PATV"), pS("text"), pIo("count", "COUNT")},
			Ref: func(a []interface{}) R {
				re, ok := compile(aS(a, 0))
				if !ok {
					return rErr()
				}
				if len(a) == 2 {
					return refSplit(re, aS(a, 1), false, 0)
				}
				return refSplit(re, aS(a, 1), true, aI(a, 2))
			}},

		{Mod: "text", Fn: "compare", Go: "strings.Compare", Ps: ss("a", "b"), Ref: refSSI(strings.Compare)},
		{Mod: "text", Fn: "contains", Go: "strings.Contains", Ps: ss("s", "substr"), Ref: refSSB(strings.Contains)},
		{Mod: "text", Fn: "contains_any", Go: "strings.ContainsAny", Ps: ss("s", "chars"), Ref: refSSB(strings.ContainsAny)},
		{Mod: "text", Fn: "count", Go: "strings.Count", Ps: ss("s", "substr"), Ref: refSSI(strings.Count)},
		{Mod: "text", Fn: "equal_fold", Go: "strings.EqualFold", Ps: ss("s", "t"), Ref: refSSB(strings.EqualFold)},
		{Mod: "text", Fn: "fields", Go: "strings.Fields", Ps: []P{pS("s")},
			Ref: func(a []interface{}) R { return rSs(strings.Fields(aS(a, 0))) }},
		{Mod: "text", Fn: "has_prefix", Go: "strings.HasPrefix", Ps: ss("s", "prefix"), Ref: refSSB(strings.HasPrefix)},
		{Mod: "text", Fn: "has_suffix", Go: "strings.HasSuffix", Ps: ss("s", "suffix"), Ref: refSSB(strings.HasSuffix)},
		{Mod: "text", Fn: "index", Go: "strings.Index", Ps: ss("s", "substr"), Ref: refSSI(strings.Index)},
		{Mod: "text", Fn: "index_any", Go: "strings.IndexAny", Ps: ss("s", "chars"), Ref: refSSI(strings.IndexAny)},
		{Mod: "text", Fn: "join", Go: "strings.Join", Ps: []P{{N: "arr", T: tStrArr, A: "SA"}, pSa("sep", "SEP")},
			Ref: func(a []interface{}) R { return rS(strings.Join(aSs(a, 0), aS(a, 1))) }},
		{Mod: "text", Fn: "last_index", Go: "strings.LastIndex", Ps: ss("s", "substr"), Ref: refSSI(strings.LastIndex)},
		{Mod: "text", Fn: "last_index_any", Go: "strings.LastIndexAny", Ps: ss("s", "chars"), Ref: refSSI(strings.LastIndexAny)},
		{Mod: "text", Fn: "repeat", Go: "strings.Repeat", Ps: []P{pS("s"), pI("count", "COUNT")},
			Ref: func(a []interface{}) R { return rS(strings.Repeat(aS(a, 0), aI(a, 1))) }},
		{Mod: "text", Fn: "replace", Go: "strings.Replace", Ps: []P{pS("s"), pSa("old", "SUB"), pSa("new", "SUB"), pI("n", "COUNT")},
			Ref: func(a []interface{}) R { return rS(strings.Replace(aS(a, 0), aS(a, 1), aS(a, 2), aI(a, 3))) }},
		{Mod: "text", Fn: "substr", Go: "s[lower:upper]", Ps: []P{pS("s"), pI("lower", "COUNT"), pIo("upper", "COUNT")},
			Ref: func(a []interface{}) R {
				s, lo := aS(a, 0), aI(a, 1)
				hi := len(s) // pinned: upper defaults to len(s)
				if len(a) > 2 {
					hi = aI(a, 2)
				}
				return rS(s[lo:hi]) // panics (=> outside the domain) unless 0 <= lo <= hi <= len(s)
			}},
		{Mod: "text", Fn: "split", Go: "strings.Split", Ps: ss("s", "sep"), Ref: refSSSs(strings.Split)},
		{Mod: "text", Fn: "split_after", Go: "strings.SplitAfter", Ps: ss("s", "sep"), Ref: refSSSs(strings.SplitAfter)},
		{Mod: "text", Fn: "split_after_n", Go: "strings.SplitAfterN", Ps: []P{pS("s"), pSa("sep", "SUB"), pI("n", "COUNT")}, Ref: refSSISs(strings.SplitAfterN)},
		{Mod: "text", Fn: "split_n", Go: "strings.SplitN", Ps: []P{pS("s"), pSa("sep", "SUB"), pI("n", "COUNT")}, Ref: refSSISs(strings.SplitN)},
		{Mod: "text", Fn: "title", Go: "strings.Title", Ps: []P{pS("s")}, Ref: refSS(strings.Title)},
		{Mod: "text", Fn: "to_lower", Go: "strings.ToLower", Ps: []P{pS("s")}, Ref: refSS(strings.ToLower)},
		{Mod: "text", Fn: "to_title", Go: "strings.ToTitle", Ps: []P{pS("s")}, Ref: refSS(strings.ToTitle)},
		{Mod: "text", Fn: "to_upper", Go: "strings.ToUpper", Ps: []P{pS("s")}, Ref: refSS(strings.ToUpper)},
		{Mod: "text", Fn: "pad_left", Go: "(documented behaviour; no Go function)", Ps: []P{pS("s"), pI("pad_len", "COUNT"), pSo("pad_with", "PAD")}, Ref: padRef(true)},
		{Mod: "text", Fn: "pad_right", Go: "(documented behaviour; no Go function)", Ps: []P{pS("s"), pI("pad_len", "COUNT"), pSo("pad_with", "PAD")}, Ref: padRef(false)},
		{Mod: "text", Fn: "trim", Go: "strings.Trim", Ps: ss("s", "cutset"), Ref: refSSS(strings.Trim)},
		{Mod: "text", Fn: "trim_left", Go: "strings.TrimLeft", Ps: ss("s", "cutset"), Ref: refSSS(strings.TrimLeft)},
		{Mod: "text", Fn: "trim_prefix", Go: "strings.TrimPrefix", Ps: ss("s", "prefix"), Ref: refSSS(strings.TrimPrefix)},
		{Mod: "text", Fn: "trim_right", Go: "strings.TrimRight", Ps: ss("s", "cutset"), Ref: refSSS(strings.TrimRight)},
		{Mod: "text", Fn: "trim_space", Go: "strings.TrimSpace", Ps: []P{pS("s")}, Ref: refSS(strings.TrimSpace)},
		{Mod: "text", Fn: "trim_suffix", Go: "strings.TrimSuffix", Ps: ss("s", "suffix"), Ref: refSSS(strings.TrimSuffix)},

		{Mod: "text", Fn: "atoi", Go: "strconv.Atoi (= ParseInt(s, 10, 0))", Ps: []P{pSa("str", "NUMS")},
			Ref: func(a []interface{}) R {
				n, err := strconv.ParseInt(aS(a, 0), 10, 0)
				if err != nil {
					return rErr()
				}
				return rI(int64(int(n)))
			}},
		{Mod: "text", Fn: "format_bool", Go: "strconv.FormatBool", Ps: []P{{N: "b", T: tBool, A: "B"}},
			Ref: func(a []interface{}) R { return rS(strconv.FormatBool(aB(a, 0))) }},
		{Mod: "text", Fn: "format_float", Go: "strconv.FormatFloat", Ps: []P{pF("f"), pSa("fmt", "FMTCH"), pI("prec", "PREC"), pI("bits", "FBITS")},
			Ref: func(a []interface{}) R {
				f := aS(a, 1)
				if len(f) == 0 {
					return R{Undef: true, OutOfDomain: true} // FormatFloat takes a format byte: there is none
				}
				if len(f) != 1 {
					for i := 0; i < len(f); i++ { // (a panic of FormatFloat with any of the bytes => out of domain)
						strconv.FormatFloat(aF(a, 0), f[i], aI(a, 2), aI(a, 3))
					}
					return rUndef() // more than one byte: which one is used is not documented
				}
				return rS(strconv.FormatFloat(aF(a, 0), f[0], aI(a, 2), aI(a, 3)))
			}},
		{Mod: "text", Fn: "format_int", Go: "strconv.FormatInt", Ps: []P{pI("i", "INTV"), pI("base", "BASE")},
			Ref: func(a []interface{}) R { return rS(strconv.FormatInt(aI64(a, 0), aI(a, 1))) }},
		{Mod: "text", Fn: "itoa", Go: "strconv.Itoa (= FormatInt(i, 10))", Ps: []P{pI("i", "INTV")},
			Ref: func(a []interface{}) R { return rS(strconv.FormatInt(aI64(a, 0), 10)) }},
		{Mod: "text", Fn: "parse_bool", Go: "strconv.ParseBool", Ps: []P{pSa("s", "NUMS")},
			Ref: func(a []interface{}) R {
				b, err := strconv.ParseBool(aS(a, 0))
				if err != nil {
					return rErr()
				}
				return rB(b)
			}},
		{Mod: "text", Fn: "parse_float", Go: "strconv.ParseFloat", Ps: []P{pSa("s", "NUMS"), pI("bits", "PBITS")},
			Ref: func(a []interface{}) R {
				f, err := strconv.ParseFloat(aS(a, 0), aI(a, 1))
				if err != nil {
					return rErr()
				}
				return rF(f)
			}},
		{Mod: "text", Fn: "parse_int", Go: "strconv.ParseInt", Ps: []P{pSa("s", "NUMS"), pI("base", "BASE"), pI("bits", "IBITS")},
			Ref: func(a []interface{}) R {
				n, err := strconv.ParseInt(aS(a, 0), aI(a, 1), aI(a, 2))
				if err != nil {
					return rErr()
				}
				return rI(n)
			}},
		{Mod: "text", Fn: "quote", Go: "strconv.Quote", Ps: []P{pS("s")}, Ref: refSS(strconv.Quote)},
		{Mod: "text", Fn: "unquote", Go: "strconv.Unquote", Ps: []P{pSa("s", "QS")},
			Ref: func(a []interface{}) R {
				s, err := strconv.Unquote(aS(a, 0))
				if err != nil {
					return rErr()
				}
				return rS(s)
			}},
	}
}
