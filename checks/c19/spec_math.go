package main

// Oracle table for modules "math", "base64", "hex", written from
// docs/stdlib-math.md, docs/stdlib-base64.md, docs/stdlib-hex.md.

import (
	"encoding/base64"
	"encoding/hex"
	"math"

	"github.com/d5/tengo/v2"
)

func mathSpecs() []*Spec {
	var out []*Spec
	cF := func(name string, v float64) {
		out = append(out, &Spec{Mod: "math", Fn: name, IsConst: true, Const: &tengo.Float{Value: v}, Go: "math constant"})
	}
	cI := func(name string, v int64) {
		out = append(out, &Spec{Mod: "math", Fn: name, IsConst: true, Const: &tengo.Int{Value: v}, Go: "math constant"})
	}
	// constants, names exactly as documented
	cF("e", math.E)
	cF("pi", math.Pi)
	cF("phi", math.Phi)
	cF("sqrt2", math.Sqrt2)
	cF("sqrtE", math.SqrtE)
	cF("sprtPi", math.SqrtPi) // documented spelling
	cF("sqrtPhi", math.SqrtPhi)
	cF("ln2", math.Ln2)
	cF("log2E", math.Log2E)
	cF("ln10", math.Ln10)
	cF("ln10E", math.Log10E) // documented spelling
	cF("maxFloat32", math.MaxFloat32)
	cF("smallestNonzeroFloat32", math.SmallestNonzeroFloat32)
	cF("maxFloat64", math.MaxFloat64)
	cF("smallestNonzeroFloat64", math.SmallestNonzeroFloat64)
	cI("maxInt", math.MaxInt)
	cI("minInt", math.MinInt)
	cI("maxInt8", math.MaxInt8)
	cI("minInt8", math.MinInt8)
	cI("maxInt16", math.MaxInt16)
	cI("minInt16", math.MinInt16)
	cI("maxInt32", math.MaxInt32)
	cI("minInt32", math.MinInt32)
	cI("maxInt64", math.MaxInt64)
	cI("minInt64", math.MinInt64)

	f1 := func(name, gofn string, f func(float64) float64) {
		out = append(out, &Spec{Mod: "math", Fn: name, Go: gofn, Ps: []P{pF("x")},
			Ref: func(a []interface{}) R { return rF(f(aF(a, 0))) }})
	}
	f2 := func(name, gofn string, p1, p2 string, f func(float64, float64) float64) {
		out = append(out, &Spec{Mod: "math", Fn: name, Go: gofn, Ps: []P{pF(p1), pF(p2)},
			Ref: func(a []interface{}) R { return rF(f(aF(a, 0), aF(a, 1))) }})
	}
	f1("abs", "math.Abs", math.Abs)
	f1("acos", "math.Acos", math.Acos)
	f1("acosh", "math.Acosh", math.Acosh)
	f1("asin", "math.Asin", math.Asin)
	f1("asinh", "math.Asinh", math.Asinh)
	f1("atan", "math.Atan", math.Atan)
	f2("atan2", "math.Atan2", "y", "x", math.Atan2)
	f1("atanh", "math.Atanh", math.Atanh)
	f1("cbrt", "math.Cbrt", math.Cbrt)
	f1("ceil", "math.Ceil", math.Ceil)
	f2("copysign", "math.Copysign", "x", "y", math.Copysign)
	f1("cos", "math.Cos", math.Cos)
	f1("cosh", "math.Cosh", math.Cosh)
	f2("dim", "math.Dim", "x", "y", math.Dim)
	f1("erf", "math.Erf", math.Erf)
	f1("erfc", "math.Erfc", math.Erfc)
	f1("exp", "math.Exp", math.Exp)
	f1("exp2", "math.Exp2", math.Exp2)
	f1("expm1", "math.Expm1", math.Expm1)
	f1("floor", "math.Floor", math.Floor)
	f1("gamma", "math.Gamma", math.Gamma)
	f2("hypot", "math.Hypot", "p", "q", math.Hypot)
	out = append(out, &Spec{Mod: "math", Fn: "ilogb", Go: "math.Ilogb", Ps: []P{pF("x")},
		Ref: func(a []interface{}) R { return rI(int64(math.Ilogb(aF(a, 0)))) }})
	out = append(out, &Spec{Mod: "math", Fn: "inf", Go: "math.Inf", Ps: []P{pI("sign", "MINT")},
		Ref: func(a []interface{}) R { return rF(math.Inf(aI(a, 0))) }})
	out = append(out, &Spec{Mod: "math", Fn: "is_inf", Go: "math.IsInf", Ps: []P{pF("f"), pI("sign", "MINT")},
		Ref: func(a []interface{}) R { return rB(math.IsInf(aF(a, 0), aI(a, 1))) }})
	out = append(out, &Spec{Mod: "math", Fn: "is_nan", Go: "math.IsNaN", Ps: []P{pF("f")},
		Ref: func(a []interface{}) R { return rB(math.IsNaN(aF(a, 0))) }})
	f1("j0", "math.J0", math.J0)
	f1("j1", "math.J1", math.J1)
	out = append(out, &Spec{Mod: "math", Fn: "jn", Go: "math.Jn", Ps: []P{pI("n", "MINT"), pF("x")},
		Ref: func(a []interface{}) R { return rF(math.Jn(aI(a, 0), aF(a, 1))) }})
	out = append(out, &Spec{Mod: "math", Fn: "ldexp", Go: "math.Ldexp", Ps: []P{pF("frac"), pI("exp", "MINT")},
		Ref: func(a []interface{}) R { return rF(math.Ldexp(aF(a, 0), aI(a, 1))) }})
	f1("log", "math.Log", math.Log)
	f1("log10", "math.Log10", math.Log10)
	f1("log1p", "math.Log1p", math.Log1p)
	f1("log2", "math.Log2", math.Log2)
	f1("logb", "math.Logb", math.Logb)
	f2("max", "math.Max", "x", "y", math.Max)
	f2("min", "math.Min", "x", "y", math.Min)
	f2("mod", "math.Mod", "x", "y", math.Mod)
	out = append(out, &Spec{Mod: "math", Fn: "nan", Go: "math.NaN", Ps: nil,
		Ref: func(a []interface{}) R { return rF(math.NaN()) }})
	f2("nextafter", "math.Nextafter", "x", "y", math.Nextafter)
	f2("pow", "math.Pow", "x", "y", math.Pow)
	out = append(out, &Spec{Mod: "math", Fn: "pow10", Go: "math.Pow10", Ps: []P{pI("n", "MINT")},
		Ref: func(a []interface{}) R { return rF(math.Pow10(aI(a, 0))) }})
	f2("remainder", "math.Remainder", "x", "y", math.Remainder)
	out = append(out, &Spec{Mod: "math", Fn: "signbit", Go: "math.Signbit", Ps: []P{pF("x")},
		Ref: func(a []interface{}) R { return rB(math.Signbit(aF(a, 0))) }})
	f1("sin", "math.Sin", math.Sin)
	f1("sinh", "math.Sinh", math.Sinh)
	f1("sqrt", "math.Sqrt", math.Sqrt)
	f1("tan", "math.Tan", math.Tan)
	f1("tanh", "math.Tanh", math.Tanh)
	f1("trunc", "math.Trunc", math.Trunc)
	f1("y0", "math.Y0", math.Y0)
	f1("y1", "math.Y1", math.Y1)
	out = append(out, &Spec{Mod: "math", Fn: "yn", Go: "math.Yn", Ps: []P{pI("n", "MINT"), pF("x")},
		Ref: func(a []interface{}) R { return rF(math.Yn(aI(a, 0), aF(a, 1))) }})
	return out
}

func codecSpecs() []*Spec {
	var out []*Spec
	enc := func(mod, name, gofn, alph string, f func([]byte) string) {
		out = append(out, &Spec{Mod: mod, Fn: name, Go: gofn, Ps: []P{{N: "src", T: tBytes, A: "Y"}},
			Ref: func(a []interface{}) R { return rS(f(aY(a, 0))) }})
	}
	dec := func(mod, name, gofn, alph string, f func(string) ([]byte, error)) {
		out = append(out, &Spec{Mod: mod, Fn: name, Go: gofn, Ps: []P{pSa("s", alph)},
			Ref: func(a []interface{}) R {
				b, err := f(aS(a, 0))
				if err != nil {
					return rErr()
				}
				return rY(b)
			}})
	}
	enc("base64", "encode", "base64.StdEncoding.EncodeToString", "Y", base64.StdEncoding.EncodeToString)
	dec("base64", "decode", "base64.StdEncoding.DecodeString", "B64", base64.StdEncoding.DecodeString)
	enc("base64", "raw_encode", "base64.RawStdEncoding.EncodeToString", "Y", base64.RawStdEncoding.EncodeToString)
	dec("base64", "raw_decode", "base64.RawStdEncoding.DecodeString", "B64", base64.RawStdEncoding.DecodeString)
	enc("base64", "url_encode", "base64.URLEncoding.EncodeToString", "Y", base64.URLEncoding.EncodeToString)
	dec("base64", "url_decode", "base64.URLEncoding.DecodeString", "B64", base64.URLEncoding.DecodeString)
	enc("base64", "raw_url_encode", "base64.RawURLEncoding.EncodeToString", "Y", base64.RawURLEncoding.EncodeToString)
	dec("base64", "raw_url_decode", "base64.RawURLEncoding.DecodeString", "B64", base64.RawURLEncoding.DecodeString)
	enc("hex", "encode", "hex.EncodeToString", "Y", hex.EncodeToString)
	dec("hex", "decode", "hex.DecodeString", "HEX", hex.DecodeString)
	return out
}
