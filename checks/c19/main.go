// C19: standard-library wrappers compute what the wrapped Go functions compute.
//
// Bounded exhaustive enumeration: for every function and constant that
// docs/stdlib-{text,math,base64,hex,enum,times}.md document, an independent
// oracle table (spec_*.go, enum.go: name -> documented signature -> direct Go
// call) is evaluated on ALL argument tuples over typed alphabets (alpha.go) at
// every documented arity, plus arity-1 / arity+1, plus one wrong-typed value
// of every other runtime type at every position. Every case is executed by
// calling the real module's function object; a systematic subset (every k-th
// tuple, all arity / wrong-type / constant cases) is also executed through a
// real script that imports the module. enum (a source module) runs through
// scripts only.
package main

import (
	"errors"
	"fmt"
	"hash/fnv"
	"runtime/debug"
	"sort"
	"strings"
	"sync"

	"github.com/d5/tengo/v2"
	"github.com/d5/tengo/v2/stdlib"
	"verif/engine/report"
	"verif/engine/tg"
)

// Case is one element of the explored space.
type Case struct {
	Mod  string   `json:"mod"`
	Fn   string   `json:"fn"`
	Cat  string   `json:"cat"` // tuple | arity- | arity+ | wrong@<pos> | const
	Args []string `json:"args"`
}

func (c Case) key() string { return c.Mod + "." + c.Fn + "(" + strings.Join(c.Args, ", ") + ")" }

type fail struct{ sig, what string }

type caseInfo struct {
	calls, scripts        int64
	validated, nontrivial bool
	outside               bool // the documentation does not determine the result
	outOfDomain           bool // the underlying Go function panics: outside the claim
	strict                bool // convertible wrong-typed argument rejected with a type error
	class                 string
}

var (
	modNames  = []string{"text", "math", "base64", "hex", "times", "enum"}
	modules   = stdlib.GetModuleMap(modNames...)
	specIndex = map[string]*Spec{}
	allSpecs  []*Spec
)

func init() {
	for _, l := range [][]*Spec{textSpecs(), mathSpecs(), codecSpecs(), timesSpecs()} {
		for _, s := range l {
			allSpecs = append(allSpecs, s)
			specIndex[s.Mod+"."+s.Fn] = s
		}
	}
}

// ---- execution on the real implementation ----------------------------------

type outc struct {
	kind string // value | error | panic | internal
	obj  tengo.Object
	err  error
	text string
}

func (o outc) String() string {
	switch o.kind {
	case "value":
		return "value " + snapC(o.obj)
	case "error":
		return "run-time error: " + tg.FirstLine(o.err.Error())
	}
	return o.kind + ": " + tg.FirstLine(o.text)
}

func attrsOf(mod string) map[string]tengo.Object {
	bm := modules.GetBuiltinModule(mod)
	if bm == nil {
		return nil
	}
	return bm.Attrs
}

func callObj(fn tengo.Object, args []tengo.Object) outc {
	if fn == nil {
		return outc{kind: "error", err: errors.New("not callable: undefined (function missing from the module)")}
	}
	if !fn.CanCall() {
		return outc{kind: "error", err: errors.New("not callable: " + fn.TypeName())}
	}
	obj, err := fn.Call(args...)
	if err != nil {
		return outc{kind: "error", err: err}
	}
	return outc{kind: "value", obj: obj}
}

func execDirect(s *Spec, args []Arg) (o outc, calls int64) {
	defer func() {
		if p := recover(); p != nil {
			o = outc{kind: "panic", text: fmt.Sprintf("%v\n%s", p, debug.Stack())}
		}
	}()
	attrs := attrsOf(s.Mod)
	objs := make([]tengo.Object, len(args))
	for i, a := range args {
		objs[i] = a.Mk()
	}
	if s.IsConst {
		v, ok := attrs[s.Fn]
		if !ok {
			return outc{kind: "value", obj: tengo.UndefinedValue}, 1
		}
		return outc{kind: "value", obj: v}, 1
	}
	if s.Method != "" {
		calls = 1
		rc := callObj(attrs["re_compile"], objs[:1])
		if rc.kind != "value" {
			return rc, calls
		}
		var m map[string]tengo.Object
		switch x := rc.obj.(type) {
		case *tengo.Error:
			return rc, calls
		case *tengo.ImmutableMap:
			m = x.Value
		case *tengo.Map:
			m = x.Value
		default:
			return outc{kind: "error", err: errors.New("re_compile returned " + rc.obj.TypeName())}, calls
		}
		calls = 2
		return callObj(m[s.Method], objs[1:]), calls
	}
	return callObj(attrs[s.Fn], objs), 1
}

func execScript(s *Spec, args []Arg) outc {
	in := map[string]tengo.Object{}
	names := make([]string, len(args))
	for i, a := range args {
		names[i] = fmt.Sprintf("a%d", i)
		in[names[i]] = a.Mk()
	}
	var src string
	switch {
	case s.IsConst:
		src = fmt.Sprintf("m := import(%q)\nout := m.%s\n", s.Mod, s.Fn)
	case s.Method != "":
		src = fmt.Sprintf("m := import(%q)\nre := m.re_compile(a0)\nout := is_error(re) ? re : re.%s(%s)\n",
			s.Mod, s.Method, strings.Join(names[1:], ", "))
	default:
		src = fmt.Sprintf("m := import(%q)\nout := m.%s(%s)\n", s.Mod, s.Fn, strings.Join(names, ", "))
	}
	r := tg.Run(src, tg.Opts{Inputs: in, Modules: modules})
	switch r.Class {
	case "ok":
		return outc{kind: "value", obj: r.Globals["out"]}
	case "runtime-error":
		return outc{kind: "error", err: r.Err}
	case "panic":
		return outc{kind: "panic", text: r.ErrText}
	}
	return outc{kind: "internal", text: r.ErrText}
}

// ---- the oracle ---------------------------------------------------------------

func render(s *Spec, args []Arg) string {
	var ls []string
	for _, a := range args {
		ls = append(ls, a.Label)
	}
	if s.IsConst {
		return s.Mod + "." + s.Fn
	}
	if s.Method != "" && len(ls) > 0 {
		return fmt.Sprintf("%s.re_compile(%s).%s(%s)", s.Mod, ls[0], s.Method, strings.Join(ls[1:], ", "))
	}
	return fmt.Sprintf("%s.%s(%s)", s.Mod, s.Fn, strings.Join(ls, ", "))
}

func judge(s *Spec, args []Arg, o outc, via string) (fails []fail, info caseInfo) {
	sig := func(class string) string { return "mod=" + s.Mod + "/fn=" + s.Fn + "/" + class }
	add := func(class, msg string) {
		fails = append(fails, fail{sig(class), fmt.Sprintf("%s [%s] gave %s; %s", render(s, args), via, o.String(), msg)})
	}
	if o.kind == "internal" {
		return []fail{{"internal/script-does-not-compile", render(s, args) + ": " + o.text}}, info
	}
	panicked := func() bool {
		if o.kind == "panic" {
			info.class = s.Mod + "/panic"
			add("panic", "a panic reached the caller of the module function on an input inside the domain of the underlying Go function")
			return true
		}
		return false
	}
	if s.IsConst {
		if panicked() {
			return
		}
		info.validated, info.nontrivial = true, true
		info.class = s.Mod + "/const"
		if snapC(o.obj) != snapC(s.Const) {
			add("value-mismatch", "documented constant is "+snapC(s.Const))
		}
		return
	}
	n := len(args)
	if n < s.minArity() || n > s.maxArity() {
		if panicked() {
			return
		}
		info.validated = true
		info.class = s.Mod + "/arity/" + o.kind
		if o.kind != "error" || !(errors.Is(o.err, tengo.ErrWrongNumArguments) ||
			strings.Contains(o.err.Error(), "wrong number of arguments")) {
			add("arity", fmt.Sprintf("documented arity is %d..%d: a wrong-number-of-arguments run-time error is required", s.minArity(), s.maxArity()))
		}
		return
	}
	vals := make([]interface{}, n)
	worst := cExact
	for i, a := range args {
		v, st := coerce(s.Ps[i].T, a.Mk())
		vals[i] = v
		if st > worst {
			worst = st
		}
	}
	switch worst {
	case cNot:
		if panicked() {
			return
		}
		info.validated = true
		info.class = s.Mod + "/not-convertible/" + o.kind
		if o.kind != "error" {
			add("wrong-type-accepted", "an argument has a type with no documented conversion to the parameter type: a run-time error is required")
		}
		return
	case cUnspec:
		if panicked() {
			return
		}
		info.class = s.Mod + "/conversion-unspecified/" + o.kind
		return
	}
	cat := "right-typed"
	if worst == cConv {
		cat = "coerced"
	}
	r := callRef(s, vals)
	if r.OutOfDomain {
		// the Go function itself panics on these arguments: outside the claim
		info.outOfDomain = true
		info.class = s.Mod + "/" + cat + "/out-of-domain/" + o.kind
		return
	}
	if panicked() {
		return
	}
	if r.Undef {
		info.outside = true
		info.class = s.Mod + "/" + cat + "/doc-undetermined/" + o.kind
		if r.Check != nil && o.kind == "value" {
			if msg := r.Check(o.obj); msg != "" {
				add("value-mismatch", msg)
			}
		}
		return
	}
	info.validated = true
	if o.kind == "error" {
		info.class = s.Mod + "/" + cat + "/rt-error"
		var te tengo.ErrInvalidArgumentType
		if worst == cConv && (errors.As(o.err, &te) || strings.Contains(o.err.Error(), "invalid type for argument")) {
			// a wrong-typed but convertible argument may be rejected with a type error (strict parameter)
			info.class = s.Mod + "/coerced/type-error"
			info.strict = true
		} else if r.Err {
			add("error-mismatch", "the Go function returns an error here: an error VALUE is required, not a run-time error")
		} else {
			add("error-mismatch", "the Go function returns "+snapC(r.V))
		}
		return
	}
	if r.Err {
		info.class = s.Mod + "/" + cat + "/go-error"
		if _, ok := o.obj.(*tengo.Error); !ok {
			add("error-mismatch", "the Go function returns an error here: an error value is required")
		}
		return
	}
	info.nontrivial = true
	info.class = s.Mod + "/" + cat + "/go-value"
	if r.Check != nil {
		if msg := r.Check(o.obj); msg != "" {
			add("value-mismatch", msg)
		}
		return
	}
	if got, want := snapC(o.obj), snapC(r.V); got != want {
		if _, isErr := o.obj.(*tengo.Error); isErr {
			add("error-mismatch", "the Go function ("+s.Go+") returns "+want)
		} else {
			add("value-mismatch", "the Go function ("+s.Go+") returns "+want)
		}
	}
	return
}

func runCase(c Case, script bool) (fails []fail, obs string, info caseInfo) {
	if c.Mod == "enum" {
		return runEnumCase(c, modules)
	}
	s := specIndex[c.Mod+"."+c.Fn]
	if s == nil {
		return []fail{{"internal/unknown-function", c.key()}}, "", info
	}
	args := make([]Arg, len(c.Args))
	for i, l := range c.Args {
		a, ok := resolve(l)
		if !ok {
			return []fail{{"internal/bad-label", l}}, "", info
		}
		args[i] = a
	}
	if c.Cat == "limit" { // replay of a limit-phase case (sequential by construction)
		f, ob, li := limitCase(s, args)
		info.calls = li.calls
		return f, ob, info
	}
	o, calls := execDirect(s, args)
	fails, info = judge(s, args, o, "direct call")
	info.calls = calls
	obs = "direct: " + o.String()
	if script {
		so := execScript(s, args)
		f2, i2 := judge(s, args, so, "script")
		info.calls++
		info.scripts++
		obs += " | script: " + so.String()
		seen := map[string]bool{}
		for _, f := range fails {
			seen[f.sig] = true
		}
		for _, f := range f2 {
			if !seen[f.sig] {
				fails = append(fails, f)
			}
		}
		if i2.class != info.class {
			info.class += "|script:" + i2.class
		}
	}
	return
}

// ---- enumeration ------------------------------------------------------------------

type plan struct {
	spec     *Spec
	dims     [][][]Arg // per arity (min..max): alphabet of every position
	counts   []int
	nTuples  int
	nDerived int // tuples whose further string arguments are derived from the subject
	extra    []Case
	stride   int
}

func alphaArgs(name string) []Arg {
	var out []Arg
	for _, l := range alpha(name) {
		out = append(out, mustResolve(l))
	}
	return out
}

func decode(dims [][]Arg, idx int) []Arg {
	out := make([]Arg, len(dims))
	for i := len(dims) - 1; i >= 0; i-- {
		n := len(dims[i])
		out[i] = dims[i][idx%n]
		idx /= n
	}
	return out
}

func labels(args []Arg) []string {
	out := make([]string, len(args))
	for i, a := range args {
		out[i] = a.Label
	}
	return out
}

func buildPlan(s *Spec, scriptCap int) *plan {
	p := &plan{spec: s}
	if s.IsConst {
		p.extra = []Case{{Mod: s.Mod, Fn: s.Fn, Cat: "const"}}
		p.stride = 1
		return p
	}
	for ar := s.minArity(); ar <= s.maxArity(); ar++ {
		var d [][]Arg
		n := 1
		for i := 0; i < ar; i++ {
			a := alphaArgs(s.Ps[i].A)
			d = append(d, a)
			n *= len(a)
		}
		p.dims = append(p.dims, d)
		p.counts = append(p.counts, n)
		p.nTuples += n
	}
	full := p.dims[len(p.dims)-1]
	nFull := p.counts[len(p.counts)-1]
	p.addDerived()
	p.stride = (p.nTuples + scriptCap - 1) / scriptCap
	if p.stride < 1 {
		p.stride = 1
	}
	// base tuples (at the maximal arity): the first and the last tuple for
	// which the Go reference returns a non-error value
	okAt := func(i int) bool {
		args := decode(full, i)
		vals := make([]interface{}, len(args))
		for k, a := range args {
			vals[k], _ = coerce(s.Ps[k].T, a.Mk())
		}
		r := callRef(s, vals)
		return !r.Undef && !r.Err
	}
	var bases [][]Arg
	for i := 0; i < nFull; i++ {
		if okAt(i) {
			bases = append(bases, decode(full, i))
			break
		}
	}
	for i := nFull - 1; i >= 0; i-- {
		if okAt(i) {
			bases = append(bases, decode(full, i))
			break
		}
	}
	if len(bases) == 0 {
		bases = append(bases, decode(full, 0))
	}
	seen := map[string]bool{}
	addExtra := func(c Case) {
		if k := c.Cat + c.key(); !seen[k] {
			seen[k] = true
			p.extra = append(p.extra, c)
		}
	}
	fixed := 0 // leading arguments that belong to another function (the pattern of a Regexp method)
	if s.Method != "" {
		fixed = 1
	}
	for _, b := range bases {
		if m := s.minArity() - 1; m >= fixed {
			addExtra(Case{Mod: s.Mod, Fn: s.Fn, Cat: "arity-", Args: labels(b[:m])})
		}
		addExtra(Case{Mod: s.Mod, Fn: s.Fn, Cat: "arity+", Args: append(labels(b), `s:"a"`)})
		for k := fixed; k < len(b); k++ {
			for _, w := range wrongVals {
				if strings.HasPrefix(w, "sa:") && s.Ps[k].T != tStrArr {
					continue
				}
				wa := mustResolve(w)
				if _, st := coerce(s.Ps[k].T, wa.Mk()); st == cExact {
					continue
				}
				ls := labels(b)
				ls[k] = w
				addExtra(Case{Mod: s.Mod, Fn: s.Fn, Cat: fmt.Sprintf("wrong@%d", k), Args: ls})
			}
		}
	}
	return p
}

// addDerived adds, for a function with a subject string (the first string
// parameter over the general alphabet "S") and further string parameters, the
// tuples in which those further arguments are RELATED to the subject (the
// subject itself, its prefixes and suffixes, first/last character, reversal,
// doubling, a permutation of its distinct characters - see derivedFrom):
// independent strings almost never satisfy old == s, "suffix made of the
// cutset's characters" and the like, which is what tells Trim / TrimRight /
// TrimSuffix, Index / IndexAny, Replace with old == s, ... apart. One block
// of tuples per (arity, non-empty subset of the further string positions,
// subject); values already in the position's own alphabet are left out, so
// no tuple is enumerated twice.
func (p *plan) addDerived() {
	s := p.spec
	subj := -1
	for i, q := range s.Ps {
		if q.T == tString && q.A == "S" {
			subj = i
			break
		}
	}
	if subj < 0 {
		return
	}
	var later []int
	for i := subj + 1; i < len(s.Ps); i++ {
		if s.Ps[i].T == tString {
			later = append(later, i)
		}
	}
	if len(later) == 0 {
		return
	}
	inAlpha := map[int]map[string]bool{}
	for _, k := range later {
		inAlpha[k] = map[string]bool{}
		for _, l := range alpha(s.Ps[k].A) {
			inAlpha[k][l] = true
		}
	}
	for ar := s.minArity(); ar <= s.maxArity(); ar++ {
		for mask := 1; mask < 1<<len(later); mask++ {
			ok := true
			for j, k := range later {
				if mask&(1<<j) != 0 && k >= ar {
					ok = false
				}
			}
			if !ok {
				continue
			}
			for _, sa := range alphaArgs(s.Ps[subj].A) {
				sv := sa.Mk().(*tengo.String).Value
				var d [][]Arg
				n := 1
				for i := 0; i < ar; i++ {
					var a []Arg
					switch {
					case i == subj:
						a = []Arg{sa}
					case isDerivedPos(later, mask, i):
						for _, l := range sL(derivedFrom(sv)...) {
							if !inAlpha[i][l] {
								a = append(a, mustResolve(l))
							}
						}
					default:
						a = alphaArgs(s.Ps[i].A)
					}
					d = append(d, a)
					n *= len(a)
				}
				if n == 0 {
					continue
				}
				p.dims = append(p.dims, d)
				p.counts = append(p.counts, n)
				p.nTuples += n
				p.nDerived += n
			}
		}
	}
}

func isDerivedPos(later []int, mask, pos int) bool {
	for j, k := range later {
		if k == pos && mask&(1<<j) != 0 {
			return true
		}
	}
	return false
}

// derivedFrom lists the strings related to s (deduplicated, in a fixed order).
func derivedFrom(s string) []string {
	var cuts []int // rune boundaries (byte offsets), incl. 0 and len(s)
	for i := range s {
		cuts = append(cuts, i)
	}
	cuts = append(cuts, len(s))
	if len(s) == 0 {
		cuts = []int{0}
	}
	var out []string
	seen := map[string]bool{}
	add := func(x string) {
		if !seen[x] {
			seen[x] = true
			out = append(out, x)
		}
	}
	add(s)
	for _, c := range cuts {
		add(s[:c]) // prefixes
	}
	for _, c := range cuts {
		add(s[c:]) // suffixes
	}
	var chars []string
	for i := 0; i+1 < len(cuts); i++ {
		chars = append(chars, s[cuts[i]:cuts[i+1]])
	}
	if len(chars) > 0 {
		add(chars[0])
		add(chars[len(chars)-1])
	}
	rev := ""
	for i := len(chars) - 1; i >= 0; i-- {
		rev += chars[i]
	}
	add(rev)
	add(s + s)
	// a permutation of the distinct characters: last occurrence first
	perm := ""
	ds := map[string]bool{}
	for i := len(chars) - 1; i >= 0; i-- {
		if !ds[chars[i]] {
			ds[chars[i]] = true
			perm += chars[i]
		}
	}
	add(perm)
	// ... rotated by one, so that it is neither a prefix nor a suffix order
	if n := len(ds); n > 2 {
		first := ""
		for i := len(chars) - 1; i >= 0 && first == ""; i-- {
			first = chars[i]
		}
		add(perm[len(first):] + first)
	}
	return out
}

func (p *plan) size() int { return p.nTuples + len(p.extra) }

func (p *plan) at(i int) (c Case, script bool) {
	if i >= p.nTuples {
		return p.extra[i-p.nTuples], true
	}
	j := i
	for k, n := range p.counts {
		if j < n {
			return Case{Mod: p.spec.Mod, Fn: p.spec.Fn, Cat: "tuple", Args: labels(decode(p.dims[k], j))}, i%p.stride == 0
		}
		j -= n
	}
	panic("c19: index out of range")
}

// hashed distinct set (the key strings themselves would cost hundreds of MB in the thorough tier)
type hset struct {
	mu [64]sync.Mutex
	m  [64]map[uint64]struct{}
}

func newHset() *hset {
	h := &hset{}
	for i := range h.m {
		h.m[i] = map[uint64]struct{}{}
	}
	return h
}
func (h *hset) add(k string) {
	f := fnv.New64a()
	f.Write([]byte(k))
	v := f.Sum64()
	s := v % 64
	h.mu[s].Lock()
	h.m[s][v] = struct{}{}
	h.mu[s].Unlock()
}
func (h *hset) len() int64 {
	var n int64
	for i := range h.m {
		n += int64(len(h.m[i]))
	}
	return n
}

func main() {
	if p := report.ReplayArg(); p != "" {
		thoroughTier = true
		rp, err := report.LoadReplay(p)
		if err != nil {
			fmt.Println("cannot load replay:", err)
			return
		}
		fmt.Printf("replay of %s: %s\n", rp.Signature, rp.What)
		for _, raw := range rp.Cases {
			var c Case
			_ = report.Recase(raw, &c)
			fails, obs, _ := runCase(c, true)
			fmt.Printf("case %s [%s]\n  observed: %s\n", c.key(), c.Cat, obs)
			for _, f := range fails {
				fmt.Printf("  FAIL %s: %s\n", f.sig, f.what)
			}
			if len(fails) == 0 {
				fmt.Println("  (no failure reproduced)")
			}
		}
		return
	}
	r := report.New("C19")
	thoroughTier = r.Thorough()
	scriptCap := r.Pick(3000, 100000)

	var plans []*plan
	var starts []int
	total := 0
	for _, s := range allSpecs {
		p := buildPlan(s, scriptCap)
		plans = append(plans, p)
		starts = append(starts, total)
		total += p.size()
	}
	enumStart := total
	ecs := enumCases(thoroughTier)
	total += len(ecs)

	distinct, nontrivial := newHset(), newHset()
	var validated int64
	var vmu sync.Mutex
	report.ParallelFor(total, func(i int) {
		var c Case
		script := true
		if i >= enumStart {
			c = ecs[i-enumStart]
		} else {
			k := sort.Search(len(starts), func(j int) bool { return starts[j] > i }) - 1
			c, script = plans[k].at(i - starts[k])
		}
		fails, obs, info := runCase(c, script)
		key := c.key()
		distinct.add(key)
		if info.nontrivial {
			nontrivial.add(key)
			r.Count("nontrivial/"+c.Mod, 1)
		}
		if info.validated {
			vmu.Lock()
			validated++
			vmu.Unlock()
			r.Count("validated/"+c.Mod, 1)
		}
		if info.outside {
			r.Count("doc-undetermined/"+c.Mod, 1)
		}
		if info.outOfDomain {
			r.Count("out-of-domain", 1)
			r.Count("out-of-domain/"+c.Mod, 1)
		}
		if info.strict {
			r.Count("convertible-argument-rejected-with-type-error/"+c.Mod+"."+c.Fn, 1)
		}
		r.Count("cases/"+c.Mod, 1)
		r.Count("module-calls", info.calls)
		r.Count("module-calls/"+c.Mod, info.calls)
		r.Count("script-runs", info.scripts)
		r.Count("cat/"+strings.SplitN(c.Cat, "@", 2)[0], 1)
		r.Outcome(info.class)
		if i%20011 == 0 {
			r.Sample(map[string]interface{}{"case": c, "observed": obs})
		}
		for _, f := range fails {
			if strings.HasPrefix(f.sig, "internal/") {
				r.Internal("%s: %s", f.sig, f.what)
				continue
			}
			r.Violation(f.sig, f.what, c)
		}
	})

	// sequential phase: nothing else runs while the package-level limits are lowered
	t0 := r.Elapsed()
	limitPhase(r, plans)
	r.Set("limit_phase_wall_s", (r.Elapsed() - t0).Seconds())

	// coverage bookkeeping: every documented name is either covered or listed with a reason
	var covered, uncovered []string
	perMod := map[string]int{}
	for _, s := range allSpecs {
		covered = append(covered, s.Mod+"."+s.Fn)
		perMod[s.Mod]++
	}
	for _, fn := range []string{"all", "any", "chunk", "at", "each", "filter", "find", "find_key", "map", "key", "value"} {
		covered = append(covered, "enum."+fn)
		perMod["enum"]++
	}
	for k, why := range notCovered {
		uncovered = append(uncovered, k+": "+why)
	}
	sort.Strings(covered)
	sort.Strings(uncovered)
	r.Set("functions_covered", covered)
	r.Set("functions_not_covered", uncovered)
	r.Set("documented_names_covered_per_module", perMod)
	// members of the real modules that the documentation does not name (information only)
	var undocumented []string
	for _, m := range modNames {
		for name := range attrsOf(m) {
			if specIndex[m+"."+name] == nil && notCovered[m+"."+name] == "" {
				undocumented = append(undocumented, m+"."+name)
			}
		}
	}
	sort.Strings(undocumented)
	r.Set("module_members_not_in_docs", undocumented)
	goFns := map[string]string{}
	for _, s := range allSpecs {
		if !s.IsConst {
			goFns[s.Mod+"."+s.Fn] = s.Go
		}
	}
	r.Set("oracle_table", goFns)
	alph := map[string]int{}
	for name := range alphas {
		alph[name] = len(alpha(name))
	}
	r.Set("alphabet_sizes", alph)
	nDer := 0
	for _, p := range plans {
		nDer += p.nDerived
	}
	r.Set("tuples_with_arguments_derived_from_the_subject", nDer)
	r.Set("derived_arguments", "for every function with a subject string (first string parameter over alphabet S) and further string parameters: each further string argument also ranges over {s, prefixes of s, suffixes of s, first char, last char, reverse(s), s+s, two permutations of the distinct characters of s}, singly and jointly")
	r.Set("script_subset", fmt.Sprintf("every k-th argument tuple of a function, k = ceil(tuples/%d); all arity, wrong-type and constant cases; all enum cases", scriptCap))

	r.Assume("the name -> Go function table is written from docs/stdlib-*.md (the godoc sentences quoted there identify the function); the module tables in /repo/stdlib were not used for it")
	r.Assume("wrong-typed arguments (docs/runtime-types.md): a value the table converts to the parameter type may EITHER be rejected with a run-time type error (the stdlib docs do not promise coercion; strict: first parameter of format_bool/format_float/format_int/parse_bool/parse_float/parse_int) OR be coerced by the table, and then the result must be the Go function's result on the coerced value; a value with no conversion ('X') must give a run-time error; function values are not in the table (no requirement but 'no panic'). The text of float/array/map/time/error -> string is the value's own String() (trusted; C10/C17)")
	r.Assume("pinned, documentation lists the parameter without saying it is optional: substr's upper (default len(s)), re_find/Regexp.find's count (first match only, still wrapped in an outer array), re_split/Regexp.split's count (default -1); pad_left/pad_right's pad_with and date's loc are documented as optional")
	r.Assume("math: the documentation annotates '=> float' for is_inf, is_nan, signbit and ilogb while the prose says 'reports whether' / 'returns true' / 'as an integer': the result type of the Go function is used (bool, int)")
	r.Assume("text.join: the documented parameter 'arr string' is read as an array of strings (prose: 'concatenates the elements of a'); base64/hex: encode(src) takes bytes, decode(s) a string (types are not annotated in the docs)")
	r.Assume("inputs on which the underlying Go function itself panics (strings.Repeat negative count, strconv.FormatInt base outside 2..36, strconv.FormatFloat bitSize not 32/64, format_float with an empty fmt string, slice bounds of substr) are outside the claim ('within the domain where the underlying Go function is defined'): counted as out-of-domain, nothing is required, not even the absence of a panic")
	r.Assume("where only the documentation leaves the result open (time_unix_nano outside 1678..2262, format_float with a multi-character fmt, pad_left/pad_right with a pad string that does not divide the gap or is empty, regexp groups that did not participate in a match) the result is not compared but 'no panic reaches the caller' is required")
	r.Assume("times.date without a location and times.unix / to_local use time.Local of this process (TZ is fixed by the environment, the clock is not read); the zone database is whatever time.LoadLocation finds, for implementation and reference alike")
	r.Assume("enum: iteration order of maps is unspecified, so results over maps are compared as 'one of' / multisets; results for an undocumented size/key/no-match are not compared")
	r.Assume("in the script path a Go panic inside a module function is converted to a run-time error by Compiled.RunContext; panics are therefore detected in the direct-call path")

	r.Finish(report.Coverage{
		States:      distinct.len(),
		Transitions: r.Counter("module-calls"),
		Validated:   validated,
		Evaluations: int64(total),
		Nontrivial:  nontrivial.len(),
		Rule:        "cases = for every documented function: all argument tuples over the typed alphabets at every documented arity, + arity-1/arity+1 and one value of every other runtime type at every position of the first and last tuple with a non-error reference result; + every documented constant; + all enum (function, x, fn) combinations. state = one (function, argument tuple); transition = one call of a module function object or one script run; validated = implementation outcome compared with the direct Go call (value, error-ness, arity error, type rejection); non-trivial = the Go reference returns a non-error value",
	})
}
