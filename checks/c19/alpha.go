package main

import (
	"math"
	"time"
)

// Argument alphabets: name -> {quick, thorough-extension}. The thorough tier
// uses quick+extension. Every alphabet is an ordered list of labels.
type alphaDef struct{ q, t []string }

var thoroughTier bool

var alphas = map[string]alphaDef{
	// general strings (first and further string parameters of the strings.* family)
	"S": {sL("", "a", "ab", "X", " ", ",", "aXbXc", " pad ", "héllo wörld", "A,B,,C", "123", "-4.5e3", "a.b", "ǆx",
		"aaa", "xxabcxx", "test.txt", "abcabc"),
		sL("%d", "(a)(b)", "abab", "true", "c", "ö", "\xff", "Xc", "\t x\n", "ß",
			"AbC", "  ", "a b  c", "\u00a0x", "İ", "ſ", "s", "K", "k")},
	// short strings for third/fourth string parameters
	"SUB": {sL("", "a", "X", " ", ",", "ab", "ö"), sL("aX", "bX", "c")},
	// pad strings
	"PAD": {sL("", " ", "0", "xy", "é"), sL("abc")},
	// regular expressions (incl. invalid ones and one with a non-participating group)
	"PAT": {sL("", "a", "X", ".", "[a-c]+", "(a)(b)", "a(X)?", "(a)|(b)", "(", `\d+`),
		sL("^", "[", "a*", "(?i)HÉ", `\s+`, "ö")},
	// the valid ones only: patterns handed to re_compile before a Regexp method is called
	// (what re_compile does with an invalid pattern is re_compile's row)
	"PATV": {sL("", "a", "X", ".", "[a-c]+", "(a)(b)", "a(X)?", "(a)|(b)", `\d+`),
		sL("^", "a*", "(?i)HÉ", `\s+`, "ö")},
	// replacement templates
	"REPL": {sL("", "-", "$1", "[$0]"), sL("${1}x", "$$", "é")},
	// counts / lengths / indices (small: these drive output sizes)
	"COUNT": {iL(0, 1, -1, 2, 3, 10, 64, -5), iL(5, 7, 11, 100)},
	// int values that are only formatted
	"INTV": {iL(0, 1, -1, 10, 64, -5, 255, math.MaxInt64, math.MinInt64), iL(1<<53+1, 35, 36, -255)},
	"BASE": {iL(2, 8, 10, 16, 36, 0, 1, 37, -1), iL(3, 35, 64)},
	"PREC": {iL(-1, 0, 1, 2, 3, 10), iL(17, 64)},
	// bit sizes
	"FBITS": {iL(64, 32, 0), iL(16, -1)},
	"PBITS": {iL(64, 32, 0), iL(16, -1, 128)},
	"IBITS": {iL(0, 8, 32, 64, 65, -1), iL(16, 1, 63)},
	// format_float format characters ("" and "ef" are not single characters)
	"FMTCH": {sL("e", "f", "g", "b", "E", "G", "x", "", "ef"), sL("X", "q", "é")},
	// numeric / boolean spellings
	"NUMS": {sL("", "0", "123", "-4", "+7", "abc", "12a", "9223372036854775807", "9223372036854775808",
		" 1", "0x1F", "1_000", "-4.5e3", "1e3", "true", "T", "False", "inf", "NaN", "1f", "z", "0b101", "017", "3.4e39"),
		sL("1e400", "-0", "TRUE", "tRUE", "0o17", "7fffffffffffffff", "128", "-129", "1p-2", "0x1p-2")},
	// quoted Go literals
	"QS": {sL(`"abc"`, `'c'`, "`raw`", `"a\nb"`, `abc`, `"`, `""`, `'ab'`, `"é"`, ""),
		sL(`"\xff"`, `'\''`, "`a\nb`", `"a`, `"\q"`)},
	"F": {fL(0, 1, -1, 0.5, 2.5, -2.5, math.NaN(), math.Inf(1), 1e10),
		fL(math.Copysign(0, -1), math.Inf(-1), 1e-10, 3, 100, 1.5, math.MaxFloat64, math.SmallestNonzeroFloat64, math.Pi, -1e10, 0.1,
			1e308, -0.5, 0.9999999999999999, 1<<53, 171.5, 720, 1e-320)},
	// int parameters of math functions (no huge values: math.Jn/Yn iterate n times)
	"MINT": {iL(0, 1, -1, 2, 3, 10, 64, -5), iL(308, 309, -324, 1023, 1024, -1075, 5)},
	"B":    {pre("b:", "true", "false"), nil},
	"Y":    {yL("", "a", "ab\xff", "\xfb\xff\xfe", "hello"), yL("\x00", "hello!", "héllo wörld")},
	"B64": {sL("", "YQ==", "YQ", "YWL_", "YWL/", "+/+/", "-_-_", "!!!", "YQ=", "aGVsbG8=", "aGVsbG8", "YWI="),
		sL("YQ==\n", "Y Q", "====", "YWJj", "-_8", "+/8", "+/8=", "-_8=")},
	"HEX": {sL("", "61", "6162ff", "6", "zz", "FF", "0x61", "6G"), sL("00", "a", "éé", "fffe")},
	"T":   {pre("t:", "zero", "unix0", "ref", "ref+", "ref-zone"), pre("t:", "y2300", "leap")},
	// durations in ns
	"DUR": {iL(0, 1, -1, 1000, int64(time.Second), int64(90*time.Minute), int64(time.Hour)+1, -5*int64(time.Second), math.MaxInt64, math.MinInt64),
		iL(int64(time.Millisecond), int64(36*time.Hour), 1500, -1500000)},
	// sleep durations in ns (kept tiny: the call really sleeps)
	"SLEEP": {iL(0, 1, -1, 2, 3, 10, 64, -5), iL(1000, math.MinInt64)},
	"MONTH": {iL(0, 1, 2, 12, 13, -1, 6), iL(3, 4, 5, 7, 8, 9, 10, 11, 100)},
	"DSTR": {sL("", "1h30m", "300ms", "-1.5h", "1", "abc", "2h45m", "1us", "1µs", "0"),
		sL("1ns", "1.5s", "+5m", "1h1m1s1ms1us1ns", "9223372036854775807ns", "9223372036854775808ns", ".5h", "1d")},
	"LOC": {sL("", "UTC", "Local", "America/New_York", "Asia/Tokyo", "Nope/Zone"), sL("Europe/London", "utc")},
	"LAYOUT": {sL("2006-01-02T15:04:05Z07:00", "2006-01-02", "3:04PM", "", "Mon Jan _2 15:04:05 2006",
		"2006-01-02 15:04:05.999999999 -0700 MST", "Jan _2 15:04:05.000", "abc"),
		sL("Mon, 02 Jan 2006 15:04:05 MST", "02 Jan 06 15:04 -0700", "Monday, 02-Jan-06 15:04:05 MST", "Jan _2 15:04:05.000000")},
	"TSTR": {sL("2009-11-10T23:00:00Z", "2009-11-10", "3:04PM", "", "garbage", "2009-11-10T23:00:00+01:00",
		"Tue Nov 10 23:00:00 2009", "2009-13-10"),
		sL("2009-11-10T23:00:00.123456789-05:00", "11:59AM", "2012-02-29", "2011-02-29")},
	// components of times.date
	// (time.LoadLocation costs ~0.15 ms under 16-way parallelism: the product is kept around 5*10^5)
	"YEAR":  {iL(2009, 1, 0, 1970, -1), iL(2012, 10000)},
	"DMON":  {iL(11, 1, 0, 12, 13), iL(2, -1)},
	"DDAY":  {iL(10, 1, 0, 31, -1), iL(29, 32)},
	"DHOUR": {iL(23, 0, 25), iL(-1)},
	"DMIN":  {iL(0, 59, -1), iL(60)},
	"DSEC":  {iL(0, 59, 61), iL(-1)},
	"DNSEC": {iL(0, 1, 999999999), iL(1000000000)},
	"DLOC":  {sL("UTC", "Asia/Tokyo", "Nope/Zone", ""), sL("Local")},
	"USEC":  {iL(0, 1, -1, 1257894000, 1<<40), iL(-62135596800, 253402300800)},
	"UNSEC": {iL(0, 1, -1, 999999999, 1000000001), iL(math.MaxInt64, math.MinInt64)},
	// add_date components
	"ADD": {iL(0, 1, -1, 2, 3, 10, 64, -5), iL(12, 31, 400)},
	// text.join arrays
	"SA":  {[]string{"sa:empty", "sa:a", "sa:abc", "sa:gaps", "isa:abc", "sa:w1", "sa:w2", "sa:w3"}, []string{"sa:utf8", "isa:empty"}},
	"SEP": {sL("", ",", " - ", "ö"), sL("a", "\n")},
}

func alpha(name string) []string {
	d, ok := alphas[name]
	if !ok {
		panic("c19: unknown alphabet " + name)
	}
	if thoroughTier {
		return append(append([]string{}, d.q...), d.t...)
	}
	return d.q
}

// one wrong-typed value per other runtime type (names from engine/val), plus
// a second string/array so that both "convertible" and "not convertible"
// strings occur at int/float positions.
var wrongVals = []string{
	"v:undefined", "v:true", "v:i3", "v:f1.5", "v:ca", "v:s-12", "v:s-ab", "v:b-a",
	"v:a-123", "v:ia-1", "v:m-a1", "v:im-a1", "v:e-x", "v:t-ref", "v:fn-user", "sa:undefelem",
}

func kindMatches(t ty, kind string) bool {
	switch t {
	case tString:
		return kind == "string"
	case tInt:
		return kind == "int"
	case tFloat:
		return kind == "float"
	case tBool:
		return kind == "bool"
	case tBytes:
		return kind == "bytes"
	case tTime:
		return kind == "time"
	}
	return false
}
