package main

// Encoder law: for every value built from int, float, string, bool, undefined,
// arrays and maps: Encode succeeds, the text is valid JSON, encoding/json reads
// it as the same data, and Decode gives back an equal value.

import (
	"bytes"
	"encoding/hex"
	gojson "encoding/json"
	"fmt"
	"math"
	"runtime/debug"
	"strings"
	"unicode/utf8"

	"github.com/d5/tengo/v2"
	tjson "github.com/d5/tengo/v2/stdlib/json"
	"verif/engine/val"
)

// VSpec describes one value of the encoder space (JSON-serialisable, replayable).
type VSpec struct {
	K    string   `json:"k"`              // scalar name, or array | imarray | map | immap
	C    []VSpec  `json:"c,omitempty"`    // children
	Keys []string `json:"keys,omitempty"` // key names (maps), parallel to C
}

type scalar struct {
	name string
	mk   func() tengo.Object
}

func si(n int64) func() tengo.Object   { return func() tengo.Object { return &tengo.Int{Value: n} } }
func sf(x float64) func() tengo.Object { return func() tengo.Object { return &tengo.Float{Value: x} } }
func ss(x string) func() tengo.Object  { return func() tengo.Object { return &tengo.String{Value: x} } }

var scalarsFull = []scalar{
	{"i:0", si(0)}, {"i:-1", si(-1)}, {"i:max", si(math.MaxInt64)}, {"i:min", si(math.MinInt64)}, {"i:2^53+1", si(1<<53 + 1)},
	{"f:0", sf(0)}, {"f:-0", sf(math.Copysign(0, -1))}, {"f:1", sf(1)}, {"f:1.5", sf(1.5)}, {"f:-2.5", sf(-2.5)},
	{"f:1e21", sf(1e21)}, {"f:1e20", sf(1e20)}, {"f:1e-7", sf(1e-7)}, {"f:1e-6", sf(1e-6)}, {"f:2^53", sf(1 << 53)},
	// exponent form with every shape of exponent: one digit, zero padded by Go (e-09), trailing zeros (e-10, e+30), three digits
	{"f:1e-9", sf(1e-9)}, {"f:1e-10", sf(1e-10)}, {"f:2.5e-10", sf(2.5e-10)}, {"f:1e30", sf(1e30)}, {"f:1e100", sf(1e100)}, {"f:1e-100", sf(1e-100)}, {"f:1e200", sf(1e200)}, {"f:-1e-20", sf(-1e-20)},
	{"f:123456789.125", sf(123456789.125)}, {"f:5e-324", sf(5e-324)}, {"f:max", sf(math.MaxFloat64)}, {"f:-max", sf(-math.MaxFloat64)},
	{"f:nan", sf(math.NaN())}, {"f:+inf", sf(math.Inf(1))}, {"f:-inf", sf(math.Inf(-1))},
	{"s:empty", ss("")}, {"s:a", ss("a")}, {"s:quote", ss(`a"b`)}, {"s:bslash", ss(`a\b`)}, {"s:bslash-u", ss(`\` + `u0041`)},
	{"s:nul", ss("\x00")}, {"s:x1f", ss("a\x1f")}, {"s:nl", ss("\n")}, {"s:tab", ss("\tb")}, {"s:cr-bs-ff", ss("\r\b\f")},
	{"s:html", ss("<>&")}, {"s:2028", ss("\u2028")}, {"s:2029", ss("a\u2029b")}, {"s:utf8", ss("é世")},
	{"s:esc-next-to-multibyte", ss("\"é\n世\\")}, {"s:4byte", ss("\U0001F600")}, {"s:del", ss("\x7f")}, {"s:slash", ss("a/b")},
	{"s:bad-utf8", ss("\xff")}, {"s:bad-utf8-surrogate", ss("a\xed\xa0\x80")},
	{"true", func() tengo.Object { return tengo.TrueValue }}, {"false", func() tengo.Object { return tengo.FalseValue }},
	{"undefined", func() tengo.Object { return tengo.UndefinedValue }},
}

var keysFull = []struct{ name, key string }{
	{"k:a", "a"}, {"k:b", "b"}, {"k:empty", ""}, {"k:quote", `q"`}, {"k:ctrl", "\n\x00"}, {"k:utf8", "é世"},
	{"k:2028", "\u2028"}, {"k:bad-utf8", "\xff"},
}

// sub-alphabet used below depth 3
var scalars3 = []string{"i:min", "f:0", "f:1.5", "f:1e21", "f:nan", "s:empty", "s:esc-next-to-multibyte", "s:utf8", "true", "undefined"}
var keys3 = []string{"k:a", "k:quote", "k:utf8"}

var scalarByName = map[string]scalar{}
var keyByName = map[string]string{}

func init() {
	for _, s := range scalarsFull {
		scalarByName[s.name] = s
	}
	for _, k := range keysFull {
		keyByName[k.name] = k.key
	}
}

// mk builds a fresh tengo value; ok=false for an unknown spec.
func (v VSpec) mk() (tengo.Object, bool) {
	switch v.K {
	case "array", "imarray":
		xs := make([]tengo.Object, 0, len(v.C))
		for _, c := range v.C {
			o, ok := c.mk()
			if !ok {
				return nil, false
			}
			xs = append(xs, o)
		}
		if v.K == "array" {
			return &tengo.Array{Value: xs}, true
		}
		return &tengo.ImmutableArray{Value: xs}, true
	case "map", "immap":
		m := map[string]tengo.Object{}
		if len(v.Keys) != len(v.C) {
			return nil, false
		}
		for i, c := range v.C {
			o, ok := c.mk()
			k, ok2 := keyOf(v.Keys[i])
			if !ok || !ok2 {
				return nil, false
			}
			m[k] = o
		}
		if v.K == "map" {
			return &tengo.Map{Value: m}, true
		}
		return &tengo.ImmutableMap{Value: m}, true
	}
	if strings.HasPrefix(v.K, "str:") { // composed string, hex of its bytes
		b, err := hex.DecodeString(v.K[4:])
		if err != nil {
			return nil, false
		}
		return &tengo.String{Value: string(b)}, true
	}
	s, ok := scalarByName[v.K]
	if !ok {
		return nil, false
	}
	return s.mk(), true
}

func keyOf(name string) (string, bool) {
	if strings.HasPrefix(name, "key:") { // composed key, hex of its bytes
		b, err := hex.DecodeString(name[4:])
		return string(b), err == nil
	}
	k, ok := keyByName[name]
	return k, ok
}

// strAtoms: atom alphabet of the compositional string space (part B-str).
var strAtoms = []string{"a", `"`, `\`, "\n", "\x00", "\x1f", "\x7f", "<", "\u00e9", "\u4e16", "\U0001F600", "\u2028", "\xff", "\xf0\x9f"}

// strSpace: all distinct strings of <= maxLen atoms, in enumeration order.
func strSpace(maxLen int) []string {
	seen := map[string]bool{}
	var out []string
	na := int64(len(strAtoms))
	for l := 0; l <= maxLen; l++ {
		total := int64(1)
		for i := 0; i < l; i++ {
			total *= na
		}
		for idx := int64(0); idx < total; idx++ {
			parts := make([]string, l)
			x := idx
			for p := l - 1; p >= 0; p-- {
				parts[p] = strAtoms[x%na]
				x /= na
			}
			s := strings.Join(parts, "")
			if !seen[s] {
				seen[s] = true
				out = append(out, s)
			}
		}
	}
	return out
}

// strContexts: the fixed containers a composed string is placed in.
var strContexts = []string{"top", "array[s]", "imarray[i:min,s]", "map{a:s}", "map{s:true}", "immap{s:array[s]}"}

func strValue(ctx int, str string) VSpec {
	sv := VSpec{K: "str:" + hex.EncodeToString([]byte(str))}
	key := "key:" + hex.EncodeToString([]byte(str))
	switch ctx {
	case 1:
		return VSpec{K: "array", C: []VSpec{sv}}
	case 2:
		return VSpec{K: "imarray", C: []VSpec{{K: "i:min"}, sv}}
	case 3:
		return VSpec{K: "map", Keys: []string{"k:a"}, C: []VSpec{sv}}
	case 4:
		return VSpec{K: "map", Keys: []string{key}, C: []VSpec{{K: "true"}}}
	case 5:
		return VSpec{K: "immap", Keys: []string{key}, C: []VSpec{{K: "array", C: []VSpec{sv}}}}
	}
	return sv
}

// inFixedLists: the string occurs among the fixed scalars or keys (then a value
// built from it may coincide with one of the depth-1/2/3 spaces).
func inFixedLists(str string) bool {
	for _, sc := range scalarsFull {
		if x, ok := sc.mk().(*tengo.String); ok && x.Value == str {
			return true
		}
	}
	for _, k := range keysFull {
		if k.key == str {
			return true
		}
	}
	return false
}

func (v VSpec) isScalar() bool {
	return len(v.K) > 0 && v.K != "array" && v.K != "imarray" && v.K != "map" && v.K != "immap"
}

func (v VSpec) depth() int {
	if v.isScalar() {
		return 1
	}
	d := 1
	for _, c := range v.C {
		if x := c.depth() + 1; x > d {
			d = x
		}
	}
	if d == 1 {
		d = 2 // empty container
	}
	return d
}

func (v VSpec) String() string {
	if v.isScalar() {
		return v.K
	}
	var b bytes.Buffer
	b.WriteString(v.K + "(")
	for i, c := range v.C {
		if i > 0 {
			b.WriteString(",")
		}
		if len(v.Keys) > 0 {
			b.WriteString(v.Keys[i] + "=")
		}
		b.WriteString(c.String())
	}
	b.WriteString(")")
	return b.String()
}

// traits of the value that restrict the claim
func traits(o tengo.Object) (nonFinite, badUTF8, wideMap bool) {
	var walk func(o tengo.Object)
	walkMap := func(m map[string]tengo.Object) {
		if len(m) > 1 {
			wideMap = true
		}
		for k, e := range m {
			if !utf8.ValidString(k) {
				badUTF8 = true
			}
			walk(e)
		}
	}
	walk = func(o tengo.Object) {
		switch x := o.(type) {
		case *tengo.Float:
			if math.IsNaN(x.Value) || math.IsInf(x.Value, 0) {
				nonFinite = true
			}
		case *tengo.String:
			if !utf8.ValidString(x.Value) {
				badUTF8 = true
			}
		case *tengo.Array:
			for _, e := range x.Value {
				walk(e)
			}
		case *tengo.ImmutableArray:
			for _, e := range x.Value {
				walk(e)
			}
		case *tengo.Map:
			walkMap(x.Value)
		case *tengo.ImmutableMap:
			walkMap(x.Value)
		}
	}
	walk(o)
	return
}

// space: all containers of width <= 2 over a child list and a key list, in the
// four container kinds. Index layout per kind: width 0, width 1, width 2.
type space struct {
	ch   []VSpec
	keys []string
}

func (s *space) seqSize() int64 { n := int64(len(s.ch)); return 1 + n + n*n }
func (s *space) mapSize() int64 {
	n, k := int64(len(s.ch)), int64(len(s.keys))
	return 1 + k*n + k*(k-1)/2*n*n
}
func (s *space) size() int64 { return 2*s.seqSize() + 2*s.mapSize() }

func (s *space) at(i int64) VSpec {
	n := int64(len(s.ch))
	kind := "array"
	if i >= s.seqSize() {
		i -= s.seqSize()
		kind = "imarray"
		if i >= s.seqSize() {
			i -= s.seqSize()
			kind = "map"
			if i >= s.mapSize() {
				i -= s.mapSize()
				kind = "immap"
			}
		}
	}
	if kind == "array" || kind == "imarray" {
		switch {
		case i == 0:
			return VSpec{K: kind}
		case i <= n:
			return VSpec{K: kind, C: []VSpec{s.ch[i-1]}}
		}
		i -= 1 + n
		return VSpec{K: kind, C: []VSpec{s.ch[i/n], s.ch[i%n]}}
	}
	k := int64(len(s.keys))
	switch {
	case i == 0:
		return VSpec{K: kind}
	case i <= k*n:
		i--
		return VSpec{K: kind, Keys: []string{s.keys[i/n]}, C: []VSpec{s.ch[i%n]}}
	}
	i -= 1 + k*n
	pair := i / (n * n)
	i %= n * n
	// pair index -> (a<b)
	var a, b int64
	for a = 0; a < k; a++ {
		cnt := k - 1 - a
		if pair < cnt {
			b = a + 1 + pair
			break
		}
		pair -= cnt
	}
	return VSpec{K: kind, Keys: []string{s.keys[a], s.keys[b]}, C: []VSpec{s.ch[i/n], s.ch[i%n]}}
}

func leaves(names []string) []VSpec {
	var r []VSpec
	for _, n := range names {
		r = append(r, VSpec{K: n})
	}
	return r
}

func spaceD2() *space {
	var sn, kn []string
	for _, s := range scalarsFull {
		sn = append(sn, s.name)
	}
	for _, k := range keysFull {
		kn = append(kn, k.name)
	}
	return &space{ch: leaves(sn), keys: kn}
}

// spaceD3: containers over (scalars3 + every depth-2 container over scalars3/keys3).
func spaceD3() *space {
	d2r := &space{ch: leaves(scalars3), keys: keys3}
	ch := leaves(scalars3)
	for i := int64(0); i < d2r.size(); i++ {
		ch = append(ch, d2r.at(i))
	}
	return &space{ch: ch, keys: keys3}
}

func safeEncode(o tengo.Object) (b []byte, err error, pan string) {
	defer func() {
		if r := recover(); r != nil {
			pan = fmt.Sprintf("%v\n%s", r, debug.Stack())
		}
	}()
	b, err = tjson.Encode(o)
	return
}

// nodeCat: class of an original node, used to blame invalid output.
func nodeCat(o tengo.Object) string {
	switch x := o.(type) {
	case *tengo.Int:
		return "int"
	case *tengo.Float:
		return floatCat(x.Value)
	case *tengo.String:
		return strCat(x.Value)
	case *tengo.Bool:
		return "bool"
	case *tengo.Undefined:
		return "undefined"
	case *tengo.Array:
		return fmt.Sprintf("array/width=%d", len(x.Value))
	case *tengo.ImmutableArray:
		return fmt.Sprintf("imarray/width=%d", len(x.Value))
	case *tengo.Map:
		return fmt.Sprintf("map/width=%d", len(x.Value)) + badKey(x.Value)
	case *tengo.ImmutableMap:
		return fmt.Sprintf("immap/width=%d", len(x.Value)) + badKey(x.Value)
	}
	return tname(o)
}

// badKey: if some key alone does not encode to valid JSON, name its class.
func badKey(m map[string]tengo.Object) string {
	cls := ""
	for k := range m {
		b, err, pan := safeEncode(&tengo.Map{Value: map[string]tengo.Object{k: tengo.TrueValue}})
		if pan != "" || err != nil || !gojson.Valid(b) {
			if c := "/key=" + strCat(k); cls == "" || c < cls {
				cls = c
			}
		}
	}
	return cls
}

// blameInvalid: smallest sub-value whose own encoding is not valid JSON.
func blameInvalid(o tengo.Object) string {
	var kids []tengo.Object
	addMap := func(m map[string]tengo.Object) {
		for _, k := range sortedKeys(m) {
			kids = append(kids, m[k])
		}
	}
	switch x := o.(type) {
	case *tengo.Array:
		kids = x.Value
	case *tengo.ImmutableArray:
		kids = x.Value
	case *tengo.Map:
		addMap(x.Value)
	case *tengo.ImmutableMap:
		addMap(x.Value)
	}
	for _, k := range kids {
		b, err, pan := safeEncode(k)
		if pan != "" || err != nil || !gojson.Valid(b) {
			return blameInvalid(k)
		}
	}
	return nodeCat(o)
}

func sortedKeys(m map[string]tengo.Object) []string {
	ks := make([]string, 0, len(m))
	for k := range m {
		ks = append(ks, k)
	}
	// insertion sort (tiny maps)
	for i := 1; i < len(ks); i++ {
		for j := i; j > 0 && ks[j] < ks[j-1]; j-- {
			ks[j], ks[j-1] = ks[j-1], ks[j]
		}
	}
	return ks
}

type encRes struct {
	fails      []fail
	class      string
	internal   string
	b          []byte
	err        error
	inClaim    bool
	compared   bool // encoding/json read the text back and the data was compared
	equalsTrue bool // round trip differs structurally but the implementation's Equals says equal
	calls      int64
}

// checkEncode is the complete encoder oracle for one value.
func checkEncode(v tengo.Object, desc string) (res encRes) {
	nonFinite, badUTF8, _ := traits(v)
	b, err, pan := safeEncode(v)
	res.b, res.err = b, err
	res.calls = 1
	if pan != "" {
		res.class = "panic"
		res.fails = append(res.fails, fail{"encode/panic/" + normPanic(pan), fmt.Sprintf("json.Encode(%s) panicked: %s", desc, firstLine(pan))})
		return
	}
	if nonFinite {
		// NaN/Inf are not JSON-representable: outside the claim. Must not panic;
		// if something is emitted without error it must at least be JSON.
		if err != nil {
			res.class = "non-finite:error"
			return
		}
		res.class = "non-finite:encoded"
		if !gojson.Valid(b) {
			res.fails = append(res.fails, fail{"encode/invalid-json/non-finite-float", fmt.Sprintf("json.Encode(%s) = %q without error", desc, clipB(b))})
		}
		return
	}
	res.inClaim = !badUTF8
	if err != nil {
		res.class = "error"
		res.fails = append(res.fails, fail{"encode/unexpected-error/" + nodeCat(v), fmt.Sprintf("json.Encode(%s) failed: %v", desc, err)})
		return
	}
	if !gojson.Valid(b) {
		res.class = "invalid-json"
		res.fails = append(res.fails, fail{"encode/invalid-json/" + blameInvalid(v), fmt.Sprintf("json.Encode(%s) = %q is not valid JSON", desc, clipB(b))})
		return
	}
	res.class = "ok"
	if badUTF8 {
		res.class = "ok(bad-utf8:compared-modulo-U+FFFD)"
	}
	// encoding/json reads the same data
	g, gerr := goRead(b)
	if gerr != nil {
		res.internal = fmt.Sprintf("reference cannot read valid text %q: %v", clipB(b), gerr)
		return
	}
	res.compared = true
	if m := cmpGT(g, v, false, b); m != nil {
		res.class = "go-reads-differently"
		res.fails = append(res.fails, fail{"encode/go-reads-differently/" + m.class, fmt.Sprintf("json.Encode(%s) = %q: %s", desc, clipB(b), m.detail)})
	}
	// round trip through the implementation's own decoder
	back, derr, dpan := safeDecode(b)
	res.calls++
	if dpan != "" {
		res.class = "roundtrip-panic"
		res.fails = append(res.fails, fail{"roundtrip/decode-panic/" + normPanic(dpan), fmt.Sprintf("Decode(Encode(%s)=%q) panicked", desc, clipB(b))})
		return
	}
	if derr != nil {
		res.class = "roundtrip-decode-error"
		res.fails = append(res.fails, fail{"roundtrip/decode-error/" + errCtx(derr.Error(), true), fmt.Sprintf("Decode(Encode(%s)=%q) failed: %v", desc, clipB(b), derr)})
		return
	}
	exp := canon(v)
	se, sb := val.Snapshot(exp), val.Snapshot(back)
	m := cmpTT(exp, back)
	if se != sb {
		cls := "unclassified"
		detail := se + " came back as " + sb
		if m != nil {
			cls, detail = m.class, m.detail
		}
		res.class = "roundtrip-differs/" + cls
		res.fails = append(res.fails, fail{"roundtrip/" + cls, fmt.Sprintf("Decode(Encode(%s)=%q): %s", desc, clipB(b), clip(detail))})
		func() {
			defer func() { _ = recover() }()
			res.equalsTrue = exp.Equals(back)
		}()
	} else if m != nil {
		res.internal = "comparer and snapshot disagree on " + desc + ": " + m.class
	}
	return
}
