package main

// Supplementary decoder families (explicit, fully enumerated, deterministic):
// what the 26-symbol alphabet cannot spell within its length bound.

import (
	"strings"
)

// numberFamily: boundary number literals x embeddings.
func numberFamily() [][]byte {
	ints := []string{"0", "1", "2147483648", "9007199254740992", "9007199254740993",
		"9223372036854775806", "9223372036854775807", "9223372036854775808", "9223372036854775809",
		"18446744073709551615", "18446744073709551616", "10000000000000000000", "99999999999999999999",
		"1000000000000000000000000000000"}
	mant := []string{"1", "1.5", "0.1", "0.0", "0", "9007199254740993", "1.7976931348623157", "1.7976931348623159",
		"4.9", "2.4703282292062327", "2.4703282292062328", "0.000001", "123456789.125", "5", "9223372036854775808.0"}
	exps := []string{"", "e0", "E0", "e+0", "e-0", "E-0", "e1", "E1", "e21", "e-7", "e308", "E+308", "e309", "e-323", "e-324", "e-325",
		"e999", "E999", "e-999", "e00308", "e+00000000000000000001"}
	odd := []string{".5", "1.", "1.e1", "1e", "1e+", "1e-", "+1", "0x10", "1_000", "Infinity", "NaN", "-Infinity", "-", "--1", "01", "-01", "00",
		"1.5.5", "1e1e1", "1e1.5", "0e", "-.5", "1,", "１"}
	var lits []string
	for _, s := range ints {
		lits = append(lits, s, "-"+s)
	}
	for _, m := range mant {
		for _, e := range exps {
			lits = append(lits, m+e, "-"+m+e)
		}
	}
	lits = append(lits, odd...)
	var out [][]byte
	for _, l := range lits {
		out = append(out, []byte(l), []byte("["+l+"]"), []byte(`{"a":`+l+`}`), []byte("\t\n "+l+"\r "), []byte("["+l+","+l+"]"))
	}
	return out
}

// nestingFamily: deep nesting around encoding/json's depth limit.
func nestingFamily() [][]byte {
	var out [][]byte
	ns := []int{}
	for n := 1; n <= 40; n++ {
		ns = append(ns, n)
	}
	ns = append(ns, 100, 1000, 9999, 10000, 10001, 10002, 20000)
	for _, n := range ns {
		out = append(out,
			[]byte(strings.Repeat("[", n)+strings.Repeat("]", n)),
			[]byte(strings.Repeat("[", n)+"1"+strings.Repeat("]", n)),
			[]byte(strings.Repeat(`{"a":`, n)+"null"+strings.Repeat("}", n)),
			[]byte(strings.Repeat(`[{"a":`, n)+`"x"`+strings.Repeat("}]", n)),
			[]byte(strings.Repeat("[", n)),
			[]byte(strings.Repeat("[", n)+strings.Repeat("]", n-1)),
			[]byte(strings.Repeat("[", n)+strings.Repeat("]", n+1)),
		)
	}
	return out
}

// byteTemplates: every byte value 0..255 is substituted for the '@' of every template.
var byteTemplates = []string{
	"@", "@1", "1@", "1@1", "[@1]", "[1@]", "[1@1]", "[1,@1]", `"@"`, `"a@"`, `"\@"`, `"\@0041"`, `"\u@041"`, `"\u0@41"`, `"\u00@1"`, `"\u004@"`,
	`"\uD83D\uDE0@"`, `"\uD83D\u@E00"`, `"\uD83D\@DE00"`, `"\uD83D@uDE00"`, `"\uD8@D\uDE00"`,
	`{"a"@:1}`, `{"a":@1}`, `{"a":1@}`, `{@"a":1}`, `{"a":1@"b":2}`, `{"a":1,@"b":2}`,
	"-@", "0@", "1.@", "1.5@", "1e@", "1e+@", "1e5@", "-0@", "t@ue", "tru@", "true@", "@rue", "f@lse", "fals@", "n@ll", "nul@", "null@", "[]@", "{}@", `""@`,
}

func byteFamily(thorough bool) [][]byte {
	var out [][]byte
	for _, t := range byteTemplates {
		i := strings.IndexByte(t, '@')
		for b := 0; b < 256; b++ {
			x := append([]byte(t[:i]), byte(b))
			x = append(x, t[i+1:]...)
			out = append(out, x)
		}
	}
	// every 2-byte string body
	for a := 0; a < 256; a++ {
		for b := 0; b < 256; b++ {
			out = append(out, []byte{'"', byte(a), byte(b), '"'})
		}
	}
	if thorough {
		// every 3-byte body behind the multi-byte lead bytes with special rules, and every 4-byte body F0/F4 xx xx 80
		for _, l := range []byte{0xE0, 0xE1, 0xED, 0xEF, 0xF0, 0xF4, 0xF5} {
			for a := 0; a < 256; a++ {
				for b := 0; b < 256; b++ {
					out = append(out, []byte{'"', l, byte(a), byte(b), '"'})
				}
			}
		}
		for _, l := range []byte{0xF0, 0xF4} {
			for a := 0; a < 256; a++ {
				for b := 0; b < 256; b++ {
					out = append(out, []byte{'"', l, byte(a), byte(b), 0x80, '"'})
				}
			}
		}
	}
	return out
}
