package main

// Independent comparers: Go data tree (as read by encoding/json with UseNumber)
// vs. tengo object tree, and tengo tree vs. tengo tree for the round trip.
// Nothing here calls the implementation's own String/Equals.

import (
	gojson "encoding/json"
	"fmt"
	"math"
	"math/big"
	"sort"
	"strconv"
	"strings"
	"unicode/utf8"

	"github.com/d5/tengo/v2"
)

type mism struct{ class, detail string }

func tname(o tengo.Object) string {
	switch o.(type) {
	case nil:
		return "nil"
	case *tengo.Int:
		return "int"
	case *tengo.Float:
		return "float"
	case *tengo.String:
		return "string"
	case *tengo.Bool:
		return "bool"
	case *tengo.Undefined:
		return "undefined"
	case *tengo.Array:
		return "array"
	case *tengo.ImmutableArray:
		return "imarray"
	case *tengo.Map:
		return "map"
	case *tengo.ImmutableMap:
		return "immap"
	}
	return fmt.Sprintf("%T", o)
}

func gname(g interface{}) string {
	switch g.(type) {
	case nil:
		return "null"
	case bool:
		return "bool"
	case gojson.Number:
		return "number"
	case string:
		return "string"
	case []interface{}:
		return "array"
	case map[string]interface{}:
		return "object"
	}
	return fmt.Sprintf("%T", g)
}

func isFloatLit(lit string) (bool, byte) {
	for i := 0; i < len(lit); i++ {
		if c := lit[i]; c == '.' || c == 'e' || c == 'E' {
			return true, c
		}
	}
	return false, 0
}

// coerce: what any JSON reader makes of a Go string: every invalid UTF-8 byte
// becomes U+FFFD (identity on valid UTF-8).
func coerce(s string) string {
	if utf8.ValidString(s) {
		return s
	}
	return string([]rune(s))
}

// strClassInput: coarse class of the string syntax used in a decoder input.
func strClassInput(in []byte) string {
	s := string(in)
	for i := 0; i+3 < len(s); i++ {
		if s[i] == '\\' && s[i+1] == 'u' && (s[i+2] == 'd' || s[i+2] == 'D') && strings.IndexByte("89abcdefABCDEF", s[i+3]) >= 0 {
			return "string-surrogate-escape"
		}
	}
	switch {
	case strings.Contains(s, `\u`):
		return "string-u-escape"
	case strings.Contains(s, `\`):
		return "string-simple-escape"
	case !utf8.ValidString(s):
		return "string-invalid-utf8"
	}
	for i := 0; i < len(s); i++ {
		if s[i] >= 0x80 {
			return "string-multibyte"
		}
	}
	return "string-ascii"
}

// strCat: class of a string VALUE (encoder side).
func strCat(s string) string {
	if !utf8.ValidString(s) {
		return "string-invalid-utf8"
	}
	ctrl, qb, hi, sep, html, del := false, false, false, false, false, false
	for _, r := range s {
		switch {
		case r < 0x20:
			ctrl = true
		case r == '"' || r == '\\':
			qb = true
		case r == 0x2028 || r == 0x2029:
			sep = true
		case r == '<' || r == '>' || r == '&':
			html = true
		case r == 0x7f:
			del = true
		case r >= 0x80:
			hi = true
		}
	}
	switch {
	case ctrl && hi, qb && hi:
		return "string-escape-next-to-multibyte"
	case ctrl:
		return "string-control-char"
	case qb:
		return "string-quote-or-backslash"
	case sep:
		return "string-u2028-u2029"
	case hi:
		return "string-multibyte"
	case html:
		return "string-html-chars"
	case del:
		return "string-del"
	case s == "":
		return "string-empty"
	}
	return "string-ascii"
}

// cmpGT compares the data encoding/json read (g) with a tengo tree (t).
// litTyping=true (decoder law): a number must be Int iff its literal has no
// '.', 'e', 'E', else Float, with the value strconv gives for the literal;
// containers must be the mutable Array/Map. litTyping=false (encoder law): t is
// the ORIGINAL value; a number literal must denote exactly the Int / the Float.
func cmpGT(g interface{}, t tengo.Object, litTyping bool, in []byte) *mism {
	switch gv := g.(type) {
	case nil:
		if _, ok := t.(*tengo.Undefined); !ok {
			return &mism{"type/null-vs-" + tname(t), "encoding/json reads null"}
		}
	case bool:
		if _, ok := t.(*tengo.Bool); !ok {
			return &mism{"type/bool-vs-" + tname(t), "encoding/json reads a bool"}
		}
		if (t == tengo.TrueValue) != gv || (t == tengo.FalseValue) == gv {
			return &mism{"bool", fmt.Sprintf("encoding/json reads %v", gv)}
		}
	case string:
		ts, ok := t.(*tengo.String)
		if !ok {
			return &mism{"type/string-vs-" + tname(t), "encoding/json reads a string"}
		}
		want := ts.Value
		cls := strCat(ts.Value)
		if litTyping {
			cls = strClassInput(in)
		} else {
			want = coerce(want)
		}
		if want != gv {
			return &mism{cls, fmt.Sprintf("encoding/json reads %q, tengo has %q", gv, ts.Value)}
		}
	case gojson.Number:
		return cmpNumber(string(gv), t, litTyping)
	case []interface{}:
		var xs []tengo.Object
		switch a := t.(type) {
		case *tengo.Array:
			xs = a.Value
		case *tengo.ImmutableArray:
			if litTyping {
				return &mism{"type/array-vs-imarray", "decoder produced an immutable array"}
			}
			xs = a.Value
		default:
			return &mism{"type/array-vs-" + tname(t), "encoding/json reads an array"}
		}
		if len(xs) != len(gv) {
			return &mism{"array-length", fmt.Sprintf("encoding/json reads %d elements, tengo has %d", len(gv), len(xs))}
		}
		for i := range gv {
			if m := cmpGT(gv[i], xs[i], litTyping, in); m != nil {
				return m
			}
		}
	case map[string]interface{}:
		var mv map[string]tengo.Object
		switch a := t.(type) {
		case *tengo.Map:
			mv = a.Value
		case *tengo.ImmutableMap:
			if litTyping {
				return &mism{"type/object-vs-immap", "decoder produced an immutable map"}
			}
			mv = a.Value
		default:
			return &mism{"type/object-vs-" + tname(t), "encoding/json reads an object"}
		}
		if len(mv) != len(gv) {
			return &mism{"object-keys", fmt.Sprintf("encoding/json reads %d keys, tengo has %d", len(gv), len(mv))}
		}
		keys := make([]string, 0, len(mv))
		for k := range mv {
			keys = append(keys, k)
		}
		sort.Strings(keys)
		for _, k := range keys {
			gk := k
			if !litTyping {
				gk = coerce(k)
			}
			ge, ok := gv[gk]
			if !ok {
				return &mism{"object-keys", fmt.Sprintf("key %q missing in what encoding/json reads", k)}
			}
			if m := cmpGT(ge, mv[k], litTyping, in); m != nil {
				return m
			}
		}
	default:
		return &mism{"type/unknown-go-" + gname(g), "unexpected reference type"}
	}
	return nil
}

func cmpNumber(lit string, t tengo.Object, litTyping bool) *mism {
	isF, marker := isFloatLit(lit)
	if litTyping {
		if !isF {
			n, err := strconv.ParseInt(lit, 10, 64)
			if err != nil {
				return &mism{"int-out-of-int64-range", fmt.Sprintf("integer literal %s does not fit int64; tengo silently yields %s", clip(lit), snapShort(t))}
			}
			ti, ok := t.(*tengo.Int)
			if !ok {
				return &mism{"number-typing/int-literal-decoded-as-" + tname(t), "literal " + lit + " has no fraction/exponent, want Int"}
			}
			if ti.Value != n {
				return &mism{"int-value", fmt.Sprintf("literal %s decoded as %d", lit, ti.Value)}
			}
			return nil
		}
		f, err := strconv.ParseFloat(lit, 64)
		tf, ok := t.(*tengo.Float)
		if !ok {
			return &mism{"number-typing/marker=" + string(marker) + "/decoded-as-" + tname(t), "literal " + clip(lit) + " has fraction/exponent, want Float"}
		}
		if err != nil {
			return &mism{"float-out-of-range", fmt.Sprintf("literal %s is outside float64 (encoding/json refuses it as float64); tengo silently yields %s", clip(lit), snapShort(t))}
		}
		if math.Float64bits(tf.Value) != math.Float64bits(f) {
			return &mism{"float-value", fmt.Sprintf("literal %s decoded as %x, strconv gives %x", clip(lit), math.Float64bits(tf.Value), math.Float64bits(f))}
		}
		return nil
	}
	switch tv := t.(type) {
	case *tengo.Int:
		r, ok := new(big.Rat).SetString(lit)
		if !ok || r.Cmp(new(big.Rat).SetInt64(tv.Value)) != 0 {
			return &mism{"int", fmt.Sprintf("Int %d encoded as %s", tv.Value, clip(lit))}
		}
	case *tengo.Float:
		f, err := strconv.ParseFloat(lit, 64)
		if err != nil || math.Float64bits(f) != math.Float64bits(tv.Value) {
			return &mism{floatCat(tv.Value), fmt.Sprintf("Float %x(%v) encoded as %s which reads as %x", math.Float64bits(tv.Value), tv.Value, clip(lit), math.Float64bits(f))}
		}
	default:
		return &mism{"type/number-vs-" + tname(t), "encoding/json reads a number " + clip(lit)}
	}
	return nil
}

func floatCat(f float64) string {
	a := math.Abs(f)
	switch {
	case a == 0:
		return "float-zero"
	case a < 1e-6:
		return "float-small-exponent-form"
	case a >= 1e21:
		return "float-large-exponent-form"
	case a == math.Trunc(a):
		return "float-integral"
	}
	return "float-fraction"
}

func clip(s string) string {
	if len(s) > 200 {
		return s[:120] + "..." + s[len(s)-40:] + fmt.Sprintf("(len %d)", len(s))
	}
	return s
}

// canon: expected result of a round trip: immutable containers become mutable
// (documented for copies; JSON has no notion of it), strings are coerced to
// valid UTF-8 (a string that is not valid UTF-8 is not JSON-representable).
func canon(o tengo.Object) tengo.Object {
	switch x := o.(type) {
	case *tengo.String:
		return &tengo.String{Value: coerce(x.Value)}
	case *tengo.Array:
		return canonArr(x.Value)
	case *tengo.ImmutableArray:
		return canonArr(x.Value)
	case *tengo.Map:
		return canonMap(x.Value)
	case *tengo.ImmutableMap:
		return canonMap(x.Value)
	}
	return o
}
func canonArr(xs []tengo.Object) tengo.Object {
	a := &tengo.Array{}
	for _, e := range xs {
		a.Value = append(a.Value, canon(e))
	}
	return a
}
func canonMap(m map[string]tengo.Object) tengo.Object {
	r := &tengo.Map{Value: map[string]tengo.Object{}}
	for k, v := range m {
		r.Value[coerce(k)] = canon(v)
	}
	return r
}

// cmpTT: first structural difference between the expected (canon) value and
// what Decode(Encode(v)) returned, in deterministic order.
func cmpTT(exp, back tengo.Object) *mism {
	switch e := exp.(type) {
	case *tengo.Int:
		b, ok := back.(*tengo.Int)
		if !ok {
			return &mism{"int-becomes-" + tname(back), fmt.Sprintf("Int %d came back as %s", e.Value, snapShort(back))}
		}
		if b.Value != e.Value {
			return &mism{"int-value", fmt.Sprintf("Int %d came back as %d", e.Value, b.Value)}
		}
	case *tengo.Float:
		switch b := back.(type) {
		case *tengo.Float:
			if math.Float64bits(b.Value) != math.Float64bits(e.Value) {
				return &mism{floatCat(e.Value), fmt.Sprintf("Float %x came back as %x", math.Float64bits(e.Value), math.Float64bits(b.Value))}
			}
		case *tengo.Int:
			if float64(b.Value) == e.Value && math.Abs(e.Value) < 9.2e18 {
				return &mism{"float-integral-becomes-int", fmt.Sprintf("Float %v came back as Int %d (type lost)", e.Value, b.Value)}
			}
			if math.Abs(e.Value) >= 9.2e18 {
				return &mism{"float-integral-overflows-int64", fmt.Sprintf("Float %v came back as Int %d (value changed)", e.Value, b.Value)}
			}
			return &mism{"float-becomes-int-wrong-value", fmt.Sprintf("Float %v came back as Int %d", e.Value, b.Value)}
		default:
			return &mism{"float-becomes-" + tname(back), fmt.Sprintf("Float %v came back as %s", e.Value, snapShort(back))}
		}
	case *tengo.String:
		b, ok := back.(*tengo.String)
		if !ok || b.Value != e.Value {
			return &mism{strCat(e.Value), fmt.Sprintf("String %q came back as %s", e.Value, snapShort(back))}
		}
	case *tengo.Bool:
		if back != exp {
			return &mism{"bool", "Bool came back as " + snapShort(back)}
		}
	case *tengo.Undefined:
		if _, ok := back.(*tengo.Undefined); !ok {
			return &mism{"undefined", "undefined came back as " + snapShort(back)}
		}
	case *tengo.Array:
		b, ok := back.(*tengo.Array)
		if !ok || len(b.Value) != len(e.Value) {
			return &mism{fmt.Sprintf("array-shape/width=%d", len(e.Value)), "array came back as " + snapShort(back)}
		}
		for i := range e.Value {
			if m := cmpTT(e.Value[i], b.Value[i]); m != nil {
				return m
			}
		}
	case *tengo.Map:
		b, ok := back.(*tengo.Map)
		if !ok || len(b.Value) != len(e.Value) {
			return &mism{fmt.Sprintf("map-shape/width=%d", len(e.Value)), "map came back as " + snapShort(back)}
		}
		keys := make([]string, 0, len(e.Value))
		for k := range e.Value {
			keys = append(keys, k)
		}
		sort.Strings(keys)
		for _, k := range keys {
			bv, ok := b.Value[k]
			if !ok {
				return &mism{"map-key/" + strCat(k), fmt.Sprintf("key %q lost", k)}
			}
			if m := cmpTT(e.Value[k], bv); m != nil {
				return m
			}
		}
	default:
		return &mism{"unexpected-type-" + tname(exp), "not a JSON-representable value"}
	}
	return nil
}
