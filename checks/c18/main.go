// C18: JSON encode/decode round-trips and agrees with encoding/json.
//
// Bounded exhaustive enumeration, oracle = Go's encoding/json:
//
//	(A)  decoder: every symbol string of length <= L over a 26-symbol alphabet
//	     (odometer by index, nothing skipped, nothing materialised);
//	(A2) decoder: every JSON string literal "a1..ak" of <= K atoms over a
//	     prefix-free atom set (escapes, surrogate halves, broken UTF-8);
//	(A3) decoder: number-boundary literals x embeddings, nesting-depth family,
//	     every byte value in every template position, every 2-byte string body;
//	(B)  encoder: scalars, all containers of width <= 2 over all scalars
//	     (depth 2), all containers of width <= 2 over a sub-alphabet and its
//	     depth-2 containers (depth 3, thorough); four container kinds;
//	(S)  the same through scripts: import("json").decode / .encode must agree
//	     with the direct calls (errors surface as error values).
package main

import (
	"encoding/hex"
	"fmt"
	"runtime/debug"
	"sort"
	"strconv"
	"sync"

	"github.com/d5/tengo/v2"
	"github.com/d5/tengo/v2/stdlib"
	"verif/engine/report"
	"verif/engine/tg"
	"verif/engine/val"
)

type Case struct {
	Part string `json:"part"`           // dec | dec-script | enc | enc-script | enc-other
	Hex  string `json:"hex,omitempty"`  // decoder input (hex of the bytes)
	Text string `json:"text,omitempty"` // the same, Go-quoted, for the reader
	Form string `json:"form,omitempty"` // dec-script: bytes | string
	Val  *VSpec `json:"val,omitempty"`  // encoder value
	Name string `json:"name,omitempty"` // enc-other: engine/val name + wrapping
}

type fail struct{ sig, what string }

func decCase(part string, data []byte, form string) Case {
	return Case{Part: part, Hex: hex.EncodeToString(data), Text: strconv.Quote(clipB(data)), Form: form}
}

var mods = stdlib.GetModuleMap("json")

// ---- script level ----------------------------------------------------------

func checkDecScript(data []byte, form string) (fails []fail, obs string) {
	obj, err, pan := safeDecode(data)
	var in tengo.Object = &tengo.Bytes{Value: append([]byte{}, data...)}
	if form == "string" {
		in = &tengo.String{Value: string(data)}
	}
	o := tg.Run(`json := import("json"); out := json.decode(inp)`, tg.Opts{Inputs: map[string]tengo.Object{"inp": in}, Modules: mods})
	if pan != "" {
		return nil, "direct call panicked (reported by part dec); script class " + o.Class
	}
	if o.Class != "ok" {
		return []fail{{"script/decode/" + o.Class, fmt.Sprintf("json.decode(%s %q) in a script: %s %s", form, clipB(data), o.Class, tg.FirstLine(o.ErrText))}}, o.Class
	}
	out := o.Globals["out"]
	obs = snapShort(out)
	if err != nil {
		e, ok := out.(*tengo.Error)
		var msg *tengo.String
		if ok {
			msg, ok = e.Value.(*tengo.String)
		}
		if !ok || msg.Value != err.Error() {
			fails = append(fails, fail{"script/decode/error-not-surfaced-as-error-value", fmt.Sprintf("json.decode(%s %q): direct call fails with %q, script sees %s", form, clipB(data), err.Error(), obs)})
		}
		return
	}
	if val.Snapshot(out) != val.Snapshot(obj) {
		fails = append(fails, fail{"script/decode/value-differs-from-direct-call", fmt.Sprintf("json.decode(%s %q): direct %s, script %s", form, clipB(data), snapShort(obj), obs)})
	}
	return
}

func checkEncScript(v VSpec) (fails []fail, obs string) {
	o1, ok := v.mk()
	o2, _ := v.mk()
	if !ok {
		return []fail{{"internal/unknown-value", "unknown value spec"}}, ""
	}
	_, _, wide := traits(o1)
	b, err, pan := safeEncode(o1)
	o := tg.Run(`json := import("json"); out := json.encode(v)`, tg.Opts{Inputs: map[string]tengo.Object{"v": o2}, Modules: mods})
	if pan != "" {
		return nil, "direct call panicked (reported by part enc); script class " + o.Class
	}
	desc := v.String()
	if o.Class != "ok" {
		return []fail{{"script/encode/" + o.Class, fmt.Sprintf("json.encode(%s) in a script: %s %s", desc, o.Class, tg.FirstLine(o.ErrText))}}, o.Class
	}
	out := o.Globals["out"]
	obs = snapShort(out)
	if err != nil {
		e, ok := out.(*tengo.Error)
		var msg *tengo.String
		if ok {
			msg, ok = e.Value.(*tengo.String)
		}
		if !ok || msg.Value != err.Error() {
			fails = append(fails, fail{"script/encode/error-not-surfaced-as-error-value", fmt.Sprintf("json.encode(%s): direct call fails with %q, script sees %s", desc, err.Error(), obs)})
		}
		return
	}
	ob, ok := out.(*tengo.Bytes)
	if !ok {
		return []fail{{"script/encode/result-not-bytes", fmt.Sprintf("json.encode(%s) returned %s", desc, obs)}}, obs
	}
	if !wide {
		if string(ob.Value) != string(b) {
			fails = append(fails, fail{"script/encode/bytes-differ-from-direct-call", fmt.Sprintf("json.encode(%s): direct %q, script %q", desc, clipB(b), clipB(ob.Value))})
		}
		return
	}
	// key order of a map with several keys is unspecified: compare the decoded data
	d1, e1, p1 := safeDecode(b)
	d2, e2, p2 := safeDecode(ob.Value)
	if p1 != "" || p2 != "" || (e1 == nil) != (e2 == nil) || len(b) != len(ob.Value) || (e1 == nil && val.Snapshot(d1) != val.Snapshot(d2)) {
		fails = append(fails, fail{"script/encode/data-differs-from-direct-call", fmt.Sprintf("json.encode(%s): direct %q, script %q", desc, clipB(b), clipB(ob.Value))})
	}
	return
}

// ---- values outside the claim: only "no panic" -------------------------------

func otherValues() []string {
	var names []string
	for _, v := range val.All() {
		switch v.Kind {
		case "bytes", "char", "time", "error", "func":
			names = append(names, v.Name, "["+v.Name+"]", "{a:"+v.Name+"}")
		}
		if v.Name == "a-shared" {
			names = append(names, v.Name)
		}
	}
	return names
}

func checkOther(name string) (fails []fail, obs string) {
	base, wrap := name, ""
	if len(name) > 2 && name[0] == '[' {
		base, wrap = name[1:len(name)-1], "array"
	} else if len(name) > 4 && name[0] == '{' {
		base, wrap = name[3:len(name)-1], "map"
	}
	v, ok := val.ByName(base)
	if !ok {
		return []fail{{"internal/unknown-value", "unknown value name " + name}}, ""
	}
	o := v.Mk()
	switch wrap {
	case "array":
		o = &tengo.Array{Value: []tengo.Object{o}}
	case "map":
		o = &tengo.Map{Value: map[string]tengo.Object{"a": o}}
	}
	b, err, pan := safeEncode(o)
	if pan != "" {
		return []fail{{"encode/panic/type-outside-claim/" + v.Kind, fmt.Sprintf("json.Encode(%s) panicked: %s", name, firstLine(pan))}}, "panic"
	}
	if err != nil {
		return nil, "error"
	}
	return nil, fmt.Sprintf("%q", clipB(b))
}

// ---- replay -----------------------------------------------------------------

func runCase(c Case) ([]fail, string) {
	switch c.Part {
	case "dec", "dec-script":
		data, err := hex.DecodeString(c.Hex)
		if err != nil {
			return []fail{{"internal/bad-hex", err.Error()}}, ""
		}
		if c.Part == "dec" {
			res := checkDecode(data)
			return res.fails, decObs(data, res)
		}
		return checkDecScript(data, c.Form)
	case "enc", "enc-script":
		if c.Val == nil {
			return []fail{{"internal/no-value", "case has no value"}}, ""
		}
		if c.Part == "enc-script" {
			return checkEncScript(*c.Val)
		}
		o, ok := c.Val.mk()
		if !ok {
			return []fail{{"internal/unknown-value", "unknown value spec"}}, ""
		}
		res := checkEncode(o, c.Val.String())
		obs := fmt.Sprintf("encoded=%q class=%s", clipB(res.b), res.class)
		if res.err != nil {
			obs = fmt.Sprintf("error=%v class=%s", res.err, res.class)
		}
		return res.fails, obs
	case "enc-other":
		return checkOther(c.Name)
	}
	return []fail{{"internal/unknown-part", c.Part}}, ""
}

// ---- statistics folded per chunk -------------------------------------------------

type stats struct {
	mu      sync.Mutex
	n       map[string]int64
	classes map[string]int64
}

func newStats() *stats { return &stats{n: map[string]int64{}, classes: map[string]int64{}} }
func (s *stats) merge(o *stats) {
	s.mu.Lock()
	for k, v := range o.n {
		s.n[k] += v
	}
	for k, v := range o.classes {
		s.classes[k] += v
	}
	s.mu.Unlock()
}

func pow(b, e int) int64 {
	r := int64(1)
	for i := 0; i < e; i++ {
		r *= int64(b)
	}
	return r
}

func main() {
	if p := report.ReplayArg(); p != "" {
		rp, err := report.LoadReplay(p)
		if err != nil {
			fmt.Println("cannot load replay:", err)
			return
		}
		for _, raw := range rp.Cases {
			var c Case
			_ = report.Recase(raw, &c)
			fails, obs := runCase(c)
			fmt.Printf("case part=%s text=%s form=%s val=%v name=%s\n  observed: %s\n", c.Part, c.Text, c.Form, c.Val, c.Name, obs)
			for _, f := range fails {
				fmt.Printf("  FAIL %s: %s\n", f.sig, f.what)
			}
		}
		return
	}
	// the workload allocates small short-lived objects only: collect less often
	// than the default (performance only, no effect on verdicts)
	debug.SetGCPercent(400)
	r := report.New("C18")
	if !prefixFree(symsA) || !prefixFree(atomsA2) || !prefixFree(subSyms) {
		r.Internal("symbol/atom set is not prefix-free: distinct-input counts would be wrong")
	}
	G := newStats()
	phase := map[string]float64{}
	last := r.Elapsed().Seconds()
	mark := func(name string) {
		now := r.Elapsed().Seconds()
		phase[name] = float64(int((now-last)*100)) / 100
		last = now
	}
	report1 := func(c Case, fails []fail) {
		for _, f := range fails {
			r.Violation(f.sig, f.what, c)
		}
	}

	// ---------------- (A) all symbol strings of length <= L; (A+) all of length L+1 over a sub-alphabet ----------------
	L := r.Pick(5, 6)
	nsym := len(symsA)
	type item struct {
		l      int
		lo, hi int64
	}
	var items []item
	enum := func(syms []string, lmin, lmax int, tag string) {
		ns := len(syms)
		items = items[:0]
		for l := lmin; l <= lmax; l++ {
			total := pow(ns, l)
			chunk := pow(ns, 3)
			for lo := int64(0); lo < total; lo += chunk {
				hi := lo + chunk
				if hi > total {
					hi = total
				}
				items = append(items, item{l, lo, hi})
			}
		}
		report.ParallelFor(len(items), func(ii int) {
			it := items[ii]
			st := newStats()
			buf := make([]byte, 0, 64)
			digs := make([]int, it.l)
			for idx := it.lo; idx < it.hi; idx++ {
				x := idx
				for p := it.l - 1; p >= 0; p-- {
					digs[p] = int(x % int64(ns))
					x /= int64(ns)
				}
				buf = buf[:0]
				for _, d := range digs {
					buf = append(buf, syms[d]...)
				}
				res := checkDecode(buf)
				st.n[tag+".inputs"]++
				if res.valid {
					st.n[tag+".valid"]++
				}
				st.classes[res.class]++
				if res.internal != "" {
					r.Internal("%s", res.internal)
				}
				if len(res.fails) > 0 {
					report1(decCase("dec", buf, ""), res.fails)
				}
			}
			G.merge(st)
		})
	}
	enum(symsA, 0, L, "A")
	mark("A")
	// length L+1 exactly: by unique decoding none of these is in A
	enum(subSyms, L+1, L+1, "A+")
	inEarlier := func(d []byte) bool { return inA(d, L) || decomposable(string(d), subSyms, L+1) }

	mark("A+")
	// ---------------- (A2) string literals over atoms ----------------
	K := r.Pick(4, 5)
	na := len(atomsA2)
	items = items[:0]
	for l := 0; l <= K; l++ {
		total := pow(na, l)
		chunk := pow(na, 2)
		for lo := int64(0); lo < total; lo += chunk {
			hi := lo + chunk
			if hi > total {
				hi = total
			}
			items = append(items, item{l, lo, hi})
		}
	}
	report.ParallelFor(len(items), func(ii int) {
		it := items[ii]
		st := newStats()
		buf := make([]byte, 0, 64)
		for idx := it.lo; idx < it.hi; idx++ {
			digs := make([]int, it.l)
			x := idx
			for p := it.l - 1; p >= 0; p-- {
				digs[p] = int(x % int64(na))
				x /= int64(na)
			}
			buf = append(buf[:0], '"')
			for _, d := range digs {
				buf = append(buf, atomsA2[d]...)
			}
			buf = append(buf, '"')
			res := checkDecode(buf)
			st.n["A2.inputs"]++
			if !inEarlier(buf) {
				st.n["A2.new"]++
				if res.valid {
					st.n["A2.new-valid"]++
				}
			}
			st.classes[res.class]++
			if res.internal != "" {
				r.Internal("%s", res.internal)
			}
			if len(res.fails) > 0 {
				report1(decCase("dec", buf, ""), res.fails)
			}
		}
		G.merge(st)
	})

	mark("A2")
	// ---------------- (A3) explicit families ----------------
	var fam [][]byte
	fam = append(fam, numberFamily()...)
	nNum := len(fam)
	fam = append(fam, nestingFamily()...)
	nNest := len(fam) - nNum
	fam = append(fam, byteFamily(r.Thorough())...)
	nByte := len(fam) - nNum - nNest
	seen := report.NewDistinctSet()
	isNew := make([]bool, len(fam))
	for i, d := range fam { // sequential: deterministic "first occurrence"
		isNew[i] = !inEarlier(d) && !inA2(d, K) && seen.Add(string(d))
	}
	report.ParallelFor(len(fam), func(i int) {
		res := checkDecode(fam[i])
		st := newStats()
		st.n["A3.inputs"]++
		if isNew[i] {
			st.n["A3.new"]++
			if res.valid {
				st.n["A3.new-valid"]++
			}
		}
		st.classes[res.class]++
		if res.internal != "" {
			r.Internal("%s", res.internal)
		}
		if len(res.fails) > 0 {
			report1(decCase("dec", fam[i], ""), res.fails)
		}
		G.merge(st)
	})

	mark("A3")
	// ---------------- (S-dec) script level: all symbol strings of length <= LS, both argument forms ----------------
	LS := r.Pick(3, 4)
	var sIn [][]byte
	for l := 0; l <= LS; l++ {
		total := pow(nsym, l)
		for idx := int64(0); idx < total; idx++ {
			digs := make([]int, l)
			x := idx
			for p := l - 1; p >= 0; p-- {
				digs[p] = int(x % int64(nsym))
				x /= int64(nsym)
			}
			var b []byte
			for _, d := range digs {
				b = append(b, symsA[d]...)
			}
			sIn = append(sIn, b)
		}
	}
	for k := 0; k <= 2; k++ { // and all string literals of <= 2 atoms
		total := pow(na, k)
		for idx := int64(0); idx < total; idx++ {
			b := []byte{'"'}
			x := idx
			parts := make([]string, k)
			for p := k - 1; p >= 0; p-- {
				parts[p] = atomsA2[x%int64(na)]
				x /= int64(na)
			}
			for _, s := range parts {
				b = append(b, s...)
			}
			sIn = append(sIn, append(b, '"'))
		}
	}
	sIn = append(sIn, fam[:nNum]...)
	report.ParallelFor(len(sIn)*2, func(i int) {
		form := "bytes"
		if i%2 == 1 {
			form = "string"
		}
		fails, _ := checkDecScript(sIn[i/2], form)
		st := newStats()
		st.n["S.decode-script-runs"]++
		G.merge(st)
		if len(fails) > 0 {
			report1(decCase("dec-script", sIn[i/2], form), fails)
		}
	})

	mark("S-dec")
	// ---------------- (B) encoder ----------------
	encOne := func(v VSpec, st *stats, part string, script bool) {
		o, ok := v.mk()
		if !ok {
			r.Internal("unknown value spec %s", v.String())
			return
		}
		res := checkEncode(o, v.String())
		st.n[part+".values"]++
		st.n["B.encode-decode-calls"] += res.calls
		if res.inClaim {
			st.n["B.in-claim"]++
		}
		if res.equalsTrue {
			st.n["B.roundtrip-differs-structurally-but-tengo-Equals-says-equal"]++
		}
		if res.compared {
			st.n["B.compared-with-encoding/json"]++
		}
		st.classes["enc:"+res.class]++
		if res.internal != "" {
			r.Internal("%s", res.internal)
		}
		if len(res.fails) > 0 {
			vv := v
			report1(Case{Part: "enc", Val: &vv}, res.fails)
		}
		if script {
			fails, _ := checkEncScript(v)
			st.n["S.encode-script-runs"]++
			if len(fails) > 0 {
				vv := v
				report1(Case{Part: "enc-script", Val: &vv}, fails)
			}
		}
	}
	d1 := spaceD2().ch
	{
		st := newStats()
		for _, v := range d1 {
			encOne(v, st, "B.depth1", true)
		}
		G.merge(st)
	}
	d2 := spaceD2()
	n2 := d2.size()
	const encChunk = 512
	report.ParallelFor(int((n2+encChunk-1)/encChunk), func(ci int) {
		st := newStats()
		for i := int64(ci) * encChunk; i < int64(ci+1)*encChunk && i < n2; i++ {
			encOne(d2.at(i), st, "B.depth2", true)
		}
		G.merge(st)
	})
	if r.Thorough() {
		d3 := spaceD3()
		n3 := d3.size()
		report.ParallelFor(int((n3+encChunk-1)/encChunk), func(ci int) {
			st := newStats()
			for i := int64(ci) * encChunk; i < int64(ci+1)*encChunk && i < n3; i++ {
				v := d3.at(i)
				if v.depth() < 3 {
					st.n["B.depth3-index-skipped(all-children-scalar:already-in-depth2)"]++
					continue
				}
				encOne(v, st, "B.depth3", i%64 == 0)
			}
			G.merge(st)
		})
	}
	// ---- (B-str) compositional strings: every string of <= SL atoms, in every fixed context ----
	SL := r.Pick(3, 4)
	strs := strSpace(SL)
	fixed := make([]bool, len(strs))
	for i, x := range strs {
		fixed[i] = inFixedLists(x)
	}
	nctx := len(strContexts)
	nstr := len(strs) * nctx
	report.ParallelFor((nstr+encChunk-1)/encChunk, func(ci int) {
		st := newStats()
		for i := ci * encChunk; i < (ci+1)*encChunk && i < nstr; i++ {
			si, ctx := i/nctx, i%nctx
			encOne(strValue(ctx, strs[si]), st, "B.str", ctx == 0 || !r.Thorough())
			if !fixed[si] {
				st.n["B.str.new"]++
			}
		}
		G.merge(st)
	})
	others := otherValues()
	for _, name := range others {
		fails, _ := checkOther(name)
		G.n["B.other-type-values(no-panic-only)"]++
		if len(fails) > 0 {
			report1(Case{Part: "enc-other", Name: name}, fails)
		}
	}

	mark("B+S-enc")
	r.Set("phase_wall_seconds", phase)
	// ---------------- evidence ----------------
	for k, v := range G.n {
		r.Count(k, v)
	}
	classes := make([]string, 0, len(G.classes))
	for k := range G.classes {
		classes = append(classes, k)
	}
	sort.Strings(classes)
	for _, k := range classes {
		r.Outcome(k) // one call per class: the exact per-class counts are in coverage.outcome_counts
	}
	r.Set("outcome_counts", G.classes)
	r.Note("outcome_histogram shows 1 per class by construction (outcomes are folded per chunk to avoid a global lock on 10^7..10^8 cases); exact counts are in coverage.outcome_counts")
	for _, s := range sampleCases(L) {
		fails, obs := runCase(s)
		r.Sample(map[string]interface{}{"case": s, "observed": obs, "failures": len(fails)})
	}
	r.Set("alphabet", map[string]interface{}{
		"A_symbols":            quoteAll(symsA),
		"A_max_length":         L,
		"A+_sub_alphabet":      quoteAll(subSyms),
		"A+_length":            L + 1,
		"A2_string_atoms":      quoteAll(atomsA2),
		"A2_max_atoms":         K,
		"A3_families":          map[string]int{"number-boundary-literals-x-embeddings": nNum, "nesting-depth": nNest, "byte-in-template+string-bodies": nByte},
		"A3_byte_templates":    byteTemplates,
		"B_scalars":            scalarNames(),
		"B_keys":               keyNames(),
		"B_depth3_scalars":     scalars3,
		"B_depth3_keys":        keys3,
		"B_string_atoms":       quoteAll(strAtoms),
		"B_string_max_atoms":   SL,
		"B_string_contexts":    strContexts,
		"B_container_kinds":    []string{"array", "imarray", "map", "immap"},
		"script_decode_inputs": fmt.Sprintf("all symbol strings of length <= %d, all string literals of <= 2 atoms, the number family; each as bytes and as string", LS),
		"script_encode_values": "all depth-1 and depth-2 values; every 64th index of the depth-3 space",
	})
	r.Set("bounds", fmt.Sprintf("decoder: length <= %d over %d symbols (%d strings), length %d over the %d-symbol sub-alphabet (%d strings), string literals of <= %d atoms over %d atoms; encoder: depth <= %d, width <= 2, plus every string of <= %d atoms over %d atoms in %d fixed contexts", L, nsym, G.n["A.inputs"], L+1, len(subSyms), G.n["A+.inputs"], K, na, r.Pick(2, 3), SL, len(strAtoms), nctx))
	r.Assume("reference = host toolchain's encoding/json (Valid; Decoder with UseNumber); number typing = literal has one of . e E; values per strconv.ParseInt/ParseFloat")
	r.Assume("strings that are not valid UTF-8 (values or keys) and NaN/Inf are not JSON-representable: for them only 'no panic', 'valid JSON if no error' and agreement modulo the U+FFFD coercion every JSON reader applies are required")
	r.Assume("Bytes, Char, Time, Error and function values are outside the property's value set: checked for 'no panic' only; cyclic containers are not encoded at all (unbounded recursion is a fatal stack overflow, not a recoverable panic)")
	r.Assume("key order of maps with two keys follows Go's map iteration and is not controllable; all comparisons are structural and therefore order-independent")
	r.Assume("immutable arrays/maps count as arrays/maps; a round trip returns their mutable form")
	states := G.n["A.inputs"] + G.n["A+.inputs"] + G.n["A2.new"] + G.n["A3.new"] + G.n["B.depth1.values"] + G.n["B.depth2.values"] + G.n["B.depth3.values"] + G.n["B.str.new"]
	decCalls := G.n["A.inputs"] + G.n["A+.inputs"] + G.n["A2.inputs"] + G.n["A3.inputs"]
	scriptRuns := G.n["S.decode-script-runs"] + G.n["S.encode-script-runs"]
	r.Finish(report.Coverage{
		States:      states,
		Transitions: decCalls + G.n["B.encode-decode-calls"] + scriptRuns + G.n["B.other-type-values(no-panic-only)"],
		Validated:   G.n["A.inputs"] + G.n["A+.inputs"] + G.n["A2.new"] + G.n["A3.new"] + G.n["B.compared-with-encoding/json"],
		Evaluations: decCalls + G.n["B.depth1.values"] + G.n["B.depth2.values"] + G.n["B.depth3.values"] + G.n["B.str.values"] + scriptRuns + G.n["B.other-type-values(no-panic-only)"],
		Nontrivial:  G.n["A.valid"] + G.n["A+.valid"] + G.n["A2.new-valid"] + G.n["A3.new-valid"] + G.n["B.depth1.values"] + G.n["B.depth2.values"] + G.n["B.depth3.values"] + G.n["B.str.new"],
		Rule:        "decoder inputs: every string of <= L symbols over the prefix-free 26-symbol alphabet (prefix-free => distinct symbol sequences are distinct byte strings), every string of exactly L+1 symbols over a 15-symbol sub-alphabet, plus every string literal of <= K atoms over a prefix-free atom set and three explicit families, each counted only if not already contained in an earlier part (membership decided by unique decoding, families deduplicated by a set); encoder values: distinct by construction (distinct scalar names, ordered children, key pairs a<b; depth-3 indices whose children are all scalars are skipped as duplicates of depth 2; composed strings are deduplicated by a set, and a composed-string value is counted only if its string is in none of the fixed scalar/key lists, which is conservative). state = one distinct input/value; transition = one Decode/Encode call or script run on the implementation; validated = inputs whose accept/reject verdict (and, when valid, value) was compared with encoding/json + encoder values whose text encoding/json read back; non-trivial = distinct decoder inputs that encoding/json calls valid + all encoder values",
	})
}

func quoteAll(xs []string) []string {
	var r []string
	for _, x := range xs {
		r = append(r, strconv.QuoteToASCII(x))
	}
	return r
}
func scalarNames() []string {
	var r []string
	for _, s := range scalarsFull {
		r = append(r, s.name+"="+snapShort(s.mk()))
	}
	return r
}
func keyNames() []string {
	var r []string
	for _, k := range keysFull {
		r = append(r, k.name+"="+strconv.QuoteToASCII(k.key))
	}
	return r
}

// sampleCases: a fixed, deterministic handful of explored cases for the evidence.
func sampleCases(L int) []Case {
	var out []Case
	for _, s := range []string{`[1,1]`, `{"a":1}`, `1e999`, `"\"`, `-0.1`, `[1,]`, "\"\xff\"", `{"a":1,"a":[]}`} {
		out = append(out, decCase("dec", []byte(s), ""))
	}
	out = append(out, decCase("dec", []byte(`"`+bu+`D83D`+bu+`DE00`+bu+`DE00"`), ""))
	out = append(out, decCase("dec-script", []byte(`[1.0,1]`), "string"))
	d2 := spaceD2()
	v1, v2 := d2.at(d2.size()-7), d2.at(d2.seqSize()/2)
	out = append(out, Case{Part: "enc", Val: &v1}, Case{Part: "enc-script", Val: &v2})
	return out
}
