package main

// Decoder law: for every byte string, json.Decode fails exactly when
// encoding/json.Valid says the text is invalid, never panics, and otherwise
// yields the data encoding/json reads (numbers typed by the literal).

import (
	"bytes"
	gojson "encoding/json"
	"fmt"
	"regexp"
	"runtime/debug"
	"strings"

	"github.com/d5/tengo/v2"
	tjson "github.com/d5/tengo/v2/stdlib/json"
	"verif/engine/val"
)

// the 26-symbol alphabet of part A (prefix-free: distinct first bytes)
var symsA = []string{"{", "}", "[", "]", ":", ",", `"`, `\`, "u", "0", "1", "9", "-", "+", ".", "e", "E", " ", "a",
	"\u00e9", "\x01", "\xff", "true", "false", "null", "\U0001F600"}

// sub-alphabet of part A+ (strings of exactly L+1 symbols): enough to spell
// objects with a key and a value, three-element arrays, escapes, fractions, exponents
var subSyms = []string{"{", "}", "[", "]", ":", ",", `"`, `\`, "1", "-", ".", "e", " ", "a", "null"}

// string atoms of part A2 (prefix-free as a set); inputs are `"` atoms* `"`
var bu = "\\" + "u" // backslash-u, spelled so that no tool rewrites the escapes below

var atomsA2 = []string{"a", "\u00e9", "\U0001F600", "\xff", "\xc2", "\x80", "\xed\xa0\x80", "\x01", "\x7f", "\u2028",
	`\"`, `\\`, `\/`, `\b`, `\f`, `\n`, `\r`, `\t`, `\'`, `\x`,
	bu + "0041", bu + "00e9", bu + "0000", bu + "2028", bu + "D83D", bu + "DE00", bu + "d83d", bu + "de00",
	bu + "DBFF", bu + "DFFF", bu + "FFFD", bu + "12G4", `\U0041`}

func prefixFree(xs []string) bool {
	for i, a := range xs {
		for j, b := range xs {
			if i != j && strings.HasPrefix(b, a) {
				return false
			}
		}
	}
	return true
}

// decomposable reports whether s is a concatenation of at most max code words
// of the prefix-free code xs (greedy decoding is then unique).
func decomposable(s string, xs []string, max int) bool {
	n := 0
outer:
	for len(s) > 0 {
		for _, a := range xs {
			if strings.HasPrefix(s, a) {
				s = s[len(a):]
				n++
				if n > max {
					return false
				}
				continue outer
			}
		}
		return false
	}
	return true
}

func inA(data []byte, maxLen int) bool { return decomposable(string(data), symsA, maxLen) }
func inA2(data []byte, maxAtoms int) bool {
	if len(data) < 2 || data[0] != '"' || data[len(data)-1] != '"' {
		return false
	}
	return decomposable(string(data[1:len(data)-1]), atomsA2, maxAtoms)
}

func safeDecode(data []byte) (o tengo.Object, err error, pan string) {
	defer func() {
		if r := recover(); r != nil {
			pan = fmt.Sprintf("%v\n%s", r, debug.Stack())
		}
	}()
	o, err = tjson.Decode(data)
	return
}

var digitsRe = regexp.MustCompile(`[0-9]+`)

func normPanic(p string) string {
	l := p
	if i := strings.IndexByte(l, '\n'); i >= 0 {
		l = l[:i]
	}
	if strings.Contains(l, "out of sync") {
		return "decoder-out-of-sync"
	}
	l = digitsRe.ReplaceAllString(l, "N")
	l = strings.Join(strings.Fields(l), "-")
	if len(l) > 60 {
		l = l[:60]
	}
	return l
}

// errCtx turns a scanner error message into a coarse class: the context
// phrase, optionally with the class of the offending character.
func errCtx(msg string, withChar bool) string {
	if strings.HasPrefix(msg, "unexpected end of JSON input") {
		return "unexpected-end"
	}
	const p = "invalid character "
	if !strings.HasPrefix(msg, p) {
		return "other-error"
	}
	rest := msg[len(p):]
	i := strings.LastIndex(rest, "' ")
	if i < 0 {
		return "other-error"
	}
	ch := strings.TrimPrefix(rest[:i], "'")
	ctx := rest[i+2:]
	if j := strings.Index(ctx, " (expecting"); j >= 0 {
		ctx = ctx[:j]
	}
	if strings.HasPrefix(ctx, "in literal") {
		ctx = "in literal"
	}
	ctx = strings.ReplaceAll(strings.ReplaceAll(ctx, " ", "-"), `\`, "backslash-")
	if !withChar {
		return ctx
	}
	cc := "non-ascii"
	switch {
	case len(ch) == 1 && ch[0] >= '0' && ch[0] <= '9':
		cc = "digit"
	case ch == "+" || ch == "-":
		cc = "sign"
	case ch == " ":
		cc = "space"
	case ch == `"`:
		cc = "quote"
	case ch == `\\`:
		cc = "backslash"
	case ch == `\''`:
		cc = "apostrophe"
	case len(ch) == 1 && (ch[0]|0x20) >= 'a' && (ch[0]|0x20) <= 'z':
		cc = "letter"
	case len(ch) == 1:
		cc = "punct"
	case strings.HasPrefix(ch, `\`):
		cc = "control"
	}
	return ctx + "/char=" + cc
}

func goErrClass(data []byte) string {
	var v interface{}
	err := gojson.Unmarshal(data, &v)
	if err == nil {
		return "reference-accepts"
	}
	return errCtx(err.Error(), true)
}

func goRead(data []byte) (interface{}, error) {
	dec := gojson.NewDecoder(bytes.NewReader(data))
	dec.UseNumber()
	var g interface{}
	err := dec.Decode(&g)
	return g, err
}

type decRes struct {
	fails    []fail
	class    string // outcome class
	valid    bool
	internal string
	obj      tengo.Object
	err      error
}

// checkDecode is the complete decoder oracle for one input.
func checkDecode(data []byte) (res decRes) {
	res.valid = gojson.Valid(data)
	obj, err, pan := safeDecode(data)
	res.obj, res.err = obj, err
	vs := "invalid"
	if res.valid {
		vs = "valid"
	}
	if pan != "" {
		res.class = "panic"
		res.fails = append(res.fails, fail{"decode/panic/" + vs + "/" + normPanic(pan),
			fmt.Sprintf("json.Decode(%q) panicked: %s", clipB(data), firstLine(pan))})
		return
	}
	if !res.valid {
		if err == nil {
			res.class = "invalid:accepted"
			res.fails = append(res.fails, fail{"decode/accepts-invalid/" + goErrClass(data),
				fmt.Sprintf("json.Decode(%q) succeeds with %s but encoding/json.Valid is false", clipB(data), snapShort(obj))})
			return
		}
		res.class = "invalid:rejected/" + errCtx(err.Error(), false)
		return
	}
	if err != nil {
		res.class = "valid:rejected"
		res.fails = append(res.fails, fail{"decode/rejects-valid/" + errCtx(err.Error(), true),
			fmt.Sprintf("json.Decode(%q) fails (%v) but encoding/json.Valid is true", clipB(data), err)})
		return
	}
	g, gerr := goRead(data)
	if gerr != nil {
		res.internal = fmt.Sprintf("reference decoder failed on text it calls valid: %q: %v", clipB(data), gerr)
		res.class = "valid:reference-failed"
		return
	}
	res.class = "valid:" + topClass(g)
	if m := cmpGT(g, obj, true, data); m != nil {
		res.fails = append(res.fails, fail{"decode/value-mismatch/" + m.class,
			fmt.Sprintf("json.Decode(%q): %s", clipB(data), m.detail)})
	}
	return
}

func topClass(g interface{}) string {
	switch x := g.(type) {
	case gojson.Number:
		if f, _ := isFloatLit(string(x)); f {
			return "number-float"
		}
		return "number-int"
	case []interface{}:
		if len(x) == 0 {
			return "array-empty"
		}
		return "array-of-" + gname(x[0])
	case map[string]interface{}:
		if len(x) == 0 {
			return "object-empty"
		}
		return "object"
	}
	return gname(g)
}

func clipB(b []byte) string { return clip(string(b)) }

func firstLine(s string) string {
	if i := strings.IndexByte(s, '\n'); i >= 0 {
		return s[:i]
	}
	return s
}

func snapShort(o tengo.Object) string {
	if o == nil {
		return "nil"
	}
	return clip(val.Snapshot(o))
}

func decObs(data []byte, res decRes) string {
	t := "value " + snapShort(res.obj)
	if res.err != nil {
		t = "error " + res.err.Error()
	}
	return fmt.Sprintf("encoding/json.Valid=%v tengo=%s class=%s", res.valid, t, res.class)
}
