package main

// Effective time: the time limits of the hang oracle must not fire because
// the machine is oversubscribed. A process that waits on the run queue is not
// hanging, it is starved. The scheduler statistics of Linux tell the two
// apart: /proc/<pid>/task/<tid>/schedstat holds, per thread, the time spent
// on a CPU and the time spent runnable but waiting for one.
//
// effClock advances by wall time while the process is not starved (it runs
// as much as it wants, or it sleeps/blocks: a call stuck on a lock must still
// time out) and only by the CPU time actually received while it is starved.

import (
	"os"
	"strconv"
	"strings"
	"time"
)

type effClock struct {
	pid      string // "self" or a pid
	lastWall time.Time
	lastRun  int64
	lastWait int64
	eff      time.Duration
	ok       bool
}

func newEffClock(pid string) *effClock {
	c := &effClock{pid: pid, lastWall: time.Now()}
	c.lastRun, c.lastWait, c.ok = schedTimes(pid)
	return c
}

// schedTimes sums run and run-queue wait time (ns) over all threads of a process.
func schedTimes(pid string) (run, wait int64, ok bool) {
	dir := "/proc/" + pid + "/task"
	ents, err := os.ReadDir(dir)
	if err != nil {
		return 0, 0, false
	}
	for _, e := range ents {
		b, err := os.ReadFile(dir + "/" + e.Name() + "/schedstat")
		if err != nil {
			continue // the thread is gone
		}
		f := strings.Fields(string(b))
		if len(f) < 2 {
			continue
		}
		r, _ := strconv.ParseInt(f[0], 10, 64)
		w, _ := strconv.ParseInt(f[1], 10, 64)
		run += r
		wait += w
		ok = true
	}
	return
}

// Reset restarts the clock at zero.
func (c *effClock) Reset() {
	c.lastWall = time.Now()
	c.lastRun, c.lastWait, c.ok = schedTimes(c.pid)
	c.eff = 0
}

// Elapsed samples the scheduler statistics and returns the effective time since Reset.
func (c *effClock) Elapsed() time.Duration {
	now := time.Now()
	dw := now.Sub(c.lastWall)
	if dw <= 0 {
		return c.eff
	}
	run, wait, ok := schedTimes(c.pid)
	if !ok || !c.ok {
		// no scheduler statistics (or the process is gone): fall back to wall time
		c.eff += dw
		c.lastWall, c.lastRun, c.lastWait, c.ok = now, run, wait, ok
		return c.eff
	}
	dRun := time.Duration(run - c.lastRun)
	dWait := time.Duration(wait - c.lastWait)
	if dRun < 0 {
		dRun = 0 // threads that exited take their counters with them
	}
	if dWait < 0 {
		dWait = 0
	}
	if dWait*10 < dw {
		c.eff += dw // not starved: ran freely, or slept/blocked
	} else {
		if dRun > dw {
			dRun = dw
		}
		c.eff += dRun // starved: only the CPU time it got counts
	}
	c.lastWall, c.lastRun, c.lastWait = now, run, wait
	return c.eff
}
