package main

// The hostile alphabet: every Atom is a small program fragment that does
// something a script must not be able to hurt the host with. An atom has a
// set-up part (Pre), the hostile part (Body, or Expr when it is an
// expression) and an optional clean-up (Post, only used to drop a cyclic
// value from the globals again so that the follow-up API calls are about the
// operation and not about the cycle). Placements (placements.go) put the three
// parts into different syntactic contexts.

import (
	"fmt"
	"strings"
	"sync"

	"github.com/d5/tengo/v2"
)

type Atom struct {
	Name    string
	Pre     string            // statements, one per line
	Body    string            // statements; "" => "out := <Expr>"
	Expr    string            // hostile expression (used by the expression placements)
	Post    string            // statements run after Body (when Body did not fail)
	Inputs  map[string]string // host inputs: variable -> value name (val alphabet or "h:" specials)
	NonTerm bool              // known not to terminate: run under a 2 s deadline, RunContext must return the context's error
	Heavy   bool              // allocates or burns a lot (or is expected to kill the worker): limited concurrency
	Group   string            // light | cyclic | deep | deep-heavy | limit : selects the placements of the quick tier
	SigOp   string            // op=<...> of crash/hang signatures
	SigArg  string            // arg=<...> of crash/hang signatures

	lazy     func() (pre, text string) // generated text, produced on first use (Expr if lazyExpr, else Body)
	lazyExpr bool
	once     sync.Once
}

// mat produces the text of a generated atom.
func (a *Atom) mat() {
	if a.lazy == nil {
		return
	}
	a.once.Do(func() {
		pre, text := a.lazy()
		a.Pre = pre
		if a.lazyExpr {
			a.Expr = text
		} else {
			a.Body = text
		}
	})
}

// lex / lst add generated atoms whose (large) text is produced on demand.
func lex(name string, gen func() (pre, expr string)) *Atom {
	a := &Atom{Name: name, lazy: gen, lazyExpr: true, Expr: "?"}
	addAtom(a)
	return a
}

func lst(name string, gen func() (pre, body string)) *Atom {
	a := &Atom{Name: name, lazy: gen, Body: "?"}
	addAtom(a)
	return a
}

const (
	maxI = "9223372036854775807"
	minI = "(-9223372036854775807 - 1)"
)

var atomList []*Atom
var atomByName = map[string]*Atom{}

func addAtom(a *Atom) {
	if a.Group == "" {
		a.Group = "light"
	}
	if strings.ContainsAny(a.Name, " \t\n") {
		panic("atom name with whitespace: " + a.Name)
	}
	if _, dup := atomByName[a.Name]; dup {
		panic("duplicate atom " + a.Name)
	}
	atomByName[a.Name] = a
	atomList = append(atomList, a)
}

// ex adds an expression atom.
func ex(name, pre, expr string) *Atom {
	a := &Atom{Name: name, Pre: pre, Expr: expr}
	addAtom(a)
	return a
}

// st adds a statement atom.
func st(name, pre, body string) *Atom {
	a := &Atom{Name: name, Pre: pre, Body: body}
	addAtom(a)
	return a
}

func lines(ss ...string) string { return strings.Join(ss, "\n") }

// tag makes a signature-safe token out of source text.
func tag(s string) string {
	s = strings.NewReplacer(" ", "", "\t", "", "\n", ";").Replace(s)
	s = strings.ReplaceAll(s, "9223372036854775807", "MAX")
	s = strings.ReplaceAll(s, "(-MAX-1)", "MIN")
	if len(s) > 60 {
		s = s[:28] + ".." + fmt.Sprint(len(s)) + ".." + s[len(s)-28:]
	}
	return s
}

// ---- cyclic containers

type shape struct {
	name string
	pre  func(sfx string) string // builds the value in variable c<sfx>
	post func(sfx string) string
	in   string // host input value for c (instead of pre)
}

var shapes = []shape{
	{name: "cyclic-array",
		pre:  func(s string) string { return fmt.Sprintf("c%[1]s := [1]\nc%[1]s[0] = c%[1]s", s) },
		post: func(s string) string { return fmt.Sprintf("c%[1]s[0] = 0", s) }},
	{name: "cyclic-map",
		pre:  func(s string) string { return fmt.Sprintf("c%[1]s := {}\nc%[1]s.self = c%[1]s", s) },
		post: func(s string) string { return fmt.Sprintf("c%[1]s.self = 0", s) }},
	{name: "cyclic-pair",
		pre:  func(s string) string { return fmt.Sprintf("c%[1]s := [0]\nd%[1]s := [c%[1]s]\nc%[1]s[0] = d%[1]s", s) },
		post: func(s string) string { return fmt.Sprintf("c%[1]s[0] = 0", s) }},
	{name: "cyclic-map-pair",
		pre: func(s string) string {
			return fmt.Sprintf("c%[1]s := {}\nd%[1]s := {peer: c%[1]s}\nc%[1]s.peer = d%[1]s", s)
		},
		post: func(s string) string { return fmt.Sprintf("c%[1]s.peer = 0", s) }},
	{name: "cyclic-map-in-array",
		pre:  func(s string) string { return fmt.Sprintf("c%[1]s := {}\nc%[1]s.a = [c%[1]s]", s) },
		post: func(s string) string { return fmt.Sprintf("c%[1]s.a = 0", s) }},
	{name: "cyclic-immutable-array",
		pre: func(s string) string {
			return fmt.Sprintf("z%[1]s := [0]\nc%[1]s := immutable(z%[1]s)\nz%[1]s[0] = c%[1]s", s)
		},
		post: func(s string) string { return fmt.Sprintf("z%[1]s[0] = 0", s) }},
	{name: "cyclic-immutable-map",
		pre: func(s string) string {
			return fmt.Sprintf("z%[1]s := {}\nc%[1]s := immutable(z%[1]s)\nz%[1]s.self = c%[1]s", s)
		},
		post: func(s string) string { return fmt.Sprintf("z%[1]s.self = 0", s) }},
	{name: "cyclic-error",
		pre: func(s string) string {
			return fmt.Sprintf("z%[1]s := [0]\nc%[1]s := error(z%[1]s)\nz%[1]s[0] = c%[1]s", s)
		},
		post: func(s string) string { return fmt.Sprintf("z%[1]s[0] = 0", s) }},
	{name: "cyclic-frozen-array",
		pre: func(s string) string {
			return fmt.Sprintf("z%[1]s := [1]\nz%[1]s[0] = z%[1]s\nc%[1]s := freeze(z%[1]s)\nz%[1]s[0] = 0", s)
		},
		post: func(s string) string { return fmt.Sprintf("c%[1]s = 0", s) }},
	{name: "cyclic-host-array", in: "h:cyclic-array"},
	{name: "cyclic-host-map", in: "h:cyclic-map"},
}

type cycOp struct {
	name string
	expr string // over c (and c2 when two is set)
	body string // statement form (instead of expr)
	two  bool
}

var cycOps = []cycOp{
	{name: "string", expr: "string(c)"},
	{name: "eq-self", expr: "c == c"},
	{name: "neq-self", expr: "c != c"},
	{name: "eq-same-shape", expr: "c == c2", two: true},
	{name: "eq-in-array", expr: "[c] == [c]"},
	{name: "copy", expr: "copy(c)"},
	{name: "freeze", expr: "freeze(c)"},
	{name: "format-v", expr: `format("%v", c)`},
	{name: "format-s", expr: `format("%s", c)`},
	{name: "format-d", expr: `format("%d", c)`},
	{name: "str-concat", expr: `"" + c`},
	{name: "len", expr: "len(c)"},
	{name: "type_name", expr: "type_name(c)"},
	{name: "is_array", expr: "is_array(c)"},
	{name: "is_iterable", expr: "is_iterable(c)"},
	{name: "forin", body: "for k, v in c {\n\tout := k\n}"},
	{name: "add-self", expr: "c + c"},
	{name: "map-key", body: "m2 := {}\nm2[c] = 1"},
	{name: "error", expr: "error(c)"},
	{name: "immutable", expr: "immutable(c)"},
	{name: "append", expr: "append(c, c)"},
	{name: "index", expr: "c[0]"},
	{name: "bool", expr: "bool(c)"},
	{name: "int", expr: "int(c)"},
	{name: "bytes", expr: "bytes(c)"},
	{name: "not", expr: "!c"},
	{name: "ternary", expr: "c ? 1 : 2"},
	{name: "call-arg", body: "f := func(x) { return x }\nout := f(c)"},
	{name: "spread", body: "f := func(...x) { return x }\nout := f(c...)"},
}

func addCyclic() {
	for _, sh := range shapes {
		for _, op := range cycOps {
			a := &Atom{Name: "cyc/" + sh.name + "/" + op.name, Group: "cyclic", Heavy: true,
				SigOp: op.name, SigArg: sh.name, Expr: op.expr, Body: op.body}
			if sh.in != "" {
				a.Inputs = map[string]string{"c": sh.in}
				if op.two {
					a.Inputs["c2"] = sh.in
				}
				// a host input stays in the globals: dropping the cycle is done through the reference
				if sh.in == "h:cyclic-array" {
					a.Post = "c[0] = 0"
					if op.two {
						a.Post += "\nc2[0] = 0"
					}
				} else {
					a.Post = "c.self = 0"
					if op.two {
						a.Post += "\nc2.self = 0"
					}
				}
			} else {
				a.Pre = sh.pre("")
				a.Post = sh.post("")
				if op.two {
					a.Pre += "\n" + sh.pre("2")
					a.Post += "\n" + sh.post("2")
				}
			}
			addAtom(a)
		}
		// the cycle is left in a global: the follow-up calls (Get/GetAll/Set/Run/Clone) meet it
		k := &Atom{Name: "cyc/" + sh.name + "/kept-in-global", Group: "cyclic", Heavy: true,
			SigOp: "none", SigArg: sh.name, Expr: "len(c)"}
		if sh.in != "" {
			k.Inputs = map[string]string{"c": sh.in}
		} else {
			k.Pre = sh.pre("")
		}
		addAtom(k)
	}
}

// ---- deep (acyclic) nesting

func addDeep() {
	type dop struct {
		name, expr string
		quadratic  bool
	}
	ops := []dop{
		{"string", "string(c)", true}, {"eq", "c == c2", false}, {"copy", "copy(c)", false},
		{"freeze", "freeze(c)", false}, {"format-v", `format("%v", c)`, true}, {"str-concat", `"" + c`, true},
		{"len", "len(c)", false}, {"error", "error(c)", false},
	}
	for _, kind := range []string{"array", "map"} {
		for _, n := range []int{300, 1000, 10000, 100000} {
			for _, op := range ops {
				if op.quadratic && n > 10000 {
					continue // text of an n-deep value costs n^2/2 bytes of copying: a (legitimately) long run, not a failure mode
				}
				if kind == "map" && n > 100000 {
					continue
				}
				step := "c = [c]\n\tc2 = [c2]"
				init := "c := []\nc2 := []"
				if kind == "map" {
					step = "c = {a: c}\n\tc2 = {a: c2}"
					init = "c := {}\nc2 := {}"
				}
				a := &Atom{Name: fmt.Sprintf("deep/%s/%d/%s", kind, n, op.name), Group: "deep",
					Pre:  fmt.Sprintf("%s\nfor i := 0; i < %d; i++ {\n\t%s\n}", init, n, step),
					Expr: op.expr, Post: "c = 0\nc2 = 0",
					SigOp: op.name, SigArg: fmt.Sprintf("deep-%s-%d", kind, n)}
				if n >= 100000 || op.quadratic && n >= 10000 {
					a.Heavy = true
					a.Group = "deep-heavy" // long runs: few at a time, three times the call limit
				}
				addAtom(a)
			}
		}
	}
	// left in a global: Clone/GetAll meet the deep value
	for _, n := range []int{1000, 100000} {
		grp := "deep"
		if n >= 100000 {
			grp = "deep-heavy"
		}
		addAtom(&Atom{Name: fmt.Sprintf("deep/array/%d/kept-in-global", n), Group: grp,
			Pre: fmt.Sprintf("c := []\nfor i := 0; i < %d; i++ {\n\tc = [c]\n}", n), Expr: "len(c)",
			SigOp: "none", SigArg: fmt.Sprintf("deep-array-%d", n), Heavy: n >= 100000})
	}
}

// ---- generated text

func nestArray(depth int, leaf string) string {
	var sb strings.Builder
	for i := 0; i < depth; i++ {
		sb.WriteString("[" + leaf + ", ")
	}
	sb.WriteString(leaf)
	for i := 0; i < depth; i++ {
		sb.WriteString("]")
	}
	return sb.String()
}

func nestRight(depth int, op, leaf string) string {
	var sb strings.Builder
	for i := 0; i < depth; i++ {
		sb.WriteString(leaf + " " + op + " (")
	}
	sb.WriteString(leaf)
	for i := 0; i < depth; i++ {
		sb.WriteString(")")
	}
	return sb.String()
}

func repeatArgs(n int, a string) string {
	xs := make([]string, n)
	for i := range xs {
		xs[i] = a
	}
	return strings.Join(xs, ", ")
}

func addGenerated() {
	for _, d := range []int{1000, 2046, 2047, 2048, 2049, 2100, 5000} {
		d := d
		lex(fmt.Sprintf("opstack/array-nest/%d", d), func() (string, string) { return "", nestArray(d, "1") })
		lex(fmt.Sprintf("opstack/array-nest-call/%d", d), func() (string, string) { return "f := func() { return 1 }", nestArray(d, "f()") })
		lex(fmt.Sprintf("opstack/add-nest/%d", d), func() (string, string) { return "", nestRight(d, "+", "1") })
		lex(fmt.Sprintf("opstack/and-nest/%d", d), func() (string, string) { return "", nestRight(d, "&&", "true") })
	}
	// nesting inside a function that is itself called deep in the frame stack
	for _, d := range []int{100, 1000, 1500} {
		d := d
		lst(fmt.Sprintf("opstack/nest-under-recursion/%d", d), func() (string, string) {
			return "", fmt.Sprintf("g := func(n) {\n\tif n == 0 {\n\t\treturn %s\n\t}\n\treturn [g(n-1)]\n}\nout := g(500)", nestArray(d, "1"))
		})
	}
	for _, n := range []int{254, 255, 256, 257, 300, 2100} {
		n := n
		lex(fmt.Sprintf("call/many-args-variadic/%d", n), func() (string, string) {
			return "f := func(...a) { return len(a) }", "f(" + repeatArgs(n, "1") + ")"
		})
		lex(fmt.Sprintf("call/many-args-builtin/%d", n), func() (string, string) { return "", "append([], " + repeatArgs(n, "1") + ")" })
	}
	for _, n := range []int{254, 255, 256, 257, 300, 2047, 2048, 2049, 2100, 65535, 65536, 70000} {
		n := n
		lex(fmt.Sprintf("literal/array-elems/%d", n), func() (string, string) { return "", "[" + repeatArgs(n, "1") + "]" })
	}
	for _, n := range []int{1000, 1023, 1024, 1025, 1100} {
		n := n
		lex(fmt.Sprintf("literal/map-entries/%d", n), func() (string, string) {
			var kv []string
			for i := 0; i < n; i++ {
				kv = append(kv, fmt.Sprintf("k%d: 1", i))
			}
			return "", "{" + strings.Join(kv, ", ") + "}"
		})
	}
	for _, n := range []int{254, 255, 256, 257, 258, 300} {
		n := n
		lst(fmt.Sprintf("locals/%d", n), func() (string, string) {
			var sb strings.Builder
			for i := 0; i < n; i++ {
				fmt.Fprintf(&sb, "\tv%d := %d\n", i, i)
			}
			return "", fmt.Sprintf("f := func() {\n%s\treturn v0 + v%d\n}\nout := f()", sb.String(), n-1)
		})
		lst(fmt.Sprintf("params/%d", n), func() (string, string) {
			var pb []string
			for i := 0; i < n; i++ {
				pb = append(pb, fmt.Sprintf("p%d", i))
			}
			return "", fmt.Sprintf("f := func(%s) {\n\treturn p0 + p%d\n}\nout := f(%s)", strings.Join(pb, ", "), n-1, repeatArgs(n, "1"))
		})
		lst(fmt.Sprintf("freevars/%d", n), func() (string, string) {
			var fv strings.Builder
			var sum []string
			for i := 0; i < n; i++ {
				fmt.Fprintf(&fv, "\tw%d := %d\n", i, i)
				sum = append(sum, fmt.Sprintf("w%d", i))
			}
			return "", fmt.Sprintf("f := func() {\n%s\treturn func() {\n\t\treturn %s\n\t}\n}\nout := f()()", fv.String(), strings.Join(sum, " + "))
		})
	}
	for _, n := range []int{1000, 1022, 1023, 1024, 1025, 1100} {
		n := n
		lst(fmt.Sprintf("globals/%d", n), func() (string, string) {
			var sb strings.Builder
			for i := 0; i < n; i++ {
				fmt.Fprintf(&sb, "gv%d := %d\n", i, i)
			}
			return "", sb.String() + "out := gv0"
		})
	}
}

// ---- everything else

func addLight() {
	// ill-typed operators
	for _, e := range []string{`1 + "a"`, `"a" - 1`, `[1] * 2`, `{} + 1`, `undefined + 1`, `1 + undefined`, `len + 1`,
		`true < false`, `1.5 % 2`, `"a" < 1`, `'a' * 'b'`, `bytes("a") - bytes("b")`, `[1] - [1]`, `{} < {}`,
		`error("x") + 1`, `immutable([1]) * 2`, `1 & 1.5`, `"a" << 1`, `time(0) * 2`, `func() {} + 1`} {
		ex("illtyped/bin/"+tag(e), "", e)
	}
	for _, e := range []string{`-"a"`, `^1.5`, `-[]`, `^undefined`, `-true`, `^"a"`, `-{}`, `-len`, `+"a"`, `^'a'`} {
		ex("illtyped/un/"+tag(e), "", e)
	}
	// integer arithmetic at the edges
	ex("arith/div-zero", "z := 0", "1 / z")
	ex("arith/rem-zero", "z := 0", "1 % z")
	ex("arith/div-zero-lit", "", "1 / 0")
	ex("arith/rem-zero-lit", "", "1 % 0")
	ex("arith/fdiv-zero", "z := 0.0", "1.0 / z")
	ex("arith/char-div-zero", "", "'a' / 0")
	ex("arith/min-div-minus1", "m := "+minI, "m / -1")
	ex("arith/min-rem-minus1", "m := "+minI, "m % -1")
	ex("arith/min-neg", "m := "+minI, "-m")
	ex("arith/max-plus1", "", maxI+" + 1")
	ex("arith/min-mul", "m := "+minI, "m * -1")
	st("arith/div-assign-zero", "x := 1", "x /= 0")
	st("arith/rem-assign-zero", "x := 1", "x %= 0")
	// shifts
	for _, e := range []string{"1 << -1", "1 >> -1", "1 << 64", "1 << 63", "-1 >> 70", "1 << " + maxI, "1 >> " + maxI,
		"1 << " + minI, "-1 << " + minI, "'a' << 70", "1 &^ -1"} {
		ex("shift/"+tag(e), "", e)
	}
	// char / time arithmetic overflow
	for _, e := range []string{"'a' + " + maxI, "'a' - " + minI, "char(" + maxI + ")", "string(char(-1))", "char(1114112)",
		"'a' + 'b'", "'a' - 'b'", "string('a' + 4294967296)", "char(" + minI + ")", "'\\U0010FFFF' + 1"} {
		ex("char/"+tag(e), "", e)
	}
	for _, e := range []string{"time(" + maxI + ")", "string(time(" + maxI + "))", "string(time(" + minI + "))",
		"time(" + maxI + ") + " + maxI, "time(0) - time(" + maxI + ")", "time(" + minI + ") - time(" + maxI + ")",
		"time(" + maxI + ") < time(" + minI + ")", "time(253402300800)", "string(time(253402300800))",
		`format("%v", time(` + maxI + `))`, "int(time(" + maxI + "))", "time(" + maxI + ") - 1", `time("x")`} {
		ex("time/"+tag(e), "", e)
	}
	// bytes / string sizes
	for _, e := range []string{"bytes(-1)", "bytes(1 << 40)", "bytes(2147483648)", "bytes(" + minI + ")", "bytes(" + maxI + ")",
		"bytes(1.5)", "bytes(undefined)", "bytes([1])"} {
		ex("bytes/"+tag(e), "", e)
	}
	// range
	for _, e := range []string{"range(0, 10, 0)", "range(1, 2, -1)", "range(0, 10, " + minI + ")", "range(0)", "range(0, 1, 1, 1)",
		"range(1.0, 2)", `range("a", 2)`, "range(0, undefined)", "range(5, 0, 2)", "range(0, 0)", "range(" + maxI + ", " + maxI + ")",
		"range(" + minI + ", " + minI + ")", "range(" + maxI + ", " + maxI + " - 3)", "range(" + minI + ", " + minI + " + 3)"} {
		ex("range/"+tag(e), "", e)
	}
	for _, e := range []string{
		"range(3, " + maxI + ", " + maxI + ")",
		"range(9223372036854775806, " + maxI + ", 5)",
		"range(-3, " + minI + ", " + maxI + ")",
		"range(-9223372036854775807, " + minI + ", 5)",
	} {
		// fixed in /repo 2a89e14 (buildRange stops before its counter wraps): these must return a small array at once;
		// if the run-away loop ever comes back it is reported as hang/op=range/arg=counter-overflow
		a := ex("range-overflow/"+tag(e), "", e)
		a.SigOp, a.SigArg = "range", "counter-overflow"
	}
	// iteration while mutating
	m3 := "m := {a: 1, b: 2, c: 3}"
	a3 := "a := [1, 2, 3]"
	st("iter/map-delete-current", m3, "for k, v in m {\n\tdelete(m, k)\n}")
	st("iter/map-delete-all-use-value", m3, "for k, v in m {\n\tdelete(m, \"a\")\n\tdelete(m, \"b\")\n\tdelete(m, \"c\")\n\tx := v + 1\n}")
	st("iter/map-delete-all-string-value", m3, "for k, v in m {\n\tdelete(m, \"a\")\n\tdelete(m, \"b\")\n\tdelete(m, \"c\")\n\tx := string(v)\n}")
	st("iter/map-delete-all-store-value", m3+"\nkeep := []", "for k, v in m {\n\tdelete(m, \"a\")\n\tdelete(m, \"b\")\n\tdelete(m, \"c\")\n\tkeep = append(keep, v)\n}\nout := string(keep)")
	st("iter/map-delete-all-global-value", m3+"\nlast := 0", "for k, v in m {\n\tdelete(m, \"a\")\n\tdelete(m, \"b\")\n\tdelete(m, \"c\")\n\tlast = v\n}")
	st("iter/map-delete-all-test-value", m3, "for k, v in m {\n\tdelete(m, \"a\")\n\tdelete(m, \"b\")\n\tdelete(m, \"c\")\n\tif v == undefined {\n\t\tout := 1\n\t}\n\tif !v {\n\t\tout := 2\n\t}\n}")
	st("iter/map-delete-all-in-map-literal", m3+"\nkeep := {}", "for k, v in m {\n\tdelete(m, \"a\")\n\tdelete(m, \"b\")\n\tdelete(m, \"c\")\n\tkeep = {x: v}\n}\nout := keep == keep")
	st("iter/map-insert", m3, "for k, v in m {\n\tm[k + \"x\"] = 1\n}")
	st("iter/map-reassign", m3, "for k, v in m {\n\tm = {}\n}")
	st("iter/map-value-only-delete", m3, "for v in m {\n\tdelete(m, \"a\")\n\tdelete(m, \"b\")\n\tdelete(m, \"c\")\n\tx := [v]\n}")
	st("iter/immutable-map-delete", "m := immutable({a: 1})", "for k, v in m {\n\tdelete(m, k)\n}")
	st("iter/array-splice-head", a3, "for i, v in a {\n\tsplice(a, 0, 1)\n}")
	st("iter/array-splice-all", a3, "for i, v in a {\n\tsplice(a)\n\tx := v + 1\n}")
	st("iter/array-append-bounded", a3+"\nn := 0", "for i, v in a {\n\tif n < 100 {\n\t\ta = append(a, v)\n\t\tn++\n\t}\n}")
	st("iter/array-clear", a3, "for i, v in a {\n\ta = []\n}")
	st("iter/array-set-self", a3, "for i, v in a {\n\ta[i] = [v]\n}")
	st("iter/array-shrink-then-index", a3, "for i, v in a {\n\tsplice(a, 1)\n\tx := a[i]\n}")
	st("iter/string-grow", `s := "abc"`, "for i, c in s {\n\ts += \"x\"\n}")
	st("iter/bytes-grow", `b := bytes("abc")`, "for i, c in b {\n\tb += bytes(\"x\")\n}")
	st("iter/nested-same-map", m3, "for k, v in m {\n\tfor k2, v2 in m {\n\t\tdelete(m, k2)\n\t}\n\tx := v\n}")
	for _, e := range []string{"1", "1.5", "true", "undefined", "'a'", "len", "func() {}", "time(0)", `error("x")`} {
		st("iter/not-iterable/"+tag(e), "", "for k, v in "+e+" {\n\tout := v\n}")
	}
	st("iter/break-continue-deep", a3, "for i, v in a {\n\tfor j, w in a {\n\t\tif j == 1 {\n\t\t\tcontinue\n\t\t}\n\t\tif i == 1 {\n\t\t\tbreak\n\t\t}\n\t\tx := 1 / (j - 2)\n\t}\n}")

	// recursion
	for nl := 0; nl <= 3; nl++ {
		var loc string
		for i := 0; i < nl; i++ {
			loc += fmt.Sprintf("\tl%d := n\n", i)
		}
		st(fmt.Sprintf("recursion/non-tail/%d-locals", nl), "", fmt.Sprintf("f := func(n) {\n%s\treturn 1 + f(n + 1)\n}\nout := f(0)", loc))
	}
	st("recursion/non-tail/no-params", "", "f := func() {\n\treturn 1 + f()\n}\nout := f()")
	st("recursion/non-tail/16-locals", "", "f := func(n) {\n\ta0 := n; a1 := n; a2 := n; a3 := n; a4 := n; a5 := n; a6 := n; a7 := n\n\tb0 := n; b1 := n; b2 := n; b3 := n; b4 := n; b5 := n; b6 := n; b7 := n\n\treturn 1 + f(n + 1)\n}\nout := f(0)")
	st("recursion/non-tail/operands-pending", "", "f := func(n) {\n\treturn [n, n, n, n, n, n, n, f(n + 1)]\n}\nout := f(0)")
	st("recursion/mutual", "", "g := undefined\nf := func(n) {\n\treturn 1 + g(n)\n}\ng = func(n) {\n\treturn 1 + f(n)\n}\nout := f(0)")
	st("recursion/via-closure", "", "mk := func() {\n\th := undefined\n\th = func(n) {\n\t\treturn 1 + h(n + 1)\n\t}\n\treturn h\n}\nout := mk()(0)")
	st("recursion/variadic", "", "f := func(...a) {\n\treturn 1 + f(a...)\n}\nout := f(1, 2, 3)")
	st("recursion/variadic-growing", "", "f := func(...a) {\n\treturn 1 + f(append(a, 1)...)\n}\nout := f()")
	st("recursion/in-forin", "", "f := func(n) {\n\tfor x in [1] {\n\t\tf(n + 1)\n\t}\n\treturn 0\n}\nout := f(0)")
	st("recursion/depth-1022", "", "f := func(n) {\n\tif n == 0 {\n\t\treturn 0\n\t}\n\treturn 1 + f(n - 1)\n}\nout := f(1022)")
	st("recursion/depth-1023", "", "f := func(n) {\n\tif n == 0 {\n\t\treturn 0\n\t}\n\treturn 1 + f(n - 1)\n}\nout := f(1023)")
	st("recursion/depth-1024", "", "f := func(n) {\n\tif n == 0 {\n\t\treturn 0\n\t}\n\treturn 1 + f(n - 1)\n}\nout := f(1024)")
	// known non-terminating: the context must stop them
	for _, nt := range [][2]string{
		{"tail-recursion", "f := func(n) {\n\treturn f(n + 1)\n}\nout := f(0)"},
		{"tail-recursion-discarded", "f := func() {\n\tf()\n}\nf()"},
		{"for-ever", "for {\n}"},
		{"for-true", "x := 0\nfor true {\n\tx++\n}"},
		{"for-ever-calling", "f := func() { return 1 }\nfor {\n\tf()\n}"},
		{"for-ever-forin", "for {\n\tfor x in [1, 2] {\n\t}\n}"},
	} {
		a := st("nonterm/"+nt[0], "", nt[1])
		a.NonTerm = true
	}
	// calls
	f1 := "f := func(a) { return a }"
	for _, e := range []string{"f((1)...)", "f({}...)", "f([1, 2]...)", "f([]...)", "f(undefined...)", `f("ab"...)`, "f(immutable([1, 2])...)",
		"f()", "f(1, 2)", "len((1)...)", "len([]...)", "len([[1], [2]]...)"} {
		ex("call/spread/"+tag(e), f1, e)
	}
	for _, e := range []string{"1()", `"a"()`, "undefined()", "[1](0)", "{}()", "true()", "1.5()", `error("x")()`, "f(1)(2)", "len(len)()"} {
		ex("call/non-function/"+tag(e), f1, e)
	}
	ex("call/variadic-too-few", "g := func(a, b, ...c) { return c }", "g(1)")
	ex("call/variadic-spread-too-few", "g := func(a, b, ...c) { return c }", "g([1]...)")
	ex("call/spread-2100-into-variadic", "g := func(...c) { return len(c) }", "g(range(0, 2100)...)")
	ex("call/spread-2100-into-builtin", "", "append([], range(0, 2100)...)")
	ex("call/spread-2100-into-fixed", f1, "f(range(0, 2100)...)")
	ex("call/spread-70000", "g := func(...c) { return len(c) }", "g(range(0, 70000)...)")
	// wrong argument counts for every builtin
	for _, b := range tengo.GetAllBuiltinFunctions() {
		for n := 0; n <= 5; n++ {
			ex(fmt.Sprintf("builtin-argc/%s/%d", b.Name, n), "", b.Name+"("+repeatArgs(n, "1")+")")
		}
		ex(fmt.Sprintf("builtin-argc/%s/spread-empty", b.Name), "", b.Name+"([]...)")
		ex(fmt.Sprintf("builtin-argc/%s/undefined-x3", b.Name), "", b.Name+"(undefined, undefined, undefined)")
	}
	// host functions and host objects
	hf := func(name, fn, expr string) {
		a := ex("host/"+name, "", expr)
		a.Inputs = map[string]string{"hf": fn}
	}
	hf("fn-returns-nil", "h:fn-nil", "hf()")
	hf("fn-returns-nil-used", "h:fn-nil", "hf() + 1")
	hf("fn-returns-nil-stored", "h:fn-nil", "[hf(), {a: hf()}]")
	hf("fn-returns-error", "h:fn-err", "hf()")
	hf("fn-returns-wrong-args-error", "h:fn-err-wrongargs", "hf()")
	hf("fn-returns-arg-type-error", "h:fn-err-argtype", "hf()")
	hf("fn-returns-value-and-error", "h:fn-val-and-err", "hf()")
	hf("fn-panics-string", "h:fn-panic-string", "hf()")
	hf("fn-panics-error", "h:fn-panic-error", "hf()")
	hf("fn-panics-int", "h:fn-panic-int", "hf()")
	hf("fn-panics-runtime-error", "h:fn-panic-runtime", "hf()")
	hf("fn-panics-nil-error", "h:fn-panic-nilptr", "hf()")
	hf("fn-panics-in-loop", "h:fn-panic-string", "[hf(), hf()]")
	hf("fn-panics-spread", "h:fn-panic-string", "hf([1, 2]...)")
	hf("fn-panics-deep", "h:fn-panic-string", "(func() { return (func() { return hf() })() })()")
	for _, e := range []string{"string(hf())", "hf()[0] + 1", "len(hf())", "hf() == hf()", "copy(hf())", `format("%v", hf())`,
		"hf()[0]", "is_undefined(hf()[0])", "freeze(hf())", `"" + hf()`, "type_name(hf()[0])", "hf() + hf()", "append(hf(), 1)"} {
		hf("fn-nil-in-array/"+tag(e), "h:fn-nil-in-array", e)
	}
	st("host/fn-nil-in-array/forin", "", "for i, v in hf() {\n\tx := v + 1\n}").Inputs = map[string]string{"hf": "h:fn-nil-in-array"}
	for _, e := range []string{"h + 1", "1 + h", "h + h", "h == 1", "h == h", "h != h", "h[0]", "h.x", "h.x.y", "h()", "h(1, 2)", "h([1]...)",
		"!h", "-h", "^h", "h ? 1 : 2", "h && 1", "h || 1", "string(h)", "len(h)", "copy(h)", `format("%v", h)`, `format("%d", h)`,
		"immutable(h)", "error(h)", "[h]", "{a: h}", "h[1:2]", "h[:]", "(h + 1) + 1", "[h + 1]", "string(h + 1)", "h[0] + 1",
		"h() + 1", "type_name(h)", "is_callable(h)", "is_iterable(h)", "freeze(h)", "freeze([h])", "copy([h])", "[h] == [h]",
		`"" + h`, "int(h)", "bool(h)", "bytes(h)", "char(h)", "float(h)", "time(h)", "append([], h)", "append(h, 1)", "delete(h, \"a\")",
		"splice(h)", "range(h, 1)", "string([h + 1])", "string({a: h + 1})"} {
		a := ex("host/nilobj/"+tag(e), "", e)
		a.Inputs = map[string]string{"h": "h:nilobj"}
	}
	for _, b := range [][2]string{
		{"forin", "for k, v in h {\n\tx := v\n}"},
		{"index-assign", "h[0] = 1"},
		{"selector-assign", "h.x = 1"},
		{"selector-assign-deep", "h.x.y = 1"},
		{"compound-assign", "y := h\ny += 1\nz := y + 1"},
		{"result-into-global", "g1 := h + 1\ng2 := h[0]\ng3 := h()"},
		{"result-as-callee", "y := h + 1\ny()"},
		{"result-as-iterable", "for v in h[0] {\n}"},
		{"result-in-condition", "if h + 1 {\n\tout := 1\n}"},
	} {
		st("host/nilobj/"+b[0], "", b[1]).Inputs = map[string]string{"h": "h:nilobj"}
	}
	for _, e := range []string{"h + 1", "string(h)", "type_name(h)", "h == h", "copy(h)", `format("%v", h)`, "[h]", "h()", "h[0]", "!h", "len(h)"} {
		a := ex("host/bareobj/"+tag(e), "", e)
		a.Inputs = map[string]string{"h": "h:bareobj"}
	}
	// indexing and slicing
	seqs := []struct{ n, src string }{{"array", "[1, 2, 3]"}, {"imarray", "immutable([1, 2, 3])"}, {"string", `"abc"`},
		{"bytes", `bytes("abc")`}, {"map", "{a: 1}"}, {"immap", "immutable({a: 1})"}, {"error", `error("x")`},
		{"undefined", "undefined"}, {"int", "1"}, {"func", "len"}}
	idxs := []struct{ n, src string }{{"m1", "-1"}, {"3", "3"}, {"max", maxI}, {"min", minI}, {"2^32", "4294967296"}, {"2^63-2^32", "9223372032559808512"},
		{"f1.5", "1.5"}, {"str", `"a"`}, {"undef", "undefined"}, {"char", "'a'"}, {"true", "true"}, {"arr", "[0]"}, {"nan", "(0.0 / 0.0)"}}
	for _, s := range seqs {
		for _, i := range idxs {
			pre := "s := " + s.src + "\ni := " + i.src
			ex("index/get/"+s.n+"/"+i.n, pre, "s[i]")
			ex("index/slice-lo/"+s.n+"/"+i.n, pre, "s[i:]")
			ex("index/slice-hi/"+s.n+"/"+i.n, pre, "s[:i]")
			ex("index/slice-both/"+s.n+"/"+i.n, pre, "s[i:i]")
			st("index/set/"+s.n+"/"+i.n, pre, "s[i] = 1")
		}
		pre := "s := " + s.src
		ex("index/slice-2-1/"+s.n, pre, "s[2:1]")
		ex("index/slice-max-min/"+s.n, pre, "s["+maxI+":"+minI+"]")
		ex("index/slice-min-max/"+s.n, pre, "s["+minI+":"+maxI+"]")
		ex("index/slice-of-slice/"+s.n, pre, "s[1:][1:][1:][1:][0]")
	}
	// splice
	for _, e := range []string{"splice(a, -1)", "splice(a, 0, -1)", "splice(a, 4)", "splice(a, 3)", "splice(a, " + maxI + ", " + maxI + ")",
		"splice(a, 1, " + maxI + ")", "splice(a, " + minI + ")", "splice(a, 0, " + minI + ")", "splice(a, 0, 1, a)", "splice(a, 0, 0, a, a)",
		"splice(immutable(a))", "splice(a, 1.5)", `splice(a, "0")`, "splice(a, undefined, undefined)", "splice(a, 4294967296, 1)",
		"splice(a, 1, 4294967296)", "splice(a, 2, 9223372036854775806)", "splice()", `splice("abc")`, "splice(a, 3, 0, 1)"} {
		ex("splice/"+tag(e), a3, e)
	}
	for _, e := range []string{"splice(a, 0, 1, a)", "splice(a, 0, 0, a, a)"} {
		at := atomByName["splice/"+tag(e)]
		at.Group, at.SigOp, at.SigArg = "cyclic", "none", "cyclic-array-via-splice" // the array now contains itself and stays in a global
	}
	// append / delete / copy misc
	for _, e := range []string{"append(1, 2)", "append(undefined, 1)", "append(immutable([1]), 2)", "append(a, a)", "append(a, a...)",
		"delete({}, 1)", "delete([], 0)", `delete(immutable({a: 1}), "a")`, `delete({}, "a", "b")`, "copy(len)", "copy(func() {})",
		"int(\"x\")", `int("99999999999999999999")`, "float(\"x\")", `char("ab")`, `string(undefined)`, `bool()`, "int(1e300)", "int(0.0 / 0.0)", "char(1e300)"} {
		ex("builtin-misc/"+tag(e), a3, e)
	}
	// selectors
	for _, e := range []string{"x.a.b.c", "x.a()", "x[0][1][2]", "{}.a.b.c.d", "[].a", `"s".a`, "1 .a", "len.a", `error("e").value.value`, `error("e").x`} {
		ex("selector/get/"+tag(e), "x := undefined", e)
	}
	for _, b := range []string{"x.a = 1", "x.a.b = 1", "x[0] = 1", "y.a.b = 1", "y.a.b.c = 1", "i.a = 1", `s[0] = 'x'`, `e.value = 1`, "im.a = 1", "im[0] = 1", "f.a = 1"} {
		st("selector/set/"+tag(b), "x := undefined\ny := {}\ni := 1\ns := \"abc\"\ne := error(1)\nim := immutable([1])\nf := func() {}", b)
	}
	// immutability
	for _, b := range []string{"a[0] = 1", "a[5] = 1", "m.a = 1", "m.b.c = 1", `delete(m, "a")`, "splice(a, 0, 1)", "a[0][0] = 9"} {
		st("immutable/"+tag(b), "a := immutable([[1], 2])\nm := immutable({a: 1, b: {c: 2}})", b)
	}
	// a slice taken earlier shares the array's storage: shrinking / emptying the array afterwards must not leave
	// anything in the slice that later whole-container operations (in the script or in the follow-up API calls) trip over
	for _, b := range []string{"w := a[1:3]\nsplice(a, 0, 2)", "w := a[0:2]\nsplice(a)\nout := string(w)", "w := a[1:]\nsplice(a, 0, 3)\nx := w[0]",
		"w := a[:]\nsplice(a, 1)\nfor v in w {\n\tx := [v]\n}", "w := a[0:3]\nsplice(a, 1, 2)\nout := copy(w)", "w := a[2:]\nsplice(a, 2, 1)\nout := w == [3]",
		"w := a[1:2]\na = splice(a, 0, 3)\nout := format(\"%v\", w)"} {
		st("alias/slice-then-splice/"+tag(b), a3, b)
	}
	// format
	for _, e := range []string{`format("%2000000000d", 1)`, `format("%.2000000000f", 1.0)`, `format("%*d", 2000000000, 1)`, `format("%*d", -2000000000, 1)`,
		`format("%1000001d", 1)`, `format("%1000000d", 1)`, `format("%.*f", 2000000000, 1.0)`, `format("%*d", ` + maxI + `, 1)`, `format("%*d", ` + minI + `, 1)`,
		`format("%[2]d", 1)`, `format("%[99999999999999999999]d", 1)`, `format("%")`, `format("%!")`, `format("%d")`, `format("%d", 1, 2)`,
		`format("%c", -1)`, `format("%c", 1114112)`, `format("%U", ` + minI + `)`, `format("%x", "` + strings.Repeat("a", 100) + `")`,
		`format("%s", undefined)`, `format("%d", undefined)`, `format("%v", func() {})`, `format("%q", [1, "a"])`, `format("%08.3f", 0.0 / 0.0)`,
		`format("%999999s%999999s", "a", "b")`, `format(1)`, `format()`, `format(undefined, 1)`} {
		ex("format/"+tag(e), "", e)
	}
	// string / bytes limits (default limits: 2^31-1)
	sl := st("limit/string-doubling", `s := "x"`, "for {\n\ts += s\n}")
	sl.Group, sl.Heavy, sl.Post = "limit", true, "s = \"\""
	bl := st("limit/bytes-doubling", `b := bytes("x")`, "for {\n\tb += b\n}")
	bl.Group, bl.Heavy, bl.Post = "limit", true, "b = 0"
	// control flow oddities
	st("control/return-in-main", "", "return 1")
	st("control/error-in-deep-call", "", "f3 := func() { return 1 / 0 }\nf2 := func() { return f3() }\nf1 := func() { return f2() }\nout := f1()")
	st("control/error-in-module-function", "", "out := 1 + undefined")
	st("control/closure-over-loop-var", "", "fs := []\nfor i := 0; i < 3; i++ {\n\tfs = append(fs, func() { return 1 / (i - 3) })\n}\nout := fs[0]()")
	st("control/closure-escaping-then-error", "", "mk := func() {\n\tx := 0\n\treturn func() {\n\t\tx += 1\n\t\treturn 1 / (x - 2)\n\t}\n}\ng := mk()\ng()\nout := g()")
	st("control/condition-error", "", "if 1 + \"a\" {\n\tout := 1\n}")
	st("control/for-condition-error", "", "for i := 0; i < \"a\"; i++ {\n}")
	st("control/shadowed-builtin", "", "len := 1\nout := len([1])")
	st("control/export-in-main", "", "export 1")
}

// The registry is built on demand: a worker that only confirms one cyclic case
// (the bulk of all worker starts) builds the cyclic atoms only.
var allBuilt, cycBuilt bool
var regMu sync.Mutex

// allAtoms returns every atom in the canonical (index-defining) order.
func allAtoms() []*Atom {
	regMu.Lock()
	defer regMu.Unlock()
	if !allBuilt {
		atomList, atomByName = nil, map[string]*Atom{}
		addLight()
		addGenerated()
		addCyclic()
		addDeep()
		allBuilt, cycBuilt = true, true
	}
	return atomList
}

// atomNamed looks one atom up.
func atomNamed(name string) *Atom {
	if strings.HasPrefix(name, "cyc/") {
		regMu.Lock()
		if !cycBuilt {
			addCyclic()
			cycBuilt = true
		}
		a := atomByName[name]
		regMu.Unlock()
		return a
	}
	allAtoms()
	regMu.Lock()
	defer regMu.Unlock()
	return atomByName[name]
}
