package main

// The worker side: executes cases on the real implementation. A worker is a
// re-exec of the check binary (-worker) under ulimit -v and GOMAXPROCS=1; it
// reads commands from stdin and answers one line per case on stdout, flushed
// immediately, so that the parent knows which case was in flight when the
// worker dies.
//
//	parent -> worker:  range <lo> <hi> <solo>        run cases lo..hi-1 of the enumeration
//	                   case <solo> <json>             run one explicit case (replay)
//	worker -> parent:  T <idx> <call>                 trace / heartbeat: <call> is running (solo mode: before every call)
//	                   R <idx> <json result>          the case is finished
//
// After a call that did not return the worker is tainted (a goroutine is
// stuck or still burning memory): it reports and exits.

import (
	"bufio"
	"context"
	"encoding/json"
	"errors"
	"fmt"
	"os"
	"runtime"
	"runtime/debug"
	"strconv"
	"strings"
	"syscall"
	"time"

	"github.com/d5/tengo/v2"
	"github.com/d5/tengo/v2/token"
	"verif/engine/val"
)

type wfail struct {
	Sig  string `json:"s"`
	What string `json:"w"`
}

// Result is what a worker reports for one case.
type Result struct {
	Class    string  `json:"c"`           // ok | rt-error | recovered-panic | ctx-error | compile-error | compile-panic | skipped | harness-error
	Calls    int     `json:"n"`           // API calls executed
	Complete bool    `json:"k,omitempty"` // the whole call sequence completed and was checked
	NoReturn string  `json:"x,omitempty"` // call that did not return (worker exits afterwards)
	Err      string  `json:"e,omitempty"` // first line of the first run's error
	Fails    []wfail `json:"f,omitempty"`
	Detail   string  `json:"d,omitempty"`
	Obs      string  `json:"o,omitempty"` // observation that is not a verdict (e.g. a follow-up call panicking on a contract-breaking host value)
}

// ---- hostile host values

type nilObj struct{ tengo.ObjectImpl }

func (o *nilObj) TypeName() string                                         { return "nilobj" }
func (o *nilObj) String() string                                           { return "<nilobj>" }
func (o *nilObj) BinaryOp(token.Token, tengo.Object) (tengo.Object, error) { return nil, nil }
func (o *nilObj) IndexGet(tengo.Object) (tengo.Object, error)              { return nil, nil }
func (o *nilObj) IndexSet(tengo.Object, tengo.Object) error                { return nil }
func (o *nilObj) Call(...tengo.Object) (tengo.Object, error)               { return nil, nil }
func (o *nilObj) CanCall() bool                                            { return true }
func (o *nilObj) CanIterate() bool                                         { return true }
func (o *nilObj) Iterate() tengo.Iterator                                  { return nil }
func (o *nilObj) Copy() tengo.Object                                       { return o }
func (o *nilObj) IsFalsy() bool                                            { return false }
func (o *nilObj) Equals(tengo.Object) bool                                 { return false }

type bareObj struct{ tengo.ObjectImpl }

func (o *bareObj) TypeName() string   { return "bareobj" }
func (o *bareObj) String() string     { return "<bareobj>" }
func (o *bareObj) Copy() tengo.Object { return o }

type rawObj struct{ tengo.ObjectImpl } // nothing implemented: TypeName/String panic with ErrNotImplemented

func (o *rawObj) Copy() tengo.Object { return o }

func uf(f func(args ...tengo.Object) (tengo.Object, error)) tengo.Object {
	return &tengo.UserFunction{Name: "hf", Value: f}
}

func mkInput(name string) (tengo.Object, error) {
	if !strings.HasPrefix(name, "h:") {
		v, ok := val.ByName(name)
		if !ok {
			return nil, fmt.Errorf("unknown value %q", name)
		}
		return v.Mk(), nil
	}
	switch name {
	case "h:cyclic-array":
		a := &tengo.Array{Value: []tengo.Object{&tengo.Int{Value: 1}}}
		a.Value[0] = a
		return a, nil
	case "h:cyclic-map":
		m := &tengo.Map{Value: map[string]tengo.Object{}}
		m.Value["self"] = m
		return m, nil
	case "h:fn-nil":
		return uf(func(...tengo.Object) (tengo.Object, error) { return nil, nil }), nil
	case "h:fn-err":
		return uf(func(...tengo.Object) (tengo.Object, error) { return nil, errors.New("host function failed") }), nil
	case "h:fn-err-wrongargs":
		return uf(func(...tengo.Object) (tengo.Object, error) { return nil, tengo.ErrWrongNumArguments }), nil
	case "h:fn-err-argtype":
		return uf(func(...tengo.Object) (tengo.Object, error) {
			return nil, tengo.ErrInvalidArgumentType{Name: "x", Expected: "int", Found: "string"}
		}), nil
	case "h:fn-val-and-err":
		return uf(func(...tengo.Object) (tengo.Object, error) {
			return &tengo.Int{Value: 1}, errors.New("host function failed")
		}), nil
	case "h:fn-panic-string":
		return uf(func(...tengo.Object) (tengo.Object, error) { panic("boom") }), nil
	case "h:fn-panic-error":
		return uf(func(...tengo.Object) (tengo.Object, error) { panic(errors.New("boom error")) }), nil
	case "h:fn-panic-int":
		return uf(func(...tengo.Object) (tengo.Object, error) { panic(42) }), nil
	case "h:fn-panic-runtime":
		return uf(func(args ...tengo.Object) (tengo.Object, error) { return args[len(args)+3], nil }), nil
	case "h:fn-panic-nilptr":
		return uf(func(...tengo.Object) (tengo.Object, error) { var p *tengo.Int; return &tengo.Int{Value: p.Value}, nil }), nil
	case "h:fn-nil-in-array":
		return uf(func(...tengo.Object) (tengo.Object, error) { return &tengo.Array{Value: []tengo.Object{nil}}, nil }), nil
	case "h:nilobj":
		return &nilObj{}, nil
	case "h:bareobj":
		return &bareObj{}, nil
	case "h:rawobj":
		return &rawObj{}, nil
	}
	return nil, fmt.Errorf("unknown host value %q", name)
}

// ---- worker loop

var cyclicMaxStack = 4 << 20

type worker struct {
	out      *bufio.Writer
	solo     bool
	idx      int
	callTmo  time.Duration
	tainted  bool
	ncalls   int
	inflight string
}

func (w *worker) line(format string, a ...interface{}) {
	fmt.Fprintf(w.out, format+"\n", a...)
	w.out.Flush()
}

// call runs f (one API call) in its own goroutine: a panic that escapes the
// API is caught here (panic-reached-host), a call that does not come back
// within the limit is reported (the goroutine is abandoned, the worker exits
// after the case).
func (w *worker) call(name string, f func()) (returned bool, panicked string) {
	w.ncalls++
	if w.solo {
		w.line("T %d %s", w.idx, name)
	}
	done := make(chan string, 1)
	go func() {
		pv := ""
		defer func() {
			if r := recover(); r != nil {
				pv = fmt.Sprintf("%v\n%s", r, debug.Stack())
				if pv == "" {
					pv = "panic"
				}
			}
			done <- pv
		}()
		f()
	}()
	// the limit is in effective time (effclock.go): a starved worker is not a hanging call
	clk := newEffClock("self")
	t := time.NewTimer(time.Second)
	defer t.Stop()
	lastBeat := time.Now()
	for {
		select {
		case pv := <-done:
			return true, pv
		case <-t.C:
			if clk.Elapsed() >= w.callTmo {
				w.tainted = true
				return false, ""
			}
			if time.Since(lastBeat) >= 5*time.Second {
				w.line("T %d %s", w.idx, name) // heartbeat: the call is still running
				lastBeat = time.Now()
			}
			t.Reset(time.Second)
		}
	}
}

func firstLine(s string) string {
	if i := strings.IndexByte(s, '\n'); i >= 0 {
		s = s[:i]
	}
	if len(s) > 300 {
		s = s[:300] + "..."
	}
	return s
}

func errClass(err error, ctxErr error) string {
	switch {
	case err == nil:
		return "ok"
	case ctxErr != nil && errors.Is(err, ctxErr):
		return "ctx-error"
	case strings.HasPrefix(err.Error(), "Runtime Error:"):
		return "rt-error"
	default:
		return "recovered-panic" // RunContext converted a Go panic of its goroutine into the returned error
	}
}

// errCategory is a coarse class of the error text, for the outcome histogram only.
func errCategory(err error) string {
	if err == nil {
		return ""
	}
	s := err.Error()
	for _, k := range []string{"invalid operation", "index out of bounds", "index out of range", "wrong number of arguments",
		"invalid type for argument", "stack overflow", "not callable", "not indexable", "not index-assignable", "invalid index type",
		"not iterable", "division by zero", "exceeding string size limit", "exceeding bytes size limit", "invalid range step",
		"nil pointer dereference", "slice bounds out of range", "not implemented", "interface conversion", "invalid slice index",
		"not an array", "deadline exceeded", "boom", "unknown panic", "host function failed", "makeslice", "allocation limit",
		"invaid index value type", "invalid index value type"} {
		if strings.Contains(s, k) {
			return strings.ReplaceAll(k, " ", "-")
		}
	}
	return "other"
}

func (w *worker) runCase(c Case) (res Result) {
	p, err := build(c)
	if err != nil {
		return Result{Class: "harness-error", Detail: err.Error()}
	}
	if p.Skip != "" {
		return Result{Class: "skipped", Detail: p.Skip}
	}
	switch p.Group {
	case "cyclic":
		// Unbounded Go recursion overflows any stack limit; with the default 1 GB limit every death
		// costs 1.5 GB of freshly touched memory. The cyclic group runs with a 4 MB limit (tens of thousands of frames).
		old := debug.SetMaxStack(cyclicMaxStack)
		defer debug.SetMaxStack(old)
	case "limit":
		// reaching the default 2 GiB string/bytes limit means touching > 3 GiB: use the (process-wide, host-configurable) limits at 16 MiB
		oldS, oldB := tengo.MaxStringLen, tengo.MaxBytesLen
		tengo.MaxStringLen, tengo.MaxBytesLen = 1<<24, 1<<24
		defer func() { tengo.MaxStringLen, tengo.MaxBytesLen = oldS, oldB }()
	}
	if p.Group == "deep-heavy" {
		// legitimately long: 10^5 and more levels of nesting are built and walked three times
		old := w.callTmo
		w.callTmo *= 3
		defer func() { w.callTmo = old }()
	}
	w.ncalls = 0
	key := p.Key
	fail := func(kind, what string) {
		res.Fails = append(res.Fails, wfail{Sig: kind + "/" + key, What: what})
	}
	defer func() { res.Calls = w.ncalls }()

	mkInputs := func() (map[string]tengo.Object, error) {
		m := map[string]tengo.Object{}
		for n, vn := range p.Inputs {
			o, err := mkInput(vn)
			if err != nil {
				return nil, err
			}
			m[n] = o
		}
		return m, nil
	}
	inputs, err := mkInputs()
	if err != nil {
		return Result{Class: "harness-error", Detail: err.Error()}
	}
	var inName string
	for n := range p.Inputs {
		if inName == "" || n < inName {
			inName = n
		}
	}

	before := runtime.NumGoroutine()

	// compile (not part of the claim: a compile error is fine; a compile panic is recorded as an observation)
	var comp *tengo.Compiled
	var cerr error
	ret, pv := w.call("compile", func() {
		s := tengo.NewScript([]byte(p.Src))
		for n, o := range inputs {
			if e := s.Add(n, o); e != nil {
				cerr = e
				return
			}
		}
		if len(p.Mods) > 0 {
			mm := tengo.NewModuleMap()
			for n, src := range p.Mods {
				mm.AddSourceModule(n, []byte(src))
			}
			s.SetImports(mm)
		}
		comp, cerr = s.Compile()
	})
	if !ret {
		res.Class, res.NoReturn = "noreturn", "compile"
		return
	}
	if pv != "" {
		res.Class, res.Detail = "compile-panic", firstLine(pv)
		return
	}
	if cerr != nil {
		res.Class, res.Err = "compile-error", firstLine(cerr.Error())
		return
	}

	mkCtx := func() (context.Context, context.CancelFunc) {
		if p.NonTerm {
			return context.WithTimeout(context.Background(), 2*time.Second)
		}
		return context.Background(), func() {}
	}
	run := func(name string, c *tengo.Compiled) (err error, ok bool) {
		ctx, cancel := mkCtx()
		defer cancel()
		ret, pv := w.call(name, func() { err = c.RunContext(ctx) })
		if !ret {
			res.NoReturn = name
			return nil, false
		}
		if pv != "" {
			fail("panic-reached-host/"+name, "a Go panic escaped Compiled.RunContext: "+firstLine(pv))
			return nil, false
		}
		if p.NonTerm {
			if !errors.Is(err, context.DeadlineExceeded) {
				fail("nonterminating-run-returned/"+name, fmt.Sprintf("the script never terminates, yet RunContext (2 s deadline) returned %v instead of the context's error", err))
			}
		}
		return err, true
	}
	// plain calls: f returns a description of anything wrong it saw
	plain := func(name string, f func()) bool {
		ret, pv := w.call(name, f)
		if !ret {
			res.NoReturn = name
			return false
		}
		if pv != "" {
			if p.HostGarbage {
				// the host handed the script a value that breaks the Object contract (a nil element / nil results):
				// what a non-running call does with the host's own garbage is not the script's doing
				res.Obs = "host-garbage-panic-in-" + name
				return false
			}
			fail("panic-reached-host/"+name, "a Go panic escaped Compiled."+apiName(name)+" after the run: "+firstLine(pv))
			return false
		}
		return true
	}

	err1, ok := run("run1", comp)
	if res.NoReturn != "" {
		res.Class = "noreturn"
		return
	}
	res.Class = errClass(err1, context.DeadlineExceeded)
	if err1 != nil {
		res.Err = firstLine(err1.Error())
		res.Detail = errCategory(err1)
	}
	if !ok {
		res.Class = "panic-reached-host"
		return
	}

	steps := []struct {
		name string
		f    func()
	}{
		{"get", func() {
			v := comp.Get("out")
			if v == nil {
				fail("not-reusable/get-returned-nil", "Compiled.Get(\"out\") returned nil after the run")
			}
		}},
		{"getall", func() {
			for _, v := range comp.GetAll() {
				if v == nil {
					fail("not-reusable/getall-nil-variable", "Compiled.GetAll() contains a nil *Variable after the run")
				}
			}
		}},
		{"isdefined", func() { _ = comp.IsDefined("out") }},
	}
	for _, s := range steps {
		if !plain(s.name, s.f) {
			if res.NoReturn != "" {
				res.Class = "noreturn"
			}
			return
		}
	}
	if inName != "" {
		fresh, err := mkInputs()
		if err != nil {
			return Result{Class: "harness-error", Detail: err.Error()}
		}
		okSet := plain("set", func() {
			if e := comp.Set(inName, 1); e != nil {
				fail("not-reusable/set-failed", "Compiled.Set of an input variable failed after the run: "+e.Error())
			}
			// back to fresh copies of the original inputs (the script may have mutated the first ones)
			for n, o := range fresh {
				if e := comp.Set(n, o); e != nil {
					fail("not-reusable/set-failed", "Compiled.Set of an input variable failed after the run: "+e.Error())
				}
			}
		})
		if !okSet {
			if res.NoReturn != "" {
				res.Class = "noreturn"
			}
			return
		}
	}
	err2, ok := run("run2", comp)
	if res.NoReturn != "" {
		res.Class = "noreturn"
		return
	}
	if !ok {
		return
	}
	if (err1 == nil) != (err2 == nil) {
		fail("not-reusable/run2-differs", fmt.Sprintf("second RunContext on the same object with the same (fresh) inputs: first run returned %s, second %s",
			errText(err1), errText(err2)))
	}
	// differential with a fresh object: after a FAILED run, the same object given benign inputs must behave like
	// a freshly compiled one given the same inputs (a stale error / aborted flag / frame left by the failure shows here)
	if err1 != nil && inName != "" && !p.NonTerm && !p.HostGarbage {
		var fresh *tengo.Compiled
		var ferr error
		okF := plain("compile-fresh", func() {
			s := tengo.NewScript([]byte(p.Src))
			for n := range p.Inputs {
				if e := s.Add(n, 1); e != nil {
					ferr = e
					return
				}
			}
			if len(p.Mods) > 0 {
				mm := tengo.NewModuleMap()
				for n, src := range p.Mods {
					mm.AddSourceModule(n, []byte(src))
				}
				s.SetImports(mm)
			}
			fresh, ferr = s.Compile()
		})
		if okF && ferr == nil && fresh != nil {
			okSet := plain("set-benign", func() {
				for n := range p.Inputs {
					if e := comp.Set(n, 1); e != nil {
						fail("not-reusable/set-failed", "Compiled.Set of an input variable failed after the run: "+e.Error())
					}
				}
			})
			if !okSet {
				if res.NoReturn != "" {
					res.Class = "noreturn"
				}
				return
			}
			errU, ok := run("run3", comp)
			if res.NoReturn != "" {
				res.Class = "noreturn"
				return
			}
			if !ok {
				return
			}
			errF, ok := run("run3-fresh", fresh)
			if res.NoReturn != "" {
				res.Class = "noreturn"
				return
			}
			if !ok {
				return
			}
			if (errU == nil) != (errF == nil) || (errU != nil && firstLine(errU.Error()) != firstLine(errF.Error())) {
				fail("not-reusable/run-after-failure-differs-from-fresh-object", fmt.Sprintf("after a failed run, with every input set to 1: the used object returned %s, a freshly compiled one %s",
					errText(errU), errText(errF)))
			}
		}
	}
	var clone *tengo.Compiled
	if !plain("clone", func() { clone = comp.Clone() }) {
		if res.NoReturn != "" {
			res.Class = "noreturn"
		}
		return
	}
	if clone == nil {
		fail("not-reusable/clone-nil", "Compiled.Clone() returned nil")
		return
	}
	err3, ok := run("clone-run", clone)
	if res.NoReturn != "" {
		res.Class = "noreturn"
		return
	}
	if !ok {
		return
	}
	if (err1 == nil) != (err3 == nil) {
		// Not a verdict: Clone copies the globals with Object.Copy, and Copy of an immutable array/map is a
		// mutable one, so a clone may legitimately succeed where the original fails. Counted only.
		res.Obs = "clone-run-differs"
	}
	// goroutines: nothing started for this case may still be alive
	leak := true
	for i := 0; i < 100; i++ {
		if runtime.NumGoroutine() <= before {
			leak = false
			break
		}
		if i < 10 {
			runtime.Gosched()
		} else {
			time.Sleep(2 * time.Millisecond)
		}
	}
	if leak {
		fail("goroutine-leak", fmt.Sprintf("%d goroutines before the case, %d still alive 200 ms after its last call returned", before, runtime.NumGoroutine()))
	}
	res.Complete = true
	return
}

func apiName(call string) string {
	switch call {
	case "get":
		return "Get"
	case "getall":
		return "GetAll"
	case "isdefined":
		return "IsDefined"
	case "set":
		return "Set"
	case "clone":
		return "Clone"
	}
	return call
}

func errText(e error) string {
	if e == nil {
		return "nil"
	}
	return "error " + strconv.Quote(firstLine(e.Error()))
}

func workerMain(thorough bool, vmemKiB int) {
	if vmemKiB > 0 {
		lim := syscall.Rlimit{Cur: uint64(vmemKiB) * 1024, Max: uint64(vmemKiB) * 1024}
		if err := syscall.Setrlimit(syscall.RLIMIT_AS, &lim); err != nil {
			fmt.Printf("E cannot set RLIMIT_AS: %v\n", err)
			os.Exit(4)
		}
	}
	if v, err := strconv.Atoi(os.Getenv("C05_CYC_STACK")); err == nil && v > 0 {
		cyclicMaxStack = v // measurement aid
	}
	in := bufio.NewReaderSize(os.Stdin, 1<<20)
	w := &worker{out: bufio.NewWriterSize(os.Stdout, 1<<16)}
	// a worker never outlives its parent
	ppid := os.Getppid()
	go func() {
		for {
			time.Sleep(time.Second)
			if os.Getppid() != ppid {
				os.Exit(7)
			}
		}
	}()
	var space *Space
	for {
		ln, err := in.ReadString('\n')
		if err != nil {
			return
		}
		f := strings.SplitN(strings.TrimSpace(ln), " ", 3)
		switch f[0] {
		case "range":
			g := strings.Fields(ln)
			if len(g) != 4 {
				w.line("E bad command")
				continue
			}
			lo, _ := strconv.Atoi(g[1])
			hi, _ := strconv.Atoi(g[2])
			w.setMode(g[3] == "1")
			if space == nil {
				space = enumerate(thorough)
			}
			for i := lo; i < hi; i++ {
				w.idx = i
				w.emit(i, w.runCase(space.At(i)))
			}
		case "case":
			if len(f) != 3 {
				w.line("E bad command")
				continue
			}
			w.setMode(f[1] == "1")
			var c Case
			if err := json.Unmarshal([]byte(f[2]), &c); err != nil {
				w.line("E %v", err)
				continue
			}
			w.idx = -1
			w.emit(-1, w.runCase(c))
		case "quit":
			return
		}
	}
}

func (w *worker) setMode(solo bool) {
	w.solo = solo
	w.callTmo = 20 * time.Second
	if solo {
		w.callTmo = 60 * time.Second
	}
}

func (w *worker) emit(idx int, r Result) {
	b, _ := json.Marshal(r)
	w.line("R %d %s", idx, b)
	if w.tainted {
		os.Exit(3)
	}
}
