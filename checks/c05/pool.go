package main

// The parent side of process isolation: worker subprocesses, the line
// protocol, the watchdog, and the classification of worker deaths.

import (
	"bufio"
	"encoding/json"
	"fmt"
	"io"
	"os"
	"os/exec"
	"strconv"
	"strings"
	"sync"
	"syscall"
	"time"
)

const workerVMemKiB = 4194304 // ulimit -v for a worker: 4 GiB

// capBuf keeps the head and the tail of a stream.
type capBuf struct {
	mu   sync.Mutex
	head []byte
	tail []byte
	n    int64
}

func (c *capBuf) Write(p []byte) (int, error) {
	c.mu.Lock()
	defer c.mu.Unlock()
	c.n += int64(len(p))
	if room := 8192 - len(c.head); room > 0 {
		k := len(p)
		if k > room {
			k = room
		}
		c.head = append(c.head, p[:k]...)
		p2 := p[k:]
		c.tail = append(c.tail, p2...)
	} else {
		c.tail = append(c.tail, p...)
	}
	if len(c.tail) > 4096 {
		c.tail = append([]byte{}, c.tail[len(c.tail)-4096:]...)
	}
	return len(p), nil
}

func (c *capBuf) String() string {
	c.mu.Lock()
	defer c.mu.Unlock()
	if len(c.tail) == 0 {
		return string(c.head)
	}
	return string(c.head) + "\n...\n" + string(c.tail)
}

type proc struct {
	cmd    *exec.Cmd
	stdin  io.WriteCloser
	lines  chan string // closed at EOF of the worker's stdout
	stderr *capBuf
	waited chan struct{}
	state  *os.ProcessState
	werr   error
}

var procMu sync.Mutex
var liveProcs = map[*proc]bool{}
var spawned, exited int64

func startProc(thorough bool, vmemKiB int) (*proc, error) {
	self, err := os.Executable()
	if err != nil {
		self = os.Args[0]
	}
	tier := "quick"
	if thorough {
		tier = "thorough"
	}
	// the worker lowers its own RLIMIT_AS first thing (the same as `sh -c 'ulimit -v N; exec worker'`, one exec less)
	cmd := exec.Command(self, "-worker", tier, strconv.Itoa(vmemKiB))
	cmd.Env = append(os.Environ(), "GOMAXPROCS=1", "GOTRACEBACK=single")
	cmd.SysProcAttr = &syscall.SysProcAttr{Setpgid: true}
	p := &proc{cmd: cmd, stderr: &capBuf{}, lines: make(chan string, 1024), waited: make(chan struct{})}
	cmd.Stderr = p.stderr
	if p.stdin, err = cmd.StdinPipe(); err != nil {
		return nil, err
	}
	so, err := cmd.StdoutPipe()
	if err != nil {
		return nil, err
	}
	if err := cmd.Start(); err != nil {
		return nil, err
	}
	procMu.Lock()
	liveProcs[p] = true
	spawned++
	procMu.Unlock()
	go func() {
		rd := bufio.NewReaderSize(so, 1<<20)
		for {
			ln, err := rd.ReadString('\n')
			if ln != "" && strings.HasSuffix(ln, "\n") {
				p.lines <- strings.TrimRight(ln, "\n")
			}
			if err != nil {
				break
			}
		}
		p.werr = cmd.Wait() // also waits for the stderr copier
		p.state = cmd.ProcessState
		procMu.Lock()
		delete(liveProcs, p)
		exited++
		procMu.Unlock()
		close(p.waited)
		close(p.lines)
	}()
	return p, nil
}

func (p *proc) send(format string, a ...interface{}) error {
	_, err := fmt.Fprintf(p.stdin, format+"\n", a...)
	return err
}

// kill terminates the worker (and anything in its process group) and waits for it.
func (p *proc) kill() {
	if p == nil {
		return
	}
	_ = p.stdin.Close()
	if p.cmd.Process != nil {
		_ = syscall.Kill(-p.cmd.Process.Pid, syscall.SIGKILL)
		_ = p.cmd.Process.Kill()
	}
	<-p.waited
}

// quit asks the worker to leave and waits; kills it if it does not.
func (p *proc) quit() {
	if p == nil {
		return
	}
	_ = p.send("quit")
	_ = p.stdin.Close()
	select {
	case <-p.waited:
	case <-time.After(5 * time.Second):
		p.kill()
	}
}

func killAllProcs() {
	procMu.Lock()
	var ps []*proc
	for p := range liveProcs {
		ps = append(ps, p)
	}
	procMu.Unlock()
	for _, p := range ps {
		if p.cmd.Process != nil {
			_ = syscall.Kill(-p.cmd.Process.Pid, syscall.SIGKILL)
			_ = p.cmd.Process.Kill()
		}
	}
}

// exitStatus describes how the worker ended.
func (p *proc) exitStatus() string {
	<-p.waited
	if p.state == nil {
		return "unknown"
	}
	if ws, ok := p.state.Sys().(syscall.WaitStatus); ok {
		if ws.Signaled() {
			return "signal-" + ws.Signal().String()
		}
		return "exit-" + strconv.Itoa(ws.ExitStatus())
	}
	return p.state.String()
}

// deathClass reduces a dead worker's stderr and exit status to a class.
func deathClass(stderr, status string) string {
	switch {
	case strings.Contains(stderr, "fatal error: stack overflow"):
		return "fatal-stack-overflow"
	case strings.Contains(stderr, "fatal error: runtime: out of memory"),
		strings.Contains(stderr, "fatal error: out of memory"),
		strings.Contains(stderr, "cannot allocate memory"),
		strings.Contains(stderr, "fatal error: runtime: cannot allocate"):
		return "fatal-out-of-memory"
	case strings.Contains(stderr, "fatal error: all goroutines are asleep"):
		return "fatal-deadlock"
	case strings.Contains(stderr, "\npanic: ") || strings.HasPrefix(stderr, "panic: "):
		return "unrecovered-panic"
	case strings.Contains(stderr, "fatal error: "):
		i := strings.Index(stderr, "fatal error: ")
		s := stderr[i+len("fatal error: "):]
		if j := strings.IndexByte(s, '\n'); j >= 0 {
			s = s[:j]
		}
		return "fatal-" + strings.Join(strings.Fields(s), "-")
	}
	return strings.ReplaceAll(status, " ", "-")
}

// stderrEvidence extracts the informative lines of a dead worker's stderr.
func stderrEvidence(stderr string) string {
	var keep []string
	ls := strings.Split(stderr, "\n")
	prev, rep := "", 0
	for i, l := range ls {
		// the recursion shows as the same frame over and over: keep three of a kind
		if strings.HasPrefix(l, "\t") {
			continue // file:line of the frame above
		}
		base := l
		if j := strings.IndexByte(base, '('); j > 0 {
			base = base[:j]
		}
		if base == prev {
			rep++
			if rep >= 3 {
				continue
			}
		} else {
			prev, rep = base, 0
		}
		if strings.HasPrefix(l, "fatal error:") || strings.HasPrefix(l, "panic:") || strings.HasPrefix(l, "runtime:") ||
			strings.HasPrefix(l, "runtime stack:") || strings.HasPrefix(l, "goroutine ") || strings.Contains(l, "tengo") && i < 60 {
			keep = append(keep, l)
		}
		if len(keep) >= 24 {
			break
		}
	}
	s := strings.Join(keep, "\n")
	if s == "" {
		s = stderr
	}
	if len(s) > 2500 {
		s = s[:2500] + "..."
	}
	return s
}

// attempt is the outcome of running one case (or a range) in a worker.
type attempt struct {
	kind   string // done | died | noreturn | stalled
	idx    int    // index in flight (died/stalled) or reported (noreturn)
	call   string // last call known to be running
	class  string // death class
	stderr string
	status string
	res    *Result
}

// collect reads the answers for lo..hi-1 from p. handle is called for every
// finished case that needs no investigation. It returns when the range is
// done or the worker needs attention.
func collect(p *proc, lo, hi int, quiet time.Duration, handle func(idx int, r *Result)) attempt {
	next := lo
	call := ""
	// quiet is measured in the worker's effective time (effclock.go): silence of a starved worker is not a stall
	clk := newEffClock(strconv.Itoa(p.cmd.Process.Pid))
	t := time.NewTicker(time.Second)
	defer t.Stop()
	gotLine := false
	for next < hi {
		select {
		case ln, ok := <-p.lines:
			if !ok {
				st := p.exitStatus()
				se := p.stderr.String()
				return attempt{kind: "died", idx: next, call: call, class: deathClass(se, st), stderr: se, status: st}
			}
			gotLine = true
			f := strings.SplitN(ln, " ", 3)
			switch f[0] {
			case "T":
				if len(f) == 3 {
					call = f[2]
				}
			case "R":
				if len(f) != 3 {
					continue
				}
				idx, _ := strconv.Atoi(f[1])
				var r Result
				if err := json.Unmarshal([]byte(f[2]), &r); err != nil {
					r = Result{Class: "harness-error", Detail: "bad result line: " + ln}
				}
				if idx != next && lo >= 0 {
					r = Result{Class: "harness-error", Detail: fmt.Sprintf("answer for %d while waiting for %d", idx, next)}
				}
				if r.NoReturn != "" {
					// the worker leaves after this line
					select {
					case <-p.waited:
					case <-time.After(10 * time.Second):
						p.kill()
					}
					return attempt{kind: "noreturn", idx: next, call: r.NoReturn, res: &r, stderr: p.stderr.String()}
				}
				handle(next, &r)
				next++
				call = ""
			case "E":
				handle(next, &Result{Class: "harness-error", Detail: ln})
				next++
			}
		case <-t.C:
			if gotLine {
				gotLine = false
				clk.Reset()
				continue
			}
			if clk.Elapsed() < quiet {
				continue
			}
			p.kill()
			return attempt{kind: "stalled", idx: next, call: call, stderr: p.stderr.String(), status: "killed-by-watchdog"}
		}
	}
	return attempt{kind: "done", idx: hi}
}
