package main

// Deterministic index <-> case mapping and the program builder.

import (
	"fmt"
	"math"
	"math/big"
	"os"
	"sort"
	"strings"

	"github.com/d5/tengo/v2"
	"verif/engine/val"
)

// Case is the JSON-serialisable description of one element of the space.
// Family/Atom/Atom2/Placement/Op/Args determine the program; the remaining
// fields are filled in for evidence and replay output only.
type Case struct {
	Family    string            `json:"family"`
	Atom      string            `json:"atom,omitempty"`
	Atom2     string            `json:"atom2,omitempty"`
	Placement string            `json:"placement,omitempty"`
	Op        string            `json:"op,omitempty"`
	Args      []string          `json:"args,omitempty"`
	Source    string            `json:"source,omitempty"`
	Modules   map[string]string `json:"modules,omitempty"`
	Inputs    map[string]string `json:"inputs,omitempty"`
	Observed  string            `json:"observed,omitempty"`
	Stderr    string            `json:"worker_stderr,omitempty"`
}

// Prog is a built case.
type Prog struct {
	Src         string
	Mods        map[string]string
	Inputs      map[string]string
	NonTerm     bool
	Heavy       bool
	Skip        string // non-empty: excluded class (counted, not run)
	Group       string // atom group (worker configuration: see runCase)
	HostGarbage bool   // an input breaks the Object contract (nil inside an Array, nil results)
	SigOp       string
	SigArg      string
	Key         string // signature suffix naming the input class
}

var placements = []string{"main", "func", "closure", "module", "loop", "builtin-arg", "forin-header"}

func indent(s string) string {
	if s == "" {
		return ""
	}
	ls := strings.Split(s, "\n")
	for i := range ls {
		if ls[i] != "" {
			ls[i] = "\t" + ls[i]
		}
	}
	return strings.Join(ls, "\n")
}

func join(parts ...string) string {
	var out []string
	for _, p := range parts {
		if strings.TrimSpace(p) != "" {
			out = append(out, p)
		}
	}
	return strings.Join(out, "\n")
}

func bodyOf(a *Atom) string {
	if a.Body != "" {
		return a.Body
	}
	return "out := " + a.Expr
}

// place puts an atom into a syntactic context.
func place(a *Atom, pl string) (src string, mods map[string]string, err error) {
	a.mat()
	body := bodyOf(a)
	switch pl {
	case "main":
		return join(a.Pre, body, a.Post) + "\n", nil, nil
	case "func":
		return "pl_f := func() {\n" + indent(join(a.Pre, body, a.Post)) + "\n}\npl_f()\n", nil, nil
	case "closure":
		return "pl_g := func() {\n" + indent(join(a.Pre, "return func() {\n"+indent(join(body, a.Post))+"\n}")) + "\n}\npl_g()()\n", nil, nil
	case "loop":
		return "for pl_i := 0; pl_i < 2; pl_i++ {\n" + indent(join(a.Pre, body, a.Post)) + "\n}\n", nil, nil
	case "module":
		if len(a.Inputs) == 0 {
			return "pl_m := import(\"pl_mod\")\n", map[string]string{"pl_mod": join(a.Pre, body, a.Post, "export 1") + "\n"}, nil
		}
		// host inputs are globals of the main program: hand them to the module's function
		var names []string
		for n := range a.Inputs {
			names = append(names, n)
		}
		sort.Strings(names)
		ps := strings.Join(names, ", ")
		return "pl_m := import(\"pl_mod\")(" + ps + ")\n",
			map[string]string{"pl_mod": "export func(" + ps + ") {\n" + indent(join(a.Pre, body, a.Post)) + "\n}\n"}, nil
	case "builtin-arg":
		if a.Body == "" {
			return join(a.Pre, "out := type_name("+a.Expr+")", a.Post) + "\n", nil, nil
		}
		return join(a.Pre, "out := type_name((func() {\n"+indent(body)+"\n})())", a.Post) + "\n", nil, nil
	case "forin-header":
		if a.Body == "" {
			return join(a.Pre, "for pl_k, pl_v in ["+a.Expr+"] {\n\tout := pl_v\n}", a.Post) + "\n", nil, nil
		}
		return join(a.Pre, "for pl_k, pl_v in (func() {\n"+indent(join(body, "return [1]"))+"\n})() {\n\tout := pl_v\n}", a.Post) + "\n", nil, nil
	}
	return "", nil, fmt.Errorf("unknown placement %q", pl)
}

func hostGarbage(a *Atom) bool {
	for _, v := range a.Inputs {
		if v == "h:fn-nil-in-array" || v == "h:nilobj" {
			return true
		}
	}
	return false
}

var binOps = []string{"+", "-", "*", "/", "%", "&", "|", "^", "&^", "<<", ">>", "<", "<=", ">", ">=", "==", "!=", "&&", "||"}
var unOps = []string{"!", "-", "^", "+"}
var selNames = []string{"a", "value", "zz"}

func valKinds(names []string) string {
	var ks []string
	for _, n := range names {
		if v, ok := val.ByName(n); ok {
			ks = append(ks, v.Kind)
		} else {
			ks = append(ks, n)
		}
	}
	return strings.Join(ks, ",")
}

func intOf(name string) (int64, bool) {
	v, ok := val.ByName(name)
	if !ok {
		return 0, false
	}
	if i, ok := v.Mk().(*tengo.Int); ok {
		return i.Value, true
	}
	return 0, false
}

// rangeClass classifies a call of range with integer arguments: the number of
// elements the documented semantics asks for, and whether the implementation's
// loop counter (start + k*step in int64) leaves int64 before reaching stop.
func rangeClass(start, stop, step int64) (count *big.Int, overflows bool) {
	if step <= 0 {
		return big.NewInt(0), false
	}
	d := new(big.Int).Sub(big.NewInt(stop), big.NewInt(start))
	d.Abs(d)
	st := big.NewInt(step)
	count = new(big.Int).Add(d, new(big.Int).Sub(st, big.NewInt(1)))
	count.Div(count, st)
	// last value generated + step must stay inside int64 for the loop to end
	last := new(big.Int).Mul(count, st) // distance covered when the loop test fails
	var end *big.Int
	if start <= stop {
		end = new(big.Int).Add(big.NewInt(start), last)
		overflows = end.Cmp(big.NewInt(math.MaxInt64)) > 0
	} else {
		end = new(big.Int).Sub(big.NewInt(start), last)
		overflows = end.Cmp(big.NewInt(math.MinInt64)) < 0
	}
	return count, overflows
}

const maxExcludedAlloc = 1 << 20

// build constructs the program of a case.
func build(c Case) (*Prog, error) {
	switch c.Family {
	case "atom":
		a := atomNamed(c.Atom)
		if a == nil {
			return nil, fmt.Errorf("unknown atom %q", c.Atom)
		}
		src, mods, err := place(a, c.Placement)
		if err != nil {
			return nil, err
		}
		return &Prog{Src: src, Mods: mods, Inputs: a.Inputs, NonTerm: a.NonTerm, Heavy: a.Heavy, Group: a.Group, HostGarbage: hostGarbage(a),
			SigOp: a.SigOp, SigArg: a.SigArg, Key: "atom=" + a.Name}, nil
	case "pair":
		a1, a2 := atomNamed(c.Atom), atomNamed(c.Atom2)
		if a1 == nil || a2 == nil {
			return nil, fmt.Errorf("unknown atom %q / %q", c.Atom, c.Atom2)
		}
		in := map[string]string{}
		for k, v := range a1.Inputs {
			in[k] = v
		}
		for k, v := range a2.Inputs {
			in[k] = v
		}
		a1.mat()
		a2.mat()
		src := "(func() {\n" + indent(join(a1.Pre, bodyOf(a1), a1.Post)) + "\n})()\n" + join(a2.Pre, bodyOf(a2), a2.Post) + "\n"
		// the second atom runs at top level: what is left in the globals (and so what the follow-up calls meet) is its doing;
		// a pair failing like its second atom alone is the same finding
		return &Prog{Src: src, Inputs: in, Key: "atom=" + a2.Name, HostGarbage: hostGarbage(a1) || hostGarbage(a2)}, nil
	}
	// value-level families: host inputs a, b, c
	in := map[string]string{}
	for i, n := range c.Args {
		if n == "omitted" {
			continue
		}
		if _, ok := val.ByName(n); !ok {
			return nil, fmt.Errorf("unknown value %q", n)
		}
		in[string(rune('a'+i))] = n
	}
	p := &Prog{Inputs: in, Key: c.Family + "/op=" + c.Op + "/kinds=" + valKinds(c.Args)}
	switch c.Family {
	case "expr2":
		p.Src = "out := a " + c.Op + " b\n"
	case "unary":
		p.Src = "out := " + c.Op + "a\n"
	case "ternary":
		p.Src = "out := a ? 1 : 2\n"
	case "selector":
		p.Src = "out := a." + c.Op + "\n"
	case "index":
		p.Src = "out := a[b]\n"
	case "indexset":
		p.Src = "x := a\nx[b] = 99\n"
	case "indexset2":
		p.Src = "x := a\nx[b][c] = 99\n"
	case "slice":
		lo, hi := "b", "c"
		if c.Args[1] == "omitted" {
			lo = ""
		}
		if c.Args[2] == "omitted" {
			hi = ""
		}
		p.Src = "out := a[" + lo + ":" + hi + "]\n"
	case "builtin":
		var as []string
		for i := range c.Args {
			as = append(as, string(rune('a'+i)))
		}
		p.Src = "out := " + c.Op + "(" + strings.Join(as, ", ") + ")\n"
		switch c.Op {
		case "range":
			// excluded: a request for an unboundedly large array (more than 2^20 elements by the documented semantics)
			if len(c.Args) >= 2 {
				s0, ok0 := intOf(c.Args[0])
				s1, ok1 := intOf(c.Args[1])
				step, ok2 := int64(1), true
				if len(c.Args) >= 3 {
					step, ok2 = intOf(c.Args[2])
				}
				if ok0 && ok1 && ok2 && len(c.Args) <= 3 {
					cnt, ovf := rangeClass(s0, s1, step)
					if cnt.Cmp(big.NewInt(maxExcludedAlloc)) > 0 {
						p.Skip = "range-with-more-than-2^20-elements"
					} else if ovf {
						p.SigOp, p.SigArg = "range", "counter-overflow" // signature of the (repaired) run-away loop, should it return
					}
				}
			}
		case "bytes":
			if len(c.Args) == 1 {
				if n, ok := intOf(c.Args[0]); ok && n > maxExcludedAlloc && n <= int64(tengo.MaxBytesLen) {
					p.Skip = "bytes(N)-with-N>2^20"
				}
			}
		}
	default:
		return nil, fmt.Errorf("unknown family %q", c.Family)
	}
	return p, nil
}

// ---- the enumeration

type vcase struct {
	fam  uint8
	op   uint8
	n    uint8
	args [4]int16
}

var vfamNames = []string{"expr2", "unary", "ternary", "selector", "index", "indexset", "indexset2", "slice", "builtin"}

type acase struct {
	atom, atom2 int32
	pl          int8 // -1: pair
}

// Space is the whole enumerated space of a tier.
type Space struct {
	atoms    []acase
	vals     []vcase
	valNames []string // value alphabet + "omitted"
	builtins []string

	valsBuilt bool
	thorough  bool
}

// Sub-alphabets of the quick tier (every kind and the boundary values kept); the thorough tier uses all of val.All().
var quickPairAlphabet = []string{"undefined", "true", "false", "i0", "i1", "i-1", "i3", "imin", "imax", "f0", "f1.5", "fnan",
	"ca", "cmax", "s-empty", "s-a", "s-12", "s-badutf8", "b-empty", "b-a", "a-empty", "a-123", "ia-123", "m-empty", "m-a1", "im-a1",
	"e-x", "t-ref", "fn-builtin", "fn-user"}
var quickBuiltinAlphabet = []string{"undefined", "true", "i0", "i1", "i-1", "imin", "imax", "f1.5", "fnan", "ca", "s-a", "s-12", "b-a",
	"a-123", "ia-123", "m-a1", "im-a1", "e-x", "t-ref", "fn-user"}

func (s *Space) Len() int { s.buildVals(); return len(s.atoms) + len(s.vals) }

func (s *Space) At(i int) Case {
	if i >= len(s.atoms) {
		s.buildVals()
	}
	if i < len(s.atoms) {
		a := s.atoms[i]
		if a.pl < 0 {
			return Case{Family: "pair", Atom: allAtoms()[a.atom].Name, Atom2: allAtoms()[a.atom2].Name}
		}
		return Case{Family: "atom", Atom: allAtoms()[a.atom].Name, Placement: placements[a.pl]}
	}
	v := s.vals[i-len(s.atoms)]
	c := Case{Family: vfamNames[v.fam]}
	switch c.Family {
	case "expr2":
		c.Op = binOps[v.op]
	case "unary":
		c.Op = unOps[v.op]
	case "selector":
		c.Op = selNames[v.op]
	case "builtin":
		c.Op = s.builtins[v.op]
	}
	c.Args = []string{}
	for k := 0; k < int(v.n); k++ {
		c.Args = append(c.Args, s.valNames[v.args[k]])
	}
	return c
}

// Kind tells the scheduler (without building program text) how a case is run:
// "light" (batched), "single" (expected to kill its worker: run alone in fresh workers
// right away) or "heavy" (memory/time hungry: few at a time).
func (s *Space) Kind(i int) string {
	if i < len(s.atoms) {
		a := s.atoms[i]
		if a.pl < 0 {
			return "light"
		}
		at := allAtoms()[a.atom]
		switch {
		case at.Group == "cyclic":
			return "single"
		case at.Heavy:
			return "heavy"
		}
	}
	return "light"
}

// quickShapes are the cyclic shapes of the quick tier (all operations, main placement).
var quickShapes = []string{"cyclic-array", "cyclic-map", "cyclic-pair", "cyclic-immutable-array"}

func quickSkipsShape(a *Atom) bool {
	if !strings.HasPrefix(a.Name, "cyc/") {
		return false
	}
	for _, sh := range quickShapes {
		if strings.HasPrefix(a.Name, "cyc/"+sh+"/") {
			return false
		}
	}
	return true
}

// cyclicEverywhere selects the part of the cyclic matrix that the thorough tier puts into all seven placements
// (the whole matrix is run in main and function placement): every crashing cyclic case costs three worker processes.
func cyclicEverywhere(a *Atom) bool {
	if a.Group != "cyclic" {
		return false
	}
	for _, sh := range []string{"cyclic-array", "cyclic-map", "cyclic-immutable-array", "cyclic-error"} {
		for _, op := range []string{"string", "eq-self", "copy", "freeze", "format-v", "str-concat", "len", "kept-in-global"} {
			if a.Name == "cyc/"+sh+"/"+op {
				return true
			}
		}
	}
	return false
}

func placementsFor(a *Atom, thorough bool) []string {
	if thorough {
		switch a.Group {
		case "limit", "deep-heavy":
			return []string{"main", "func"}
		case "cyclic":
			if cyclicEverywhere(a) {
				return placements
			}
			return []string{"main", "func"}
		}
		return placements
	}
	switch a.Group {
	case "light":
		if a.NonTerm {
			return []string{"main", "func", "module"} // each case spins for 3 x 2 s
		}
		return placements
	case "deep":
		return []string{"main", "func"}
	}
	return []string{"main"}
}

func pairFirst(a *Atom) bool {
	if a.Group != "light" || a.NonTerm {
		return false
	}
	for _, p := range []string{"iter/", "host/fn-returns-nil", "host/nilobj/", "selector/get/", "host/fn-nil-in-array/"} {
		if strings.HasPrefix(a.Name, p) {
			return true
		}
	}
	return false
}

func pairSecond(a *Atom) bool {
	if a.Group != "light" || a.NonTerm {
		return false
	}
	for _, p := range []string{"builtin-argc/", "index/", "opstack/", "literal/", "locals/", "params/", "freevars/", "globals/", "call/many"} {
		if strings.HasPrefix(a.Name, p) {
			return false
		}
	}
	return true
}

func inputsCompatible(a, b *Atom) bool {
	for k, v := range a.Inputs {
		if w, ok := b.Inputs[k]; ok && w != v {
			return false
		}
	}
	return true
}

func enumerate(thorough bool) *Space {
	s := &Space{thorough: thorough}
	plIdx := map[string]int8{}
	for i, p := range placements {
		plIdx[p] = int8(i)
	}
	only := os.Getenv("C05_ATOMS") // debugging aid: restrict the hostile family to atoms with this name prefix (run is marked not exhaustive)
	atomList := allAtoms()
	for ai, a := range atomList {
		if strings.HasPrefix(only, "!") {
			if strings.HasPrefix(a.Name, only[1:]) {
				continue
			}
		} else if only != "" && !strings.HasPrefix(a.Name, only) {
			continue
		}
		if !thorough && quickSkipsShape(a) {
			continue // the other cyclic shapes: thorough tier only
		}
		for _, p := range placementsFor(a, thorough) {
			s.atoms = append(s.atoms, acase{atom: int32(ai), pl: plIdx[p]})
		}
	}
	if thorough {
		for i, a := range atomList {
			if !pairFirst(a) {
				continue
			}
			for j, b := range atomList {
				if pairSecond(b) && inputsCompatible(a, b) {
					s.atoms = append(s.atoms, acase{atom: int32(i), atom2: int32(j), pl: -1})
				}
			}
		}
	}
	return s
}

// buildVals enumerates the value-level families of C01 (host-input form); done on first use
// (a worker that only serves hostile atoms never pays for it).
func (s *Space) buildVals() {
	if s.valsBuilt {
		return
	}
	s.valsBuilt = true
	if os.Getenv("C05_NOVALS") != "" {
		return
	}
	V := val.All()
	idx := map[string]int16{}
	for i, v := range V {
		s.valNames = append(s.valNames, v.Name)
		idx[v.Name] = int16(i)
	}
	s.valNames = append(s.valNames, "omitted")
	idx["omitted"] = int16(len(V))
	fam := map[string]uint8{}
	for i, n := range vfamNames {
		fam[n] = uint8(i)
	}
	add := func(f string, op int, args ...int16) {
		v := vcase{fam: fam[f], op: uint8(op), n: uint8(len(args))}
		copy(v.args[:], args)
		s.vals = append(s.vals, v)
	}
	// the alphabets: all of V (thorough) or the quick sub-alphabets (names missing from V are skipped)
	var pairA, builtinA []int16
	if s.thorough {
		for i := range V {
			pairA = append(pairA, int16(i))
		}
		builtinA = pairA
	} else {
		for _, n := range quickPairAlphabet {
			if i, ok := idx[n]; ok {
				pairA = append(pairA, i)
			}
		}
		for _, n := range quickBuiltinAlphabet {
			if i, ok := idx[n]; ok {
				builtinA = append(builtinA, i)
			}
		}
	}
	for _, a := range pairA {
		for o := range unOps {
			add("unary", o, a)
		}
		add("ternary", 0, a)
		for o := range selNames {
			add("selector", o, a)
		}
		for _, b := range pairA {
			for o := range binOps {
				add("expr2", o, a, b)
			}
			add("index", 0, a, b)
			add("indexset", 0, a, b)
		}
	}
	idxAlpha := []string{"omitted", "undefined", "i-1", "i0", "i1", "i2", "i3", "imax", "imin", "s-0", "f1.5"}
	for _, a := range pairA {
		switch V[a].Kind {
		case "array", "imarray", "string", "bytes", "map", "undefined", "int":
		default:
			continue
		}
		for _, lo := range idxAlpha {
			for _, hi := range idxAlpha {
				add("slice", 0, a, idx[lo], idx[hi])
			}
		}
		for _, i := range []string{"i0", "i1", "i-1", "s-a", "s-ab", "undefined"} {
			for _, j := range []string{"i0", "i1", "s-a", "s-0", "f1.5", "undefined"} {
				add("indexset2", 0, a, idx[i], idx[j])
			}
		}
	}
	for _, b := range tengo.GetAllBuiltinFunctions() {
		s.builtins = append(s.builtins, b.Name)
	}
	for bi := range s.builtins {
		add("builtin", bi)
		for _, x := range builtinA {
			add("builtin", bi, x)
			for _, y := range builtinA {
				add("builtin", bi, x, y)
			}
		}
	}
	small := []string{"i0", "i1", "i2", "i-1", "i3", "imax", "imin", "s-a", "undefined", "f1.5"}
	for bi, b := range s.builtins {
		if b != "splice" && b != "range" && b != "append" && b != "format" {
			continue
		}
		for _, x := range []string{"a-123", "a-empty", "ia-123", "i0", "i1", "i3", "i-1", "s-12"} {
			for _, y := range small {
				for _, z := range small {
					add("builtin", bi, idx[x], idx[y], idx[z])
					if b == "splice" {
						for _, w := range []string{"i0", "s-a"} {
							add("builtin", bi, idx[x], idx[y], idx[z], idx[w])
						}
					}
				}
			}
		}
	}
}
