// C05: no script can take the host down through the context-aware run path.
//
// Every case (a hostile program + host inputs) is compiled and run through
// Compiled.RunContext in a worker subprocess (ulimit -v 4 GiB, GOMAXPROCS=1),
// followed on the same object by Get / GetAll / IsDefined / Set / RunContext /
// Clone().RunContext. Oracle: the worker survives, every call returns, no Go
// panic escapes an API call, a never-terminating script is stopped by its
// context, the object stays usable (second run and the clone's run agree with
// the first on nil-ness of the error when the inputs are the same) and no
// goroutine is left behind.
//
// The parent enumerates cases by index and feeds index ranges to the workers;
// when a worker dies the index in flight is re-run alone in fresh workers and
// only a case that kills (or hangs) its worker every time is a violation.
package main

import (
	"encoding/json"
	"fmt"
	"os"
	"os/signal"
	"sort"
	"strconv"
	"strings"
	"sync"
	"sync/atomic"
	"syscall"
	"time"

	"verif/engine/report"
)

const (
	nWorkers        = 16
	heavySlots      = 4                // managers that serve the memory-hungry cases first
	quietBatch      = 30 * time.Second // no line from a worker for this long: suspected hang
	quietSolo       = 75 * time.Second // solo re-run: in-worker call limit is 60 s, heartbeats every 5 s
	soloDeathTries  = 3
	soloHangTries   = 2
	maxHangFindings = 8    // circuit breaker: distinct signatures of confirmed hangs (each costs > 80 s)
	maxCrashes      = 2500 // circuit breaker: confirmed host crashes
	maxTransient    = 5
)

var dumpF *os.File // debugging aid: C05_DUMP=<file> lists every case with its outcome

type chunk struct {
	lo, hi int
	heavy  bool
	single bool // expected to kill its worker: run alone in fresh workers right away (no batch attempt)
}

type runner struct {
	r        *report.Run
	space    *Space
	thorough bool

	mu         sync.Mutex
	states     int64
	calls      int64
	validated  int64
	nontrivial int64
	skipped    map[string]int64
	deaths     int64
	deathsBy   map[string]int64
	transient  int64
	slowTrans  int64
	hangs      int64
	crashes    int64
	compilePan int64
	stop       int32
	sampled    map[string]bool
	hangSigs   map[string]bool
}

func (x *runner) caseFull(idx int, c Case) Case {
	if p, err := build(c); err == nil {
		c.Source = p.Src
		if len(c.Source) > 1500 {
			c.Source = c.Source[:700] + "\n/* ... " + fmt.Sprint(len(p.Src)-1400) + " bytes ... */\n" + c.Source[len(c.Source)-700:]
		}
		if len(p.Mods) > 0 {
			c.Modules = map[string]string{}
			for k, v := range p.Mods {
				if len(v) > 1500 {
					v = v[:700] + "\n/* ... */\n" + v[len(v)-700:]
				}
				c.Modules[k] = v
			}
		}
		c.Inputs = p.Inputs
	}
	return c
}

// handle folds the result of a finished case.
func (x *runner) handle(idx int, c Case, res *Result) {
	x.mu.Lock()
	x.states++
	x.calls += int64(res.Calls)
	if res.Complete {
		x.validated++
	}
	switch res.Class {
	case "rt-error", "recovered-panic", "ctx-error":
		x.nontrivial++
	case "skipped":
		x.skipped[res.Detail]++
	case "compile-panic":
		x.compilePan++
	}
	key := c.Family + "/" + res.Class
	first := !x.sampled[key]
	x.sampled[key] = true
	x.mu.Unlock()
	if dumpF != nil {
		x.mu.Lock()
		fmt.Fprintf(dumpF, "%d\t%s\t%s%s\t%s\t%s %v\t%s\t%s\t%s\n", idx, c.Family, c.Atom, c.Atom2, c.Placement, c.Op, c.Args, res.Class, res.Detail, res.Err)
		x.mu.Unlock()
	}
	if c.Family == "atom" {
		x.r.Count("placement/"+c.Placement, 1)
	}
	oc := c.Family + "/" + res.Class
	if res.Detail != "" && (res.Class == "rt-error" || res.Class == "recovered-panic") {
		oc += "/" + res.Detail
	}
	if res.Obs != "" {
		oc += "+" + res.Obs
		x.r.Count("observation/"+res.Obs, 1)
	}
	x.r.Outcome(oc)
	x.r.Count("cases/"+c.Family, 1)
	if res.Class == "harness-error" {
		x.r.Internal("case %d %+v: %s", idx, c, res.Detail)
	}
	if res.Class == "compile-panic" {
		x.r.Note("Compile panicked (outside the claim, which is about run time): %s %s: %s", c.Atom, c.Placement, res.Detail)
	}
	if first {
		fc := x.caseFull(idx, c)
		fc.Observed = res.Class + " " + res.Err
		x.r.Sample(fc)
	}
	for _, f := range res.Fails {
		fc := x.caseFull(idx, c)
		fc.Observed = res.Class + " " + res.Err
		x.r.Violation(f.Sig, f.What, fc)
	}
}

// shapeIndependent lists the operations (and the follow-up call) whose recursion over a cyclic container does not
// depend on the container's shape: they get one signature for all shapes, except the shapes named in the value,
// on which the operation is known not to recurse (a crash there is something new and gets its own signature).
// Every other operation (freeze, len, ...) and every other follow-up call is keyed by operation AND shape: a
// signature must never stand for a shape on which the unchanged tree does not crash.
var shapeIndependent = map[string][]string{
	"op=string": nil, "op=copy": nil, "op=format-v": nil, "op=format-s": nil, "op=format-d": nil, "op=str-concat": nil, "op=map-key": nil,
	"op=eq-self": {"cyclic-error"}, "op=neq-self": {"cyclic-error"}, "op=eq-same-shape": {"cyclic-error"}, "op=eq-in-array": {"cyclic-error"},
	"call=clone": nil,
}

func cyclicKey(p *Prog, call string) string {
	k := "op=" + p.SigOp
	if call != "" && call != "run1" {
		k = "call=" + call
	}
	if except, ok := shapeIndependent[k]; ok {
		for _, sh := range except {
			if sh == p.SigArg {
				return k + "/arg=" + p.SigArg
			}
		}
		return k
	}
	return k + "/arg=" + p.SigArg
}

func sigKey(p *Prog, call string) string {
	if p.Group == "cyclic" {
		return cyclicKey(p, call)
	}
	if p.SigOp != "" {
		if call == "" || call == "run1" {
			return "op=" + p.SigOp + "/arg=" + p.SigArg
		}
		return "call=" + call + "/arg=" + p.SigArg
	}
	if call == "" {
		call = "unknown"
	}
	return "call=" + call + "/" + p.Key
}

// investigate re-runs a suspect case alone in fresh workers.
func (x *runner) investigate(idx int, c Case, first attempt, vmemKiB int) {
	p, err := build(c)
	if err != nil {
		x.r.Internal("cannot build suspect %d: %v", idx, err)
		return
	}
	tries := soloDeathTries
	if first.kind == "noreturn" || first.kind == "stalled" {
		tries = soloHangTries - 1 // the batch run already was the first hang
	}
	all := []attempt{first}
	if first.kind == "" {
		all = nil // no batch attempt: the case is run alone from the start
	}
	var survived *attempt
	for t := 0; t < tries; t++ {
		wp, err := startProc(x.thorough, vmemKiB)
		if err != nil {
			x.r.Internal("cannot start worker: %v", err)
			return
		}
		cj, _ := json.Marshal(c)
		_ = wp.send("case 1 %s", cj)
		var got *Result
		a := collect(wp, -1, 0, quietSolo, func(i int, r *Result) { got = r })
		if a.kind == "done" {
			a.res = got
			wp.quit()
			survived = &a
			break
		}
		if a.kind == "died" {
			x.noteDeath(a.class)
		} else {
			wp.kill()
		}
		all = append(all, a)
	}
	if survived != nil {
		x.handle(idx, c, survived.res)
		if len(all) == 0 {
			return
		}
		x.mu.Lock()
		if all[0].kind == "died" {
			x.transient++
		} else {
			x.slowTrans++
		}
		nt, ns := x.transient, x.slowTrans
		x.mu.Unlock()
		x.r.Note("transient: case %d (%s) first %s (%s %s), then completed alone", idx, p.Key, all[0].kind, all[0].class, all[0].call)
		if nt > maxTransient || ns > maxTransient {
			x.r.Internal("more than %d transient worker deaths/stalls (deaths %d, stalls %d): the machine is too loaded for the watchdog limits", maxTransient, nt, ns)
		}
		return
	}
	// never survived: classify by the solo attempts (the batch attempt has no call trace)
	deaths, hangs := 0, 0
	var lastDeath, lastHang *attempt
	for i := range all {
		a := &all[i]
		if a.kind == "died" {
			deaths++
			if i > 0 || lastDeath == nil || first.kind == "" {
				lastDeath = a
			}
		} else {
			hangs++
			lastHang = a
		}
	}
	x.mu.Lock()
	x.states++
	x.mu.Unlock()
	x.r.Count("cases/"+c.Family, 1)
	fc := x.caseFull(idx, c)
	var trail []string
	for _, a := range all {
		trail = append(trail, strings.TrimSpace(a.kind+" "+a.class+" "+a.call))
	}
	isRun := func(call string) bool { return call == "" || call == "run1" || call == "run2" || call == "clone-run" }
	runaway := func(call string) (sig, what string) {
		what = "Compiled." + callName(call) + " with context.Background() neither returns nor fails for a script that has no loop or recursion of its own: " +
			"it runs (allocating) until the watchdog (20 s in the batch, 60 s alone) or the 4 GiB address-space limit (fatal error: out of memory) stops the host"
		if p.Group == "cyclic" {
			return "hang/" + cyclicKey(p, call), what
		}
		op := p.Key
		if p.SigOp != "" {
			op = "op=" + p.SigOp + "/arg=" + p.SigArg
		}
		if call != "" && call != "run1" {
			op = "call=" + call + "/" + op
		}
		return "hang/" + op, what
	}
	_ = hangs
	if lastDeath != nil && lastDeath.class == "fatal-out-of-memory" && isRun(lastDeath.call) && !p.NonTerm {
		// memory exhaustion during a run is the fast-machine face of a run that never returns: same signature as the hang
		sig, what := runaway(lastDeath.call)
		fc.Observed = "no attempt completed: " + strings.Join(trail, "; ")
		fc.Stderr = stderrEvidence(lastDeath.stderr)
		x.r.Violation(sig, what, fc)
		x.r.Outcome(c.Family + "/hang-or-oom")
		x.countHang(sig)
		return
	}
	if lastDeath != nil { // a death is definitive; a time-out next to it is the same death taking longer
		call := lastDeath.call
		sig := "host-crash/" + lastDeath.class + "/" + sigKey(p, call)
		fc.Observed = "no attempt completed: " + strings.Join(trail, "; ") + " (" + lastDeath.status + ")"
		fc.Stderr = stderrEvidence(lastDeath.stderr)
		what := fmt.Sprintf("the host process dies (%s, %s) while Compiled.%s is executing; the worker died in %d of %d attempts (%s)",
			lastDeath.class, lastDeath.status, callName(call), deaths, len(all), strings.Join(trail, "; "))
		if p.Group == "cyclic" {
			what += "; container shape of this case: " + p.SigArg + ", operation: " + p.SigOp
		}
		x.r.Violation(sig, what, fc)
		x.r.Outcome(c.Family + "/host-crash/" + lastDeath.class)
		if p.Group == "cyclic" {
			x.r.Count("cyclic-crash/"+sigKey(p, call)+"/"+p.SigArg, 1) // the shapes behind each coarse signature
		}
		if atomic.AddInt64(&x.crashes, 1) > maxCrashes {
			x.halt(fmt.Sprintf("more than %d confirmed host crashes: enumeration stopped", maxCrashes))
		}
		return
	}
	call := lastHang.call
	var sig, what string
	if isRun(call) && !p.NonTerm {
		sig, what = runaway(call)
	} else {
		sig = "call-does-not-return/" + call + "/" + p.Key
		what = fmt.Sprintf("Compiled.%s did not return within 20 s (batch) and 60 s (alone)", callName(call))
	}
	fc.Observed = "no attempt completed: " + strings.Join(trail, "; ")
	x.r.Violation(sig, what, fc)
	x.r.Outcome(c.Family + "/hang-or-oom")
	x.countHang(sig)
}

// countHang counts a confirmed hang; the circuit breaker looks at distinct signatures
// (one root cause met through many inputs must not stop the enumeration).
func (x *runner) countHang(sig string) {
	atomic.AddInt64(&x.hangs, 1)
	x.mu.Lock()
	x.hangSigs[sig] = true
	n := len(x.hangSigs)
	x.mu.Unlock()
	if n >= maxHangFindings {
		x.halt(fmt.Sprintf("%d distinct signatures of non-returning calls (each costs 80 s to confirm): enumeration stopped", n))
	}
}

func vmemFor(p *Prog) int { return workerVMemKiB }

func callName(call string) string {
	switch call {
	case "run1", "run2":
		return "RunContext (" + call + ")"
	case "clone-run":
		return "Clone().RunContext"
	case "get":
		return "Get"
	case "getall":
		return "GetAll"
	case "isdefined":
		return "IsDefined"
	case "set":
		return "Set"
	case "clone":
		return "Clone"
	case "":
		return "RunContext (call not traced)"
	}
	return call
}

func (x *runner) halt(reason string) {
	if atomic.CompareAndSwapInt32(&x.stop, 0, 1) {
		x.r.NotExhaustive(reason)
	}
}

func (x *runner) noteDeath(class string) {
	x.mu.Lock()
	x.deaths++
	x.deathsBy[class]++
	x.mu.Unlock()
}

// queues hands out chunks: managers with prefer == "heavy" drain the heavy queue first.
type queues struct {
	mu    sync.Mutex
	light []chunk
	heavy []chunk
}

func (q *queues) next(kind string) (chunk, bool) {
	q.mu.Lock()
	defer q.mu.Unlock()
	pop := func(l *[]chunk) (chunk, bool) {
		if len(*l) == 0 {
			return chunk{}, false
		}
		c := (*l)[0]
		*l = (*l)[1:]
		return c, true
	}
	switch kind {
	case "heavy":
		if c, ok := pop(&q.heavy); ok {
			return c, true
		}
		return pop(&q.light)
	}
	return pop(&q.light) // heavy chunks are left to the heavy managers: at most heavySlots of them run at a time
}

// work is one manager goroutine: it owns one worker process at a time.
func (x *runner) work(q *queues, kind string, vmemKiB int, wg *sync.WaitGroup) {
	defer wg.Done()
	var p *proc
	defer func() { p.quit() }()
	for {
		ch, ok := q.next(kind)
		if !ok || atomic.LoadInt32(&x.stop) != 0 {
			return
		}
		if ch.single {
			x.investigate(ch.lo, x.space.At(ch.lo), attempt{}, vmemKiB)
			continue
		}
		cur := ch.lo
		for cur < ch.hi && atomic.LoadInt32(&x.stop) == 0 {
			if p == nil {
				var err error
				if p, err = startProc(x.thorough, vmemKiB); err != nil {
					x.r.Internal("cannot start worker: %v", err)
					x.halt("cannot start worker")
					break
				}
			}
			_ = p.send("range %d %d 0", cur, ch.hi) // if the worker is gone already, collect sees EOF
			a := collect(p, cur, ch.hi, quietBatch, func(i int, r *Result) { x.handle(i, x.space.At(i), r) })
			switch a.kind {
			case "done":
				cur = ch.hi
			case "died":
				x.noteDeath(a.class)
				p = nil
				x.investigate(a.idx, x.space.At(a.idx), a, vmemKiB)
				cur = a.idx + 1
			case "noreturn", "stalled":
				p = nil
				x.investigate(a.idx, x.space.At(a.idx), a, vmemKiB)
				cur = a.idx + 1
			}
		}
	}
}

func makeQueues(s *Space) *queues {
	q := &queues{}
	n := s.Len()
	na := len(s.atoms)
	i := 0
	for i < n {
		switch s.Kind(i) {
		case "heavy":
			q.heavy = append(q.heavy, chunk{i, i + 1, true, false})
			i++
			continue
		case "single":
			q.light = append(q.light, chunk{i, i + 1, false, true})
			i++
			continue
		}
		size := 256
		if i < na {
			size = 8
		}
		j := i
		for j < n && j-i < size && s.Kind(j) == "light" && (i >= na) == (j >= na) {
			j++
		}
		q.light = append(q.light, chunk{i, j, false, false})
		i = j
	}
	// expected-to-die singles first: their confirmations are the long poles of the light queue
	sort.SliceStable(q.light, func(a, b int) bool {
		return q.light[a].single && !q.light[b].single
	})
	return q
}

func replay(path string) {
	rp, err := report.LoadReplay(path)
	if err != nil {
		fmt.Println("cannot load replay:", err)
		os.Exit(2)
	}
	fmt.Printf("replay of %s (%s)\n  recorded: %s\n", rp.Signature, rp.Property, rp.What)
	for n, raw := range rp.Cases {
		var c Case
		if err := report.Recase(raw, &c); err != nil {
			fmt.Println("bad case:", err)
			continue
		}
		bare := Case{Family: c.Family, Atom: c.Atom, Atom2: c.Atom2, Placement: c.Placement, Op: c.Op, Args: c.Args}
		p, err := build(bare)
		if err != nil {
			fmt.Println("cannot build case:", err)
			continue
		}
		src := p.Src
		if len(src) > 3000 {
			src = src[:1500] + "\n/* ... */\n" + src[len(src)-1500:]
		}
		fmt.Printf("---- case %d: family=%s atom=%s placement=%s op=%s args=%v inputs=%v\n%s", n, c.Family, c.Atom, c.Placement, c.Op, c.Args, p.Inputs, src)
		for m, s := range p.Mods {
			if len(s) > 3000 {
				s = s[:1500] + "\n/* ... */\n" + s[len(s)-1500:]
			}
			fmt.Printf("// ---- module %s\n%s", m, s)
		}
		wp, err := startProc(false, vmemFor(p))
		if err != nil {
			fmt.Println("cannot start worker:", err)
			continue
		}
		b, _ := json.Marshal(bare)
		_ = wp.send("case 1 %s", b)
		var got *Result
		a := collect(wp, -1, 0, quietSolo, func(i int, r *Result) { got = r })
		switch a.kind {
		case "done":
			wp.quit()
			fmt.Printf("  worker survived; first run: %s %s; calls executed: %d; sequence complete: %v\n", got.Class, got.Err, got.Calls, got.Complete)
			for _, f := range got.Fails {
				fmt.Printf("  FAIL %s: %s\n", f.Sig, f.What)
			}
		case "died":
			fmt.Printf("  WORKER DIED (%s, %s) while Compiled.%s was executing\n  FAIL host-crash/%s/%s\n  worker stderr:\n    %s\n",
				a.class, a.status, callName(a.call), a.class, sigKey(p, a.call), strings.ReplaceAll(stderrEvidence(a.stderr), "\n", "\n    "))
		case "noreturn":
			fmt.Printf("  FAIL: Compiled.%s did not return within 60 s\n", callName(a.call))
		case "stalled":
			fmt.Printf("  FAIL: worker gave no sign of life for %v during %s (killed)\n", quietSolo, callName(a.call))
		}
	}
}

func main() {
	for i, a := range os.Args {
		if a == "-worker" {
			limit := 0
			if i+2 < len(os.Args) {
				limit, _ = strconv.Atoi(os.Args[i+2])
			}
			workerMain(i+1 < len(os.Args) && os.Args[i+1] == "thorough", limit)
			return
		}
	}
	sigc := make(chan os.Signal, 1)
	signal.Notify(sigc, syscall.SIGTERM, syscall.SIGINT, syscall.SIGHUP)
	go func() {
		<-sigc
		killAllProcs()
		os.Exit(130)
	}()
	if p := report.ReplayArg(); p != "" {
		replay(p)
		killAllProcs()
		return
	}
	r := report.New("C05")
	x := &runner{r: r, thorough: r.Thorough(),
		skipped: map[string]int64{}, deathsBy: map[string]int64{}, sampled: map[string]bool{}, hangSigs: map[string]bool{}}
	if p := os.Getenv("C05_DUMP"); p != "" {
		dumpF, _ = os.Create(p)
	}
	x.space = enumerate(x.thorough)
	if os.Getenv("C05_ATOMS") != "" || os.Getenv("C05_NOVALS") != "" {
		r.NotExhaustive("debugging filter C05_ATOMS/C05_NOVALS in effect")
	}
	q := makeQueues(x.space)
	fmt.Printf("[%6.1fs] %d cases (%d atom/pair cases over %d atoms, %d value-level cases); chunks: %d light, %d heavy; %d workers\n",
		r.Elapsed().Seconds(), x.space.Len(), len(x.space.atoms), len(allAtoms()), len(x.space.vals), len(q.light), len(q.heavy), nWorkers)
	var wg sync.WaitGroup
	for i := 0; i < nWorkers; i++ {
		wg.Add(1)
		kind := "light"
		if i < heavySlots {
			kind = "heavy"
		}
		go x.work(q, kind, workerVMemKiB, &wg)
	}
	done := make(chan struct{})
	go func() { wg.Wait(); close(done) }()
	tick := time.NewTicker(20 * time.Second)
loop:
	for {
		select {
		case <-done:
			break loop
		case <-tick.C:
			x.mu.Lock()
			fmt.Printf("[%6.1fs] %d/%d cases, %d worker deaths, %d confirmed crashes, %d hangs\n", r.Elapsed().Seconds(), x.states, x.space.Len(), x.deaths, atomic.LoadInt64(&x.crashes), atomic.LoadInt64(&x.hangs))
			x.mu.Unlock()
		}
	}
	tick.Stop()
	killAllProcs()
	procMu.Lock()
	sp, ex := spawned, exited
	procMu.Unlock()
	if x.states != int64(x.space.Len()) && atomic.LoadInt32(&x.stop) == 0 {
		r.Internal("%d cases enumerated but %d accounted for", x.space.Len(), x.states)
	}
	r.Set("workers", nWorkers)
	r.Set("worker_address_space_limit_kib", workerVMemKiB)
	r.Set("worker_processes_started", sp)
	r.Set("worker_processes_reaped", ex)
	r.Set("worker_deaths", x.deaths)
	r.Set("worker_deaths_by_class", x.deathsBy)
	r.Set("worker_restarts", sp-nWorkers)
	r.Set("transient_worker_deaths", x.transient)
	r.Set("transient_slow_calls", x.slowTrans)
	r.Set("confirmed_host_crash_cases", atomic.LoadInt64(&x.crashes))
	r.Set("confirmed_hang_cases", atomic.LoadInt64(&x.hangs))
	r.Set("skipped_classes", x.skipped)
	r.Set("compile_panics_observed", x.compilePan)
	r.Set("atoms", len(allAtoms()))
	if x.thorough {
		r.Set("value_alphabets", "all of val.All() for every value-level family")
		r.Set("cyclic_shapes", "all 11 shapes: main and function placement, 4x8 sub-matrix in all 7 placements")
	} else {
		r.Set("quick_pair_alphabet", quickPairAlphabet)
		r.Set("quick_builtin_alphabet", quickBuiltinAlphabet)
		r.Set("quick_cyclic_shapes", quickShapes)
		r.Set("value_alphabets", "quick: unary/ternary/selector/binary operators/index/index-assignment/slice over quick_pair_alphabet (30 of val.All(), every kind and the boundary values kept); builtins x arity 0..2 over quick_builtin_alphabet (20 values); arity 3..4 sub-alphabets as in thorough")
	}
	r.Set("atom_and_pair_cases", len(x.space.atoms))
	r.Set("value_level_cases", len(x.space.vals))
	r.Assume("excluded by the property: unbounded single allocations (range() asking for more than 2^20 elements, bytes(N) with N > 2^20 below the limit, bytes(2^31-1)); counted under skipped_classes")
	r.Assume("a worker is a process with a 4 GiB address-space limit and the Go default maximum goroutine stack (1 GB): 'host dies' means this process dies")
	r.Assume("hang verdicts rest on time limits (20 s in a batch, then 60 s alone, both exceeded; three times as much for the deep-nesting cases) measured in the worker's effective time: wall time while the worker is not starved, CPU time received while it waits on the run queue (/proc/<pid>/task/*/schedstat); host crashes need the worker to die in every one of its isolated attempts (3 fresh workers; for a death inside a batch 1+3)")
	r.Assume("compile-time failures (errors or panics inside Script.Compile) are outside the claim and only counted; host values breaking the Object contract (nil elements) are judged on the RunContext path like any other input")
	r.Finish(report.Coverage{
		States:      x.states,
		Transitions: x.calls,
		Validated:   x.validated,
		Evaluations: x.states,
		Nontrivial:  x.nontrivial,
		Rule: "hostile family: every atom of the hostile alphabet (ill-typed operators, integer edge arithmetic, shifts, char/time overflow, bytes/range misuse and counter overflow, " +
			"container mutation during iteration, 11 cyclic container shapes x 29 operations, runaway recursion, known non-terminating loops under a 2 s deadline, spread/call misuse, " +
			"every builtin x 0..5 arguments, failing/panicking/nil-returning host functions, host objects returning nil in every operator position, indexing/slicing/assignment of 10 receiver kinds x 13 index values, " +
			"splice/format/selector misuse, operand-stack/frame/locals/globals limits by generated text, acyclic nesting 300..10^5, string/bytes limit) x 7 placements " +
			"(main, function, closure, source module, loop, builtin argument, for-in header; crash-prone groups: quick = 4 of the 11 cyclic shapes (array, map, mutual pair, immutable array) x all operations in main placement, thorough = all shapes in main and function placement plus a 4x8 sub-matrix in all placements; non-terminating atoms: 3 placements in quick) " +
			"[thorough: + pairs first-atom-in-function ; second-atom-in-main]; value family (thorough: V = all of val.All(); quick: the 30-value and 20-value sub-alphabets named in the evidence): every binary operator x every ordered pair of V, every unary/ternary/selector/index/index-assignment/slice shape over V, " +
			"every builtin x every argument tuple of arity 0..2 over V (arity 3..4 over sub-alphabets for splice/range/append/format) as host inputs; " +
			"state = one (program, inputs) case; transition = one API call executed in a worker (Compile, RunContext, Get, GetAll, IsDefined, Set, RunContext, Clone, RunContext); " +
			"validated = cases whose whole call sequence completed and passed through every oracle; non-trivial = distinct cases whose first RunContext returned a non-nil error",
	})
}
