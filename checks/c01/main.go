// C01: compile-and-run agrees with the language's reference semantics.
//
// Every element of the enumerated families is executed twice: by the
// reference interpreter (engine/ref, written from the documentation) and by
// the real implementation through Script.Add -> Compile -> RunContext ->
// GetAll. Outcome class (ok / compile-error / runtime-error) and every global
// variable (structural snapshot; also at the failure point) must agree.
package main

import (
	"fmt"
	"os"
	"sort"
	"strings"
	"sync/atomic"

	"github.com/d5/tengo/v2"
	"verif/engine/gen"
	"verif/engine/ref"
	"verif/engine/report"
	"verif/engine/tg"
	"verif/engine/val"
)

type Case struct {
	Family  string   `json:"family"`
	Op      string   `json:"op,omitempty"`
	Args    []string `json:"args,omitempty"` // value names
	Form    string   `json:"form,omitempty"` // host | lit
	Budget  int      `json:"budget,omitempty"`
	Depth   int      `json:"depth,omitempty"`
	Rich    bool     `json:"rich,omitempty"`
	Lean    bool     `json:"lean,omitempty"`
	Choices []int    `json:"choices,omitempty"`
	Source  string   `json:"source,omitempty"`
}

type fail struct{ sig, what string }

const refBudget = 30000
const implBudget = 400000

// build returns the program, the host inputs (name -> value name) and a short detail tag for signatures.
func build(c Case) (*gen.Program, map[string]string, string) {
	arg := func(i int) gen.Expr {
		if c.Form == "lit" {
			v, _ := val.ByName(c.Args[i])
			e, err := gen.ParseExpr(v.Src)
			if err != nil {
				panic(err)
			}
			return &gen.Paren{X: e}
		}
		return gen.I(string(rune('a' + i)))
	}
	inputs := map[string]string{}
	if c.Form != "lit" {
		for i, n := range c.Args {
			inputs[string(rune('a'+i))] = n
		}
	}
	kinds := func() string {
		var ks []string
		for _, n := range c.Args {
			v, _ := val.ByName(n)
			ks = append(ks, v.Kind)
		}
		return strings.Join(ks, ",")
	}
	one := func(s gen.Stmt) *gen.Program { return &gen.Program{Main: []gen.Stmt{s}} }
	switch c.Family {
	case "expr2":
		return one(gen.Def("out", gen.B(c.Op, arg(0), arg(1)))), inputs, "op=" + c.Op + "/kinds=" + kinds()
	case "unary":
		return one(gen.Def("out", &gen.Un{Op: c.Op, X: arg(0)})), inputs, "op=" + c.Op + "/kinds=" + kinds()
	case "ternary":
		return one(gen.Def("out", &gen.Cond{C: arg(0), T: gen.N("1"), F: gen.N("2")})), inputs, "kinds=" + kinds()
	case "index":
		return one(gen.Def("out", &gen.Index{X: arg(0), I: arg(1)})), inputs, "kinds=" + kinds()
	case "selector":
		return one(gen.Def("out", &gen.Sel{X: arg(0), Name: c.Op})), inputs, "name=" + c.Op + "/kinds=" + kinds()
	case "slice":
		var lo, hi gen.Expr
		if c.Args[1] != "omitted" {
			lo = arg(1)
		}
		if c.Args[2] != "omitted" {
			hi = arg(2)
		}
		if c.Form != "lit" {
			delete(inputs, "b")
			delete(inputs, "c")
			if lo != nil {
				inputs["b"] = c.Args[1]
			}
			if hi != nil {
				inputs["c"] = c.Args[2]
			}
		}
		return one(gen.Def("out", &gen.Slice{X: arg(0), Lo: lo, Hi: hi})), inputs, "kinds=" + kindsOf(c.Args)
	case "indexset":
		// x := <a>; x[b] = 99
		return &gen.Program{Main: []gen.Stmt{gen.Def("x", arg(0)), gen.Set(&gen.Index{X: gen.I("x"), I: arg(1)}, gen.N("99"))}}, inputs, "kinds=" + kinds()
	case "indexset-local", "indexset-free":
		// the same assignment where x is a local of a function (SETSL) resp. a variable captured by the closure
		// that assigns (SETSF); a statement after it must not run when the assignment fails
		I, N := gen.I, gen.N
		assign := []gen.Stmt{gen.Set(&gen.Index{X: I("x"), I: I("q")}, N("99")), gen.Set(I("t"), N("1"))}
		body := []gen.Stmt{gen.Def("x", I("p"))}
		if c.Family == "indexset-local" {
			body = append(body, assign...)
		} else {
			body = append(body, gen.Def("g", &gen.FuncLit{Body: assign}), &gen.ExprStmt{X: gen.C(I("g"))})
		}
		body = append(body, &gen.Return{X: I("x")})
		return &gen.Program{Main: []gen.Stmt{gen.Def("t", N("0")), gen.Def("f", &gen.FuncLit{Params: []string{"p", "q"}, Body: body}),
			gen.Def("out", gen.C(I("f"), arg(0), arg(1))), gen.Set(I("f"), gen.Undef())}}, inputs, "kinds=" + kinds()
	case "indexset2":
		return &gen.Program{Main: []gen.Stmt{gen.Def("x", arg(0)), gen.Set(&gen.Index{X: &gen.Index{X: gen.I("x"), I: arg(1)}, I: arg(2)}, gen.N("99"))}}, inputs, "kinds=" + kinds()
	case "builtin":
		var args []gen.Expr
		for i := range c.Args {
			args = append(args, arg(i))
		}
		return one(gen.Def("out", gen.C(gen.I(c.Op), args...))), inputs, "name=" + c.Op + "/kinds=" + kinds()
	case "cflow":
		p := gen.Replay(c.Choices, gen.Cflow(gen.CflowCfg{Budget: c.Budget, MaxDepth: c.Depth, Rich: c.Rich}))
		return p.Prog, map[string]string{"P": c.Args[0], "Q": c.Args[1]}, "placement=" + p.Placement
	case "dce":
		p := gen.Replay(c.Choices, gen.Dce)
		return p.Prog, map[string]string{"P": c.Args[0], "Q": c.Args[1]}, "placement=" + p.Placement
	case "func":
		return gen.Replay(c.Choices, gen.Funcs(gen.FuncCfg{Budget: c.Budget})), nil, ""
	case "alias":
		return gen.Replay(c.Choices, gen.Alias(c.Budget)), nil, ""
	case "tails":
		return gen.Tails(c.Op, c.Budget), nil, "kind=" + c.Op
	case "limits":
		return gen.Limits(c.Op, c.Budget), nil, "kind=" + c.Op + "/size=" + fmt.Sprint(c.Budget)
	case "stmt":
		return gen.Replay(c.Choices, gen.Stmts(gen.StmtCfg{Budget: c.Budget, Lean: c.Lean})), nil, ""
	case "shadow":
		return gen.Replay(c.Choices, gen.Shadow), nil, ""
	}
	return nil, nil, ""
}

func kindsOf(names []string) string {
	var ks []string
	for _, n := range names {
		if v, ok := val.ByName(n); ok {
			ks = append(ks, v.Kind)
		} else {
			ks = append(ks, n)
		}
	}
	return strings.Join(ks, ",")
}

func runCase(c Case) (fails []fail, obs string) {
	prog, inNames, detail := build(c)
	if prog == nil {
		return []fail{{"internal/unknown-family", c.Family}}, ""
	}
	implIn := map[string]tengo.Object{}
	refIn := map[string]ref.V{}
	for n, vn := range inNames {
		v, ok := val.ByName(vn)
		if !ok {
			return []fail{{"internal/unknown-value", vn}}, ""
		}
		implIn[n] = v.Mk()
		refIn[n] = ref.FromObject(v.Mk())
	}
	src := tg.Print(prog)
	budget := refBudget
	if c.Family == "cflow" || c.Family == "stmt" || c.Family == "dce" {
		budget = 3000 // these families have no recursion: a run longer than this is an infinite loop
	}
	r := ref.Run(prog, refIn, budget)
	if r.Class == "unsupported" {
		return nil, "skip:unsupported"
	}
	if r.Class == "budget" {
		// the reference does not terminate within its budget: the implementation must not either
		// (checked only as "does not claim success quickly"): skip, counted
		return nil, "skip:ref-budget"
	}
	o := tg.Run(src.Main.Src, tg.Opts{Inputs: implIn, Modules: src.ModMap})
	feat := features(prog)
	if c.Family == "limits" || c.Family == "tails" {
		feat = ""
	}
	add := func(kind, what string) {
		sig := c.Family + "/" + kind
		if detail != "" {
			sig += "/" + detail
		}
		if feat != "" {
			sig += "/feat=" + feat
		}
		fails = append(fails, fail{sig, what})
	}
	obs = r.Class
	if o.Class == "budget" && r.Class == "runtime-error" && r.Kind == "stack-overflow" {
		// unbounded recursion: the reference runs out of frames, the implementation may instead reuse the frame
		// of a self call whose result is discarded (value-preserving, see C16) and never finish: both are
		// "does not terminate within its resources", nothing to compare
		return nil, "skip:unbounded-recursion"
	}
	if o.Class == "budget" {
		add("impl-does-not-terminate", "reference terminates ("+r.Class+") but the implementation exceeded "+fmt.Sprint(implBudget)+" VM steps")
		return fails, obs + "|budget"
	}
	if o.Class == "panic" {
		add("impl-panics", "reference: "+r.Class+"; implementation panicked: "+tg.FirstLine(o.ErrText))
		return fails, obs + "|panic"
	}
	if c.Family == "limits" && o.Class == "compile-error" && strings.Contains(o.ErrText, "too many") && c.Op != "free-refs" && !(c.Op == "globals" && c.Budget <= tengo.GlobalsSize-1) {
		// P: a program beyond a static limit is either rejected at compile time or behaves correctly
		return nil, obs + "|rejected-by-limit"
	}
	if o.Class != r.Class {
		add("class-"+r.Class+"-vs-"+o.Class, fmt.Sprintf("reference: %s %s; implementation: %s %s", r.Class, r.Err, o.Class, tg.FirstLine(o.ErrText)))
		return fails, obs + "|" + o.Class
	}
	if r.Class == "compile-error" {
		return nil, obs
	}
	// compare all user-visible globals
	rg := map[string]string{}
	for k, v := range r.Globals {
		rg[k] = ref.Snapshot(v)
	}
	ig := map[string]string{}
	for k, v := range o.Globals {
		if strings.HasPrefix(k, ":") {
			continue
		}
		ig[k] = val.Snapshot(v)
	}
	var names []string
	for k := range rg {
		names = append(names, k)
	}
	for k := range ig {
		if _, ok := rg[k]; !ok {
			names = append(names, k)
		}
	}
	sort.Strings(names)
	for _, k := range names {
		a, aok := rg[k]
		b, bok := ig[k]
		if !aok {
			a = "undefined" // a global never assigned in the reference run
		}
		if !bok {
			b = "undefined"
		}
		if a != b {
			add("value-differs", fmt.Sprintf("global %s: reference %s, implementation %s (run class %s)", k, a, b, r.Class))
			break
		}
	}
	return fails, obs
}

// features is the sorted set of notable constructs of a generated program (used in signatures of the program families).
func features(p *gen.Program) string {
	if len(p.Main) == 1 {
		return ""
	}
	set := map[string]bool{}
	var ws func(ss []gen.Stmt)
	var we func(e gen.Expr)
	we = func(e gen.Expr) {
		switch e := e.(type) {
		case *gen.Bin:
			if e.Op == "&&" || e.Op == "||" {
				set[e.Op] = true
			}
			if e.Op == "+" {
				if _, isArr := e.R.(*gen.ArrayLit); isArr {
					set["array+"] = true
				}
			}
			we(e.L)
			we(e.R)
		case *gen.Un:
			we(e.X)
		case *gen.Cond:
			set["?:"] = true
			we(e.C)
			we(e.T)
			we(e.F)
		case *gen.Call:
			if e.Spread {
				set["spread"] = true
			}
			we(e.F)
			for _, a := range e.Args {
				we(a)
			}
		case *gen.FuncLit:
			set["func"] = true
			if e.VarArgs {
				set["variadic"] = true
			}
			ws(e.Body)
		case *gen.Index:
			we(e.X)
			we(e.I)
		case *gen.Slice:
			set["slice"] = true
			we(e.X)
		case *gen.Immutable:
			set["immutable"] = true
			we(e.X)
		case *gen.Ident:
			switch e.Name {
			case "append", "splice", "copy", "bytes":
				set[e.Name] = true
			}
		case *gen.ArrayLit:
			for _, x := range e.Elems {
				we(x)
			}
		case *gen.Import:
			set["import"] = true
		case *gen.Paren:
			we(e.X)
		}
	}
	ws = func(ss []gen.Stmt) {
		for _, s := range ss {
			switch s := s.(type) {
			case *gen.Assign:
				if s.Op != ":=" && s.Op != "=" {
					set[s.Op] = true
				}
				we(s.LHS)
				we(s.RHS)
			case *gen.IncDec:
				set[s.Op] = true
			case *gen.ExprStmt:
				set["exprstmt"] = true
				we(s.X)
			case *gen.If:
				set["if"] = true
				if s.Init != nil {
					ws([]gen.Stmt{s.Init})
				}
				we(s.Cond)
				ws(s.Then)
				ws(s.Else)
			case *gen.For:
				set["for"] = true
				if s.Init != nil {
					ws([]gen.Stmt{s.Init})
				}
				if s.Cond != nil {
					we(s.Cond)
				}
				ws(s.Body)
			case *gen.ForIn:
				set["forin"] = true
				we(s.X)
				ws(s.Body)
			case *gen.Break:
				set["break"] = true
			case *gen.Continue:
				set["continue"] = true
			case *gen.Return:
				set["return"] = true
				if s.X != nil {
					we(s.X)
				}
			case *gen.Block:
				set["block"] = true
				ws(s.Body)
			case *gen.Export:
				we(s.X)
			}
		}
	}
	ws(p.Main)
	for _, m := range p.Modules {
		ws(m)
	}
	var ks []string
	for k := range set {
		ks = append(ks, k)
	}
	sort.Strings(ks)
	return strings.Join(ks, "+")
}

var binOps = []string{"+", "-", "*", "/", "%", "&", "|", "^", "&^", "<<", ">>", "<", "<=", ">", ">=", "==", "!=", "&&", "||"}

func main() {
	tg.SetStepBudget(implBudget)
	if p := report.ReplayArg(); p != "" {
		rp, err := report.LoadReplay(p)
		if err != nil {
			fmt.Println("cannot load replay:", err)
			return
		}
		for _, raw := range rp.Cases {
			var c Case
			_ = report.Recase(raw, &c)
			fails, obs := runCase(c)
			prog, in, _ := build(c)
			fmt.Printf("case %+v\ninputs: %v\n%s\n  observed: %s\n", c, in, tg.Print(prog).AllText, obs)
			for _, f := range fails {
				fmt.Printf("  FAIL %s: %s\n", f.sig, f.what)
			}
		}
		return
	}
	r := report.New("C01")
	V := val.All()
	if r.Thorough() {
		V = val.Thorough()
	}
	var names, litNames []string
	for _, v := range V {
		names = append(names, v.Name)
		if v.Src != "" {
			litNames = append(litNames, v.Name)
		}
	}
	var evals, validated int64
	distinct := report.NewDistinctSet()
	only := os.Getenv("VERIF_ONLY") // debugging aid: run a single family (the run is then marked not exhaustive)
	if only != "" {
		r.NotExhaustive("VERIF_ONLY=" + only)
	}
	exec := func(c Case) {
		if only != "" && c.Family != only {
			return
		}
		fails, obs := runCase(c)
		n := atomic.AddInt64(&evals, 1)
		if !strings.HasPrefix(obs, "skip:") {
			atomic.AddInt64(&validated, 1)
		}
		r.Outcome(c.Family + "/" + obs)
		r.Count("cases/"+c.Family, 1)
		if obs == "ok" {
			distinct.Add(fmt.Sprintf("%s|%s|%v|%s|%v|%d|%v%v", c.Family, c.Op, c.Args, c.Form, c.Choices, c.Budget, c.Rich, c.Lean))
		}
		if n%40009 == 1 {
			prog, in, _ := build(c)
			r.Sample(map[string]interface{}{"case": c, "inputs": in, "source": tg.Print(prog).AllText, "observed": obs})
		}
		for _, f := range fails {
			if c.Source == "" {
				prog, _, _ := build(c)
				c.Source = tg.Print(prog).AllText
			}
			r.Violation(f.sig, f.what, c)
		}
	}
	// ---- value-level families (explicit case lists)
	var cases []Case
	for _, form := range []string{"host", "lit"} {
		ns := names
		if form == "lit" {
			ns = litNames
		}
		for _, a := range ns {
			for _, op := range []string{"!", "-", "^", "+"} {
				cases = append(cases, Case{Family: "unary", Op: op, Args: []string{a}, Form: form})
			}
			cases = append(cases, Case{Family: "ternary", Args: []string{a}, Form: form})
			for _, sel := range []string{"a", "value", "zz"} {
				cases = append(cases, Case{Family: "selector", Op: sel, Args: []string{a}, Form: form})
			}
			for _, b := range ns {
				for _, op := range binOps {
					cases = append(cases, Case{Family: "expr2", Op: op, Args: []string{a, b}, Form: form})
				}
				cases = append(cases, Case{Family: "index", Args: []string{a, b}, Form: form})
				cases = append(cases, Case{Family: "indexset", Args: []string{a, b}, Form: form})
				if form == "host" {
					cases = append(cases, Case{Family: "indexset-local", Args: []string{a, b}, Form: form},
						Case{Family: "indexset-free", Args: []string{a, b}, Form: form})
				}
			}
		}
	}
	idxAlpha := []string{"omitted", "undefined", "i-1", "i0", "i1", "i2", "i3", "imax", "s-0", "f1.5"}
	for _, a := range names {
		v, _ := val.ByName(a)
		switch v.Kind {
		case "array", "imarray", "string", "bytes", "map", "undefined", "int":
		default:
			continue
		}
		for _, lo := range idxAlpha {
			for _, hi := range idxAlpha {
				cases = append(cases, Case{Family: "slice", Args: []string{a, lo, hi}, Form: "host"})
			}
		}
		for _, i := range []string{"i0", "i1", "i-1", "s-a", "s-ab", "undefined"} {
			for _, j := range []string{"i0", "i1", "s-a", "s-0", "f1.5", "undefined"} {
				cases = append(cases, Case{Family: "indexset2", Args: []string{a, i, j}, Form: "host"})
			}
		}
	}
	for _, b := range ref.BuiltinNames {
		if b == "format" {
			continue // C17
		}
		cases = append(cases, Case{Family: "builtin", Op: b, Args: []string{}, Form: "host"})
		for _, x := range names {
			cases = append(cases, Case{Family: "builtin", Op: b, Args: []string{x}, Form: "host"})
			for _, y := range names {
				cases = append(cases, Case{Family: "builtin", Op: b, Args: []string{x, y}, Form: "host"})
			}
		}
	}
	small := []string{"i0", "i1", "i2", "i-1", "i3", "imax", "s-a", "undefined", "f1.5"}
	for _, b := range []string{"splice", "range", "append"} {
		for _, x := range []string{"a-123", "a-empty", "ia-123", "i0", "i1", "i3"} {
			for _, y := range small {
				for _, z := range small {
					cases = append(cases, Case{Family: "builtin", Op: b, Args: []string{x, y, z}, Form: "host"})
					if b == "splice" {
						for _, w := range []string{"i0", "s-a"} {
							cases = append(cases, Case{Family: "builtin", Op: b, Args: []string{x, y, z, w}, Form: "host"})
						}
					}
				}
			}
		}
	}
	phase := func(name string) { fmt.Printf("[%6.1fs] %s\n", r.Elapsed().Seconds(), name) }
	phase(fmt.Sprintf("value-level families: %d cases", len(cases)))
	report.ParallelFor(len(cases), func(i int) { exec(cases[i]) })
	r.Set("value_level_cases", len(cases))
	phase("cflow")

	// ---- program families (enumerated by replayed choice trees)
	bools := [][2]string{{"true", "false"}, {"false", "true"}}
	cf := Case{Family: "cflow", Budget: r.Pick(3, 3), Depth: 2, Rich: r.Thorough()}
	gen.ParallelEnumerate(gen.Cflow(gen.CflowCfg{Budget: cf.Budget, MaxDepth: cf.Depth, Rich: cf.Rich}), 3, func(p gen.CflowProgram, ch []int) {
		for _, b := range bools {
			c := cf
			c.Choices = append([]int{}, ch...)
			c.Args = []string{b[0], b[1]}
			exec(c)
		}
	})
	phase("dce")
	gen.ParallelEnumerate(gen.Dce, 3, func(p gen.CflowProgram, ch []int) {
		for _, b := range bools {
			exec(Case{Family: "dce", Choices: append([]int{}, ch...), Args: []string{b[0], b[1]}})
		}
	})
	phase("func")
	fc := Case{Family: "func", Budget: r.Pick(2, 3)}
	gen.ParallelEnumerate(gen.Funcs(gen.FuncCfg{Budget: fc.Budget}), 3, func(p *gen.Program, ch []int) {
		c := fc
		c.Choices = append([]int{}, ch...)
		exec(c)
	})
	phase("limits")
	for _, k := range gen.LimitKinds {
		for _, n := range gen.LimitSizes(k) {
			if (k == "array-literal" || k == "map-literal") && n >= tengo.StackSize/2 {
				// a literal pushes all its elements before it is built: beyond the operand stack's capacity the run
				// ends in the VM's stack exhaustion, a resource limit (C05/C06) and not a question of semantics;
				// those sizes are for the structural checks (C02)
				continue
			}
			exec(Case{Family: "limits", Op: k, Budget: n})
		}
	}
	phase("tails")
	var tails []Case
	for _, k := range gen.TailKinds {
		for i := 0; i < gen.TailCount(k); i++ {
			tails = append(tails, Case{Family: "tails", Op: k, Budget: i})
		}
	}
	report.ParallelFor(len(tails), func(i int) { exec(tails[i]) })
	phase("alias")
	ac := Case{Family: "alias", Budget: r.Pick(3, 4)}
	gen.ParallelEnumerate(gen.Alias(ac.Budget), 2, func(p *gen.Program, ch []int) {
		c := ac
		c.Choices = append([]int{}, ch...)
		exec(c)
	})
	phase("shadow")
	gen.ParallelEnumerate(gen.Shadow, 2, func(p *gen.Program, ch []int) {
		exec(Case{Family: "shadow", Choices: append([]int{}, ch...)})
	})
	phase("stmt")
	sc := Case{Family: "stmt", Budget: 2}
	gen.ParallelEnumerate(gen.Stmts(gen.StmtCfg{Budget: sc.Budget}), 3, func(p *gen.Program, ch []int) {
		c := sc
		c.Choices = append([]int{}, ch...)
		exec(c)
	})
	if r.Thorough() {
		sl := Case{Family: "stmt", Budget: 3, Lean: true}
		gen.ParallelEnumerate(gen.Stmts(gen.StmtCfg{Budget: 3, Lean: true}), 3, func(p *gen.Program, ch []int) {
			c := sl
			c.Choices = append([]int{}, ch...)
			exec(c)
		})
	}
	phase("done")
	r.Set("alphabet_size", len(V))
	r.Assume("reference semantics = engine/ref (principled rules from docs/*.md; pinned rules marked N: in its source, see DESIGN.md appendix A)")
	r.Assume("excluded by construction/skip: format() (C17), for-in over maps with more than one key and text of such maps (iteration order), huge range(), programs on which the reference exceeds its step budget")
	r.Finish(report.Coverage{
		States:      evals,
		Transitions: evals * 2,
		Validated:   validated,
		Evaluations: evals,
		Nontrivial:  distinct.Len(),
		Rule:        "value-level families: every operator x every ordered pair of V (host-input and literal form), every unary/ternary/selector/index/slice/index-assignment shape over V and the index alphabet, every builtin x every argument tuple of arity 0..2 over V (arity 3..4 over sub-alphabets for splice/range/append); program families: every element of cflow/func/stmt below the stated statement budget; state = one (program, inputs) case; transition = one run of the reference + one run of the implementation; non-trivial = distinct cases whose reference outcome is a successful run",
	})
}
