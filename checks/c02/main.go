// C02: emitted bytecode is structurally sound and stack-balanced.
//
// For every function (main, literals, closures, module functions) of every
// program of the enumerated families the complete transition system over
// (pc, operand-stack height) is explored (engine/bcv) and the structural
// invariants are evaluated in every state. The abstraction is bound to the
// implementation: every program is also executed on the real VM with the
// per-instruction probe, and the real stack height must equal the predicted
// height at every executed instruction.
package main

import (
	"fmt"
	"regexp"
	"strings"
	"sync/atomic"
	"unsafe"

	"github.com/d5/tengo/v2"
	"github.com/d5/tengo/v2/stdlib"
	"verif/engine/bcv"
	"verif/engine/gen"
	"verif/engine/report"
	"verif/engine/tg"
)

type Case struct {
	Family  string `json:"family"`
	Budget  int    `json:"budget"`
	Depth   int    `json:"depth"`
	Rich    bool   `json:"rich"`
	Choices []int  `json:"choices"`
	Kind    string `json:"kind,omitempty"` // tails family
	K       int    `json:"k,omitempty"`
	Source  string `json:"source,omitempty"`
}

type fail struct{ sig, what string }

// an index at or beyond the fixed operand stack (frames reserve NumLocals slots at once, so the index can exceed StackSize)
var stackExhausted = regexp.MustCompile(fmt.Sprintf(`index out of range \[\d+\] with length %d$`, tengo.StackSize))

var numBuiltins = len(tengo.GetAllBuiltinFunctions())

type stats struct {
	fnStates, fnTrans, funcs, runs, steps int64
}

func program(c Case) (*gen.Program, string) {
	switch c.Family {
	case "cflow":
		p := gen.Replay(c.Choices, gen.Cflow(gen.CflowCfg{Budget: c.Budget, MaxDepth: c.Depth, Rich: c.Rich}))
		return p.Prog, p.Placement
	case "func":
		p := gen.Replay(c.Choices, gen.Funcs(gen.FuncCfg{Budget: c.Budget}))
		return p, "func"
	case "tails":
		return gen.Tails(c.Kind, c.K), "tails:" + c.Kind
	case "dce":
		p := gen.Replay(c.Choices, gen.Dce)
		return p.Prog, p.Placement
	case "limits":
		return gen.Limits(c.Kind, c.K), fmt.Sprintf("limits:%s/size=%d", c.Kind, c.K)
	case "consts":
		return gen.Replay(c.Choices, gen.Consts(c.Budget)), "consts"
	}
	return nil, ""
}

var inputCombos = [][2]bool{{true, false}, {false, true}, {true, true}, {false, false}}

func boolObj(b bool) tengo.Object {
	if b {
		return tengo.TrueValue
	}
	return tengo.FalseValue
}

func runCase(c Case, st *stats) (fails []fail, obs string) {
	prog, placement := program(c)
	if prog == nil {
		return []fail{{"internal/unknown-family", c.Family}}, ""
	}
	src := tg.Print(prog)
	add := func(sig, what string) { fails = append(fails, fail{sig + "/placement=" + placement, what}) }
	inputs := func(i int) map[string]tengo.Object {
		m := map[string]tengo.Object{}
		for _, n := range prog.Inputs {
			switch n {
			case "P":
				m[n] = boolObj(inputCombos[i][0])
			case "Q":
				m[n] = boolObj(inputCombos[i][1])
			default:
				m[n] = &tengo.Int{Value: int64(i)}
			}
		}
		return m
	}
	mm := stdlib.GetModuleMap("math", "text")
	mm.AddMap(src.ModMap)
	d := tg.CompileDirect(src.Main.Src, inputs(0), mm, false, true)
	if d.Class != "ok" {
		return nil, "compile:" + d.Class // compile-time behaviour is C04's subject
	}
	results := bcv.CheckBytecode(d.Bytecode, len(d.Globals), numBuiltins)
	heights := map[uintptr]*bcv.FnResult{}
	for i := range results {
		r := &results[i]
		atomic.AddInt64(&st.funcs, 1)
		atomic.AddInt64(&st.fnStates, int64(r.Res.States))
		atomic.AddInt64(&st.fnTrans, int64(r.Res.Transitions))
		if len(r.Fn.Instructions) > 0 {
			heights[uintptr(unsafe.Pointer(&r.Fn.Instructions[0]))] = r
		}
		for _, f := range r.Res.Findings {
			add("static/"+f.Kind, r.Name+": "+f.Msg)
		}
	}
	if len(fails) > 0 {
		return fails, "static-findings"
	}
	// dynamic binding of the model to the implementation
	classes := ""
	nruns := len(inputCombos)
	if len(prog.Inputs) == 0 {
		nruns = 1
	}
	for i := 0; i < nruns; i++ {
		globals := make([]tengo.Object, len(d.Globals))
		copy(globals, d.Globals)
		for n, v := range inputs(i) {
			globals[d.Names[n]] = v
		}
		var div string
		probe := func(v *tengo.VM) {
			if div != "" {
				return
			}
			fn, ip, sp, bp, fi := v.VerifState()
			r := heights[uintptr(unsafe.Pointer(&fn.Instructions[0]))]
			if r == nil {
				div = fmt.Sprintf("unknown-function: executing a function that is not main or a constant (ip %d)", ip)
				return
			}
			want, ok := r.Res.Heights[ip]
			if !ok {
				div = fmt.Sprintf("unreachable-pc-executed: %s pc %d is executed but statically unreachable", r.Name, ip)
				return
			}
			got := sp
			if fi > 1 {
				got = sp - bp - fn.NumLocals
			}
			if got != want {
				div = fmt.Sprintf("height-divergence: %s pc %d: VM height %d, model height %d", r.Name, ip, got, want)
			}
		}
		run := tg.RunVM(d.Bytecode, globals, -1, 3000, probe)
		atomic.AddInt64(&st.runs, 1)
		atomic.AddInt64(&st.steps, run.Steps)
		classes += run.Class[:1]
		if div != "" {
			add("dynamic/"+strings.SplitN(div, ":", 2)[0], div)
		}
		switch run.Class {
		case "ok":
			if !run.StackEmpty {
				add("dynamic/stack-not-empty", "run ended without error but the operand stack is not empty")
			}
		case "runtime-error":
			t := run.ErrText
			if strings.Contains(t, "unknown opcode") || strings.Contains(t, "not function") {
				add("dynamic/internal-fault", tg.FirstLine(t))
			}
		case "panic":
			// exhausting the fixed operand stack (StackSize slots) by deep non-tail recursion is a
			// resource limit (C05/C06), not a malformed instruction stream
			if stackExhausted.MatchString(tg.FirstLine(run.ErrText)) {
				classes += "(stack-exhausted)"
			} else {
				add("dynamic/panic", tg.FirstLine(run.ErrText))
			}
		}
	}
	return fails, "runs:" + classes
}

func main() {
	if p := report.ReplayArg(); p != "" {
		rp, err := report.LoadReplay(p)
		if err != nil {
			fmt.Println("cannot load replay:", err)
			return
		}
		for _, raw := range rp.Cases {
			var c Case
			_ = report.Recase(raw, &c)
			var st stats
			fails, obs := runCase(c, &st)
			prog, _ := program(c)
			fmt.Printf("case family=%s choices=%v\n%s\n  observed: %s\n", c.Family, c.Choices, tg.Print(prog).AllText, obs)
			for _, f := range fails {
				fmt.Printf("  FAIL %s: %s\n", f.sig, f.what)
			}
		}
		return
	}
	r := report.New("C02")
	var st stats
	distinct := report.NewDistinctSet()
	var compiled, evals int64
	type fam struct {
		name string
		c    Case
	}
	fams := []fam{
		{"cflow", Case{Family: "cflow", Budget: r.Pick(3, 4), Depth: 2, Rich: false}},
		{"cflow-rich", Case{Family: "cflow", Budget: r.Pick(2, 3), Depth: 2, Rich: true}},
		{"func", Case{Family: "func", Budget: r.Pick(2, 3)}},
		{"dce", Case{Family: "dce"}},
		// constant pools with duplicates of every kind, builtin / source / host-object modules (after de-duplication
		// every constant reference must still be valid)
		{"consts", Case{Family: "consts", Budget: r.Pick(2, 3)}},
	}
	for _, f := range fams {
		f := f
		visit := func(choices []int) {
			c := f.c
			c.Choices = append([]int{}, choices...)
			fails, obs := runCase(c, &st)
			n := atomic.AddInt64(&evals, 1)
			if !strings.HasPrefix(obs, "compile:") {
				atomic.AddInt64(&compiled, 1)
			}
			r.Outcome(f.name + "/" + obs)
			r.Count("programs/"+f.name, 1)
			if n%20011 == 1 {
				prog, _ := program(c)
				r.Sample(map[string]interface{}{"family": f.name, "choices": c.Choices, "source": tg.Print(prog).AllText, "observed": obs})
			}
			for _, fl := range fails {
				prog, _ := program(c)
				c.Source = tg.Print(prog).AllText
				r.Violation(fl.sig, fl.what, c)
			}
		}
		switch f.c.Family {
		case "cflow":
			g := gen.Cflow(gen.CflowCfg{Budget: f.c.Budget, MaxDepth: f.c.Depth, Rich: f.c.Rich})
			gen.ParallelEnumerate(g, 3, func(p gen.CflowProgram, ch []int) {
				distinct.Add(tg.Print(p.Prog).AllText)
				visit(ch)
			})
		case "func":
			g := gen.Funcs(gen.FuncCfg{Budget: f.c.Budget})
			gen.ParallelEnumerate(g, 3, func(p *gen.Program, ch []int) {
				distinct.Add(tg.Print(p).AllText)
				visit(ch)
			})
		case "dce":
			gen.ParallelEnumerate(gen.Dce, 3, func(p gen.CflowProgram, ch []int) {
				distinct.Add(tg.Print(p.Prog).AllText)
				visit(ch)
			})
		case "consts":
			gen.ParallelEnumerate(gen.Consts(f.c.Budget), 2, func(p *gen.Program, ch []int) {
				distinct.Add(tg.Print(p).AllText)
				visit(ch)
			})
		}
	}
	// tails family: the last statement of a function varied over kinds and operand values 0..40
	var tails []Case
	for _, k := range gen.TailKinds {
		for i := 0; i < gen.TailCount(k); i++ {
			tails = append(tails, Case{Family: "tails", Kind: k, K: i})
		}
	}
	// limits family: boundary-sized programs around the one-byte operands
	for _, k := range gen.LimitKinds {
		for _, n := range gen.LimitSizes(k) {
			tails = append(tails, Case{Family: "limits", Kind: k, K: n})
		}
	}
	report.ParallelFor(len(tails), func(i int) {
		c := tails[i]
		fails, obs := runCase(c, &st)
		atomic.AddInt64(&evals, 1)
		prog, _ := program(c)
		text := tg.Print(prog).AllText
		distinct.Add(text)
		if !strings.HasPrefix(obs, "compile:") {
			atomic.AddInt64(&compiled, 1)
		}
		r.Outcome(c.Family + "/" + obs)
		r.Count("programs/"+c.Family, 1)
		for _, fl := range fails {
			if c.Family != "limits" {
				c.Source = text
			}
			r.Violation(fl.sig, fl.what, c)
		}
	})
	r.Set("functions_checked", st.funcs)
	r.Set("vm_steps_probed", st.steps)
	r.Set("programs_compiled", compiled)
	r.Set("families", fams2(fams))
	r.Assume("stack effects per opcode are this package's own table (engine/bcv), bound to the VM by the per-instruction probe on every executed path")
	r.Assume("programs that do not compile are outside C02 (C04 covers compile-time totality)")
	r.Finish(report.Coverage{
		States:      st.fnStates,
		Transitions: st.fnTrans,
		Validated:   st.runs,
		Evaluations: evals,
		Nontrivial:  distinct.Len(),
		Rule:        "programs = every element of the cflow/func families below the stated statement budget (exhaustive by replayed choice enumeration); states/transitions = abstract (pc,height) states and edges summed over all functions of all programs; validated = probed VM runs whose every executed instruction was compared with the model height; non-trivial = distinct program texts",
	})
}

func fams2(f interface{}) string { return fmt.Sprintf("%+v", f) }
