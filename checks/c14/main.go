// C14: run-time errors point at the statement that failed.
//
// Exhaustive over: failing operation kinds x the statement form holding the
// failing expression x placement (main, function, closure, module function,
// module top level, loop bodies, after eliminated dead code, if/for headers)
// x call depth 0..3 x the statement form of each active call. The oracle is
// the generator's span map plus the reference interpreter's failing statement
// and active call chain: the first reported location must lie inside the
// innermost executing statement's own text, the following lines (innermost
// first) inside the statement containing each active call, one per active
// call, with the right file names; sentinel and host errors must remain
// recognisable through errors.Is / errors.As.
package main

import (
	"context"
	"errors"
	"fmt"
	"regexp"
	"strconv"
	"strings"
	"sync/atomic"

	"github.com/d5/tengo/v2"
	"verif/engine/gen"
	"verif/engine/ref"
	"verif/engine/report"
	"verif/engine/tg"
)

type Case struct {
	Atom      string     `json:"atom"`      // failing operation
	Form      string     `json:"form"`      // statement form holding the failing expression
	Placement string     `json:"placement"` // where that statement lives
	Depth     int        `json:"depth"`     // number of active calls between main and the failing function
	CallForm  string     `json:"call_form"` // statement form of the calls
	Sentinel  string     `json:"sentinel,omitempty"`
	Host      *hostCase  `json:"host,omitempty"`
	Alloc     *allocCase `json:"alloc,omitempty"`
}

type fail struct{ sig, what string }

var hostErr = errors.New("host failure 42")

type hostErrT struct{ code int }

func (e *hostErrT) Error() string { return "typed host failure" }

// failing expressions; all refer only to variables bad/arr/mp/im/g that the prelude of their function defines.
var atoms = []struct {
	name string
	expr func() gen.Expr
}{
	{"binop-invalid", func() gen.Expr { return gen.B("+", gen.I("one"), gen.S(`"s"`)) }},
	{"binop-sub-string", func() gen.Expr { return gen.B("-", gen.S(`"s"`), gen.I("one")) }},
	{"unary-minus", func() gen.Expr { return &gen.Un{Op: "-", X: gen.I("str")} }},
	{"unary-complement", func() gen.Expr { return &gen.Un{Op: "^", X: gen.I("str")} }},
	{"index-type", func() gen.Expr { return &gen.Index{X: gen.I("arr"), I: gen.I("str")} }},
	{"not-indexable", func() gen.Expr { return &gen.Index{X: gen.I("one"), I: gen.N("0")} }},
	{"slice-bad-index", func() gen.Expr { return &gen.Slice{X: gen.I("arr"), Lo: gen.I("str")} }},
	{"slice-lo-gt-hi", func() gen.Expr { return &gen.Slice{X: gen.I("arr"), Lo: gen.N("2"), Hi: gen.I("one")} }},
	{"error-index", func() gen.Expr { return &gen.Sel{X: &gen.ErrorE{X: gen.I("one")}, Name: "foo"} }},
	{"not-callable", func() gen.Expr { return gen.C(gen.I("one")) }},
	{"wrong-argc", func() gen.Expr { return gen.C(gen.I("two"), gen.I("one")) }},
	{"builtin-argc", func() gen.Expr { return gen.C(gen.I("len")) }},
	{"builtin-type", func() gen.Expr { return gen.C(gen.I("len"), gen.I("one")) }},
	{"spread-non-array", func() gen.Expr { return &gen.Call{F: gen.I("two"), Args: []gen.Expr{gen.I("one")}, Spread: true} }},
	{"array-plus-int", func() gen.Expr { return gen.B("+", gen.I("arr"), gen.I("one")) }},
	{"compare-invalid", func() gen.Expr { return gen.B("<", gen.I("arr"), gen.I("one")) }},
	{"div-zero", func() gen.Expr { return gen.B("/", gen.I("one"), gen.N("0")) }},
	{"rem-zero", func() gen.Expr { return gen.B("%", gen.I("one"), gen.N("0")) }},
}

// statement-level failures (no expression form)
var stmtAtoms = []string{"assign-oob", "assign-string", "assign-immutable", "not-iterable", "selector-assign-nonmap"}

var forms = []string{"exprstmt", "define", "assign-global-like", "if-cond", "for-cond", "return", "call-arg", "array-elem", "compound-assign", "index-of"}
var placements = []string{"iife", "main-offset0-import", "module-offset0-later-module", "copied-func", "plain", "in-if-body", "in-else-body", "in-for-body", "in-forin-body", "after-dead-code", "in-nested-func", "in-closure", "module-func", "module-top", "recursive-late-fail", "mutual-recursive-late-fail"}
var callForms = []string{"define", "exprstmt", "return", "if-cond", "arg"}

// prelude defines the variables the atoms use (as locals of the failing function / globals in main).
func prelude() []gen.Stmt {
	return []gen.Stmt{
		gen.Def("one", gen.N("1")),
		gen.Def("str", gen.S(`"s"`)),
		// a raw string spanning several lines before everything else (every later line number depends on its newlines)
		gen.Def("raw", gen.S("`r1\nr2\nr3`")),
		gen.Def("arr", &gen.ArrayLit{Elems: []gen.Expr{gen.N("1"), gen.N("2"), gen.N("3")}}),
		gen.Def("two", &gen.FuncLit{Params: []string{"p", "q"}, Body: []gen.Stmt{&gen.Return{X: gen.I("p")}}}),
		gen.Def("res", gen.N("0")),
	}
}

func atomExpr(name string) gen.Expr {
	for _, a := range atoms {
		if a.name == name {
			return a.expr()
		}
	}
	return nil
}

// failingStmt builds the statement(s) that fail. inFunc tells whether return is allowed.
func failingStmt(c Case, inFunc bool) []gen.Stmt {
	switch c.Atom {
	case "assign-oob":
		return []gen.Stmt{gen.Set(&gen.Index{X: gen.I("arr"), I: gen.N("5")}, gen.I("one"))}
	case "assign-string":
		return []gen.Stmt{gen.Set(&gen.Index{X: gen.I("str"), I: gen.N("0")}, gen.I("one"))}
	case "assign-immutable":
		return []gen.Stmt{gen.Def("im", &gen.Immutable{X: gen.I("arr")}), gen.Set(&gen.Index{X: gen.I("im"), I: gen.N("0")}, gen.I("one"))}
	case "not-iterable":
		return []gen.Stmt{&gen.ForIn{Key: "v", X: gen.I("one"), Body: []gen.Stmt{gen.Set(gen.I("res"), gen.I("v"))}}}
	case "selector-assign-nonmap":
		return []gen.Stmt{gen.Set(&gen.Sel{X: gen.I("one"), Name: "k"}, gen.I("one"))}
	}
	e := atomExpr(c.Atom)
	switch c.Form {
	case "exprstmt":
		return []gen.Stmt{&gen.ExprStmt{X: e}}
	case "define":
		return []gen.Stmt{gen.Def("fresh", e)}
	case "assign-global-like":
		return []gen.Stmt{gen.Set(gen.I("res"), e)}
	case "if-cond":
		return []gen.Stmt{&gen.If{Cond: e, Then: []gen.Stmt{gen.Set(gen.I("res"), gen.N("1"))}, Else: []gen.Stmt{gen.Set(gen.I("res"), gen.N("2"))}}}
	case "for-cond":
		return []gen.Stmt{&gen.For{Cond: e, Body: []gen.Stmt{gen.Set(gen.I("res"), gen.N("1")), &gen.Break{}}}}
	case "return":
		if !inFunc {
			return nil
		}
		return []gen.Stmt{&gen.Return{X: e}}
	case "call-arg":
		return []gen.Stmt{gen.Set(gen.I("res"), gen.C(gen.I("two"), gen.I("one"), e))}
	case "array-elem":
		return []gen.Stmt{gen.Set(gen.I("res"), &gen.ArrayLit{Elems: []gen.Expr{gen.I("one"), e}})}
	case "compound-assign":
		return []gen.Stmt{&gen.Assign{LHS: gen.I("res"), Op: "+=", RHS: e}}
	case "index-of":
		return []gen.Stmt{gen.Set(gen.I("res"), &gen.Index{X: gen.I("arr"), I: e})}
	}
	return nil
}

// place wraps the failing statements according to the placement; returns nil if not applicable.
func place(c Case, fs []gen.Stmt) (body []gen.Stmt) {
	filler := gen.Set(gen.I("res"), gen.N("9"))
	switch c.Placement {
	case "plain", "module-func", "module-top", "copied-func", "iife", "main-offset0-import":
		return append([]gen.Stmt{filler}, fs...)
	case "module-offset0-later-module":
		return fs
	case "in-if-body":
		return []gen.Stmt{&gen.If{Cond: gen.B("==", gen.I("one"), gen.N("1")), Then: append([]gen.Stmt{filler}, fs...)}, filler}
	case "in-else-body":
		return []gen.Stmt{&gen.If{Cond: gen.B("==", gen.I("one"), gen.N("2")), Then: []gen.Stmt{filler}, Else: fs}, filler}
	case "in-for-body":
		return []gen.Stmt{&gen.For{Init: gen.Def("i", gen.N("0")), Cond: gen.B("<", gen.I("i"), gen.N("2")),
			Post: &gen.IncDec{X: gen.I("i"), Op: "++"}, Body: append([]gen.Stmt{filler}, fs...)}, filler}
	case "in-forin-body":
		return []gen.Stmt{&gen.ForIn{Key: "k", Val: "v", X: gen.I("arr"), Body: fs}, filler}
	case "after-dead-code":
		return nil // handled by the caller (needs a function)
	case "in-nested-func":
		inner := &gen.FuncLit{Body: append(prelude(), fs...)}
		return []gen.Stmt{gen.Def("inner", inner), gen.Set(gen.I("res"), gen.C(gen.I("inner")))}
	case "in-closure":
		// the failing statement uses captured variables of the enclosing function
		inner := &gen.FuncLit{Body: fs}
		return []gen.Stmt{gen.Def("inner", inner), filler, &gen.ExprStmt{X: gen.C(gen.I("inner"))}}
	}
	return nil
}

// callStmt builds the statement that calls callee() in the given form.
func callStmt(form string, callee gen.Expr, inFunc bool) []gen.Stmt {
	call := gen.C(callee)
	switch form {
	case "define":
		return []gen.Stmt{gen.Def("r0", call)}
	case "exprstmt":
		return []gen.Stmt{&gen.ExprStmt{X: call}}
	case "return":
		if !inFunc {
			return nil
		}
		return []gen.Stmt{&gen.Return{X: gen.B("+", call, gen.N("0"))}}
	case "if-cond":
		return []gen.Stmt{&gen.If{Cond: call, Then: []gen.Stmt{gen.Def("z", gen.N("1"))}}}
	case "arg":
		return []gen.Stmt{gen.Def("r1", gen.C(gen.I("len"), &gen.ArrayLit{Elems: []gen.Expr{call}}))}
	}
	return nil
}

func build(c Case) *gen.Program {
	isStmtAtom := false
	for _, s := range stmtAtoms {
		if s == c.Atom {
			isStmtAtom = true
		}
	}
	if isStmtAtom && c.Form != "exprstmt" {
		return nil
	}
	inFunc := c.Depth > 0 || c.Placement == "module-func" || c.Placement == "module-top"
	if c.Placement == "after-dead-code" || c.Placement == "copied-func" || c.Placement == "iife" {
		if c.Depth == 0 {
			return nil
		}
	}
	switch c.Placement {
	case "main-offset0-import":
		// main consists of the bare expression statement import("mod") at offset 0; the module fails
		if c.Depth != 0 || c.Form == "return" {
			return nil
		}
	case "module-offset0-later-module":
		// the module's FIRST statement fails (position = offset 0 of its file) and another module file
		// is added to the file set after it; only self-contained atoms qualify
		if c.Depth != 0 || c.Atom != "binop-invalid" || (c.Form != "exprstmt" && c.Form != "define") {
			return nil
		}
	}
	fs := failingStmt(c, inFunc || c.Placement == "in-nested-func" || c.Placement == "in-closure")
	if fs == nil {
		return nil
	}
	if c.Form == "return" && !(inFunc || c.Placement == "in-nested-func" || c.Placement == "in-closure") {
		return nil
	}
	if c.Placement == "recursive-late-fail" || c.Placement == "mutual-recursive-late-fail" {
		// f0(n): returns from its own recursive call first, then (in the activation n == 1) fails in a later
		// statement, then would call again; the callers n = 2..D are all suspended in the same call statement.
		// Depth d gives D = d + 1 activations below main.
		if c.Depth == 0 || c.Form == "return" {
			return nil
		}
		I, N, B := gen.I, gen.N, gen.B
		callee := "f0"
		if c.Placement == "mutual-recursive-late-fail" {
			callee = "g0"
		}
		rec := func(arg gen.Expr) gen.Expr { return &gen.Call{F: I(callee), Args: []gen.Expr{arg}} }
		fb := append(prelude(),
			&gen.If{Cond: B("==", I("n"), N("0")), Then: []gen.Stmt{&gen.Return{X: N("0")}}},
			gen.Def("x", rec(B("-", I("n"), N("1")))),
			&gen.If{Cond: B("==", I("n"), N("1")), Then: fs},
			gen.Def("x2", rec(N("0"))),
			&gen.Return{X: I("x")})
		p := &gen.Program{}
		main := []gen.Stmt{gen.Def("g0", gen.Undef()), gen.Def("f0", &gen.FuncLit{Params: []string{"n"}, Body: fb})}
		if callee == "g0" {
			main = append(main, gen.Set(I("g0"), &gen.FuncLit{Params: []string{"m"}, Body: []gen.Stmt{
				gen.Def("pad", N("5")), &gen.Return{X: &gen.Call{F: I("f0"), Args: []gen.Expr{I("m")}}}}}))
		}
		top := &gen.Call{F: I("f0"), Args: []gen.Expr{N(strconv.Itoa(c.Depth + 1))}}
		switch c.CallForm {
		case "define":
			main = append(main, gen.Def("r0", top))
		case "exprstmt":
			main = append(main, &gen.ExprStmt{X: top})
		default:
			return nil
		}
		p.Main = main
		return p
	}
	var body []gen.Stmt
	if c.Placement == "after-dead-code" {
		// dead code after a return inside a conditional: removed by the optimiser, shifting every later offset
		dead := &gen.If{Cond: gen.B("==", gen.I("one"), gen.N("2")), Then: []gen.Stmt{
			&gen.Return{X: gen.N("0")}, gen.Set(gen.I("res"), gen.N("5")), gen.Set(gen.I("res"), gen.B("+", gen.I("res"), gen.N("6")))}}
		body = append([]gen.Stmt{dead, gen.Set(gen.I("res"), gen.N("9"))}, fs...)
	} else {
		body = place(c, fs)
	}
	if body == nil {
		return nil
	}
	p := &gen.Program{}
	full := append(prelude(), body...)
	switch c.Placement {
	case "main-offset0-import":
		p.Modules = map[string][]gen.Stmt{"mod": append(full, &gen.Export{X: gen.I("res")})}
		p.Main = []gen.Stmt{&gen.ExprStmt{X: &gen.Import{Name: "mod"}}}
		return p
	case "module-offset0-later-module":
		lit := gen.B("+", gen.N("1"), gen.S(`"s"`))
		var first gen.Stmt = &gen.ExprStmt{X: lit}
		if c.Form == "define" {
			first = gen.Def("fresh", lit)
		}
		p.Modules = map[string][]gen.Stmt{"mod": {first, &gen.Export{X: gen.N("1")}}, "zlate": {&gen.Export{X: gen.N("2")}}}
		p.Main = []gen.Stmt{gen.Def("a", &gen.Import{Name: "mod"}), gen.Def("b", &gen.Import{Name: "zlate"})}
		return p
	case "module-top":
		if c.Form == "return" {
			return nil
		}
		p.Modules = map[string][]gen.Stmt{"mod": append(full, &gen.Export{X: gen.I("res")})}
	case "module-func":
		p.Modules = map[string][]gen.Stmt{"mod": {&gen.Export{X: &gen.FuncLit{Body: full}}}}
	}
	// chain of calls: main -> f1 -> f2 -> ... -> fD (the failing function)
	var target gen.Expr // expression whose call reaches the failing code
	var main []gen.Stmt
	switch c.Placement {
	case "module-top":
		// importing runs the failing body; the "call" is the import expression itself
		target = nil
	case "module-func":
		main = append(main, gen.Def("modf", &gen.Import{Name: "mod"}))
		target = gen.I("modf")
	default:
		if c.Depth == 0 {
			p.Main = full
			return p
		}
		main = append(main, gen.Def("f0", &gen.FuncLit{Body: full}))
		target = gen.I("f0")
		if c.Placement == "iife" {
			// a zero-argument function literal invoked immediately (never stored in a variable)
			main = []gen.Stmt{gen.Def("before", gen.N("1"))}
			target = &gen.FuncLit{Body: full}
		}
		if c.Placement == "copied-func" {
			// the function value is copied (copy builtin) before it is called
			main = append(main, gen.Def("fc", gen.C(gen.I("copy"), gen.I("f0"))))
			target = gen.I("fc")
		}
	}
	depth := c.Depth
	if c.Placement == "module-func" && depth == 0 {
		depth = 1
	}
	if c.Placement == "module-top" {
		// depth counts wrapper functions around the import expression
		imp := gen.Expr(&gen.Import{Name: "mod"})
		if depth == 0 {
			p.Main = []gen.Stmt{gen.Def("r0", imp)}
			return p
		}
		main = append(main, gen.Def("f0", &gen.FuncLit{Body: []gen.Stmt{&gen.Return{X: imp}}}))
		target = gen.I("f0")
	}
	// wrappers f1..f(depth-1)
	for i := 1; i < depth; i++ {
		cs := callStmt(c.CallForm, target, true)
		if cs == nil {
			return nil
		}
		wb := append([]gen.Stmt{gen.Def("w", gen.N(strconv.Itoa(i)))}, cs...)
		name := fmt.Sprintf("f%d", i)
		main = append(main, gen.Def(name, &gen.FuncLit{Body: wb}))
		target = gen.I(name)
	}
	cs := callStmt(c.CallForm, target, false)
	if cs == nil {
		return nil
	}
	p.Main = append(main, cs...)
	return p
}

var atRe = regexp.MustCompile(`^\tat (.*)$`)

type pos struct {
	file      string
	line, col int
	valid     bool
}

func parseTrace(text string) (first string, locs []pos) {
	lines := strings.Split(text, "\n")
	first = lines[0]
	for _, l := range lines[1:] {
		m := atRe.FindStringSubmatch(l)
		if m == nil {
			continue
		}
		parts := strings.Split(m[1], ":")
		p := pos{}
		if len(parts) >= 3 {
			ln, e1 := strconv.Atoi(parts[len(parts)-2])
			cl, e2 := strconv.Atoi(parts[len(parts)-1])
			if e1 == nil && e2 == nil {
				p = pos{file: strings.Join(parts[:len(parts)-2], ":"), line: ln, col: cl, valid: true}
			}
		}
		if !p.valid {
			p.file = m[1]
		}
		locs = append(locs, p)
	}
	return
}

func offsetOf(src string, line, col int) int {
	off := 0
	for l := 1; l < line; l++ {
		i := strings.IndexByte(src[off:], '\n')
		if i < 0 {
			return -1
		}
		off += i + 1
	}
	return off + col - 1
}

func inSpans(off int, spans []gen.Span) bool {
	for _, s := range spans {
		if off >= s.Start && off < s.End {
			return true
		}
	}
	return false
}

func runCase(c Case) (fails []fail, obs string) {
	prog := build(c)
	if prog == nil {
		return nil, "n/a"
	}
	src := tg.Print(prog)
	add := func(kind, what string) {
		// signature: kind x failing operation x placement (statement/call forms are kept out so that one root cause gives few signatures)
		fails = append(fails, fail{fmt.Sprintf("%s/atom=%s/placement=%s", kind, c.Atom, c.Placement), what})
	}
	r := ref.Run(prog, nil, 100000)
	if r.Class != "runtime-error" {
		add("internal-reference", "reference does not fail at run time: "+r.Class+" "+r.Err)
		return fails, "ref:" + r.Class
	}
	o := tg.Run(src.Main.Src, tg.Opts{Modules: src.ModMap})
	if o.Class != "runtime-error" {
		add("impl-"+o.Class, "implementation: "+o.Class+" "+tg.FirstLine(o.ErrText))
		return fails, "impl:" + o.Class
	}
	// positions are looked up through a cache in the shared file set: the same failure reported again (a clone
	// sharing the bytecode, run after the first failure) must read exactly the same
	if o.Comp != nil {
		if cl, _, text2 := tg.RunCompiled(o.Comp.Clone()); cl != "runtime-error" || text2 != o.ErrText {
			add("location-depends-on-earlier-runs", fmt.Sprintf("first run: %q; a clone run afterwards: %s %q", o.ErrText, cl, text2))
		}
	}
	first, locs := parseTrace(o.ErrText)
	_ = first
	printed := func(file string) *gen.Printed {
		if file == "(main)" {
			return src.Main
		}
		return src.Mods[file]
	}
	check := func(i int, l pos, want ref.Loc, own bool) {
		if !l.valid {
			add(fmt.Sprintf("location-missing/line=%d", min(i, 1)), fmt.Sprintf("trace line %d has no position: %q", i, l.file))
			return
		}
		if l.file != want.File {
			add(fmt.Sprintf("wrong-file/line=%d", min(i, 1)), fmt.Sprintf("trace line %d names file %q, expected %q", i, l.file, want.File))
			return
		}
		pr := printed(want.File)
		if pr == nil {
			add("internal-reference", "no printed source for "+want.File)
			return
		}
		off := offsetOf(pr.Src, l.line, l.col)
		spans := []gen.Span{pr.Stmts[want.Stmt]}
		if own {
			spans = pr.Own[want.Stmt]
		}
		if off < 0 || !inSpans(off, spans) {
			st := pr.Stmts[want.Stmt]
			add(fmt.Sprintf("outside-statement/line=%d", min(i, 1)), fmt.Sprintf("trace line %d: %s:%d:%d (offset %d) is outside statement [%d,%d) %q", i, l.file, l.line, l.col, off, st.Start, st.End, clip(pr.Src, st.Start, st.End)))
		}
	}
	if len(locs) == 0 {
		add("location-missing/line=0", "no location at all: "+tg.FirstLine(o.ErrText))
		return fails, "no-locations"
	}
	check(0, locs[0], r.Fail, true)
	if len(locs)-1 != len(r.Chain) {
		add("trace-length", fmt.Sprintf("%d trace lines after the first, %d active calls", len(locs)-1, len(r.Chain)))
	} else {
		for i, ch := range r.Chain {
			check(i+1, locs[i+1], ch, false)
		}
	}
	return fails, fmt.Sprintf("ok/chain=%d", len(r.Chain))
}

func clip(s string, a, b int) string {
	if a < 0 || b > len(s) || a > b {
		return ""
	}
	t := s[a:b]
	if len(t) > 60 {
		t = t[:60] + "..."
	}
	return t
}

// sentinel cases: errors.Is / errors.As through the decorated run-time error
func runSentinel(name string) (fails []fail, obs string) {
	add := func(what string) { fails = append(fails, fail{"unwrap/" + name, what}) }
	type sc struct {
		src      string
		allocs   int64
		is       error
		funcs    map[string]tengo.Object
		maxStr   int // tengo.MaxStringLen for this case (sentinel cases run sequentially)
		maxBytes int
	}
	typed := &hostErrT{code: 7}
	cases := map[string]sc{
		"wrong-num-args-fn": {src: "f := func(a) { return a }; f()", is: nil},
		"host-error": {src: "x := hf(1)", is: hostErr, funcs: map[string]tengo.Object{"hf": &tengo.UserFunction{Name: "hf",
			Value: func(args ...tengo.Object) (tengo.Object, error) { return nil, hostErr }}}},
		"host-error-nested": {src: "g := func() { return hf(1) + 1 }; x := g()", is: hostErr, funcs: map[string]tengo.Object{"hf": &tengo.UserFunction{Name: "hf",
			Value: func(args ...tengo.Object) (tengo.Object, error) { return nil, hostErr }}}},
		"host-error-typed": {src: "x := hf(1)", is: typed, funcs: map[string]tengo.Object{"hf": &tengo.UserFunction{Name: "hf",
			Value: func(args ...tengo.Object) (tengo.Object, error) { return nil, typed }}}},
	}
	// the engine's sentinel errors: every kind raised at every site
	kinds := map[string]sc{
		"index-out-of-bounds":        {src: "a := [1]; a[3] = 1", is: tengo.ErrIndexOutOfBounds},
		"index-out-of-bounds-splice": {src: "a := splice([1], 5)", is: tengo.ErrIndexOutOfBounds},
		"stack-overflow":             {src: "rec := func() { return rec() + 1 }; rec()", is: tengo.ErrStackOverflow},
		"alloc-limit":                {src: "a := 0; for i := 0; i < 100; i++ { a = [i] }", allocs: 5, is: tengo.ErrObjectAllocLimit},
		"bytes-limit":                {src: "a := bytes(2147483648)", is: tengo.ErrBytesLimit},
		"string-limit":               {src: "a := \"aaaa\" + \"bbbbb\"", is: tengo.ErrStringLimit, maxStr: 8},
		"string-limit-format":        {src: "a := format(\"%s%s\", \"aaaa\", \"bbbbb\")", is: tengo.ErrStringLimit, maxStr: 8},
		"bytes-limit-plus":           {src: "a := bytes(\"aaaa\") + bytes(\"bbbbb\")", is: tengo.ErrBytesLimit, maxBytes: 8},
		"string-limit-plus-int":      {src: "a := \"aaaaaa\" + 12345", is: tengo.ErrStringLimit, maxStr: 8},
		"string-limit-plus-float":    {src: "a := \"aaaaaa\" + 1.2345", is: tengo.ErrStringLimit, maxStr: 8},
		"string-limit-plus-array":    {src: "a := \"aaaaaa\" + [1, 2, 3]", is: tengo.ErrStringLimit, maxStr: 8},
		"string-limit-plus-map":      {src: "a := \"aaaaaa\" + {k: 1}", is: tengo.ErrStringLimit, maxStr: 8},
	}
	sites := map[string]string{
		"top":        "%s",
		"in-func":    "f := func() { %s }; f()",
		"in-closure": "mk := func() { k := 1; return func() { %s; return k } }; mk()()",
		"in-loop":    "for once := true; once; once = false { %s }",
	}
	for kn, k := range kinds {
		for sn, tmpl := range sites {
			c := k
			c.src = fmt.Sprintf(tmpl, k.src)
			cases[kn+"@"+sn] = c
		}
	}
	c, ok := cases[name]
	if !ok {
		return []fail{{"internal/unknown-sentinel", name}}, ""
	}
	if c.maxStr > 0 {
		old := tengo.MaxStringLen
		tengo.MaxStringLen = c.maxStr
		defer func() { tengo.MaxStringLen = old }()
	}
	if c.maxBytes > 0 {
		old := tengo.MaxBytesLen
		tengo.MaxBytesLen = c.maxBytes
		defer func() { tengo.MaxBytesLen = old }()
	}
	s := tengo.NewScript([]byte(c.src))
	for k, v := range c.funcs {
		_ = s.Add(k, v)
	}
	if c.allocs > 0 {
		s.SetMaxAllocs(c.allocs)
	}
	comp, err := s.Compile()
	if err != nil {
		add("does not compile: " + err.Error())
		return fails, "compile-error"
	}
	for _, via := range []string{"Run", "RunContext"} {
		var rerr error
		func() {
			defer func() {
				if r := recover(); r != nil {
					rerr = fmt.Errorf("PANIC: %v", r)
				}
			}()
			if via == "Run" {
				rerr = comp.Clone().Run()
			} else {
				rerr = comp.Clone().RunContext(context.Background())
			}
		}()
		if rerr == nil {
			add(via + ": no error")
			continue
		}
		if c.is != nil && !errors.Is(rerr, c.is) {
			add(fmt.Sprintf("%s: errors.Is(err, %v) is false for %q", via, c.is, tg.FirstLine(rerr.Error())))
		}
		if name == "host-error-typed" {
			var t *hostErrT
			if !errors.As(rerr, &t) || t.code != 7 {
				add(via + ": errors.As does not recover the host error type")
			}
		}
		if !strings.Contains(rerr.Error(), "\n\tat ") {
			add(via + ": error carries no location: " + tg.FirstLine(rerr.Error()))
		}
	}
	return fails, "checked"
}

var sentinels = func() []string {
	out := []string{"wrong-num-args-fn", "host-error", "host-error-nested", "host-error-typed"}
	for _, k := range []string{"index-out-of-bounds", "index-out-of-bounds-splice", "stack-overflow", "alloc-limit", "bytes-limit", "string-limit", "string-limit-format", "bytes-limit-plus", "string-limit-plus-int", "string-limit-plus-float", "string-limit-plus-array", "string-limit-plus-map"} {
		for _, s := range []string{"top", "in-func", "in-closure", "in-loop"} {
			out = append(out, k+"@"+s)
		}
	}
	return out
}()

func main() {
	if p := report.ReplayArg(); p != "" {
		rp, err := report.LoadReplay(p)
		if err != nil {
			fmt.Println("cannot load replay:", err)
			return
		}
		for _, raw := range rp.Cases {
			var c Case
			_ = report.Recase(raw, &c)
			var fails []fail
			var obs string
			if c.Alloc != nil {
				fails, obs = runAllocCase(*c.Alloc)
				src, _ := allocProgram(*c.Alloc)
				fmt.Printf("allocation-limit position case %+v\n%s", *c.Alloc, src)
			} else if c.Host != nil {
				fails, obs = runHostCase(*c.Host)
				fmt.Printf("host error case %+v\n", *c.Host)
			} else if c.Sentinel != "" {
				fails, obs = runSentinel(c.Sentinel)
				fmt.Printf("sentinel case %s\n", c.Sentinel)
			} else {
				fails, obs = runCase(c)
				if prog := build(c); prog != nil {
					src := tg.Print(prog)
					o := tg.Run(src.Main.Src, tg.Opts{Modules: src.ModMap})
					fmt.Printf("case %+v\n%s\n  implementation error:\n%s\n", c, src.AllText, o.ErrText)
				}
			}
			fmt.Printf("  observed: %s\n", obs)
			for _, f := range fails {
				fmt.Printf("  FAIL %s: %s\n", f.sig, f.what)
			}
		}
		return
	}
	r := report.New("C14")
	var cases []Case
	allAtoms := []string{}
	for _, a := range atoms {
		allAtoms = append(allAtoms, a.name)
	}
	allAtoms = append(allAtoms, stmtAtoms...)
	maxDepth := r.Pick(2, 3)
	for _, a := range allAtoms {
		for _, f := range forms {
			for _, pl := range placements {
				for d := 0; d <= maxDepth; d++ {
					cfs := callForms
					if d == 0 && pl != "module-func" {
						cfs = callForms[:1]
					}
					for _, cf := range cfs {
						cases = append(cases, Case{Atom: a, Form: f, Placement: pl, Depth: d, CallForm: cf})
					}
				}
			}
		}
	}
	var applicable, validated int64
	distinct := report.NewDistinctSet()
	report.ParallelFor(len(cases), func(i int) {
		c := cases[i]
		fails, obs := runCase(c)
		if obs == "n/a" {
			return
		}
		atomic.AddInt64(&applicable, 1)
		if strings.HasPrefix(obs, "ok/") {
			atomic.AddInt64(&validated, 1)
		}
		if c.Depth > 0 {
			distinct.Add(fmt.Sprintf("%+v", c))
		}
		r.Outcome(obs)
		if i%1499 == 0 {
			src := tg.Print(build(c))
			o := tg.Run(src.Main.Src, tg.Opts{Modules: src.ModMap})
			r.Sample(map[string]interface{}{"case": c, "source": src.AllText, "error": o.ErrText})
		}
		for _, f := range fails {
			r.Violation(f.sig, f.what, c)
		}
	})
	for _, s := range sentinels {
		fails, _ := runSentinel(s)
		atomic.AddInt64(&applicable, 1)
		atomic.AddInt64(&validated, 1)
		for _, f := range fails {
			r.Violation(f.sig, f.what, Case{Sentinel: s})
		}
	}
	hcs := hostCases()
	for _, hc := range hcs {
		hc := hc
		fails, obs := runHostCase(hc)
		atomic.AddInt64(&applicable, 1)
		atomic.AddInt64(&validated, 1)
		r.Outcome(obs)
		for _, f := range fails {
			r.Violation(f.sig, f.what, Case{Host: &hc})
		}
	}
	acs := allocCases()
	for _, ac := range acs {
		ac := ac
		fails, obs := runAllocCase(ac)
		atomic.AddInt64(&applicable, 1)
		atomic.AddInt64(&validated, 1)
		r.Outcome(obs)
		for _, f := range fails {
			r.Violation(f.sig, f.what, Case{Alloc: &ac})
		}
	}
	r.Set("alloc_limit_position_cases", len(acs))
	r.Set("host_error_grid", map[string]interface{}{"kinds": hostErrKinds(), "sites": len(hostSites), "cases": len(hcs)})
	r.Set("atoms", allAtoms)
	r.Set("forms", forms)
	r.Set("placements", placements)
	r.Set("call_forms", callForms)
	r.Assume("the failing statement and the active call chain are computed by the reference interpreter (engine/ref); spans by the generator's printer (own text = statement span minus nested statements)")
	r.Finish(report.Coverage{
		States:      applicable,
		Transitions: applicable * 2,
		Validated:   validated,
		Evaluations: int64(len(cases)),
		Nontrivial:  distinct.Len(),
		Rule:        "cases = failing atoms x statement forms x placements x call depth x call statement forms (inapplicable combinations dropped) + sentinel/host error cases; state = one failing program; validated = programs whose every trace line was compared with the span map; non-trivial = programs with at least one active call at the failure",
	})
}
