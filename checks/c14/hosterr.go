package main

// Host-error grid (the unwrapping half of C14): every error shape a host-provided function or
// object can return x every route by which the VM receives it x Run / RunContext. The error the
// embedder gets back must still match the host's own error value (errors.Is), expose its type
// (errors.As) and - when the host error wraps one of the engine's exported errors as its cause -
// match that cause too; and it must carry a location.
//
// The bare protocol values the VM is documented to translate into its own messages
// (ErrWrongNumArguments, ErrInvalidArgumentType, ErrInvalidOperator, ErrNotIndexable, ...
// returned as such) are not host errors and are not part of the grid; the same values WRAPPED
// in a host error are.

import (
	"context"
	"errors"
	"fmt"
	"strings"

	"github.com/d5/tengo/v2"
	"github.com/d5/tengo/v2/token"
	"verif/engine/tg"
)

type hostErrV struct{ code int } // value-typed host error

func (e hostErrV) Error() string { return fmt.Sprintf("value-typed host failure %d", e.code) }

type hostErrW struct { // host error type with a cause
	msg   string
	cause error
}

func (e *hostErrW) Error() string { return e.msg + ": " + e.cause.Error() }
func (e *hostErrW) Unwrap() error { return e.cause }

// engine errors a host error may wrap as its cause
var engineCauses = map[string]error{
	"ErrStackOverflow":         tengo.ErrStackOverflow,
	"ErrObjectAllocLimit":      tengo.ErrObjectAllocLimit,
	"ErrIndexOutOfBounds":      tengo.ErrIndexOutOfBounds,
	"ErrInvalidIndexType":      tengo.ErrInvalidIndexType,
	"ErrInvalidIndexValueType": tengo.ErrInvalidIndexValueType,
	"ErrInvalidIndexOnError":   tengo.ErrInvalidIndexOnError,
	"ErrInvalidOperator":       tengo.ErrInvalidOperator,
	"ErrWrongNumArguments":     tengo.ErrWrongNumArguments,
	"ErrBytesLimit":            tengo.ErrBytesLimit,
	"ErrStringLimit":           tengo.ErrStringLimit,
	"ErrNotIndexable":          tengo.ErrNotIndexable,
	"ErrNotIndexAssignable":    tengo.ErrNotIndexAssignable,
	"ErrNotImplemented":        tengo.ErrNotImplemented,
	"ErrInvalidRangeStep":      tengo.ErrInvalidRangeStep,
	"ErrInvalidArgumentType":   tengo.ErrInvalidArgumentType{Name: "first", Expected: "int", Found: "string"},
}

var engineCauseNames = []string{"ErrStackOverflow", "ErrObjectAllocLimit", "ErrIndexOutOfBounds", "ErrInvalidIndexType",
	"ErrInvalidIndexValueType", "ErrInvalidIndexOnError", "ErrInvalidOperator", "ErrWrongNumArguments", "ErrBytesLimit",
	"ErrStringLimit", "ErrNotIndexable", "ErrNotIndexAssignable", "ErrNotImplemented", "ErrInvalidRangeStep", "ErrInvalidArgumentType"}

// hostErrKinds: plain | typed-ptr | typed-value | fmtw:<cause> | typedw:<cause>
func hostErrKinds() []string {
	ks := []string{"plain", "typed-ptr", "typed-value"}
	for _, n := range engineCauseNames {
		ks = append(ks, "fmtw:"+n, "typedw:"+n)
	}
	return ks
}

// mkHostErr builds the error and the checks the returned run error must pass.
func mkHostErr(kind string) (e error, check func(rerr error) []string) {
	switch {
	case kind == "plain":
		e = errors.New("host failure 42")
		return e, func(r error) (out []string) {
			if !errors.Is(r, e) {
				out = append(out, "errors.Is(err, hostErr) is false")
			}
			return
		}
	case kind == "typed-ptr":
		t := &hostErrT{code: 7}
		return t, func(r error) (out []string) {
			var got *hostErrT
			if !errors.As(r, &got) || got != t {
				out = append(out, "errors.As does not recover the host's *hostErrT")
			}
			return
		}
	case kind == "typed-value":
		t := hostErrV{code: 9}
		return t, func(r error) (out []string) {
			var got hostErrV
			if !errors.As(r, &got) || got.code != 9 {
				out = append(out, "errors.As does not recover the host's hostErrV")
			}
			return
		}
	case strings.HasPrefix(kind, "fmtw:"), strings.HasPrefix(kind, "typedw:"):
		name := kind[strings.IndexByte(kind, ':')+1:]
		cause := engineCauses[name]
		var w *hostErrW
		if strings.HasPrefix(kind, "fmtw:") {
			e = fmt.Errorf("host layer: %w", cause)
		} else {
			w = &hostErrW{msg: "host layer", cause: cause}
			e = w
		}
		return e, func(r error) (out []string) {
			if !errors.Is(r, e) {
				out = append(out, "errors.Is(err, <the host's own error value>) is false")
			}
			if _, isStruct := cause.(tengo.ErrInvalidArgumentType); isStruct {
				var got tengo.ErrInvalidArgumentType
				if !errors.As(r, &got) || got.Name != "first" {
					out = append(out, "errors.As does not recover the wrapped ErrInvalidArgumentType cause")
				}
			} else if !errors.Is(r, cause) {
				out = append(out, "errors.Is(err, tengo."+name+") is false: the cause wrapped by the host error is lost")
			}
			if w != nil {
				var got *hostErrW
				if !errors.As(r, &got) || got != w {
					out = append(out, "errors.As does not recover the host's *hostErrW")
				}
			}
			return
		}
	}
	return nil, nil
}

// hostObj is a host-provided object whose every operation fails with the error under test.
type hostObj struct {
	tengo.ObjectImpl
	err error
}

func (o *hostObj) TypeName() string                           { return "host-object" }
func (o *hostObj) String() string                             { return "<host-object>" }
func (o *hostObj) Copy() tengo.Object                         { return o }
func (o *hostObj) IsFalsy() bool                              { return false }
func (o *hostObj) Equals(x tengo.Object) bool                 { return o == x }
func (o *hostObj) CanCall() bool                              { return true }
func (o *hostObj) Call(...tengo.Object) (tengo.Object, error) { return nil, o.err }
func (o *hostObj) BinaryOp(token.Token, tengo.Object) (tengo.Object, error) {
	return nil, o.err
}
func (o *hostObj) IndexGet(tengo.Object) (tengo.Object, error) { return nil, o.err }
func (o *hostObj) IndexSet(_, _ tengo.Object) error            { return o.err }

// hostSites: how the failing host code is reached from the script (hf = host function, ho = host object)
var hostSites = []struct{ name, src, mod string }{
	{"call-top", "x := hf(1)", ""},
	{"call-nested", "g := func() { return hf(1) + 1 }; x := g()", ""},
	{"call-tail", "g := func() { return hf(1) }; x := g()", ""},
	{"call-method", "m := {f: hf}; x := m.f(1)", ""},
	{"call-spread", "a := [1, 2]; x := hf(a...)", ""},
	{"call-in-module", "m := import(\"mod\"); x := m.call(hf)", "export {call: func(f) { y := f(1); return y }}"},
	{"call-in-closure-loop", "x := 0; for i := 0; i < 2; i++ { g := func() { return hf(i) }; if i == 1 { x = g() } }", ""},
	{"obj-call", "x := ho(1)", ""},
	{"obj-binop", "x := ho + 1", ""},
	{"obj-binop-nested", "g := func(o) { return [o * 2] }; x := g(ho)", ""},
	{"obj-index-get", "x := ho[1]", ""},
	{"obj-selector-get", "x := ho.name", ""},
	{"obj-index-set", "ho[1] = 2", ""},
	{"obj-selector-set-in-func", "g := func(o) { o.name = 2 }; g(ho)", ""},
}

type hostCase struct {
	Kind string `json:"host_error_kind"`
	Site string `json:"site"`
}

func hostCases() []hostCase {
	var out []hostCase
	for _, k := range hostErrKinds() {
		for _, s := range hostSites {
			out = append(out, hostCase{k, s.name})
		}
	}
	return out
}

func runHostCase(hc hostCase) (fails []fail, obs string) {
	add := func(what string) {
		kind := hc.Kind
		if i := strings.IndexByte(kind, ':'); i >= 0 && !strings.HasSuffix(kind, "ErrWrongNumArguments") && !strings.HasSuffix(kind, "ErrInvalidArgumentType") {
			kind = kind[:i] + ":<engine error>"
		}
		fails = append(fails, fail{"unwrap/host/kind=" + kind + "/site=" + hc.Site, what})
	}
	var site *struct{ name, src, mod string }
	for i := range hostSites {
		if hostSites[i].name == hc.Site {
			site = &hostSites[i]
		}
	}
	if site == nil {
		return []fail{{"internal/unknown-host-site", hc.Site}}, ""
	}
	e, check := mkHostErr(hc.Kind)
	if e == nil {
		return []fail{{"internal/unknown-host-error-kind", hc.Kind}}, ""
	}
	s := tengo.NewScript([]byte(site.src))
	_ = s.Add("hf", &tengo.UserFunction{Name: "hf", Value: func(...tengo.Object) (tengo.Object, error) { return nil, e }})
	_ = s.Add("ho", &hostObj{err: e})
	if site.mod != "" {
		mm := tengo.NewModuleMap()
		mm.AddSourceModule("mod", []byte(site.mod))
		s.SetImports(mm)
	}
	comp, err := s.Compile()
	if err != nil {
		return []fail{{"internal/host-site-does-not-compile", hc.Site + ": " + err.Error()}}, "compile-error"
	}
	for _, via := range []string{"Run", "RunContext"} {
		var rerr error
		func() {
			defer func() {
				if r := recover(); r != nil {
					rerr = fmt.Errorf("PANIC: %v", r)
				}
			}()
			if via == "Run" {
				rerr = comp.Clone().Run()
			} else {
				rerr = comp.Clone().RunContext(context.Background())
			}
		}()
		if rerr == nil {
			add(via + ": the failing host code produced no error")
			continue
		}
		for _, p := range check(rerr) {
			add(fmt.Sprintf("%s: %s (got %q)", via, p, tg.FirstLine(rerr.Error())))
		}
		if !strings.Contains(rerr.Error(), "\n\tat ") {
			add(via + ": error carries no location: " + tg.FirstLine(rerr.Error()))
		}
	}
	return fails, "host-checked"
}

// Allocation-limit positions: the statement whose allocation exhausts the budget is the one reported. Programs are
// lines of single-allocation statements; with budget N the (N+1)th allocating line must be named.
var allocKinds = []struct{ name, expr string }{
	{"empty-array", "[]"}, {"array", "[1, 2]"}, {"empty-map", "{}"}, {"map", "{a: 1}"}, {"error", "error(1)"},
	{"int-sum", "big + 1"}, {"string-concat", "str + \"x\""}, {"builtin-call", "len(str)"},
}

type allocCase struct {
	Kind   string `json:"alloc_kind"`
	Site   string `json:"site"` // main | func | loop
	Budget int    `json:"budget"`
}

func allocCases() []allocCase {
	var out []allocCase
	for _, k := range allocKinds {
		for _, s := range []string{"main", "func", "loop"} {
			for n := 0; n <= 2; n++ {
				out = append(out, allocCase{k.name, s, n})
			}
		}
	}
	return out
}

// allocProgram returns the source and the 1-based lines of the allocating statements in execution order.
func allocProgram(c allocCase) (string, []int) {
	expr := ""
	for _, k := range allocKinds {
		if k.name == c.Kind {
			expr = k.expr
		}
	}
	pre := "big := 1000000\nstr := \"s\"\n"
	switch c.Site {
	case "main":
		return pre + "a := 1\nb := " + expr + "\nc := " + expr + "\nd := " + expr + "\n", []int{4, 5, 6}
	case "func":
		return pre + "f := func() {\n\ta := 1\n\tb := " + expr + "\n\tc := " + expr + "\n\td := " + expr + "\n\treturn a\n}\nout := f()\n", []int{5, 6, 7}
	default:
		return pre + "for i := 0; i < 1; i++ {\n\tb := " + expr + "\n\tc := " + expr + "\n\td := " + expr + "\n}\n", []int{4, 5, 6}
	}
}

func runAllocCase(c allocCase) (fails []fail, obs string) {
	add := func(what string) {
		fails = append(fails, fail{"alloc-limit-position/kind=" + c.Kind + "/site=" + c.Site, what})
	}
	src, lines := allocProgram(c)
	run := func(n int64) (error, string) {
		s := tengo.NewScript([]byte(src))
		s.SetMaxAllocs(n)
		comp, err := s.Compile()
		if err != nil {
			return err, "compile-error"
		}
		var rerr error
		func() {
			defer func() {
				if r := recover(); r != nil {
					rerr = fmt.Errorf("PANIC: %v", r)
				}
			}()
			rerr = comp.RunContext(context.Background())
		}()
		return rerr, ""
	}
	// calibration on this very tree: the kind must perform exactly one tracked allocation per line
	// (budget 3 succeeds, budget 2 fails), otherwise nothing is claimed for it
	if e3, _ := run(3); e3 != nil {
		return nil, "n/a:more-than-one-allocation-per-line"
	}
	if e2, _ := run(2); e2 == nil || !errors.Is(e2, tengo.ErrObjectAllocLimit) {
		return nil, "n/a:fewer-allocations"
	}
	rerr, _ := run(int64(c.Budget))
	if rerr == nil || !errors.Is(rerr, tengo.ErrObjectAllocLimit) {
		add(fmt.Sprintf("budget %d: expected the allocation-limit error, got %v", c.Budget, rerr))
		return fails, "no-alloc-error"
	}
	_, locs := parseTrace(rerr.Error())
	want := lines[c.Budget]
	if len(locs) == 0 || !locs[0].valid {
		add(fmt.Sprintf("budget %d: no position in %q", c.Budget, tg.FirstLine(rerr.Error())))
		return fails, "no-position"
	}
	if locs[0].line != want {
		add(fmt.Sprintf("budget %d: allocation #%d happens on line %d, the error names line %d (%q)", c.Budget, c.Budget+1, want, locs[0].line, src))
	}
	return fails, "alloc-position-checked"
}
