#!/bin/bash
# produces $1/overlay.json: tengo's sources rewritten to run under the controlled scheduler.
# The rewritten files live in a content-addressed directory so that the Go build cache can be reused
# between runs on unchanged sources; everything is regenerated from /repo's current files when they change.
export GOFLAGS=-mod=mod GOPROXY=off GOSUMDB=off GOTOOLCHAIN=local
cd "$(dirname "$0")/../.." || exit 2
REPO=$(sed -n 's#^replace github.com/d5/tengo/v2 => ##p' go.mod)
REPO=${REPO:-/repo}
go build -o "$1/instr-bin" ./cmd/instr || exit 2
sum=$( (cat "$REPO"/*.go cmd/instr/*.go; echo "$REPO") | sha1sum | cut -c1-16)
base=${VERIF_SCRATCH:-/var/tmp}
dir="$base/verif-ovl-$sum"
find "$base" -maxdepth 1 -name 'verif-ovl-*' -mmin +720 -exec rm -rf {} + 2>/dev/null
if [ ! -f "$dir/overlay.json" ] && [ ! -f "$dir/instr-incomplete.txt" ]; then
  tmp=$(mktemp -d "$base/verif-ovl-tmp-XXXXXX") || exit 2
  "$1/instr-bin" -repo "$REPO" -out "$tmp"
  rc=$?
  if [ $rc -ne 0 ] && [ $rc -ne 3 ]; then rm -rf "$tmp"; exit $rc; fi
  # paths inside overlay.json must point at the final location
  sed -i "s#$tmp#$dir#g" "$tmp/overlay.json" 2>/dev/null
  mv "$tmp" "$dir" 2>/dev/null || rm -rf "$tmp"
fi
if [ -f "$dir/instr-incomplete.txt" ]; then
  cat "$dir/instr-incomplete.txt"
  rm -f "$1/overlay.json"   # build without overlay; the check reports exhaustive:false
  exit 0
fi
cp "$dir/overlay.json" "$1/overlay.json"
