// C07: cancellation stops any running script promptly and cleanly.
//
// The real Compiled.RunContext / VM.run code (sources rewritten at check time
// by cmd/instr so that every lock, atomic, goroutine spawn, channel operation
// and select is a scheduling point of engine/vsched) is explored under ALL
// interleavings of three threads: the caller (RunContext(ctx), then Set and a
// second RunContext on the same object), the VM goroutine it spawns, and a
// canceller that calls cancel() at an arbitrary instant (including before the
// call). DFS with a visited set over global state keys; invariants in every
// state; fair-cycle (livelock) analysis on the explored state graph.
package main

import (
	"context"
	"errors"
	"fmt"
	"os"
	"path/filepath"
	"sort"
	"strings"
	"unsafe"

	"github.com/d5/tengo/v2"
	"verif/engine/report"
	"verif/engine/val"
	"verif/engine/vsched"
)

type driver struct {
	name     string
	src      string
	inputs   map[string]interface{}
	mods     map[string]string
	infinite bool // does not terminate until spin is set to false
	wantOut  string
	reset    map[string]interface{} // Set before the second run
}

var drivers = []driver{
	{name: "loop", src: "out := 0; for spin { n = (n+1)%3 }; out = 7", inputs: map[string]interface{}{"spin": true, "n": 0},
		infinite: true, wantOut: "int:7", reset: map[string]interface{}{"spin": false}},
	{name: "tailrec", src: "out := 0; f := func(n) { return f((n+1)%3) }; if spin { f(0) }; out = 7", inputs: map[string]interface{}{"spin": true},
		infinite: true, wantOut: "int:7", reset: map[string]interface{}{"spin": false}},
	{name: "nested-loop", src: "out := 0; for spin { for i := 0; i < 2; i++ { n = (n+i)%2 } }; out = 7", inputs: map[string]interface{}{"spin": true, "n": 0},
		infinite: true, wantOut: "int:7", reset: map[string]interface{}{"spin": false}},
	{name: "closure-loop", src: "out := 0; mk := func() { c := 0; return func() { c = (c+1)%3; return c } }; f := mk(); for spin { n = f() }; out = 7",
		inputs: map[string]interface{}{"spin": true, "n": 0}, infinite: true, wantOut: "int:7", reset: map[string]interface{}{"spin": false}},
	{name: "module-loop", src: "out := 0; m := import(\"mod\"); for spin { n = m.next(n) }; out = 7", mods: map[string]string{"mod": "export {next: func(x) { return (x+1)%3 }}"},
		inputs: map[string]interface{}{"spin": true, "n": 0}, infinite: true, wantOut: "int:7", reset: map[string]interface{}{"spin": false}},
	// loops made of unconditional jumps only (a jump to itself, two jumps at each other), also inside a function
	{name: "bodyless-loop", src: "out := 0; if spin { for {} }; out = 7", inputs: map[string]interface{}{"spin": true},
		infinite: true, wantOut: "int:7", reset: map[string]interface{}{"spin": false}},
	{name: "continue-only-loop", src: "out := 0; if spin { for { continue } }; out = 7", inputs: map[string]interface{}{"spin": true},
		infinite: true, wantOut: "int:7", reset: map[string]interface{}{"spin": false}},
	{name: "bodyless-loop-in-func", src: "out := 0; f := func() { for {} }; if spin { f() }; out = 7", inputs: map[string]interface{}{"spin": true},
		infinite: true, wantOut: "int:7", reset: map[string]interface{}{"spin": false}},
	// (the second run gets a different input: a run that executes nothing would leave the first run's result)
	{name: "terminating", src: "out := a + 1", inputs: map[string]interface{}{"a": 6}, wantOut: "int:42", reset: map[string]interface{}{"a": 41}},
	{name: "native-call", src: "out := len(arr) + a", inputs: map[string]interface{}{"arr": []interface{}{1, 2}, "a": 5}, wantOut: "int:42", reset: map[string]interface{}{"a": 40}},
	// the loop's instructions carry operand bytes of every small value (global #41 = the SUSPEND opcode's number):
	// whatever the VM decides by looking at the byte under its instruction pointer must not depend on them
	{name: "operand-sweep-loop", src: operandSweep(44), inputs: map[string]interface{}{"spin": true},
		infinite: true, wantOut: "int:7", reset: map[string]interface{}{"spin": false}},
	{name: "runtime-error", src: "out := a + \"x\"", inputs: map[string]interface{}{"a": 1}, wantOut: "", reset: map[string]interface{}{"a": 1}},
	// a host function that panics (with an error, a string, any other value): the call must still return, whatever the cancellation instant
	{name: "host-panic-error", src: "out := hp(a)", inputs: map[string]interface{}{"a": 1, "hp": panicker(errors.New("boom"))}, wantOut: "", reset: map[string]interface{}{"a": 1}},
	{name: "host-panic-string", src: "out := hp(a)", inputs: map[string]interface{}{"a": 1, "hp": panicker("boom")}, wantOut: "", reset: map[string]interface{}{"a": 1}},
	{name: "host-panic-struct", src: "out := hp(a)", inputs: map[string]interface{}{"a": 1, "hp": panicker(struct{ code int }{7})}, wantOut: "", reset: map[string]interface{}{"a": 1}},
	{name: "host-panic-in-loop", src: "out := 0; for i := 0; i < 2; i++ { if i == 1 { out = hp(i) } }", inputs: map[string]interface{}{"hp": panicker(42)}, wantOut: "", reset: map[string]interface{}{}},
}

// operandSweep: n globals; the loop stores to the last four of them
func operandSweep(n int) string {
	var sb strings.Builder
	sb.WriteString("out := 0; ")
	for i := 0; i < n; i++ {
		fmt.Fprintf(&sb, "g%d := 0; ", i)
	}
	fmt.Fprintf(&sb, "for spin { g%d = 1; g%d = 1; g%d = 1; g%d = 1 }; out = 7", n-4, n-3, n-2, n-1)
	return sb.String()
}

func panicker(v interface{}) tengo.Object {
	return &tengo.UserFunction{Name: "hp", Value: func(...tengo.Object) (tengo.Object, error) { panic(v) }}
}

// generated drivers: every loop form x every body statement (the "any running script" quantifier, bounded);
// all are finite-state (values wrap) and spin until the host clears `spin`.
var genForms = []struct{ name, pre, open, close string }{
	{"while", "", "for spin { ", " }"},
	{"for-break", "", "for { if !spin { break }; ", " }"},
	{"for-3", "", "for i := 0; spin; i = (i+1)%2 { ", " }"},
	{"for-in-array", "", "for spin { for x in arr { ", " } }"},
	{"for-in-string", "", "for spin { for ch in \"ab\" { ", " } }"},
	{"tailrec", "", "f := func(k) { ", "; return f((k+1)%2) }; if spin { f(0) }"},
	{"call-in-loop", "", "g := func() { ", " }; for spin { g() }"},
	{"iife-in-loop", "", "for spin { func() { ", " }() }"},
}

var genBodies = []struct{ name, src string }{
	{"arith", "n = (n+1)%3"},
	{"builtin", "n = len(arr)"},
	{"index-assign", "arr[0] = (arr[0]+1)%2"},
	{"if-else", "if n == 0 { n = 1 } else { n = 0 }"},
	{"error-value", "n = is_error(error(n)) ? 0 : 1"},
	{"map-alloc", "m := {a: n}; n = (m.a+1)%2"},
	{"string-concat", "s := \"x\" + n; n = len(s)%2"},
	{"array-literal", "n = [1, 2, 0][n%3]"},
	{"closure-call", "n = (func(x) { return (x+1)%3 })(n)"},
	{"slice", "n = len(arr[n%2:])"},
}

func genDrivers() []driver {
	var out []driver
	for _, f := range genForms {
		for _, b := range genBodies {
			out = append(out, driver{
				name:     "gen/" + f.name + "/" + b.name,
				src:      "out := 0; " + f.pre + f.open + b.src + f.close + "; out = 7",
				inputs:   map[string]interface{}{"spin": true, "n": 0, "arr": []interface{}{1, 2}},
				infinite: true, wantOut: "int:7", reset: map[string]interface{}{"spin": false},
			})
		}
	}
	return out
}

type vmInfo struct {
	v          *tengo.VM
	thread     int
	afterAbort int
	steps      int
	lastPoint  int
	sincePoint int
}

// every dispatched instruction is preceded by the atomic load of the abort flag (a scheduling point);
// a VM that dispatches this many instructions without reaching one no longer polls the flag on that path
const maxStepsBetweenPoints = 100000

type world struct {
	s            *vsched.Sched
	d            driver
	c            *tengo.Compiled
	fnNames      map[uintptr]string
	vms          []*vmInfo
	cancelled    bool
	phase        int // 0 before first call, 1 first returned, 2 set done, 3 second returned, 4 finished
	err1         string
	err2         string
	out          string
	problems     []string
	preCancel    bool
	observed     string
	observerDone bool
	errB         string
	doneB        bool
	contender    bool
}

type harness struct {
	d         driver
	observer  bool // a third API user: Get + IsDefined on the same object while the run is in flight
	contender bool // a second caller: RunContext(ctxB) on the same object, ctxB cancelled at an arbitrary instant
	prior     bool // run; Set; cancellable run; run (instead of cancellable run; Set; run)
}

func errClass(err error) string {
	switch {
	case err == nil:
		return "nil"
	case errors.Is(err, context.Canceled):
		return "canceled"
	}
	return "error:" + firstLine(err.Error())
}

func firstLine(s string) string {
	if i := strings.IndexByte(s, '\n'); i >= 0 {
		return s[:i]
	}
	return s
}

func (h harness) Start(s *vsched.Sched) vsched.World {
	w := &world{s: s, d: h.d, fnNames: map[uintptr]string{}}
	sc := tengo.NewScript([]byte(h.d.src))
	for k, v := range h.d.inputs {
		_ = sc.Add(k, v)
	}
	if h.d.mods != nil {
		mm := tengo.NewModuleMap()
		for n, src := range h.d.mods {
			mm.AddSourceModule(n, []byte(src))
		}
		sc.SetImports(mm)
	}
	c, err := sc.Compile()
	if err != nil {
		panic("driver does not compile: " + err.Error())
	}
	w.c = c
	bc := c.VerifBytecode()
	w.fnNames[uintptr(unsafe.Pointer(&bc.MainFunction.Instructions[0]))] = "main"
	for i, k := range bc.Constants {
		if f, ok := k.(*tengo.CompiledFunction); ok && len(f.Instructions) > 0 {
			w.fnNames[uintptr(unsafe.Pointer(&f.Instructions[0]))] = fmt.Sprintf("k%d", i)
		}
	}
	tengo.VerifNewVM = func(v *tengo.VM) {
		info := &vmInfo{v: v, thread: -1}
		w.vms = append(w.vms, info)
		v.VerifSetProbe(func(v *tengo.VM) {
			info.steps++
			if info.thread < 0 {
				info.thread = s.Running()
			}
			if v.VerifAborting() != 0 {
				info.afterAbort++
			}
			if n := s.ThreadSteps(info.thread); n != info.lastPoint {
				info.lastPoint, info.sincePoint = n, 0
			}
			info.sincePoint++
			if info.sincePoint > maxStepsBetweenPoints {
				w.problems = append(w.problems, fmt.Sprintf("the VM dispatched more than %d instructions without polling the abort flag: cancellation cannot stop this script", maxStepsBetweenPoints))
				panic("verif: abort flag not polled")
			}
		})
	}
	// cancelled WITH a cause: the call must still return the context's error (ctx.Err()), not the cause
	ctx, cancelCause := context.WithCancelCause(context.Background())
	cancel := func() { cancelCause(errors.New("application-level cause")) }
	s.Spawn("caller", func() {
		if h.prior {
			// a completed run and a Set come first: the cancellable run and the run after it build on them
			if e := c.RunContext(context.Background()); e != nil && w.d.wantOut != "" {
				w.problems = append(w.problems, "the preliminary run failed: "+e.Error())
			}
			for k, v := range w.d.reset {
				if e := c.Set(k, v); e != nil {
					w.problems = append(w.problems, "Set before the cancellable run failed: "+e.Error())
				}
			}
		}
		err := c.RunContext(ctx)
		// the very moment RunContext returns (no scheduling point in between)
		w.err1 = errClass(err)
		w.phase = 1
		w.atReturn("first RunContext")
		if !h.prior {
			for k, v := range w.d.reset {
				if e := c.Set(k, v); e != nil {
					w.problems = append(w.problems, "Set after the run failed: "+e.Error())
				}
			}
		}
		w.phase = 2
		err = c.RunContext(context.Background())
		w.err2 = errClass(err)
		w.phase = 3
		w.atReturn("second RunContext")
		w.out = val.Snapshot(c.Get("out").Object())
		w.phase = 4
	})
	s.Spawn("canceller", func() {
		vsched.Point("cancel")
		cancel()
		w.cancelled = true
	})
	if h.contender {
		w.contender = true
		ctxB, cancelB := context.WithCancel(context.Background())
		s.Spawn("contender", func() {
			errB := c.RunContext(ctxB)
			w.errB = errClass(errB)
			w.doneB = true
			if !w.s.LocksFree() {
				w.problems = append(w.problems, "the contending RunContext returned with the lock still held")
			}
		})
		s.Spawn("canceller-b", func() {
			vsched.Point("cancel-b")
			cancelB()
		})
	}
	if h.observer {
		s.Spawn("observer", func() {
			v := c.Get("out")
			w.observed = val.Snapshot(v.Object())
			if c.IsDefined("nosuch") {
				w.problems = append(w.problems, "IsDefined(nosuch) is true")
			}
			w.observerDone = true
		})
	}
	return w
}

// atReturn: clean = the VM goroutine of that call has terminated and the lock is... still held by the
// deferred Unlock until the function really returns; so check the VM threads only.
func (w *world) atReturn(what string) {
	if w.contender {
		return // another caller's VM and lock section may legitimately be in flight
	}
	for i, vm := range w.vms {
		if vm.thread >= 0 && !w.s.ThreadDone(vm.thread) {
			w.problems = append(w.problems, fmt.Sprintf("%s returned while the goroutine of VM #%d is still alive", what, i+1))
		}
	}
	if !w.s.LocksFree() {
		w.problems = append(w.problems, what+" returned with the lock still held")
	}
}

func (w *world) vmKey(info *vmInfo) string {
	if info.thread >= 0 && w.s.ThreadDone(info.thread) {
		// the flag of a finished VM is kept: it matters as soon as VM objects are recycled
		return fmt.Sprintf("vm-done ab=%d", info.v.VerifAborting())
	}
	v := info.v
	fn, ip, sp, bp, fi := v.VerifState()
	var sb strings.Builder
	name := func(f *tengo.CompiledFunction) string {
		if f == nil || len(f.Instructions) == 0 {
			return "?"
		}
		return w.fnNames[uintptr(unsafe.Pointer(&f.Instructions[0]))]
	}
	fmt.Fprintf(&sb, "fn=%s ip=%d sp=%d bp=%d fi=%d ab=%d aa=%d;", name(fn), ip, sp, bp, fi, v.VerifAborting(), info.afterAbort)
	for i := 0; i < fi; i++ {
		f, fip, fbp := v.VerifFrame(i)
		fmt.Fprintf(&sb, "F%d:%s/%d/%d;", i, name(f), fip, fbp)
	}
	for _, o := range v.VerifStack() {
		if o == nil {
			sb.WriteString("nil,")
			continue
		}
		sb.WriteString(val.StateKey(o) + ",")
	}
	return sb.String()
}

func (w *world) globalsKey() string {
	idx := w.c.VerifGlobalIndexes()
	gl := w.c.VerifGlobals()
	names := make([]string, 0, len(idx))
	for n := range idx {
		names = append(names, n)
	}
	sort.Strings(names)
	var sb strings.Builder
	for _, n := range names {
		o := gl[idx[n]]
		if o == nil {
			sb.WriteString(n + "=nil;")
			continue
		}
		sb.WriteString(n + "=" + val.StateKey(o) + ";")
	}
	// block-scoped globals have no entry in the name table
	named := map[int]bool{}
	for _, i := range idx {
		named[i] = true
	}
	for i, o := range gl {
		if o != nil && !named[i] {
			fmt.Fprintf(&sb, "#%d=%s;", i, val.StateKey(o))
		}
	}
	return sb.String()
}

func (w *world) Key() string {
	var sb strings.Builder
	fmt.Fprintf(&sb, "ph=%d e1=%s e2=%s out=%s cancelled=%v problems=%d obs=%s/%v b=%s/%v|", w.phase, w.err1, w.err2, w.out, w.cancelled, len(w.problems), w.observed, w.observerDone, w.errB, w.doneB)
	for _, vm := range w.vms {
		sb.WriteString(w.vmKey(vm) + "|")
	}
	sb.WriteString(w.globalsKey())
	return sb.String()
}

func (w *world) CheckState() []string {
	var out []string
	out = append(out, w.problems...)
	if !w.observerLegal() {
		out = append(out, "a concurrent Get(out) observed "+w.observed)
	}
	for i, vm := range w.vms {
		if vm.afterAbort > 1 {
			out = append(out, fmt.Sprintf("VM #%d dispatched %d instructions after the abort flag was set (at most 1 allowed)", i+1, vm.afterAbort))
		}
	}
	if w.phase >= 1 {
		switch {
		case w.d.infinite && w.err1 != "canceled":
			out = append(out, "a non-terminating script returned "+w.err1+" from RunContext, expected context.Canceled")
		case !w.d.infinite && w.err1 == "canceled" && !w.cancelled:
			out = append(out, "RunContext returned context.Canceled although cancel() has not been called")
		case !w.d.infinite && w.d.wantOut == "" && w.err1 != "canceled" && !strings.HasPrefix(w.err1, "error:"):
			out = append(out, "failing script returned "+w.err1)
		case !w.d.infinite && w.d.wantOut != "" && w.err1 != "nil" && w.err1 != "canceled":
			out = append(out, "terminating script returned "+w.err1)
		}
	}
	return out
}

func (w *world) CheckTerminal() ([]string, string) {
	var out []string
	if w.phase != 4 {
		out = append(out, fmt.Sprintf("all threads finished but the caller is in phase %d", w.phase))
	}
	if w.contender && !w.doneB {
		out = append(out, "all threads finished but the contending RunContext never returned")
	}
	if w.d.wantOut != "" {
		if w.err2 != "nil" {
			out = append(out, "the object is not reusable after cancellation: second RunContext returned "+w.err2)
		} else if w.out != w.d.wantOut && !(w.contender && w.d.infinite) {
			// (with a contending caller on a multi-statement script the contender's own run - possibly cancelled half
			// way - may be the last one to touch `out`: only "the second run succeeds" is claimed there)
			out = append(out, "second run on the same object gave out="+w.out+", expected "+w.d.wantOut)
		}
	} else if !strings.HasPrefix(w.err2, "error:") {
		out = append(out, "second run of the failing script returned "+w.err2)
	}
	return out, fmt.Sprintf("first=%s second=%s out=%s", w.err1, w.err2, w.out)
}

func (w *world) Pending() bool { return w.phase < 4 || (w.contender && !w.doneB) }

// the observer holds the read lock, so it can only see a state between complete API calls
func (w *world) observerLegal() bool {
	if !w.observerDone {
		return true
	}
	switch w.observed {
	case "undefined", "int:0", "int:7", "int:42":
		return true
	}
	return false
}

type Case struct {
	Contender bool            `json:"contender,omitempty"`
	Prior     bool            `json:"prior_run,omitempty"`
	Observer  bool            `json:"observer,omitempty"`
	Driver    string          `json:"driver"`
	Kind      string          `json:"kind"`
	Msg       string          `json:"msg"`
	Schedule  []vsched.Action `json:"schedule"`
	Trace     []string        `json:"trace,omitempty"`
}

func sigOf(kind, msg string) string {
	m := msg
	for _, cut := range []string{"; e.g.", ": t0", " e.g. "} {
		if i := strings.Index(m, cut); i >= 0 {
			m = m[:i]
		}
	}
	if len(m) > 90 {
		m = m[:90]
	}
	return kind + "/" + strings.Join(strings.Fields(m), "_")
}

func main() {
	instrumented := true
	if scr := os.Getenv("VERIF_SCR"); scr != "" {
		if _, err := os.Stat(filepath.Join(scr, "overlay.json")); err != nil {
			instrumented = false
		}
	}
	if p := report.ReplayArg(); p != "" {
		rp, err := report.LoadReplay(p)
		if err != nil {
			fmt.Println("cannot load replay:", err)
			return
		}
		for _, raw := range rp.Cases {
			var c Case
			_ = report.Recase(raw, &c)
			fmt.Printf("driver %s: %s: %s\nschedule: %v\n", c.Driver, c.Kind, c.Msg, c.Schedule)
			for _, d := range append(append([]driver{}, drivers...), genDrivers()...) {
				if d.name != c.Driver {
					continue
				}
				for rep := 0; rep < 2; rep++ {
					s := vsched.NewSched()
					w := harness{d: d, observer: c.Observer, contender: c.Contender, prior: c.Prior}.Start(s)
					ok := true
					for _, a := range c.Schedule {
						en := false
						for _, e := range s.Enabled() {
							if e == a {
								en = true
							}
						}
						if !en {
							fmt.Printf("  replay %d: action %v not enabled\n", rep, a)
							ok = false
							break
						}
						s.Step(a)
					}
					if ok {
						fmt.Printf("  replay %d: state %s\n  problems: %v\n", rep, w.Key(), w.CheckState())
					}
					s.Close()
				}
			}
		}
		return
	}
	r := report.New("C07")
	if !instrumented {
		r.NotExhaustive("instrumentation incomplete (cmd/instr could not model a construct of the current sources): nothing was explored")
		r.Note("see instr output; no verdict")
		r.Sample("not explored")
		r.Finish(report.Coverage{States: 1, Transitions: 1, Evaluations: 1, Nontrivial: 0, Rule: "instrumentation incomplete"})
	}
	var states, trans, execs, terms, branching int64
	outcomes := report.NewDistinctSet()
	all := append([]driver{}, drivers...)
	for i, d := range genDrivers() {
		// quick: a diagonal of the form x body grid; thorough: the whole grid
		if r.Thorough() || (i/len(genBodies)+i%len(genBodies))%4 == 0 {
			all = append(all, d)
		}
	}
	r.Set("generated_drivers", map[string]interface{}{"loop_forms": len(genForms), "bodies": len(genBodies), "explored": len(all) - len(drivers)})
	for _, observer := range []bool{false, true} {
		for _, d := range all {
			if observer && !r.Thorough() && strings.HasPrefix(d.name, "gen/") {
				continue
			}
			res := vsched.Explore(harness{d: d, observer: observer}, vsched.Options{MaxStates: r.Pick(300000, 3000000)})
			tengo.VerifNewVM = nil
			states += int64(res.States)
			trans += int64(res.Transitions)
			execs += int64(res.Executions)
			terms += int64(res.Terminals)
			branching += int64(res.Branching)
			for o, n := range res.Outcomes {
				r.Outcome(d.name + ": " + o)
				outcomes.Add(d.name + ": " + o)
				_ = n
			}
			r.Set(fmt.Sprintf("driver/%s/observer=%v", d.name, observer), map[string]interface{}{"script": d.src, "states": res.States, "transitions": res.Transitions,
				"executions": res.Executions, "terminal_states": res.Terminals, "max_depth": res.MaxDepth, "branching_states": res.Branching, "outcomes": res.Outcomes})
			if vsched.Hung {
				r.NotExhaustive("a thread never reached another scheduling point (reported as a violation); exploration stopped")
			} else if res.Capped {
				r.NotExhaustive(fmt.Sprintf("driver %s: state cap reached after %d states", d.name, res.States))
			}
			for _, m := range res.Internal {
				r.Internal("driver %s: %s", d.name, m)
			}
			for _, v := range res.Violations {
				r.Violation("driver="+d.name+"/"+sigOf(v.Kind, v.Msg), v.Msg, Case{Observer: observer, Driver: d.name, Kind: v.Kind, Msg: v.Msg, Schedule: v.Schedule, Trace: tail(v.Trace, 40)})
			}
			r.Sample(map[string]interface{}{"driver": d.name, "script": d.src, "threads": "caller(RunContext; Set; RunContext; Get) | vm goroutine(s) | canceller", "outcomes": res.Outcomes})
		}
	}
	// a completed run and a Set BEFORE the cancellable run (what a cancelled run leaves behind must not fall back to
	// an earlier state)
	for _, d := range drivers {
		if d.infinite || d.wantOut == "" {
			continue
		}
		res := vsched.Explore(harness{d: d, prior: true}, vsched.Options{MaxStates: r.Pick(300000, 3000000)})
		tengo.VerifNewVM = nil
		states += int64(res.States)
		trans += int64(res.Transitions)
		execs += int64(res.Executions)
		terms += int64(res.Terminals)
		branching += int64(res.Branching)
		for o := range res.Outcomes {
			r.Outcome(d.name + "+prior-run: " + o)
			outcomes.Add(d.name + "+prior-run: " + o)
		}
		r.Set("driver/"+d.name+"/prior-run", map[string]interface{}{"script": d.src, "states": res.States, "transitions": res.Transitions,
			"executions": res.Executions, "terminal_states": res.Terminals, "outcomes": res.Outcomes})
		if vsched.Hung {
			r.NotExhaustive("a thread never reached another scheduling point (reported as a violation); exploration stopped")
		} else if res.Capped {
			r.NotExhaustive(fmt.Sprintf("driver %s with a prior run: state cap reached after %d states", d.name, res.States))
		}
		for _, m := range res.Internal {
			r.Internal("driver %s+prior-run: %s", d.name, m)
		}
		for _, v := range res.Violations {
			r.Violation("driver="+d.name+"+prior-run/"+sigOf(v.Kind, v.Msg), v.Msg, Case{Prior: true, Driver: d.name, Kind: v.Kind, Msg: v.Msg, Schedule: v.Schedule, Trace: tail(v.Trace, 40)})
		}
	}
	// a second caller contending for the same object (its context cancelled at any instant, also while it waits)
	for _, d := range drivers {
		if d.name != "terminating" && !(r.Thorough() && d.name == "loop") {
			continue
		}
		res := vsched.Explore(harness{d: d, contender: true}, vsched.Options{MaxStates: r.Pick(300000, 3000000)})
		tengo.VerifNewVM = nil
		states += int64(res.States)
		trans += int64(res.Transitions)
		execs += int64(res.Executions)
		terms += int64(res.Terminals)
		branching += int64(res.Branching)
		for o := range res.Outcomes {
			r.Outcome(d.name + "+contender: " + o)
			outcomes.Add(d.name + "+contender: " + o)
		}
		r.Set("driver/"+d.name+"/contender", map[string]interface{}{"script": d.src, "states": res.States, "transitions": res.Transitions,
			"executions": res.Executions, "terminal_states": res.Terminals, "max_depth": res.MaxDepth, "outcomes": res.Outcomes})
		if vsched.Hung {
			r.NotExhaustive("a thread never reached another scheduling point (reported as a violation); exploration stopped")
		} else if res.Capped {
			r.NotExhaustive(fmt.Sprintf("driver %s with contender: state cap reached after %d states", d.name, res.States))
		}
		for _, m := range res.Internal {
			r.Internal("driver %s+contender: %s", d.name, m)
		}
		for _, v := range res.Violations {
			r.Violation("driver="+d.name+"+contender/"+sigOf(v.Kind, v.Msg), v.Msg, Case{Contender: true, Driver: d.name, Kind: v.Kind, Msg: v.Msg, Schedule: v.Schedule, Trace: tail(v.Trace, 40)})
		}
	}
	r.Set("executions", execs)
	r.Set("terminal_states", terms)
	r.Set("states_with_more_than_one_enabled_action", branching)
	r.Assume("scheduling points: Mutex/RWMutex Lock/RLock, atomic Load/Store of the abort flag (one per dispatched instruction), goroutine start, buffered channel send/receive, select (the ready case is an explored choice), cancel(); code between two points runs atomically (sound for data-race-free code; races are C08's subject)")
	r.Assume("cancellation instant = position of the canceller's cancel() in the interleaving (covers already-cancelled contexts and timeouts, which are cancel() calls from a timer goroutine); bounded delay is decided in VM steps (at most one instruction dispatched after the abort store, and no fair cycle before the call returns), not in seconds")
	r.Assume("driver scripts are finite-state (counters wrap), so the state graph is finite and all interleavings are covered; for-in iterators are avoided because their position is not part of the state key")
	r.Finish(report.Coverage{
		States:      states,
		Transitions: trans,
		Validated:   execs,
		Evaluations: execs,
		Nontrivial:  outcomes.Len() + branching,
		Rule:        "states = distinct global state keys (scheduler state + caller observations + VM registers/frames/stack/globals) over all interleavings of caller, VM goroutine(s) and canceller for each driver script; transitions = scheduling steps executed on the real instrumented code; validated = complete executions (each a replay from the initial state); non-trivial = distinct terminal outcomes + states with more than one enabled action",
	})
}

func maxThread(a []vsched.Action) int {
	m := 0
	for _, x := range a {
		if x.Thread > m {
			m = x.Thread
		}
	}
	return m
}

func tail(s []string, n int) []string {
	if len(s) > n {
		return s[len(s)-n:]
	}
	return s
}
