package main

// Part 3: every typed accessor of Variable on every element of V, against the
// "Type Conversion/Coercion Table" of docs/runtime-types.md transcribed below
// (X = no conversion: "Typed value functions for Variable will return zero
// values"); tengo.Eval against the Script-based evaluation.

import (
	"context"
	"fmt"
	"math"
	"strconv"
	"strings"
	"sync/atomic"

	"github.com/d5/tengo/v2"
	"verif/engine/val"
)

// docFalsy: the Object.IsFalsy() list of docs/runtime-types.md.
func docFalsy(o tengo.Object) (falsy, documented bool) {
	switch x := o.(type) {
	case *tengo.Int:
		return x.Value == 0, true
	case *tengo.String:
		return len(x.Value) == 0, true
	case *tengo.Float:
		return math.IsNaN(x.Value), true
	case *tengo.Bool:
		return x == tengo.FalseValue, true
	case *tengo.Char:
		return x.Value == 0, true
	case *tengo.Bytes:
		return len(x.Value) == 0, true
	case *tengo.Array:
		return len(x.Value) == 0, true
	case *tengo.Map:
		return len(x.Value) == 0, true
	case *tengo.Time:
		return x.Value.IsZero(), true
	case *tengo.Error, *tengo.Undefined:
		return true, true
	}
	return false, false // immutable variants and functions: not rows of the table
}

const (
	exact  = iota // result must equal want
	silent        // the doc does not fix the result: only "no panic" (the Go type is fixed by the signature)
)

// expectation for one accessor on one object; the result is rendered as text.
func accExpect(acc string, o tengo.Object) (want string, mode int) {
	k := kindOf(o)
	inTable := k != "function" && k != "immutable-array" && k != "immutable-map"
	switch acc {
	case "Int", "Int64":
		switch x := o.(type) {
		case *tengo.Int:
			return strconv.FormatInt(x.Value, 10), exact
		case *tengo.String: // strconv
			n, err := strconv.ParseInt(x.Value, 10, 64)
			if err != nil {
				return "0", exact
			}
			return strconv.FormatInt(n, 10), exact
		case *tengo.Float: // int64(f): defined by Go only inside the int64 range
			if math.IsNaN(x.Value) || x.Value >= 9.2e18 || x.Value <= -9.2e18 {
				return "", silent
			}
			return strconv.FormatInt(int64(x.Value), 10), exact
		case *tengo.Bool:
			if x == tengo.TrueValue {
				return "1", exact
			}
			return "0", exact
		case *tengo.Char:
			return strconv.FormatInt(int64(x.Value), 10), exact
		}
		if inTable {
			return "0", exact
		}
		return "", silent
	case "Float":
		switch x := o.(type) {
		case *tengo.Int:
			return fbits(float64(x.Value)), exact
		case *tengo.Float:
			return fbits(x.Value), exact
		case *tengo.String:
			f, err := strconv.ParseFloat(x.Value, 64)
			if err != nil {
				return fbits(0), exact
			}
			return fbits(f), exact
		}
		if inTable {
			return fbits(0), exact
		}
		return "", silent
	case "Char":
		switch x := o.(type) {
		case *tengo.Int:
			return strconv.FormatInt(int64(rune(x.Value)), 10), exact // rune(v)
		case *tengo.Char:
			return strconv.FormatInt(int64(x.Value), 10), exact
		}
		if inTable {
			return "0", exact
		}
		return "", silent
	case "Bool":
		f, doc := docFalsy(o)
		if !doc {
			return "", silent
		}
		return strconv.FormatBool(!f), exact
	case "String":
		switch x := o.(type) {
		case *tengo.Int:
			return strconv.Quote(strconv.FormatInt(x.Value, 10)), exact
		case *tengo.String:
			return strconv.Quote(x.Value), exact
		case *tengo.Bool:
			return strconv.Quote(strconv.FormatBool(x == tengo.TrueValue)), exact
		case *tengo.Char:
			return strconv.Quote(string(x.Value)), exact
		case *tengo.Bytes:
			return strconv.Quote(string(x.Value)), exact
		case *tengo.Undefined:
			return strconv.Quote(""), exact // X
		case *tengo.Time:
			return strconv.Quote(x.String()), exact // "String(): use Object.String() function"
		}
		return "", silent // float: strconv (checked by parse-back); array/map/error: text not fixed
	case "Bytes":
		switch x := o.(type) {
		case *tengo.String:
			return strconv.Quote(x.Value), exact
		case *tengo.Bytes:
			return strconv.Quote(string(x.Value)), exact
		}
		if inTable {
			return strconv.Quote(""), exact
		}
		return "", silent
	case "Array":
		if x, ok := o.(*tengo.Array); ok {
			return renderGo(nfSeq(x.Value), false), exact
		}
		if inTable {
			return "[]interface{}[]", exact
		}
		return "", silent
	case "Map":
		if x, ok := o.(*tengo.Map); ok {
			return renderGo(nfMap(x.Value), false), exact
		}
		if inTable {
			return "map[string]interface{}{}", exact
		}
		return "", silent
	case "Error":
		if k == "error" {
			return "error", exact
		}
		return "nil", exact // godoc: "If not, this returns nil"
	case "Object":
		return val.Snapshot(o), exact
	case "IsUndefined":
		return strconv.FormatBool(k == "undefined"), exact
	case "ValueType":
		if k == "function" {
			return "", silent
		}
		return k, exact // type names as used throughout docs/operators.md and docs/builtins.md
	case "Value":
		return renderGo(nfObj(o), false), exact
	}
	return "", silent
}

func fbits(f float64) string {
	if math.IsNaN(f) {
		return "NaN"
	}
	return strconv.FormatUint(math.Float64bits(f), 16)
}

var accessors = []string{"Int", "Int64", "Float", "Char", "Bool", "String", "Bytes", "Array", "Map", "Error", "Object", "IsUndefined", "ValueType", "Value"}

func callAccessor(acc string, v *tengo.Variable) (got string, pan string) {
	defer func() {
		if r := recover(); r != nil {
			pan = fmt.Sprint(r)
		}
	}()
	atomic.AddInt64(&apiCalls, 1)
	switch acc {
	case "Int":
		return strconv.Itoa(v.Int()), ""
	case "Int64":
		return strconv.FormatInt(v.Int64(), 10), ""
	case "Float":
		return fbits(v.Float()), ""
	case "Char":
		return strconv.FormatInt(int64(v.Char()), 10), ""
	case "Bool":
		return strconv.FormatBool(v.Bool()), ""
	case "String":
		return strconv.Quote(v.String()), ""
	case "Bytes":
		return strconv.Quote(string(v.Bytes())), ""
	case "Array":
		return renderGo(v.Array(), false), ""
	case "Map":
		return renderGo(v.Map(), false), ""
	case "Error":
		if e := v.Error(); e != nil {
			return "error", ""
		}
		return "nil", ""
	case "Object":
		return val.Snapshot(v.Object()), ""
	case "IsUndefined":
		return strconv.FormatBool(v.IsUndefined()), ""
	case "ValueType":
		return v.ValueType(), ""
	case "Value":
		return renderGo(v.Value(), false), ""
	}
	return "", "harness: unknown accessor"
}

func runAccessor(name string) (fails []fail, obs string) {
	vv, ok := val.ByName(name)
	if !ok {
		return []fail{{"internal/unknown-value", name}}, ""
	}
	o := vv.Mk()
	k := kindOf(o)
	var v *tengo.Variable
	pan := func() (pan string) {
		defer func() {
			if r := recover(); r != nil {
				pan = fmt.Sprint(r)
			}
		}()
		atomic.AddInt64(&apiCalls, 3)
		s := tengo.NewScript([]byte("out := 0"))
		if err := s.Add("v", o); err != nil {
			return "Add: " + err.Error()
		}
		c, err := s.Compile()
		if err != nil {
			return "Compile: " + err.Error()
		}
		v = c.Get("v")
		return ""
	}()
	if pan != "" || v == nil {
		return []fail{{"accessor/Get/" + k, vv.Name + ": cannot obtain the Variable: " + clip(pan, 200)}}, "panic"
	}
	var sb strings.Builder
	for _, acc := range accessors {
		want, mode := accExpect(acc, vv.Mk())
		got, pan := callAccessor(acc, v)
		fmt.Fprintf(&sb, "%s=%s;", acc, clip(got, 60))
		if pan != "" {
			fails = append(fails, fail{"accessor/" + acc + "/" + k, fmt.Sprintf("%s: Variable.%s() panicked: %s", vv.Name, acc, clip(pan, 200))})
			continue
		}
		if mode == exact && got != want {
			fails = append(fails, fail{"accessor/" + acc + "/" + k,
				fmt.Sprintf("%s: Variable.%s() = %s, docs/runtime-types.md coercion table gives %s", vv.Name, acc, clip(got, 200), clip(want, 200))})
		}
		// the loosely specified String() cells
		if acc == "String" && mode == silent {
			s, _ := strconv.Unquote(got)
			bad := ""
			switch x := o.(type) {
			case *tengo.Float: // strconv: must parse back to the same float
				f, err := strconv.ParseFloat(s, 64)
				if err != nil || fbits(f) != fbits(x.Value) {
					bad = "does not parse back (strconv) to the float"
				}
			case *tengo.Array:
				if !strings.HasPrefix(s, "[") || !strings.HasSuffix(s, "]") {
					bad = `is not of the form "[...]"`
				}
			case *tengo.Map:
				if !strings.HasPrefix(s, "{") || !strings.HasSuffix(s, "}") {
					bad = `is not of the form "{...}"`
				}
			case *tengo.Error:
				if !strings.HasPrefix(s, "error: ") {
					bad = `is not of the form "error: ..."`
				}
			}
			if bad != "" {
				fails = append(fails, fail{"accessor/String/" + k, fmt.Sprintf("%s: Variable.String() = %s %s", vv.Name, clip(got, 200), bad)})
			}
		}
	}
	return fails, sb.String()
}

// ---- Eval --------------------------------------------------------------------------------

var evalExprs = []string{"a", "a + 1", "[a, a]", "a == a", "is_undefined(a)", "a ? 1 : 2", "{k: a}", "type_name(a)", "a[0]", "undefined", "len(b) + 1"}

type evalRes struct {
	val string
	err string
}

func evalDirect(expr string, params map[string]interface{}) (res evalRes, pan string) {
	defer func() {
		if r := recover(); r != nil {
			pan = fmt.Sprint(r)
		}
	}()
	atomic.AddInt64(&apiCalls, 1)
	v, err := tengo.Eval(context.Background(), expr, params)
	if err != nil {
		return evalRes{err: errKind(err)}, ""
	}
	return evalRes{val: renderGo(v, true)}, ""
}

func evalScript(expr string, params map[string]interface{}, names []string) (res evalRes, pan string) {
	defer func() {
		if r := recover(); r != nil {
			pan = fmt.Sprint(r)
		}
	}()
	atomic.AddInt64(&apiCalls, 3+int64(len(names)))
	s := tengo.NewScript([]byte("result := (" + expr + ")"))
	for _, n := range names {
		if err := s.Add(n, params[n]); err != nil {
			return evalRes{err: "add"}, ""
		}
	}
	c, err := s.RunContext(context.Background())
	if err != nil {
		return evalRes{err: errKind(err)}, ""
	}
	return evalRes{val: renderGo(c.Get("result").Value(), true)}, ""
}

func errKind(err error) string {
	t := err.Error()
	switch {
	case strings.Contains(t, "Compile Error"), strings.Contains(t, "Parse Error"):
		return "compile"
	case strings.Contains(t, "Runtime Error"):
		return "runtime"
	case strings.Contains(t, "script add"), strings.Contains(t, "cannot convert"):
		return "add"
	case strings.Contains(t, "empty expression"):
		return "empty"
	}
	return "other(" + clip(strings.SplitN(t, "\n", 2)[0], 80) + ")"
}

// runEval: expr x (a = element of V, passed as Object or as its Go value).
func runEval(expr, name, form string) (fails []fail, obs string) {
	vv, ok := val.ByName(name)
	if !ok {
		return []fail{{"internal/unknown-value", name}}, ""
	}
	mk := func() map[string]interface{} {
		var a interface{} = vv.Mk()
		if form == "go" {
			a = nfObj(vv.Mk())
			if _, isErr := a.(errMark); isErr {
				a = fmt.Errorf("x")
			}
		}
		return map[string]interface{}{"a": a, "b": "xy"}
	}
	sig := "eval/" + strings.ReplaceAll(expr, " ", "") + "/" + vv.Kind
	d, pan := evalDirect(expr, mk())
	if pan != "" {
		return []fail{{sig, fmt.Sprintf("Eval(%q, a=%s) panicked: %s", expr, vv.Name, clip(pan, 200))}}, "panic"
	}
	s, pan := evalScript(expr, mk(), []string{"a", "b"})
	if pan != "" {
		return nil, "script-panic" // a panic of the Script path is not Eval's (reported by other properties)
	}
	if d != s {
		fails = append(fails, fail{sig, fmt.Sprintf("Eval(%q, a=%s as %s) = %+v, the same through Script.Add/RunContext/Get = %+v", expr, vv.Name, form, d, s)})
	}
	// independent expectation for the identity expression
	if expr == "a" && d.err == "" {
		want := renderGo(nfObj(vv.Mk()), false)
		got, _ := tengo.Eval(context.Background(), expr, mk())
		if g := renderGo(got, false); g != want {
			fails = append(fails, fail{sig, fmt.Sprintf("Eval(\"a\", a=%s as %s) = %s, expected %s", vv.Name, form, g, want)})
		}
	}
	if d.err != "" {
		return fails, "err:" + d.err
	}
	return fails, "ok"
}

func runEvalSpecial() (fails []fail, obs string) {
	var sb strings.Builder
	chk := func(name, expr string, params map[string]interface{}, wantErr string) {
		d, pan := evalDirect(expr, params)
		fmt.Fprintf(&sb, "%s -> %+v %s; ", name, d, pan)
		if pan != "" {
			fails = append(fails, fail{"eval/special/" + name, "Eval panicked: " + clip(pan, 200)})
			return
		}
		if d.err != wantErr {
			fails = append(fails, fail{"eval/special/" + name, fmt.Sprintf("Eval(%q) gave %+v, expected error class %q", expr, d, wantErr)})
		}
	}
	chk("empty", "", nil, "empty")
	chk("blank", "  \n ", nil, "empty")
	chk("unsupported-param", "a", map[string]interface{}{"a": uint(1)}, "add")
	chk("not-an-expression", "x := 1", nil, "compile")
	chk("unresolved", "nope", nil, "compile")
	chk("nil-params", "1 + 2", nil, "")
	return fails, sb.String()
}
