package main

// Part 1: explicit-state breadth-first search over API histories. The state is
// a set of live objects (one Script, up to capObjs Compiled) that cannot be
// cloned, so a successor is produced by replaying the whole operation path on
// fresh objects and applying one more operation. The reference model
// (model.go) is run in lockstep.

import (
	"context"
	"crypto/sha1"
	"fmt"
	"regexp"
	"runtime"
	"sort"
	"strconv"
	"strings"
	"sync"
	"sync/atomic"

	"github.com/d5/tengo/v2"
	"verif/engine/report"
	"verif/engine/val"
)

type Op struct {
	K   string `json:"op"`            // add remove compile run | crun crunctx cset cget cgetall cisdef cclone
	Obj int    `json:"obj,omitempty"` // index of the Compiled the c* operations act on
	N   string `json:"name,omitempty"`
	V   string `json:"val,omitempty"` // nil 1 s arr map
}

func (o Op) String() string {
	switch o.K {
	case "add":
		return "Add(" + o.N + "," + o.V + ")"
	case "remove":
		return "Remove(" + o.N + ")"
	case "compile":
		return "Compile"
	case "run":
		return "Run"
	case "crun":
		return fmt.Sprintf("c%d.Run", o.Obj)
	case "crunctx":
		return fmt.Sprintf("c%d.RunContext", o.Obj)
	case "cset":
		return fmt.Sprintf("c%d.Set(%s,%s)", o.Obj, o.N, o.V)
	case "cget":
		return fmt.Sprintf("c%d.Get(%s)", o.Obj, o.N)
	case "cgetall":
		return fmt.Sprintf("c%d.GetAll", o.Obj)
	case "cisdef":
		return fmt.Sprintf("c%d.IsDefined(%s)", o.Obj, o.N)
	case "cclone":
		return fmt.Sprintf("c%d.Clone", o.Obj)
	}
	return o.K
}

func pathString(p []Op) string {
	s := make([]string, len(p))
	for i, o := range p {
		s[i] = o.String()
	}
	return strings.Join(s, "; ")
}

// mutNames: names the host adds/removes/sets. `len` is also the name of a
// builtin function. obsNames: names observed in every state; `zz` is never
// added, so it stands for "a name that is not declared" (Get: undefined,
// IsDefined: false, Set: error).
var (
	mutNames = []string{"a", "out", "len"}
	obsNames = []string{"a", "out", "len", "zz"}
)

func goVal(v string) interface{} {
	switch v {
	case "nil":
		return nil
	case "1":
		return 1
	case "s":
		return "s"
	case "arr":
		return []interface{}{1}
	case "map":
		return map[string]interface{}{"k": 2}
	case "emap":
		return map[string]interface{}{}
	case "earr":
		return []interface{}{}
	}
	panic("unknown value " + v)
}

func readOnly(k string) bool   { return k == "cget" || k == "cgetall" || k == "cisdef" }
func onCompiled(k string) bool { return strings.HasPrefix(k, "c") && k != "compile" }

// ---- the real objects --------------------------------------------------------------

type world struct {
	s    *tengo.Script
	objs []*tengo.Compiled
	cap  int
}

func newWorld(si, capObjs int) *world {
	return &world{s: tengo.NewScript([]byte(scripts[si].Src)), cap: capObjs}
}

func (w *world) keep(c *tengo.Compiled) {
	if c != nil && len(w.objs) < w.cap {
		w.objs = append(w.objs, c)
	}
}

func errClass(err error) string {
	if err == nil {
		return "none"
	}
	t := err.Error()
	switch {
	case strings.HasPrefix(t, "Compile Error"):
		return "compile"
	case strings.HasPrefix(t, "Runtime Error"):
		return "runtime"
	case strings.HasSuffix(t, "is not defined"):
		return "undeclared"
	}
	if i := strings.IndexByte(t, '\n'); i >= 0 {
		t = t[:i]
	}
	return "other(" + t + ")"
}

func varObs(v *tengo.Variable) string {
	if v == nil {
		return "nil-variable"
	}
	return "name=" + v.Name() + " obj=" + val.Snapshot(v.Object()) + " val=" + renderGo(v.Value(), true) +
		" undef=" + strconv.FormatBool(v.IsUndefined()) + " type=" + v.ValueType()
}

var apiCalls int64 // API operations applied to real objects (all parts)

// do applies op to the real objects; pan != "" when it panicked.
func (w *world) do(op Op) (obs string, pan string) {
	defer func() {
		if r := recover(); r != nil {
			pan = fmt.Sprint(r)
		}
	}()
	atomic.AddInt64(&apiCalls, 1)
	switch op.K {
	case "add":
		return "err=" + errClass(w.s.Add(op.N, goVal(op.V))), ""
	case "remove":
		return "ok=" + strconv.FormatBool(w.s.Remove(op.N)), ""
	case "compile":
		c, err := w.s.Compile()
		w.keep(c)
		return "err=" + errClass(err) + " obj=" + strconv.FormatBool(c != nil), ""
	case "run":
		c, err := w.s.Run()
		w.keep(c)
		return "err=" + errClass(err) + " obj=" + strconv.FormatBool(c != nil), ""
	}
	c := w.objs[op.Obj]
	switch op.K {
	case "crun":
		return "err=" + errClass(c.Run()), ""
	case "crunctx":
		return "err=" + errClass(c.RunContext(context.Background())), ""
	case "cset":
		return "err=" + errClass(c.Set(op.N, goVal(op.V))), ""
	case "cget":
		return varObs(c.Get(op.N)), ""
	case "cgetall":
		vs := c.GetAll()
		parts := make([]string, 0, len(vs))
		for _, v := range vs {
			parts = append(parts, varObs(v))
		}
		sort.Strings(parts) // every entry starts with name=<n>
		return "[" + strings.Join(parts, "; ") + "]", ""
	case "cisdef":
		return "defined=" + strconv.FormatBool(c.IsDefined(op.N)), ""
	case "cclone":
		n := c.Clone()
		w.keep(n)
		return "obj=" + strconv.FormatBool(n != nil), ""
	}
	panic("harness: unknown op " + op.K)
}

// canon renders the observable state of the real objects in the grammar of
// model.canon. modelVars is used for the V component only if the Script's
// variable table cannot be read.
func (w *world) canon(withIDs bool, header string, modelV string) (comps []string, pan string) {
	defer func() {
		if r := recover(); r != nil {
			pan = fmt.Sprint(r)
		}
	}()
	var ids map[interface{}]int
	if withIDs {
		ids = map[interface{}]int{}
	}
	comps = []string{header}
	render := func(tag string, g map[string]tengo.Object) string {
		names := make([]string, 0, len(g))
		for n := range g {
			names = append(names, n)
		}
		sort.Strings(names)
		var sb strings.Builder
		sb.WriteString(tag + "{")
		for i, n := range names {
			if i > 0 {
				sb.WriteString(",")
			}
			sb.WriteString(n + "=")
			canonObj(&sb, g[n], ids, 0)
		}
		sb.WriteString("}")
		return sb.String()
	}
	if vars, ok := scriptVars(w.s); ok {
		comps = append(comps, render("V", vars))
	} else {
		comps = append(comps, modelV)
	}
	for i, c := range w.objs {
		g := map[string]tengo.Object{}
		for _, v := range c.GetAll() {
			if _, dup := g[v.Name()]; dup {
				g[v.Name()+"(dup)"] = v.Object()
				continue
			}
			g[v.Name()] = v.Object()
		}
		comps = append(comps, render("C"+strconv.Itoa(i), g))
	}
	return comps, ""
}

// ---- one transition, checked ---------------------------------------------------------

type fail struct{ sig, what string }

// stepChecked applies op to both sides and compares the operation's result
// and, afterwards, every observable of every object with the model.
// Returns the canonical state text (with identities) when everything agrees.
func stepChecked(w *world, m *model, op Op, prefix []Op) (fails []fail, obs string, canon string) {
	where := func() string {
		return fmt.Sprintf("script %q after [%s]: %s", scripts[m.si].Src, pathString(prefix), op)
	}
	nBefore := len(w.objs)
	got, pan := w.do(op)
	want := m.do(op)
	if pan != "" {
		return []fail{{"history/" + op.K + "/panic", where() + " panicked: " + clip(pan, 200)}}, "panic", ""
	}
	obs = got
	if got != want {
		what := "value-mismatch"
		if strings.HasPrefix(want, "err=") || strings.HasPrefix(got, "err=") {
			ge, we := firstField(got), firstField(want)
			if ge != we {
				what = "error-mismatch"
			}
		}
		return []fail{{"history/" + op.K + "/" + what,
			where() + " returned {" + clip(got, 300) + "}, model (docs) expects {" + clip(want, 300) + "}"}}, obs, ""
	}
	fails, canon = checkState(w, m, &op, nBefore, where)
	return fails, obs, canon
}

func firstField(s string) string {
	if i := strings.IndexByte(s, ' '); i >= 0 {
		return s[:i]
	}
	return s
}

// checkState: the invariant "every observable of every object equals the model".
func checkState(w *world, m *model, op *Op, nBefore int, where func() string) (fails []fail, canon string) {
	opk := "init"
	if op != nil {
		opk = op.K
	}
	if len(w.objs) != len(m.objs) {
		return []fail{{"history/" + opk + "/value-mismatch",
			fmt.Sprintf("%s: %d Compiled objects exist, model has %d", where(), len(w.objs), len(m.objs))}}, ""
	}
	mc := m.canon(true)
	rc, pan := w.canon(true, mc[0], mc[1])
	if pan != "" {
		return []fail{{"history/" + opk + "/panic", where() + ": observing the state (GetAll) panicked: " + clip(pan, 200)}}, ""
	}
	if strings.Join(rc, "|") == strings.Join(mc, "|") {
		return checkObservers(w, m, rc, where)
	}
	// locate the first differing component and classify
	idx := -1
	for i := range mc {
		if i >= len(rc) || rc[i] != mc[i] {
			idx = i
			break
		}
	}
	what := "value-mismatch"
	detail := ""
	// a pure sharing difference? compare structurally
	ms := m.canon(false)
	rs, _ := w.canon(false, ms[0], ms[1])
	sharingOnly := strings.Join(ms, "|") == strings.Join(rs, "|")
	isC := op != nil && onCompiled(op.K)
	switch {
	case idx == 1 && isC:
		what = "leak-to-script"
		detail = "the Script's variables changed"
	case idx >= 2 && isC && (idx-2) != op.Obj && (idx-2) < nBefore:
		what = "leak-to-clone"
		detail = fmt.Sprintf("Compiled #%d (not the target) changed", idx-2)
	case sharingOnly && isC:
		what = "leak-to-clone"
		detail = "a mutable container is shared where the model has a copy (or vice versa)"
		if op.K != "cclone" && idx < len(rc) && sharesWith(rc[idx], rc[1]) {
			what = "leak-to-script"
			detail = "a mutable container is shared with the Script's variables where the model has a copy"
		}
	case sharingOnly:
		detail = "values agree but the sharing of mutable containers differs from the model"
	}
	return []fail{{"history/" + opk + "/" + what,
		fmt.Sprintf("%s: %s; state {%s}, model expects {%s}", where(), detail, clip(strings.Join(rc, " | "), 400), clip(strings.Join(mc, " | "), 400))}}, ""
}

func checkObservers(w *world, m *model, rc []string, where func() string) (fails []fail, canon string) {
	// per-name observers of every object. The state read through GetAll agrees
	// with the model at this point, so a deviation here is the observer's.
	for k, c := range w.objs {
		for _, n := range obsNames {
			got, pan := func() (s string, pan string) {
				defer func() {
					if r := recover(); r != nil {
						pan = fmt.Sprint(r)
					}
				}()
				return varObs(c.Get(n)) + " defined=" + strconv.FormatBool(c.IsDefined(n)), ""
			}()
			atomic.AddInt64(&apiCalls, 2)
			if pan != "" {
				return []fail{{"history/cget/panic", fmt.Sprintf("%s: then c%d.Get/IsDefined(%s) panicked: %s", where(), k, n, clip(pan, 200))}}, ""
			}
			want := m.varObs(n, gval(m.objs[k], n)) + " defined=" + strconv.FormatBool(m.isDefined(m.objs[k], n))
			if got != want {
				if i, j := strings.LastIndex(got, " defined="), strings.LastIndex(want, " defined="); i >= 0 && j >= 0 && got[:i] == want[:j] {
					return []fail{{"history/cisdef/value-mismatch",
						fmt.Sprintf("%s: afterwards c%d.Get(%s) agrees with the model but IsDefined = {%s}, model expects {%s}", where(), k, n, got[i+1:], want[j+1:])}}, ""
				}
				return []fail{{"history/cget/value-mismatch",
					fmt.Sprintf("%s: afterwards GetAll agrees with the model but c%d.Get/IsDefined(%s) = {%s}, model expects {%s}", where(), k, n, clip(got, 300), clip(want, 300))}}, ""
			}
		}
	}
	return nil, strings.Join(rc, "|")
}

var backref = regexp.MustCompile(`#(\d+)`)

// sharesWith: does component comp refer back (#k) to a container first
// rendered (Ak[ / Mk{) in component def?
func sharesWith(comp, def string) bool {
	for _, m := range backref.FindAllStringSubmatch(comp, -1) {
		if strings.Contains(def, "A"+m[1]+"[") || strings.Contains(def, "M"+m[1]+"{") {
			return true
		}
	}
	return false
}

const stalePrefix = "stale conversion: "

// staleConversion: conversions must not carry process-wide state. Every replay
// starts from fresh objects, which is only true if an empty Go container still
// converts to an EMPTY object (a shared singleton that some earlier history
// wrote into would leak into this one).
func staleConversion() string {
	o1, err1 := tengo.FromInterface(map[string]interface{}{})
	o2, err2 := tengo.FromInterface([]interface{}{})
	atomic.AddInt64(&apiCalls, 2)
	if err1 != nil || err2 != nil {
		return stalePrefix + "an empty container is refused"
	}
	if s := val.Snapshot(o1); s != "map{}" {
		return stalePrefix + "FromInterface(map[string]interface{}{}) = " + clip(s, 120) + ", not an empty map (state left behind by an earlier history)"
	}
	if s := val.Snapshot(o2); s != "array[]" {
		return stalePrefix + "FromInterface([]interface{}{}) = " + clip(s, 120) + ", not an empty array (state left behind by an earlier history)"
	}
	return ""
}

func clip(s string, n int) string {
	if len(s) > n {
		return s[:n] + "..."
	}
	return s
}

// replay re-creates the state reached by path (unchecked: every prefix was
// checked when its state was first discovered).
func replay(si, capObjs int, path []Op) (*world, *model, string) {
	if st := staleConversion(); st != "" {
		return nil, nil, st
	}
	w, m := newWorld(si, capObjs), newModel(si, capObjs)
	for _, op := range path {
		if onCompiled(op.K) && (op.Obj >= len(w.objs) || op.Obj >= len(m.objs)) {
			return nil, nil, "path addresses a Compiled that does not exist"
		}
		if _, pan := w.do(op); pan != "" {
			return nil, nil, "replay panicked at " + op.String() + ": " + pan
		}
		m.do(op)
	}
	return w, m, ""
}

// enabledOps lists the alphabet in a state with nobj Compiled objects.
func enabledOps(nobj int, vals []string) (mut []Op, ro []Op) {
	for _, n := range mutNames {
		for _, v := range vals {
			mut = append(mut, Op{K: "add", N: n, V: v})
		}
	}
	for _, n := range mutNames {
		mut = append(mut, Op{K: "remove", N: n})
	}
	mut = append(mut, Op{K: "compile"}, Op{K: "run"})
	for k := 0; k < nobj; k++ {
		mut = append(mut, Op{K: "crun", Obj: k}, Op{K: "crunctx", Obj: k})
		for _, n := range mutNames {
			for _, v := range vals {
				mut = append(mut, Op{K: "cset", Obj: k, N: n, V: v})
			}
		}
		mut = append(mut, Op{K: "cset", Obj: k, N: "zz", V: "nil"}) // never declared: must fail
		mut = append(mut, Op{K: "cclone", Obj: k})
		for _, n := range obsNames {
			ro = append(ro, Op{K: "cget", Obj: k, N: n})
		}
		ro = append(ro, Op{K: "cgetall", Obj: k})
		for _, n := range obsNames {
			ro = append(ro, Op{K: "cisdef", Obj: k, N: n})
		}
	}
	return
}

// valsFor: the value alphabet of a script family member. The map value is
// left out for `a[0] = 7` (indexing a map with an int key is a language
// question decided by C01, not by this property).
func valsFor(si int, vals []string) []string {
	switch si {
	case 4: // a[0] = 7
		var v []string
		for _, x := range vals {
			if x != "map" {
				v = append(v, x)
			}
		}
		return v
	case 6: // a.n = 1: the interesting values are maps, above all the EMPTY map
		switch len(vals) {
		case 2:
			return []string{"nil", "emap"}
		case 4:
			return []string{"nil", "emap", "map", "arr"}
		default:
			return []string{"nil", "1", "emap", "map", "arr"}
		}
	case 7: // splice(a, 0, 0, 7): arrays, above all the EMPTY array
		switch len(vals) {
		case 2:
			return []string{"nil", "earr"}
		case 4:
			return []string{"nil", "1", "earr", "arr"}
		default:
			return []string{"nil", "1", "s", "earr", "arr"}
		}
	}
	return vals
}

// opTable: every operation of the alphabet gets a small id, so that the
// frontier stores paths as []uint16.
var (
	opTable []Op
	opID    = map[Op]uint16{}
)

func initOps() {
	mut, ro := enabledOps(3, []string{"nil", "1", "s", "arr", "map", "emap", "earr"})
	for _, op := range append(mut, ro...) {
		if _, ok := opID[op]; !ok {
			opID[op] = uint16(len(opTable))
			opTable = append(opTable, op)
		}
	}
}

type node struct {
	si   uint8
	path []uint16
}

func (n node) ops() []Op {
	p := make([]Op, len(n.path))
	for i, id := range n.path {
		p[i] = opTable[id]
	}
	return p
}

type succ struct {
	op     uint16
	key    [16]byte
	ok     bool // agreed with the model; key valid
	nontr  bool
	fails  []fail
	cls    string // outcome class (vacuity guard)
	sample string // full observation, kept for a few elements only
}

func hashKey(s string) (k [16]byte) {
	h := sha1.Sum([]byte(s))
	copy(k[:], h[:16])
	return
}

type histStats struct {
	states, nontrivial, validated, evaluations int64
	perDepth                                   []int64
	frontier                                   []int
	depth                                      int
}

const batchSize = 2048

// explore runs the BFS. Deterministic: successors are computed in parallel per
// frontier state (in batches, to bound memory) and merged sequentially in
// frontier order, so the representative path of a state is always the first
// one in breadth-first, alphabet order.
func explore(r *report.Run, maxDepth, capObjs int, alphabet []string, deadlineSec float64) histStats {
	var st histStats
	visited := map[[16]byte]struct{}{}
	var frontier []node
	for si := range scripts {
		si := si
		w, m := newWorld(si, capObjs), newModel(si, capObjs)
		fails, canon := checkState(w, m, nil, 0, func() string { return fmt.Sprintf("script %q initial state", scripts[si].Src) })
		c := Case{Part: "history", Script: scripts[si].Src, Cap: capObjs}
		for _, f := range fails {
			r.Violation(f.sig, f.what, c)
		}
		if len(fails) == 0 {
			visited[hashKey(canon)] = struct{}{}
			frontier = append(frontier, node{si: uint8(si)})
			st.states++
		}
	}
	st.perDepth = append(st.perDepth, st.states)
	var validated, evaluations int64
	var seq int64
	for d := 0; d < maxDepth; d++ {
		if r.Elapsed().Seconds() > deadlineSec {
			r.NotExhaustive(fmt.Sprintf("part 1 stopped before expanding depth %d (deadline %.0fs); all shallower levels are complete", d, deadlineSec))
			break
		}
		st.frontier = append(st.frontier, len(frontier))
		last := d == maxDepth-1
		var next []node
		var newStates int64
		stop := false
		for lo := 0; lo < len(frontier); lo += batchSize {
			hi := lo + batchSize
			if hi > len(frontier) {
				hi = len(frontier)
			}
			if lo > 0 && r.Elapsed().Seconds() > deadlineSec {
				r.NotExhaustive(fmt.Sprintf("part 1 stopped inside depth %d after %d of %d frontier states (deadline %.0fs); all shallower levels are complete", d, lo, len(frontier), deadlineSec))
				stop = true
				break
			}
			batch := frontier[lo:hi]
			results := make([][]succ, len(batch))
			parFor(len(batch), func(i int) {
				nd := batch[i]
				si := int(nd.si)
				path := nd.ops()
				vals := valsFor(si, alphabet)
				mm := newModel(si, capObjs)
				for _, op := range path {
					mm.do(op)
				}
				mut, ro := enabledOps(len(mm.objs), vals)
				out := make([]succ, 0, len(mut)+len(ro))
				mk := func(op Op, fails []fail, obs, canon string, m *model) succ {
					s := succ{op: opID[op], fails: fails, cls: op.K + ":" + outcomeClass(obs)}
					if ((lo+i)*131+len(out))%200003 == 0 {
						s.sample = clip(obs, 200)
					}
					if len(fails) == 0 {
						s.ok = true
						s.key = hashKey(canon)
						s.nontr = m.ran && len(m.objs) > 0
					}
					return s
				}
				for _, op := range mut {
					w, m, bad := replay(si, capObjs, path)
					atomic.AddInt64(&evaluations, 1)
					if bad != "" {
						replayFailed(r, si, capObjs, path, bad)
						continue
					}
					fails, obs, canon := stepChecked(w, m, op, path)
					atomic.AddInt64(&validated, 1)
					out = append(out, mk(op, fails, obs, canon, m))
				}
				if len(ro) > 0 {
					// all observers on one replay: each must leave the state unchanged
					w, m, bad := replay(si, capObjs, path)
					atomic.AddInt64(&evaluations, 1)
					if bad != "" {
						replayFailed(r, si, capObjs, path, bad)
					} else {
						for _, op := range ro {
							fails, obs, canon := stepChecked(w, m, op, path)
							atomic.AddInt64(&validated, 1)
							out = append(out, mk(op, fails, obs, canon, m))
							if len(fails) > 0 {
								break
							}
						}
					}
				}
				results[i] = out
			})
			for i, out := range results {
				nd := batch[i]
				for _, s := range out {
					seq++
					r.Outcome(s.cls)
					if s.sample != "" {
						r.Sample(map[string]interface{}{"part": "history", "script": scripts[nd.si].Src,
							"path": pathString(nd.ops()), "op": opTable[s.op].String(), "observed": s.sample})
					}
					if !s.ok {
						p := append(nd.ops(), opTable[s.op])
						c := Case{Part: "history", Script: scripts[nd.si].Src, Cap: capObjs, Path: p, Text: pathString(p)}
						for _, f := range s.fails {
							r.Violation(f.sig, f.what, c)
						}
						continue
					}
					if _, seen := visited[s.key]; seen {
						continue
					}
					visited[s.key] = struct{}{}
					newStates++
					if s.nontr {
						st.nontrivial++
					}
					if !last {
						np := make([]uint16, len(nd.path)+1)
						copy(np, nd.path)
						np[len(nd.path)] = s.op
						next = append(next, node{si: nd.si, path: np})
					}
				}
			}
		}
		st.states += newStates
		st.perDepth = append(st.perDepth, newStates)
		st.depth = d + 1
		frontier = next
		if len(frontier) == 0 || stop {
			break
		}
	}
	st.validated = validated
	st.evaluations = evaluations
	return st
}

func replayFailed(r *report.Run, si, capObjs int, path []Op, bad string) {
	if strings.HasPrefix(bad, stalePrefix) {
		kind := "map-string-interface"
		if strings.Contains(bad, "[]interface{}") {
			kind = "slice-interface"
		}
		r.Violation("convert/from/"+kind+"/process-wide-state", bad,
			Case{Part: "history", Script: scripts[si].Src, Cap: capObjs, Path: path, Text: pathString(path)})
		return
	}
	r.Internal("replay of [%s] failed: %s", pathString(path), bad)
}

// outcomeClass abstracts an observation for the vacuity guard.
func outcomeClass(obs string) string {
	switch {
	case strings.HasPrefix(obs, "err="), strings.HasPrefix(obs, "ok="), strings.HasPrefix(obs, "defined="), strings.HasPrefix(obs, "obj="):
		return obs
	case strings.HasPrefix(obs, "["):
		return "getall/" + strconv.Itoa(strings.Count(obs, "name="))
	case strings.HasPrefix(obs, "name="):
		if i := strings.Index(obs, " type="); i >= 0 {
			return "var/" + obs[i+6:]
		}
	}
	return "other"
}

// runHistoryCase replays one stored path with every step checked (./run replay).
func runHistoryCase(c Case) ([]fail, string) {
	si := scriptIndex(c.Script)
	if si < 0 {
		return []fail{{"internal/unknown-script", c.Script}}, ""
	}
	capObjs := c.Cap
	if capObjs == 0 {
		capObjs = 2
	}
	if st := staleConversion(); st != "" {
		return []fail{{"convert/from/map-string-interface/process-wide-state", st}}, ""
	}
	w, m := newWorld(si, capObjs), newModel(si, capObjs)
	var sb strings.Builder
	var all []fail
	for i, op := range c.Path {
		if onCompiled(op.K) && (op.Obj >= len(w.objs) || op.Obj >= len(m.objs)) {
			return append(all, fail{"internal/bad-path", "path addresses a Compiled that does not exist"}), sb.String()
		}
		fails, obs, canon := stepChecked(w, m, op, c.Path[:i])
		fmt.Fprintf(&sb, "\n    %-22s -> %s\n      state: %s", op.String(), clip(obs, 300), canon)
		all = append(all, fails...)
		if len(fails) > 0 {
			break
		}
	}
	return all, sb.String()
}

// parFor: like report.ParallelFor with chunk size 1 (one frontier state is
// already 40-90 replays of work).
func parFor(n int, fn func(i int)) {
	workers := runtime.GOMAXPROCS(0)
	if workers > n {
		workers = n
	}
	var next int64 = -1
	var wg sync.WaitGroup
	for w := 0; w < workers; w++ {
		wg.Add(1)
		go func() {
			defer wg.Done()
			for {
				i := int(atomic.AddInt64(&next, 1))
				if i >= n {
					return
				}
				fn(i)
			}
		}()
	}
	wg.Wait()
}
