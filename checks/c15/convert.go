package main

// Part 2: Go value -> Tengo object -> Go value. Oracle: the "Type Conversion
// Table" of docs/interoperability.md (Go -> Tengo) and, for the way back, the
// property's round-trip law (identity up to: every int kind -> int64,
// byte/rune -> rune, []Object / map[string]Object -> the interface{} forms,
// immutable -> mutable, error -> an error).

import (
	"errors"
	"fmt"
	"math"
	"sort"
	"strconv"
	"strings"
	"sync/atomic"
	"time"

	"github.com/d5/tengo/v2"
	"verif/engine/val"
)

// GV is one Go value of the part-2 alphabet.
type GV struct {
	Name   string
	Kind   string             // signature component: the Go kind of the top-level value
	Mk     func() interface{} // fresh value
	Silent bool               // the doc table does not list the kind, yet it is no "unsupported" claim either (CallableFunc)
}

type errMark struct{} // expected: some non-nil error (message unspecified)

func (errMark) Error() string { return "<some error>" }

// wantObj: the documented Tengo object for a Go value (docs/interoperability.md
// table transcribed). ok=false: the kind is not in the table.
func wantObj(x interface{}) (tengo.Object, bool) {
	switch v := x.(type) {
	case nil:
		return tengo.UndefinedValue, true
	case string:
		return &tengo.String{Value: v}, true
	case int64:
		return &tengo.Int{Value: v}, true
	case int:
		return &tengo.Int{Value: int64(v)}, true
	case bool:
		if v {
			return tengo.TrueValue, true
		}
		return tengo.FalseValue, true
	case rune:
		return &tengo.Char{Value: v}, true
	case byte:
		return &tengo.Char{Value: rune(v)}, true
	case float64:
		return &tengo.Float{Value: v}, true
	case []byte:
		return &tengo.Bytes{Value: v}, true
	case time.Time:
		return &tengo.Time{Value: v}, true
	case tengo.Object: // before error (no Object is an error, but order must not matter)
		return v, true
	case error:
		return &tengo.Error{Value: &tengo.String{Value: v.Error()}}, true
	case map[string]tengo.Object:
		m := map[string]tengo.Object{}
		for k, e := range v {
			m[k] = e
		}
		return &tengo.Map{Value: m}, true
	case map[string]interface{}:
		m := map[string]tengo.Object{}
		for k, e := range v {
			o, ok := wantObj(e)
			if !ok {
				return nil, false
			}
			m[k] = o
		}
		return &tengo.Map{Value: m}, true
	case []tengo.Object:
		return &tengo.Array{Value: append([]tengo.Object{}, v...)}, true
	case []interface{}:
		a := make([]tengo.Object, len(v))
		for i, e := range v {
			o, ok := wantObj(e)
			if !ok {
				return nil, false
			}
			a[i] = o
		}
		return &tengo.Array{Value: a}, true
	}
	return nil, false
}

// nfObj: the Go value an object is expected to read back as.
func nfObj(o tengo.Object) interface{} {
	switch x := o.(type) {
	case *tengo.Int:
		return x.Value
	case *tengo.String:
		return x.Value
	case *tengo.Float:
		return x.Value
	case *tengo.Bool:
		return x == tengo.TrueValue
	case *tengo.Char:
		return x.Value
	case *tengo.Bytes:
		return x.Value
	case *tengo.Time:
		return x.Value
	case *tengo.Undefined:
		return nil
	case *tengo.Error:
		return errMark{}
	case *tengo.Array:
		return nfSeq(x.Value)
	case *tengo.ImmutableArray:
		return nfSeq(x.Value)
	case *tengo.Map:
		return nfMap(x.Value)
	case *tengo.ImmutableMap:
		return nfMap(x.Value)
	}
	return o // functions, user types: the object itself
}

func nfSeq(xs []tengo.Object) interface{} {
	r := make([]interface{}, len(xs))
	for i, e := range xs {
		r[i] = nfObj(e)
	}
	return r
}

func nfMap(m map[string]tengo.Object) interface{} {
	r := map[string]interface{}{}
	for k, e := range m {
		r[k] = nfObj(e)
	}
	return r
}

// nf: normal form of a Go value under the round trip.
func nf(x interface{}) (interface{}, bool) {
	o, ok := wantObj(x)
	if !ok {
		return nil, false
	}
	return nfObj(o), true
}

func containsErr(v interface{}) bool {
	switch x := v.(type) {
	case tengo.Object:
		return false
	case error:
		return true
	case []interface{}:
		for _, e := range x {
			if containsErr(e) {
				return true
			}
		}
	case map[string]interface{}:
		for _, e := range x {
			if containsErr(e) {
				return true
			}
		}
	}
	return false
}

// errMsgs collects, by position, the message of every Go error in a Go value
// (direct, or nested in []interface{} / map[string]interface{}; Tengo objects
// are not Go errors).
func errMsgs(v interface{}, path string, out map[string]string) {
	switch x := v.(type) {
	case tengo.Object:
	case error:
		out[path] = x.Error()
	case []interface{}:
		for i, e := range x {
			errMsgs(e, path+"["+strconv.Itoa(i)+"]", out)
		}
	case map[string]interface{}:
		for k, e := range x {
			errMsgs(e, path+"."+k, out)
		}
	}
}

// checkErrMsgs: the property's normalisation "error to its message": a Go
// error handed in must read back as an error with the same message.
func checkErrMsgs(in, back interface{}) string {
	want, got := map[string]string{}, map[string]string{}
	errMsgs(in, "x", want)
	if len(want) == 0 {
		return ""
	}
	errMsgs(back, "x", got)
	paths := make([]string, 0, len(want))
	for p := range want {
		paths = append(paths, p)
	}
	sort.Strings(paths)
	for _, p := range paths {
		g, ok := got[p]
		if !ok {
			continue // not an error at all: reported by the type-level comparison
		}
		if g != want[p] {
			return fmt.Sprintf("at %s the error reads back with message %q, handed in with message %q", p, g, want[p])
		}
	}
	return ""
}

// ---- the alphabet ----------------------------------------------------------------

type myStruct struct{ A int }
type namedInt int
type namedString string

func scalarGVs() []GV {
	var g []GV
	add := func(kind, name string, mk func() interface{}) {
		g = append(g, GV{Name: kind + ":" + name, Kind: kind, Mk: mk})
	}
	add("nil", "nil", func() interface{} { return nil })
	for _, s := range []string{"", "s", "é世", "a\x00b", "\xff", "12"} {
		s := s
		add("string", strconv.Quote(s), func() interface{} { return s })
	}
	for _, n := range []int{0, 1, -1, 97, math.MaxInt64, math.MinInt64} {
		n := n
		add("int", strconv.Itoa(n), func() interface{} { return n })
	}
	for _, n := range []int64{0, 2, -1, math.MaxInt64, math.MinInt64, 1<<53 + 1} {
		n := n
		add("int64", strconv.FormatInt(n, 10), func() interface{} { return n })
	}
	add("bool", "true", func() interface{} { return true })
	add("bool", "false", func() interface{} { return false })
	for _, c := range []rune{0, 'c', '世', 0x10FFFF, -1, math.MaxInt32} {
		c := c
		add("rune", strconv.Itoa(int(c)), func() interface{} { return c })
	}
	for _, b := range []byte{0, 7, 'a', 255} {
		b := b
		add("byte", strconv.Itoa(int(b)), func() interface{} { return b })
	}
	for _, f := range []float64{0, math.Copysign(0, -1), 1.5, -2.5, 1e21, 5e-324, math.MaxFloat64, math.NaN(), math.Inf(1), math.Inf(-1)} {
		f := f
		add("float64", strconv.FormatFloat(f, 'g', -1, 64), func() interface{} { return f })
	}
	add("bytes", "nil", func() interface{} { return []byte(nil) })
	for _, s := range []string{"", "b", "ab\xff"} {
		s := s
		add("bytes", strconv.Quote(s), func() interface{} { return []byte(s) })
	}
	for i, t := range []time.Time{{}, time.Unix(0, 0), val.RefTime, val.RefTime.Add(1), val.RefTime.In(time.FixedZone("X", 3600))} {
		t := t
		add("time", strconv.Itoa(i), func() interface{} { return t })
	}
	add("error", "boom", func() interface{} { return errors.New("boom") })
	add("error", "empty", func() interface{} { return errors.New("") })
	add("error", "wrapped", func() interface{} { return fmt.Errorf("outer: %w", errors.New("inner")) })
	add("error", "customtype", func() interface{} { return errMark{} })
	for _, v := range val.All() {
		v := v
		add("object", v.Name, func() interface{} { return v.Mk() })
	}
	g = append(g, GV{Name: "callablefunc:f", Kind: "callablefunc", Silent: true, Mk: func() interface{} {
		return tengo.CallableFunc(func(args ...tengo.Object) (tengo.Object, error) { return &tengo.Int{Value: 42}, nil })
	}})
	return g
}

func unsupportedGVs() []GV {
	var g []GV
	add := func(kind string, mk func() interface{}) {
		g = append(g, GV{Name: "unsupported:" + kind, Kind: kind, Mk: mk})
	}
	add("int8", func() interface{} { return int8(1) })
	add("int16", func() interface{} { return int16(1) })
	add("uint", func() interface{} { return uint(1) })
	add("uint16", func() interface{} { return uint16(1) })
	add("uint32", func() interface{} { return uint32(1) })
	add("uint64", func() interface{} { return uint64(1) })
	add("uintptr", func() interface{} { return uintptr(1) })
	add("float32", func() interface{} { return float32(1.5) })
	add("complex128", func() interface{} { return complex(1, 2) })
	add("struct", func() interface{} { return myStruct{1} })
	add("pointer", func() interface{} { x := 1; return &x })
	add("pointer-to-struct", func() interface{} { return &myStruct{1} })
	add("chan", func() interface{} { return make(chan int) })
	add("slice-int", func() interface{} { return []int{1} })
	add("slice-string", func() interface{} { return []string{"s"} })
	add("map-int-string", func() interface{} { return map[int]string{1: "s"} })
	add("map-string-int", func() interface{} { return map[string]int{"k": 1} })
	add("map-string-string", func() interface{} { return map[string]string{"k": "s"} })
	add("array-2-int", func() interface{} { return [2]int{1, 2} })
	add("named-int", func() interface{} { return namedInt(1) })
	add("named-string", func() interface{} { return namedString("s") })
	add("func-other", func() interface{} { return func() {} })
	add("duration", func() interface{} { return time.Second })
	return g
}

type elem struct {
	name string
	mk   func() interface{}
}

// containerGVs: the four container kinds, nested to depth <= 2.
func containerGVs() []GV {
	var g []GV
	S := []elem{
		{"nil", func() interface{} { return nil }},
		{"int:1", func() interface{} { return 1 }},
		{"int64:2", func() interface{} { return int64(2) }},
		{"string:s", func() interface{} { return "s" }},
		{"bool:true", func() interface{} { return true }},
		{"rune:c", func() interface{} { return 'c' }},
		{"byte:7", func() interface{} { return byte(7) }},
		{"float64:1.5", func() interface{} { return 1.5 }},
		{"bytes:b", func() interface{} { return []byte("b") }},
		{"error:boom", func() interface{} { return errors.New("boom") }},
		{"time:ref", func() interface{} { return val.RefTime }},
		{"object:int3", func() interface{} { return &tengo.Int{Value: 3} }},
		{"object:imarr", func() interface{} {
			return &tengo.ImmutableArray{Value: []tengo.Object{&tengo.Int{Value: 1}}}
		}},
		{"uint:1(unsupported)", func() interface{} { return uint(1) }},
	}
	O := []struct {
		name string
		mk   func() tengo.Object
	}{
		{"int1", func() tengo.Object { return &tengo.Int{Value: 1} }},
		{"str-s", func() tengo.Object { return &tengo.String{Value: "s"} }},
		{"undef", func() tengo.Object { return tengo.UndefinedValue }},
		{"arr[1]", func() tengo.Object { return &tengo.Array{Value: []tengo.Object{&tengo.Int{Value: 1}}} }},
		{"immap{k:2}", func() tengo.Object {
			return &tengo.ImmutableMap{Value: map[string]tengo.Object{"k": &tengo.Int{Value: 2}}}
		}},
		{"err(x)", func() tengo.Object { return &tengo.Error{Value: &tengo.String{Value: "x"}} }},
	}
	sliceI := func(es ...elem) GV {
		names := make([]string, len(es))
		for i, e := range es {
			names[i] = e.name
		}
		return GV{Name: "[]interface{}{" + strings.Join(names, ",") + "}", Kind: "slice-interface", Mk: func() interface{} {
			r := make([]interface{}, len(es))
			for i, e := range es {
				r[i] = e.mk()
			}
			return r
		}}
	}
	mapI := func(es ...elem) GV {
		keys := []string{"k", "l"}
		names := make([]string, len(es))
		for i, e := range es {
			names[i] = keys[i] + ":" + e.name
		}
		return GV{Name: "map[string]interface{}{" + strings.Join(names, ",") + "}", Kind: "map-string-interface", Mk: func() interface{} {
			r := map[string]interface{}{}
			for i, e := range es {
				r[keys[i]] = e.mk()
			}
			return r
		}}
	}
	// depth 1
	g = append(g, sliceI(), mapI())
	g = append(g, GV{Name: "[]interface{}(nil)", Kind: "slice-interface", Mk: func() interface{} { return []interface{}(nil) }})
	g = append(g, GV{Name: "map[string]interface{}(nil)", Kind: "map-string-interface", Mk: func() interface{} { return map[string]interface{}(nil) }})
	for _, a := range S {
		g = append(g, sliceI(a), mapI(a))
		for _, b := range S {
			g = append(g, sliceI(a, b), mapI(a, b))
		}
	}
	g = append(g, GV{Name: "[]Object{}", Kind: "slice-object", Mk: func() interface{} { return []tengo.Object{} }})
	g = append(g, GV{Name: "[]Object(nil)", Kind: "slice-object", Mk: func() interface{} { return []tengo.Object(nil) }})
	g = append(g, GV{Name: "map[string]Object{}", Kind: "map-string-object", Mk: func() interface{} { return map[string]tengo.Object{} }})
	for _, a := range O {
		a := a
		g = append(g, GV{Name: "[]Object{" + a.name + "}", Kind: "slice-object", Mk: func() interface{} { return []tengo.Object{a.mk()} }})
		g = append(g, GV{Name: "map[string]Object{k:" + a.name + "}", Kind: "map-string-object", Mk: func() interface{} { return map[string]tengo.Object{"k": a.mk()} }})
		for _, b := range O {
			b := b
			g = append(g, GV{Name: "[]Object{" + a.name + "," + b.name + "}", Kind: "slice-object", Mk: func() interface{} { return []tengo.Object{a.mk(), b.mk()} }})
			g = append(g, GV{Name: "map[string]Object{k:" + a.name + ",l:" + b.name + "}", Kind: "map-string-object", Mk: func() interface{} {
				return map[string]tengo.Object{"k": a.mk(), "l": b.mk()}
			}})
		}
	}
	// depth 2: elements are depth-1 containers (all four kinds) or scalars
	mkE := func(v GV) elem { return elem{v.Name, v.Mk} }
	E2 := []elem{S[0], S[1], S[3], S[9],
		mkE(sliceI()), mkE(sliceI(S[1])), mkE(sliceI(S[3], S[0])), mkE(sliceI(S[13])),
		mkE(mapI()), mkE(mapI(S[1])), mkE(mapI(S[9], S[5])),
		{"[]Object{int1}", func() interface{} { return []tengo.Object{&tengo.Int{Value: 1}} }},
		{"map[string]Object{k:int1}", func() interface{} { return map[string]tengo.Object{"k": &tengo.Int{Value: 1}} }},
		{"object:arr[arr[1]]", func() interface{} {
			return &tengo.Array{Value: []tengo.Object{&tengo.Array{Value: []tengo.Object{&tengo.Int{Value: 1}}}}}
		}},
	}
	for _, a := range E2 {
		g = append(g, sliceI(a), mapI(a))
		for _, b := range E2 {
			g = append(g, sliceI(a, b), mapI(a, b))
		}
	}
	// drop duplicates by name (depth-2 set re-generates some depth-1 values)
	seen := map[string]bool{}
	out := g[:0]
	for _, v := range g {
		if seen[v.Name] {
			continue
		}
		seen[v.Name] = true
		out = append(out, v)
	}
	return out
}

func allGVs() []GV {
	g := scalarGVs()
	g = append(g, unsupportedGVs()...)
	g = append(g, containerGVs()...)
	return g
}

// ---- one value ---------------------------------------------------------------------

func safeFrom(x interface{}) (o tengo.Object, err error, pan string) {
	defer func() {
		if r := recover(); r != nil {
			pan = fmt.Sprint(r)
		}
	}()
	atomic.AddInt64(&apiCalls, 1)
	o, err = tengo.FromInterface(x)
	return
}

func safeTo(o tengo.Object) (v interface{}, pan string) {
	defer func() {
		if r := recover(); r != nil {
			pan = fmt.Sprint(r)
		}
	}()
	atomic.AddInt64(&apiCalls, 1)
	return tengo.ToInterface(o), ""
}

// viaScript hands x to the script `out := a` (by Script.Add or by
// Compiled.Set) and reads out back.
func viaScript(x interface{}, bySet bool) (obj tengo.Object, value interface{}, errText string, pan string) {
	defer func() {
		if r := recover(); r != nil {
			pan = fmt.Sprint(r)
		}
	}()
	s := tengo.NewScript([]byte("out := a"))
	var c *tengo.Compiled
	var err error
	if bySet {
		atomic.AddInt64(&apiCalls, 4)
		if err = s.Add("a", nil); err != nil {
			return nil, nil, "Add(nil): " + err.Error(), ""
		}
		if c, err = s.Compile(); err != nil {
			return nil, nil, "Compile: " + err.Error(), ""
		}
		if err = c.Set("a", x); err != nil {
			return nil, nil, "Set: " + err.Error(), ""
		}
		if err = c.Run(); err != nil {
			return nil, nil, "Run: " + err.Error(), ""
		}
	} else {
		atomic.AddInt64(&apiCalls, 2)
		if err = s.Add("a", x); err != nil {
			return nil, nil, "Add: " + err.Error(), ""
		}
		if c, err = s.Run(); err != nil {
			return nil, nil, "Run: " + err.Error(), ""
		}
	}
	atomic.AddInt64(&apiCalls, 3)
	v := c.Get("out")
	return v.Object(), v.Value(), "", ""
}

func runConvert(name string) (fails []fail, obs string) {
	gv, ok := gvByName(name)
	if !ok {
		return []fail{{"internal/unknown-value", name}}, ""
	}
	add := func(sig, what string) { fails = append(fails, fail{sig, gv.Name + ": " + what}) }
	x := gv.Mk()
	want, supported := wantObj(x)
	obj, err, pan := safeFrom(x)
	if pan != "" {
		add("convert/from/"+gv.Kind, "FromInterface panicked: "+clip(pan, 200))
		return fails, "panic"
	}
	if gv.Silent {
		// not in the documented table and not a claim either way: only "no panic"
		if err != nil {
			return nil, "silent-kind:error"
		}
		if _, pan := safeTo(obj); pan != "" {
			add("convert/to/"+obj.TypeName(), "ToInterface panicked: "+clip(pan, 200))
		}
		_, _, _, pan := viaScript(x, false)
		if pan != "" {
			add("roundtrip/"+gv.Kind, "script path panicked: "+clip(pan, 200))
		}
		return fails, "silent-kind:" + val.Snapshot(obj)
	}
	if !supported {
		if err == nil || obj != nil {
			add("convert/from/"+gv.Kind, fmt.Sprintf("not in the conversion table of docs/interoperability.md, FromInterface must fail; got object %s err %v", val.Snapshot(obj), err))
		}
		// Script.Add / Compiled.Set must refuse it too and leave the variable alone
		func() {
			defer func() {
				if r := recover(); r != nil {
					add("convert/from/"+gv.Kind, "Script.Add/Compiled.Set panicked: "+clip(fmt.Sprint(r), 200))
				}
			}()
			atomic.AddInt64(&apiCalls, 6)
			s := tengo.NewScript([]byte("out := 1"))
			if e := s.Add("a", x); e == nil {
				add("convert/from/"+gv.Kind, "Script.Add accepted a value outside the conversion table")
			}
			if s.Remove("a") {
				add("convert/from/"+gv.Kind, "Script.Add failed but the variable exists")
			}
			_ = s.Add("b", &tengo.Int{Value: 5}) // scaffolding by Object: independent of the conversions under test
			c, e := s.Compile()
			if e != nil {
				add("convert/from/"+gv.Kind, "Compile after a refused Add failed: "+e.Error())
				return
			}
			if e := c.Set("b", x); e == nil {
				add("convert/from/"+gv.Kind, "Compiled.Set accepted a value outside the conversion table")
			}
			if got := val.Snapshot(c.Get("b").Object()); got != "int:5" {
				add("convert/from/"+gv.Kind, "a refused Compiled.Set changed the variable to "+got)
			}
		}()
		return fails, "unsupported:error"
	}
	if err != nil || obj == nil {
		add("convert/from/"+gv.Kind, fmt.Sprintf("FromInterface failed (%v); docs/interoperability.md maps it to %s", err, val.Snapshot(want)))
		return fails, "error"
	}
	ws := val.Snapshot(want)
	if got := val.Snapshot(obj); got != ws {
		add("convert/from/"+gv.Kind, "FromInterface gave "+clip(got, 200)+", documented conversion is "+clip(ws, 200))
	}
	if xo, isObj := x.(tengo.Object); isObj && obj != xo {
		add("convert/from/"+gv.Kind, "an Object must be passed through unchanged (no type conversion performed); got a different object")
	}
	// every conversion builds fresh containers: no mutable state is shared between
	// two conversions, and writing into one result leaves the next one intact
	if _, isObj := x.(tengo.Object); !isObj {
		if what := freshness(gv, obj, ws); what != "" {
			add("convert/from/"+gv.Kind, what)
		}
	}
	// back
	expGo, _ := nf(gv.Mk())
	es := renderGo(expGo, false)
	back, pan := safeTo(obj)
	if pan != "" {
		add("roundtrip/"+gv.Kind, "ToInterface panicked: "+clip(pan, 200))
		return fails, "panic"
	}
	if got := renderGo(back, false); got != es {
		add("roundtrip/"+gv.Kind, "ToInterface(FromInterface(x)) = "+clip(got, 200)+", expected "+clip(es, 200))
	}
	errMsgBad := checkErrMsgs(gv.Mk(), back)
	if errMsgBad != "" {
		errMsgBad = "ToInterface(FromInterface(x)): " + errMsgBad
	}
	// the same through the script `out := a`
	for _, bySet := range []bool{false, true} {
		how := "Script.Add"
		if bySet {
			how = "Compiled.Set"
		}
		o2, v2, et, pan := viaScript(gv.Mk(), bySet)
		switch {
		case pan != "":
			add("roundtrip/"+gv.Kind, how+" -> `out := a` -> Get panicked: "+clip(pan, 200))
		case et != "":
			add("roundtrip/"+gv.Kind, how+" -> `out := a` failed: "+clip(et, 200))
		default:
			if got := val.Snapshot(o2); got != ws {
				add("roundtrip/"+gv.Kind, how+" -> `out := a` -> Get(out).Object() = "+clip(got, 200)+", documented "+clip(ws, 200))
			}
			if got := renderGo(v2, false); got != es {
				add("roundtrip/"+gv.Kind, how+" -> `out := a` -> Get(out).Value() = "+clip(got, 200)+", expected "+clip(es, 200))
			}
			if m := checkErrMsgs(gv.Mk(), v2); m != "" && errMsgBad == "" {
				errMsgBad = how + " -> `out := a` -> Get(out).Value(): " + m
			}
		}
	}
	if errMsgBad != "" {
		add("roundtrip/error-message", errMsgBad+" (property: round trip is the identity up to 'error to its message')")
	}
	// second trip is the identity on the normal form (error text excluded: not documented)
	if !containsErr(back) && !strings.Contains(es, "error") {
		o3, err3, pan3 := safeFrom(back)
		if pan3 != "" || err3 != nil {
			add("roundtrip/"+gv.Kind, fmt.Sprintf("the value read back (%s) is not accepted by FromInterface again: %v %s", clip(renderGo(back, true), 120), err3, pan3))
		} else if b2, pan := safeTo(o3); pan != "" || renderGo(b2, true) != renderGo(back, true) {
			add("roundtrip/"+gv.Kind, "second round trip is not the identity: "+clip(renderGo(b2, true), 150)+" vs "+clip(renderGo(back, true), 150))
		}
	}
	return fails, "ok:" + obj.TypeName()
}

// containers lists the mutable containers (arrays, maps) reachable from o.
func containers(o tengo.Object, acc *[]tengo.Object, depth int) {
	if depth > 16 {
		return
	}
	switch x := o.(type) {
	case *tengo.Array:
		*acc = append(*acc, x)
		for _, e := range x.Value {
			containers(e, acc, depth+1)
		}
	case *tengo.Map:
		*acc = append(*acc, x)
		for _, e := range x.Value {
			containers(e, acc, depth+1)
		}
	case *tengo.ImmutableArray:
		for _, e := range x.Value {
			containers(e, acc, depth+1)
		}
	case *tengo.ImmutableMap:
		for _, e := range x.Value {
			containers(e, acc, depth+1)
		}
	case *tengo.Error:
		containers(x.Value, acc, depth+1)
	}
}

const sentinelKey = "\x00c15-sentinel"

func freshness(gv GV, obj tengo.Object, ws string) (what string) {
	defer func() {
		if r := recover(); r != nil {
			what = "freshness probe panicked: " + clip(fmt.Sprint(r), 200)
		}
	}()
	var c1, c2 []tengo.Object
	containers(obj, &c1, 0)
	if len(c1) == 0 {
		return ""
	}
	o2, err, pan := safeFrom(gv.Mk())
	if err != nil || pan != "" {
		return fmt.Sprintf("a second conversion of an equal value failed: %v %s", err, pan)
	}
	containers(o2, &c2, 0)
	for _, a := range c1 {
		for _, b := range c2 {
			if a == b {
				return "two separate conversions of equal Go values share a mutable container (" + clip(val.Snapshot(a), 80) + "): a script writing into one variable changes the other"
			}
		}
	}
	// write into every container of the first result, convert again, undo
	for _, c := range c1 {
		switch x := c.(type) {
		case *tengo.Array:
			x.Value = append(x.Value, &tengo.Int{Value: 777})
		case *tengo.Map:
			if x.Value != nil {
				x.Value[sentinelKey] = &tengo.Int{Value: 777}
			}
		}
	}
	o3, err, pan := safeFrom(gv.Mk())
	got := val.Snapshot(o3)
	for _, c := range c1 {
		switch x := c.(type) {
		case *tengo.Array:
			if n := len(x.Value); n > 0 {
				x.Value = x.Value[:n-1]
			}
		case *tengo.Map:
			if x.Value != nil {
				delete(x.Value, sentinelKey)
			}
		}
	}
	if err != nil || pan != "" {
		return fmt.Sprintf("a conversion after writing into an earlier result failed: %v %s", err, pan)
	}
	if got != ws {
		return "after writing into an earlier conversion result, converting an equal Go value gives " + clip(got, 200) + ", documented " + clip(ws, 200)
	}
	return ""
}

var gvIndex map[string]GV

func gvByName(name string) (GV, bool) {
	if gvIndex == nil {
		gvIndex = map[string]GV{}
		for _, v := range allGVs() {
			gvIndex[v.Name] = v
		}
	}
	v, ok := gvIndex[name]
	return v, ok
}

// ---- object -> Go (every element of V) ------------------------------------------------

func kindOf(o tengo.Object) string {
	switch o.(type) {
	case *tengo.Int:
		return "int"
	case *tengo.Float:
		return "float"
	case *tengo.Bool:
		return "bool"
	case *tengo.Char:
		return "char"
	case *tengo.String:
		return "string"
	case *tengo.Bytes:
		return "bytes"
	case *tengo.Array:
		return "array"
	case *tengo.ImmutableArray:
		return "immutable-array"
	case *tengo.Map:
		return "map"
	case *tengo.ImmutableMap:
		return "immutable-map"
	case *tengo.Time:
		return "time"
	case *tengo.Error:
		return "error"
	case *tengo.Undefined:
		return "undefined"
	}
	return "function"
}

func erased(s string) string {
	s = strings.ReplaceAll(s, "imarray[", "array[")
	return strings.ReplaceAll(s, "immap{", "map{")
}

func runTo(name string) (fails []fail, obs string) {
	v, ok := val.ByName(name)
	if !ok {
		return []fail{{"internal/unknown-value", name}}, ""
	}
	o := v.Mk()
	k := kindOf(o)
	add := func(what string) { fails = append(fails, fail{"convert/to/" + k, v.Name + ": " + what}) }
	got, pan := safeTo(o)
	if pan != "" {
		add("ToInterface panicked: " + clip(pan, 200))
		return fails, "panic"
	}
	want := renderGo(nfObj(o), false)
	gs := renderGo(got, false)
	if gs != want {
		add("ToInterface gave " + clip(gs, 200) + ", expected " + clip(want, 200))
	}
	if k == "function" {
		if got != interface{}(o) {
			add("an object without Go counterpart must be returned itself")
		}
		return fails, gs
	}
	if got != nil {
		if _, isObj := got.(tengo.Object); isObj {
			add("ToInterface returned a Tengo object for a type that has a Go counterpart")
		}
	}
	// and back: identity up to immutability (errors: message not documented)
	if !containsErr(got) {
		o2, err, pan := safeFrom(got)
		if pan != "" || err != nil {
			add(fmt.Sprintf("FromInterface(ToInterface(o)) failed: %v %s", err, pan))
		} else if a, b := erased(val.Snapshot(o2)), erased(val.Snapshot(o)); a != b {
			add("FromInterface(ToInterface(o)) = " + clip(a, 200) + ", original " + clip(b, 200))
		}
	} else if e, isErr := got.(error); isErr {
		o2, err, _ := safeFrom(e)
		if err != nil || kindOf(o2) != "error" {
			add("an error read back does not convert to an Error object again")
		}
	}
	return fails, clip(gs, 80)
}

// ---- limits (sequential phase: the limits are process-wide) -----------------------------

func runLimits() (fails []fail, obs string) {
	oldS, oldB := tengo.MaxStringLen, tengo.MaxBytesLen
	defer func() { tengo.MaxStringLen, tengo.MaxBytesLen = oldS, oldB }()
	tengo.MaxStringLen, tengo.MaxBytesLen = 3, 3
	add := func(kind, what string) { fails = append(fails, fail{"convert/from/" + kind + "-limit", what}) }
	var sb strings.Builder
	type tc struct {
		kind string
		name string
		x    interface{}
		want error // nil = must succeed
	}
	cases := []tc{
		{"string", `"abc" (len == MaxStringLen)`, "abc", nil},
		{"string", `"abcd" (len > MaxStringLen)`, "abcd", tengo.ErrStringLimit},
		{"string", `[]interface{}{"abcd"}`, []interface{}{"abcd"}, tengo.ErrStringLimit},
		{"string", `map[string]interface{}{"k":"abcd"}`, map[string]interface{}{"k": "abcd"}, tengo.ErrStringLimit},
		{"string", `[]interface{}{[]interface{}{"abcd"}}`, []interface{}{[]interface{}{"abcd"}}, tengo.ErrStringLimit},
		{"bytes", `[]byte("abc") (len == MaxBytesLen)`, []byte("abc"), nil},
		{"bytes", `[]byte("abcd") (len > MaxBytesLen)`, []byte("abcd"), tengo.ErrBytesLimit},
		{"bytes", `[]interface{}{[]byte("abcd")}`, []interface{}{[]byte("abcd")}, tengo.ErrBytesLimit},
		{"bytes", `map[string]interface{}{"k":[]byte("abcd")}`, map[string]interface{}{"k": []byte("abcd")}, tengo.ErrBytesLimit},
	}
	for _, c := range cases {
		o, err, pan := safeFrom(c.x)
		fmt.Fprintf(&sb, "%s -> err=%v; ", c.name, err)
		switch {
		case pan != "":
			add(c.kind, "FromInterface("+c.name+") panicked: "+clip(pan, 200))
		case c.want == nil && (err != nil || o == nil):
			add(c.kind, fmt.Sprintf("FromInterface(%s) failed (%v) although the value is within the limit", c.name, err))
		case c.want != nil && !errors.Is(err, c.want):
			add(c.kind, fmt.Sprintf("FromInterface(%s) with MaxStringLen=MaxBytesLen=3 returned err=%v obj=%s, expected %v", c.name, err, val.Snapshot(o), c.want))
		}
		// the same through Script.Add and Compiled.Set
		func() {
			defer func() {
				if r := recover(); r != nil {
					add(c.kind, "Script.Add/Compiled.Set("+c.name+") panicked: "+clip(fmt.Sprint(r), 200))
				}
			}()
			atomic.AddInt64(&apiCalls, 4)
			s := tengo.NewScript([]byte("out := 1"))
			e1 := s.Add("a", c.x)
			_ = s.Add("b", &tengo.Int{Value: 1})
			cc, e := s.Compile()
			if e != nil {
				add(c.kind, "Compile failed: "+e.Error())
				return
			}
			e2 := cc.Set("b", c.x)
			for i, e := range []error{e1, e2} {
				api := []string{"Script.Add", "Compiled.Set"}[i]
				if c.want == nil && e != nil {
					add(c.kind, fmt.Sprintf("%s(%s) failed (%v) although within the limit", api, c.name, e))
				}
				if c.want != nil && !errors.Is(e, c.want) {
					add(c.kind, fmt.Sprintf("%s(%s) returned %v, expected %v", api, c.name, e, c.want))
				}
			}
		}()
	}
	// observation only (limits of values that are passed through are C06's subject)
	o, err, _ := safeFrom(errors.New("abcdef"))
	fmt.Fprintf(&sb, "error with 6-byte message under MaxStringLen=3 -> %s err=%v (not claimed here: C06)", val.Snapshot(o), err)
	return fails, sb.String()
}
