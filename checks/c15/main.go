// C15: host/script value exchange is coherent over any sequence of API calls.
//
// Part 1 (history.go, model.go): explicit-state BFS over histories of
// Add/Remove/Compile/Run/c.Run/c.RunContext/c.Set/c.Get/c.GetAll/c.IsDefined/
// c.Clone on one Script and up to capObjs Compiled objects, in lockstep with a
// reference model; every operation result and, after every operation, every
// observable of every object is compared with the model.
// Part 2 (convert.go): every Go value of the bounded alphabet through
// FromInterface -> (script identity) -> ToInterface / Variable.Value against
// the documented conversion table; unsupported kinds; length limits.
// Part 3 (accessor.go): every Variable accessor on every element of V against
// the documented coercion table; tengo.Eval against the Script-based result.
package main

import (
	"fmt"
	"strings"
	"sync/atomic"

	"verif/engine/report"
	"verif/engine/val"
)

type Case struct {
	Part   string `json:"part"` // history | convert | to | limits | accessor | eval | eval-special
	Script string `json:"script,omitempty"`
	Cap    int    `json:"cap,omitempty"`
	Path   []Op   `json:"path,omitempty"`
	Text   string `json:"text,omitempty"` // the path, readable
	Value  string `json:"value,omitempty"`
	Expr   string `json:"expr,omitempty"`
	Form   string `json:"form,omitempty"`
}

func runCase(c Case) ([]fail, string) {
	switch c.Part {
	case "history":
		return runHistoryCase(c)
	case "convert":
		return runConvert(c.Value)
	case "to":
		return runTo(c.Value)
	case "limits":
		return runLimits()
	case "accessor":
		return runAccessor(c.Value)
	case "eval":
		return runEval(c.Expr, c.Value, c.Form)
	case "eval-special":
		return runEvalSpecial()
	}
	return []fail{{"internal/unknown-part", c.Part}}, ""
}

func main() {
	gvByName("") // build the registries before any goroutine uses them
	initOps()
	if p := report.ReplayArg(); p != "" {
		rp, err := report.LoadReplay(p)
		if err != nil {
			fmt.Println("cannot load replay:", err)
			return
		}
		for _, raw := range rp.Cases {
			var c Case
			_ = report.Recase(raw, &c)
			fails, obs := runCase(c)
			fmt.Printf("case part=%s script=%q value=%q expr=%q form=%q path=[%s]\n  observed: %s\n", c.Part, c.Script, c.Value, c.Expr, c.Form, pathString(c.Path), obs)
			for _, f := range fails {
				fmt.Printf("  FAIL %s: %s\n", f.sig, f.what)
			}
			if len(fails) == 0 {
				fmt.Println("  (no failure reproduced)")
			}
		}
		return
	}
	r := report.New("C15")
	distinct := report.NewDistinctSet()
	var validated23, evals23 int64
	record := func(c Case, key string, sample bool) {
		fails, obs := runCase(c)
		distinct.Add(key)
		atomic.AddInt64(&validated23, 1)
		atomic.AddInt64(&evals23, 1)
		r.Outcome(c.Part + ":" + obsClass(obs))
		if sample {
			r.Sample(map[string]interface{}{"case": c, "observed": clip(obs, 300)})
		}
		for _, f := range fails {
			r.Violation(f.sig, f.what, c)
		}
	}

	// ---- sequential phase: process-wide limits
	record(Case{Part: "limits"}, "limits", true)
	if _, obs := runLimits(); obs != "" {
		if i := strings.Index(obs, "error with 6-byte"); i >= 0 {
			r.Note("limits: %s", obs[i:])
		}
	}

	// ---- part 2
	gvs := allGVs()
	report.ParallelFor(len(gvs), func(i int) {
		record(Case{Part: "convert", Value: gvs[i].Name}, "convert/"+gvs[i].Name, i%701 == 0)
	})
	V := val.All()
	report.ParallelFor(len(V), func(i int) {
		record(Case{Part: "to", Value: V[i].Name}, "to/"+V[i].Name, i == 60)
	})
	// observations the docs do not decide (recorded, never a verdict)
	noteObservations(r)

	// ---- part 3
	report.ParallelFor(len(V), func(i int) {
		record(Case{Part: "accessor", Value: V[i].Name}, "accessor/"+V[i].Name, i == 17)
	})
	type ev struct{ expr, name, form string }
	var evs []ev
	for _, e := range evalExprs {
		for _, v := range V {
			for _, f := range []string{"object", "go"} {
				evs = append(evs, ev{e, v.Name, f})
			}
		}
	}
	report.ParallelFor(len(evs), func(i int) {
		record(Case{Part: "eval", Expr: evs[i].expr, Value: evs[i].name, Form: evs[i].form},
			"eval/"+evs[i].expr+"/"+evs[i].name+"/"+evs[i].form, i == 333)
	})
	record(Case{Part: "eval-special"}, "eval-special", false)

	// ---- part 1
	// quick: one bound. thorough: two larger bounds (one level deeper on a
	// two-value alphabet; one more object and the full value alphabet at the quick
	// depth). Each is a separate exhaustive search with its own visited set; the
	// object cap is part of the system explored.
	type bound struct {
		Name   string   `json:"name"`
		Depth  int      `json:"depth"`
		Cap    int      `json:"max_compiled_objects"`
		Values []string `json:"values"`
	}
	bounds := []bound{{"depth5/cap2/4values", 5, 2, []string{"nil", "1", "s", "arr"}}}
	if r.Thorough() {
		// sized to finish exhaustively in < 10 min even with about one effective
		// core (measured ~340 core-seconds in total); cheapest first
		bounds = []bound{
			{"depth6/cap2/2values", 6, 2, []string{"nil", "arr"}},
			{"depth5/cap3/5values", 5, 3, []string{"nil", "1", "s", "arr", "map"}},
		}
	}
	deadline := float64(r.Pick(240, 540)) // safety net only; the bounds are chosen to finish well before
	var st histStats
	perBound := []map[string]interface{}{}
	for _, b := range bounds {
		t0 := r.Elapsed().Seconds()
		s1 := explore(r, b.Depth, b.Cap, b.Values, deadline)
		st.states += s1.states
		st.nontrivial += s1.nontrivial
		st.validated += s1.validated
		st.evaluations += s1.evaluations
		if s1.depth > st.depth {
			st.depth = s1.depth
		}
		perBound = append(perBound, map[string]interface{}{"bound": b, "depth_reached": s1.depth,
			"new_states_per_depth": s1.perDepth, "frontier_expanded_per_depth": s1.frontier,
			"states": s1.states, "nontrivial": s1.nontrivial, "transitions_validated": s1.validated,
			"wall_s": r.Elapsed().Seconds() - t0})
	}
	r.Set("history_depth_reached", st.depth)
	r.Set("history_bounds", perBound)
	var srcs []string
	for _, s := range scripts {
		srcs = append(srcs, s.Src)
	}
	r.Set("history_scripts", srcs)
	r.Set("history_alphabet", map[string]interface{}{
		"script_ops":     "Add(n,v) Remove(n) Compile Run",
		"compiled_ops":   "Run RunContext(background) Set(n,v) Get(n) GetAll IsDefined(n) Clone",
		"names":          mutNames,
		"names_note":     "Add/Remove/Set range over {a, out, len} (len is also a builtin function name); zz is never added and is used for Get/IsDefined in every state and for Set(zz,nil), which must fail",
		"names_observed": obsNames,
		"values":         "per bound, see history_bounds; Go values nil, 1 (int), \"s\", []interface{}{1}, map[string]interface{}{\"k\": 2}",
		"values_note":    "the map value is not used with the script `a[0] = 7`",
	})
	r.Set("part2_go_values", len(gvs))
	r.Set("part3_values", len(V))
	r.Set("part3_accessors", accessors)
	r.Set("eval_expressions", evalExprs)
	r.Count("history-states", st.states)
	r.Count("history-transitions-validated", st.validated)
	r.Count("history-replays", st.evaluations)
	r.Count("part23-cases", distinct.Len())
	r.Assume("part 1: Script.Compile hands the Script's variable objects to the Compiled by reference (Script.Add converts once; the docs are silent on copying), so a mutable container is shared between the Script and the objects compiled from it; only Clone is documented to copy. The model follows that reading; a Compile that copied would be reported and need a model update")
	r.Assume("part 1: the Script's variable table has no accessor; the harness reads the unexported field `variables` to observe it in every state (falls back to observation through later Compile calls if the field is renamed)")
	r.Assume("part 2: the way back (ToInterface / Variable.Value) has no table of its own in the docs; the expectation is the inverse of the documented Go->Tengo table under the property's normalisation (int kinds -> int64, byte/rune -> rune, Object containers -> interface{} containers, immutable -> mutable). For a Go error handed in (direct or nested) the message read back must equal the original message (property: 'error to its message'; signature roundtrip/error-message); the message of an error read back from an Error object that did not come from a Go error is not documented and not compared")
	r.Assume("part 3: cells the coercion table does not fix (String() of float/array/map/error beyond its documented shape, Int() of a float outside the int64 range, every accessor on immutable-array/immutable-map/function values, which are not rows of the table) are checked for 'no panic' only")
	r.Finish(report.Coverage{
		States:      st.states + distinct.Len(),
		Transitions: atomic.LoadInt64(&apiCalls),
		Validated:   st.validated + atomic.LoadInt64(&validated23),
		Evaluations: st.evaluations + atomic.LoadInt64(&evals23),
		Nontrivial:  st.nontrivial,
		Rule: "states = distinct canonical states of the history BFS (script, Script variables, per-Compiled globals by name, container sharing, 'some Compiled has run' bit) + distinct values/cases of parts 2 and 3; " +
			"transitions = API calls applied to real objects (replay prefixes included); validated = transitions whose result and resulting state were compared with the reference model + part 2/3 cases compared with the documented tables; " +
			"non-trivial = distinct history states in which at least one Compiled exists and a Compiled has been run",
	})
}

func obsClass(obs string) string {
	if i := strings.IndexAny(obs, ";\n"); i >= 0 {
		obs = obs[:i]
	}
	return clip(obs, 60)
}
