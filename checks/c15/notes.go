package main

import (
	"fmt"

	"github.com/d5/tengo/v2"
	"verif/engine/report"
	"verif/engine/val"
)

// noteObservations records behaviour the documentation does not decide. These
// are measurements for the evidence, never verdicts.
func noteObservations(r *report.Run) {
	defer func() {
		if p := recover(); p != nil {
			r.Note("observation phase panicked: %v", p)
		}
	}()
	// Variable.Object(): godoc says "a copy of an actual Object used in the script"
	s := tengo.NewScript([]byte("out := 0"))
	_ = s.Add("v", []interface{}{1})
	if c, err := s.Compile(); err == nil {
		a, b := c.Get("v").Object(), c.Get("v").Object()
		r.Note("outside the property: Variable.Object() returns the script's own object (same pointer on two Get calls: %v) although its godoc says 'a copy of an actual Object used in the script'", a == b)
	}
	// accessors on the immutable variants (not rows of the coercion table)
	s = tengo.NewScript([]byte("out := 0"))
	_ = s.Add("v", &tengo.ImmutableArray{Value: []tengo.Object{&tengo.Int{Value: 1}}})
	_ = s.Add("w", &tengo.ImmutableMap{Value: map[string]tengo.Object{"k": &tengo.Int{Value: 1}}})
	if c, err := s.Compile(); err == nil {
		r.Note("doc-silent: Variable.Array() of an immutable-array = %s, Variable.Map() of an immutable-map = %s, while Value() gives %s / %s",
			renderGo(c.Get("v").Array(), true), renderGo(c.Get("w").Map(), true), renderGo(c.Get("v").Value(), true), renderGo(c.Get("w").Value(), true))
	}
	// CallableFunc: accepted by FromInterface, absent from the documented table
	o, err := tengo.FromInterface(tengo.CallableFunc(func(args ...tengo.Object) (tengo.Object, error) { return nil, nil }))
	r.Note("doc-silent: FromInterface(CallableFunc) = %s err=%v (kind not in the table of docs/interoperability.md)", val.Snapshot(o), err)
	_ = fmt.Sprint
}
