package main

// Reference model of the Script / Compiled API (part 1), written from
// docs/interoperability.md, the godoc of script.go and the language docs:
//
//	Script            = map name -> value ("variables")
//	Compile           = snapshot: globals := the variables (same objects, Go
//	                    reference semantics) + the names the script defines;
//	                    error if a used name is undefined ("unresolved
//	                    reference") or a name defined with := already exists
//	                    ("redeclared in this block")
//	Run / c.Run       = the script's statement executed on the globals
//	Set(n,v)          = error iff n is not a global of that Compiled; else the
//	                    slot is replaced (never the Script's variables, never
//	                    another Compiled's slot)
//	Get / IsDefined / GetAll = pure observers
//	Clone             = deep copy of every global
//
// Model values carry pointer identity for the mutable containers (array,
// map), so sharing is part of the model state.

import (
	"sort"
	"strconv"
	"strings"

	"github.com/d5/tengo/v2"
)

type mv struct {
	k  byte // 'u' undefined, 'i' int, 's' string, 'a' array, 'm' map, 'f' the builtin function len
	i  int64
	s  string
	el []*mv
	mp map[string]*mv
}

var mUndef = &mv{k: 'u'}

// mBuiltinLen: what the identifier `len` denotes when the host has not added a
// variable of that name (docs/builtins.md).
var mBuiltinLen = &mv{k: 'f'}

var builtinLenObj = func() tengo.Object {
	for _, f := range tengo.GetAllBuiltinFunctions() {
		if f.Name == "len" {
			return f
		}
	}
	return nil
}()

func mInt(n int64) *mv { return &mv{k: 'i', i: n} }

// fromGoModel: docs/interoperability.md conversion table, restricted to the
// part-1 value alphabet.
func fromGoModel(v string) *mv {
	switch v {
	case "nil":
		return mUndef
	case "1":
		return mInt(1)
	case "s":
		return &mv{k: 's', s: "s"}
	case "arr":
		return &mv{k: 'a', el: []*mv{mInt(1)}}
	case "map":
		return &mv{k: 'm', mp: map[string]*mv{"k": mInt(2)}}
	case "emap": // an empty Go map: a fresh empty Map on every conversion
		return &mv{k: 'm', mp: map[string]*mv{}}
	case "earr": // an empty Go slice: a fresh empty Array on every conversion
		return &mv{k: 'a'}
	}
	panic("model: unknown value " + v)
}

func (v *mv) deepCopy() *mv {
	if v == nil {
		return nil
	}
	switch v.k {
	case 'a':
		c := &mv{k: 'a', el: make([]*mv, len(v.el))}
		for i, e := range v.el {
			c.el[i] = e.deepCopy()
		}
		return c
	case 'm':
		c := &mv{k: 'm', mp: map[string]*mv{}}
		for k, e := range v.mp {
			c.mp[k] = e.deepCopy()
		}
		return c
	}
	return v
}

func (v *mv) typeName() string {
	switch v.k {
	case 'u':
		return "undefined"
	case 'i':
		return "int"
	case 's':
		return "string"
	case 'a':
		return "array"
	case 'm':
		return "map"
	case 'f':
		return "builtin-function:len"
	}
	return "?"
}

// toObj builds the Tengo object the model value stands for (struct literals
// only; used to obtain the val.Snapshot text of the expectation).
func (v *mv) toObj() tengo.Object {
	switch v.k {
	case 'u':
		return tengo.UndefinedValue
	case 'f':
		return builtinLenObj
	case 'i':
		return &tengo.Int{Value: v.i}
	case 's':
		return &tengo.String{Value: v.s}
	case 'a':
		a := &tengo.Array{Value: make([]tengo.Object, len(v.el))}
		for i, e := range v.el {
			a.Value[i] = e.toObj()
		}
		return a
	case 'm':
		m := &tengo.Map{Value: map[string]tengo.Object{}}
		for k, e := range v.mp {
			m.Value[k] = e.toObj()
		}
		return m
	}
	return nil
}

// goRender: the Go value Variable.Value() is expected to return, in the
// grammar of renderGo.
func (v *mv) goRender() string {
	switch v.k {
	case 'u':
		return "nil"
	case 'f':
		return "object:func/builtin:len" // no Go counterpart: the object itself
	case 'i':
		return "int64:" + strconv.FormatInt(v.i, 10)
	case 's':
		return "string:" + strconv.Quote(v.s)
	case 'a':
		var sb strings.Builder
		sb.WriteString("[]interface{}[")
		for i, e := range v.el {
			if i > 0 {
				sb.WriteString(",")
			}
			sb.WriteString(e.goRender())
		}
		sb.WriteString("]")
		return sb.String()
	case 'm':
		keys := make([]string, 0, len(v.mp))
		for k := range v.mp {
			keys = append(keys, k)
		}
		sort.Strings(keys)
		var sb strings.Builder
		sb.WriteString("map[string]interface{}{")
		for i, k := range keys {
			if i > 0 {
				sb.WriteString(",")
			}
			sb.WriteString(strconv.Quote(k) + ":" + v.mp[k].goRender())
		}
		sb.WriteString("}")
		return sb.String()
	}
	return "?"
}

// canon renders with container identities (ids != nil) or purely structurally.
func (v *mv) canon(sb *strings.Builder, ids map[*mv]int) {
	if v == nil {
		sb.WriteString("u")
		return
	}
	switch v.k {
	case 'u':
		sb.WriteString("u")
	case 'f':
		sb.WriteString("f:len")
	case 'i':
		sb.WriteString("i" + strconv.FormatInt(v.i, 10))
	case 's':
		sb.WriteString("s" + strconv.Quote(v.s))
	case 'a':
		if ids != nil {
			if id, ok := ids[v]; ok {
				sb.WriteString("#" + strconv.Itoa(id))
				return
			}
			ids[v] = len(ids) + 1
			sb.WriteString("A" + strconv.Itoa(ids[v]))
		} else {
			sb.WriteString("A")
		}
		sb.WriteString("[")
		for i, e := range v.el {
			if i > 0 {
				sb.WriteString(",")
			}
			e.canon(sb, ids)
		}
		sb.WriteString("]")
	case 'm':
		if ids != nil {
			if id, ok := ids[v]; ok {
				sb.WriteString("#" + strconv.Itoa(id))
				return
			}
			ids[v] = len(ids) + 1
			sb.WriteString("M" + strconv.Itoa(ids[v]))
		} else {
			sb.WriteString("M")
		}
		keys := make([]string, 0, len(v.mp))
		for k := range v.mp {
			keys = append(keys, k)
		}
		sort.Strings(keys)
		sb.WriteString("{")
		for i, k := range keys {
			if i > 0 {
				sb.WriteString(",")
			}
			sb.WriteString(strconv.Quote(k) + ":")
			v.mp[k].canon(sb, ids)
		}
		sb.WriteString("}")
	}
}

// ---- scripts -----------------------------------------------------------------

type scriptDef struct {
	Src  string
	Uses []string // names that must resolve at compile time
	Defs []string // names introduced with := (must not pre-exist)
}

var scripts = []scriptDef{
	{"out := a", []string{"a"}, []string{"out"}},
	{"out := a + 1", []string{"a"}, []string{"out"}},
	{"a = [a]", []string{"a"}, nil},
	{"out := undefined", nil, []string{"out"}},
	{"a[0] = 7", []string{"a"}, nil}, // in-place write: makes container sharing observable
	// reads a name that is also a builtin function: the host's variable if one
	// was added before Compile (it shadows the builtin), else the builtin
	{"out := len", nil, []string{"out"}},
	// writes a NEW key / element into a host-supplied container in place
	{"a.n = 1", []string{"a"}, nil},
	{"splice(a, 0, 0, 7)", []string{"a"}, nil},
}

func scriptIndex(src string) int {
	for i, s := range scripts {
		if s.Src == src {
			return i
		}
	}
	return -1
}

// ---- model state ---------------------------------------------------------------

type mobj struct {
	g map[string]*mv // key present = global declared at compile time; nil = never assigned
}

type model struct {
	si   int
	vars map[string]*mv
	objs []*mobj
	ran  bool // some Compiled has been executed in this history
	cap  int
}

func newModel(si, capObjs int) *model {
	return &model{si: si, vars: map[string]*mv{}, cap: capObjs}
}

func (m *model) keep(o *mobj) {
	if len(m.objs) < m.cap {
		m.objs = append(m.objs, o)
	}
}

func (m *model) compile() (*mobj, bool) {
	sd := scripts[m.si]
	for _, u := range sd.Uses {
		if _, ok := m.vars[u]; !ok {
			return nil, false
		}
	}
	for _, d := range sd.Defs {
		if _, ok := m.vars[d]; ok {
			return nil, false
		}
	}
	o := &mobj{g: map[string]*mv{}}
	for n, v := range m.vars {
		o.g[n] = v // the very object: reference semantics
	}
	for _, d := range sd.Defs {
		o.g[d] = nil
	}
	return o, true
}

func gval(o *mobj, n string) *mv {
	if v := o.g[n]; v != nil {
		return v
	}
	return mUndef
}

// exec runs the script on the globals; false = run-time error (globals unchanged).
func (m *model) exec(o *mobj) bool {
	switch m.si {
	case 0: // out := a
		o.g["out"] = gval(o, "a")
	case 1: // out := a + 1
		a := gval(o, "a")
		switch a.k {
		case 'i':
			o.g["out"] = mInt(a.i + 1)
		case 's':
			o.g["out"] = &mv{k: 's', s: a.s + "1"} // string + x appends x's text (docs/operators.md)
		default:
			return false
		}
	case 2: // a = [a]
		o.g["a"] = &mv{k: 'a', el: []*mv{gval(o, "a")}}
	case 3: // out := undefined
		o.g["out"] = mUndef
	case 4: // a[0] = 7
		a := gval(o, "a")
		if a.k != 'a' || len(a.el) == 0 {
			return false
		}
		a.el[0] = mInt(7)
	case 6: // a.n = 1 (docs/tengo.md: maps are index-assignable by name; arrays only by int)
		a := gval(o, "a")
		if a.k != 'm' {
			return false
		}
		a.mp["n"] = mInt(1)
	case 7: // splice(a, 0, 0, 7): docs/builtins.md, inserts in place; non-arrays are an error
		a := gval(o, "a")
		if a.k != 'a' {
			return false
		}
		a.el = append([]*mv{mInt(7)}, a.el...)
	case 5: // out := len
		if _, declared := o.g["len"]; declared {
			o.g["out"] = gval(o, "len")
		} else {
			o.g["out"] = mBuiltinLen
		}
	}
	return true
}

func (m *model) varObs(name string, v *mv) string {
	return "name=" + name + " obj=" + snapshotOf(v) + " val=" + v.goRender() +
		" undef=" + strconv.FormatBool(v.k == 'u') + " type=" + v.typeName()
}

func (m *model) isDefined(o *mobj, n string) bool {
	v, ok := o.g[n]
	return ok && v != nil && v.k != 'u'
}

// do applies op to the model and returns the expected observation.
func (m *model) do(op Op) string {
	switch op.K {
	case "add":
		m.vars[op.N] = fromGoModel(op.V)
		return "err=none"
	case "remove":
		_, ok := m.vars[op.N]
		delete(m.vars, op.N)
		return "ok=" + strconv.FormatBool(ok)
	case "compile":
		o, ok := m.compile()
		if !ok {
			return "err=compile obj=false"
		}
		m.keep(o)
		return "err=none obj=true"
	case "run":
		o, ok := m.compile()
		if !ok {
			return "err=compile obj=false"
		}
		okRun := m.exec(o)
		m.keep(o)
		if len(m.objs) > 0 {
			m.ran = true
		}
		if !okRun {
			return "err=runtime obj=true"
		}
		return "err=none obj=true"
	}
	o := m.objs[op.Obj]
	switch op.K {
	case "crun", "crunctx":
		ok := m.exec(o)
		m.ran = true
		if !ok {
			return "err=runtime"
		}
		return "err=none"
	case "cset":
		if _, ok := o.g[op.N]; !ok {
			return "err=undeclared"
		}
		o.g[op.N] = fromGoModel(op.V)
		return "err=none"
	case "cget":
		return m.varObs(op.N, gval(o, op.N))
	case "cgetall":
		names := make([]string, 0, len(o.g))
		for n := range o.g {
			names = append(names, n)
		}
		sort.Strings(names)
		parts := make([]string, 0, len(names))
		for _, n := range names {
			parts = append(parts, m.varObs(n, gval(o, n)))
		}
		return "[" + strings.Join(parts, "; ") + "]"
	case "cisdef":
		return "defined=" + strconv.FormatBool(m.isDefined(o, op.N))
	case "cclone":
		c := &mobj{g: map[string]*mv{}}
		for n, v := range o.g {
			c.g[n] = v.deepCopy()
		}
		m.keep(c)
		return "obj=true"
	}
	panic("model: unknown op " + op.K)
}

// canon renders the whole model state; components separated by '|':
// header, V{...}, C0{...}, C1{...} ...
func (m *model) canon(withIDs bool) []string {
	var ids map[*mv]int
	if withIDs {
		ids = map[*mv]int{}
	}
	comps := []string{"S" + strconv.Itoa(m.si) + ",ran=" + strconv.FormatBool(m.ran)}
	render := func(tag string, g map[string]*mv) string {
		names := make([]string, 0, len(g))
		for n := range g {
			names = append(names, n)
		}
		sort.Strings(names)
		var sb strings.Builder
		sb.WriteString(tag + "{")
		for i, n := range names {
			if i > 0 {
				sb.WriteString(",")
			}
			sb.WriteString(n + "=")
			g[n].canon(&sb, ids)
		}
		sb.WriteString("}")
		return sb.String()
	}
	comps = append(comps, render("V", m.vars))
	for i, o := range m.objs {
		comps = append(comps, render("C"+strconv.Itoa(i), o.g))
	}
	return comps
}
