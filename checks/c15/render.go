package main

import (
	"fmt"
	"math"
	"reflect"
	"sort"
	"strconv"
	"strings"
	"time"
	"unsafe"

	"github.com/d5/tengo/v2"
	"verif/engine/val"
)

func snapshotOf(v *mv) string { return val.Snapshot(v.toObj()) }

// renderGo renders a Go value (as returned by ToInterface / Variable.Value /
// Eval) canonically: explicit Go type tags, sorted map keys, float bits, nil
// and empty containers alike. errText=false hides error messages (the text of
// an error read back from an Error object is not documented).
func renderGo(v interface{}, errText bool) string {
	var sb strings.Builder
	rgo(&sb, v, errText, 0)
	return sb.String()
}

func rgo(sb *strings.Builder, v interface{}, errText bool, depth int) {
	if depth > 32 {
		sb.WriteString("<deep>")
		return
	}
	switch x := v.(type) {
	case nil:
		sb.WriteString("nil")
	case tengo.Object: // before error: no Tengo object implements error, but be explicit
		sb.WriteString("object:" + val.Snapshot(x))
	case int64:
		sb.WriteString("int64:" + strconv.FormatInt(x, 10))
	case int:
		sb.WriteString("int:" + strconv.Itoa(x))
	case string:
		sb.WriteString("string:" + strconv.Quote(x))
	case float64:
		if math.IsNaN(x) {
			sb.WriteString("float64:NaN")
		} else {
			sb.WriteString("float64:" + strconv.FormatUint(math.Float64bits(x), 16))
		}
	case bool:
		sb.WriteString("bool:" + strconv.FormatBool(x))
	case int32:
		sb.WriteString("int32:" + strconv.FormatInt(int64(x), 10))
	case []byte:
		sb.WriteString("[]byte:" + strconv.Quote(string(x)))
	case time.Time:
		name, off := x.Zone()
		sb.WriteString("time:" + strconv.FormatInt(x.Unix(), 10) + "." + strconv.Itoa(x.Nanosecond()) + "@" + name + "/" + strconv.Itoa(off))
	case error:
		if errText {
			sb.WriteString("error:" + strconv.Quote(x.Error()))
		} else {
			sb.WriteString("error")
		}
	case []interface{}:
		sb.WriteString("[]interface{}[")
		for i, e := range x {
			if i > 0 {
				sb.WriteString(",")
			}
			rgo(sb, e, errText, depth+1)
		}
		sb.WriteString("]")
	case map[string]interface{}:
		keys := make([]string, 0, len(x))
		for k := range x {
			keys = append(keys, k)
		}
		sort.Strings(keys)
		sb.WriteString("map[string]interface{}{")
		for i, k := range keys {
			if i > 0 {
				sb.WriteString(",")
			}
			sb.WriteString(strconv.Quote(k) + ":")
			rgo(sb, x[k], errText, depth+1)
		}
		sb.WriteString("}")
	default:
		sb.WriteString(fmt.Sprintf("<%T>", v))
	}
}

// canonObj renders a real Tengo object in the grammar of mv.canon.
func canonObj(sb *strings.Builder, o tengo.Object, ids map[interface{}]int, depth int) {
	if depth > 32 {
		sb.WriteString("<deep>")
		return
	}
	switch x := o.(type) {
	case nil:
		sb.WriteString("u")
	case *tengo.Undefined:
		sb.WriteString("u")
	case *tengo.Int:
		sb.WriteString("i" + strconv.FormatInt(x.Value, 10))
	case *tengo.String:
		sb.WriteString("s" + strconv.Quote(x.Value))
	case *tengo.BuiltinFunction:
		sb.WriteString("f:" + x.Name)
	case *tengo.Array:
		if ids != nil {
			if id, ok := ids[x]; ok {
				sb.WriteString("#" + strconv.Itoa(id))
				return
			}
			ids[x] = len(ids) + 1
			sb.WriteString("A" + strconv.Itoa(ids[x]))
		} else {
			sb.WriteString("A")
		}
		sb.WriteString("[")
		for i, e := range x.Value {
			if i > 0 {
				sb.WriteString(",")
			}
			canonObj(sb, e, ids, depth+1)
		}
		sb.WriteString("]")
	case *tengo.Map:
		if ids != nil {
			if id, ok := ids[x]; ok {
				sb.WriteString("#" + strconv.Itoa(id))
				return
			}
			ids[x] = len(ids) + 1
			sb.WriteString("M" + strconv.Itoa(ids[x]))
		} else {
			sb.WriteString("M")
		}
		keys := make([]string, 0, len(x.Value))
		for k := range x.Value {
			keys = append(keys, k)
		}
		sort.Strings(keys)
		sb.WriteString("{")
		for i, k := range keys {
			if i > 0 {
				sb.WriteString(",")
			}
			sb.WriteString(strconv.Quote(k) + ":")
			canonObj(sb, x.Value[k], ids, depth+1)
		}
		sb.WriteString("}")
	default:
		sb.WriteString("<" + val.Snapshot(o) + ">")
	}
}

// scriptVars reads the Script's variable table. The table has no accessor in
// the API (it is only observable through a later Compile), so the harness
// reads the unexported field; ok=false when the field cannot be found, in
// which case the caller falls back to API-only observation.
func scriptVars(s *tengo.Script) (map[string]tengo.Object, bool) {
	rv := reflect.ValueOf(s).Elem().FieldByName("variables")
	if !rv.IsValid() || rv.Kind() != reflect.Map {
		return nil, false
	}
	iv := reflect.NewAt(rv.Type(), unsafe.Pointer(rv.UnsafeAddr())).Elem().Interface()
	m, ok := iv.(map[string]*tengo.Variable)
	if !ok {
		return nil, false
	}
	out := make(map[string]tengo.Object, len(m))
	for k, v := range m {
		if v == nil {
			out[k] = nil
			continue
		}
		out[k] = v.Object()
	}
	return out, true
}
