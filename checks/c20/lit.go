package main

// Part (c): literals. Every spelling over the alphabets below is given to the
// real parser as a one-statement program and to go/scanner. Oracle: the
// spelling is ONE int/float/char/string literal for Tengo iff it is one
// INT/FLOAT/CHAR/STRING token without error for Go (and, for numbers, the
// value fits Tengo's type: int64 / finite float64); the value is Go's.

import (
	"fmt"
	"go/constant"
	goscanner "go/scanner"
	gotoken "go/token"
	"math"
	"strconv"
	"strings"
	"sync/atomic"

	"github.com/d5/tengo/v2/parser"
)

var nGoScan atomic.Int64

const numAlphabet = "0178 9afxob_.ep+-" // the space is removed below; kept readable
var numSyms = []byte(strings.ReplaceAll(numAlphabet, " ", ""))

var quotedSyms = []string{"a", `"`, "'", `\`, "n", "x", "u", "U", "0", "1", "7", "8", "f", "{", "}", "世"}

// goLit scans src with go/scanner. ok: src is exactly one token of kind
// INT/FLOAT/CHAR/STRING (followed only by the automatic semicolon and EOF)
// and the scanner reported no error.
func goLit(src string) (tok gotoken.Token, ok bool) {
	nGoScan.Add(1)
	fset := gotoken.NewFileSet()
	file := fset.AddFile("", fset.Base(), len(src))
	var s goscanner.Scanner
	errs := 0
	s.Init(file, []byte(src), func(gotoken.Position, string) { errs++ }, 0)
	_, t1, l1 := s.Scan()
	switch t1 {
	case gotoken.INT, gotoken.FLOAT, gotoken.CHAR, gotoken.STRING:
	default:
		return t1, false
	}
	if l1 != src {
		return t1, false
	}
	_, t2, l2 := s.Scan()
	if t2 != gotoken.SEMICOLON || l2 != "\n" {
		return t1, false
	}
	_, t3, _ := s.Scan()
	if t3 != gotoken.EOF || errs != 0 || s.ErrorCount != 0 {
		return t1, false
	}
	return t1, true
}

// tengoLit parses src as a program. kind: "int" | "float" | "char" |
// "string" when the program is exactly one expression statement consisting of
// that literal spelled src; "" otherwise (parse error, several tokens, ...).
func tengoLit(src string) (kind string, iv int64, fv float64, sv string, why string) {
	f, _, err := parseSrc(src)
	if err != nil {
		return "", 0, 0, "", firstLine(err.Error())
	}
	var stmts []parser.Stmt
	for _, s := range f.Stmts {
		if _, e := s.(*parser.EmptyStmt); !e {
			stmts = append(stmts, s)
		}
	}
	if len(stmts) != 1 {
		return "", 0, 0, "", fmt.Sprintf("%d statements", len(stmts))
	}
	es, ok := stmts[0].(*parser.ExprStmt)
	if !ok {
		return "", 0, 0, "", typeName(stmts[0])
	}
	switch x := es.Expr.(type) {
	case *parser.IntLit:
		if x.Literal == src {
			return "int", x.Value, 0, "", ""
		}
	case *parser.FloatLit:
		if x.Literal == src {
			return "float", 0, x.Value, "", ""
		}
	case *parser.CharLit:
		if x.Literal == src {
			return "char", int64(x.Value), 0, "", ""
		}
	case *parser.StringLit:
		if x.Literal == src {
			return "string", 0, 0, x.Value, ""
		}
	}
	return "", 0, 0, "", "parses as " + typeName(es.Expr)
}

func numShape(s string) string {
	low := strings.ToLower(s)
	pfx := ""
	if len(low) >= 2 && low[0] == '0' {
		switch low[1] {
		case 'x', 'o', 'b':
			pfx = low[:2]
		}
	}
	switch {
	case strings.Contains(s, "_"):
		return "underscore"
	case pfx == "0x" && strings.ContainsAny(low, ".p"):
		return "hex-float"
	case pfx == "0x":
		return "hex-int"
	case pfx == "0o":
		return "octal-0o"
	case pfx == "0b":
		return "binary"
	case strings.ContainsAny(low, ".ep"):
		return "decimal-float"
	case len(s) > 1 && s[0] == '0':
		return "legacy-octal"
	case s != "" && s[0] >= '0' && s[0] <= '9':
		return "decimal-int"
	}
	return "not-a-number"
}

func quotedShape(s string) string {
	if s == "" {
		return "empty"
	}
	body := s[1:]
	if s[0] == '`' {
		return "raw"
	}
	i := strings.IndexByte(body, '\\')
	if i < 0 || i+1 >= len(body) {
		for _, r := range body {
			if r >= 0x80 {
				return "multi-byte"
			}
		}
		return "plain"
	}
	switch c := body[i+1]; {
	case c == 'x':
		return "escape-x"
	case c == 'u':
		return "escape-u"
	case c == 'U':
		return "escape-U"
	case c >= '0' && c <= '7':
		return "escape-octal"
	case c == '\'' || c == '"':
		return "escape-quote"
	}
	return "escape-other"
}

type litObs struct {
	class    string
	goAccept bool
}

// runNum checks one number spelling.
func runNum(src string) (fails []fail, obs litObs) {
	gtok, gok := goLit(src)
	gkind := ""
	var wantI int64
	var wantF float64
	if gok {
		v := constant.MakeFromLiteral(src, gtok, 0)
		switch gtok {
		case gotoken.INT:
			i, exact := constant.Int64Val(v)
			if v.Kind() == constant.Int && exact {
				gkind, wantI = "int", i
			} else {
				gok = false // a valid Go literal, but not an int64: Tengo's int cannot hold it
				obs.class = "go-int-overflows-int64/"
			}
		case gotoken.FLOAT:
			f, _ := constant.Float64Val(v)
			if math.IsInf(f, 0) {
				gok = false // not a float64 value (Go rejects it for float64 too)
				obs.class = "go-float-overflows-float64/"
			} else {
				gkind, wantF = "float", f
				if pf, err := strconv.ParseFloat(src, 64); err != nil || math.Float64bits(pf) != math.Float64bits(f) {
					obs.class = "go-constant-vs-strconv-differ/"
				}
			}
		default:
			gok = false
		}
	}
	tkind, ti, tf, _, why := tengoLit(src)
	if tkind != "int" && tkind != "float" {
		tkind = ""
	}
	obs.goAccept = gok
	shape := numShape(src)
	switch {
	case gok && tkind == "":
		fails = append(fails, fail{"lit/" + gkind + "/accept-mismatch/" + shape,
			fmt.Sprintf("%q is the Go %s literal %v but Tengo does not take it as one literal (%s)", src, gkind, valStr(gkind, wantI, wantF), why)})
		obs.class += "go-only"
	case !gok && tkind != "":
		fails = append(fails, fail{"lit/" + tkind + "/accept-mismatch/" + shape,
			fmt.Sprintf("%q is not a valid Go literal (go/scanner: %s) but Tengo accepts it as %s %v", src, gtok, tkind, valStr(tkind, ti, tf))})
		obs.class += "tengo-only"
	case !gok:
		obs.class += "both-reject"
	case gkind != tkind:
		fails = append(fails, fail{"lit/" + gkind + "/value-mismatch/" + shape,
			fmt.Sprintf("%q is a Go %s literal but a Tengo %s literal", src, gkind, tkind)})
		obs.class += "kind-differs"
	case gkind == "int" && ti != wantI, gkind == "float" && math.Float64bits(tf) != math.Float64bits(wantF):
		fails = append(fails, fail{"lit/" + gkind + "/value-mismatch/" + shape,
			fmt.Sprintf("%q denotes %v in Go but %v in Tengo", src, valStr(gkind, wantI, wantF), valStr(tkind, ti, tf))})
		obs.class += "value-differs"
	default:
		obs.class += "accept-" + gkind + "/" + shape
	}
	return
}

func valStr(kind string, i int64, f float64) string {
	if kind == "float" {
		return strconv.FormatFloat(f, 'g', -1, 64)
	}
	return strconv.FormatInt(i, 10)
}

// runQuoted checks one char / string / raw-string spelling.
func runQuoted(src string) (fails []fail, obs litObs) {
	gtok, gok := goLit(src)
	gkind := ""
	var wantS string
	var wantC int64
	if gok {
		switch gtok {
		case gotoken.CHAR:
			gkind = "char"
			r, _, tail, err := strconv.UnquoteChar(src[1:len(src)-1], '\'')
			if err != nil || tail != "" {
				return []fail{{"internal/go-oracle", "go/scanner accepted " + src + " but strconv.UnquoteChar did not"}}, litObs{class: "internal"}
			}
			wantC = int64(r)
		case gotoken.STRING:
			gkind = "string"
			u, err := strconv.Unquote(src)
			if err != nil {
				return []fail{{"internal/go-oracle", "go/scanner accepted " + src + " but strconv.Unquote did not"}}, litObs{class: "internal"}
			}
			wantS = u
		default:
			gok = false
		}
	}
	tkind, ti, _, ts, why := tengoLit(src)
	if tkind != "char" && tkind != "string" {
		tkind = ""
	}
	obs.goAccept = gok
	shape := quotedShape(src)
	switch {
	case gok && tkind == "":
		fails = append(fails, fail{"lit/" + gkind + "/accept-mismatch/" + shape,
			fmt.Sprintf("%s is a valid Go %s literal but Tengo does not take it as one literal (%s)", src, gkind, why)})
		obs.class = "go-only"
	case !gok && tkind != "":
		fails = append(fails, fail{"lit/" + tkind + "/accept-mismatch/" + shape,
			fmt.Sprintf("%s is not a valid Go literal but Tengo accepts it as a %s literal", src, tkind)})
		obs.class = "tengo-only"
	case !gok:
		obs.class = "both-reject"
	case gkind != tkind:
		fails = append(fails, fail{"lit/" + gkind + "/value-mismatch/" + shape, fmt.Sprintf("%s: Go %s, Tengo %s", src, gkind, tkind)})
		obs.class = "kind-differs"
	case gkind == "char" && ti != wantC:
		fails = append(fails, fail{"lit/char/value-mismatch/" + shape, fmt.Sprintf("%s denotes %d in Go but %d in Tengo", src, wantC, ti)})
		obs.class = "value-differs"
	case gkind == "string" && ts != wantS:
		fails = append(fails, fail{"lit/string/value-mismatch/" + shape, fmt.Sprintf("%s denotes %q in Go but %q in Tengo", src, wantS, ts)})
		obs.class = "value-differs"
	default:
		obs.class = "accept-" + gkind + "/" + shape
	}
	return
}

// ---- enumeration by index ------------------------------------------------------

// numSpelling returns the idx-th spelling (0-based) of all spellings of
// length 1..maxLen over numSyms, shorter ones first.
func numSpelling(idx int64, maxLen int) string {
	k := int64(len(numSyms))
	n := k
	for l := 1; l <= maxLen; l++ {
		if idx < n {
			b := make([]byte, l)
			for i := l - 1; i >= 0; i-- {
				b[i] = numSyms[idx%k]
				idx /= k
			}
			return string(b)
		}
		idx -= n
		n *= k
	}
	panic("numSpelling: index out of range")
}

func numCount(maxLen int) int64 {
	k := int64(len(numSyms))
	var tot, n int64 = 0, k
	for l := 1; l <= maxLen; l++ {
		tot += n
		n *= k
	}
	return tot
}

var quotes = []string{"'", `"`, "`"}

func quotedCount(maxLen int) int64 {
	k := int64(len(quotedSyms))
	var tot, n int64 = 0, 1
	for l := 0; l <= maxLen; l++ {
		tot += n
		n *= k
	}
	return tot * int64(len(quotes))
}

func quotedSpelling(idx int64, maxLen int) string {
	q := quotes[idx%int64(len(quotes))]
	idx /= int64(len(quotes))
	k := int64(len(quotedSyms))
	n := int64(1)
	for l := 0; l <= maxLen; l++ {
		if idx < n {
			parts := make([]string, l)
			for i := l - 1; i >= 0; i-- {
				parts[i] = quotedSyms[idx%k]
				idx /= k
			}
			return q + strings.Join(parts, "") + q
		}
		idx -= n
		n *= k
	}
	panic("quotedSpelling: index out of range")
}

// Complete numeric escapes are longer than the flat bound reaches (\u needs a
// body of 6, \U of 10): a structured family enumerates them exhaustively over
// a digit alphabet that contains the boundary digits (surrogates d800-dfff and their neighbours d7ff / e000,
// 0010ffff/00110000, \400, non-hex 'g').
type escFamily struct {
	prefix string
	n      int
	digits string
}

func escFamilies(thorough bool) []escFamily {
	u8 := "01def"
	if thorough {
		u8 = "01d8ef"
	}
	return []escFamily{
		{`\x`, 2, "0179adDfFg"},
		{`\u`, 4, "0178dDeEfFg"},
		{`\U`, 8, u8},
		{`\`, 3, "013478"},
	}
}

func ipow(b, e int) int64 {
	r := int64(1)
	for i := 0; i < e; i++ {
		r *= int64(b)
	}
	return r
}

func escCount(thorough bool) int64 {
	var tot int64
	for _, f := range escFamilies(thorough) {
		tot += ipow(len(f.digits), f.n) * 2
	}
	return tot
}

func escSpelling(idx int64, thorough bool) string {
	for _, f := range escFamilies(thorough) {
		n := ipow(len(f.digits), f.n) * 2
		if idx < n {
			q := quotes[idx%2]
			idx /= 2
			b := make([]byte, f.n)
			k := int64(len(f.digits))
			for i := f.n - 1; i >= 0; i-- {
				b[i] = f.digits[idx%k]
				idx /= k
			}
			return q + f.prefix + string(b) + q
		}
		idx -= n
	}
	panic("escSpelling: index out of range")
}

// boundaryNums: spellings at the edges of int64 / float64 that no length
// bound reaches: the largest representable value and its successor in every
// base (with and without digit separators), overflow / underflow / rounding
// boundaries of decimal and hexadecimal floats.
func boundaryNums() []string {
	out := []string{
		"9223372036854775807", "9223372036854775808", "9_223_372_036_854_775_807", "9_223_372_036_854_775_808",
		"0x7fffffffffffffff", "0x8000000000000000", "0X7FFF_FFFF_FFFF_FFFF", "0xffffffffffffffff", "0x10000000000000000",
		"0777777777777777777777", "01000000000000000000000", "0o777777777777777777777", "0o1000000000000000000000",
		"0b111111111111111111111111111111111111111111111111111111111111111",
		"0b1000000000000000000000000000000000000000000000000000000000000000",
		"18446744073709551615", "18446744073709551616", "99999999999999999999999999",
		"1.7976931348623157e308", "1.7976931348623158e308", "1.7976931348623159e308", "1.797693134862315807e308", "1.797693134862315808e308",
		"1e308", "1e309", "2e308", "1e999", "1e-323", "4.9e-324", "5e-324", "2.5e-324", "2.4e-324", "2.47e-324", "1e-400", "0e999", "0.0e-999",
		"0x1p1023", "0x1p1024", "0x1.fffffffffffffp1023", "0x1.fffffffffffff7p1023", "0x1.fffffffffffff8p1023", "0x1p-1074", "0x1p-1075", "0x1.8p-1075", "0x1p-1076", "0x1p-9999",
		"0x1.00000000000008p0", "0x1.00000000000018p0", "0x1.000000000000081p0", "0X1.8P+1", "0x_1.8p-1", "0x1_0.p0_1",
		"9007199254740993.0", "9007199254740992.5", "0.1", "0.30000000000000004", "123456789012345678901234567890.0",
		"179769313486231570814527423731704356798070567525844996598917476803157260780028538760589558632766878171540458953514382464234321326889464182768467546703537516986049910576551282076245490090389328944075868508455133942304583236903222948165808559332123348274797826204144723168738177180919299881250404026184124858368.0",
		"179769313486231580793728971405303415079934132710037826936173778980444968292764750946649017977587207096330286416692887910946555547851940402630657488671505820681908902000708383676273854845817711531764475730270069855571366959622842914819860834936475292719074168444365510704342711559699508093042880177904174497792.0",
	}
	return out
}
