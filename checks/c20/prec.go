package main

// Part (a): precedence / associativity. All expression trees with exactly n
// operator nodes are enumerated by index (count + unrank); the generator
// prints each tree with MINIMAL parentheses according to the documented
// precedence table (docs/tutorial.md "Operator Precedences") and the parsed
// AST must be the generator's tree.

import (
	"fmt"
	"strings"

	"github.com/d5/tengo/v2/parser"
)

// What the generator relies on when it omits parentheses.
const (
	// docs/tutorial.md gives the five levels but not the associativity inside
	// a level. Pinned to Go's rule ("binary operators of the same precedence
	// associate from left to right"): the tutorial's precedence paragraph and
	// table are Go's, and the property statement speaks of "documented
	// precedence and associativity". Reported under assoc/ (not prec/).
	claimBinaryLeftAssoc = true
	// Selector / index / call applied to an operand form a primary expression
	// that a preceding unary operator applies to as a whole (-a.s == -(a.s)),
	// as in Go; the tutorial lists only unary/binary/ternary in its hierarchy.
	claimPostfixOverUnary = true
)

const (
	kLeaf = iota
	kBin
	kUn
	kCond
	kCall
	kIndex
	kSel
	kOther
)

type opSpec struct {
	kind  int
	op    string // source spelling
	name  string // signature name
	arity int
	level int // documented binary level 1..5
}

var binOps = []opSpec{
	{kBin, "||", "lor", 2, 1},
	{kBin, "&&", "land", 2, 2},
	{kBin, "==", "eq", 2, 3}, {kBin, "!=", "ne", 2, 3}, {kBin, "<", "lt", 2, 3},
	{kBin, "<=", "le", 2, 3}, {kBin, ">", "gt", 2, 3}, {kBin, ">=", "ge", 2, 3},
	{kBin, "+", "add", 2, 4}, {kBin, "-", "sub", 2, 4}, {kBin, "|", "or", 2, 4}, {kBin, "^", "xor", 2, 4},
	{kBin, "*", "mul", 2, 5}, {kBin, "/", "quo", 2, 5}, {kBin, "%", "rem", 2, 5}, {kBin, "<<", "shl", 2, 5},
	{kBin, ">>", "shr", 2, 5}, {kBin, "&", "and", 2, 5}, {kBin, "&^", "andnot", 2, 5},
}

var otherOps = []opSpec{
	{kUn, "+", "pos", 1, 0}, {kUn, "-", "neg", 1, 0}, {kUn, "!", "not", 1, 0}, {kUn, "^", "compl", 1, 0},
	{kCond, "?:", "cond", 3, 0},
	{kCall, "()", "call", 2, 0}, {kIndex, "[]", "index", 2, 0}, {kSel, ".", "sel", 1, 0},
}

var fullOps = append(append([]opSpec{}, binOps...), otherOps...)

// reduced operator set for the deeper thorough bound: one binary operator per
// level (two for the levels whose members lex alike: & vs &^, + vs -), the
// unary operators that can collide lexically, ternary and the postfix forms.
var reducedOps = func() []opSpec {
	keep := map[string]bool{"lor": true, "land": true, "eq": true, "sub": true, "xor": true, "mul": true, "andnot": true,
		"neg": true, "compl": true, "cond": true, "call": true, "index": true, "sel": true}
	var out []opSpec
	for _, o := range fullOps {
		if keep[o.name] {
			out = append(out, o)
		}
	}
	return out
}()

var opOrder = func() map[string]int {
	m := map[string]int{}
	for i, o := range fullOps {
		m[o.name] = i
	}
	return m
}()

var binLevelByName = func() map[string]int {
	m := map[string]int{}
	for _, o := range binOps {
		m[o.name] = o.level
	}
	return m
}()

type node struct {
	k    int
	spec *opSpec
	kids []*node
	leaf string
}

var leafNames = []string{"a", "b", "c", "d", "1", "2"}

// space is the set of trees over an operator table, with counting tables.
type space struct {
	name string
	ops  []opSpec
	T    []int64   // T[n]: trees with n operators
	F    [][]int64 // F[a][m]: ordered a-tuples of trees with m operators in total
}

func newSpace(name string, ops []opSpec, maxN int) *space {
	s := &space{name: name, ops: ops}
	s.T = make([]int64, maxN+1)
	s.F = make([][]int64, 4)
	for a := range s.F {
		s.F[a] = make([]int64, maxN+1)
	}
	s.F[0][0] = 1
	for n := 0; n <= maxN; n++ {
		if n == 0 {
			s.T[0] = 1
		} else {
			var t int64
			for _, o := range ops {
				t += s.F[o.arity][n-1]
			}
			s.T[n] = t
		}
		// extend F[a][n] for a>=1 (needs T[0..n])
		for a := 1; a <= 3; a++ {
			var f int64
			for j := 0; j <= n; j++ {
				f += s.T[j] * s.F[a-1][n-j]
			}
			s.F[a][n] = f
		}
	}
	return s
}

func (s *space) unrank(n int, idx int64) *node {
	if n == 0 {
		return &node{k: kLeaf}
	}
	for i := range s.ops {
		o := &s.ops[i]
		blk := s.F[o.arity][n-1]
		if idx < blk {
			return &node{k: o.kind, spec: o, kids: s.unrankTuple(o.arity, n-1, idx)}
		}
		idx -= blk
	}
	panic("unrank: index out of range")
}

func (s *space) unrankTuple(a, m int, idx int64) []*node {
	if a == 0 {
		return nil
	}
	for j := 0; j <= m; j++ {
		rest := s.F[a-1][m-j]
		blk := s.T[j] * rest
		if idx < blk {
			first := s.unrank(j, idx/rest)
			return append([]*node{first}, s.unrankTuple(a-1, m-j, idx%rest)...)
		}
		idx -= blk
	}
	panic("unrankTuple: index out of range")
}

// label assigns leaf names in left-to-right order, cycling a b c d 1 2.
func label(n *node, next *int) {
	if n.k == kLeaf {
		n.leaf = leafNames[*next%len(leafNames)]
		*next++
		return
	}
	for _, c := range n.kids {
		label(c, next)
	}
}

func (n *node) prec() int {
	switch n.k {
	case kCond:
		return 0
	case kBin:
		return n.spec.level
	case kUn:
		return 6
	case kCall, kIndex, kSel:
		return 7
	}
	return 8
}

func paren(s string) string { return "(" + s + ")" }

// pr prints with minimal parentheses. Binary operators always get a space on
// both sides, unary operators none after them (except between two adjacent
// '+' or two adjacent '-', which would otherwise lex as ++ / --); `a & ^b` is
// therefore And, Xor and `a &^ b` is AndNot.
func pr(n *node) string {
	switch n.k {
	case kLeaf:
		return n.leaf
	case kBin:
		p := n.prec()
		l, r := n.kids[0], n.kids[1]
		ls := pr(l)
		if l.prec() < p || (l.prec() == p && !claimBinaryLeftAssoc) {
			ls = paren(ls)
		}
		rs := pr(r)
		if r.prec() <= p {
			rs = paren(rs)
		}
		return ls + " " + n.spec.op + " " + rs
	case kUn:
		x := n.kids[0]
		xs := pr(x)
		switch {
		case x.prec() < 6, x.prec() == 7 && !claimPostfixOverUnary:
			xs = paren(xs)
		case x.k == kUn && x.spec.op == n.spec.op && (n.spec.op == "+" || n.spec.op == "-"):
			xs = " " + xs
		}
		return n.spec.op + xs
	case kCond:
		c, t, f := n.kids[0], n.kids[1], n.kids[2]
		cs, ts, fs := pr(c), pr(t), pr(f)
		// the documentation does not say how `a ? b : c ? d : e` or a ternary
		// in condition position groups: never rely on it.
		if c.k == kCond {
			cs = paren(cs)
		}
		if f.k == kCond {
			fs = paren(fs)
		}
		return cs + " ? " + ts + " : " + fs
	case kCall, kIndex, kSel:
		b := n.kids[0]
		bs := pr(b)
		if b.prec() < 7 {
			bs = paren(bs)
		}
		switch n.k {
		case kCall:
			return bs + "(" + pr(n.kids[1]) + ")"
		case kIndex:
			return bs + "[" + pr(n.kids[1]) + "]"
		}
		if b.k == kLeaf && (b.leaf == "1" || b.leaf == "2") {
			return bs + " .s" // "1.s" would lex as the float "1." followed by s
		}
		return bs + ".s"
	}
	return "?"
}

func sexp(n *node) string {
	if n == nil {
		return "nil"
	}
	switch n.k {
	case kLeaf:
		return n.leaf
	case kOther:
		return "<" + n.leaf + ">"
	}
	var sb strings.Builder
	sb.WriteString("(" + opName(n))
	for _, c := range n.kids {
		sb.WriteString(" " + sexp(c))
	}
	sb.WriteString(")")
	return sb.String()
}

func opName(n *node) string {
	switch n.k {
	case kLeaf:
		return "leaf"
	case kOther:
		return "other"
	}
	return n.spec.name
}

func findOp(kind int, op string) *opSpec {
	for i := range fullOps {
		if fullOps[i].kind == kind && (fullOps[i].op == op || kind >= kCond) {
			return &fullOps[i]
		}
	}
	return nil
}

// fromAST converts a parsed expression into the generator's tree form
// (ParenExpr transparent).
func fromAST(e parser.Expr) *node {
	switch x := e.(type) {
	case *parser.ParenExpr:
		return fromAST(x.Expr)
	case *parser.Ident:
		return &node{k: kLeaf, leaf: x.Name}
	case *parser.IntLit:
		return &node{k: kLeaf, leaf: x.Literal}
	case *parser.BinaryExpr:
		if sp := findOp(kBin, x.Token.String()); sp != nil {
			return &node{k: kBin, spec: sp, kids: []*node{fromAST(x.LHS), fromAST(x.RHS)}}
		}
	case *parser.UnaryExpr:
		if sp := findOp(kUn, x.Token.String()); sp != nil {
			return &node{k: kUn, spec: sp, kids: []*node{fromAST(x.Expr)}}
		}
	case *parser.CondExpr:
		return &node{k: kCond, spec: findOp(kCond, ""), kids: []*node{fromAST(x.Cond), fromAST(x.True), fromAST(x.False)}}
	case *parser.CallExpr:
		if len(x.Args) == 1 && !x.Ellipsis.IsValid() {
			return &node{k: kCall, spec: findOp(kCall, ""), kids: []*node{fromAST(x.Func), fromAST(x.Args[0])}}
		}
	case *parser.IndexExpr:
		if x.Index != nil {
			return &node{k: kIndex, spec: findOp(kIndex, ""), kids: []*node{fromAST(x.Expr), fromAST(x.Index)}}
		}
	case *parser.SelectorExpr:
		if s, ok := x.Sel.(*parser.StringLit); ok && s.Value == "s" {
			return &node{k: kSel, spec: findOp(kSel, ""), kids: []*node{fromAST(x.Expr)}}
		}
	}
	return &node{k: kOther, leaf: fmt.Sprintf("%T", e)}
}

// firstDiff walks both trees in pre-order and returns the operators involved
// in the first structural difference.
func firstDiff(exp, got *node, parent string) (a, b string, differ bool) {
	same := exp.k == got.k && len(exp.kids) == len(got.kids) &&
		((exp.k == kLeaf && exp.leaf == got.leaf) || (exp.k != kLeaf && exp.k != kOther && exp.spec.name == got.spec.name))
	if !same {
		a, b = opName(exp), opName(got)
		if a == "leaf" || a == "other" {
			a = parent
		}
		if b == "leaf" || b == "other" {
			b = parent
		}
		if a == "" {
			a = "leaf"
		}
		if b == "" {
			b = "leaf"
		}
		return a, b, true
	}
	for i := range exp.kids {
		if a, b, d := firstDiff(exp.kids[i], got.kids[i], opName(exp)); d {
			return a, b, true
		}
	}
	return "", "", false
}

func groupingSig(a, b string) string {
	ia, oka := opOrder[a]
	ib, okb := opOrder[b]
	if oka && okb && ib < ia {
		a, b = b, a
	}
	la, lb := binLevelByName[a], binLevelByName[b]
	switch {
	case la > 0 && lb > 0 && la == lb:
		return "assoc/" + a + "-" + b
	case a == "cond" && b == "cond":
		return "assoc/cond-cond"
	}
	return "prec/" + a + "-" + b
}

// exprOfOut extracts E from a file consisting of `out := E`.
func exprOfOut(f *parser.File) parser.Expr {
	if f == nil || len(f.Stmts) != 1 {
		return nil
	}
	as, ok := f.Stmts[0].(*parser.AssignStmt)
	if !ok || len(as.RHS) != 1 || len(as.LHS) != 1 {
		return nil
	}
	return as.RHS[0]
}

type precResult struct {
	text   string
	expect string
	got    string
	fails  []fail
}

// build unranks tree idx and labels its leaves starting at position rot of
// the leaf cycle (rot 0: a b c d 1 2 ..., rot 4: 1 2 a b c d ...).
func (s *space) build(n int, idx int64, rot int) *node {
	t := s.unrank(n, idx)
	next := rot
	label(t, &next)
	return t
}

var leafRotations = []int{0, 4}

func spaceByName(name string) *space {
	if name == "reduced" {
		return newSpace("reduced", reducedOps, 6)
	}
	return newSpace("full", fullOps, 6)
}

// runPrec checks one tree: parse of the minimally parenthesised text equals
// the tree; the parser's own printed form parses back to the same tree.
func runPrec(s *space, n int, idx int64, rot int) precResult {
	t := s.build(n, idx, rot)
	res := precResult{text: "out := " + pr(t), expect: sexp(t)}
	f, _, err := parseSrc(res.text)
	if err != nil {
		res.got = "parse error: " + firstLine(err.Error())
		res.fails = append(res.fails, fail{"prec/parse-error/" + opName(minimalUnparseable(t)),
			fmt.Sprintf("%q (tree %s) does not parse: %s", res.text, res.expect, firstLine(err.Error()))})
		return res
	}
	e := exprOfOut(f)
	if e == nil {
		res.got = "not a single `out := E` statement: " + dumpOf(f)
		res.fails = append(res.fails, fail{"prec/shape/" + opName(t), fmt.Sprintf("%q parsed to %s", res.text, res.got)})
		return res
	}
	g := fromAST(e)
	res.got = sexp(g)
	if res.got != res.expect {
		a, b := regrouped(t, g)
		res.fails = append(res.fails, fail{groupingSig(a, b),
			fmt.Sprintf("%q groups as %s, documented precedence gives %s", res.text, res.got, res.expect)})
	}
	// printed form of the parsed file -> parse again -> same tree
	printed := f.String()
	f2, _, err2 := parseSrc(printed)
	ok := err2 == nil
	if ok {
		e2 := exprOfOut(f2)
		ok = e2 != nil && sexp(fromAST(e2)) == res.got
	}
	if !ok {
		kind := "context/AssignStmt"
		if bad := smallestNonRoundTripping(f); bad != nil {
			kind = nodeKindForSig(bad)
		}
		what := fmt.Sprintf("%q prints as %q which ", res.text, printed)
		if err2 != nil {
			what += "does not parse: " + firstLine(err2.Error())
		} else {
			what += "parses to a different tree: " + dumpOf(f2) + " instead of " + dumpOf(f)
		}
		res.fails = append(res.fails, fail{"print/" + kind, what})
	}
	return res
}

// minimalUnparseable descends to a smallest subtree whose own minimal text
// does not parse.
func minimalUnparseable(t *node) *node {
	for _, k := range t.kids {
		if _, _, err := parseSrc("out := " + pr(k)); err != nil {
			return minimalUnparseable(k)
		}
	}
	return t
}

// ---- naming the two operators of a mis-grouping ------------------------------
//
// Both trees are built from the same token sequence, so every operator
// occurrence can be identified by its position in text order. A mis-grouping
// shows as a pair of occurrences X, Y with X above Y in the expected tree but
// not in the parsed tree; preferred: Y above X in the parsed tree (inversion),
// then the pair closest together in the expected tree.

func textOrder(n *node, ids map[*node]int, names *[]string) {
	mark := func() {
		ids[n] = len(*names)
		*names = append(*names, opName(n))
	}
	switch n.k {
	case kLeaf, kOther:
	case kUn:
		mark()
		textOrder(n.kids[0], ids, names)
	case kSel:
		textOrder(n.kids[0], ids, names)
		mark()
	default: // binary, cond, call, index: operator token follows the first child
		textOrder(n.kids[0], ids, names)
		mark()
		for _, k := range n.kids[1:] {
			textOrder(k, ids, names)
		}
	}
}

// above[x][y] = depth distance if occurrence x is a proper ancestor of y.
func aboveMatrix(n *node, ids map[*node]int, size int) [][]int {
	m := make([][]int, size)
	for i := range m {
		m[i] = make([]int, size)
	}
	var walk func(n *node, anc []int)
	walk = func(n *node, anc []int) {
		if n.k == kLeaf || n.k == kOther {
			return
		}
		id := ids[n]
		for d, a := range anc {
			m[a][id] = len(anc) - d
		}
		anc = append(anc, id)
		for _, k := range n.kids {
			walk(k, anc)
		}
	}
	walk(n, nil)
	return m
}

func regrouped(exp, got *node) (string, string) {
	ie, ig := map[*node]int{}, map[*node]int{}
	var ne, ng []string
	textOrder(exp, ie, &ne)
	textOrder(got, ig, &ng)
	same := len(ne) == len(ng)
	for i := 0; same && i < len(ne); i++ {
		same = ne[i] == ng[i]
	}
	if !same {
		a, b, _ := firstDiff(exp, got, "")
		return a, b
	}
	me, mg := aboveMatrix(exp, ie, len(ne)), aboveMatrix(got, ig, len(ne))
	bx, by, best := -1, -1, 1<<30
	for x := range ne {
		for y := range ne {
			if me[x][y] == 0 || mg[x][y] != 0 {
				continue
			}
			score := me[x][y] * 2
			if mg[y][x] == 0 {
				score++ // not an inversion: less specific
			}
			if score < best {
				bx, by, best = x, y, score
			}
		}
	}
	if bx < 0 {
		a, b, _ := firstDiff(exp, got, "")
		return a, b
	}
	return ne[bx], ne[by]
}
