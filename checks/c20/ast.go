package main

// Helpers shared by all parts: parsing through the real parser, a structural
// rendering of parser ASTs that is independent of the implementation's own
// String() printers (positions ignored, ParenExpr transparent, EmptyStmt
// dropped), and a child enumerator used to localise print/reparse failures.

import (
	"fmt"
	"strconv"
	"strings"
	"sync/atomic"

	"github.com/d5/tengo/v2/parser"
)

var (
	nParse   atomic.Int64 // parser invocations
	nScan    atomic.Int64 // scanner invocations (tengo)
	nCompile atomic.Int64 // compiler invocations
	nPanics  atomic.Int64 // panics of the implementation caught by the harness
)

// parseSrc runs the real parser over src.
func parseSrc(src string) (f *parser.File, sf *parser.SourceFile, err error) {
	nParse.Add(1)
	defer func() {
		if r := recover(); r != nil {
			nPanics.Add(1)
			f, err = nil, fmt.Errorf("PANIC in parser: %v", r)
		}
	}()
	fs := parser.NewFileSet()
	sf = fs.AddFile("c20", -1, len(src))
	p := parser.NewParser(sf, []byte(src), nil)
	f, err = p.ParseFile()
	if err == nil && f == nil {
		err = fmt.Errorf("nil file without error")
	}
	return
}

type tokLit struct{ tok, lit string }

// scanSrc runs the real scanner over src and returns the token stream
// (token names as printed by token.Token.String, literals) and the error count.
func scanSrc(src string) (out []tokLit, errs int) {
	nScan.Add(1)
	defer func() {
		if r := recover(); r != nil {
			nPanics.Add(1)
			out = append(out, tokLit{"PANIC", fmt.Sprint(r)})
			errs++
		}
	}()
	fs := parser.NewFileSet()
	sf := fs.AddFile("c20", -1, len(src))
	s := parser.NewScanner(sf, []byte(src), func(parser.SourceFilePos, string) {}, 0)
	for i := 0; i < len(src)+4; i++ {
		t, lit, _ := s.Scan()
		out = append(out, tokLit{t.String(), lit})
		if t.String() == "EOF" {
			break
		}
	}
	return out, s.ErrorCount()
}

func firstLine(s string) string {
	if i := strings.IndexByte(s, '\n'); i >= 0 {
		return s[:i]
	}
	return s
}

// ---- structural dump ------------------------------------------------------

func dumpStmts(sb *strings.Builder, ss []parser.Stmt) {
	sb.WriteByte('[')
	for _, s := range ss {
		if _, empty := s.(*parser.EmptyStmt); empty {
			continue
		}
		dump(sb, s)
		sb.WriteByte(';')
	}
	sb.WriteByte(']')
}

func dumpExprs(sb *strings.Builder, es []parser.Expr) {
	sb.WriteByte('[')
	for _, e := range es {
		dump(sb, e)
		sb.WriteByte(',')
	}
	sb.WriteByte(']')
}

func isNil(n parser.Node) bool {
	if n == nil {
		return true
	}
	switch x := n.(type) {
	case *parser.BlockStmt:
		return x == nil
	case *parser.Ident:
		return x == nil
	case *parser.IfStmt:
		return x == nil
	}
	return false
}

// dump writes a canonical structural rendering of n.
func dump(sb *strings.Builder, n parser.Node) {
	if isNil(n) {
		sb.WriteString("nil")
		return
	}
	switch x := n.(type) {
	case *parser.File:
		sb.WriteString("File")
		dumpStmts(sb, x.Stmts)
	// statements
	case *parser.AssignStmt:
		sb.WriteString("Assign{" + x.Token.String() + " ")
		dumpExprs(sb, x.LHS)
		dumpExprs(sb, x.RHS)
		sb.WriteByte('}')
	case *parser.BadStmt:
		sb.WriteString("BadStmt")
	case *parser.BlockStmt:
		sb.WriteString("Block")
		dumpStmts(sb, x.Stmts)
	case *parser.BranchStmt:
		sb.WriteString("Branch{" + x.Token.String())
		if x.Label != nil {
			sb.WriteString(" " + x.Label.Name)
		}
		sb.WriteByte('}')
	case *parser.EmptyStmt:
		sb.WriteString("Empty")
	case *parser.ExportStmt:
		sb.WriteString("Export{")
		dump(sb, x.Result)
		sb.WriteByte('}')
	case *parser.ExprStmt:
		sb.WriteString("ExprStmt{")
		dump(sb, x.Expr)
		sb.WriteByte('}')
	case *parser.ForInStmt:
		sb.WriteString("ForIn{")
		dump(sb, x.Key)
		sb.WriteByte(' ')
		dump(sb, x.Value)
		sb.WriteByte(' ')
		dump(sb, x.Iterable)
		sb.WriteByte(' ')
		dump(sb, x.Body)
		sb.WriteByte('}')
	case *parser.ForStmt:
		sb.WriteString("For{")
		dumpOpt(sb, x.Init)
		sb.WriteByte(' ')
		dumpOptE(sb, x.Cond)
		sb.WriteByte(' ')
		dumpOpt(sb, x.Post)
		sb.WriteByte(' ')
		dump(sb, x.Body)
		sb.WriteByte('}')
	case *parser.IfStmt:
		sb.WriteString("If{")
		dumpOpt(sb, x.Init)
		sb.WriteByte(' ')
		dumpOptE(sb, x.Cond)
		sb.WriteByte(' ')
		dump(sb, x.Body)
		sb.WriteByte(' ')
		dumpOpt(sb, x.Else)
		sb.WriteByte('}')
	case *parser.IncDecStmt:
		sb.WriteString("IncDec{" + x.Token.String() + " ")
		dump(sb, x.Expr)
		sb.WriteByte('}')
	case *parser.ReturnStmt:
		sb.WriteString("Return{")
		dumpOptE(sb, x.Result)
		sb.WriteByte('}')
	// expressions
	case *parser.ArrayLit:
		sb.WriteString("Array")
		dumpExprs(sb, x.Elements)
	case *parser.BadExpr:
		sb.WriteString("BadExpr")
	case *parser.BinaryExpr:
		sb.WriteString("Bin{" + x.Token.String() + " ")
		dump(sb, x.LHS)
		sb.WriteByte(' ')
		dump(sb, x.RHS)
		sb.WriteByte('}')
	case *parser.BoolLit:
		sb.WriteString("Bool{" + strconv.FormatBool(x.Value) + "}")
	case *parser.CallExpr:
		sb.WriteString("Call{")
		dump(sb, x.Func)
		sb.WriteByte(' ')
		dumpExprs(sb, x.Args)
		if x.Ellipsis.IsValid() {
			sb.WriteString("...")
		}
		sb.WriteByte('}')
	case *parser.CharLit:
		sb.WriteString("Char{" + strconv.Itoa(int(x.Value)) + "}")
	case *parser.CondExpr:
		sb.WriteString("Cond{")
		dump(sb, x.Cond)
		sb.WriteByte(' ')
		dump(sb, x.True)
		sb.WriteByte(' ')
		dump(sb, x.False)
		sb.WriteByte('}')
	case *parser.ErrorExpr:
		sb.WriteString("Error{")
		dump(sb, x.Expr)
		sb.WriteByte('}')
	case *parser.FloatLit:
		sb.WriteString("Float{" + strconv.FormatFloat(x.Value, 'x', -1, 64) + "}")
	case *parser.FuncLit:
		sb.WriteString("Func{(")
		if x.Type != nil && x.Type.Params != nil {
			for _, p := range x.Type.Params.List {
				sb.WriteString(p.Name + ",")
			}
			if x.Type.Params.VarArgs {
				sb.WriteString("...")
			}
		}
		sb.WriteString(") ")
		dump(sb, x.Body)
		sb.WriteByte('}')
	case *parser.Ident:
		sb.WriteString("Id{" + x.Name + "}")
	case *parser.ImmutableExpr:
		sb.WriteString("Immutable{")
		dump(sb, x.Expr)
		sb.WriteByte('}')
	case *parser.ImportExpr:
		sb.WriteString("Import{" + strconv.Quote(x.ModuleName) + "}")
	case *parser.IndexExpr:
		sb.WriteString("Index{")
		dump(sb, x.Expr)
		sb.WriteByte(' ')
		dumpOptE(sb, x.Index)
		sb.WriteByte('}')
	case *parser.IntLit:
		sb.WriteString("Int{" + strconv.FormatInt(x.Value, 10) + "}")
	case *parser.MapLit:
		sb.WriteString("Map[")
		for _, e := range x.Elements {
			sb.WriteString(strconv.Quote(e.Key) + ":")
			dump(sb, e.Value)
			sb.WriteByte(',')
		}
		sb.WriteByte(']')
	case *parser.MapElementLit:
		sb.WriteString("MapElem{" + strconv.Quote(x.Key) + ":")
		dump(sb, x.Value)
		sb.WriteByte('}')
	case *parser.ParenExpr:
		dump(sb, x.Expr) // transparent
	case *parser.SelectorExpr:
		sb.WriteString("Sel{")
		dump(sb, x.Expr)
		sb.WriteByte(' ')
		dump(sb, x.Sel)
		sb.WriteByte('}')
	case *parser.SliceExpr:
		sb.WriteString("Slice{")
		dump(sb, x.Expr)
		sb.WriteByte(' ')
		dumpOptE(sb, x.Low)
		sb.WriteByte(' ')
		dumpOptE(sb, x.High)
		sb.WriteByte('}')
	case *parser.StringLit:
		sb.WriteString("Str{" + strconv.Quote(x.Value) + "}")
	case *parser.UnaryExpr:
		sb.WriteString("Un{" + x.Token.String() + " ")
		dump(sb, x.Expr)
		sb.WriteByte('}')
	case *parser.UndefinedLit:
		sb.WriteString("Undefined")
	default:
		fmt.Fprintf(sb, "?%T", n)
	}
}

func dumpOpt(sb *strings.Builder, s parser.Stmt) {
	if s == nil || isNil(s) {
		sb.WriteString("nil")
		return
	}
	dump(sb, s)
}

func dumpOptE(sb *strings.Builder, e parser.Expr) {
	if e == nil {
		sb.WriteString("nil")
		return
	}
	dump(sb, e)
}

func dumpOf(n parser.Node) string {
	var sb strings.Builder
	dump(&sb, n)
	return sb.String()
}

// children returns the direct sub-nodes (statements and expressions) of n.
func children(n parser.Node) (out []parser.Node) {
	addE := func(e parser.Expr) {
		if e != nil {
			out = append(out, e)
		}
	}
	addS := func(s parser.Stmt) {
		if s != nil && !isNil(s) {
			out = append(out, s)
		}
	}
	switch x := n.(type) {
	case *parser.File:
		for _, s := range x.Stmts {
			addS(s)
		}
	case *parser.AssignStmt:
		for _, e := range x.LHS {
			addE(e)
		}
		for _, e := range x.RHS {
			addE(e)
		}
	case *parser.BlockStmt:
		for _, s := range x.Stmts {
			addS(s)
		}
	case *parser.ExportStmt:
		addE(x.Result)
	case *parser.ExprStmt:
		addE(x.Expr)
	case *parser.ForInStmt:
		addE(x.Iterable)
		addS(x.Body)
	case *parser.ForStmt:
		addS(x.Init)
		addE(x.Cond)
		addS(x.Post)
		addS(x.Body)
	case *parser.IfStmt:
		addS(x.Init)
		addE(x.Cond)
		addS(x.Body)
		addS(x.Else)
	case *parser.IncDecStmt:
		addE(x.Expr)
	case *parser.ReturnStmt:
		addE(x.Result)
	case *parser.ArrayLit:
		for _, e := range x.Elements {
			addE(e)
		}
	case *parser.BinaryExpr:
		addE(x.LHS)
		addE(x.RHS)
	case *parser.CallExpr:
		addE(x.Func)
		for _, e := range x.Args {
			addE(e)
		}
	case *parser.CondExpr:
		addE(x.Cond)
		addE(x.True)
		addE(x.False)
	case *parser.ErrorExpr:
		addE(x.Expr)
	case *parser.FuncLit:
		addS(x.Body)
	case *parser.ImmutableExpr:
		addE(x.Expr)
	case *parser.IndexExpr:
		addE(x.Expr)
		addE(x.Index)
	case *parser.MapLit:
		for _, e := range x.Elements {
			addE(e.Value)
		}
	case *parser.ParenExpr:
		addE(x.Expr)
	case *parser.SelectorExpr:
		addE(x.Expr)
	case *parser.SliceExpr:
		addE(x.Expr)
		addE(x.Low)
		addE(x.High)
	case *parser.UnaryExpr:
		addE(x.Expr)
	}
	return
}

func typeName(n parser.Node) string {
	s := fmt.Sprintf("%T", n)
	return strings.TrimPrefix(s, "*parser.")
}

func unparen(e parser.Expr) parser.Expr {
	for {
		p, ok := e.(*parser.ParenExpr)
		if !ok {
			return e
		}
		e = p.Expr
	}
}

// nodeKindForSig names a node for a print/ signature: its type, and for
// postfix forms the type of the operand they are applied to.
func nodeKindForSig(n parser.Node) string {
	switch x := n.(type) {
	case *parser.SelectorExpr:
		return "SelectorExpr-on-" + typeName(x.Expr)
	case *parser.IndexExpr:
		return "IndexExpr-on-" + typeName(x.Expr)
	case *parser.CallExpr:
		return "CallExpr-on-" + typeName(x.Func)
	case *parser.SliceExpr:
		return "SliceExpr-on-" + typeName(x.Expr)
	}
	return typeName(n)
}

// standaloneRoundTrips reports whether printing n with its own String() and
// parsing that text again yields the structure of n.
func standaloneRoundTrips(n parser.Node) bool {
	want := dumpOf(n)
	f, _, err := parseSrc(n.String())
	if err != nil {
		return false
	}
	if _, isFile := n.(*parser.File); isFile {
		return dumpOf(f) == want
	}
	var got []parser.Stmt
	for _, s := range f.Stmts {
		if _, e := s.(*parser.EmptyStmt); !e {
			got = append(got, s)
		}
	}
	if len(got) != 1 {
		return false
	}
	if _, isStmt := n.(parser.Stmt); isStmt {
		return dumpOf(got[0]) == want
	}
	es, ok := got[0].(*parser.ExprStmt)
	return ok && dumpOf(es.Expr) == want
}

// smallestNonRoundTripping finds (post-order) the deepest node of the tree
// under n whose own printed form does not parse back to itself.
func smallestNonRoundTripping(n parser.Node) parser.Node {
	for _, c := range children(n) {
		if r := smallestNonRoundTripping(c); r != nil {
			return r
		}
	}
	switch n.(type) {
	case *parser.File, *parser.BlockStmt, *parser.MapElementLit, *parser.EmptyStmt:
		return nil // a bare block / element is not a program on its own; an empty statement has no structure
	}
	if !standaloneRoundTrips(n) {
		return n
	}
	return nil
}
