package main

// Part (b): automatic semicolon insertion. Every ordered pair of tokens of the
// alphabet, separated by every separator (newline forms, comment forms,
// same-line forms), inside every context.
//
// Oracle (token level): the stream the scanner produces must be exactly the
// stream predicted from this file's own token table by the insertion rule:
// a semicolon follows a token iff the token is in the trigger set and the text
// up to the next token (or the end of input) contains a newline - a comment
// containing a newline counts as a newline, a comment without one as a space.
// An inserted semicolon is reported with the literal "\n", a written one with
// ";" (as go/scanner does; Tengo's parser tells them apart by it).
// Oracle (parse level): when both `t1 <sep> t2` and its reference spelling
// (`t1 ; t2` if a semicolon is due, else `t1 t2`) parse, they parse alike.

import (
	"fmt"
	"strings"
)

type tokSpec struct {
	text   string
	tok    string // token.Token.String() the scanner must report
	lit    string // literal the scanner must report
	trig   bool   // in the trigger set
	class  string // signature name
	coarse string // operand | operator | keyword | delim
}

func kw(s string, trig bool) tokSpec { return tokSpec{s, s, s, trig, s, "keyword"} }
func op(s, class string, trig bool) tokSpec {
	return tokSpec{s, s, "", trig, class, "operator"}
}
func dl(s, class string, trig bool) tokSpec { return tokSpec{s, s, "", trig, class, "delim"} }

// The trigger set is Go's rule (spec "Semicolons", rule 1) carried over to
// Tengo's token set; see the Assume lines in main.go for the mapping.
var alphabet = []tokSpec{
	// --- trigger set
	{"x", "IDENT", "x", true, "ident", "operand"},
	{"1", "INT", "1", true, "int", "operand"},
	{"1.5", "FLOAT", "1.5", true, "float", "operand"},
	{"'c'", "CHAR", "'c'", true, "char", "operand"},
	{`"s"`, "STRING", `"s"`, true, "string", "operand"},
	{"`r`", "STRING", "`r`", true, "rawstring", "operand"},
	{"true", "true", "true", true, "true", "operand"},
	{"false", "false", "false", true, "false", "operand"},
	{"undefined", "undefined", "undefined", true, "undefined", "operand"},
	kw("break", true), kw("continue", true), kw("return", true), kw("export", true),
	dl(")", "rparen", true), dl("]", "rbrack", true), dl("}", "rbrace", true),
	op("++", "inc", true), op("--", "dec", true),
	// --- everything else
	op("+", "add", false), op("-", "sub", false), op("*", "mul", false), op("/", "quo", false), op("%", "rem", false),
	op("&", "and", false), op("|", "or", false), op("^", "xor", false), op("<<", "shl", false), op(">>", "shr", false),
	op("&^", "andnot", false), op("&&", "land", false), op("||", "lor", false),
	op("==", "eq", false), op("!=", "ne", false), op("<", "lt", false), op("<=", "le", false), op(">", "gt", false), op(">=", "ge", false),
	op("=", "assign", false), op(":=", "define", false), op("+=", "addassign", false), op("-=", "subassign", false),
	op("&^=", "andnotassign", false), op("<<=", "shlassign", false), op("!", "not", false),
	dl("(", "lparen", false), dl("[", "lbrack", false), dl("{", "lbrace", false),
	dl(",", "comma", false), dl(".", "period", false), dl(":", "colon", false), dl("?", "question", false),
	dl("...", "ellipsis", false), {";", ";", ";", false, "semicolon", "delim"},
	kw("if", false), kw("else", false), kw("for", false), kw("func", false), kw("in", false),
	kw("import", false), kw("error", false), kw("immutable", false),
}

var tokByText = func() map[string]*tokSpec {
	m := map[string]*tokSpec{}
	for i := range alphabet {
		m[alphabet[i].text] = &alphabet[i]
	}
	return m
}()

type sepSpec struct {
	text string
	name string
}

// Every separator starts and ends with white space so that neither neighbour
// can fuse with it lexically (`/` before `/* c */`, `1` before `.`).
var seps = []sepSpec{
	{"\n", "nl"},
	{" \n ", "sp-nl-sp"},
	{"\t\r\n", "tab-crlf"},
	{"\n\n", "nl-nl"},
	{" // c\n", "line-comment"},
	{" /* c */\n", "block-comment-nl"},
	{" /* m\nl */ ", "multiline-comment"},
	{"\n// c\n", "nl-line-comment"},
	{" /* c */ /* m\nl */ ", "block-then-multiline"},
	{" /* c */ // d\n", "block-then-line"},
	{"\n /* c */ ", "nl-block-comment"},
	{" ", "space"},
	{"\t", "tab"},
	{" /* c */ ", "block-comment"},
	{" /* c */ /* d */ ", "two-block-comments"},
}

func hasNL(s string) bool { return strings.Contains(s, "\n") }

type ctxSpec struct {
	name   string
	prefix []string // token texts
	suffix []string
}

var contexts = []ctxSpec{
	{"bare", nil, nil},
	{"assign-rhs", []string{"x", "="}, nil},
	{"expr-tail", []string{"x", "=", "x"}, nil},
	{"expr-mid", []string{"x", "=", "x"}, []string{"x"}},
	{"block", []string{"if", "x", "{"}, []string{"}"}},
	{"func-body", []string{"x", ":=", "func", "(", ")", "{"}, []string{"}"}},
	{"loop-body", []string{"for", "{"}, []string{"}"}},
	{"paren", []string{"x", "=", "("}, []string{")"}},
	{"paren-mid", []string{"x", "=", "(", "x"}, []string{"x", ")"}},
	{"array", []string{"x", "=", "["}, []string{"]"}},
	{"array-tail", []string{"x", "=", "[", "x"}, []string{"]"}},
	{"call-args", []string{"x", "=", "x", "("}, []string{")"}},
	{"call-args-tail", []string{"x", "=", "x", "(", "x"}, []string{")"}},
	{"map-value", []string{"x", "=", "{", "x", ":"}, []string{"}"}},
	{"index", []string{"x", "=", "x", "["}, []string{"]"}},
}

var ctxByName = func() map[string]*ctxSpec {
	m := map[string]*ctxSpec{}
	for i := range contexts {
		m[contexts[i].name] = &contexts[i]
	}
	return m
}()

type layoutItem struct {
	t   *tokSpec
	sep string // text between this token and the next one (or the end of input)
}

// buildLayout is the token sequence prefix + t1 <mid> t2 + suffix, all other
// tokens separated by one space, the text ending in a newline.
func buildLayout(c *ctxSpec, t1, t2 *tokSpec, mid string) []layoutItem {
	var items []layoutItem
	for _, p := range c.prefix {
		items = append(items, layoutItem{tokByText[p], " "})
	}
	items = append(items, layoutItem{t1, mid}, layoutItem{t2, " "})
	for _, p := range c.suffix {
		items = append(items, layoutItem{tokByText[p], " "})
	}
	items[len(items)-1].sep = "\n"
	return items
}

// render gives the source text and the token stream predicted by the
// insertion rule; owner[i] is the item that want[i] belongs to (for an
// inserted semicolon: the item it follows; for EOF: len(items)).
func render(items []layoutItem) (src string, want []tokLit, owner []int) {
	var sb strings.Builder
	for k, it := range items {
		sb.WriteString(it.t.text)
		sb.WriteString(it.sep)
		want = append(want, tokLit{it.t.tok, it.t.lit})
		owner = append(owner, k)
		if it.t.trig && hasNL(it.sep) {
			want = append(want, tokLit{";", "\n"})
			owner = append(owner, k)
		}
	}
	want = append(want, tokLit{"EOF", ""})
	owner = append(owner, len(items))
	return sb.String(), want, owner
}

func layout(c *ctxSpec, t1, t2 *tokSpec, mid string) (string, []tokLit) {
	src, want, _ := render(buildLayout(c, t1, t2, mid))
	return src, want
}

func tokEq(a, b tokLit) bool {
	// the literal tells an inserted semicolon ("\n") from a written one (";")
	return a.tok == b.tok && a.lit == b.lit
}

// tokenSig localises a token-stream mismatch: the token after which a
// semicolon is missing / spurious (or which is lexed differently), the class
// of the token that follows it, and whether the same two tokens with the same
// separator already fail on their own (any-context) or only in this context.
func tokenSig(ctxName string, items []layoutItem, got, want []tokLit, owner []int) string {
	i := 0
	for i < len(got) && i < len(want) && tokEq(got[i], want[i]) {
		i++
	}
	kind := "lexical"
	k := len(items)
	switch {
	case i >= len(want):
		kind, k = "extra-tokens", len(items)-1
	case want[i].tok == ";" && want[i].lit == "\n":
		kind, k = "missing", owner[i]
	case i < len(got) && got[i].tok == ";" && got[i].lit == "\n":
		kind, k = "spurious", owner[i]-1
	default:
		k = owner[i]
	}
	if k < 0 || k >= len(items) {
		return "asi/layout-" + kind + "/" + ctxName
	}
	next := "eof"
	sub := []layoutItem{items[k]}
	if k+1 < len(items) {
		next = items[k+1].t.coarse
		sub = append(sub, layoutItem{items[k+1].t, "\n"})
	}
	bsrc, bwant, _ := render(sub)
	bgot, berrs := scanSrc(bsrc)
	if !(berrs == 0 && sameTokens(bgot, bwant)) {
		ctxName = "any-context"
	}
	return "asi/" + items[k].t.class + "-" + next + "/" + ctxName + "/" + kind
}

func sameTokens(a, b []tokLit) bool {
	if len(a) != len(b) {
		return false
	}
	for i := range a {
		if !tokEq(a[i], b[i]) {
			return false
		}
	}
	return true
}

func showTokens(ts []tokLit) string {
	var sb strings.Builder
	for i, t := range ts {
		if i > 0 {
			sb.WriteByte(' ')
		}
		switch {
		case t.tok == ";" && t.lit == "\n":
			sb.WriteString(";(nl)")
		case t.lit != "" && t.lit != t.tok:
			sb.WriteString(t.tok + ":" + t.lit)
		default:
			sb.WriteString(t.tok)
		}
	}
	return sb.String()
}

type asiObs struct {
	class     string // outcome class
	bothParse bool
}

// runASI checks one (context, t1, t2, separator) layout.
func runASI(c *ctxSpec, t1, t2 *tokSpec, sp *sepSpec) (fails []fail, obs asiObs, detail string) {
	items := buildLayout(c, t1, t2, sp.text)
	src, want, owner := render(items)
	got, errs := scanSrc(src)
	tokOK := errs == 0 && sameTokens(got, want)
	if !tokOK {
		fails = append(fails, fail{tokenSig(c.name, items, got, want, owner),
			fmt.Sprintf("scanning %q (separator %s) gives [%s] (scan errors %d), the insertion rule gives [%s]",
				src, sp.name, showTokens(got), errs, showTokens(want))})
	}
	// parse level
	ref := " "
	due := t1.trig && hasNL(sp.text)
	if due {
		ref = " ; "
	}
	refSrc, _ := layout(c, t1, t2, ref)
	fa, _, ea := parseSrc(src)
	fr, _, er := parseSrc(refSrc)
	switch {
	case ea == nil && er == nil:
		obs.bothParse = true
		da, dr := dumpOf(fa), dumpOf(fr)
		if da != dr {
			fails = append(fails, fail{"asi/" + t1.class + "-" + t2.coarse + "/" + c.name + "/parse",
				fmt.Sprintf("%q parses to %s but its reference spelling %q parses to %s", src, da, refSrc, dr)})
			obs.class = "parse-differs"
		} else {
			obs.class = "both-parse"
		}
	case ea != nil && er != nil:
		obs.class = "neither-parses"
	case ea == nil:
		obs.class = "only-layout-parses" // e.g. a newline before ')' of a call is tolerated where ';' is not: no claim
	default:
		obs.class = "only-reference-parses"
	}
	if due {
		obs.class = "semi/" + obs.class
	} else if hasNL(sp.text) {
		obs.class = "nl-nosemi/" + obs.class
	} else {
		obs.class = "sameline/" + obs.class
	}
	if !tokOK {
		obs.class += "/tokens-differ"
	}
	detail = fmt.Sprintf("src=%q tokens=[%s] parse=%s", src, showTokens(got), obs.class)
	return
}
