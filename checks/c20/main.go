// C20: parsing reflects the documented grammar and its own printed form.
//
// Four exhaustive parts (see prec.go, asi.go, lit.go, prog.go):
//
//	(a) every expression tree with <= N operators, printed with minimal
//	    parentheses from the documented precedence table, must parse to
//	    itself (and the parser's printed form of it must parse back);
//	(b) every token pair x separator x context against the semicolon
//	    insertion rule (token level) and its reference spelling (parse level);
//	(c) every number / char / string spelling below a length bound against
//	    go/scanner + go/constant + strconv;
//	(d) every program of two generated families: print -> reparse ->
//	    recompile gives the same instructions and constants.
package main

import (
	"fmt"
	"runtime"
	"strings"
	"sync"
	"sync/atomic"
	"time"

	"verif/engine/report"
)

type Case struct {
	Part  string `json:"part"` // prec | asi | num | quoted | prog
	Space string `json:"space,omitempty"`
	N     int    `json:"n,omitempty"`
	Idx   int64  `json:"idx,omitempty"`
	Rot   int    `json:"rot,omitempty"`
	Ctx   string `json:"ctx,omitempty"`
	T1    string `json:"t1,omitempty"`
	T2    string `json:"t2,omitempty"`
	Sep   string `json:"sep,omitempty"`
	Src   string `json:"src,omitempty"`
	Info  string `json:"info,omitempty"` // human-readable rendering, not used by replay
}

type fail struct{ sig, what string }

var ballast []byte

var spaces sync.Map

func getSpace(name string) *space {
	if s, ok := spaces.Load(name); ok {
		return s.(*space)
	}
	s := spaceByName(name)
	spaces.Store(name, s)
	return s
}

// runCase re-executes one case (used by replay; the main loops call the
// part-specific functions directly).
func runCase(c Case) ([]fail, string) {
	switch c.Part {
	case "prec":
		s := getSpace(c.Space)
		if c.N < 0 || c.N >= len(s.T) || c.Idx < 0 || c.Idx >= s.T[c.N] {
			return []fail{{"internal/bad-case", "index out of range"}}, ""
		}
		res := runPrec(s, c.N, c.Idx, c.Rot)
		return res.fails, fmt.Sprintf("text=%q expected=%s parsed=%s", res.text, res.expect, res.got)
	case "asi":
		ctx, t1, t2 := ctxByName[c.Ctx], tokByText[c.T1], tokByText[c.T2]
		var sp *sepSpec
		for i := range seps {
			if seps[i].name == c.Sep {
				sp = &seps[i]
			}
		}
		if ctx == nil || t1 == nil || t2 == nil || sp == nil {
			return []fail{{"internal/bad-case", "unknown context/token/separator"}}, ""
		}
		fails, _, detail := runASI(ctx, t1, t2, sp)
		return fails, detail
	case "num":
		fails, obs := runNum(c.Src)
		return fails, obs.class
	case "quoted":
		fails, obs := runQuoted(c.Src)
		return fails, obs.class
	case "prog":
		fails, obs := runProg(c.Src)
		return fails, fmt.Sprintf("%s printed=%q %s", obs.class, obs.printed, obs.origError)
	}
	return []fail{{"internal/bad-case", "unknown part " + c.Part}}, ""
}

// parallelChunks runs fn over [0,n) in chunks on all cores.
func parallelChunks(n, chunk int64, fn func(lo, hi int64)) {
	workers := runtime.GOMAXPROCS(0)
	var next atomic.Int64
	var wg sync.WaitGroup
	for w := 0; w < workers; w++ {
		wg.Add(1)
		go func() {
			defer wg.Done()
			for {
				lo := next.Add(chunk) - chunk
				if lo >= n {
					return
				}
				hi := lo + chunk
				if hi > n {
					hi = n
				}
				fn(lo, hi)
			}
		}()
	}
	wg.Wait()
}

type tally struct {
	r        *report.Run
	outcomes map[string]int64
	counts   map[string]int64
}

func newTally(r *report.Run) *tally {
	return &tally{r: r, outcomes: map[string]int64{}, counts: map[string]int64{}}
}

// flush folds the chunk's tallies into the process-wide aggregate; the
// aggregate is handed to the report once, by the main goroutine (the report's
// Outcome is one locked increment per call - calling it from 16 workers for
// every case serialises the whole run).
func (t *tally) flush() {
	aggMu.Lock()
	for k, n := range t.outcomes {
		aggOutcomes[k] += n
	}
	for k, n := range t.counts {
		aggCounts[k] += n
	}
	aggMu.Unlock()
}

var (
	aggMu       sync.Mutex
	aggOutcomes = map[string]int64{}
	aggCounts   = map[string]int64{}
)

func flushAggregate(r *report.Run) {
	aggMu.Lock()
	defer aggMu.Unlock()
	for k, n := range aggOutcomes {
		for i := int64(0); i < n; i++ {
			r.Outcome(k)
		}
	}
	for k, n := range aggCounts {
		r.Count(k, n)
	}
}

func main() {
	if p := report.ReplayArg(); p != "" {
		rp, err := report.LoadReplay(p)
		if err != nil {
			fmt.Println("cannot load replay:", err)
			return
		}
		for _, raw := range rp.Cases {
			var c Case
			_ = report.Recase(raw, &c)
			fails, obs := runCase(c)
			fmt.Printf("case %+v\n  observed: %s\n", c, obs)
			for _, f := range fails {
				fmt.Printf("  FAIL %s: %s\n", f.sig, f.what)
			}
		}
		return
	}
	// every case makes many tiny short-lived allocations while the live heap is
	// a few MB: an (untouched) ballast keeps the collector from running every
	// few milliseconds.
	ballast = make([]byte, 256<<20)
	r := report.New("C20")
	thorough := r.Thorough()
	deadline := time.Duration(r.Pick(80, 840)) * time.Second
	var capped atomic.Bool
	over := func(part string) bool {
		if r.Elapsed() > deadline {
			if !capped.Swap(true) {
				r.NotExhaustive("internal deadline reached in part " + part)
			}
			return true
		}
		return false
	}
	var states, nontrivial atomic.Int64

	// ---- (a) precedence / associativity ------------------------------------
	type precRun struct {
		sp   *space
		from int
		to   int
	}
	full := getSpace("full")
	// full operator set up to the tier's bound, then one more level over the reduced set
	runs := []precRun{{full, 0, r.Pick(3, 4)}, {getSpace("reduced"), r.Pick(4, 5), r.Pick(4, 5)}}
	r.Set("a.max_operators_full_set", r.Pick(3, 4))
	r.Set("a.max_operators_reduced_set", r.Pick(4, 5))
	var redNames []string
	for _, o := range reducedOps {
		redNames = append(redNames, o.name)
	}
	r.Set("a.reduced_set", redNames)
	r.Set("a.leaf_rotations", leafRotations)
	partStart := time.Now()
	partDone := func(name string) {
		r.Set("wall_s."+name, time.Since(partStart).Seconds())
		partStart = time.Now()
	}
	for _, run := range runs {
		for n := run.from; n <= run.to; n++ {
			nrot := int64(len(leafRotations))
			total := run.sp.T[n] * nrot
			r.Set(fmt.Sprintf("a.trees.%s.n=%d", run.sp.name, n), run.sp.T[n])
			parallelChunks(total, 512, func(lo, hi int64) {
				if over("a") {
					return
				}
				t := newTally(r)
				for i := lo; i < hi; i++ {
					rot := leafRotations[i%nrot]
					res := runPrec(run.sp, n, i/nrot, rot)
					c := Case{Part: "prec", Space: run.sp.name, N: n, Idx: i / nrot, Rot: rot, Info: res.text + "  =>  " + res.expect}
					switch {
					case len(res.fails) == 0:
						t.outcomes["a:grouped-as-documented,reprint-ok"]++
					default:
						for _, f := range res.fails {
							t.outcomes["a:FAIL:"+f.sig]++
							r.Violation(f.sig, f.what, c)
						}
					}
					if i%(total/3+1) == 0 && n >= 2 {
						r.Sample(map[string]interface{}{"case": c, "parsed": res.got})
					}
				}
				t.counts["a.trees"] += hi - lo
				t.flush()
				states.Add(hi - lo)
				nontrivial.Add(hi - lo)
			})
		}
	}

	partDone("a")

	// ---- (b) semicolon insertion ------------------------------------------------
	{
		nt, ns, nc := int64(len(alphabet)), int64(len(seps)), int64(len(contexts))
		total := nc * nt * nt * ns
		r.Set("b.alphabet_size", nt)
		r.Set("b.separators", ns)
		r.Set("b.contexts", nc)
		var trig []string
		for _, t := range alphabet {
			if t.trig {
				trig = append(trig, t.text)
			}
		}
		r.Set("b.trigger_set", trig)
		pairs := report.NewDistinctSet()
		parallelChunks(total, 256, func(lo, hi int64) {
			if over("b") {
				return
			}
			t := newTally(r)
			for i := lo; i < hi; i++ {
				x := i
				sp := &seps[x%ns]
				x /= ns
				t2 := &alphabet[x%nt]
				x /= nt
				t1 := &alphabet[x%nt]
				x /= nt
				ctx := &contexts[x]
				fails, obs, detail := runASI(ctx, t1, t2, sp)
				c := Case{Part: "asi", Ctx: ctx.name, T1: t1.text, T2: t2.text, Sep: sp.name}
				t.outcomes["b:"+obs.class]++
				if obs.bothParse {
					t.counts["b.layouts-where-both-spellings-parse"]++
					pairs.Add(t1.text + " " + t2.text)
					nontrivial.Add(1)
				}
				for _, f := range fails {
					c.Info = detail
					r.Violation(f.sig, f.what, c)
				}
				if i%(total/3+1) == 7 {
					r.Sample(map[string]interface{}{"case": c, "observed": detail})
				}
			}
			t.counts["b.layouts"] += hi - lo
			t.flush()
			states.Add(hi - lo)
		})
		r.Set("b.distinct_token_pairs_with_a_parseable_layout", pairs.Len())
	}

	partDone("b")

	// ---- (c) literals --------------------------------------------------------------
	{
		maxLen := r.Pick(5, 6)
		total := numCount(maxLen)
		r.Set("c.num_alphabet", string(numSyms))
		r.Set("c.num_max_len", maxLen)
		parallelChunks(total, 8192, func(lo, hi int64) {
			if over("c-num") {
				return
			}
			t := newTally(r)
			for i := lo; i < hi; i++ {
				src := numSpelling(i, maxLen)
				fails, obs := runNum(src)
				t.outcomes["c:num:"+obs.class]++
				if obs.goAccept {
					t.counts["c.num-spellings-valid-in-go"]++
					nontrivial.Add(1)
					if i%50021 == 0 {
						r.Sample(map[string]interface{}{"case": Case{Part: "num", Src: src}, "observed": obs.class})
					}
				}
				for _, f := range fails {
					r.Violation(f.sig, f.what, Case{Part: "num", Src: src})
				}
				// upper-case twin (0X1P-2, 0B1, 1E5, hex digits A-F) of every shorter spelling
				if up := strings.ToUpper(src); len(src) < maxLen && up != src {
					fails, obs := runNum(up)
					t.outcomes["c:num:"+obs.class]++
					t.counts["c.num-spellings-upper-case"]++
					if obs.goAccept {
						t.counts["c.num-spellings-valid-in-go"]++
						nontrivial.Add(1)
					}
					for _, f := range fails {
						r.Violation(f.sig, f.what, Case{Part: "num", Src: up})
					}
					states.Add(1)
				}
			}
			t.counts["c.num-spellings"] += hi - lo
			t.flush()
			states.Add(hi - lo)
		})
		for _, src := range boundaryNums() {
			fails, obs := runNum(src)
			aggOutcomes["c:num:"+obs.class]++
			aggCounts["c.num-boundary-spellings"]++
			if obs.goAccept {
				aggCounts["c.num-spellings-valid-in-go"]++
				nontrivial.Add(1)
			}
			for _, f := range fails {
				r.Violation(f.sig, f.what, Case{Part: "num", Src: src})
			}
			states.Add(1)
		}
		qLen := r.Pick(4, 6)
		r.Set("c.quoted_symbols", quotedSyms)
		r.Set("c.quoted_max_body_len", qLen)
		qTotal := quotedCount(qLen)
		eTotal := escCount(thorough)
		parallelChunks(qTotal+eTotal, 4096, func(lo, hi int64) {
			if over("c-quoted") {
				return
			}
			t := newTally(r)
			for i := lo; i < hi; i++ {
				var src string
				if i < qTotal {
					src = quotedSpelling(i, qLen)
				} else {
					src = escSpelling(i-qTotal, thorough)
					// the flat family already contains the spellings whose body is short enough
				}
				fails, obs := runQuoted(src)
				t.outcomes["c:quoted:"+obs.class]++
				if obs.goAccept {
					t.counts["c.quoted-spellings-valid-in-go"]++
					nontrivial.Add(1)
					if i%30011 == 0 {
						r.Sample(map[string]interface{}{"case": Case{Part: "quoted", Src: src}, "observed": obs.class})
					}
				}
				for _, f := range fails {
					r.Violation(f.sig, f.what, Case{Part: "quoted", Src: src})
				}
			}
			t.counts["c.quoted-spellings"] += hi - lo
			t.flush()
			states.Add(hi - lo)
		})
	}

	partDone("c")

	// ---- (d) print -> reparse -> recompile ---------------------------------------
	{
		slot := slotPrograms()
		maxStmts := r.Pick(3, 4)
		structure := structurePrograms(maxStmts)
		r.Set("d.slot_templates", len(slotTemplates))
		r.Set("d.expression_pool", len(exprPool))
		r.Set("d.structure_max_statements", maxStmts)
		// one list without duplicates (a few slot programs are also structure
		// programs), built sequentially so that the counts do not depend on
		// scheduling
		var progs []string
		var nSlot int64
		{
			seen := map[string]bool{}
			for i, p := range append(append([]string{}, slot...), structure...) {
				if seen[p] {
					r.Count("d.duplicate-programs-skipped", 1)
					continue
				}
				seen[p] = true
				progs = append(progs, p)
				if i < len(slot) {
					nSlot++
				}
			}
		}
		parallelChunks(int64(len(progs)), 128, func(lo, hi int64) {
			if over("d") {
				return
			}
			t := newTally(r)
			for i := lo; i < hi; i++ {
				src := progs[i]
				fam := "structure"
				if i < nSlot {
					fam = "slots"
				}
				fails, obs := runProg(src)
				t.outcomes["d:"+fam+":"+obs.class]++
				t.counts["d."+fam+"-programs"]++
				states.Add(1)
				if obs.nontriv {
					t.counts["d.programs-that-compile"]++
					nontrivial.Add(1)
				}
				if obs.class == "original-does-not-parse" || obs.class == "both-fail-to-compile" {
					t.counts["d."+fam+"-programs-outside-the-language"]++
				}
				for _, f := range fails {
					r.Violation(f.sig, f.what, Case{Part: "prog", Src: src, Info: "printed: " + obs.printed})
				}
				if i%(int64(len(progs))/3+1) == 11 {
					r.Sample(map[string]interface{}{"case": Case{Part: "prog", Src: src}, "printed": obs.printed, "observed": obs.class})
				}
			}
			t.flush()
		})
	}

	partDone("d")
	flushAggregate(r)

	if n := nPanics.Load(); n > 0 {
		r.Note("the implementation panicked %d times (counted as rejecting the input; panics themselves are property C04's subject)", n)
	}
	r.Count("parser-invocations", nParse.Load())
	r.Count("scanner-invocations", nScan.Load())
	r.Count("compiler-invocations", nCompile.Load())
	r.Count("go-scanner-invocations(reference)", nGoScan.Load())

	r.Assume("(a) precedence table, 'unary operators have the highest precedence' and 'ternary operator has the lowest precedence' are taken from docs/tutorial.md, section Operator Precedences; docs/operators.md lists operators per type and says nothing about grouping")
	r.Assume("(a) the docs do not state associativity inside a binary level: pinned to Go's left-to-right rule (the tutorial's precedence paragraph and table are Go's); deviations are reported under assoc/")
	r.Assume("(a) the docs do not state how nested ternaries group (a ? b : c ? d : e, or a ternary as condition): the generator always parenthesises those, so no claim is made; a ternary between '?' and ':' needs no parentheses because only one grouping is possible")
	r.Assume("(a) selector/index/call applied to an operand bind tighter than a unary operator in front of it (-a.s is -(a.s)), as in Go; the docs show chains such as m.c() and m[\"b\"][1] but no unary example")
	r.Assume("(b) Tengo's documentation does not describe semicolon insertion (tutorial.md only says the syntax follows Go and shows newline-separated statements). The trigger set is Go's rule 1 (spec, 'Semicolons') carried to Tengo's tokens: identifier; int, float, char, string literal; break, continue, return; ++ -- ) ] }. Go's predeclared identifiers true/false/nil are the keywords true/false/undefined in Tengo and stay in the set; export is in the set because tutorial.md defines it as the module-level 'return'; fallthrough has no counterpart. A comment containing a newline acts as a newline, any other comment as a space (Go spec, 'Comments'); the end of input ends a line; an inserted semicolon carries the literal \"\\n\", a written one \";\" (go/scanner's convention)")
	r.Assume("(b) parse level: only layouts where both the layout and its reference spelling parse are compared; Tengo tolerates a newline (not ';') before the closing bracket of call arguments / array / map literals (tutorial.md's multi-line map example relies on it), which is therefore not compared")
	r.Assume("(c) reference = go/scanner (one INT/FLOAT/CHAR/STRING token, no error) + go/constant / strconv.Unquote for the value, Go toolchain " + runtime.Version() + "; a Go literal whose value is not an int64 / finite float64 counts as 'must be rejected' (Tengo int = int64, float = float64 per tutorial.md); a leading sign is not part of a literal")
	r.Assume("(d) compilation is compared through tengo.FormatInstructions of main and of every CompiledFunction constant plus NumParameters/VarArgs/NumLocals, other constants through engine/val.Snapshot; source positions are not compared")

	runtime.KeepAlive(ballast)
	r.Finish(report.Coverage{
		States:      states.Load(),
		Transitions: nParse.Load() + nScan.Load() + nCompile.Load(),
		Validated:   states.Load(),
		Evaluations: states.Load(),
		Nontrivial:  nontrivial.Load(),
		Rule: "state = one distinct input text: (a) every expression tree with <= N operator nodes over 19 binary + 4 unary operators, ternary, call, index, selector (full operator set up to N, a reduced set at N+1; leaves assigned left to right from the cycle a b c d 1 2, each tree once starting at a and once starting at 1), enumerated by rank; " +
			"(b) every (context, t1, t2, separator) layout; (c) every spelling of length <= L over the number alphabet, every quoted body of length <= Q over the quoted alphabet in ' \" ` quotes, every complete \\x \\u \\U \\ooo escape over the boundary digit sets; " +
			"(d) every slot-template x pool-expression program and every statement sequence with <= S statements, nesting <= 2. transition = one parser / scanner / compiler invocation on the implementation. " +
			"non-trivial = (a) every tree; (b) layout where both the layout and its reference spelling parse; (c) spelling that is a valid Go literal; (d) program that parses and compiles",
	})
}
