package main

// Part (d): print -> reparse -> recompile. Two exhaustive families of
// programs (map keys and module names are plain identifiers throughout):
//
//	slots:     every expression of the pool E in every slot of every
//	           statement / expression template;
//	structure: every statement sequence with at most N statements in total
//	           (a compound statement counts 1 plus the statements of its
//	           blocks), nesting depth <= 2, over the statement forms below.
//
// For every program: parse, take File.String(), parse that, compile both with
// a fresh compiler (same predefined globals, same module map) and compare the
// instruction listing of main and of every function constant and the values of
// all other constants.

import (
	"fmt"
	goparser "go/parser"
	gotoken "go/token"
	"strconv"
	"strings"

	"github.com/d5/tengo/v2"
	"github.com/d5/tengo/v2/parser"
	"verif/engine/val"
)

var progGlobals = []string{"a", "b", "m", "f"}

func newModules() *tengo.ModuleMap {
	mods := tengo.NewModuleMap()
	mods.AddBuiltinModule("mod", map[string]tengo.Object{"k": &tengo.Int{Value: 7}})
	mods.AddSourceModule("lib", []byte("export {k: 1, j: func(x) { return x + 1 }}"))
	return mods
}

// listing compiles f and renders everything the property compares.
func listing(f *parser.File, sf *parser.SourceFile) (out string, err error) {
	nCompile.Add(1)
	defer func() {
		if r := recover(); r != nil {
			nPanics.Add(1)
			err = fmt.Errorf("PANIC in compiler: %v", r)
		}
	}()
	st := tengo.NewSymbolTable()
	for _, g := range progGlobals {
		st.Define(g)
	}
	c := tengo.NewCompiler(sf, st, nil, newModules(), nil)
	if err := c.Compile(f); err != nil {
		return "", err
	}
	bc := c.Bytecode()
	var sb strings.Builder
	sb.WriteString("MAIN\n")
	for _, l := range tengo.FormatInstructions(bc.MainFunction.Instructions, 0) {
		sb.WriteString("  " + l + "\n")
	}
	for i, k := range bc.Constants {
		switch fn := k.(type) {
		case *tengo.CompiledFunction:
			fmt.Fprintf(&sb, "CONST %d FUNC params=%d varargs=%v locals=%d\n", i, fn.NumParameters, fn.VarArgs, fn.NumLocals)
			for _, l := range tengo.FormatInstructions(fn.Instructions, 0) {
				sb.WriteString("  " + l + "\n")
			}
		default:
			fmt.Fprintf(&sb, "CONST %d %s %s\n", i, k.TypeName(), val.Snapshot(k))
		}
	}
	return sb.String(), nil
}

func compileErrClass(err error) string {
	// message without the position line
	return firstLine(err.Error())
}

type progObs struct {
	class     string
	nontriv   bool
	printed   string
	origError string
}

// goAccepts: the statement list is syntactically valid Go (inside a function body). For the constructs the slot
// and structure programs are built from (no types, labels, go/defer), Tengo's statement grammar contains Go's:
// what Go's parser accepts, Tengo must accept as well. Tengo-only forms are simply not judged by this.
func goAccepts(src string) bool {
	_, err := goparser.ParseFile(gotoken.NewFileSet(), "p.go", "package p\nfunc _() {\n"+src+"\n}\n", goparser.SkipObjectResolution)
	return err == nil
}

// runProg checks one program text.
func runProg(src string) (fails []fail, obs progObs) {
	f1, sf1, err := parseSrc(src)
	if err != nil {
		obs.class = "original-does-not-parse"
		obs.origError = firstLine(err.Error())
		if goAccepts(src) {
			obs.class = "go-valid-statement-rejected"
			fails = append(fails, fail{"accept/go-valid-statements-rejected",
				fmt.Sprintf("%q is rejected (%s) although it is built only from forms Tengo shares with Go, whose parser accepts it", src, obs.origError)})
		}
		return
	}
	printed := f1.String()
	obs.printed = printed
	sigKind := func() string {
		if bad := smallestNonRoundTripping(f1); bad != nil {
			return nodeKindForSig(bad)
		}
		for _, s := range f1.Stmts {
			if !standaloneRoundTrips(s) {
				return "context/" + typeName(s)
			}
		}
		return "sequence"
	}
	l1, cerr1 := listing(f1, sf1)
	f2, sf2, err2 := parseSrc(printed)
	if err2 != nil {
		fails = append(fails, fail{"print/" + sigKind(),
			fmt.Sprintf("%q prints as %q which does not parse: %s", src, printed, firstLine(err2.Error()))})
		obs.class = "reparse-fails"
		obs.nontriv = cerr1 == nil
		return
	}
	l2, cerr2 := listing(f2, sf2)
	switch {
	case cerr1 != nil && cerr2 != nil:
		obs.class = "both-fail-to-compile"
		if compileErrClass(cerr1) != compileErrClass(cerr2) {
			fails = append(fails, fail{"print/" + sigKind() + "/compile-error-differs",
				fmt.Sprintf("%q fails with %q, its printed form %q with %q", src, compileErrClass(cerr1), printed, compileErrClass(cerr2))})
			obs.class = "compile-errors-differ"
		}
	case cerr1 != nil || cerr2 != nil:
		obs.class = "one-fails-to-compile"
		fails = append(fails, fail{"print/" + sigKind(),
			fmt.Sprintf("%q compiles: %v; its printed form %q compiles: %v (errors: %v / %v)", src, cerr1 == nil, printed, cerr2 == nil, cerr1, cerr2)})
	case l1 != l2:
		obs.class = "listing-differs"
		obs.nontriv = true
		fails = append(fails, fail{"print/" + sigKind(),
			fmt.Sprintf("%q and its printed form %q compile differently:\n%s--- printed form:\n%s", src, printed, l1, l2)})
	default:
		obs.class = "same-listing"
		obs.nontriv = true
	}
	return
}

// ---- family 1: slots ---------------------------------------------------------

var exprPool = []string{
	"a", "1", "2.5", "0x1F", "1e3", `"s"`, "`r`", "'c'", `'\n'`, "true", "false", "undefined",
	"a + b", "a - b * 2", "(a + b) * 2", "a && b || !a", "a &^ b", "a & ^b", "-a", "!a", "^a", "+a", "- -a", "a - -b",
	"a < b ? a : b", "a ? b : a ? 1 : 2", "(a ? b : a) ? 1 : 2",
	"f(a)", "f()", "f(a, b)", "f(a, b...)", "f([1, 2]...)", "f(a)(b)",
	"a[0]", "a[b]", "m.k", "m.k.j", `m["k"]`, "m.k[0]", "f(a).k", "a[1:2]", "a[:2]", "a[1:]", "a[:]", `"str"[1]`, "[1, 2][0]",
	"[]", "[1]", `[1, a, "s"]`, "[[1], [2]]", "{}", "{k: 1}", "{k: 1, j: a}", "{k: {j: 2}}", "{k: [1]}", "{k: func() { return 1 }}",
	"immutable([1, 2])", "immutable({k: 1})", `error("e")`, "error(a)",
	`import("mod")`, `import("lib")`, `import("mod").k`,
	"func() {}", "func() { return }", "func() { return 1 }", "func(x) { return x }", "func(x, y) { return x + y }",
	"func(...x) { return x }", "func(x, ...y) { return y }", "func(x) { return func(y) { return x + y } }",
	"func() { return a }()", "func(x) { v := x; return v }(1)", "func(x) { if x { return 1 }; return 2 }",
	"func() { for i := 0; i < 2; i++ { if i { continue }; break } }",
	// a selector applied directly to a number literal (legal: white space separates the tokens)
	"1 .k", "0x1 .f", "1 .e1", "1.5.k",
	// explicit parentheses around every kind of operand of a postfix form
	"(1).k", "(a)", "(a.k)", "(f)(a)", "(func() { return 1 })()", "(a ? b : 1).k", "(-a).k", "(a + b).k", "(a + b)[0]", "(a + b)(1)", "(1)[0]", "({k: 1}).k", "([1])[0]",
}

var slotTemplates = []string{
	// statements
	"v := $", "a = $", "a += $", "a -= $", "a *= $", "a /= $", "a %= $", "a &= $", "a |= $", "a ^= $", "a &^= $", "a <<= $", "a >>= $",
	"m.k = $", "a[0] = $", "a[$] = 1", "$",
	"if $ { a = 1 }", "if v := $; v { a = 1 }", "if a { b = $ } else { b = 2 }", "if a { } else if $ { }",
	"for $ { break }", "for i := $; i < 2; i++ { }", "for i := 0; $; i++ { }", "for i := 0; i < 2; i += $ { }",
	"for v in $ { a = v }", "for k, v in $ { a = k }",
	// the blank identifier in either position (a single variable is the VALUE, so `k, _` cannot be shortened)
	"for k, _ in $ { a = k }", "for _, v in $ { a = v }", "for _ in $ { a = 1 }", "for _, _ in $ { a = 1 }",
	"v := func() { return $ }", "f($)", "f(1, $)", "f($...)",
	// expression positions
	"v := [$]", "v := [1, $]", "v := {k: $}", "v := $ ? 1 : 2", "v := a ? $ : 2", "v := a ? 1 : $", "v := ($)",
	"v := -$", "v := !$", "v := $ + 1", "v := 1 + $", "v := 1 * $", "v := $ * 1", "v := $ || 1", "v := $ == 1",
	"v := $[0]", "v := $.k", "v := $(1)", "v := $[1:2]", "v := a[$:]", "v := a[:$]", "v := a[$]",
	"v := immutable($)", "v := error($)",
}

func slotPrograms() []string {
	var out []string
	for _, t := range slotTemplates {
		for _, e := range exprPool {
			out = append(out, strings.ReplaceAll(t, "$", e))
		}
	}
	return out
}

// ---- family 2: statement structure --------------------------------------------
//
// Templates use '@' for "define a fresh variable" and '#' for "the variable
// most recently defined"; names are assigned after generation so that no
// scope ever redefines a name.

type simpleForm struct {
	text   string
	inLoop bool // only inside a loop body
	inFunc bool // only inside a function body
}

var simpleForms = []simpleForm{
	{"@ := 1", false, false},
	{"a = b", false, false},
	{"a += 1", false, false},
	{"a++", false, false},
	{"m.k--", false, false},
	{"f(a)", false, false},
	{";", false, false},
	{"a[0] = m.k ? 1 : 2", false, false},
	{"break", true, false},
	{"continue", true, false},
	{"return", false, true},
	{"return a", false, true},
}

type compoundForm struct {
	parts  []string // text between the blocks: parts[0] B parts[1] B ... parts[n]
	loop   bool     // blocks are loop bodies
	fn     bool     // blocks are function bodies
	blocks int
}

func cf(loop, fn bool, parts ...string) compoundForm {
	return compoundForm{parts: parts, loop: loop, fn: fn, blocks: len(parts) - 1}
}

var compoundForms = []compoundForm{
	cf(false, false, "if a {", "}"),
	cf(false, false, "if a {", "} else {", "}"),
	cf(false, false, "if a {", "} else if b {", "}"),
	cf(false, false, "if a {", "} else if b {", "} else {", "}"),
	cf(false, false, "if @ := f(a); # {", "}"),
	cf(true, false, "for {", "}"),
	cf(true, false, "for a {", "}"),
	cf(true, false, "for @ := 0; # < 2; #++ {", "}"),
	cf(true, false, "for ; a; {", "}"),
	cf(true, false, "for @ := 0; ; {", "}"),
	cf(true, false, "for ; ; a++ {", "}"),
	cf(true, false, "for @ in a {", "}"),
	cf(true, false, "for @, @ in m {", "}"),
	cf(true, false, "for @, _ in m {", "}"),
	cf(true, false, "for _, @ in m {", "}"),
	cf(false, true, "@ := func(x, ...y) {", "}"),
	cf(false, true, "f(func() {", "})"),
}

type genKey struct {
	n, depth int
	loop, fn bool
}

type progGen struct {
	maxDepth int
	seqMemo  map[genKey][]string
	stmtMemo map[genKey][]string
}

// seqs: all statement sequences with exactly n statements in total.
func (g *progGen) seqs(n, depth int, loop, fn bool) []string {
	if n == 0 {
		return []string{""}
	}
	k := genKey{n, depth, loop, fn}
	if r, ok := g.seqMemo[k]; ok {
		return r
	}
	var out []string
	for j := 1; j <= n; j++ {
		firsts := g.stmts(j, depth, loop, fn)
		rests := g.seqs(n-j, depth, loop, fn)
		for _, s := range firsts {
			for _, r := range rests {
				if r == "" {
					out = append(out, s)
				} else {
					out = append(out, s+"\n"+r)
				}
			}
		}
	}
	g.seqMemo[k] = out
	return out
}

// stmts: all single statements of total size j.
func (g *progGen) stmts(j, depth int, loop, fn bool) []string {
	k := genKey{j, depth, loop, fn}
	if r, ok := g.stmtMemo[k]; ok {
		return r
	}
	var out []string
	if j == 1 {
		for _, s := range simpleForms {
			if (s.inLoop && !loop) || (s.inFunc && !fn) {
				continue
			}
			out = append(out, s.text)
		}
	}
	if depth < g.maxDepth {
		for _, c := range compoundForms {
			l2, f2 := loop || c.loop, fn
			if c.fn {
				l2, f2 = false, true
			}
			// distribute j-1 statements over the blocks
			var rec func(b, left int, acc string)
			rec = func(b, left int, acc string) {
				if b == c.blocks {
					if left == 0 {
						out = append(out, acc+c.parts[b])
					}
					return
				}
				hi := left
				lo := 0
				if b == c.blocks-1 {
					lo = left
				}
				for n := lo; n <= hi; n++ {
					for _, body := range g.seqs(n, depth+1, l2, f2) {
						sep := " "
						if body != "" {
							body = " " + strings.ReplaceAll(body, "\n", "; ")
						}
						rec(b+1, left-n, acc+c.parts[b]+body+sep)
					}
				}
			}
			rec(0, j-1, "")
		}
	}
	g.stmtMemo[k] = out
	return out
}

// number replaces '@' / '#' placeholders by variable names.
func number(p string) string {
	if !strings.ContainsAny(p, "@#") {
		return p
	}
	var sb strings.Builder
	n := 0
	for i := 0; i < len(p); i++ {
		switch p[i] {
		case '@':
			n++
			sb.WriteString("v" + strconv.Itoa(n))
		case '#':
			sb.WriteString("v" + strconv.Itoa(n))
		default:
			sb.WriteByte(p[i])
		}
	}
	return sb.String()
}

func structurePrograms(maxStmts int) []string {
	g := &progGen{maxDepth: 2, seqMemo: map[genKey][]string{}, stmtMemo: map[genKey][]string{}}
	var out []string
	for n := 0; n <= maxStmts; n++ {
		for _, p := range g.seqs(n, 0, false, false) {
			out = append(out, number(p))
		}
	}
	return out
}
