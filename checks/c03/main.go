// C03: dead-code elimination never changes what a program does.
//
// Every program of the enumerated families is compiled twice by the same
// compiler: normally, and with elimination switched off (hook
// Compiler.VerifSetNoDCE). (a) Every function pair is explored as a product
// transition system over (pc_unoptimised, pc_optimised) from (0,0): related
// instructions must be identical up to jump operands, jump targets must be
// related again, the reported source position must be identical; every
// reachable unoptimised instruction therefore has a partner, i.e. nothing
// removed was reachable. (b) Both programs are run on the real VM with the
// same inputs; globals, error text (with positions and trace) and executed
// step counts must be equal.
package main

import (
	"fmt"
	"strings"
	"sync/atomic"

	"github.com/d5/tengo/v2"
	"verif/engine/bcv"
	"verif/engine/gen"
	"verif/engine/report"
	"verif/engine/tg"
	"verif/engine/val"
)

type Case struct {
	Family  string `json:"family"`
	Budget  int    `json:"budget"`
	Depth   int    `json:"depth"`
	Rich    bool   `json:"rich"`
	Choices []int  `json:"choices"`
	Kind    string `json:"kind,omitempty"` // tails family
	K       int    `json:"k,omitempty"`
	Source  string `json:"source,omitempty"`
}

type fail struct{ sig, what string }

type stats struct{ pairs, trans, fnPairs, runs, removed, removedFns int64 }

func program(c Case) (*gen.Program, string) {
	switch c.Family {
	case "cflow":
		p := gen.Replay(c.Choices, gen.Cflow(gen.CflowCfg{Budget: c.Budget, MaxDepth: c.Depth, Rich: c.Rich}))
		return p.Prog, p.Placement
	case "func":
		return gen.Replay(c.Choices, gen.Funcs(gen.FuncCfg{Budget: c.Budget})), "func"
	case "tails":
		return gen.Tails(c.Kind, c.K), "tails:" + c.Kind
	case "dce":
		p := gen.Replay(c.Choices, gen.Dce)
		return p.Prog, p.Placement
	case "limits":
		return gen.Limits(c.Kind, c.K), fmt.Sprintf("limits:%s/size=%d", c.Kind, c.K)
	}
	return nil, ""
}

var inputCombos = [][2]bool{{true, false}, {false, true}, {true, true}, {false, false}}

func boolObj(b bool) tengo.Object {
	if b {
		return tengo.TrueValue
	}
	return tengo.FalseValue
}

func runCase(c Case, st *stats) (fails []fail, obs string) {
	prog, placement := program(c)
	if prog == nil {
		return []fail{{"internal/unknown-family", c.Family}}, ""
	}
	src := tg.Print(prog)
	add := func(sig, what string) { fails = append(fails, fail{sig + "/placement=" + placement, what}) }
	inputs := func(i int) map[string]tengo.Object {
		m := map[string]tengo.Object{}
		for _, n := range prog.Inputs {
			switch n {
			case "P":
				m[n] = boolObj(inputCombos[i][0])
			case "Q":
				m[n] = boolObj(inputCombos[i][1])
			}
		}
		return m
	}
	opt := tg.CompileDirect(src.Main.Src, inputs(0), src.ModMap, false, false)
	raw := tg.CompileDirect(src.Main.Src, inputs(0), src.ModMap, true, false)
	if opt.Class != raw.Class {
		add("compile-outcome-differs", fmt.Sprintf("optimised compile: %s, unoptimised: %s (%s | %s)", opt.Class, raw.Class, tg.FirstLine(opt.ErrText), tg.FirstLine(raw.ErrText)))
		return fails, "compile-differs"
	}
	if opt.Class != "ok" {
		return nil, "compile:" + opt.Class
	}
	co, cr := opt.Bytecode.Constants, raw.Bytecode.Constants
	if len(co) != len(cr) {
		add("constants-differ", fmt.Sprintf("constant pools differ in length: %d vs %d", len(co), len(cr)))
		return fails, "constants-differ"
	}
	removedAny := false
	pair := func(name string, u, o *tengo.CompiledFunction) {
		r := bcv.Bisim(u, o)
		atomic.AddInt64(&st.pairs, int64(r.Pairs))
		atomic.AddInt64(&st.trans, int64(r.Transitions))
		atomic.AddInt64(&st.fnPairs, 1)
		if len(o.Instructions) < len(u.Instructions) {
			atomic.AddInt64(&st.removed, int64(len(u.Instructions)-len(o.Instructions)))
			atomic.AddInt64(&st.removedFns, 1)
			removedAny = true
		}
		for _, f := range r.Findings {
			add("bisim/"+f.Kind, name+": "+f.Msg)
		}
	}
	pair("main", raw.Bytecode.MainFunction, opt.Bytecode.MainFunction)
	for i := range co {
		fo, ok1 := co[i].(*tengo.CompiledFunction)
		fr, ok2 := cr[i].(*tengo.CompiledFunction)
		if ok1 != ok2 {
			add("constants-differ", fmt.Sprintf("constant %d is a function in only one compilation", i))
			continue
		}
		if ok1 {
			pair(fmt.Sprintf("const#%d", i), fr, fo)
		} else if val.Snapshot(co[i]) != val.Snapshot(cr[i]) {
			add("constants-differ", fmt.Sprintf("constant %d: %s vs %s", i, val.Snapshot(co[i]), val.Snapshot(cr[i])))
		}
	}
	// dynamic comparison
	nruns := len(inputCombos)
	if len(prog.Inputs) == 0 {
		nruns = 1
	}
	classes := ""
	for i := 0; i < nruns; i++ {
		run := func(d tg.Direct) (tg.VMRun, string) {
			globals := make([]tengo.Object, len(d.Globals))
			copy(globals, d.Globals)
			for n, v := range inputs(i) {
				globals[d.Names[n]] = v
			}
			r := tg.RunVM(d.Bytecode, globals, -1, 3000, nil)
			m := map[string]tengo.Object{}
			for n, idx := range d.Names {
				if o := globals[idx]; o != nil {
					m[n] = o
				}
			}
			return r, tg.GlobalsSnapshot(m)
		}
		ro, go_ := run(opt)
		rr, gr := run(raw)
		atomic.AddInt64(&st.runs, 1)
		classes += ro.Class[:1]
		if ro.Class != rr.Class {
			add("run/class-differs", fmt.Sprintf("inputs %v: optimised %s, unoptimised %s", inputCombos[i], ro.Class, rr.Class))
			continue
		}
		if ro.Class == "panic" {
			if tg.FirstLine(ro.ErrText) != tg.FirstLine(rr.ErrText) {
				add("run/panic-differs", tg.FirstLine(ro.ErrText)+" vs "+tg.FirstLine(rr.ErrText))
			}
			continue
		}
		if ro.ErrText != rr.ErrText {
			add("run/error-differs", fmt.Sprintf("inputs %v: %q vs %q", inputCombos[i], ro.ErrText, rr.ErrText))
		}
		if go_ != gr {
			add("run/globals-differ", fmt.Sprintf("inputs %v: %s vs %s", inputCombos[i], go_, gr))
		}
		if ro.Steps != rr.Steps {
			add("run/steps-differ", fmt.Sprintf("inputs %v: %d vs %d executed instructions", inputCombos[i], ro.Steps, rr.Steps))
		}
	}
	obs = "runs:" + classes
	if removedAny {
		obs += "/dce-removed"
	}
	return fails, obs
}

func main() {
	if p := report.ReplayArg(); p != "" {
		rp, err := report.LoadReplay(p)
		if err != nil {
			fmt.Println("cannot load replay:", err)
			return
		}
		for _, raw := range rp.Cases {
			var c Case
			_ = report.Recase(raw, &c)
			var st stats
			fails, obs := runCase(c, &st)
			prog, _ := program(c)
			fmt.Printf("case family=%s choices=%v\n%s\n  observed: %s\n", c.Family, c.Choices, tg.Print(prog).AllText, obs)
			for _, f := range fails {
				fmt.Printf("  FAIL %s: %s\n", f.sig, f.what)
			}
		}
		return
	}
	r := report.New("C03")
	var st stats
	distinct := report.NewDistinctSet()
	var evals int64
	type fam struct {
		name string
		c    Case
	}
	fams := []fam{
		{"cflow", Case{Family: "cflow", Budget: r.Pick(3, 4), Depth: 2}},
		{"cflow-rich", Case{Family: "cflow", Budget: r.Pick(2, 3), Depth: 2, Rich: true}},
		{"func", Case{Family: "func", Budget: r.Pick(2, 3)}},
		{"dce", Case{Family: "dce"}},
	}
	for _, f := range fams {
		f := f
		visit := func(choices []int, text string) {
			c := f.c
			c.Choices = append([]int{}, choices...)
			fails, obs := runCase(c, &st)
			n := atomic.AddInt64(&evals, 1)
			if strings.HasSuffix(obs, "/dce-removed") {
				distinct.Add(text)
			}
			r.Outcome(f.name + "/" + obs)
			r.Count("programs/"+f.name, 1)
			if n%20011 == 1 {
				r.Sample(map[string]interface{}{"family": f.name, "choices": c.Choices, "source": text, "observed": obs})
			}
			for _, fl := range fails {
				c.Source = text
				r.Violation(fl.sig, fl.what, c)
			}
		}
		switch f.c.Family {
		case "cflow":
			g := gen.Cflow(gen.CflowCfg{Budget: f.c.Budget, MaxDepth: f.c.Depth, Rich: f.c.Rich})
			gen.ParallelEnumerate(g, 3, func(p gen.CflowProgram, ch []int) {
				if strings.HasPrefix(p.Placement, "main") {
					return // the main function is never optimised: nothing to compare
				}
				visit(ch, tg.Print(p.Prog).AllText)
			})
		case "func":
			g := gen.Funcs(gen.FuncCfg{Budget: f.c.Budget})
			gen.ParallelEnumerate(g, 3, func(p *gen.Program, ch []int) { visit(ch, tg.Print(p).AllText) })
		case "dce":
			gen.ParallelEnumerate(gen.Dce, 3, func(p gen.CflowProgram, ch []int) { visit(ch, tg.Print(p.Prog).AllText) })
		}
	}
	var tails []Case
	for _, k := range gen.TailKinds {
		for i := 0; i < gen.TailCount(k); i++ {
			tails = append(tails, Case{Family: "tails", Kind: k, K: i})
		}
	}
	// limits family: operands beyond one byte / code beyond 64 KiB pass through the optimiser's decode and re-encode
	for _, k := range gen.LimitKinds {
		for _, n := range gen.LimitSizes(k) {
			tails = append(tails, Case{Family: "limits", Kind: k, K: n})
		}
	}
	report.ParallelFor(len(tails), func(i int) {
		c := tails[i]
		fails, obs := runCase(c, &st)
		atomic.AddInt64(&evals, 1)
		prog, _ := program(c)
		text := tg.Print(prog).AllText
		if strings.HasSuffix(obs, "/dce-removed") {
			distinct.Add(text)
		}
		r.Outcome(c.Family + "/" + obs)
		r.Count("programs/"+c.Family, 1)
		for _, fl := range fails {
			if c.Family != "limits" {
				c.Source = text
			}
			r.Violation(fl.sig, fl.what, c)
		}
	})
	r.Set("function_pairs", st.fnPairs)
	r.Set("functions_where_dce_removed_code", st.removedFns)
	r.Set("bytes_removed_by_dce", st.removed)
	r.Assume("the unoptimised twin is produced by the same compiler with passes 1-4 of optimizeFunc skipped (hook VerifSetNoDCE) and a trailing RET appended; the main function is not optimised by the compiler in either build")
	r.Finish(report.Coverage{
		States:      st.pairs,
		Transitions: st.trans,
		Validated:   st.runs,
		Evaluations: evals,
		Nontrivial:  distinct.Len(),
		Rule:        "programs = every element of the cflow/func families below the stated statement budget; states/transitions = related pairs (pc_unopt,pc_opt) and product edges over all function pairs; validated = paired VM runs (optimised vs unoptimised, same inputs) compared on globals, error text and step count; non-trivial = distinct programs in which elimination actually removed instructions",
	})
}
