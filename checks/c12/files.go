package main

// File-import programs (the CLI's situation: `tengo -o out main.tengo; tengo out`): modules read from
// *.tengo files under an import directory are recorded in the file set under their path. The error text
// of a failing run - message, file names, line:column of every frame - must be the same for the
// original bytecode, the de-duplicated one and both after Encode/Decode.

import (
	"fmt"
	"os"
	"path/filepath"
	"sort"

	"github.com/d5/tengo/v2"
	"verif/engine/tg"
	"verif/engine/val"
)

type fileProg struct {
	name  string
	main  string
	files map[string]string // path relative to the import dir -> source
}

var fileProgs = []fileProg{
	{"error-in-file-function", "lib := import(\"lib\")\nout := lib.f(1)\n",
		map[string]string{"lib.tengo": "k := \"s\"\nexport {f: func(x) {\n\treturn x + k\n}}\n"}},
	{"error-at-file-top-level", "a := 1\nlib := import(\"lib\")\nout := a\n",
		map[string]string{"lib.tengo": "x := 1\n\ny := x + \"s\"\nexport y\n"}},
	{"error-in-nested-file", "top := import(\"top\")\nout := top.g(2)\n",
		map[string]string{"top.tengo": "lib := import(\"sub/deep\")\nexport {g: func(v) { return lib.f(v) }}\n",
			"sub/deep.tengo": "export {f: func(x) {\n\n\treturn x - \"s\"\n}}\n"}},
	{"error-in-main-after-file-import", "lib := import(\"lib\")\nout := lib.one + \"s\"\n",
		map[string]string{"lib.tengo": "export {one: 1}\n"}},
	{"same-file-twice-and-value", "a := import(\"lib\")\nb := import(\"lib\")\nout := [a.one, b.one, a.one / 0]\n",
		map[string]string{"lib.tengo": "export {one: 1}\n"}},
	{"file-and-map-module", "t := import(\"text\")\nlib := import(\"lib\")\nout := lib.f(t.to_upper(\"a\"))\n",
		map[string]string{"lib.tengo": "export {f: func(s) { return s - 1 }}\n"}},
	{"success", "lib := import(\"lib\")\nout := lib.f(1)\n",
		map[string]string{"lib.tengo": "export {f: func(x) { return [x, 1.0, 'a', \"a\", 97] }}\n"}},
}

func runFileProg(fp fileProg, st *stats) (fails []fail, obs string) {
	add := func(sig, what string) { fails = append(fails, fail{sig + "/family=files/prog=" + fp.name, what}) }
	base := os.Getenv("VERIF_SCR")
	if base == "" {
		base = os.TempDir()
	}
	dir, err := os.MkdirTemp(base, "c12files-")
	if err != nil {
		return []fail{{"internal/files-scratch", err.Error()}}, ""
	}
	defer os.RemoveAll(dir)
	for rel, src := range fp.files {
		p := filepath.Join(dir, rel)
		_ = os.MkdirAll(filepath.Dir(p), 0o755)
		if err := os.WriteFile(p, []byte(src), 0o644); err != nil {
			return []fail{{"internal/files-scratch", err.Error()}}, ""
		}
	}
	mm := modules(tg.Sources{ModMap: tengo.NewModuleMap()})
	compile := func() (*tengo.Bytecode, map[string]int, []tengo.Object, error) {
		s := tengo.NewScript([]byte(fp.main))
		s.SetImports(mm)
		s.EnableFileImport(true)
		if err := s.SetImportDir(dir); err != nil {
			return nil, nil, nil, err
		}
		c, err := s.Compile()
		if err != nil {
			return nil, nil, nil, err
		}
		return c.VerifBytecode(), c.VerifGlobalIndexes(), c.VerifGlobals(), nil
	}
	// Script.Compile de-duplicates already: B0 = as the embedder gets it; B2 = B0 through Encode/Decode
	b0, names, g0, err := compile()
	if err != nil {
		return []fail{{"internal/files-compile", fp.name + ": " + err.Error()}}, "compile-error"
	}
	run := func(bc *tengo.Bytecode) (tg.VMRun, string) {
		globals := make([]tengo.Object, len(g0))
		r := tg.RunVM(bc, globals, -1, 100000, nil)
		m := map[string]tengo.Object{}
		for n, idx := range names {
			if o := globals[idx]; o != nil {
				m[n] = o
			}
		}
		var ks []string
		for k := range m {
			ks = append(ks, k)
		}
		sort.Strings(ks)
		s := ""
		for _, k := range ks {
			s += k + "=" + val.Snapshot(m[k]) + ";"
		}
		return r, s
	}
	r0, gl0 := run(b0)
	st.runs++
	b2, derr, pan := roundTrip(b0, mm)
	if pan != "" || derr != nil {
		add("serialise/files-roundtrip-fails", fmt.Sprintf("%v %s", derr, pan))
		return fails, "roundtrip-failed"
	}
	r2, gl2 := run(b2)
	st.runs++
	st.variants++
	if r2.Class != r0.Class {
		add("run/files-gob/class-differs", fmt.Sprintf("original %s, decoded %s: %s", r0.Class, r2.Class, tg.FirstLine(r2.ErrText)))
	} else if r2.ErrText != r0.ErrText {
		add("run/files-gob/error-differs", fmt.Sprintf("%q vs %q", r0.ErrText, r2.ErrText))
	} else if gl0 != gl2 {
		add("run/files-gob/globals-differ", gl0+" vs "+gl2)
	}
	return fails, "files:" + r0.Class[:1]
}

// Exact-fit configurations: with tengo.MaxStringLen / MaxBytesLen lowered to exactly the size of the program's
// largest constant, the program compiles and runs; its bytecode must then also survive Encode/Decode (a constant
// that is legal for the compiler is legal for the decoder). Sequential: the limits are package variables.
var exactFitProgs = []struct {
	name, src        string
	maxStr, maxBytes int
}{
	{"string-constant-exact", "s := \"abcdefgh\"\nout := [len(s), s + \"\", \"abcd\"]\n", 8, 0},
	{"string-constant-exact-in-function", "f := func() { return \"abcdefgh\" }\nout := f()\n", 8, 0},
	{"string-constant-one-below", "s := \"abcdefg\"\nout := s\n", 8, 0},
	{"bytes-module-exact", "out := import(\"bytesmod\")\n", 0, 3},
	{"selector-name-exact", "m := {}\nm.abcdefgh = 1\nout := m\n", 8, 0},
	{"module-string-exact", "out := import(\"strmod\")\n", 8, 0},
}

func runExactFit(i int, st *stats) (fails []fail, obs string) {
	p := exactFitProgs[i]
	add := func(sig, what string) { fails = append(fails, fail{sig + "/family=exact-fit/prog=" + p.name, what}) }
	oldS, oldB := tengo.MaxStringLen, tengo.MaxBytesLen
	defer func() { tengo.MaxStringLen, tengo.MaxBytesLen = oldS, oldB }()
	if p.maxStr > 0 {
		tengo.MaxStringLen = p.maxStr
	}
	if p.maxBytes > 0 {
		tengo.MaxBytesLen = p.maxBytes
	}
	mm := modules(tg.Sources{ModMap: tengo.NewModuleMap()})
	for n, o := range tg.ObjModules() {
		mm.Add(n, tg.ObjModule{Obj: o})
	}
	mm.AddSourceModule("strmod", []byte("export \"abcdefgh\"\n"))
	s := tengo.NewScript([]byte(p.src))
	s.SetImports(mm)
	c, err := s.Compile()
	if err != nil {
		return []fail{{"internal/exact-fit-compile", p.name + ": " + err.Error()}}, "compile-error"
	}
	b0, names := c.VerifBytecode(), c.VerifGlobalIndexes()
	run := func(bc *tengo.Bytecode) (tg.VMRun, string) {
		globals := make([]tengo.Object, tengo.GlobalsSize)
		r := tg.RunVM(bc, globals, -1, 100000, nil)
		out := "undefined"
		if o := globals[names["out"]]; o != nil {
			out = val.Snapshot(o)
		}
		return r, out
	}
	r0, o0 := run(b0)
	st.runs++
	b2, derr, pan := roundTrip(b0, mm)
	if pan != "" || derr != nil {
		add("serialise/exact-fit-roundtrip-fails", fmt.Sprintf("MaxStringLen=%d MaxBytesLen=%d: the program compiles and runs (%s), but Encode/Decode of its bytecode fails: %v %s", tengo.MaxStringLen, tengo.MaxBytesLen, r0.Class, derr, pan))
		return fails, "roundtrip-failed"
	}
	r2, o2 := run(b2)
	st.runs++
	st.variants++
	if r2.Class != r0.Class || r2.ErrText != r0.ErrText || o0 != o2 {
		add("run/exact-fit-gob/differs", fmt.Sprintf("original %s %s %q, decoded %s %s %q", r0.Class, o0, tg.FirstLine(r0.ErrText), r2.Class, o2, tg.FirstLine(r2.ErrText)))
	}
	return fails, "exact-fit:" + r0.Class[:1]
}
