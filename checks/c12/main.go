// C12: bytecode post-processing (constant de-duplication) and serialisation
// (gob Encode/Decode) preserve behaviour.
//
// For every program of the enumerated families four bytecodes are built:
// B0 = Compiler.Bytecode(), B1 = B0 after RemoveDuplicates, B2 =
// Decode(Encode(B1)), B3 = Decode(Encode(B0)). All are run on fresh VMs with
// the same inputs: globals and the full error text (positions, trace) must be
// equal to B0's. B1/B2 must pass the structural checks of C02 (every constant
// reference valid), and B1 must not contain two equal de-duplicable constants.
package main

import (
	"bytes"
	"fmt"
	"math"
	"sync/atomic"

	"github.com/d5/tengo/v2"
	"github.com/d5/tengo/v2/stdlib"
	"verif/engine/bcv"
	"verif/engine/gen"
	"verif/engine/report"
	"verif/engine/tg"
)

type Case struct {
	Family  string `json:"family"`
	Budget  int    `json:"budget"`
	Depth   int    `json:"depth"`
	Rich    bool   `json:"rich"`
	Choices []int  `json:"choices"`
	Kind    string `json:"kind,omitempty"`
	K       int    `json:"k,omitempty"`
	Source  string `json:"source,omitempty"`
}

type fail struct{ sig, what string }

type stats struct{ variants, runs, fnStates, fnTrans, consts, dupRemoved int64 }

var numBuiltins = len(tengo.GetAllBuiltinFunctions())

func program(c Case) *gen.Program {
	switch c.Family {
	case "consts":
		return gen.Replay(c.Choices, gen.Consts(c.Budget))
	case "cflow":
		return gen.Replay(c.Choices, gen.Cflow(gen.CflowCfg{Budget: c.Budget, MaxDepth: c.Depth, Rich: c.Rich})).Prog
	case "func":
		return gen.Replay(c.Choices, gen.Funcs(gen.FuncCfg{Budget: c.Budget}))
	case "dce":
		return gen.Replay(c.Choices, gen.Dce).Prog
	case "tails":
		return gen.Tails(c.Kind, c.K)
	case "limits":
		return gen.Limits(c.Kind, c.K)
	}
	return nil
}

func modules(src tg.Sources) *tengo.ModuleMap {
	mm := stdlib.GetModuleMap("math", "text")
	mm.AddMap(src.ModMap)
	return mm
}

func boolObj(b bool) tengo.Object {
	if b {
		return tengo.TrueValue
	}
	return tengo.FalseValue
}

var inputCombos = [][2]bool{{true, false}, {false, true}}

func roundTrip(bc *tengo.Bytecode, mm *tengo.ModuleMap) (out *tengo.Bytecode, err error, pan string) {
	defer func() {
		if r := recover(); r != nil {
			pan = fmt.Sprint(r)
		}
	}()
	var buf bytes.Buffer
	if err = bc.Encode(&buf); err != nil {
		return nil, fmt.Errorf("encode: %w", err), ""
	}
	out = &tengo.Bytecode{}
	if err = out.Decode(bytes.NewReader(buf.Bytes()), mm); err != nil {
		return nil, fmt.Errorf("decode: %w", err), ""
	}
	return out, nil, ""
}

func runCase(c Case, st *stats) (fails []fail, obs string) {
	prog := program(c)
	if prog == nil {
		return []fail{{"internal/unknown-family", c.Family}}, ""
	}
	src := tg.Print(prog)
	mm := modules(src)
	add := func(sig, what string) { fails = append(fails, fail{sig + "/family=" + c.Family, what}) }
	in0 := map[string]tengo.Object{}
	for _, n := range prog.Inputs {
		in0[n] = tengo.TrueValue
	}
	d0 := tg.CompileDirect(src.Main.Src, in0, mm, false, false)
	if d0.Class != "ok" {
		return nil, "compile:" + d0.Class
	}
	d1 := tg.CompileDirect(src.Main.Src, in0, mm, false, false)
	nBefore := len(d1.Bytecode.Constants)
	func() {
		defer func() {
			if r := recover(); r != nil {
				add("dedup/panic", fmt.Sprint(r))
			}
		}()
		d1.Bytecode.RemoveDuplicates()
	}()
	if len(fails) > 0 {
		return fails, "dedup-panic"
	}
	atomic.AddInt64(&st.consts, int64(nBefore))
	atomic.AddInt64(&st.dupRemoved, int64(nBefore-len(d1.Bytecode.Constants)))
	variants := []struct {
		name string
		bc   *tengo.Bytecode
	}{{"B1-dedup", d1.Bytecode}}
	if b2, err, pan := roundTrip(d1.Bytecode, mm); pan != "" || err != nil {
		add("serialise/B2-fails", fmt.Sprintf("Encode/Decode of de-duplicated bytecode failed: %v %s", err, pan))
	} else {
		variants = append(variants, struct {
			name string
			bc   *tengo.Bytecode
		}{"B2-dedup+gob", b2})
	}
	// idempotence: de-duplicating twice, and a second Encode/Decode of decoded bytecode
	d4 := tg.CompileDirect(src.Main.Src, in0, mm, false, false)
	func() {
		defer func() {
			if r := recover(); r != nil {
				add("dedup/panic-second-pass", fmt.Sprint(r))
			}
		}()
		d4.Bytecode.RemoveDuplicates()
		d4.Bytecode.RemoveDuplicates()
	}()
	variants = append(variants, struct {
		name string
		bc   *tengo.Bytecode
	}{"B4-dedup-twice", d4.Bytecode})
	if len(variants) > 1 {
		if b5, err, pan := roundTrip(variants[1].bc, mm); pan != "" || err != nil {
			add("serialise/B5-fails", fmt.Sprintf("second Encode/Decode failed: %v %s", err, pan))
		} else {
			variants = append(variants, struct {
				name string
				bc   *tengo.Bytecode
			}{"B5-dedup+gob-twice", b5})
		}
	}
	if b3, err, pan := roundTrip(d0.Bytecode, mm); pan != "" || err != nil {
		add("serialise/B3-fails", fmt.Sprintf("Encode/Decode of original bytecode failed: %v %s", err, pan))
	} else {
		variants = append(variants, struct {
			name string
			bc   *tengo.Bytecode
		}{"B3-gob", b3})
	}
	// structural checks on transformed bytecode
	for _, v := range variants {
		for _, r := range bcv.CheckBytecode(v.bc, tengo.GlobalsSize, numBuiltins) {
			atomic.AddInt64(&st.fnStates, int64(r.Res.States))
			atomic.AddInt64(&st.fnTrans, int64(r.Res.Transitions))
			for _, f := range r.Res.Findings {
				add("static/"+v.name+"/"+f.Kind, r.Name+": "+f.Msg)
			}
		}
	}
	// no two equal de-duplicable constants in B1
	seen := map[string]int{}
	for i, k := range d1.Bytecode.Constants {
		key := ""
		switch k := k.(type) {
		case *tengo.Int:
			key = fmt.Sprintf("int:%d", k.Value)
		case *tengo.String:
			key = "string:" + k.Value
		case *tengo.Char:
			key = fmt.Sprintf("char:%d", k.Value)
		case *tengo.Float:
			if !math.IsNaN(k.Value) {
				key = fmt.Sprintf("float:%v", k.Value)
			}
		case *tengo.ImmutableMap:
			if n, ok := k.Value["__module_name__"].(*tengo.String); ok {
				key = "module:" + n.Value
			}
		case *tengo.CompiledFunction:
			key = fmt.Sprintf("fn:%p", k)
		}
		if key == "" {
			continue
		}
		if j, dup := seen[key]; dup {
			add("dedup/equal-constants-remain", fmt.Sprintf("constants %d and %d are both %s", j, i, key))
		}
		seen[key] = i
	}
	// behaviour
	nruns := 1
	if len(prog.Inputs) > 0 {
		nruns = len(inputCombos)
	}
	classes := ""
	for i := 0; i < nruns; i++ {
		run := func(bc *tengo.Bytecode) (tg.VMRun, string) {
			globals := make([]tengo.Object, tengo.GlobalsSize)
			for n, idx := range d0.Names {
				switch n {
				case "P":
					globals[idx] = boolObj(inputCombos[i][0])
				case "Q":
					globals[idx] = boolObj(inputCombos[i][1])
				}
			}
			r := tg.RunVM(bc, globals, -1, 3000, nil)
			m := map[string]tengo.Object{}
			for n, idx := range d0.Names {
				if o := globals[idx]; o != nil {
					m[n] = o
				}
			}
			return r, tg.GlobalsSnapshot(m)
		}
		r0, g0 := run(d0.Bytecode)
		classes += r0.Class[:1]
		atomic.AddInt64(&st.runs, 1)
		for _, v := range variants {
			rv, gv := run(v.bc)
			atomic.AddInt64(&st.runs, 1)
			atomic.AddInt64(&st.variants, 1)
			if rv.Class != r0.Class {
				add("run/"+v.name+"/class-differs", fmt.Sprintf("original %s, transformed %s: %s", r0.Class, rv.Class, tg.FirstLine(rv.ErrText)))
				continue
			}
			if r0.Class == "panic" {
				continue
			}
			if rv.ErrText != r0.ErrText {
				add("run/"+v.name+"/error-differs", fmt.Sprintf("%q vs %q", r0.ErrText, rv.ErrText))
			}
			if gv != g0 {
				add("run/"+v.name+"/globals-differ", fmt.Sprintf("%s vs %s", g0, gv))
			}
		}
	}
	obs = "runs:" + classes
	if nBefore > len(d1.Bytecode.Constants) {
		obs += "/dups-removed"
	}
	return fails, obs
}

func main() {
	if p := report.ReplayArg(); p != "" {
		rp, err := report.LoadReplay(p)
		if err != nil {
			fmt.Println("cannot load replay:", err)
			return
		}
		for _, raw := range rp.Cases {
			var c Case
			_ = report.Recase(raw, &c)
			var st stats
			if c.Family == "exact-fit" {
				for i := range exactFitProgs {
					if exactFitProgs[i].name == c.Kind {
						fails, obs := runExactFit(i, &st)
						fmt.Printf("exact-fit program %s\n%s  observed: %s\n", c.Kind, exactFitProgs[i].src, obs)
						for _, f := range fails {
							fmt.Printf("  FAIL %s: %s\n", f.sig, f.what)
						}
					}
				}
				continue
			}
			if c.Family == "files" {
				for _, fp := range fileProgs {
					if fp.name == c.Kind {
						fails, obs := runFileProg(fp, &st)
						fmt.Printf("file-import program %s\n%s\nfiles: %v\n  observed: %s\n", fp.name, fp.main, fp.files, obs)
						for _, f := range fails {
							fmt.Printf("  FAIL %s: %s\n", f.sig, f.what)
						}
					}
				}
				continue
			}
			fails, obs := runCase(c, &st)
			fmt.Printf("case family=%s choices=%v\n%s\n  observed: %s\n", c.Family, c.Choices, tg.Print(program(c)).AllText, obs)
			for _, f := range fails {
				fmt.Printf("  FAIL %s: %s\n", f.sig, f.what)
			}
		}
		return
	}
	r := report.New("C12")
	var st stats
	distinct := report.NewDistinctSet()
	var evals int64
	type fam struct {
		name string
		c    Case
	}
	fams := []fam{
		{"consts", Case{Family: "consts", Budget: r.Pick(3, 4)}},
		{"cflow", Case{Family: "cflow", Budget: r.Pick(2, 3), Depth: 2, Rich: true}},
		{"func", Case{Family: "func", Budget: r.Pick(2, 3)}},
		{"dce", Case{Family: "dce"}},
	}
	for _, f := range fams {
		f := f
		visit := func(choices []int, text string) {
			c := f.c
			c.Choices = append([]int{}, choices...)
			fails, obs := runCase(c, &st)
			n := atomic.AddInt64(&evals, 1)
			distinct.Add(text)
			r.Outcome(f.name + "/" + obs)
			r.Count("programs/"+f.name, 1)
			if n%5003 == 1 {
				r.Sample(map[string]interface{}{"family": f.name, "choices": c.Choices, "source": text, "observed": obs})
			}
			for _, fl := range fails {
				c.Source = text
				r.Violation(fl.sig, fl.what, c)
			}
		}
		switch f.c.Family {
		case "consts":
			gen.ParallelEnumerate(gen.Consts(f.c.Budget), 2, func(p *gen.Program, ch []int) { visit(ch, tg.Print(p).AllText) })
		case "cflow":
			g := gen.Cflow(gen.CflowCfg{Budget: f.c.Budget, MaxDepth: f.c.Depth, Rich: f.c.Rich})
			gen.ParallelEnumerate(g, 3, func(p gen.CflowProgram, ch []int) { visit(ch, tg.Print(p.Prog).AllText) })
		case "func":
			gen.ParallelEnumerate(gen.Funcs(gen.FuncCfg{Budget: f.c.Budget}), 3, func(p *gen.Program, ch []int) { visit(ch, tg.Print(p).AllText) })
		case "dce":
			gen.ParallelEnumerate(gen.Dce, 3, func(p gen.CflowProgram, ch []int) { visit(ch, tg.Print(p.Prog).AllText) })
		}
	}
	// tails family: trailing-instruction operand values 0..40 (constant index, counts, ...)
	var tails []Case
	for _, k := range gen.TailKinds {
		for i := 0; i < gen.TailCount(k); i++ {
			tails = append(tails, Case{Family: "tails", Kind: k, K: i})
		}
	}
	// limits family: constant pools beyond 256 entries (two-byte operands rewritten by de-duplication), long code
	for _, k := range gen.LimitKinds {
		for _, n := range gen.LimitSizes(k) {
			tails = append(tails, Case{Family: "limits", Kind: k, K: n})
		}
	}
	report.ParallelFor(len(tails), func(i int) {
		c := tails[i]
		fails, obs := runCase(c, &st)
		atomic.AddInt64(&evals, 1)
		text := tg.Print(program(c)).AllText
		distinct.Add(text)
		r.Outcome(c.Family + "/" + obs)
		r.Count("programs/"+c.Family, 1)
		for _, fl := range fails {
			if c.Family != "limits" {
				c.Source = text
			}
			r.Violation(fl.sig, fl.what, c)
		}
	})
	for _, fp := range fileProgs {
		fails, obs := runFileProg(fp, &st)
		atomic.AddInt64(&evals, 1)
		distinct.Add("files/" + fp.name)
		r.Outcome("files/" + obs)
		r.Count("programs/files", 1)
		for _, fl := range fails {
			r.Violation(fl.sig, fl.what, Case{Family: "files", Kind: fp.name})
		}
	}
	for i := range exactFitProgs {
		fails, obs := runExactFit(i, &st)
		atomic.AddInt64(&evals, 1)
		distinct.Add("exact-fit/" + exactFitProgs[i].name)
		r.Outcome("exact-fit/" + obs)
		r.Count("programs/exact-fit", 1)
		for _, fl := range fails {
			r.Violation(fl.sig, fl.what, Case{Family: "exact-fit", Kind: exactFitProgs[i].name})
		}
	}
	r.Set("constants_seen", st.consts)
	r.Set("duplicate_constants_removed", st.dupRemoved)
	r.Set("abstract_states_checked_on_transformed_bytecode", st.fnStates)
	r.Assume("B0 and B1 come from two compilations of the same source (RemoveDuplicates rewrites instruction slices in place)")
	r.Finish(report.Coverage{
		States:      distinct.Len(),
		Transitions: st.runs,
		Validated:   st.variants,
		Evaluations: evals,
		Nontrivial:  distinct.Len(),
		Rule:        "programs = every element of the consts family (all sequences of <= N snippets from a 14-snippet pool of duplicate-constant / module / closure / failing shapes) and of the cflow/func families below the stated budget; state = one program; transition = one VM run of one bytecode variant; validated = transformed-variant runs compared with the original's globals and full error text",
	})
}
