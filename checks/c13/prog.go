package main

// Part B: isolation, exported value, immutability, freshness. Small programs,
// all combinations of the listed places / forms / kinds / operations.

import (
	"fmt"
	"sort"
	"strings"

	"github.com/d5/tengo/v2"
	"verif/engine/tg"
	"verif/engine/val"
)

func intp(n int) *int { return &n }

// ---- isolation ---------------------------------------------------------------

// places where the importer keeps a variable called hostvar while importing "m".
// %s is replaced by nothing; every place leaves the import value in global x.
type place struct {
	id   string
	main string
	mods map[string]string // extra modules (importing module place)
	host bool
	okX  string // snapshot of x when m is `export 1`
}

var places = []place{
	{"global-before", "hostvar := 1\nx := import(\"m\")\n", nil, false, "int:1"},
	{"global-after", "x := import(\"m\")\nhostvar := 1\n", nil, false, "int:1"},
	{"func-local", "f := func() {\n\thostvar := 1\n\ty := import(\"m\")\n\treturn y\n}\nx := f()\n", nil, false, "int:1"},
	{"func-param", "f := func(hostvar) {\n\ty := import(\"m\")\n\treturn y\n}\nx := f(1)\n", nil, false, "int:1"},
	{"free-var", "g := func() {\n\thostvar := 1\n\treturn func() {\n\t\ty := import(\"m\")\n\t\treturn [y, hostvar][0]\n\t}\n}\nx := g()()\n", nil, false, "int:1"},
	{"block-local", "x := 0\nif true {\n\thostvar := 1\n\tx = import(\"m\")\n}\n", nil, false, "int:1"},
	{"loop-var", "x := 0\nfor hostvar in [1] {\n\tx = import(\"m\")\n}\n", nil, false, "int:1"},
	{"host-injected", "x := import(\"m\")\n", nil, true, "int:1"},
	{"importing-module", "x := import(\"outer\")\n", map[string]string{"outer": "hostvar := 1\ny := import(\"m\")\nexport y\n"}, false, "int:1"},
	{"importing-module-func", "x := import(\"outer\")\n", map[string]string{"outer": "f := func(hostvar) {\n\treturn import(\"m\")\n}\nexport f(1)\n"}, false, "int:1"},
}

// the product {importer = main | a module} x {where hostvar lives} x {where the import expression stands}
func init() {
	type combo struct{ v, i string }
	combos := []combo{{"top", "top"}, {"top", "block"}, {"top", "func"}, {"top", "nested-func"},
		{"func-local", "func"}, {"func-local", "nested-func"}, {"func-param", "func"}, {"func-param", "nested-func"}, {"block-local", "block"}}
	for _, c := range combos {
		params, args, locals, top, blk := "", "", "", "", ""
		switch c.v {
		case "top":
			top = "hostvar := 1\n"
		case "func-local":
			locals = "\thostvar := 1\n"
		case "func-param":
			params, args = "hostvar", "1"
		case "block-local":
			blk = "\thostvar := 1\n"
		}
		body := top
		switch c.i {
		case "top":
			body += "y := import(\"m\")\n"
		case "block":
			body += "y := 0\nif true {\n" + blk + "\ty = import(\"m\")\n}\n"
		case "func":
			body += "f := func(" + params + ") {\n" + locals + "\treturn import(\"m\")\n}\ny := f(" + args + ")\n"
		case "nested-func":
			use := "import(\"m\")"
			if c.v != "top" {
				use = "[import(\"m\"), hostvar][0]" // hostvar becomes a captured variable of the inner function
			}
			body += "g := func(" + params + ") {\n" + locals + "\treturn func() {\n\t\treturn " + use + "\n\t}\n}\ny := g(" + args + ")()\n"
		}
		id := "var=" + c.v + "/import-in=" + c.i
		places = append(places,
			place{"main/" + id, body + "x := y\n", nil, false, "int:1"},
			place{"module/" + id, "x := import(\"outer\")\n", map[string]string{"outer": body + "export y\n"}, false, "int:1"})
	}
}

// module bodies that refer to the importer's variable
var refForms = []struct{ id, body string }{
	{"export-var", "export hostvar\n"},
	{"read-into-local", "y := hostvar\nexport y\n"},
	{"read-in-func", "export func() { return hostvar }\n"},
	{"read-in-nested-func", "f := func() { return func() { return hostvar } }\nexport f\n"},
	{"read-in-map", "export {v: hostvar}\n"},
	{"assign", "hostvar = 5\nexport 1\n"},
	{"op-assign", "hostvar += 1\nexport 1\n"},
	{"assign-in-func", "export func() { hostvar = 5 }\n"},
	{"call", "export hostvar()\n"},
	{"index", "export hostvar[0]\n"},
}

func isolationProgs() []Case {
	var out []Case
	mk := func(p place, body string) Case {
		mods := map[string]string{"m": body}
		for k, v := range p.mods {
			mods[k] = v
		}
		c := Case{Kind: "prog", Main: p.main, Mods: mods}
		if p.host {
			c.Host = map[string]string{"hostvar": "host"}
		}
		return c
	}
	for _, p := range places {
		// control: the place itself is fine
		c := mk(p, "export 1\n")
		c.ID = "isolation/control/place=" + p.id
		c.Sig = "isolation/control-failed/place=" + p.id
		c.Want = map[string]string{"x": p.okX}
		out = append(out, c)
		for _, f := range refForms {
			c := mk(p, f.body)
			c.ID = "isolation/ref/place=" + p.id + "/form=" + f.id
			c.Sig = "isolation/importer-var-visible/place=" + p.id
			c.WantErr = "unresolved reference 'hostvar'"
			out = append(out, c)
		}
	}
	// same name, independent variables
	const modBody = "hostvar := \"mod\"\nhostvar = hostvar + \"2\"\nexport {get: func() { return hostvar }, set: func(v) { hostvar = v }}\n"
	const use = "b0 := x.get()\nhostvar = \"main2\"\nb1 := x.get()\nx.set(\"changed\")\n"
	const res = "[b0, b1, hostvar, x.get()]"
	const wantArr = "[string:\"mod2\",string:\"mod2\",string:\"main2\",string:\"changed\"]"
	same := []struct {
		id, main string
		mods     map[string]string
		host     bool
		want     string
	}{
		{"global", "hostvar := \"main\"\nx := import(\"m\")\n" + use + "r := " + res + "\n", nil, false, "array" + wantArr},
		{"host-injected", "x := import(\"m\")\n" + use + "r := " + res + "\n", nil, true, "array" + wantArr},
		{"func-local", "f := func() {\n\thostvar := \"main\"\n\tx := import(\"m\")\n" + use + "\treturn " + res + "\n}\nr := f()\n", nil, false, "array" + wantArr},
		{"free-var", "g := func() {\n\thostvar := \"main\"\n\treturn func() {\n\t\tx := import(\"m\")\n" + use + "\t\treturn " + res + "\n\t}\n}\nr := g()()\n", nil, false, "array" + wantArr},
		{"importing-module", "r := import(\"outer\")\n", map[string]string{"outer": "hostvar := \"main\"\nx := import(\"m\")\n" + use + "export " + res + "\n"}, false, "imarray" + wantArr},
		{"two-modules", "a := import(\"m\")\nb := import(\"m2\")\na.set(\"A\")\nr := [a.get(), b.get()]\n", map[string]string{"m2": modBody}, false, "array[string:\"A\",string:\"mod2\"]"},
	}
	for _, s := range same {
		mods := map[string]string{"m": modBody}
		for k, v := range s.mods {
			mods[k] = v
		}
		c := Case{Kind: "prog", ID: "isolation/same-name/place=" + s.id, Sig: "isolation/same-name-not-independent/place=" + s.id,
			Main: s.main, Mods: mods, Want: map[string]string{"r": s.want}}
		if s.host {
			c.Host = map[string]string{"hostvar": "host"}
		}
		out = append(out, c)
	}
	// module's variables are not visible to the importer either
	out = append(out, Case{Kind: "prog", ID: "isolation/module-var-in-importer", Sig: "isolation/module-var-visible-in-importer",
		Main: "x := import(\"m\")\ny := modvar\n", Mods: map[string]string{"m": "modvar := 1\nexport modvar\n"},
		WantErr: "unresolved reference 'modvar'"})
	// builtin functions are visible inside a module
	for _, bf := range tengo.GetAllBuiltinFunctions() {
		out = append(out, Case{Kind: "prog", ID: "isolation/builtin/name=" + bf.Name, Sig: "isolation/builtin-unavailable/name=" + bf.Name,
			Main: "x := import(\"m\")\n", Mods: map[string]string{"m": "f := " + bf.Name + "\nexport f\n"},
			Want: map[string]string{"x": "func/builtin:" + bf.Name}})
	}
	out = append(out,
		Case{Kind: "prog", ID: "isolation/builtin-call/len", Sig: "isolation/builtin-unavailable/name=len",
			Main: "x := import(\"m\")\n", Mods: map[string]string{"m": "export len([1, 2])\n"}, Want: map[string]string{"x": "int:2"}},
		Case{Kind: "prog", ID: "isolation/builtin-call/string", Sig: "isolation/builtin-unavailable/name=string",
			Main: "x := import(\"m\")\n", Mods: map[string]string{"m": "export string(5)\n"}, Want: map[string]string{"x": "string:\"5\""}},
		Case{Kind: "prog", ID: "isolation/builtin-call/in-func", Sig: "isolation/builtin-unavailable/name=len",
			Main: "x := import(\"m\")([1, 2, 3])\n", Mods: map[string]string{"m": "export func(a) { return len(a) }\n"}, Want: map[string]string{"x": "int:3"}},
		// the importer shadowing a builtin name does not change what the module sees
		Case{Kind: "prog", ID: "isolation/builtin-shadowed-in-func", Sig: "isolation/builtin-shadow-leaks",
			Main: "f := func(len) {\n\treturn import(\"m\")\n}\nx := f(7)\n", Mods: map[string]string{"m": "export len([1, 2])\n"}, Want: map[string]string{"x": "int:2"}},
		Case{Kind: "prog", ID: "isolation/builtin-shadowed-local", Sig: "isolation/builtin-shadow-leaks",
			Main: "f := func() {\n\tstring := 7\n\treturn [import(\"m\"), string]\n}\nx := f()\n", Mods: map[string]string{"m": "export string(5)\n"}, Want: map[string]string{"x": "array[string:\"5\",int:7]"}},
	)
	return out
}

// ---- exported value ------------------------------------------------------------

var exportKinds = []struct{ kind, expr, snap string }{
	{"int", "5", "int:5"},
	{"float", "1.5", "float:3ff8000000000000(1.5)"},
	{"bool", "true", "bool:true"},
	{"char", "'c'", "char:99"},
	{"string", "\"s\"", "string:\"s\""},
	{"bytes", "bytes(\"ab\")", "bytes:\"ab\""},
	{"array", "[1, [2]]", "imarray[int:1,array[int:2]]"},
	{"map", "{a: 1, b: [2]}", "immap{\"a\":int:1,\"b\":array[int:2]}"},
	{"imarray", "immutable([1])", "imarray[int:1]"},
	{"immap", "immutable({a: 1})", "immap{\"a\":int:1}"},
	{"func", "func(a) { return a }", "func/compiled"},
	{"builtin-func", "len", "func/builtin:len"},
	{"error", "error(\"x\")", "error(string:\"x\")"},
	{"undefined", "undefined", "undefined"},
	{"time", "time(0)", "time:0.0"},
	{"empty-array", "[]", "imarray[]"},
	{"empty-map", "{}", "immap{}"},
	// containers produced by every expression form (the value, not the syntax, is what gets frozen)
	{"array-by-plus", "[1] + [[2]]", "imarray[int:1,array[int:2]]"},
	{"array-by-or", "undefined || [1, [2]]", "imarray[int:1,array[int:2]]"},
	{"map-by-and", "true && {a: 1, b: [2]}", "immap{\"a\":int:1,\"b\":array[int:2]}"},
	{"array-by-cond", "true ? [1, [2]] : 2", "imarray[int:1,array[int:2]]"},
	{"array-by-call", "(func() { return [1, [2]] })()", "imarray[int:1,array[int:2]]"},
	{"array-by-index", "[[1, [2]]][0]", "imarray[int:1,array[int:2]]"},
	{"map-by-selector", "{k: {a: 1, b: [2]}}.k", "immap{\"a\":int:1,\"b\":array[int:2]}"},
	{"array-by-slice", "[1, [2], 3][0:2]", "imarray[int:1,array[int:2]]"},
	{"array-by-paren", "([1, [2]])", "imarray[int:1,array[int:2]]"},
	{"array-by-builtin", "append([1], [2])", "imarray[int:1,array[int:2]]"},
}

func valueProgs() []Case {
	var out []Case
	positions := []struct{ id, main string }{
		{"assign", "x := import(\"m\")\n"},
		{"in-array", "x := [import(\"m\")][0]\n"},
		{"func-return", "x := (func() { return import(\"m\") })()\n"},
		{"call-arg", "id := func(a) { return a }\nx := id(import(\"m\"))\nid = undefined\n"},
	}
	for _, k := range exportKinds {
		for _, p := range positions {
			want := map[string]string{"x": k.snap}
			if p.id == "call-arg" {
				want["id"] = "undefined"
			}
			out = append(out, Case{Kind: "prog", ID: "value/kind=" + k.kind + "/pos=" + p.id, Sig: "value/export-kind=" + k.kind,
				Main: p.main, Mods: map[string]string{"m": "export " + k.expr + "\n"}, Want: want})
		}
		// through a module-level variable
		out = append(out, Case{Kind: "prog", ID: "value/kind=" + k.kind + "/via-var", Sig: "value/export-kind=" + k.kind,
			Main: "x := import(\"m\")\n", Mods: map[string]string{"m": "v := " + k.expr + "\nexport v\n"}, Want: map[string]string{"x": k.snap}})
	}
	noexp := []struct{ id, body string }{
		{"empty", ""},
		{"stmts-only", "a := 1\nb := a + 1\n"},
		{"expr-stmt", "1 + 2\n"},
		{"export-not-reached", "if false {\n\texport 1\n}\n"},
		{"func-only", "f := func() { return 5 }\nf()\n"},
	}
	for _, n := range noexp {
		out = append(out, Case{Kind: "prog", ID: "value/no-export/" + n.id, Sig: "value/no-export-not-undefined",
			Main: "x := import(\"m\")\n", Mods: map[string]string{"m": n.body}, Want: map[string]string{"x": "undefined"}})
	}
	out = append(out,
		Case{Kind: "prog", ID: "value/export-stops/two-exports", Sig: "value/export-does-not-stop",
			Main: "x := import(\"m\")\n", Mods: map[string]string{"m": "export 1\nexport 2\n"}, Want: map[string]string{"x": "int:1"}},
		Case{Kind: "prog", ID: "value/export-stops/in-if", Sig: "value/export-does-not-stop",
			Main: "x := import(\"m\")\n", Mods: map[string]string{"m": "if true {\n\texport 1\n}\nexport 2\n"}, Want: map[string]string{"x": "int:1"}},
		Case{Kind: "prog", ID: "value/export-stops/in-loop", Sig: "value/export-does-not-stop",
			Main: "x := import(\"m\")\n", Mods: map[string]string{"m": "for i := 0; i < 3; i++ {\n\tif i == 1 {\n\t\texport i\n\t}\n}\nexport 9\n"}, Want: map[string]string{"x": "int:1"}},
		Case{Kind: "prog", ID: "value/export-stops/side-effect", Sig: "value/export-does-not-stop", Probe: true,
			Main: "x := import(\"m\")\n", Mods: map[string]string{"m": "p := import(\"probe\")\np.tick()\nexport 1\np.tick()\n"}, Want: map[string]string{"x": "int:1"}, WantTicks: intp(1)},
		Case{Kind: "prog", ID: "value/expr/add", Sig: "value/import-in-expression",
			Main: "x := import(\"m\") + import(\"m\")\n", Mods: map[string]string{"m": "export 2\n"}, Want: map[string]string{"x": "int:4"}},
		Case{Kind: "prog", ID: "value/expr/call", Sig: "value/import-in-expression",
			Main: "x := import(\"m\")(3)\n", Mods: map[string]string{"m": "base := 5\nexport func(a) { return a + base }\n"}, Want: map[string]string{"x": "int:8"}},
		Case{Kind: "prog", ID: "value/expr/select", Sig: "value/import-in-expression",
			Main: "x := import(\"m\").a.b\n", Mods: map[string]string{"m": "export {a: {b: 7}}\n"}, Want: map[string]string{"x": "int:7"}},
		Case{Kind: "prog", ID: "value/chain", Sig: "value/import-in-expression",
			Main: "x := import(\"a\")\n", Mods: map[string]string{"a": "export [import(\"b\"), import(\"b\")]\n", "b": "export {v: import(\"c\")}\n", "c": "export \"leaf\"\n"},
			Want: map[string]string{"x": "imarray[immap{\"v\":string:\"leaf\"},immap{\"v\":string:\"leaf\"}]"}},
	)
	return out
}

// ---- freshness -----------------------------------------------------------------

func freshProgs() []Case {
	const cnt = "c := 0\nexport {inc: func() { c += 1; return c }}\n"
	const tick = "p := import(\"probe\")\np.tick()\nexport 1\n"
	mods := func(extra ...string) map[string]string {
		m := map[string]string{"cnt": cnt, "t": tick}
		for i := 0; i+1 < len(extra); i += 2 {
			m[extra[i]] = extra[i+1]
		}
		return m
	}
	P := func(id, main string, want map[string]string, ticks int, m map[string]string) Case {
		return Case{Kind: "prog", ID: "fresh/" + id, Sig: "fresh/" + id, Main: main, Mods: m, Want: want, WantTicks: intp(ticks), Probe: true}
	}
	arr := func(xs ...int) string {
		var s []string
		for _, x := range xs {
			s = append(s, fmt.Sprintf("int:%d", x))
		}
		return "array[" + strings.Join(s, ",") + "]"
	}
	// a module whose top-level function calls itself through the module-level variable it is bound to (the
	// closure captures its own, not yet assigned, variable): every evaluation must get its own cell
	const rec = "n := 0\nstep := func(k) {\n\tif k == 0 {\n\t\treturn 0\n\t}\n\tn += 1\n\treturn step(k - 1) + 1\n}\nexport {step: step, count: func() { return n }}\n"
	recCases := []Case{
		P("recursive/two-import-expressions", "a := import(\"rec\")\nb := import(\"rec\")\nx := a.step(3)\ny := b.step(1)\nr := [x, y, a.count(), b.count()]\n",
			map[string]string{"r": arr(3, 1, 3, 1)}, 0, mods("rec", rec)),
		P("recursive/import-in-loop-kept", "ms := []\nfor i := 0; i < 2; i++ {\n\tms = append(ms, import(\"rec\"))\n}\nx := ms[0].step(2)\nr := [x, ms[0].count(), ms[1].count()]\nms = undefined\n",
			map[string]string{"r": arr(2, 2, 0)}, 0, mods("rec", rec)),
		P("recursive/import-in-func-called-twice", "g := func() { return import(\"rec\") }\na := g()\nb := g()\nx := a.step(3)\nr := [x, a.count(), b.count()]\n",
			map[string]string{"r": arr(3, 3, 0)}, 0, mods("rec", rec)),
		P("recursive/after-captured-local-of-importer", "g := func() {\n\tb := 5\n\th := func() { return b }\n\tm := import(\"rec\")\n\tx := m.step(2)\n\treturn [h(), x, m.count()]\n}\nr := g()\n",
			map[string]string{"r": arr(5, 2, 2)}, 0, mods("rec", rec)),
		P("recursive/block-local-of-importer-before", "r := undefined\nif true {\n\tb := 5\n\th := func() { return b }\n\tr = [h()]\n}\nm := import(\"rec\")\nx := m.step(2)\nr = r + [x, m.count()]\n",
			map[string]string{"r": arr(5, 2, 2)}, 0, mods("rec", rec)),
		P("recursive/via-wrapper-module-twice", "a := import(\"w\")\nb := import(\"w\")\nx := a.step(2)\nr := [x, a.count(), b.count()]\n",
			map[string]string{"r": arr(2, 2, 0)}, 0, mods("rec", rec, "w", "f := func() { return import(\"rec\") }\nexport f()\n")),
	}
	return append(recCases, []Case{
		P("counter/two-import-expressions", "a := import(\"cnt\")\nb := import(\"cnt\")\nr := [a.inc(), a.inc(), b.inc(), a.inc()]\n",
			map[string]string{"r": arr(1, 2, 1, 3)}, 0, mods()),
		P("counter/import-in-loop", "r := []\nfor i := 0; i < 3; i++ {\n\tm := import(\"cnt\")\n\tr = append(r, m.inc())\n}\n",
			map[string]string{"r": arr(1, 1, 1)}, 0, mods()),
		P("counter/import-in-loop-kept", "ms := []\nfor i := 0; i < 2; i++ {\n\tms = append(ms, import(\"cnt\"))\n}\nr := [ms[0].inc(), ms[0].inc(), ms[1].inc()]\nms = undefined\n",
			map[string]string{"r": arr(1, 2, 1)}, 0, mods()),
		P("counter/import-in-func-called-twice", "g := func() { return import(\"cnt\") }\na := g()\nb := g()\nr := [a.inc(), a.inc(), b.inc(), a.inc()]\n",
			map[string]string{"r": arr(1, 2, 1, 3)}, 0, mods()),
		P("counter/via-two-modules", "a := import(\"w1\")\nb := import(\"w2\")\nr := [a.inc(), a.inc(), b.inc()]\n",
			map[string]string{"r": arr(1, 2, 1)}, 0, mods("w1", "export import(\"cnt\")\n", "w2", "export import(\"cnt\")\n")),
		P("counter/same-wrapper-twice", "a := import(\"w1\")\nb := import(\"w1\")\nr := [a.inc(), a.inc(), b.inc()]\n",
			map[string]string{"r": arr(1, 2, 1)}, 0, mods("w1", "export import(\"cnt\")\n")),
		P("state/nested-container-fresh", "a := import(\"box\")\nb := import(\"box\")\na.inner[0] = 9\nr := [a.inner[0], b.inner[0]]\n",
			map[string]string{"r": arr(9, 1)}, 0, mods("box", "export {inner: [1]}\n")),
		P("state/module-level-array-fresh", "a := import(\"box\")\na.push(5)\nb := import(\"box\")\nr := [a.size(), b.size()]\n",
			map[string]string{"r": arr(1, 0)}, 0, mods("box", "items := []\nexport {push: func(v) { items = append(items, v) }, size: func() { return len(items) }}\n")),
		P("body-runs/once-per-expression", "a := import(\"t\")\nb := import(\"t\")\n", map[string]string{"a": "int:1", "b": "int:1"}, 2, mods()),
		P("body-runs/loop-3", "for i := 0; i < 3; i++ {\n\timport(\"t\")\n}\n", nil, 3, mods()),
		P("body-runs/func-called-twice", "g := func() { return import(\"t\") }\ng()\ng()\n", nil, 2, mods()),
		P("body-runs/func-never-called", "g := func() { return import(\"t\") }\n", nil, 0, mods()),
		P("body-runs/nested-func-never-called", "g := func() { return func() { return import(\"t\") } }\nh := g()\n", nil, 0, mods()),
		P("body-runs/dead-branch", "x := 0\nif x == 1 {\n\timport(\"t\")\n}\n", nil, 0, mods()),
		P("body-runs/ternary-not-taken", "c := 1\nx := c == 1 ? 5 : import(\"t\")\n", map[string]string{"x": "int:5"}, 0, mods()),
		P("body-runs/short-circuit", "c := 0\nx := c && import(\"t\")\n", map[string]string{"x": "int:0"}, 0, mods()),
		P("body-runs/after-return", "g := func() {\n\treturn 1\n\timport(\"t\")\n}\nx := g()\n", map[string]string{"x": "int:1"}, 0, mods()),
		P("body-runs/module-func-never-called", "x := import(\"w\")\n", map[string]string{"x": "func/compiled"}, 0,
			mods("w", "export func() { return import(\"t\") }\n")),
		P("body-runs/module-func-called-twice", "f := import(\"w\")\nx := [f(), f()]\n", map[string]string{"x": arr(1, 1)}, 2,
			mods("w", "export func() { return import(\"t\") }\n")),
		P("body-runs/wrapper-imported-twice", "a := import(\"w\")\nb := import(\"w\")\n", nil, 2,
			mods("w", "export import(\"t\")\n")),
		P("body-runs/diamond", "a := import(\"w1\")\nb := import(\"w2\")\n", nil, 2,
			mods("w1", "export import(\"t\")\n", "w2", "export import(\"t\")\n")),
		P("body-runs/diamond-plus-direct", "a := import(\"w1\")\nb := import(\"w2\")\nc := import(\"t\")\n", nil, 3,
			mods("w1", "export import(\"t\")\n", "w2", "export import(\"t\")\n")),
		P("body-runs/unreached-import-in-module", "a := import(\"w\")\n", map[string]string{"a": "int:2"}, 0,
			mods("w", "export 2\nimport(\"t\")\n")),
	}...)
}

// ---- immutability ----------------------------------------------------------------

var immutExports = []struct{ kind, body string }{
	{"map", "export {a: 1, deps: [1, 2], s: \"t\"}\n"},
	{"array", "export [1, [2], 3]\n"},
	{"array-via-var", "a := [1, [2], 3]\nexport a\n"},
	{"map-via-var", "m := {a: 1, deps: [1, 2]}\nexport m\n"},
	{"immap", "export immutable({a: 1, deps: [1, 2]})\n"},
	{"imarray", "export immutable([1, [2], 3])\n"},
	{"graph-module", "x1 := import(\"leaf\")\nexport {name: \"m0\", deps: [x1], a: 1}\n"},
	{"string", "export \"str\"\n"},
	{"bytes", "export bytes(\"ab\")\n"},
	{"int", "export 5\n"},
	{"func", "export func() { return 1 }\n"},
	{"error", "export error([1])\n"},
	{"undefined", "export undefined\n"},
	{"no-export", "a := 1\n"},
	{"array-by-plus", "base := [1, [2]]\nexport base + [3]\n"},
	{"map-by-or", "cfg := undefined\nexport cfg || {a: 1, deps: [1, 2]}\n"},
	{"map-by-and", "ok := true\ntbl := {a: 1, deps: [1, 2]}\nexport ok && tbl\n"},
	{"array-by-cond", "export true ? [1, [2], 3] : 0\n"},
	{"map-by-call", "mk := func() { return {a: 1, deps: [1, 2]} }\nexport mk()\n"},
	{"array-by-index", "export [[1, [2], 3]][0]\n"},
	{"map-by-selector", "export {k: {a: 1, deps: [1, 2]}}.k\n"},
	{"array-by-slice", "export [1, [2], 3, 4][0:3]\n"},
	{"array-by-paren", "export ([1, [2], 3])\n"},
}

// nested = the write goes through a container *inside* the exported value; the
// documentation promises immutability of the exported value itself only, so for
// those only the top level (element identity, type) is required to be unchanged.
var immutOps = []struct {
	id, src string
	nested  bool
}{
	{"set-field", "x.a = 99", false},
	{"set-new-field", "x.zz = 99", false},
	{"set-key", "x[\"a\"] = 99", false},
	{"set-index", "x[0] = 99", false},
	{"set-last-index", "x[2] = 99", false},
	{"opassign-field", "x.a += 1", false},
	{"opassign-index", "x[0] += 1", false},
	{"incr-index", "x[0]++", false},
	{"set-nested-field-index", "x.deps[0] = 99", true},
	{"set-nested-index-index", "x[1][0] = 99", true},
	{"set-error-value", "x.value = 99", false},
	{"set-error-value-index", "x.value[0] = 99", true},
	{"delete", "delete(x, \"a\")", false},
	{"splice-0", "splice(x, 0)", false},
	{"splice-replace", "splice(x, 0, 1, 7)", false},
	{"append", "y := append(x, 1)", false},
	{"append-then-write", "y := append(x, 1)\ny[0] = 9", false},
	{"slice-then-write", "x2 := x[0:1]\nx2[0] = 9", false},
	{"fullslice-then-write", "x2 := x[:]\nx2[0] = 9", false},
	{"add-self", "y := x + x", false},
	{"add-then-write", "y := x + [1]\ny[0] = 9", false},
	{"copy-then-write-index", "c := copy(x)\nc[0] = 9", false},
	{"copy-then-write-field", "c := copy(x)\nc.a = 9", false},
	{"for-in-assign", "for k, v in x {\n\tv = 99\n\tk = 98\n}", false},
	{"write-via-param-field", "f := func(p) { p.a = 99 }\nf(x)", false},
	{"write-via-param-index", "f := func(p) { p[0] = 99 }\nf(x)", false},
	{"write-via-holder-field", "h := [x]\nh[0].a = 99", false},
	{"write-via-holder-index", "h := {v: x}\nh.v[0] = 99", false},
	{"write-in-closure", "f := func() { x.a = 99 }\nf()", false},
	{"immutable-again-then-write", "y := immutable(x)\ny.a = 99", false},
}

func immutCases() []Case {
	var out []Case
	for _, e := range immutExports {
		for _, op := range immutOps {
			out = append(out, Case{Kind: "immut", ID: "immutable/" + op.id + "/export=" + e.kind, Sig: "immutable/" + op.id,
				Export: e.body, Op: op.src, Nested: op.nested})
		}
	}
	return out
}

// shallowID renders the top level of o: its type and the identity of its direct
// elements (pointers: only ever compared within one process, never printed).
func shallowID(o tengo.Object) string {
	var sb strings.Builder
	switch x := o.(type) {
	case *tengo.ImmutableMap:
		sb.WriteString("immap{")
		writeMapIDs(&sb, x.Value)
	case *tengo.Map:
		sb.WriteString("map{")
		writeMapIDs(&sb, x.Value)
	case *tengo.ImmutableArray:
		sb.WriteString("imarray[")
		for _, e := range x.Value {
			fmt.Fprintf(&sb, "%p,", e)
		}
	case *tengo.Array:
		sb.WriteString("array[")
		for _, e := range x.Value {
			fmt.Fprintf(&sb, "%p,", e)
		}
	case *tengo.Error:
		fmt.Fprintf(&sb, "error(%p)", x.Value)
	default:
		return val.Snapshot(o)
	}
	return sb.String()
}

func writeMapIDs(sb *strings.Builder, m map[string]tengo.Object) {
	keys := make([]string, 0, len(m))
	for k := range m {
		keys = append(keys, k)
	}
	sort.Strings(keys)
	for _, k := range keys {
		fmt.Fprintf(sb, "%q:%p,", k, m[k])
	}
}

func topTag(o tengo.Object) string {
	s := val.Snapshot(o)
	if i := strings.IndexAny(s, "[{(:"); i >= 0 {
		return s[:i]
	}
	return s
}

// ---- builtin modules shared by two compilations ----------------------------------
//
// One ModuleMap (the embedder's), two scripts compiled from it one after the other. Whatever the first script does
// with the table it imported - also writes through the mutable containers INSIDE it, which shallow immutability
// allows - the second script imports the module as the embedder defined it, and the embedder's own attribute
// objects are unchanged.
var sharedOps = []string{"c.limits.max = 99", "c.tags[0] = \"hacked\"", "c.limits.extra = 1", "splice(c.tags, 0, 1)", "delete(c.limits, \"max\")",
	"x := c.limits; x.max += 1", "for k, v in c.limits { c.limits[k] = 0 }", "c.nested.deep[0][0] = 5"}

func sharedCases() []Case {
	var out []Case
	for _, op := range sharedOps {
		for _, via := range []string{"direct", "via-source-module"} {
			out = append(out, Case{Kind: "shared", ID: "shared-builtin/" + via + "/op=" + op, Sig: "shared-builtin/module-definition-changed/" + via, Op: op, NameClass: via})
		}
	}
	return out
}

func runShared(c Case) (fails []fail, obs string) {
	add := func(what string) { fails = append(fails, fail{c.Sig, fmt.Sprintf("%s [first script: %q]", what, c.Op)}) }
	attrs := map[string]tengo.Object{
		"limits": gmap("max", gi(3), "min", gi(1)),
		"tags":   garr(&tengo.String{Value: "a"}, &tengo.String{Value: "b"}),
		"nested": gmap("deep", garr(garr(gi(1)))),
		"n":      gi(7),
	}
	before := val.Snapshot(&tengo.Map{Value: attrs})
	mm := tengo.NewModuleMap()
	mm.AddBuiltinModule("cfg", attrs)
	mm.AddSourceModule("w", []byte("export import(\"cfg\")\n"))
	imp := "c := import(\"cfg\")\n"
	if c.NameClass == "via-source-module" {
		imp = "c := import(\"w\")\n"
	}
	o1 := execScript(execIn{main: imp + c.Op + "\n", mods: mm})
	if o1.class == "panic" || o1.class == "timeout" || o1.class == "noterm" {
		add("first script " + o1.class + ": " + tg.FirstLine(o1.text))
		return fails, o1.class
	}
	o2 := execScript(execIn{main: imp + "r := [c.limits, c.tags, c.nested, c.n]\n", mods: mm})
	if o2.class != "ok" {
		add("second script " + o2.class + ": " + tg.FirstLine(o2.text))
		return fails, "second:" + o2.class
	}
	const want = "array[map{\"max\":int:3,\"min\":int:1},array[string:\"a\",string:\"b\"],map{\"deep\":array[array[int:1]]},int:7]"
	if got := val.Snapshot(o2.globals["r"]); got != want {
		add("a second script compiled from the same module map sees " + got + ", the module defines " + want)
	}
	if after := val.Snapshot(&tengo.Map{Value: attrs}); after != before {
		add("the embedder's attribute objects changed: " + before + " -> " + after)
	}
	return fails, "first:" + o1.class
}

func runImmut(c Case) (fails []fail, obs string) {
	add := func(what string) {
		fails = append(fails, fail{c.Sig, fmt.Sprintf("%s [module: %q; op: %q]", what, c.Export, c.Op)})
	}
	mm := func() *tengo.ModuleMap {
		m := tengo.NewModuleMap()
		m.AddSourceModule("m", []byte(c.Export))
		m.AddSourceModule("leaf", []byte("export {name: \"leaf\", deps: []}\n"))
		return m
	}
	o1 := execScript(execIn{main: "x := import(\"m\")\n", mods: mm()})
	if o1.class != "ok" {
		return []fail{{"internal/immut-setup", "cannot import the module: " + o1.class + " " + tg.FirstLine(o1.text)}}, ""
	}
	x := o1.globals["x"]
	tag := topTag(x)
	if tag == "array" || tag == "map" {
		add("import yields a mutable " + tag + " (exported values are always immutable)")
	}
	beforeDeep, beforeShallow := val.Snapshot(x), shallowID(x)
	// (1) the write applied to the live imported object in a second script
	o2 := execScript(execIn{main: c.Op + "\n", host: map[string]tengo.Object{"x": x}})
	if o2.class == "panic" || o2.class == "timeout" || o2.class == "noterm" {
		add("write " + o2.class + ": " + tg.FirstLine(o2.text))
	}
	afterDeep, afterShallow := val.Snapshot(x), shallowID(x)
	if afterShallow != beforeShallow {
		add(fmt.Sprintf("write (%s) changed the top level of the imported value: %s -> %s", o2.class, beforeDeep, afterDeep))
	} else if !c.Nested && afterDeep != beforeDeep {
		add(fmt.Sprintf("write (%s) changed the imported value: %s -> %s", o2.class, beforeDeep, afterDeep))
	}
	nestedChanged := c.Nested && afterDeep != beforeDeep
	// (2) the same write in the importing script itself
	o3 := execScript(execIn{main: "x := import(\"m\")\n" + c.Op + "\n", mods: mm()})
	switch o3.class {
	case "ok", "runtime-error":
		got := val.Snapshot(o3.globals["x"])
		if !c.Nested && got != beforeDeep {
			add(fmt.Sprintf("after import followed by the write (%s) x is %s, the module exported %s", o3.class, got, beforeDeep))
		}
		if c.Nested && topTag(o3.globals["x"]) != tag {
			add("top-level type changed after nested write")
		}
	case "compile-error":
		// a write the compiler refuses is a failed write
	default:
		add("import+write " + o3.class + ": " + tg.FirstLine(o3.text))
	}
	obs = fmt.Sprintf("%s:%s/%s", tag, o2.class, o3.class)
	if nestedChanged {
		obs += ":nested-write-took-effect"
	}
	return
}

// ---- generic program runner --------------------------------------------------------

func runProg(c Case) (fails []fail, obs string) {
	add := func(what string) {
		fails = append(fails, fail{c.Sig, fmt.Sprintf("%s: %s [main: %q; modules: %v]", c.ID, what, c.Main, sortedMods(c.Mods))})
	}
	mods := tengo.NewModuleMap()
	for k, v := range c.Mods {
		mods.AddSourceModule(k, []byte(v))
	}
	ticks := 0
	if c.Probe {
		mods.Add("probe", &tengo.BuiltinModule{Attrs: map[string]tengo.Object{
			"tick": &tengo.UserFunction{Name: "tick", Value: func(args ...tengo.Object) (tengo.Object, error) {
				ticks++
				return tengo.UndefinedValue, nil
			}},
		}})
	}
	var host map[string]tengo.Object
	if len(c.Host) > 0 {
		host = map[string]tengo.Object{}
		for k, v := range c.Host {
			host[k] = &tengo.String{Value: v}
		}
	}
	o := execScript(execIn{main: c.Main, mods: mods, host: host})
	obs = o.class
	if c.WantErr != "" {
		if o.class != "compile-error" {
			add(fmt.Sprintf("want compile error %q, got %s %s", c.WantErr, o.class, tg.FirstLine(o.text)))
		} else if !strings.Contains(o.text, c.WantErr) {
			add(fmt.Sprintf("want compile error %q, got %q", c.WantErr, tg.FirstLine(o.text)))
		}
		return
	}
	if o.class != "ok" {
		add("want ok, got " + o.class + " " + tg.FirstLine(o.text))
		return
	}
	keys := make([]string, 0, len(c.Want))
	for k := range c.Want {
		keys = append(keys, k)
	}
	sort.Strings(keys)
	for _, k := range keys {
		g, ok := o.globals[k]
		if !ok {
			add("global " + k + " missing")
			continue
		}
		if got := val.Snapshot(g); got != c.Want[k] {
			add(fmt.Sprintf("%s = %s, want %s", k, got, c.Want[k]))
		}
	}
	for k, v := range c.Host {
		if _, overwritten := c.Want[k]; overwritten {
			continue
		}
		// a host variable the script does not assign keeps its value unless the test assigns it
		if g, ok := o.globals[k]; ok && !strings.Contains(c.Main, k+" =") && val.Snapshot(g) != "string:\""+v+"\"" {
			add(fmt.Sprintf("host variable %s changed to %s", k, val.Snapshot(g)))
		}
	}
	if c.WantTicks != nil {
		obs += fmt.Sprintf(":ticks=%d", ticks)
		if ticks != *c.WantTicks {
			add(fmt.Sprintf("module body ran %d times, want %d", ticks, *c.WantTicks))
		}
	}
	return
}

func sortedMods(m map[string]string) string {
	keys := make([]string, 0, len(m))
	for k := range m {
		keys = append(keys, k)
	}
	sort.Strings(keys)
	var sb strings.Builder
	for _, k := range keys {
		fmt.Fprintf(&sb, "%s=%q ", k, m[k])
	}
	return sb.String()
}

func gi(v int64) tengo.Object { return &tengo.Int{Value: v} }

func garr(xs ...tengo.Object) *tengo.Array { return &tengo.Array{Value: xs} }

func gmap(kv ...interface{}) *tengo.Map {
	m := map[string]tengo.Object{}
	for i := 0; i+1 < len(kv); i += 2 {
		m[kv[i].(string)] = kv[i+1].(tengo.Object)
	}
	return &tengo.Map{Value: m}
}
