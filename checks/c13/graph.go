package main

// Part A: explicit enumeration of import graphs. Node 0 is the main script,
// node i+1 is source module m<i>. adj[v] is a bit set of importees (bit j =
// module m<j>). Everything the oracle needs (reachability, cycles, shapes,
// expected values) is computed here from the graph alone.

import (
	"context"
	"errors"
	"fmt"
	"runtime/debug"
	"sort"
	"strconv"
	"strings"
	"sync/atomic"
	"time"

	"github.com/d5/tengo/v2"
	"github.com/d5/tengo/v2/parser"
	"verif/engine/tg"
	"verif/engine/val"
)

const maxN = 4

// "late": the export comes first and the module's imports stand after it (dead at run time, yet compiled:
// they are edges of the import graph like any other)
var modVariants = []string{"map", "noexport", "lit", "counter", "fcall", "fnocall", "late"}
var mainVariants = []string{"top", "fcall", "fnocall"}

type graph struct {
	n   int
	adj [maxN + 1]uint8
}

func nodeName(v int) string {
	if v == 0 {
		return "main"
	}
	return "m" + strconv.Itoa(v-1)
}

func (g graph) edges() []string {
	var out []string
	for v := 0; v <= g.n; v++ {
		for j := 0; j < g.n; j++ {
			if g.adj[v]&(1<<uint(j)) != 0 {
				out = append(out, nodeName(v)+">m"+strconv.Itoa(j))
			}
		}
	}
	return out
}

func parseGraph(n int, edges []string) (graph, error) {
	g := graph{n: n}
	if n < 0 || n > maxN {
		return g, fmt.Errorf("bad n %d", n)
	}
	for _, e := range edges {
		p := strings.SplitN(e, ">", 2)
		if len(p) != 2 || !strings.HasPrefix(p[1], "m") {
			return g, fmt.Errorf("bad edge %q", e)
		}
		to, err := strconv.Atoi(p[1][1:])
		if err != nil || to < 0 || to >= n {
			return g, fmt.Errorf("bad edge %q", e)
		}
		from := 0
		if p[0] != "main" {
			k, err := strconv.Atoi(strings.TrimPrefix(p[0], "m"))
			if err != nil || k < 0 || k >= n {
				return g, fmt.Errorf("bad edge %q", e)
			}
			from = k + 1
		}
		g.adj[from] |= 1 << uint(to)
	}
	return g, nil
}

// targets of node v in statement order.
func (g graph) targets(v int, desc bool) []int {
	var ts []int
	for j := 0; j < g.n; j++ {
		if g.adj[v]&(1<<uint(j)) != 0 {
			ts = append(ts, j)
		}
	}
	if desc {
		for i, j := 0, len(ts)-1; i < j; i, j = i+1, j-1 {
			ts[i], ts[j] = ts[j], ts[i]
		}
	}
	return ts
}

func (g graph) hasBranching() bool {
	for v := 0; v <= g.n; v++ {
		a := g.adj[v]
		if a&(a-1) != 0 {
			return true
		}
	}
	return false
}

// analysis is the reference: pure graph theory.
type analysis struct {
	reach       [maxN + 1]bool // reachable from main (node ids), reach[0] = true
	onCycle     [maxN + 1]bool // node lies on a cycle (closed walk of length >= 1)
	cyclic      bool           // a cycle is reachable from main
	minCycle    int            // length of the shortest reachable cycle (0 if none)
	nReach      int            // distinct reachable modules
	reachEdges  int            // import edges whose importer is reachable
	diamond     bool           // some reachable module has >= 2 reachable in-edges (other than a self-loop)
	simFail     string         // module named by a depth-first compile in statement order ("" if acyclic)
	simHits     int            // cache hits of that depth-first compile (before the failure, if any)
	cycleNames  []string       // reachable modules on a cycle
	shape       string
	reachByPath int // reachable modules reached by >= 2 distinct in-edges
}

func analyse(g graph, desc bool) analysis {
	var a analysis
	N := g.n + 1
	var e [maxN + 1][maxN + 1]bool
	for v := 0; v < N; v++ {
		for j := 0; j < g.n; j++ {
			if g.adj[v]&(1<<uint(j)) != 0 {
				e[v][j+1] = true
			}
		}
	}
	// reachability from main (iterative)
	a.reach[0] = true
	for changed := true; changed; {
		changed = false
		for v := 0; v < N; v++ {
			if !a.reach[v] {
				continue
			}
			for w := 1; w < N; w++ {
				if e[v][w] && !a.reach[w] {
					a.reach[w] = true
					changed = true
				}
			}
		}
	}
	// closed walks: w[L][v] = set of nodes reachable from v by exactly L edges
	cur := e
	for L := 1; L <= N; L++ {
		for v := 1; v < N; v++ {
			if cur[v][v] {
				a.onCycle[v] = true
				if a.reach[v] && a.minCycle == 0 {
					a.minCycle = L
				}
			}
		}
		var nx [maxN + 1][maxN + 1]bool
		for v := 0; v < N; v++ {
			for m := 0; m < N; m++ {
				if !cur[v][m] {
					continue
				}
				for w := 0; w < N; w++ {
					if e[m][w] {
						nx[v][w] = true
					}
				}
			}
		}
		cur = nx
	}
	for v := 1; v < N; v++ {
		if a.reach[v] {
			a.nReach++
			if a.onCycle[v] {
				a.cyclic = true
				a.cycleNames = append(a.cycleNames, nodeName(v))
			}
		}
	}
	for v := 0; v < N; v++ {
		if !a.reach[v] {
			continue
		}
		for w := 1; w < N; w++ {
			if e[v][w] {
				a.reachEdges++
			}
		}
	}
	for w := 1; w < N; w++ {
		if !a.reach[w] {
			continue
		}
		in := 0
		for v := 0; v < N; v++ {
			if v != w && a.reach[v] && e[v][w] {
				in++
			}
		}
		if in >= 2 {
			a.diamond = true
			a.reachByPath++
		}
	}
	// depth-first simulation in statement order (only used for shape names and statistics)
	var onStack, cached [maxN + 1]bool
	var dfs func(v int) bool
	dfs = func(v int) bool {
		for _, t := range g.targets(v, desc) {
			w := t + 1
			if onStack[w] {
				a.simFail = nodeName(w)
				return false
			}
			if cached[w] {
				a.simHits++
				continue
			}
			onStack[w] = true
			ok := dfs(w)
			onStack[w] = false
			if !ok {
				return false
			}
			cached[w] = true
		}
		return true
	}
	dfs(0)
	switch {
	case !a.cyclic && a.nReach == 0:
		a.shape = "noimport"
	case !a.cyclic && a.diamond:
		a.shape = "diamond"
	case !a.cyclic:
		a.shape = "tree"
	default:
		c := "selfloop"
		if a.minCycle > 1 {
			c = strconv.Itoa(a.minCycle) + "cycle"
		}
		if a.simHits > 0 {
			c = "cached-then-" + c
		}
		a.shape = c
	}
	return a
}

// ---- sources ---------------------------------------------------------------

// namer maps module index i to the name it is registered and imported under
// (nil: m0, m1, ...). Names are distinct strings, hence distinct modules; the
// graph structure (Case.Edges) always speaks about indices.
type namer []string

func (nm namer) name(i int) string {
	if i < len(nm) {
		return nm[i]
	}
	return "m" + strconv.Itoa(i)
}

func importStmts(ts []int, indent string, nm namer) (stmts string, list string) {
	var sb strings.Builder
	var xs []string
	for _, t := range ts {
		fmt.Fprintf(&sb, "%sx%d := import(%s)\n", indent, t, strconv.Quote(nm.name(t)))
		xs = append(xs, "x"+strconv.Itoa(t))
	}
	return sb.String(), "[" + strings.Join(xs, ", ") + "]"
}

func moduleSource(i int, ts []int, variant string, nm namer) string {
	name := nm.name(i)
	mark := "mark := \"MARK:m" + strconv.Itoa(i) + "\"\n"
	top, list := importStmts(ts, "", nm)
	in, _ := importStmts(ts, "\t", nm)
	fn := "f := func() {\n" + in + "\treturn " + list + "\n}\n"
	switch variant {
	case "map":
		return mark + top + "export {name: " + strconv.Quote(name) + ", deps: " + list + "}\n"
	case "noexport":
		return mark + top + "unused := " + list + "\n"
	case "lit":
		return mark + top + "export " + strconv.Quote(name) + "\n"
	case "late":
		return mark + "export " + strconv.Quote(name) + "\n" + top
	case "counter":
		return mark + "c := 0\n" + top + "export {name: " + strconv.Quote(name) + ", deps: " + list + ", inc: func() { c += 1; return c }}\n"
	case "fcall":
		return mark + fn + "export {name: " + strconv.Quote(name) + ", deps: f()}\n"
	case "fnocall":
		return mark + fn + "export {name: " + strconv.Quote(name) + ", deps: \"uncalled\"}\n"
	}
	return "<bad variant>"
}

func mainSource(ts []int, variant string, nm namer) string {
	top, list := importStmts(ts, "", nm)
	in, _ := importStmts(ts, "\t", nm)
	fn := "f := func() {\n" + in + "\treturn " + list + "\n}\n"
	switch variant {
	case "top":
		return top
	case "fcall":
		return fn + "res := f()\n"
	case "fnocall":
		return fn + "res := \"uncalled\"\n"
	}
	return "<bad variant>"
}

// ---- reference values (val.Snapshot syntax) ----------------------------------

func refModuleValue(g graph, desc bool, vars []string, i int, nm namer) string {
	ts := g.targets(i+1, desc)
	name := strconv.Quote(nm.name(i))
	deps := func() string {
		var xs []string
		for _, t := range ts {
			xs = append(xs, refModuleValue(g, desc, vars, t, nm))
		}
		return "array[" + strings.Join(xs, ",") + "]"
	}
	switch vars[i] {
	case "map", "fcall":
		return "immap{\"deps\":" + deps() + ",\"name\":string:" + name + "}"
	case "noexport":
		return "undefined"
	case "lit", "late":
		return "string:" + name
	case "counter":
		return "immap{\"deps\":" + deps() + ",\"inc\":func/compiled,\"name\":string:" + name + "}"
	case "fnocall":
		return "immap{\"deps\":string:\"uncalled\",\"name\":string:" + name + "}"
	}
	return "<bad variant>"
}

func refGlobals(g graph, desc bool, mainVar string, vars []string, nm namer) map[string]string {
	ts := g.targets(0, desc)
	out := map[string]string{}
	switch mainVar {
	case "top":
		for _, t := range ts {
			out["x"+strconv.Itoa(t)] = refModuleValue(g, desc, vars, t, nm)
		}
	case "fcall":
		var xs []string
		for _, t := range ts {
			xs = append(xs, refModuleValue(g, desc, vars, t, nm))
		}
		out["f"] = "func/compiled"
		out["res"] = "array[" + strings.Join(xs, ",") + "]"
	case "fnocall":
		out["f"] = "func/compiled"
		out["res"] = "string:\"uncalled\""
	}
	return out
}

// ---- execution ---------------------------------------------------------------

var (
	nCompile  int64 // Script.Compile / direct compile invocations
	nRun      int64 // Compiled.RunContext invocations
	errNoTerm = errors.New("c13: import resolver call budget exhausted")
)

// getter wraps the embedder's module map: it is the ModuleGetter handed to the
// script. It counts resolver calls. Every import expression that is compiled
// asks the resolver once and the first cyclic import aborts the compilation, so
// a compiler that checks cycles correctly asks at most once per simple import
// path from main plus once for the failing import, even if it caches nothing:
// <= 31 below the bound (n=4, out-degree <= 2: 2+4+8+16 paths; n=3: 15), and at
// most once per reachable edge (<= 12) when it caches. More than getLimit calls
// therefore means the compiler is walking around a cycle; the compile is aborted
// and classified as non-terminating instead of letting the Go stack overflow
// (an unrecoverable process crash). The limit is kept tight because nested
// module compiles get quadratically slower with depth (the builtin symbol list
// of the symbol table grows with every level).
type getter struct {
	m     *tengo.ModuleMap
	calls int
}

const getLimit = 32

func (g *getter) Get(name string) tengo.Importable {
	g.calls++
	if g.calls > getLimit {
		panic(errNoTerm)
	}
	return g.m.Get(name)
}

type execOut struct {
	class   string // ok | compile-error | parse-error | runtime-error | noterm | timeout | panic
	err     error
	text    string
	globals map[string]tengo.Object
	calls   int
}

type execIn struct {
	main       string
	mods       *tengo.ModuleMap
	host       map[string]tengo.Object
	fileImport bool
	setDir     bool
	importDir  string
}

func execScript(in execIn) (out execOut) {
	gt := &getter{m: in.mods}
	if gt.m == nil {
		gt.m = tengo.NewModuleMap()
	}
	defer func() {
		out.calls = gt.calls
		if r := recover(); r != nil {
			if e, ok := r.(error); ok && e == errNoTerm {
				out.class, out.text = "noterm", fmt.Sprintf("import resolver called more than %d times", getLimit)
				return
			}
			out.class = "panic"
			out.text = fmt.Sprintf("%v\n%s", r, debug.Stack())
		}
	}()
	s := tengo.NewScript([]byte(in.main))
	names := make([]string, 0, len(in.host))
	for k := range in.host {
		names = append(names, k)
	}
	sort.Strings(names)
	for _, k := range names {
		if err := s.Add(k, in.host[k]); err != nil {
			return execOut{class: "panic", text: "Add failed: " + err.Error()}
		}
	}
	s.SetImports(gt)
	if in.fileImport {
		s.EnableFileImport(true)
	}
	if in.setDir {
		if err := s.SetImportDir(in.importDir); err != nil {
			return execOut{class: "panic", text: "SetImportDir failed: " + err.Error()}
		}
	}
	atomic.AddInt64(&nCompile, 1)
	c, err := s.Compile()
	if err != nil {
		var ce *tengo.CompilerError
		cls := "parse-error"
		if errors.As(err, &ce) {
			cls = "compile-error"
		}
		return execOut{class: cls, err: err, text: err.Error()}
	}
	ctx, cancel := context.WithTimeout(context.Background(), caseDeadline)
	defer cancel()
	atomic.AddInt64(&nRun, 1)
	err = c.RunContext(ctx)
	out.globals = map[string]tengo.Object{}
	for _, v := range c.GetAll() {
		out.globals[v.Name()] = v.Object()
	}
	switch {
	case err != nil && ctx.Err() != nil:
		out.class, out.err, out.text = "timeout", err, err.Error()
	case err != nil:
		out.class, out.err, out.text = "runtime-error", err, err.Error()
	default:
		out.class = "ok"
	}
	return
}

const caseDeadline = 20 * time.Second

// moduleFunctions returns, per module name, the number of distinct compiled
// functions in the constant pool whose instructions load that module's marker
// string (= compiled module bodies).
func moduleFunctions(bc *tengo.Bytecode) map[string]int {
	out := map[string]int{}
	seen := map[*tengo.CompiledFunction]bool{}
	for _, c := range bc.Constants {
		fn, ok := c.(*tengo.CompiledFunction)
		if !ok || seen[fn] {
			continue
		}
		seen[fn] = true
		ins := fn.Instructions
		marks := map[string]bool{}
		for i := 0; i < len(ins); {
			op := ins[i]
			widths := parser.OpcodeOperands[op]
			operands, n := parser.ReadOperands(widths, ins[i+1:])
			if op == parser.OpConstant && len(operands) == 1 && operands[0] < len(bc.Constants) {
				if s, ok := bc.Constants[operands[0]].(*tengo.String); ok && strings.HasPrefix(s.Value, "MARK:") {
					marks[s.Value[5:]] = true
				}
			}
			i += 1 + n
		}
		for m := range marks {
			out[m]++
		}
	}
	return out
}

type fail struct{ sig, what string }

type graphStats struct {
	reachEdges int
	cyclic     bool
	diamond    bool
	shape      string
	simHits    int
	exactName  int // 1 = error named exactly the module the depth-first model names, -1 = another cycle module, 0 = n/a
}

func runGraph(c Case) (fails []fail, obs string, st graphStats) {
	g, err := parseGraph(c.N, c.Edges)
	if err != nil || len(c.ModVars) != c.N {
		return []fail{{"internal/bad-case", fmt.Sprint("bad graph case: ", err)}}, "", st
	}
	nm := namer(c.Names)
	if len(nm) != 0 && len(nm) != c.N {
		return []fail{{"internal/bad-case", "names do not match n"}}, "", st
	}
	for i := 0; i < c.N; i++ {
		for j := 0; j < i; j++ {
			if nm.name(i) == nm.name(j) {
				return []fail{{"internal/bad-case", "module names are not distinct"}}, "", st
			}
		}
	}
	a := analyse(g, c.Desc)
	st = graphStats{reachEdges: a.reachEdges, cyclic: a.cyclic, diamond: a.diamond, shape: a.shape, simHits: a.simHits}
	mods := tengo.NewModuleMap()
	srcs := map[string]string{}
	for i := 0; i < g.n; i++ {
		src := moduleSource(i, g.targets(i+1, c.Desc), c.ModVars[i], nm)
		srcs[nm.name(i)] = src
		mods.AddSourceModule(nm.name(i), []byte(src))
	}
	mainSrc := mainSource(g.targets(0, c.Desc), c.MainVar, nm)
	add := func(what, detail string) {
		fails = append(fails, fail{"graph/" + what + "/shape=" + a.shape,
			fmt.Sprintf("%s [edges=%v names=%q desc=%v main=%s mods=%v]", detail, c.Edges, shownNames(c), c.Desc, c.MainVar, c.ModVars)})
	}
	o := execScript(execIn{main: mainSrc, mods: mods})
	obs = o.class
	switch o.class {
	case "noterm":
		add("hang", "compilation does not terminate (unbounded import recursion): "+o.text)
		return
	case "timeout":
		add("hang", "running the compiled import graph did not finish within the deadline")
		return
	case "panic":
		add("panic", "compile/run panicked: "+tg.FirstLine(o.text))
		return
	case "parse-error":
		add("rejects-acyclic", "generated source does not parse (harness or parser): "+tg.FirstLine(o.text))
		return
	}
	if a.cyclic {
		obs = "cyclic:" + o.class
		if o.class != "compile-error" {
			add("accepts-cyclic", fmt.Sprintf("a cycle through %v is reachable from main but compilation gave %s %s", a.cycleNames, o.class, tg.FirstLine(o.text)))
			return
		}
		first := tg.FirstLine(o.text)
		const pfx = "cyclic module import: "
		k := strings.Index(first, pfx)
		if !strings.Contains(first, "cyclic") || k < 0 {
			add("wrong-cycle-named", "compile error does not mention a cyclic import: "+first)
			return
		}
		named := first[k+len(pfx):] // verbatim: a module name may end in a space
		namedIdx := "<no module of that name>"
		for i := 0; i < c.N; i++ {
			if nm.name(i) == named {
				namedIdx = "m" + strconv.Itoa(i)
			}
		}
		on := false
		for _, n := range a.cycleNames {
			if n == namedIdx {
				on = true
			}
		}
		if !on {
			add("wrong-cycle-named", fmt.Sprintf("error names %q (= %s), reachable modules on a cycle are %v", named, namedIdx, a.cycleNames))
			return
		}
		st.exactName = -1
		if namedIdx == a.simFail {
			st.exactName = 1
		}
		obs += ":" + a.shape
		return
	}
	// acyclic from main's point of view
	obs = "acyclic:" + o.class
	if o.class != "ok" {
		add("rejects-acyclic", fmt.Sprintf("no cycle is reachable from main but compile+run gave %s: %s", o.class, tg.FirstLine(o.text)))
		return
	}
	want := refGlobals(g, c.Desc, c.MainVar, c.ModVars, nm)
	var names []string
	for k := range o.globals {
		names = append(names, k)
	}
	sort.Strings(names)
	for _, k := range names {
		got := val.Snapshot(o.globals[k])
		w, ok := want[k]
		if !ok {
			add("value-mismatch", fmt.Sprintf("unexpected global %s = %s", k, got))
			continue
		}
		if got != w {
			add("value-mismatch", fmt.Sprintf("global %s = %s, reference %s", k, got, w))
		}
	}
	for k := range want {
		if _, ok := o.globals[k]; !ok {
			add("value-mismatch", "global "+k+" missing")
		}
	}
	// each reachable module compiled exactly once
	atomic.AddInt64(&nCompile, 1)
	var d tg.Direct
	func() {
		gt := &getter{m: mods}
		defer func() {
			if r := recover(); r != nil {
				d.Class, d.ErrText = "panic", fmt.Sprint(r)
			}
		}()
		d = tg.CompileDirect(mainSrc, nil, gt, false, false)
	}()
	if d.Class != "ok" {
		add("rejects-acyclic", "direct compiler disagrees with Script.Compile: "+d.Class+" "+tg.FirstLine(d.ErrText))
		return
	}
	cnt := moduleFunctions(d.Bytecode)
	total := 0
	for i := 0; i < g.n; i++ {
		n := cnt["m"+strconv.Itoa(i)]
		total += n
		wantN := 0
		if a.reach[i+1] {
			wantN = 1
		}
		if n != wantN {
			add("compiled-more-than-once", fmt.Sprintf("module m%d has %d compiled bodies in the constant pool, want %d (reachable modules: %d)", i, n, wantN, a.nReach))
		}
	}
	obs += fmt.Sprintf(":%s:mods=%d", a.shape, total)
	return
}

func shownNames(c Case) []string {
	out := make([]string, c.N)
	for i := range out {
		out[i] = namer(c.Names).name(i)
	}
	return out
}
