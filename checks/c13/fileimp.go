package main

// Part C: import never consults the file system unless file import is enabled.
//
// Layout under <base> (= $VERIF_SCR/c13fs):
//   <base>/w/cwd     process working directory (set once at start)
//   <base>/i/imp     directory passed to SetImportDir
//   <base>/abs/m     the absolute-path import name
// For every import name a decoy `export "DECOY"` exists at every place a
// resolver could look: relative to the working directory, relative to the
// import directory, with and without the ".tengo" extension, and (absolute
// name) at the path itself.

import (
	"bufio"
	"fmt"
	"os"
	"os/exec"
	"path/filepath"
	"regexp"
	"sort"
	"strconv"
	"strings"

	"github.com/d5/tengo/v2"
	"verif/engine/tg"
	"verif/engine/val"
)

type fsLayout struct {
	base, cwd, imp, absName string
	decoys                  map[string]bool // absolute cleaned paths of decoy files
}

var fsl fsLayout

type importName struct{ class, name string }

func importNames() []importName {
	return []importName{
		{"bare", "m"}, {"dot", "./m"}, {"dotdot", "../m"}, {"ext", "m.tengo"},
		{"abs", fsl.absName}, {"subdir", "sub/m"}, {"empty", ""}, {"stdlib-name", "math"},
	}
}

const decoySrc = "export \"DECOY\"\n"

// setupFS creates the layout (create=true) or only computes it (the strace
// child must not touch the decoys itself).
func setupFS(base string, create bool) error {
	fsl = fsLayout{base: base, cwd: filepath.Join(base, "w", "cwd"), imp: filepath.Join(base, "i", "imp"),
		absName: filepath.Join(base, "abs", "m"), decoys: map[string]bool{}}
	put := func(p string) error {
		p = filepath.Clean(p)
		fsl.decoys[p] = true
		if !create {
			return nil
		}
		if err := os.MkdirAll(filepath.Dir(p), 0o755); err != nil {
			return err
		}
		if st, err := os.Stat(p); err == nil && st.IsDir() {
			delete(fsl.decoys, p)
			return nil
		}
		// the decoy names the place it was found in (working directory / import directory / elsewhere)
		where := "ELSEWHERE"
		switch {
		case strings.HasPrefix(p, filepath.Join(base, "w")+string(filepath.Separator)):
			where = "CWD-TREE"
		case strings.HasPrefix(p, filepath.Join(base, "i")+string(filepath.Separator)):
			where = "IMPORTDIR-TREE"
		}
		return os.WriteFile(p, []byte("export \"DECOY-"+where+"\"\n"), 0o644)
	}
	if create {
		for _, d := range []string{fsl.cwd, fsl.imp} {
			if err := os.MkdirAll(d, 0o755); err != nil {
				return err
			}
		}
	}
	for _, in := range importNames() {
		var cands []string
		for _, root := range []string{fsl.cwd, fsl.imp} {
			cands = append(cands, filepath.Join(root, in.name))
		}
		if filepath.IsAbs(in.name) {
			cands = append(cands, in.name)
		}
		for _, p := range cands {
			if in.name != "" {
				if err := put(p); err != nil {
					return err
				}
			}
			if !strings.HasSuffix(p, ".tengo") {
				q := p + ".tengo"
				if in.name == "" {
					q = filepath.Join(p, ".tengo")
				}
				if err := put(q); err != nil {
					return err
				}
			}
		}
	}
	return nil
}

func fileCases() []Case {
	var out []Case
	for _, in := range importNames() {
		for _, fi := range []bool{false, true} {
			for _, sd := range []bool{false, true} {
				for _, mk := range []string{"absent", "source", "builtin"} {
					for _, pos := range []string{"main", "nested", "in-func"} {
						out = append(out, Case{Kind: "file", NameClass: in.class, FileImport: fi, SetDir: sd, MapKind: mk, Pos: pos,
							ID: fmt.Sprintf("fileimport/name=%s/file=%v/dir=%v/map=%s/pos=%s", in.class, fi, sd, mk, pos)})
					}
				}
			}
		}
	}
	return out
}

func nameOfClass(class string) (string, bool) {
	for _, in := range importNames() {
		if in.class == class {
			return in.name, true
		}
	}
	return "", false
}

// runFile returns failures, an observation and whether this was an enabled-file-import
// sanity case in which the decoy was NOT loaded (vacuity: harness problem, not a violation).
func runFile(c Case) (fails []fail, obs string, ineffective bool) {
	name, ok := nameOfClass(c.NameClass)
	if !ok {
		return []fail{{"internal/bad-case", "unknown name class " + c.NameClass}}, "", false
	}
	add := func(what, detail string) {
		fails = append(fails, fail{"fileimport/" + what + "/name=" + c.NameClass,
			fmt.Sprintf("%s: %s [import(%q) file-import=%v import-dir-set=%v map=%s pos=%s]", c.ID, detail, name, c.FileImport, c.SetDir, c.MapKind, c.Pos)})
	}
	mods := tengo.NewModuleMap()
	switch c.MapKind {
	case "source":
		mods.AddSourceModule(name, []byte("export \"MAP\"\n"))
	case "builtin":
		mods.AddBuiltinModule(name, map[string]tengo.Object{"id": &tengo.String{Value: "BUILTIN"}})
	}
	q := strconv.Quote(name)
	main := "x := import(" + q + ")\n"
	switch c.Pos {
	case "nested":
		mods.AddSourceModule("host", []byte("export import("+q+")\n"))
		main = "x := import(\"host\")\n"
	case "in-func":
		main = "f := func() { return import(" + q + ") }\nx := f()\nf = undefined\n"
	}
	o := execScript(execIn{main: main, mods: mods, fileImport: c.FileImport, setDir: c.SetDir, importDir: fsl.imp})
	obs = o.class
	snap := ""
	if o.class == "ok" {
		snap = val.Snapshot(o.globals["x"])
		obs += ":" + snap
	} else {
		obs += ":" + errClass(o.text)
	}
	if o.class == "panic" || o.class == "timeout" || o.class == "noterm" {
		add("panic", o.class+": "+tg.FirstLine(o.text))
		return
	}
	decoyLoaded := strings.Contains(snap, "DECOY")
	switch {
	case name == "":
		if o.class != "compile-error" {
			add("empty-name-accepted", "import(\"\") gave "+o.class+" "+snap)
		}
		if decoyLoaded {
			add("decoy-loaded", "import(\"\") loaded a file")
		}
	case c.MapKind == "source":
		if o.class != "ok" || snap != "string:\"MAP\"" {
			add("map-not-preferred", "the supplied source module must be used; got "+o.class+" "+snap+" "+tg.FirstLine(o.text))
		}
	case c.MapKind == "builtin":
		want := "immap{\"__module_name__\":string:" + strconv.Quote(name) + ",\"id\":string:\"BUILTIN\"}"
		if o.class != "ok" || snap != want {
			add("map-not-preferred", "the supplied builtin module must be used; got "+o.class+" "+snap+" "+tg.FirstLine(o.text))
		}
	case !c.FileImport:
		if decoyLoaded {
			add("decoy-loaded", "file import is disabled but the decoy file was loaded: "+snap)
		} else if o.class != "compile-error" || !strings.Contains(o.text, "module '"+name+"' not found") {
			add("wrong-error", "want compile error \"module '"+name+"' not found\", got "+o.class+" "+snap+" "+tg.FirstLine(o.text))
		}
	default: // file import enabled, name not in the map: the decoy must be what is found (sanity of the decoys),
		// and it is the one below the script's import directory (the working directory when none is set),
		// also when the import expression stands in a module taken from the module map
		want := "CWD-TREE"
		if filepath.IsAbs(name) {
			want = "ELSEWHERE"
		}
		if c.SetDir {
			want = "IMPORTDIR-TREE" // every name, also an absolute one, is taken below the import directory
		}
		switch {
		case !(o.class == "ok" && decoyLoaded):
			ineffective = true
			obs += ":DECOY-NOT-LOADED"
		case snap != "string:\"DECOY-"+want+"\"":
			add("file-resolved-in-wrong-directory", "expected the file below "+want+", got "+snap)
		}
	}
	return
}

func errClass(text string) string {
	t := tg.FirstLine(text)
	for _, k := range []string{"not found", "empty module name", "cyclic", "unresolved reference", "file read error", "file path error"} {
		if strings.Contains(t, k) {
			return strings.ReplaceAll(k, " ", "-")
		}
	}
	return "other"
}

// ---- strace sub-part (thorough) ------------------------------------------------------

// fsProbeMain is the body of `check -fsprobe off|on <base>`: it only compiles/runs the
// file cases with the given file-import setting. It never touches the decoys itself.
func fsProbeMain(mode, base string) {
	if err := setupFS(base, false); err != nil {
		fmt.Println("fsprobe: setup:", err)
		os.Exit(3)
	}
	n, bad := 0, 0
	for _, c := range fileCases() {
		if c.FileImport != (mode == "on") {
			continue
		}
		fails, _, _ := runFile(c)
		n++
		bad += len(fails)
	}
	fmt.Printf("fsprobe mode=%s cases=%d fails=%d\n", mode, n, bad)
}

var quoted = regexp.MustCompile(`"((?:[^"\\]|\\.)*)"`)

// decoyHits scans an strace log for path arguments that denote a decoy file.
func decoyHits(log string) (hits []string, lines int, err error) {
	f, err := os.Open(log)
	if err != nil {
		return nil, 0, err
	}
	defer f.Close()
	seen := map[string]bool{}
	sc := bufio.NewScanner(f)
	sc.Buffer(make([]byte, 1<<20), 1<<20)
	for sc.Scan() {
		line := sc.Text()
		lines++
		if strings.Contains(line, "execve(") {
			continue
		}
		for _, m := range quoted.FindAllStringSubmatch(line, -1) {
			p, uerr := strconv.Unquote("\"" + m[1] + "\"")
			if uerr != nil {
				p = m[1]
			}
			if p == "" {
				continue
			}
			if !filepath.IsAbs(p) {
				p = filepath.Join(fsl.cwd, p)
			}
			p = filepath.Clean(p)
			if fsl.decoys[p] && !seen[p] {
				seen[p] = true
				hits = append(hits, p)
			}
		}
	}
	sort.Strings(hits)
	return hits, lines, sc.Err()
}

type straceResult struct {
	ran      bool
	why      string
	offHits  []string
	onHits   []string
	offLines int
	offOut   string
}

func runStrace() (res straceResult) {
	self, err := os.Executable()
	if err != nil {
		res.why = "os.Executable: " + err.Error()
		return
	}
	st, err := exec.LookPath("strace")
	if err != nil {
		res.why = "strace not installed"
		return
	}
	run := func(mode string) (log string, out string, err error) {
		log = filepath.Join(fsl.base, "strace-"+mode+".log")
		cmd := exec.Command(st, "-f", "-s", "4096", "-e", "trace=file", "-o", log, self, "-fsprobe", mode, fsl.base)
		cmd.Dir = fsl.cwd
		b, err := cmd.CombinedOutput()
		return log, string(b), err
	}
	logOn, outOn, err := run("on")
	if err != nil || !strings.Contains(outOn, "fsprobe mode=on") {
		res.why = fmt.Sprintf("strace could not trace the worker (ptrace not permitted?): %v %s", err, tg.FirstLine(outOn))
		return
	}
	res.onHits, _, err = decoyHits(logOn)
	if err != nil {
		res.why = "cannot read strace log: " + err.Error()
		return
	}
	if len(res.onHits) == 0 {
		res.why = "positive control failed: with file import enabled the strace log shows no decoy access, so the log scan is ineffective"
		return
	}
	logOff, outOff, err := run("off")
	if err != nil || !strings.Contains(outOff, "fsprobe mode=off") {
		res.why = fmt.Sprintf("strace run (file import off) failed: %v %s", err, tg.FirstLine(outOff))
		return
	}
	res.offOut = strings.TrimSpace(outOff)
	res.offHits, res.offLines, err = decoyHits(logOff)
	if err != nil {
		res.why = "cannot read strace log: " + err.Error()
		return
	}
	res.ran = true
	return
}
