// C13: modules are isolated, immutable to importers, and acyclic.
//
// Part A (graph.go): every import graph over main + n source modules (all edge
// sets incl. self-loops; n <= 3 quick, n = 4 with out-degree <= 2 thorough),
// both statement orders, module/main body variants. Oracle = graph
// reachability computed here: compilation terminates, succeeds iff no cycle is
// reachable from main, a failure names a module on a reachable cycle, every
// reachable module is compiled exactly once, run result = reference value.
// Part B (prog.go): isolation of module scope, exported value of every kind,
// immutability under a write alphabet, freshness of every evaluation.
// Part C (fileimp.go): with file import disabled only the supplied module map
// is consulted (decoy files everywhere; thorough: strace shows no access).
package main

import (
	"fmt"
	"os"
	"path/filepath"
	"runtime"
	"runtime/debug"
	"sort"
	"strings"
	"sync"
	"sync/atomic"
	"time"

	"verif/engine/report"
)

// Case is one element of the explored space (JSON: replay artefact).
type Case struct {
	Kind string `json:"kind"` // graph | prog | immut | file
	ID   string `json:"id,omitempty"`
	Sig  string `json:"sig,omitempty"`
	// graph
	N       int      `json:"n,omitempty"`
	Edges   []string `json:"edges,omitempty"` // "main>m0", "m1>m1", ...
	Desc    bool     `json:"desc_order,omitempty"`
	MainVar string   `json:"main_variant,omitempty"`
	ModVars []string `json:"module_variants,omitempty"`
	Names   []string `json:"module_names,omitempty"` // name of module index i (default m0, m1, ...)
	// prog
	Main      string            `json:"main,omitempty"`
	Mods      map[string]string `json:"mods,omitempty"`
	Host      map[string]string `json:"host_vars,omitempty"`
	Probe     bool              `json:"probe,omitempty"`
	WantErr   string            `json:"want_compile_error,omitempty"`
	Want      map[string]string `json:"want_globals,omitempty"`
	WantTicks *int              `json:"want_ticks,omitempty"`
	// immut
	Export string `json:"module_body,omitempty"`
	Op     string `json:"op,omitempty"`
	Nested bool   `json:"nested,omitempty"`
	// file
	NameClass  string `json:"name_class,omitempty"`
	FileImport bool   `json:"file_import,omitempty"`
	SetDir     bool   `json:"import_dir_set,omitempty"`
	MapKind    string `json:"map,omitempty"`
	Pos        string `json:"pos,omitempty"`
}

// ---- graph space --------------------------------------------------------------------

type combo struct {
	main string
	mods []string
}

type block struct {
	n      int
	graphs []graph
	combos []combo // (main variant, module variant assignment)
	names  []string // module names (nil: m0, m1, ...)
	label  string
}

func (b block) size() int64 {
	return int64(len(b.graphs)) * 2 * int64(len(b.combos))
}

func allGraphs(n, maxOut int) []graph {
	var rows []uint8
	for m := 0; m < 1<<uint(n); m++ {
		pc := 0
		for x := m; x != 0; x &= x - 1 {
			pc++
		}
		if pc <= maxOut {
			rows = append(rows, uint8(m))
		}
	}
	var out []graph
	var rec func(v int, g graph)
	rec = func(v int, g graph) {
		if v > n {
			out = append(out, g)
			return
		}
		for _, r := range rows {
			g.adj[v] = r
			rec(v+1, g)
		}
	}
	rec(0, graph{n: n})
	return out
}

func productAssigns(n int) [][]string {
	out := [][]string{{}}
	for i := 0; i < n; i++ {
		var nx [][]string
		for _, a := range out {
			for _, v := range modVariants {
				nx = append(nx, append(append([]string{}, a...), v))
			}
		}
		out = nx
	}
	return out
}

// uniform assignments: all modules the same variant
func uniformAssigns(n int) [][]string {
	var out [][]string
	for _, v := range modVariants {
		a := make([]string, n)
		for i := range a {
			a[i] = v
		}
		out = append(out, a)
	}
	return out
}

// rotated assignments: module i gets variant (i+shift), all shifts
func rotatedAssigns(n int) [][]string {
	var out [][]string
	for s := 0; s < len(modVariants); s++ {
		a := make([]string, n)
		for i := range a {
			a[i] = modVariants[(i+s)%len(modVariants)]
		}
		out = append(out, a)
	}
	return out
}

// cross = every main variant with every assignment; distinct combos only.
func cross(mains []string, assigns ...[][]string) []combo {
	var out []combo
	seen := map[string]bool{}
	for _, m := range mains {
		for _, as := range assigns {
			for _, a := range as {
				k := m + "|" + strings.Join(a, ",")
				if !seen[k] {
					seen[k] = true
					out = append(out, combo{m, a})
				}
			}
		}
	}
	return out
}

// nameSets: module names that are distinct strings but collide under case folding,
// extension completion, path cleaning or trimming. Distinct names are distinct
// modules (the module map is looked up by exact name); the oracle is unchanged.
var nameSets2 = [][]string{
	{"m", "M"}, {"lib\\util", "lib/util"}, {"q\"uote", "quote"}, {"tab\tname", "tab\\tname"}, {"lib/json", "lib/JSON"}, {"a", "a.tengo"}, {"./a", "a"}, {"a", "a "}, {"\u00e9", "\u00c9"},
}
var nameSets3 = [][]string{
	{"m", "m2", "M"}, {"lib/json", "lib/JSON", "LIB/json"}, {"a", "a.tengo", "./a"}, {"\u00e9", "\u00c9", "e\u0301"}, {"a", "a ", "A"},
}

func graphBlocks(thorough bool) []block {
	top := []string{"top"}
	inFunc := []string{"fcall", "fnocall"}
	bs := []block{
		{n: 0, graphs: allGraphs(0, 0), combos: cross(mainVariants, productAssigns(0)), label: "n=0: main alone x 3 main variants"},
		{n: 1, graphs: allGraphs(1, 1), combos: cross(mainVariants, productAssigns(1)), label: "n=1: all 4 graphs x 3 main variants x all 7 module variants"},
		{n: 2, graphs: allGraphs(2, 2), combos: cross(mainVariants, productAssigns(2)), label: "n=2: all 64 graphs x 3 main variants x all 49 variant assignments"},
	}
	for _, ns := range nameSets2 {
		bs = append(bs, block{n: 2, graphs: allGraphs(2, 2), combos: cross(mainVariants, productAssigns(2)), names: ns,
			label: fmt.Sprintf("n=2, module names %q: all 64 graphs x 3 main variants x all 49 variant assignments", ns)})
	}
	for _, ns := range nameSets3 {
		b := block{n: 3, graphs: allGraphs(3, 3), names: ns}
		if thorough {
			b.combos = append(cross(mainVariants, uniformAssigns(3)), cross(top, rotatedAssigns(3))...)
			b.label = fmt.Sprintf("n=3, module names %q: all 4096 graphs x (3 main variants x uniform assignments, main top x rotated assignments)", ns)
		} else {
			b.combos = cross(top, uniformAssigns(3)[:1])
			b.label = fmt.Sprintf("n=3, module names %q: all 4096 graphs x main top x all-map assignment", ns)
		}
		bs = append(bs, b)
	}
	if thorough {
		bs = append(bs,
			block{n: 4, graphs: allGraphs(4, 2), label: "n=4: all 161051 graphs with out-degree<=2 x (main top x uniform assignments, main fcall/fnocall x all-map assignment)",
				combos: append(cross(top, uniformAssigns(4)), cross(inFunc, uniformAssigns(4)[:1])...)},
			block{n: 3, graphs: allGraphs(3, 3), label: "n=3: all 4096 graphs x (main top x all 343 variant assignments, main fcall/fnocall x uniform+rotated assignments)",
				combos: append(cross(top, productAssigns(3)), cross(inFunc, uniformAssigns(3), rotatedAssigns(3))...)})
	} else {
		bs = append(bs, block{n: 3, graphs: allGraphs(3, 3), combos: append(cross(mainVariants, uniformAssigns(3)), cross(top, rotatedAssigns(3))...),
			label: "n=3: all 4096 graphs x (3 main variants x uniform assignments, main top x rotated assignments)"})
	}
	return bs
}

// decode maps an index of the block to a case; ok=false when the element is a
// duplicate (descending order of a graph in which no node has two imports).
func (b block) decode(i int64) (c Case, ok bool) {
	nc := int64(len(b.combos))
	ci := i % nc
	i /= nc
	desc := i%2 == 1
	gi := i / 2
	g := b.graphs[gi]
	if desc && !g.hasBranching() {
		return Case{}, false
	}
	return Case{Kind: "graph", N: b.n, Edges: g.edges(), Desc: desc, MainVar: b.combos[ci].main, ModVars: b.combos[ci].mods, Names: b.names}, true
}

// ---- aggregation -------------------------------------------------------------------

type stats struct {
	outcomes   map[string]int64
	counters   map[string]int64
	shapes     map[string]int64
	violations map[string]*vgroup
}

// vgroup keeps the count and the few smallest examples of one signature.
type vgroup struct {
	count int64
	ex    []viol
}

const keepExamples = 5

func (s *stats) addViolation(v viol, n int64) {
	g := s.violations[v.sig]
	if g == nil {
		g = &vgroup{}
		s.violations[v.sig] = g
	}
	g.count += n
	g.ex = append(g.ex, v)
	sort.SliceStable(g.ex, func(i, j int) bool {
		wi, wj := caseWeight(g.ex[i].c), caseWeight(g.ex[j].c)
		if wi != wj {
			return wi < wj
		}
		return caseKey(g.ex[i].c) < caseKey(g.ex[j].c)
	})
	if len(g.ex) > keepExamples {
		g.ex = g.ex[:keepExamples]
	}
}

func caseKey(c Case) string {
	return fmt.Sprint(c.Kind, c.ID, c.N, c.Edges, c.Desc, c.MainVar, c.ModVars, c.Names)
}

type viol struct {
	sig, what string
	c         Case
}

func newStats() *stats {
	return &stats{outcomes: map[string]int64{}, counters: map[string]int64{}, shapes: map[string]int64{}, violations: map[string]*vgroup{}}
}

func (s *stats) merge(o *stats) {
	for k, v := range o.outcomes {
		s.outcomes[k] += v
	}
	for k, v := range o.counters {
		s.counters[k] += v
	}
	for k, v := range o.shapes {
		s.shapes[k] += v
	}
	for _, g := range o.violations {
		for i, v := range g.ex {
			n := int64(0)
			if i == 0 {
				n = g.count
			}
			s.addViolation(v, n)
		}
	}
}

// runAny executes one case of any kind and folds the result into st.
func runAny(c Case, st *stats) (obs string) {
	var fails []fail
	switch c.Kind {
	case "graph":
		var gs graphStats
		fails, obs, gs = runGraph(c)
		st.counters["graph-cases"]++
		st.counters[fmt.Sprintf("graph-cases-n%d", c.N)]++
		if len(c.Names) > 0 {
			st.counters["graph-cases-near-colliding-names"]++
		}
		if gs.reachEdges > 0 {
			st.counters["nontrivial"]++
		}
		if gs.cyclic {
			st.counters["graph-cyclic-reachable"]++
		} else {
			st.counters["graph-acyclic"]++
			if gs.diamond {
				st.counters["graph-acyclic-diamond"]++
			}
		}
		if gs.cyclic && gs.simHits > 0 {
			st.counters["graph-cache-hit-before-cycle"]++
		}
		switch gs.exactName {
		case 1:
			st.counters["cycle-error-names-dfs-module"]++
		case -1:
			st.counters["cycle-error-names-other-cycle-module"]++
		}
		st.shapes[gs.shape]++
	case "prog":
		fails, obs = runProg(c)
		st.counters["prog-cases"]++
		st.counters["nontrivial"]++
		obs = c.ID[:strings.Index(c.ID+"/", "/")] + ":" + obs
	case "shared":
		fails, obs = runShared(c)
		st.counters["shared-builtin-cases"]++
		st.counters["nontrivial"]++
		obs = "shared:" + obs
	case "immut":
		fails, obs = runImmut(c)
		st.counters["immut-cases"]++
		st.counters["nontrivial"]++
		obs = "immut:" + obs
	case "file":
		var ineffective bool
		fails, obs, ineffective = runFile(c)
		st.counters["file-cases"]++
		st.counters["nontrivial"]++
		if ineffective {
			st.counters["file-decoy-ineffective"]++
		}
		if c.FileImport && c.MapKind == "absent" && c.NameClass != "empty" && !ineffective {
			st.counters["file-decoy-loaded-when-enabled"]++
		}
		obs = "file:" + strings.ReplaceAll(obs, fsl.base, "<scratch>")
		if len(obs) > 90 {
			obs = obs[:90]
		}
	default:
		fails = []fail{{"internal/bad-case", "unknown kind " + c.Kind}}
	}
	st.counters["cases"]++
	st.outcomes[obs]++
	for _, f := range fails {
		st.addViolation(viol{f.sig, f.what, c}, 1)
	}
	return obs
}

// ---- main ----------------------------------------------------------------------------

type slot struct {
	start int64 // unix nanos, 0 = idle
	blk   int64
	idx   int64
}

func main() {
	for i, a := range os.Args {
		if a == "-fsprobe" && i+2 < len(os.Args) {
			fsProbeMain(os.Args[i+1], os.Args[i+2])
			return
		}
	}
	var replay *report.Replay
	if p := report.ReplayArg(); p != "" {
		rp, err := report.LoadReplay(p)
		if err != nil {
			fmt.Println("cannot load replay:", err)
			os.Exit(2)
		}
		replay = rp
	}
	// scratch area with decoys; working directory set once
	scr := os.Getenv("VERIF_SCR")
	own := false
	if scr == "" {
		d, err := os.MkdirTemp("/var/tmp", "c13-")
		if err != nil {
			fmt.Println("INTERNAL: no scratch dir:", err)
			os.Exit(2)
		}
		scr, own = d, true
	}
	base := filepath.Join(scr, "c13fs")
	if err := setupFS(base, true); err != nil {
		fmt.Println("INTERNAL: cannot create decoys:", err)
		os.Exit(2)
	}
	if err := os.Chdir(fsl.cwd); err != nil {
		fmt.Println("INTERNAL: chdir:", err)
		os.Exit(2)
	}
	cleanup := func() {
		if own {
			_ = os.Chdir("/")
			_ = os.RemoveAll(scr)
		}
	}

	if replay != nil {
		for _, raw := range replay.Cases {
			var c Case
			_ = report.Recase(raw, &c)
			st := newStats()
			obs := runAny(c, st)
			fmt.Printf("case %s\n", describe(c))
			fmt.Printf("  observed: %s\n", obs)
			for _, g := range st.violations {
				for _, v := range g.ex {
					fmt.Printf("  FAIL %s: %s\n", v.sig, v.what)
				}
			}
		}
		cleanup()
		return
	}

	r := report.New("C13")
	// every compile allocates a 1024-slot globals array and every run a VM stack: the live heap is tiny and the
	// allocation rate huge, so collect by memory limit instead of by heap growth
	debug.SetGCPercent(-1)
	debug.SetMemoryLimit(384 << 20)
	budget := 5 * time.Minute
	if r.Thorough() {
		budget = 9*time.Minute + 30*time.Second
	}
	var capped int32
	blocks := graphBlocks(r.Thorough())
	small := append(append(append(isolationProgs(), valueProgs()...), freshProgs()...), append(immutCases(), sharedCases()...)...)
	small = append(small, fileCases()...)

	workers := runtime.GOMAXPROCS(0)
	slots := make([]slot, workers)
	total := newStats()
	var totalMu sync.Mutex
	coverage := func(s *stats) report.Coverage {
		return report.Coverage{
			States:      s.counters["cases"],
			Transitions: atomic.LoadInt64(&nCompile) + atomic.LoadInt64(&nRun),
			Validated:   s.counters["cases"],
			Evaluations: s.counters["cases"],
			Nontrivial:  s.counters["nontrivial"],
			Rule: "graph cases = (edge set over importer in {main,m0..m(n-1)} x importee in {m0..}, incl. self-loops) x statement order (descending only when some node has two imports, otherwise it is the same program) x main variant {top,fcall,fnocall} x module variant assignment from {map,noexport,lit,counter,fcall,fnocall} x module name set (m0.. or a set of distinct names that collide under case folding / extension / path cleaning / trimming); " +
				"small programs = isolation places x reference forms, export kinds x positions, freshness programs, exported values x write alphabet, import names x file-import x import-dir x module-map content x position. " +
				"state = one configuration; transition = one Script.Compile, Compiled.RunContext or direct compile on the real implementation; validated = configurations whose outcome was compared with the reachability reference / expected value; " +
				"non-trivial = graph configurations with at least one import edge whose importer is reachable from main, and every small program (each contains an import expression)",
		}
	}

	// watchdog: a case that does not come back within the deadline is a violation (hang);
	// the stuck goroutine cannot be killed, so the run is closed right away.
	var done int32
	go func() {
		for atomic.LoadInt32(&done) == 0 {
			time.Sleep(time.Second)
			now := time.Now().UnixNano()
			for w := range slots {
				s0 := atomic.LoadInt64(&slots[w].start)
				if s0 == 0 || now-s0 < int64(caseDeadline+5*time.Second) {
					continue
				}
				bi, idx := atomic.LoadInt64(&slots[w].blk), atomic.LoadInt64(&slots[w].idx)
				var c Case
				if bi >= 0 && int(bi) < len(blocks) {
					c, _ = blocks[bi].decode(idx)
				} else if int(idx) < len(small) {
					c = small[idx]
				}
				shape := "n/a"
				if c.Kind == "graph" {
					if g, err := parseGraph(c.N, c.Edges); err == nil {
						shape = analyse(g, c.Desc).shape
					}
					r.Violation("graph/hang/shape="+shape, fmt.Sprintf("compile/run did not return within %v: %s", caseDeadline, describe(c)), c)
				} else {
					r.Violation(c.Kind+"/hang", fmt.Sprintf("compile/run did not return within %v: %s", caseDeadline, describe(c)), c)
				}
				r.NotExhaustive("run closed after a hanging case (the goroutine cannot be stopped)")
				totalMu.Lock()
				cov := coverage(total)
				totalMu.Unlock()
				r.Finish(cov)
			}
		}
	}()

	parallel := func(bi int64, n int64, get func(i int64) (Case, bool)) {
		var next int64
		var wg sync.WaitGroup
		const chunk = 256
		for w := 0; w < workers; w++ {
			wg.Add(1)
			go func(w int) {
				defer wg.Done()
				st := newStats()
				for {
					lo := atomic.AddInt64(&next, chunk) - chunk
					if lo >= n {
						break
					}
					if bi >= 0 && r.Elapsed() > budget {
						atomic.StoreInt32(&capped, 1)
						break
					}
					hi := lo + chunk
					if hi > n {
						hi = n
					}
					for i := lo; i < hi; i++ {
						c, ok := get(i)
						if !ok {
							st.counters["skipped-same-program-as-ascending-order"]++
							continue
						}
						atomic.StoreInt64(&slots[w].blk, bi)
						atomic.StoreInt64(&slots[w].idx, i)
						atomic.StoreInt64(&slots[w].start, time.Now().UnixNano())
						runAny(c, st)
						atomic.StoreInt64(&slots[w].start, 0)
					}
				}
				totalMu.Lock()
				total.merge(st)
				totalMu.Unlock()
			}(w)
		}
		wg.Wait()
	}

	for bi, b := range blocks {
		b := b
		parallel(int64(bi), b.size(), b.decode)
	}
	parallel(-1, int64(len(small)), func(i int64) (Case, bool) { return small[i], true })
	atomic.StoreInt32(&done, 1)
	if atomic.LoadInt32(&capped) != 0 {
		r.NotExhaustive(fmt.Sprintf("internal deadline of %v reached while enumerating the graph blocks; %d graph cases were executed", budget, total.counters["graph-cases"]))
	}

	// thorough: the disabled-file-import cases once more under strace
	if r.Thorough() {
		sr := runStrace()
		if !sr.ran {
			r.Note("strace sub-part not executed: %s", sr.why)
			r.NotExhaustive("fileimport/strace sub-part skipped: " + sr.why)
		} else {
			r.Set("strace_positive_control_decoy_paths_seen_with_file_import_enabled", len(sr.onHits))
			r.Set("strace_log_lines_file_import_disabled", sr.offLines)
			r.Set("strace_worker_summary", sr.offOut)
			total.counters["strace-runs"] += 2
			if len(sr.offHits) > 0 {
				r.Violation("fileimport/fs-access/name=any", fmt.Sprintf("with file import disabled the compiler touched decoy files (strace -e trace=file): %v", rel(sr.offHits)),
					Case{Kind: "file", ID: "strace", NameClass: "bare", MapKind: "absent", Pos: "main"})
			}
		}
	} else {
		r.Note("strace sub-part (no file-system access to decoys with file import disabled) runs in the thorough tier only")
	}

	// fold
	var sigs []string
	for sig := range total.violations {
		sigs = append(sigs, sig)
	}
	sort.Strings(sigs)
	for _, sig := range sigs {
		g := total.violations[sig]
		if strings.HasPrefix(sig, "internal/") {
			r.Internal("%s (%d cases): %s", sig, g.count, g.ex[0].what)
			continue
		}
		for _, v := range g.ex {
			r.Violation(v.sig, v.what, v.c)
		}
		for i := int64(len(g.ex)); i < g.count; i++ {
			r.Violation(sig, g.ex[0].what, g.ex[0].c)
		}
	}
	if n := total.counters["file-decoy-ineffective"]; n > 0 {
		r.Internal("%d enabled-file-import sanity cases did not load the decoy file: the decoys are not where the resolver looks, part C would be vacuous", n)
	}
	var oks []string
	for k := range total.outcomes {
		oks = append(oks, k)
	}
	sort.Strings(oks)
	for _, k := range oks {
		for i := int64(0); i < total.outcomes[k]; i++ {
			r.Outcome(k)
		}
	}
	for k, v := range total.counters {
		r.Count(k, v)
	}
	r.Count("script-compiles", atomic.LoadInt64(&nCompile))
	r.Count("script-runs", atomic.LoadInt64(&nRun))
	r.Set("graph_shapes", total.shapes)
	var labels []string
	for _, b := range blocks {
		labels = append(labels, fmt.Sprintf("%s [%d graphs x <=2 orders x %d variant combinations]", b.label, len(b.graphs), len(b.combos)))
	}
	r.Set("graph_blocks", labels)
	r.Set("module_variants", modVariants)
	r.Set("main_variants", mainVariants)
	r.Set("write_alphabet", len(immutOps))
	r.Set("import_names", importNamesForEvidence())
	// deterministic samples
	for _, b := range blocks {
		for k := int64(1); k <= 2; k++ {
			if c, ok := b.decode(b.size() * k / 3); ok {
				r.Sample(map[string]interface{}{"case": c, "observed": runAny(c, newStats())})
			}
		}
	}
	for _, i := range []int{0, len(small) / 3, len(small) / 2, len(small) - 1} {
		r.Sample(map[string]interface{}{"case": small[i], "observed": runAny(small[i], newStats())})
	}
	r.Assume("immutability is claimed for the value the import expression yields (docs: \"export-ed values are always immutable\"); containers nested inside it stay mutable (the VM's immutable conversion is shallow), so writes through a nested container are only required to leave the top level (element identity, type) unchanged")
	r.Assume("non-termination of import resolution is detected by a bound on resolver calls (32 per compile; a compiler with a correct cycle check needs at most one call per simple import path from main plus one, <= 31 below the bound, and <= 12 with the module cache) instead of waiting for the Go stack to overflow; any other hang by a 25 s watchdog")
	r.Assume("module bodies are recognised in the constant pool by a unique marker string constant loaded in the body's first statement")
	r.Assume("with file import enabled, a name that is not in the module map is read from the file below the script's import directory when SetImportDir was called (every name, also an absolute one, is joined to it) and below the working directory otherwise - also when the import expression stands in a module taken from the module map (docs/interoperability.md: SetImportDir sets the initial import directory for script files); decoys at every candidate place name the place they were found in")
	r.Assume("import(\"\") is rejected as 'empty module name' under every setting; the property's 'not found' wording is not demanded for it")
	cleanup()
	r.Finish(coverage(total))
}

func importNamesForEvidence() []string {
	var out []string
	for _, in := range importNames() {
		n := in.name
		if in.class == "abs" {
			n = "<scratch>/abs/m"
		}
		out = append(out, in.class+"="+n)
	}
	return out
}

func rel(paths []string) []string {
	var out []string
	for _, p := range paths {
		out = append(out, strings.TrimPrefix(p, fsl.base))
	}
	return out
}

// caseWeight orders the examples of one signature: smallest first.
func caseWeight(c Case) int {
	if c.Kind != "graph" {
		return len(c.Main) + len(c.Export) + len(c.Op) + len(c.ID)
	}
	w := c.N*1000 + len(c.Edges)*50
	for _, v := range c.ModVars {
		if v != "map" {
			w += 5
		}
	}
	if c.MainVar != "top" {
		w += 5
	}
	if c.Desc {
		w++
	}
	return w
}

func describe(c Case) string {
	switch c.Kind {
	case "graph":
		g, err := parseGraph(c.N, c.Edges)
		if err != nil {
			return fmt.Sprintf("%+v", c)
		}
		var sb strings.Builder
		fmt.Fprintf(&sb, "graph n=%d edges=%v names=%q desc=%v main=%s mods=%v\n", c.N, c.Edges, shownNames(c), c.Desc, c.MainVar, c.ModVars)
		fmt.Fprintf(&sb, "  --- main ---\n%s", indent(mainSource(g.targets(0, c.Desc), c.MainVar, namer(c.Names))))
		for i := 0; i < g.n && i < len(c.ModVars); i++ {
			fmt.Fprintf(&sb, "  --- m%d = %q ---\n%s", i, namer(c.Names).name(i), indent(moduleSource(i, g.targets(i+1, c.Desc), c.ModVars[i], namer(c.Names))))
		}
		return sb.String()
	case "shared":
		return c.ID
	case "immut":
		return fmt.Sprintf("%s module=%q op=%q", c.ID, c.Export, c.Op)
	case "file":
		return c.ID
	}
	return fmt.Sprintf("%s main=%q mods=%s", c.ID, c.Main, sortedMods(c.Mods))
}

func indent(s string) string {
	var sb strings.Builder
	for _, l := range strings.Split(strings.TrimRight(s, "\n"), "\n") {
		sb.WriteString("    " + l + "\n")
	}
	return sb.String()
}
