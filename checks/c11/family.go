package main

// The C11 base family: statement sequences of at most Budget statements over
// the fixed declarations
//
//	a := 0; b := 1; m := {k: {j: 0}}; arr := [[0, 1], 2]
//
// whose OUTPUT is the final value of [a, b, m, arr]. The body uses := (a fresh
// c, or a shadowing a in an inner block / function), =, compound assignment,
// ++/--, selector and index assignment on m / arr / an alias of m.k, if/else,
// for-init loops, for-in over an array with k, v, function literals bound to a
// variable and called later (closures reading and writing a, b, c, m, arr and
// their own parameter), a closure nested in a closure, a function returning a
// closure over its parameter (the closure outlives the call), closures used as
// first-class VALUES (a writing closure f := func(p) { x += 1; return x } that is
// copied with copy(f), stored into and called out of a container, or passed
// to a function that calls it; original and second route both called, in both
// orders), a recursive function whose tail self-call follows the storing of a
// closure over its parameter (called after the recursion), bounded recursion
// through the defining variable, a reference to a name that is out of scope
// (compile error in every placement) and - inside loops - a closure over a loop
// variable stored into arr and possibly called after the loop (the documented
// loop-capture case; recognised by exclusion.go and left out of the oracle).
//
// All programs terminate by construction: loop variables and parameters are
// never the target of a decreasing write and recursion is guarded by a
// parameter that only decreases.

import "verif/engine/gen"

// FamCfg bounds the family. Lean: 0 rich pools, 1 reduced, 2 small, 3 smaller, 4 smallest.
type FamCfg struct {
	Budget int `json:"budget"`
	Lean   int `json:"lean"`
}

type fam struct {
	ch     *gen.Chooser
	lean   int
	budget int
	rd     []string // readable plain variables in scope (a, b, c, parameters, loop variables)
	wr     []string // assignable variables in scope (a, b, c)
	inc    []string // variables that may only be incremented (for-init variable)
	fns    []string // callable one-parameter functions in scope
	alias  bool     // c is visible and may hold the map m.k
	fdepth int      // function literal nesting
	depth  int      // block nesting (function bodies count)
	bFunc  bool     // arr[0] may hold a function (an escape form was generated)
	undecl bool     // the out-of-scope reference was used (at most once)
	// a function whose body cost budget must be called: the last statement
	// of budget is spent on a call while it has not been called yet
	pending      string
	pendingDepth int
	fnDepth      int  // block depth of the body of the innermost function
	fGetter      bool // the visible f returns a closure over its parameter (call sites call the result)
	fBump        bool // the visible f is the writing closure func(p) { x += 1; return x } (it ignores its argument)
	// second route to the writing closure, reached through the callable name "h":
	// "copy" h := copy(f) | "store" m.n = f, called as m.n(1) | "apply" h := func(q) { return q(1) }, called as h(f)
	hKind string
	// a recursive f that stores a closure over its parameter into arr[p] on every activation was
	// generated: arr[1] may hold such a closure (called after the recursion has finished)
	pStore bool
}

// call builds a call of a visible function with a plain argument; calling the
// pending function settles it (forced: the pending function is the callee). A
// function that returns a closure over its parameter (the closure outlives the
// frame that declared the variable) has the result called on the spot. The
// writing closure ignores its argument, so it is always called with 1; its
// second route "h" is called in the form its kind requires.
func (g *fam) call(forced bool) gen.Expr {
	var n string
	if forced {
		n = g.pending
	} else {
		n = g.pick(g.fns)
	}
	if n == g.pending {
		g.pending = ""
	}
	switch {
	case n == hName && g.hKind == "apply":
		return gen.C(gen.I(hName), gen.I(fnNames[0]))
	case n == hName && g.hKind == "store":
		return gen.C(&gen.Sel{X: gen.I("m"), Name: "n"}, gen.N("1"))
	case n == hName:
		return gen.C(gen.I(hName), gen.N("1"))
	case n == fnNames[0] && g.fBump:
		return gen.C(gen.I(n), gen.N("1"))
	}
	c := gen.C(gen.I(n), g.atom())
	if n == fnNames[0] && g.fGetter {
		return gen.C(c)
	}
	return c
}

// hName is the callable name of the second route to the writing closure.
const hName = "h"

type famState struct {
	rd, wr, inc, fns      []string
	alias, fGetter, fBump bool
	hKind                 string
}

func (g *fam) save() famState {
	return famState{g.rd, g.wr, g.inc, g.fns, g.alias, g.fGetter, g.fBump, g.hKind}
}
func (g *fam) restore(s famState) {
	g.rd, g.wr, g.inc, g.fns, g.alias, g.fGetter, g.fBump, g.hKind = s.rd, s.wr, s.inc, s.fns, s.alias, s.fGetter, s.fBump, s.hKind
}

func with(xs []string, more ...string) []string {
	out := append([]string{}, xs...)
outer:
	for _, m := range more {
		for _, x := range out {
			if x == m {
				continue outer
			}
		}
		out = append(out, m)
	}
	return out
}

func without(xs []string, name string) []string {
	var out []string
	for _, x := range xs {
		if x != name {
			out = append(out, x)
		}
	}
	return out
}

func has(xs []string, name string) bool {
	for _, x := range xs {
		if x == name {
			return true
		}
	}
	return false
}

func (g *fam) pick(xs []string) string { return xs[g.ch.Choose(len(xs))] }

func (g *fam) atom() gen.Expr {
	lits := []string{"1", "2"}
	if g.lean > 0 {
		lits = lits[:1]
	}
	rd := g.rd
	if g.lean > 3 {
		// 1 | b | the innermost additional variable
		rd = []string{"b"}
		if len(g.rd) > 2 {
			rd = append(rd, g.rd[len(g.rd)-1])
		}
	} else if g.lean > 2 && len(rd) > 2 {
		rd = []string{"a", rd[len(rd)-1]}
	} else if g.lean > 2 {
		rd = rd[:1]
	}
	k := g.ch.Choose(len(lits) + len(rd))
	if k < len(lits) {
		return gen.N(lits[k])
	}
	return gen.I(rd[k-len(lits)])
}

func mkj() gen.Expr  { return &gen.Sel{X: &gen.Sel{X: gen.I("m"), Name: "k"}, Name: "j"} }
func mk() gen.Expr   { return &gen.Sel{X: gen.I("m"), Name: "k"} }
func arr0() gen.Expr { return &gen.Index{X: gen.I("arr"), I: gen.N("0")} }
func arr01() gen.Expr {
	return &gen.Index{X: &gen.Index{X: gen.I("arr"), I: gen.N("0")}, I: gen.N("1")}
}

func (g *fam) rhs() gen.Expr {
	kinds := []string{"atom", "plus", "mkj"}
	if g.lean < 3 {
		kinds = append(kinds, "arr0")
	}
	if g.lean < 2 {
		kinds = append(kinds, "mk", "arrlit")
	}
	if g.lean < 1 {
		kinds = append(kinds, "arr01", "arrvar")
	}
	if len(g.fns) > 0 {
		kinds = append(kinds, "call")
	}
	if g.bFunc {
		kinds = append(kinds, "bcall")
	}
	if g.pStore {
		kinds = append(kinds, "pcall")
	}
	switch g.pick(kinds) {
	case "atom":
		return g.atom()
	case "plus":
		if g.lean > 2 {
			return gen.B("+", gen.I("a"), gen.N("1"))
		}
		return gen.B("+", gen.I(g.pick(g.rd)), gen.N("1"))
	case "mkj":
		return mkj()
	case "arr0":
		return arr0()
	case "mk":
		return mk()
	case "arrlit":
		return &gen.ArrayLit{Elems: []gen.Expr{gen.I(g.pick(g.rd)), gen.N("7")}}
	case "arr01":
		return arr01()
	case "arrvar":
		return &gen.Index{X: gen.I("arr"), I: gen.I(g.pick(g.rd))}
	case "call":
		return g.call(false)
	case "pcall":
		return gen.C(&gen.Index{X: gen.I("arr"), I: gen.N("1")})
	default:
		return gen.C(arr0())
	}
}

func (g *fam) cond() gen.Expr {
	v := gen.I(g.pick([]string{"a", "b"}))
	if g.lean > 0 || g.ch.Flip() {
		return gen.B("<", v, gen.N("1"))
	}
	return gen.B("==", v, g.atom())
}

// selLHS is the pool of selector / index assignment targets.
func (g *fam) selLHS() gen.Expr {
	kinds := []string{"m.k.j", "m.k", "arr[v]"}
	if g.lean < 3 {
		kinds = append(kinds, "arr[0][1]")
	}
	if g.lean < 2 {
		kinds = append(kinds, "m.n", "arr[0]")
	}
	if g.alias {
		kinds = append(kinds, "c.j")
	}
	switch g.pick(kinds) {
	case "m.k.j":
		return mkj()
	case "m.k":
		return mk()
	case "arr[0][1]":
		return arr01()
	case "arr[v]":
		if g.lean > 2 {
			return &gen.Index{X: gen.I("arr"), I: gen.I(g.rd[len(g.rd)-1])}
		}
		return &gen.Index{X: gen.I("arr"), I: gen.I(g.pick(g.rd))}
	case "m.n":
		return &gen.Sel{X: gen.I("m"), Name: "n"}
	case "arr[0]":
		return arr0()
	default:
		return &gen.Sel{X: gen.I("c"), Name: "j"}
	}
}

var fnNames = []string{"f", "g"}
var paramNames = []string{"p", "q"}

func (g *fam) sub(loopVars []string, extraRd ...string) []gen.Stmt {
	s := g.save()
	g.rd = with(g.rd, extraRd...)
	g.depth++
	b := g.body(loopVars)
	g.depth--
	g.restore(s)
	if g.pending != "" && g.pendingDepth > g.depth {
		g.pending = "" // its block is closed
	}
	return b
}

// body generates one statement list (one block). loopVars are the variables of
// the innermost enclosing loop of the same function (nil outside loops).
func (g *fam) body(loopVars []string) []gen.Stmt {
	var out []gen.Stmt
	defined := map[string]bool{}
	plainSeen := false
	for g.budget > 0 {
		var defNames []string
		var kinds []string
		fname := ""
		forced := false
		if g.pending != "" && g.budget <= 1 && has(g.fns, g.pending) {
			forced = true
			if g.pendingDepth != g.depth {
				kinds = append(kinds, "stop")
			}
			kinds = append(kinds, "call", "assigncall")
		} else {
			reserve := 0
			if g.pending != "" {
				reserve = 1
			}
			if g.pending == "" || g.pendingDepth != g.depth {
				kinds = append(kinds, "stop")
			}
			kinds = append(kinds, "assign", "compound", "incdec", "selassign")
			if !defined["c"] {
				defNames = append(defNames, "c")
			}
			if g.depth > 0 && !defined["a"] && g.lean < 2 {
				defNames = append(defNames, "a")
			}
			if len(defNames) > 0 {
				kinds = append(kinds, "define")
			}
			if len(g.fns) > 0 {
				kinds = append(kinds, "call")
			}
			if !has(g.rd, "c") && !g.undecl && g.depth == 0 && g.lean < 4 {
				kinds = append(kinds, "undeclared")
			}
			if len(loopVars) > 0 && g.fdepth == 0 && !g.bFunc && len(out) == 0 && g.lean < 4 {
				kinds = append(kinds, "escape")
			}
			if g.depth < 2 && g.budget >= 2+reserve {
				kinds = append(kinds, "if", "for3", "forin")
				if g.lean < 3 {
					kinds = append(kinds, "ifelse")
				}
			}
			// the writing closure used as a value: right after its definition, in the outermost block only
			if g.fBump && g.hKind == "" && g.depth == 0 && g.fdepth == 0 && len(out) > 0 && isFuncDef(out[len(out)-1], fnNames[0]) {
				kinds = append(kinds, "fcopy", "fstore", "fapply")
			}
			if g.fdepth < len(fnNames) {
				fname = fnNames[g.fdepth]
				// a function is defined at the head of its block (only definitions may precede it)
				// (smallest pools: only in the outermost block of a function / the program)
				if !defined[fname] && !plainSeen && (g.lean < 4 || g.depth == g.fnDepth) {
					kinds = append(kinds, "fdef")
				}
			}
		}
		k := g.pick(kinds)
		if k == "stop" {
			break
		}
		free := k == "fdef" || k == "escape" || k == "fcopy" || k == "fstore" || k == "fapply"
		if !free {
			g.budget--
		}
		if !free && k != "define" || k == "escape" {
			plainSeen = true
		}
		switch k {
		case "assign":
			v := gen.I(g.pick(g.wr))
			out = append(out, gen.Set(v, g.rhs()))
		case "compound":
			ops := []string{"+=", "-=", "*="}
			if g.lean > 0 {
				ops = ops[:1]
			}
			v := gen.I(g.pick(g.wr))
			if g.lean > 3 {
				out = append(out, &gen.Assign{LHS: v, Op: "+=", RHS: gen.I("b")})
				break
			}
			out = append(out, &gen.Assign{LHS: v, Op: g.pick(ops), RHS: g.atom()})
		case "incdec":
			targets := append(append([]string{}, g.wr...), g.inc...)
			t := g.pick(targets)
			op := "++"
			if !has(g.inc, t) && g.lean < 2 && g.ch.Flip() {
				op = "--"
			}
			out = append(out, &gen.IncDec{X: gen.I(t), Op: op})
		case "selassign":
			lhs := g.selLHS()
			if g.ch.Flip() {
				out = append(out, &gen.Assign{LHS: lhs, Op: "+=", RHS: gen.N("1")})
			} else if g.lean < 1 {
				out = append(out, &gen.Assign{LHS: lhs, Op: "=", RHS: g.atom()})
			} else {
				rs := []string{"b", "arr"}
				if g.lean > 3 {
					rs = rs[:1]
				}
				out = append(out, &gen.Assign{LHS: lhs, Op: "=", RHS: gen.I(g.pick(rs))})
			}
		case "define":
			n := g.pick(defNames)
			e := g.rhs()
			defined[n] = true
			out = append(out, gen.Def(n, e))
			g.rd = with(g.rd, n)
			g.wr = with(g.wr, n)
			if n == "c" {
				_, isSel := e.(*gen.Sel)
				g.alias = isSel && g.lean < 2
			}
		case "call":
			out = append(out, &gen.ExprStmt{X: g.call(forced)})
		case "assigncall":
			v := gen.I(g.pick(g.wr))
			out = append(out, gen.Set(v, g.call(forced)))
		case "fcopy", "fstore", "fapply":
			// a second route to the writing closure; it must be used (pending)
			f := fnNames[0]
			switch k {
			case "fcopy":
				g.hKind = "copy"
				out = append(out, gen.Def(hName, gen.C(gen.I("copy"), gen.I(f))))
			case "fstore":
				g.hKind = "store"
				out = append(out, gen.Set(&gen.Sel{X: gen.I("m"), Name: "n"}, gen.I(f)))
			case "fapply":
				g.hKind = "apply"
				out = append(out, gen.Def(hName, &gen.FuncLit{Params: []string{"q"}, Body: []gen.Stmt{&gen.Return{X: gen.C(gen.I("q"), gen.N("1"))}}}))
			}
			g.fns = with(g.fns, hName)
			g.pending, g.pendingDepth = hName, g.depth
		case "undeclared":
			// c is not in scope here: a compile error wherever the program is placed
			g.undecl = true
			out = append(out, gen.Set(gen.I("b"), gen.I("c")))
		case "escape":
			// the documented scope-dependent case: a closure over a loop variable stored outside the loop
			g.bFunc = true
			out = append(out, gen.Set(&gen.Index{X: gen.I("arr"), I: gen.I(loopVars[0])},
				&gen.FuncLit{Body: []gen.Stmt{&gen.Return{X: gen.I(g.pick(loopVars))}}}))
		case "if":
			c := g.cond()
			out = append(out, &gen.If{Cond: c, Then: g.sub(loopVars)})
		case "ifelse":
			c := g.cond()
			th := g.sub(loopVars)
			el := g.sub(loopVars)
			if el == nil {
				el = []gen.Stmt{}
			}
			out = append(out, &gen.If{Cond: c, Then: th, Else: el})
		case "for3":
			s := g.save()
			g.inc = with(g.inc, "i")
			b := g.sub([]string{"i"}, "i")
			g.restore(s)
			out = append(out, &gen.For{Init: gen.Def("i", gen.N("0")), Cond: gen.B("<", gen.I("i"), gen.N("2")),
				Post: &gen.IncDec{X: gen.I("i"), Op: "++"}, Body: b})
		case "forin":
			var it gen.Expr = gen.I("arr")
			if g.lean < 2 && g.ch.Flip() {
				it = arr0()
			}
			out = append(out, &gen.ForIn{Key: "k", Val: "v", X: it, Body: g.sub([]string{"k", "v"}, "k", "v")})
		case "fdef":
			defined[fname] = true
			param := paramNames[g.fdepth]
			s := g.save()
			g.rd = with(g.rd, param)
			g.inc = nil
			g.fns = nil // no calls to enclosing functions from inside (keeps recursion bounded)
			g.fdepth++
			g.depth++
			outerFnDepth := g.fnDepth
			g.fnDepth = g.depth
			outerPending, outerPendingDepth := g.pending, g.pendingDepth
			g.pending = ""
			g.budget-- // one statement is reserved for a call of the function after its definition
			before := g.budget
			fb := g.body(nil)
			cost := before - g.budget
			g.budget++
			// bounded recursion through the defining variable (outermost functions with a body and no nested function)
			if len(fb) > 0 && g.fdepth == 1 && len(g.fns) == 0 && g.ch.Flip() {
				fb = append(fb, &gen.ExprStmt{X: gen.C(gen.I(fname), gen.B("-", gen.I(param), gen.N("1")))})
				fb = []gen.Stmt{&gen.If{Cond: gen.B(">", gen.I(param), gen.N("0")), Then: fb}}
				g.fns = nil // a nested function is local to the if block
			}
			// trailing return: none | a | the parameter | the result of the nested function | a closure
			rk := []string{"a"}
			if len(fb) > 0 {
				rk = append(rk, "none")
				if g.lean < 1 {
					rk = append(rk, "param")
				}
			}
			// (outermost functions without body only) a closure over the parameter, which outlives the call
			if g.fdepth == 1 && len(fb) == 0 && g.depth == 1 {
				rk = append(rk, "bump", "recstore")
			}
			if g.fdepth == 1 && g.lean < 2 && len(fb) == 0 {
				rk = append(rk, "getter")
				if g.lean < 1 {
					rk = append(rk, "counter")
				}
			}
			if len(g.fns) > 0 {
				rk = append(rk, "call")
				if g.pending != "" {
					rk = []string{"call"} // the nested function has not been called yet
				}
			}
			getter, bump, mustCall := false, false, false
			switch g.pick(rk) {
			case "recstore":
				// self call in tail position whose parameter is captured by a closure that outlives the activation
				g.pStore = true
				fb = []gen.Stmt{&gen.If{Cond: gen.B(">", gen.I(param), gen.N("0")), Then: []gen.Stmt{
					gen.Set(&gen.Index{X: gen.I("arr"), I: gen.I(param)}, &gen.FuncLit{Body: []gen.Stmt{&gen.Return{X: gen.I(param)}}}),
					&gen.ExprStmt{X: gen.C(gen.I(fname), gen.B("-", gen.I(param), gen.N("1")))}}}}
				mustCall = true
			case "bump":
				// the writing closure: x is a or (if visible) the body-declared c
				bump = true
				x := "a"
				if has(s.wr, "c") && g.ch.Flip() {
					x = "c"
				}
				fb = append(fb, &gen.Assign{LHS: gen.I(x), Op: "+=", RHS: gen.N("1")}, &gen.Return{X: gen.I(x)})
			case "getter":
				getter = true
				fb = append(fb, &gen.Return{X: &gen.FuncLit{Body: []gen.Stmt{&gen.Return{X: gen.I(param)}}}})
			case "counter":
				getter = true
				fb = append(fb, &gen.Return{X: &gen.FuncLit{Body: []gen.Stmt{&gen.IncDec{X: gen.I(param), Op: "++"}, &gen.Return{X: gen.I(param)}}}})
			case "a":
				fb = append(fb, &gen.Return{X: gen.I("a")})
			case "param":
				fb = append(fb, &gen.Return{X: gen.I(param)})
			case "call":
				fb = append(fb, &gen.Return{X: gen.C(gen.I(g.pick(g.fns)), gen.N("1"))})
			}
			g.fdepth--
			g.depth--
			g.fnDepth = outerFnDepth
			g.restore(s)
			out = append(out, gen.Def(fname, &gen.FuncLit{Params: []string{param}, Body: fb}))
			g.fns = with(g.fns, fname)
			if fname == fnNames[0] {
				g.fGetter, g.fBump, g.hKind = getter, bump, ""
				g.fns = without(g.fns, hName)
			}
			g.pending, g.pendingDepth = outerPending, outerPendingDepth
			if cost > 0 || g.lean > 3 || getter || bump || mustCall {
				g.pending, g.pendingDepth = fname, g.depth
			}
		}
	}
	return out
}

// isFuncDef recognises `name := func...`.
func isFuncDef(s gen.Stmt, name string) bool {
	a, ok := s.(*gen.Assign)
	if !ok || a.Op != ":=" {
		return false
	}
	id, ok := a.LHS.(*gen.Ident)
	if !ok || id.Name != name {
		return false
	}
	_, ok = a.RHS.(*gen.FuncLit)
	return ok
}

// Family generates one body per chooser path.
func Family(cfg FamCfg) func(ch *gen.Chooser) []gen.Stmt {
	return func(ch *gen.Chooser) []gen.Stmt {
		g := &fam{ch: ch, lean: cfg.Lean, budget: cfg.Budget, rd: []string{"a", "b"}, wr: []string{"a", "b"}}
		if cfg.Lean > 3 {
			g.wr = []string{"a"} // b is only read (and written through closures' results)
		}
		return g.body(nil)
	}
}
