package main

// Transformations of a base body B (declarations D are fixed, the outputs are
// always collected as out := [a, b, m, arr]).

import (
	"fmt"
	"strings"

	"verif/engine/gen"
)

// Variant identifies one transformation of a base program.
type Variant struct {
	Place string `json:"place"` // T0 T1 T1d T2 T4a T4b T5s T5l
	Wrap  string `json:"wrap"`  // "" | e (one expression) | E (every expression) | s (one statement) | S (every statement) | A (every expression and statement)
	Node  int    `json:"node"`  // index of the wrapped node for e / s (pre-order)
}

// ID is the transformation name used in signatures and counters (no node index).
func (v Variant) ID() string {
	if v.Wrap == "" {
		return v.Place
	}
	return v.Place + "+T3" + v.Wrap
}

// SigID is the coarser name used in signatures: placement, and whether some position is wrapped.
func (v Variant) SigID() string {
	if v.Wrap == "" {
		return v.Place
	}
	return v.Place + "+T3"
}

var outNames = []string{"a", "b", "m", "arr"}

// every name the family can use for a variable (decoys of the importer in T2)
var allNames = []string{"a", "b", "m", "arr", "c", "f", "g", "h", "p", "q", "i", "k", "v"}

var swapNames = map[string]string{"a": "b", "b": "a"}

var longNames = func() map[string]string {
	m := map[string]string{}
	for i, n := range allNames {
		m[n] = fmt.Sprintf("renamed_variable_%s_%d_with_a_long_name", n, i+1)
	}
	return m
}()

// rewriter deep-copies statement lists, optionally renaming identifiers and
// wrapping expression / statement positions in immediately-invoked function
// literals. Positions are numbered in pre-order.
type rewriter struct {
	rename  map[string]string
	allE    bool
	allS    bool
	targetE int // -1 none
	targetS int // -1 none
	ecount  int
	scount  int
}

func newRewriter() *rewriter { return &rewriter{targetE: -1, targetS: -1} }

func (r *rewriter) name(n string) string {
	if r.rename != nil {
		if x, ok := r.rename[n]; ok {
			return x
		}
	}
	return n
}

func wrapExpr(e gen.Expr) gen.Expr {
	return &gen.Call{F: &gen.Paren{X: &gen.FuncLit{Body: []gen.Stmt{&gen.Return{X: e}}}}}
}

func wrapStmt(s gen.Stmt) gen.Stmt {
	return &gen.ExprStmt{X: &gen.Call{F: &gen.Paren{X: &gen.FuncLit{Body: []gen.Stmt{s}}}}}
}

// expr copies an expression in value position. wrappable says whether this
// position may be wrapped (literals never are: they touch no variable).
func (r *rewriter) expr(e gen.Expr, wrappable bool) gen.Expr {
	if e == nil {
		return nil
	}
	if _, isLit := e.(*gen.Lit); isLit {
		wrappable = false
	}
	idx := -1
	if wrappable {
		idx = r.ecount
		r.ecount++
	}
	var out gen.Expr
	switch e := e.(type) {
	case *gen.Lit:
		out = &gen.Lit{Src: e.Src, Kind: e.Kind}
	case *gen.Ident:
		out = gen.I(r.name(e.Name))
	case *gen.Bin:
		l := r.expr(e.L, true)
		out = &gen.Bin{Op: e.Op, L: l, R: r.expr(e.R, true)}
	case *gen.Un:
		out = &gen.Un{Op: e.Op, X: r.expr(e.X, true)}
	case *gen.Cond:
		c := r.expr(e.C, true)
		t := r.expr(e.T, true)
		out = &gen.Cond{C: c, T: t, F: r.expr(e.F, true)}
	case *gen.Call:
		f := r.expr(e.F, true)
		var args []gen.Expr
		for _, a := range e.Args {
			args = append(args, r.expr(a, true))
		}
		out = &gen.Call{F: f, Args: args, Spread: e.Spread}
	case *gen.Index:
		x := r.expr(e.X, true)
		out = &gen.Index{X: x, I: r.expr(e.I, true)}
	case *gen.Sel:
		out = &gen.Sel{X: r.expr(e.X, true), Name: e.Name}
	case *gen.ArrayLit:
		var el []gen.Expr
		for _, x := range e.Elems {
			el = append(el, r.expr(x, true))
		}
		out = &gen.ArrayLit{Elems: el}
	case *gen.MapLit:
		var vs []gen.Expr
		for _, x := range e.Vals {
			vs = append(vs, r.expr(x, true))
		}
		out = &gen.MapLit{Keys: append([]string{}, e.Keys...), Vals: vs}
	case *gen.FuncLit:
		var ps []string
		for _, p := range e.Params {
			ps = append(ps, r.name(p))
		}
		out = &gen.FuncLit{Params: ps, VarArgs: e.VarArgs, Body: r.stmts(e.Body)}
	case *gen.Paren:
		out = &gen.Paren{X: r.expr(e.X, false)}
	case *gen.Import:
		out = &gen.Import{Name: e.Name}
	default:
		panic(fmt.Sprintf("c11: rewriter: unsupported expression %T", e))
	}
	if idx >= 0 && (r.allE || idx == r.targetE) {
		out = wrapExpr(out)
	}
	return out
}

// lhs copies an assignment target: the spine (identifier and the chain of
// selectors / indexes on it) stays, index expressions are ordinary values.
func (r *rewriter) lhs(e gen.Expr) gen.Expr {
	switch e := e.(type) {
	case *gen.Ident:
		return gen.I(r.name(e.Name))
	case *gen.Index:
		x := r.lhs(e.X)
		return &gen.Index{X: x, I: r.expr(e.I, true)}
	case *gen.Sel:
		return &gen.Sel{X: r.lhs(e.X), Name: e.Name}
	}
	panic(fmt.Sprintf("c11: rewriter: unsupported assignment target %T", e))
}

func (r *rewriter) stmts(ss []gen.Stmt) []gen.Stmt {
	if ss == nil {
		return nil
	}
	out := make([]gen.Stmt, 0, len(ss))
	for _, s := range ss {
		out = append(out, r.stmt(s, true))
	}
	return out
}

// escapesControl reports whether a statement contains return / break /
// continue outside nested function literals (such a statement cannot be moved
// into a wrapper function).
func escapesControl(s gen.Stmt) bool {
	found := false
	var ws func(ss []gen.Stmt)
	ws = func(ss []gen.Stmt) {
		for _, s := range ss {
			switch s := s.(type) {
			case *gen.Return, *gen.Break, *gen.Continue:
				found = true
			case *gen.If:
				ws(s.Then)
				ws(s.Else)
			case *gen.For:
				ws(s.Body)
			case *gen.ForIn:
				ws(s.Body)
			case *gen.Block:
				ws(s.Body)
			}
		}
	}
	ws([]gen.Stmt{s})
	return found
}

func stmtWrappable(s gen.Stmt) bool {
	switch s := s.(type) {
	case *gen.Assign:
		return s.Op != ":="
	case *gen.IncDec, *gen.ExprStmt:
		return true
	case *gen.If, *gen.For, *gen.ForIn:
		return !escapesControl(s)
	}
	return false
}

// stmt copies one statement. position says whether the statement stands in a
// statement list (init / post clauses are never wrapped).
func (r *rewriter) stmt(s gen.Stmt, position bool) gen.Stmt {
	if s == nil {
		return nil
	}
	idx := -1
	if position && stmtWrappable(s) {
		idx = r.scount
		r.scount++
	}
	var out gen.Stmt
	switch s := s.(type) {
	case *gen.Assign:
		if s.Op == ":=" {
			// a function literal that is the direct right-hand side of := is
			// visible to itself (recursion); wrapping it would change that rule
			_, isFunc := s.RHS.(*gen.FuncLit)
			rhs := r.expr(s.RHS, !isFunc)
			out = &gen.Assign{LHS: gen.I(r.name(s.LHS.(*gen.Ident).Name)), Op: s.Op, RHS: rhs}
		} else {
			l := r.lhs(s.LHS)
			out = &gen.Assign{LHS: l, Op: s.Op, RHS: r.expr(s.RHS, true)}
		}
	case *gen.IncDec:
		out = &gen.IncDec{X: r.lhs(s.X), Op: s.Op}
	case *gen.ExprStmt:
		out = &gen.ExprStmt{X: r.expr(s.X, true)}
	case *gen.If:
		init := r.stmt(s.Init, false)
		c := r.expr(s.Cond, true)
		th := r.stmts(s.Then)
		if th == nil {
			th = []gen.Stmt{}
		}
		out = &gen.If{Init: init, Cond: c, Then: th, Else: r.stmts(s.Else)}
	case *gen.For:
		init := r.stmt(s.Init, false)
		c := r.expr(s.Cond, true)
		post := r.stmt(s.Post, false)
		out = &gen.For{Init: init, Cond: c, Post: post, Body: r.stmts(s.Body)}
	case *gen.ForIn:
		val := s.Val
		if val != "" {
			val = r.name(val)
		}
		x := r.expr(s.X, true)
		out = &gen.ForIn{Key: r.name(s.Key), Val: val, X: x, Body: r.stmts(s.Body)}
	case *gen.Return:
		out = &gen.Return{X: r.expr(s.X, true)}
	case *gen.Break:
		out = &gen.Break{}
	case *gen.Continue:
		out = &gen.Continue{}
	case *gen.Block:
		out = &gen.Block{Body: r.stmts(s.Body)}
	case *gen.Export:
		out = &gen.Export{X: r.expr(s.X, false)}
	default:
		panic(fmt.Sprintf("c11: rewriter: unsupported statement %T", s))
	}
	if idx >= 0 && (r.allS || idx == r.targetS) {
		out = wrapStmt(out)
	}
	return out
}

// countPositions returns the number of wrappable expression and statement positions of a body.
func countPositions(body []gen.Stmt) (ne, ns int) {
	r := newRewriter()
	r.stmts(body)
	return r.ecount, r.scount
}

func decls(nm func(string) string) []gen.Stmt {
	return []gen.Stmt{
		gen.Def(nm("a"), gen.N("0")),
		gen.Def(nm("b"), gen.N("1")),
		gen.Def(nm("m"), &gen.MapLit{Keys: []string{"k"}, Vals: []gen.Expr{&gen.MapLit{Keys: []string{"j"}, Vals: []gen.Expr{gen.N("0")}}}}),
		gen.Def(nm("arr"), &gen.ArrayLit{Elems: []gen.Expr{&gen.ArrayLit{Elems: []gen.Expr{gen.N("0"), gen.N("1")}}, gen.N("2")}}),
	}
}

func outList(nm func(string) string) gen.Expr {
	var el []gen.Expr
	for _, n := range outNames {
		el = append(el, gen.I(nm(n)))
	}
	return &gen.ArrayLit{Elems: el}
}

func decoys(names []string) []gen.Stmt {
	var out []gen.Stmt
	for _, n := range names {
		out = append(out, gen.Def(n, gen.N("100")))
	}
	return out
}

func cat(parts ...[]gen.Stmt) []gen.Stmt {
	var out []gen.Stmt
	for _, p := range parts {
		out = append(out, p...)
	}
	return out
}

// Build constructs the program of one variant of the base body.
func Build(body []gen.Stmt, v Variant) *gen.Program {
	r := newRewriter()
	switch v.Wrap {
	case "e":
		r.targetE = v.Node
	case "s":
		r.targetS = v.Node
	case "E":
		r.allE = true
	case "S":
		r.allS = true
	case "A":
		r.allE, r.allS = true, true
	}
	switch v.Place {
	case "T5s":
		r.rename = swapNames
	case "T5l":
		r.rename = longNames
	}
	nm := r.name
	B := r.stmts(body)
	D := decls(nm)
	switch v.Place {
	case "T0", "T5s", "T5l":
		return &gen.Program{Main: cat(D, B, []gen.Stmt{gen.Def("out", outList(nm))})}
	case "T1", "T1d":
		fb := cat(D, B, []gen.Stmt{&gen.Return{X: outList(nm)}})
		main := []gen.Stmt{gen.Def("main_", &gen.FuncLit{Body: fb}), gen.Def("out", gen.C(gen.I("main_")))}
		if v.Place == "T1d" {
			main = cat(decoys(outNames), main)
		}
		return &gen.Program{Main: main}
	case "T2":
		mod := cat(D, B, []gen.Stmt{&gen.Export{X: outList(nm)}})
		main := cat(decoys(allNames), []gen.Stmt{gen.Def("out", &gen.Import{Name: "mod"})})
		return &gen.Program{Main: main, Modules: map[string][]gen.Stmt{"mod": mod}}
	case "T4a":
		// T1 inside another function
		fb := cat(D, B, []gen.Stmt{&gen.Return{X: outList(nm)}})
		ob := []gen.Stmt{gen.Def("main_", &gen.FuncLit{Body: fb}), &gen.Return{X: gen.C(gen.I("main_"))}}
		return &gen.Program{Main: []gen.Stmt{gen.Def("outer_", &gen.FuncLit{Body: ob}), gen.Def("out", gen.C(gen.I("outer_")))}}
	case "T4b":
		// declarations in the outer function, body in an inner one: every variable of B is a free variable
		ob := cat(D, []gen.Stmt{gen.Def("main_", &gen.FuncLit{Body: B}), &gen.ExprStmt{X: gen.C(gen.I("main_"))}, &gen.Return{X: outList(nm)}})
		return &gen.Program{Main: []gen.Stmt{gen.Def("outer_", &gen.FuncLit{Body: ob}), gen.Def("out", gen.C(gen.I("outer_")))}}
	}
	panic("c11: unknown placement " + v.Place)
}

// mapBack rewrites renamed identifiers in an error text to the base names.
func mapBack(place, text string) string {
	switch place {
	case "T5l":
		for from, to := range longNames {
			text = strings.ReplaceAll(text, to, from)
		}
	case "T5s":
		text = strings.ReplaceAll(text, "'a'", "'\x00'")
		text = strings.ReplaceAll(text, "'b'", "'a'")
		text = strings.ReplaceAll(text, "'\x00'", "'b'")
	}
	return text
}

// Variants lists the complete variant set of a body (T0 itself excluded).
func Variants(body []gen.Stmt) []Variant {
	ne, ns := countPositions(body)
	var out []Variant
	// full = every single position and the three all-at-once forms; otherwise only everything at once
	wraps := func(place string, full bool) {
		if !full {
			if ne+ns > 0 {
				out = append(out, Variant{Place: place, Wrap: "A"})
			}
			return
		}
		for i := 0; i < ne; i++ {
			out = append(out, Variant{Place: place, Wrap: "e", Node: i})
		}
		for i := 0; i < ns; i++ {
			out = append(out, Variant{Place: place, Wrap: "s", Node: i})
		}
		if ne > 0 {
			out = append(out, Variant{Place: place, Wrap: "E"})
		}
		if ns > 0 {
			out = append(out, Variant{Place: place, Wrap: "S"})
		}
		if ne > 0 && ns > 0 {
			out = append(out, Variant{Place: place, Wrap: "A"})
		}
	}
	wraps("T0", false)
	out = append(out, Variant{Place: "T1"}, Variant{Place: "T1d"})
	wraps("T1", true)
	out = append(out, Variant{Place: "T2"})
	wraps("T2", false)
	out = append(out, Variant{Place: "T4a"})
	wraps("T4a", false)
	out = append(out, Variant{Place: "T4b"})
	wraps("T4b", true)
	out = append(out, Variant{Place: "T5s"}, Variant{Place: "T5l"})
	return out
}
