// C11: a program means the same wherever its variables live.
//
// Metamorphic, bounded-exhaustive: every body B of the base family (family.go)
// is run at top level (T0: its variables are globals) and in the complete set
// of its variants (transform.go): inside a function (T1, also with shadowed
// decoy globals T1d), as a source module (T2), with every expression /
// statement position wrapped in an immediately-invoked function literal (T3:
// one position at a time and all at once; on T0, T1, T4b; all-at-once on T2 and
// T4a), inside two functions (T4a: T1 inside a function; T4b: declarations in
// the outer function and the body in the inner one, so that every variable is
// free and wrapped positions capture through two boundaries) and with its
// variables renamed (T5s: a<->b, T5l: long fresh names). Outcome class, output
// values and (for failures) the error's first line without positions must
// equal those of T0. Programs in which a closure outlives the loop iteration
// that declared a variable it captures are recognised syntactically
// (exclusion.go) and left out, as the property allows.
package main

import (
	"fmt"
	"os"
	"sort"
	"strings"
	"sync"
	"sync/atomic"
	"time"

	"verif/engine/gen"
	"verif/engine/ref"
	"verif/engine/report"
	"verif/engine/tg"
	"verif/engine/val"
)

const stepBudget = 200000
const refBudget = 30000

// Case is one (base program, variant) pair.
type Case struct {
	Cfg        FamCfg  `json:"cfg"`
	Choices    []int   `json:"choices"`
	V          Variant `json:"variant"`
	BaseSrc    string  `json:"base_source,omitempty"`
	VariantSrc string  `json:"variant_source,omitempty"`
}

type result struct {
	class string // ok | compile-error | runtime-error | budget | panic
	err   string // normalised first line of the failure
	out   string // snapshot of out (class ok)
	src   string
}

func (r result) String() string {
	switch r.class {
	case "ok":
		return "ok out=" + r.out
	case "budget":
		return "budget (more than " + fmt.Sprint(stepBudget) + " VM steps)"
	}
	return r.class + ": " + r.err
}

func normErr(class, text, place string) string {
	l := tg.FirstLine(text)
	switch class {
	case "compile-error":
		l = strings.TrimPrefix(l, "Compile Error: ")
	case "runtime-error":
		l = strings.TrimPrefix(l, "Runtime Error: ")
	case "panic":
		return "panic" // a Go panic of the implementation: class only
	}
	return mapBack(place, l)
}

func execute(p *gen.Program, place string) result {
	src := tg.Print(p)
	o := tg.Run(src.Main.Src, tg.Opts{Modules: src.ModMap})
	r := result{class: o.Class, src: src.AllText}
	switch o.Class {
	case "ok":
		out, ok := o.Globals["out"]
		if !ok {
			r.out = "<no out>"
			break
		}
		r.out = val.Snapshot(out)
		if place == "T2" && strings.HasPrefix(r.out, "imarray[") {
			// export makes the exported array itself immutable: not a difference in meaning
			r.out = "array[" + strings.TrimPrefix(r.out, "imarray[")
		}
	case "budget":
	default:
		r.err = normErr(o.Class, o.ErrText, place)
	}
	return r
}

type fail struct{ sig, what string }

// compare is the oracle: variant v must mean what the base means.
func compare(base, v result) (kind string) {
	switch {
	case base.class != v.class:
		return "class-differs"
	case base.class == "ok" && base.out != v.out:
		return "value-differs"
	case base.class != "ok" && base.err != v.err:
		return "error-differs"
	}
	return ""
}

// refereeT0 asks the reference interpreter what the T0 program means (only
// used to say which side deviates).
func referee(body []gen.Stmt, base, v result) string {
	defer func() { _ = recover() }()
	p := Build(body, Variant{Place: "T0"})
	tg.Print(p) // assigns statement ids
	o := ref.Run(p, nil, refBudget)
	var rs string
	switch o.Class {
	case "ok":
		out, ok := o.Globals["out"]
		if !ok {
			return "reference: no verdict"
		}
		rs = "ok out=" + ref.Snapshot(out)
	case "unsupported", "budget":
		return "reference: no verdict (" + o.Class + ")"
	default:
		rs = o.Class
	}
	agree := func(r result) bool {
		if r.class == "ok" {
			return rs == "ok out="+r.out
		}
		return rs == r.class
	}
	switch {
	case agree(base) && !agree(v):
		return "reference interpreter agrees with the base (T0): the variant deviates"
	case !agree(base) && agree(v):
		return "reference interpreter agrees with the variant: the base (T0) deviates"
	case agree(base) && agree(v):
		return "reference interpreter cannot separate them (" + rs + ")"
	}
	return "reference interpreter agrees with neither (" + rs + ")"
}

// features is the coarse feature set of a base body (signature vocabulary:
// plain | closure | recursion | nested, +selassign, +fnvalue). Kept this small so that one
// root cause gives a handful of signatures.
func features(body []gen.Stmt) (string, map[string]bool) {
	set := map[string]bool{}
	var ws func(ss []gen.Stmt, fdepth int)
	scan := func(e gen.Expr, fdepth int) {
		visitExprs([]gen.Stmt{&gen.ExprStmt{X: e}}, false, func(x gen.Expr, role string) bool {
			if f, ok := x.(*gen.FuncLit); ok {
				set["closure"] = true
				if fdepth > 0 {
					set["nested"] = true
				}
				ws(f.Body, fdepth+1)
				return false
			}
			// a function variable mentioned other than as the callee of a call: copied, stored or passed
			if id, ok := x.(*gen.Ident); ok && role == "value" && (id.Name == "f" || id.Name == "g" || id.Name == "h") {
				set["fnvalue"] = true
			}
			return true
		})
	}
	ws = func(ss []gen.Stmt, fdepth int) {
		for _, s := range ss {
			switch s := s.(type) {
			case *gen.Assign:
				id, isIdent := s.LHS.(*gen.Ident)
				if !isIdent {
					set["selassign"] = true
					scan(s.LHS, fdepth)
				}
				if f, ok := s.RHS.(*gen.FuncLit); ok && isIdent && s.Op == ":=" && mentions(f, map[string]bool{id.Name: true}) {
					set["recursion"] = true
				}
				scan(s.RHS, fdepth)
			case *gen.ExprStmt:
				scan(s.X, fdepth)
			case *gen.If:
				scan(s.Cond, fdepth)
				ws(s.Then, fdepth)
				ws(s.Else, fdepth)
			case *gen.For:
				set["loop"] = true
				ws(s.Body, fdepth)
			case *gen.ForIn:
				set["loop"] = true
				scan(s.X, fdepth)
				ws(s.Body, fdepth)
			case *gen.Return:
				if s.X != nil {
					scan(s.X, fdepth)
				}
			}
		}
	}
	ws(body, 0)
	var ks []string
	switch {
	case set["nested"]:
		ks = append(ks, "nested")
	case set["recursion"]:
		ks = append(ks, "recursion")
	case set["closure"]:
		ks = append(ks, "closure")
	}
	if set["selassign"] {
		ks = append(ks, "selassign")
	}
	if set["fnvalue"] {
		ks = append(ks, "fnvalue")
	}
	if len(ks) == 0 {
		return "plain", set
	}
	return strings.Join(ks, "+"), set
}

func lessInts(a, b []int) bool {
	for i := 0; i < len(a) && i < len(b); i++ {
		if a[i] != b[i] {
			return a[i] < b[i]
		}
	}
	return len(a) < len(b)
}

func bodyOf(c Case) []gen.Stmt { return gen.Replay(c.Choices, Family(c.Cfg)) }

func replay(path string) {
	rp, err := report.LoadReplay(path)
	if err != nil {
		fmt.Println("cannot load replay:", err)
		return
	}
	fmt.Printf("property %s signature %s\n", rp.Property, rp.Signature)
	for _, raw := range rp.Cases {
		var c Case
		_ = report.Recase(raw, &c)
		body := bodyOf(c)
		base := execute(Build(body, Variant{Place: "T0"}), "T0")
		v := execute(Build(bodyOf(c), c.V), c.V.Place)
		fmt.Printf("---- case cfg=%+v choices=%v transformation=%s node=%d\n", c.Cfg, c.Choices, c.V.ID(), c.V.Node)
		fmt.Printf("base program (T0):\n%s\n  => %s\n", indent(base.src), base)
		fmt.Printf("variant program (%s):\n%s\n  => %s\n", c.V.ID(), indent(v.src), v)
		if LoopCaptureEscapes(body) {
			fmt.Println("  (base program is in the documented loop-capture exclusion)")
		}
		if k := compare(base, v); k != "" {
			fmt.Printf("  FAIL %s; %s\n", k, referee(bodyOf(c), base, v))
		} else {
			fmt.Println("  agree")
		}
	}
}

func indent(s string) string { return "    " + strings.ReplaceAll(s, "\n", "\n    ") }

func main() {
	tg.SetStepBudget(stepBudget)
	if p := report.ReplayArg(); p != "" {
		replay(p)
		return
	}
	if len(os.Args) > 3 && os.Args[1] == "-show" {
		// development aid: ./check -show <budget>:<lean> <n>  prints every variant of the n-th body with its outcome
		var cfg FamCfg
		var want, n int64
		fmt.Sscanf(os.Args[2], "%d:%d", &cfg.Budget, &cfg.Lean)
		fmt.Sscanf(os.Args[3], "%d", &want)
		gen.Enumerate(Family(cfg), func(body []gen.Stmt, ch []int) bool {
			n++
			if n < want {
				return true
			}
			base := execute(Build(body, Variant{Place: "T0"}), "T0")
			feat, _ := features(body)
			fmt.Printf("choices=%v features=%s excluded=%v\n%s\n  => %s\n", ch, feat, LoopCaptureEscapes(body), indent(base.src), base)
			for _, v := range Variants(body) {
				res := execute(Build(body, v), v.Place)
				fmt.Printf("---- %s node=%d  %s\n%s\n  => %s\n", v.ID(), v.Node, compare(base, res), indent(res.src), res)
			}
			return false
		})
		return
	}
	if len(os.Args) > 1 && os.Args[1] == "-count" {
		countOnly()
		return
	}
	r := report.New("C11")
	var cfgs []FamCfg
	if r.Thorough() {
		cfgs = []FamCfg{{Budget: 2, Lean: 0}, {Budget: 3, Lean: 4}}
	} else {
		cfgs = []FamCfg{{Budget: 2, Lean: 1}}
	}
	// internal deadline (a harness bound, never a verdict): the remaining bodies are skipped and the run is
	// reported as not exhaustive
	deadline := time.Duration(r.Pick(780, 3300)) * time.Second
	var nBase, nVariants, nValidated, nExcluded, nSkipped int64
	distinct := report.NewDistinctSet()
	nontrivial := report.NewDistinctSet()
	for _, cfg := range cfgs {
		cfg := cfg
		// the decision tree is very unbalanced (most bodies start with a function definition): collect the
		// choice vectors first (cheap, in parallel), order them, and distribute the bodies evenly
		var all [][]int
		var allMu sync.Mutex
		gen.ParallelEnumerate(Family(cfg), 12, func(body []gen.Stmt, ch []int) {
			c := append([]int{}, ch...)
			allMu.Lock()
			all = append(all, c)
			allMu.Unlock()
		})
		sort.Slice(all, func(i, j int) bool { return lessInts(all[i], all[j]) })
		n := int64(len(all))
		fmt.Printf("[%6.1fs] family budget=%d lean=%d: %d bodies enumerated\n", r.Elapsed().Seconds(), cfg.Budget, cfg.Lean, n)
		report.ParallelFor(len(all), func(idx int) {
			if r.Elapsed() > deadline {
				atomic.AddInt64(&nSkipped, 1)
				return
			}
			choices := all[idx]
			body := gen.Replay(choices, Family(cfg))
			k := int64(idx)
			atomic.AddInt64(&nBase, 1)
			base := execute(Build(body, Variant{Place: "T0"}), "T0")
			atomic.AddInt64(&nVariants, 1)
			isNew := distinct.Add(base.src)
			feat, fset := features(body)
			r.Outcome("base/" + base.class)
			r.Count("base/"+base.class, 1)
			if LoopCaptureEscapes(body) {
				// documented scope-dependent case: not part of the oracle. Measured only:
				// how often the placement really matters there (shows the exclusion is needed).
				atomic.AddInt64(&nExcluded, 1)
				r.Count("excluded/loop-capture", 1)
				differs := false
				for _, pl := range []string{"T1", "T4b"} {
					v := execute(Build(body, Variant{Place: pl}), pl)
					atomic.AddInt64(&nVariants, 1)
					if compare(base, v) != "" {
						differs = true
					}
				}
				if differs {
					r.Count("excluded/loop-capture/placement-changes-result", 1)
				}
				return
			}
			if isNew && base.class == "ok" && (fset["closure"] || fset["selassign"]) {
				nontrivial.Add(base.src)
			}
			vs := Variants(body)
			for _, v := range vs {
				res := execute(Build(body, v), v.Place)
				atomic.AddInt64(&nVariants, 1)
				atomic.AddInt64(&nValidated, 1)
				r.Count("variants/"+v.ID(), 1)
				kind := compare(base, res)
				if kind == "" {
					continue
				}
				sig := "transform=" + v.SigID() + "/" + kind + "/feat=" + feat
				what := fmt.Sprintf("base (T0): %s; variant %s: %s; %s", base, v.ID(), res, referee(body, base, res))
				r.Violation(sig, what, Case{Cfg: cfg, Choices: choices, V: v, BaseSrc: base.src, VariantSrc: res.src})
			}
			if k%20011 == 1 {
				r.Sample(map[string]interface{}{"cfg": cfg, "choices": choices, "base": base.src, "outcome": base.String(), "variants": len(vs), "features": feat})
			}
		})
		r.Set(fmt.Sprintf("base_programs/budget=%d/lean=%d", cfg.Budget, cfg.Lean), n)
		fmt.Printf("[%6.1fs] family budget=%d lean=%d: %d base programs\n", r.Elapsed().Seconds(), cfg.Budget, cfg.Lean, n)
	}
	if nSkipped > 0 {
		r.NotExhaustive(fmt.Sprintf("internal deadline of %v reached: %d bodies not explored", deadline, nSkipped))
	}
	r.Set("base_programs", nBase)
	r.Set("excluded_loop_capture", nExcluded)
	r.Assume("metamorphic oracle: no reference semantics is needed for the verdict; engine/ref is consulted only to word which side deviates")
	r.Assume("excluded as the property allows: base programs in which a function literal inside a loop mentions a variable declared by that loop and is not merely called within the iteration (syntactic recogniser, exclusion.go); T3 never wraps := definitions, return statements, literals, assignment-target spines or a function literal that is the direct right-hand side of := (it is visible to itself only in that position)")
	r.Assume("failures are compared by class and first line of the error without the 'Runtime Error: '/'Compile Error: ' prefix; positions are not compared; output values are not compared after a failure")
	r.Finish(report.Coverage{
		States:      distinct.Len(),
		Transitions: nVariants,
		Validated:   nValidated,
		Evaluations: nVariants,
		Nontrivial:  nontrivial.Len(),
		Rule:        "every body of the C11 family (<= budget statements over a, b, c, m, arr with :=, =, op=, ++/--, selector/index assignment, if/else, for, for-in, closures bound to f/g with parameter, nested closure, closure returned from a function, writing closure copied with copy() / stored in a container / passed as an argument, bounded recursion, out-of-scope reference) x the complete variant set (T1, T1d, T2, T3 every single expression/statement position and all at once on T0/T1/T4b, all at once on T2/T4a, T4a, T4b, T5s, T5l); state = distinct base program text; transition = one compile+run of a base or variant program; validated = variants compared with their base; non-trivial = distinct base programs that contain a function literal or a selector/index assignment and run to completion at top level",
	})
}

// countOnly prints the size of the family for a few configurations
// (development aid: ./check -count, C11_CFGS=budget:lean,... selects them).
func countOnly() {
	cfgs := []FamCfg{{2, 1}, {2, 0}, {3, 4}}
	if e := os.Getenv("C11_CFGS"); e != "" {
		cfgs = nil
		for _, f := range strings.Split(e, ",") {
			var c FamCfg
			fmt.Sscanf(f, "%d:%d", &c.Budget, &c.Lean)
			cfgs = append(cfgs, c)
		}
	}
	for _, cfg := range cfgs {
		var n, nv, ex int64
		gen.ParallelEnumerate(Family(cfg), 12, func(body []gen.Stmt, ch []int) {
			atomic.AddInt64(&n, 1)
			if LoopCaptureEscapes(body) {
				atomic.AddInt64(&ex, 1)
				return
			}
			atomic.AddInt64(&nv, int64(len(Variants(body))))
		})
		fmt.Printf("budget=%d lean=%d: %d programs, %d excluded, %d variants\n", cfg.Budget, cfg.Lean, n, ex, nv)
	}
}
