package main

// Syntactic recogniser of the one documented scope-dependent case: a closure
// that outlives the loop iteration which declared a variable it captures.
//
// A function literal inside a loop is "capturing" if it mentions a name the
// loop declares (the for-init variable, the for-in key / value, or a name
// defined with := in the loop body outside nested function literals). A
// capturing literal is harmless only if it cannot survive the iteration:
//   (a) it is called on the spot ((func(){...})()), or
//   (b) it is the right-hand side of `name := func...` and every other mention
//       of that name inside the loop is the callee of a call.
// Everything else (stored with =, into a container, returned, passed as an
// argument, mentioned as a value) is treated as outliving the iteration.

import "verif/engine/gen"

type loopInfo struct {
	declared map[string]bool
	stmt     gen.Stmt
}

// visitExprs calls fn for every expression of ss in pre-order, with the role of
// the position: "callee" for the function position of a call, "lhs" for the
// identifier defined / assigned by a statement, "value" otherwise. fn returning
// false prunes the subtree. Function literal bodies are entered iff intoFuncs.
func visitExprs(ss []gen.Stmt, intoFuncs bool, fn func(e gen.Expr, role string) bool) {
	var we func(e gen.Expr, role string)
	var ws func(ss []gen.Stmt)
	we = func(e gen.Expr, role string) {
		if e == nil || !fn(e, role) {
			return
		}
		switch e := e.(type) {
		case *gen.Bin:
			we(e.L, "value")
			we(e.R, "value")
		case *gen.Un:
			we(e.X, "value")
		case *gen.Cond:
			we(e.C, "value")
			we(e.T, "value")
			we(e.F, "value")
		case *gen.Call:
			we(e.F, "callee")
			for _, a := range e.Args {
				we(a, "value")
			}
		case *gen.Index:
			we(e.X, "value")
			we(e.I, "value")
		case *gen.Sel:
			we(e.X, "value")
		case *gen.Slice:
			we(e.X, "value")
			we(e.Lo, "value")
			we(e.Hi, "value")
		case *gen.ArrayLit:
			for _, x := range e.Elems {
				we(x, "value")
			}
		case *gen.MapLit:
			for _, x := range e.Vals {
				we(x, "value")
			}
		case *gen.FuncLit:
			if intoFuncs {
				ws(e.Body)
			}
		case *gen.Paren:
			we(e.X, role)
		case *gen.Immutable:
			we(e.X, "value")
		case *gen.ErrorE:
			we(e.X, "value")
		}
	}
	ws = func(ss []gen.Stmt) {
		for _, s := range ss {
			switch s := s.(type) {
			case *gen.Assign:
				if id, ok := s.LHS.(*gen.Ident); ok && s.Op == ":=" {
					we(id, "lhs")
				} else {
					we(s.LHS, "value")
				}
				we(s.RHS, "value")
			case *gen.IncDec:
				we(s.X, "value")
			case *gen.ExprStmt:
				we(s.X, "value")
			case *gen.If:
				if s.Init != nil {
					ws([]gen.Stmt{s.Init})
				}
				we(s.Cond, "value")
				ws(s.Then)
				ws(s.Else)
			case *gen.For:
				if s.Init != nil {
					ws([]gen.Stmt{s.Init})
				}
				we(s.Cond, "value")
				if s.Post != nil {
					ws([]gen.Stmt{s.Post})
				}
				ws(s.Body)
			case *gen.ForIn:
				we(s.X, "value")
				ws(s.Body)
			case *gen.Return:
				we(s.X, "value")
			case *gen.Block:
				ws(s.Body)
			case *gen.Export:
				we(s.X, "value")
			}
		}
	}
	ws(ss)
}

// definesOf collects the names defined with := in ss outside nested function literals.
func definesOf(ss []gen.Stmt, into map[string]bool) {
	for _, s := range ss {
		switch s := s.(type) {
		case *gen.Assign:
			if s.Op == ":=" {
				into[s.LHS.(*gen.Ident).Name] = true
			}
		case *gen.If:
			if s.Init != nil {
				definesOf([]gen.Stmt{s.Init}, into)
			}
			definesOf(s.Then, into)
			definesOf(s.Else, into)
		case *gen.For:
			if s.Init != nil {
				definesOf([]gen.Stmt{s.Init}, into)
			}
			definesOf(s.Body, into)
		case *gen.ForIn:
			into[s.Key] = true
			if s.Val != "" {
				into[s.Val] = true
			}
			definesOf(s.Body, into)
		case *gen.Block:
			definesOf(s.Body, into)
		}
	}
}

// mentions reports whether the function literal mentions any of the names.
func mentions(f *gen.FuncLit, names map[string]bool) bool {
	found := false
	visitExprs(f.Body, true, func(e gen.Expr, role string) bool {
		if id, ok := e.(*gen.Ident); ok && names[id.Name] {
			found = true
		}
		return !found
	})
	return found
}

// usedAsValue reports whether name is mentioned inside the loop other than as
// the callee of a call or as the target of its own definition (a plain
// assignment `name = ...` counts as a value use: conservative).
func usedAsValue(loop gen.Stmt, name string) bool {
	found := false
	visitExprs([]gen.Stmt{loop}, true, func(e gen.Expr, role string) bool {
		if id, ok := e.(*gen.Ident); ok && id.Name == name && role == "value" {
			found = true
		}
		return !found
	})
	return found
}

// LoopCaptureEscapes is the exclusion predicate of the property.
func LoopCaptureEscapes(body []gen.Stmt) bool {
	escapes := false
	var walk func(ss []gen.Stmt, loops []*loopInfo)
	// check one function literal found in context ctx: "callee" | "define:<name>" | "other"
	checkFunc := func(f *gen.FuncLit, ctx string, loops []*loopInfo) {
		for _, l := range loops {
			if !mentions(f, l.declared) {
				continue
			}
			switch {
			case ctx == "callee":
			case len(ctx) > 7 && ctx[:7] == "define:":
				if usedAsValue(l.stmt, ctx[7:]) {
					escapes = true
				}
			default:
				escapes = true
			}
		}
	}
	var scanExpr func(e gen.Expr, ctx string, loops []*loopInfo)
	scanExpr = func(e gen.Expr, ctx string, loops []*loopInfo) {
		visitExprs([]gen.Stmt{&gen.ExprStmt{X: e}}, false, func(x gen.Expr, role string) bool {
			if f, ok := x.(*gen.FuncLit); ok {
				c := "other"
				if role == "callee" {
					c = "callee"
				} else if x == e && ctx != "" {
					c = ctx
				}
				checkFunc(f, c, loops)
				walk(f.Body, loops)
				return false
			}
			return true
		})
	}
	walk = func(ss []gen.Stmt, loops []*loopInfo) {
		for _, s := range ss {
			switch s := s.(type) {
			case *gen.Assign:
				ctx := ""
				if s.Op == ":=" {
					ctx = "define:" + s.LHS.(*gen.Ident).Name
				}
				if _, isIdent := s.LHS.(*gen.Ident); !isIdent {
					scanExpr(s.LHS, "", loops)
				}
				scanExpr(s.RHS, ctx, loops)
			case *gen.IncDec:
				scanExpr(s.X, "", loops)
			case *gen.ExprStmt:
				scanExpr(s.X, "", loops)
			case *gen.If:
				if s.Init != nil {
					walk([]gen.Stmt{s.Init}, loops)
				}
				scanExpr(s.Cond, "", loops)
				walk(s.Then, loops)
				walk(s.Else, loops)
			case *gen.For:
				li := &loopInfo{declared: map[string]bool{}, stmt: s}
				if s.Init != nil {
					definesOf([]gen.Stmt{s.Init}, li.declared)
				}
				definesOf(s.Body, li.declared)
				inner := append(append([]*loopInfo{}, loops...), li)
				if s.Init != nil {
					walk([]gen.Stmt{s.Init}, inner)
				}
				if s.Cond != nil {
					scanExpr(s.Cond, "", inner)
				}
				if s.Post != nil {
					walk([]gen.Stmt{s.Post}, inner)
				}
				walk(s.Body, inner)
			case *gen.ForIn:
				li := &loopInfo{declared: map[string]bool{}, stmt: s}
				definesOf([]gen.Stmt{s}, li.declared)
				scanExpr(s.X, "", loops)
				walk(s.Body, append(append([]*loopInfo{}, loops...), li))
			case *gen.Return:
				if s.X != nil {
					scanExpr(s.X, "", loops)
				}
			case *gen.Block:
				walk(s.Body, loops)
			}
		}
	}
	walk(body, nil)
	return escapes
}
