// C09: immutable values cannot be changed by any sequence of operations.
//
// Explicit-state breadth-first search over operation sequences applied to
// LIVE objects of the real implementation.
//
//   - State: a heap of four named variables r (the protected root), t, u, w
//     (derived, initially undefined) holding real tengo.Objects, plus the root
//     object itself (it stays part of the state when `r` is rebound).
//   - Initial states: root kind x literal (see inits()).
//   - Operation: ONE tiny script compiled and run by the real compiler + VM with
//     the four live objects passed as inputs (Script.Add) and read back
//     (Compiled.Get) afterwards. A run-time error does not end the history: the
//     successor state is whatever the globals hold after the failed run.
//   - Live objects cannot be cloned: a successor is computed by replaying the
//     whole operation path on a fresh initial state and applying one more
//     operation. The frontier holds paths; states are de-duplicated by a
//     canonical form (canon()).
//   - Invariant, evaluated after EVERY transition (oracle.go): every protected
//     immutable value still has the snapshot taken when it was created; freeze
//     laws per transition.
package main

import (
	"bufio"
	"crypto/sha256"
	"fmt"
	"os"
	"runtime"
	"runtime/debug"
	"runtime/pprof"
	"sort"
	"strings"
	"sync"
	"sync/atomic"
	"time"

	"verif/engine/report"
)

// Case is one element of the explored space: an initial state and an operation
// path. It is what replay files store. Operations are stored by NAME, so a
// replay stays valid when the operation table is re-ordered.
type Case struct {
	Init   string   `json:"init"`           // "<kind>/<lit>"
	Ops    []string `json:"ops"`            // operation names, in order
	Step   int      `json:"step,omitempty"` // 1-based step at which the violation was observed (0 = initial state)
	Before string   `json:"before,omitempty"`
	After  string   `json:"after,omitempty"`
}

type node struct {
	init int
	path []uint8
	hash [16]byte
	appl uint8 // bit i set: variable i holds an array/map/error (operations on it are applicable)
}

type slot struct {
	ran      bool
	runs     int // script runs spent (rebuild + replayed prefix + the operation)
	hash     [16]byte
	appl     uint8
	nontriv  bool
	aliasing bool
	outcome  string
	viols    []viol
	unprot   int // protected-by-kind but aliased (proviso) values that changed: exercised, not violations
	internal string
}

func hashOf(s string) (h [16]byte) {
	x := sha256.Sum256([]byte(s))
	copy(h[:], x[:16])
	return
}

// expandNode applies every applicable operation to the state reached by
// n.path. Live objects cannot be cloned, so the state is rebuilt by replaying
// n.path on a fresh instance of the initial state. Prefix steps are replayed
// with the oracle in "track only" mode (their verdicts were evaluated when
// they were the last step of a shorter path; every prefix of a frontier path is
// violation free because violating successors are not expanded).
//
// One rebuilt instance is used for several operations when that is provably
// harmless: after an operation that produced no violation the variables (and
// their routes) are bound back to the objects they held before and the records
// of objects first seen in that operation are dropped; if the canonical form of
// the result equals the canonical form of n, the instance is again a
// representative of state n (the same equivalence the whole search rests on:
// see canon.go) and the next operation is applied to it. This is the case for
// failed writes and for derivations that only created new objects. After an
// operation that wrote into a pre-existing object the canonical forms differ,
// the instance is discarded and the next operation starts from a fresh replay.
func expandNode(I []initDef, n node, slots []slot) {
	var h *heap
	for k := range opTable {
		op := &opTable[k]
		if n.appl&(1<<uint(op.Target)) == 0 {
			continue // target variable holds no container: operation not applicable (see ops.go)
		}
		s := &slots[k]
		if h == nil {
			var iv string
			h, iv = I[n.init].build()
			if h == nil {
				s.internal = "cannot rebuild init " + I[n.init].name() + ": " + iv
				return
			}
			s.runs++
			for _, pk := range n.path {
				h.step(&opTable[pk], false)
				s.runs++
			}
		}
		mark := h.mark()
		out := h.step(op, true)
		s.runs++
		s.ran = true
		s.hash = hashOf(h.canon())
		s.appl = h.applMask()
		s.nontriv = h.nontrivial()
		s.aliasing = h.aliasesRoot()
		s.outcome = op.Class + "/" + out.class + "/" + out.effect
		s.unprot = out.unprotChanged
		if out.class == "compile-error" {
			s.internal = "operation script does not compile: " + op.Name + ": " + out.errText
		}
		for _, v := range out.viols {
			v.c = Case{Init: I[n.init].name(), Ops: append(pathNames(n.path), op.Name), Step: len(n.path) + 1,
				Before: v.before, After: v.after}
			s.viols = append(s.viols, v)
		}
		if len(out.viols) > 0 || out.class == "panic" || out.class == "compile-error" {
			h = nil
			continue
		}
		h.restore(mark)
		if hashOf(h.canon()) != n.hash {
			h = nil
		}
	}
}

// parallelFor runs fn(i), i in [0,n), on all cores, one index at a time (the
// work per index - all operations of one state - is coarse enough).
func parallelFor(n int, fn func(i int)) {
	workers := runtime.GOMAXPROCS(0)
	var next int64 = -1
	var wg sync.WaitGroup
	for w := 0; w < workers; w++ {
		wg.Add(1)
		go func() {
			defer wg.Done()
			for {
				i := int(atomic.AddInt64(&next, 1))
				if i >= n {
					return
				}
				fn(i)
			}
		}()
	}
	wg.Wait()
}

func pathNames(p []uint8) []string {
	out := make([]string, 0, len(p)+1)
	for _, k := range p {
		out = append(out, opTable[k].Name)
	}
	return out
}

var traceW *bufio.Writer

func main() {
	if tf := os.Getenv("C09_TRACE"); tf != "" {
		f, _ := os.Create(tf)
		traceW = bufio.NewWriter(f)
	}
	if p := report.ReplayArg(); p != "" {
		replay(p)
		return
	}
	if pf := os.Getenv("C09_PROF"); pf != "" {
		f, _ := os.Create(pf)
		_ = pprof.StartCPUProfile(f)
	}
	// every script run allocates a ~100 KB VM (tengo.NewVM); the live heap is
	// tiny, so let the collector run less often
	gcp := 200
	if v := os.Getenv("C09_GC"); v != "" {
		fmt.Sscan(v, &gcp)
	}
	debug.SetGCPercent(gcp)
	r := report.New("C09")
	I := inits()
	buildOps()

	maxDepth := r.Pick(3, 4)
	if v := os.Getenv("C09_DEPTH"); v != "" {
		fmt.Sscan(v, &maxDepth)
	}
	// internal deadline: quick 80 s, thorough 9 min (a cap, never a violation)
	deadline := time.Duration(r.Pick(80, 540)) * time.Second

	visited := map[[16]byte]struct{}{}
	var perDepth []int64
	var transitions, evaluations, nontrivial, aliasing, pruned, unprotChanged int64

	// depth 0
	var frontier []node
	for i := range I {
		h, what := I[i].build()
		if h == nil {
			r.Internal("init %s: %s", I[i].name(), what)
			continue
		}
		evaluations++
		for _, v := range h.initViols {
			v.c = Case{Init: I[i].name(), Before: v.before, After: v.after}
			r.Violation(v.sig, v.what, v.c)
		}
		r.Outcome("init/" + I[i].Kind + "/" + h.rootRec.tag())
		if !h.rootRec.prot {
			r.Count("initial-states-with-unprotected-root", 1)
		}
		hs := hashOf(h.canon())
		if _, ok := visited[hs]; ok {
			continue
		}
		visited[hs] = struct{}{}
		if len(h.initViols) > 0 {
			pruned++
			continue
		}
		frontier = append(frontier, node{init: i, appl: h.applMask(), hash: hs})
		if h.nontrivial() {
			nontrivial++
		}
		r.Sample(map[string]interface{}{"init": I[i].name(), "root": h.rootRec.full, "protected": h.rootRec.prot,
			"deep": h.rootRec.deep, "why_unprotected": h.rootRec.why})
	}
	perDepth = append(perDepth, int64(len(visited)))

	nOps := len(opTable)
	lastLevelOps := nOps
	exhaustedAll := true
	for d := 1; d <= maxDepth && len(frontier) > 0; d++ {
		var next []node
		newStates := int64(0)
		const chunk = 2048
		for lo := 0; lo < len(frontier); lo += chunk {
			if r.Elapsed() > deadline {
				r.NotExhaustive(fmt.Sprintf("deadline reached at depth %d after %d of %d frontier states", d, lo, len(frontier)))
				exhaustedAll = false
				break
			}
			hi := lo + chunk
			if hi > len(frontier) {
				hi = len(frontier)
			}
			slots := make([]slot, (hi-lo)*nOps)
			// parallel over the frontier states of this chunk (all cores)
			parallelFor(hi-lo, func(i int) {
				expandNode(I, frontier[lo+i], slots[i*nOps:(i+1)*nOps])
			})
			// sequential merge in (state, operation) order: deterministic
			// representative paths, violation examples and counters
			for j := range slots {
				s := &slots[j]
				if !s.ran {
					if s.internal != "" {
						r.Internal("%s", s.internal)
					}
					continue
				}
				n := frontier[lo+j/nOps]
				k := j % nOps
				transitions++
				evaluations += int64(s.runs)
				if traceW != nil {
					fmt.Fprintf(traceW, "%s | %s | %s | runs=%d hash=%x\n", I[n.init].name(), strings.Join(pathNames(n.path), " ; "), opTable[k].Name, s.runs, s.hash[:6])
				}
				unprotChanged += int64(s.unprot)
				r.Outcome(s.outcome)
				if s.internal != "" {
					r.Internal("%s", s.internal)
				}
				for _, v := range s.viols {
					r.Violation(v.sig, v.what, v.c)
				}
				if _, ok := visited[s.hash]; ok {
					continue
				}
				visited[s.hash] = struct{}{}
				newStates++
				if s.nontriv {
					nontrivial++
				}
				if s.aliasing {
					aliasing++
				}
				if len(s.viols) > 0 {
					pruned++ // a violating state is reported, counted, and not expanded
					continue
				}
				if newStates%4001 == 1 {
					r.Sample(map[string]interface{}{"init": I[n.init].name(), "ops": append(pathNames(n.path), opTable[k].Name), "depth": d})
				}
				if d < maxDepth {
					p := make([]uint8, len(n.path)+1)
					copy(p, n.path)
					p[len(n.path)] = uint8(k)
					next = append(next, node{init: n.init, path: p, appl: s.appl, hash: s.hash})
				}
			}
		}
		perDepth = append(perDepth, newStates)
		frontier = next
		if !exhaustedAll {
			break
		}
	}

	var initNames []string
	for i := range I {
		initNames = append(initNames, I[i].name())
	}
	var opNames []string
	for i := range opTable {
		opNames = append(opNames, opTable[i].Name)
	}
	sort.Strings(opNames)
	r.Set("new_states_per_depth", perDepth)
	r.Set("max_depth", maxDepth)
	r.Set("operations", nOps)
	r.Set("operations_last_level", lastLevelOps)
	r.Set("operation_names", opNames)
	r.Set("initial_states", len(I))
	r.Set("initial_state_names", initNames)
	r.Set("states_with_derived_value_aliasing_root", aliasing)
	r.Set("violating_states_not_expanded", pruned)
	r.Set("changes_of_unprotected_aliased_immutables_observed", unprotChanged)
	r.Set("script_runs_including_replayed_prefixes", evaluations)
	r.Assume("shallow protection (immutable expression, export, builtin-module table, host-built Immutable*): only the container's own slots (element identities / key->value bindings) are protected; nested mutable children may change through it (docs/tutorial.md 'Immutable Values')")
	r.Assume("deep protection (freeze): everything reachable, compared by engine/val.Snapshot")
	r.Assume("proviso 'no mutable alias of its storage existed before': an immutable value whose storage is shared with a reachable mutable array/map at the moment it is created (immutable(v) of a live v) is tracked as unprotected; a freeze result is exempt from deep protection when a mutable container reachable from it was already reachable before the call")
	r.Assume("freeze(x) of a mutable x is taken to allocate fresh storage (docs/builtins.md: only a fully immutable input is returned as the same object), so containers newly created by freeze are protected even if they share storage with x")
	r.Assume("states in which a violation was observed are reported and not expanded further; operations whose target variable holds no array/map/error are skipped (they fail without touching the heap)")
	if unprotChanged == 0 {
		r.Note("no change of an unprotected (aliased) immutable value was observed: the aliased initial states did not exercise the proviso")
	}
	pprof.StopCPUProfile()
	if traceW != nil {
		traceW.Flush()
	}
	runDeepPart(r)
	r.Finish(report.Coverage{
		States:      int64(len(visited)),
		Transitions: transitions,
		Validated:   transitions,
		Evaluations: evaluations,
		Nontrivial:  nontrivial,
		Rule: "BFS over operation paths from every initial state (root kind x literal); state = canonical heap (values, object-identity graph, backing-array sharing with offset/len/cap, map-storage sharing, immutability and protection tags) of root,r,t,u,w; " +
			"transition = one operation script applied to the live objects of a state (last step of a path; replayed prefixes are counted under evaluations only); validated = transitions after which the invariant and the per-transition laws were evaluated; " +
			"non-trivial = at least one of t,u,w holds a value (every value in t,u,w is derived from the root: the initial heap holds nothing else)",
	})
}

func replay(p string) {
	rp, err := report.LoadReplay(p)
	if err != nil {
		fmt.Println("cannot load replay:", err)
		return
	}
	I := inits()
	buildOps()
	fmt.Printf("replay %s\nsignature: %s\n", p, rp.Signature)
	for ci, raw := range rp.Cases {
		var c Case
		_ = report.Recase(raw, &c)
		fmt.Printf("--- case %d: init=%s ops=%s\n", ci, c.Init, strings.Join(c.Ops, " ; "))
		var id *initDef
		for i := range I {
			if I[i].name() == c.Init {
				id = &I[i]
			}
		}
		if id == nil {
			fmt.Println("  unknown initial state")
			continue
		}
		h, what := id.build()
		if h == nil {
			fmt.Println("  cannot build initial state:", what)
			continue
		}
		fmt.Printf("  init source: %s\n", id.describe())
		fmt.Printf("  step 0: root=%s protected=%v deep=%v %s\n", h.rootNow(), h.rootRec.prot, h.rootRec.deep, h.rootRec.why)
		fmt.Printf("          %s\n", h.varsText())
		for _, v := range h.initViols {
			fmt.Printf("  FAIL %s: %s\n", v.sig, v.what)
		}
		for si, name := range c.Ops {
			op := opByName(name)
			if op == nil {
				fmt.Printf("  step %d: unknown operation %q\n", si+1, name)
				break
			}
			before := h.rootNow()
			out := h.step(op, true)
			fmt.Printf("  step %d: %-44s -> %s %s\n", si+1, op.Src, out.class, firstLine(out.errText))
			fmt.Printf("          root before=%s\n          root after =%s\n          %s\n", before, h.rootNow(), h.varsText())
			for _, v := range out.viols {
				fmt.Printf("  FAIL %s: %s\n", v.sig, v.what)
			}
		}
	}
}

func firstLine(s string) string {
	if i := strings.IndexByte(s, '\n'); i >= 0 {
		return s[:i]
	}
	return s
}
