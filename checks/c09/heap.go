package main

import (
	"fmt"
	"os"
	"reflect"
	"sort"
	"strconv"
	"strings"
	"sync"
	"unsafe"

	"github.com/d5/tengo/v2"
	"verif/engine/val"
)

// ---------------------------------------------------------------------------
// object graph helpers

func isContainer(o tengo.Object) bool {
	switch o.(type) {
	case *tengo.Array, *tengo.ImmutableArray, *tengo.Map, *tengo.ImmutableMap, *tengo.Error:
		return true
	}
	return false
}

func isImmutableContainer(o tengo.Object) bool {
	switch o.(type) {
	case *tengo.ImmutableArray, *tengo.ImmutableMap:
		return true
	}
	return false
}

func isMutableContainer(o tengo.Object) bool {
	switch o.(type) {
	case *tengo.Array, *tengo.Map:
		return true
	}
	return false
}

func tagOf(o tengo.Object) string {
	switch o.(type) {
	case *tengo.Array:
		return "array"
	case *tengo.ImmutableArray:
		return "imarray"
	case *tengo.Map:
		return "map"
	case *tengo.ImmutableMap:
		return "immap"
	case *tengo.Error:
		return "error"
	}
	return "scalar"
}

// each calls f for every direct child of o in a deterministic order (array
// index order, map keys sorted).
func each(o tengo.Object, f func(key string, c tengo.Object)) {
	switch x := o.(type) {
	case *tengo.Array:
		for i, e := range x.Value {
			f(strconv.Itoa(i), e)
		}
	case *tengo.ImmutableArray:
		for i, e := range x.Value {
			f(strconv.Itoa(i), e)
		}
	case *tengo.Map:
		eachMap(x.Value, f)
	case *tengo.ImmutableMap:
		eachMap(x.Value, f)
	case *tengo.Error:
		f("value", x.Value)
	}
}

func eachMap(m map[string]tengo.Object, f func(string, tengo.Object)) {
	keys := make([]string, 0, len(m))
	for k := range m {
		keys = append(keys, k)
	}
	sort.Strings(keys)
	for _, k := range keys {
		f(strconv.Quote(k), m[k])
	}
}

// walk visits every container reachable from roots once, DFS pre-order.
func walk(roots []tengo.Object, f func(o tengo.Object)) {
	seen := map[tengo.Object]bool{}
	var rec func(o tengo.Object)
	rec = func(o tengo.Object) {
		if o == nil || !isContainer(o) || seen[o] {
			return
		}
		seen[o] = true
		f(o)
		each(o, func(_ string, c tengo.Object) { rec(c) })
	}
	for _, r := range roots {
		rec(r)
	}
}

const objSize = unsafe.Sizeof(tengo.Object(nil))

// arrInfo: data pointer, len and cap of the backing slice of an array object.
func arrInfo(o tengo.Object) (data uintptr, ln, cp int, ok bool) {
	var v []tengo.Object
	switch x := o.(type) {
	case *tengo.Array:
		v = x.Value
	case *tengo.ImmutableArray:
		v = x.Value
	default:
		return 0, 0, 0, false
	}
	return uintptr(unsafe.Pointer(unsafe.SliceData(v))), len(v), cap(v), true
}

// mapPtr: identity of the Go map behind a map object (Map and ImmutableMap made
// by OpImmutable share it).
func mapPtr(o tengo.Object) (uintptr, bool) {
	switch x := o.(type) {
	case *tengo.Map:
		return reflect.ValueOf(x.Value).Pointer(), true
	case *tengo.ImmutableMap:
		return reflect.ValueOf(x.Value).Pointer(), true
	}
	return 0, false
}

// sharesWithMutable: can a write through one of the mutable containers muts
// reach the visible storage of n? Arrays: n's visible range [data, data+len)
// intersects the range a mutable array can write, [data, data+cap) (IndexSet
// reaches len, append/splice reach cap). Maps: same Go map.
func sharesWithMutable(n tengo.Object, muts []tengo.Object) bool {
	if d, ln, _, ok := arrInfo(n); ok {
		if ln == 0 {
			return false
		}
		lo, hi := d, d+uintptr(ln)*objSize
		for _, m := range muts {
			if md, _, mc, ok := arrInfo(m); ok && mc > 0 {
				mlo, mhi := md, md+uintptr(mc)*objSize
				if lo < mhi && mlo < hi {
					return true
				}
			}
		}
		return false
	}
	if p, ok := mapPtr(n); ok {
		for _, m := range muts {
			if mp, ok := mapPtr(m); ok && mp == p {
				return true
			}
		}
	}
	return false
}

// ---------------------------------------------------------------------------
// heap

type rec struct {
	obj    tengo.Object
	isRoot bool
	deep   bool
	prot   bool
	origin string // init | freeze | immutable | <class of the operation that made it appear>
	why    string // why unprotected
	snap   string // protected snapshot at creation
	masked string // deep records: snapshot with error payloads masked
	full   string // val.Snapshot at creation (messages)
	last   string // protected snapshot after the previous step
}

func (r *rec) tag() string {
	s := "shallow"
	if r.deep {
		s = "deep"
	}
	if r.prot {
		return s + "/protected"
	}
	return s + "/unprotected"
}

type heap struct {
	kind, lit string
	vars      [4]tengo.Object
	rootObj   tengo.Object
	rootRec   *rec
	chain     [4][]string // route by which each variable got its current value
	ids       map[tengo.Object]int
	shallow   map[tengo.Object]*rec
	deep      map[tengo.Object]*rec
	recs      []*rec
	initViols []viol
}

type viol struct {
	sig, what     string
	before, after string
	c             Case
}

func (h *heap) id(o tengo.Object) int {
	if n, ok := h.ids[o]; ok {
		return n
	}
	n := len(h.ids) + 1
	h.ids[o] = n
	return n
}

func (h *heap) roots() []tengo.Object {
	return []tengo.Object{h.rootObj, h.vars[0], h.vars[1], h.vars[2], h.vars[3]}
}

func (h *heap) rootNow() string { return val.Snapshot(h.rootObj) }

func (h *heap) varsText() string {
	var sb strings.Builder
	for i, v := range h.vars {
		if i > 0 {
			sb.WriteString("  ")
		}
		sb.WriteString(varNames[i] + "=" + val.Snapshot(v))
		if v == h.rootObj {
			sb.WriteString("(root)")
		}
	}
	return sb.String()
}

func (h *heap) applMask() (m uint8) {
	for i, v := range h.vars {
		if isContainer(v) {
			m |= 1 << uint(i)
		}
	}
	return
}

func (h *heap) nontrivial() bool {
	for _, v := range h.vars[1:] {
		if v != tengo.UndefinedValue && v != nil {
			return true
		}
	}
	return false
}

// aliasesRoot: some container reachable from t, u or w is a container reachable
// from the root object, or shares array/map storage with one.
func (h *heap) aliasesRoot() bool {
	var rs []tengo.Object
	inRoot := map[tengo.Object]bool{}
	walk([]tengo.Object{h.rootObj}, func(o tengo.Object) { rs = append(rs, o); inRoot[o] = true })
	found := false
	walk(h.vars[1:], func(o tengo.Object) {
		if found {
			return
		}
		if inRoot[o] {
			found = true
			return
		}
		if d, _, c, ok := arrInfo(o); ok && c > 0 {
			for _, r := range rs {
				if rd, _, rc, ok := arrInfo(r); ok && rc > 0 &&
					d < rd+uintptr(rc)*objSize && rd < d+uintptr(c)*objSize {
					found = true
				}
			}
		}
		if p, ok := mapPtr(o); ok {
			for _, r := range rs {
				if rp, ok := mapPtr(r); ok && rp == p {
					found = true
				}
			}
		}
	})
	return found
}

// ---------------------------------------------------------------------------
// snapshots of the protected part

// shallowSnap: the container's own slots. A slot holding a container or an
// error is rendered by object identity (+ its type tag): the slot is protected,
// the child's contents are not (docs/tutorial.md: "immutability is not applied
// to the individual elements ... unless they are explicitly made immutable";
// such a child has its own record). A scalar slot is rendered by value: scalar
// objects are never written in place and no operation observes their identity.
func (h *heap) shallowSnap(o tengo.Object) string {
	if !isContainer(o) {
		return val.Snapshot(o)
	}
	_, isMap := mapPtr(o)
	var sb strings.Builder
	sb.WriteString(tagOf(o))
	sb.WriteString("(")
	first := true
	each(o, func(k string, c tengo.Object) {
		if !first {
			sb.WriteString(",")
		}
		first = false
		if isMap {
			sb.WriteString(k + ":")
		}
		if isContainer(c) {
			sb.WriteString("#" + strconv.Itoa(h.id(c)) + ":" + tagOf(c))
		} else {
			sb.WriteString(val.Snapshot(c))
		}
	})
	sb.WriteString(")")
	return sb.String()
}

// maskedSnap: deep structural rendering with the payload of error values
// replaced by '*'. Used only to tell whether a change of a frozen value is
// confined to the inside of error values (signature via=freeze-error-child).
func maskedSnap(o tengo.Object, depth int) string {
	if depth > 64 {
		return "<deep>"
	}
	switch o.(type) {
	case *tengo.Error:
		return "error(*)"
	case *tengo.Array, *tengo.ImmutableArray, *tengo.Map, *tengo.ImmutableMap:
		var sb strings.Builder
		sb.WriteString(tagOf(o) + "(")
		each(o, func(k string, c tengo.Object) {
			sb.WriteString(k + ":" + maskedSnap(c, depth+1) + ",")
		})
		sb.WriteString(")")
		return sb.String()
	}
	return val.Snapshot(o)
}

func (h *heap) snapOf(r *rec) string {
	if r.deep {
		return val.Snapshot(r.obj)
	}
	return h.shallowSnap(r.obj)
}

// ---------------------------------------------------------------------------
// records

func (h *heap) mutables(roots []tengo.Object) (list []tengo.Object, set map[tengo.Object]bool) {
	set = map[tengo.Object]bool{}
	walk(roots, func(o tengo.Object) {
		if isMutableContainer(o) {
			list = append(list, o)
			set[o] = true
		}
	})
	return
}

func (h *heap) addRec(r *rec) {
	r.snap = h.snapOf(r)
	r.last = r.snap
	r.full = val.Snapshot(r.obj)
	if r.deep {
		r.masked = maskedSnap(r.obj, 0)
		h.deep[r.obj] = r
	} else {
		h.shallow[r.obj] = r
	}
	h.recs = append(h.recs, r)
}

// registerNew gives every immutable container that is reachable now and has no
// record yet a shallow record. Protected unless a reachable mutable container
// shares its storage (the proviso) - except containers created by freeze, whose
// storage is taken to be fresh (see the assumptions in main.go).
func (h *heap) registerNew(origin string) {
	var muts []tengo.Object
	haveMuts := false
	walk(h.roots(), func(o tengo.Object) {
		if !isImmutableContainer(o) || h.shallow[o] != nil {
			return
		}
		r := &rec{obj: o, origin: origin, prot: true, isRoot: o == h.rootObj && !(h.kind == "freeze")}
		if origin != "freeze" {
			if !haveMuts {
				muts, _ = h.mutables(h.vars[:])
				haveMuts = true
			}
			if sharesWithMutable(o, muts) {
				r.prot = false
				r.why = "a reachable mutable container shares its storage"
			}
		}
		h.addRec(r)
	})
}

// addDeep records the result of a freeze call as deeply protected, unless the
// proviso exempts it.
func (h *heap) addDeep(f tengo.Object, origin string, isRoot bool, preMut, preAll map[tengo.Object]bool) *rec {
	if f == nil || !isContainer(f) || h.deep[f] != nil {
		return h.deep[f]
	}
	r := &rec{obj: f, deep: true, prot: true, origin: origin, isRoot: isRoot}
	// containers reachable from f WITHOUT passing through an error value:
	// freeze converts every one of them, so a mutable container among them is
	// never a legitimate alias (freeze results are taken to be fresh). Only a
	// mutable container reachable solely through error payloads (returned as-is
	// by freeze) can be a pre-existing user-visible alias.
	outsideErr := map[tengo.Object]bool{}
	var noErr func(o tengo.Object)
	noErr = func(o tengo.Object) {
		if o == nil || !isContainer(o) || outsideErr[o] {
			return
		}
		if _, isErr := o.(*tengo.Error); isErr {
			return
		}
		outsideErr[o] = true
		each(o, func(_ string, c tengo.Object) { noErr(c) })
	}
	noErr(f)
	walk([]tengo.Object{f}, func(c tengo.Object) {
		if !r.prot {
			return
		}
		if isMutableContainer(c) && preMut[c] && !outsideErr[c] {
			r.prot = false
			r.why = "a mutable container inside an error value reachable from it was already reachable before freeze"
		}
		if isImmutableContainer(c) && preAll[c] {
			if s := h.shallow[c]; s != nil && !s.prot {
				r.prot = false
				r.why = "it contains a pre-existing immutable container whose storage has a mutable alias"
			}
		}
	})
	h.addRec(r)
	return r
}

// mark / restore: rebind the variables to the objects they held at mark time
// and forget the records created since (used by expandNode, which then checks
// by canonical form whether the instance is back in the marked state).
type heapMark struct {
	vars  [4]tengo.Object
	chain [4][]string
	nrecs int
}

func (h *heap) mark() heapMark { return heapMark{h.vars, h.chain, len(h.recs)} }

func (h *heap) restore(m heapMark) {
	h.vars = m.vars
	h.chain = m.chain
	for _, r := range h.recs[m.nrecs:] {
		if r.deep {
			delete(h.deep, r.obj)
		} else {
			delete(h.shallow, r.obj)
		}
	}
	h.recs = h.recs[:m.nrecs]
}

func (h *heap) sigBase() string { return "root=" + h.kind + "/lit=" + litClass(h.lit) }

// litClass folds the literals into the classes named in signatures.
func litClass(lit string) string {
	switch lit {
	case "flat":
		return "array-flat"
	case "nested", "shared", "arr-map-arr":
		return "array-nested"
	case "err-arr":
		return "array-of-error"
	case "map":
		return "map"
	case "shared-imm-arr":
		return "array-shared-immutable-child"
	case "shared-imm-map":
		return "map-shared-immutable-child"
	}
	return lit
}

func (h *heap) initOracle() {
	h.ids = map[tengo.Object]int{}
	h.shallow = map[tengo.Object]*rec{}
	h.deep = map[tengo.Object]*rec{}
	h.rootObj = h.vars[vR]
	if !isImmutableContainer(h.rootObj) {
		s := val.Snapshot(h.rootObj)
		h.initViols = append(h.initViols, viol{
			sig:    h.sigBase() + "/via=init/root-not-immutable",
			what:   "the value that should be immutable is a " + h.rootObj.TypeName() + ": " + s,
			before: s, after: s})
	}
	// mutable containers reachable from the other variables (the aliased init)
	_, otherMut := h.mutables(h.vars[1:])
	all := map[tengo.Object]bool{}
	walk(h.vars[1:], func(o tengo.Object) { all[o] = true })
	h.registerNew("init")
	if h.kind == "freeze" {
		h.rootRec = h.addDeep(h.rootObj, "init", true, otherMut, all)
	} else {
		h.rootRec = h.shallow[h.rootObj]
	}
	if h.rootRec == nil { // root is not an immutable container (reported above): track it shallowly anyway
		h.rootRec = &rec{obj: h.rootObj, prot: true, origin: "init", isRoot: true}
		h.addRec(h.rootRec)
	}
	h.rootRec.isRoot = true
}

// ---------------------------------------------------------------------------
// running one operation

type runRes struct {
	class, errText string
	vars           [4]tengo.Object
	got            bool
	eq, refl       tengo.Object
}

var compileOnce = os.Getenv("C09_COMPILE") == "once"
var compiledCache sync.Map

func runScript(src string, vars [4]tengo.Object, wantEq bool) (res runRes) {
	var c *tengo.Compiled
	defer func() {
		if p := recover(); p != nil {
			res.class = "panic"
			res.errText = fmt.Sprintf("%v", p)
			if c != nil {
				readBack(c, &res, wantEq)
			}
		}
	}()
	res.vars = vars
	if compileOnce {
		base, ok := compiledCache.Load(src)
		if !ok {
			s := tengo.NewScript([]byte(src))
			for i := range vars {
				_ = s.Add(varNames[i], tengo.UndefinedValue)
			}
			b, err := s.Compile()
			if err != nil {
				res.class, res.errText = "compile-error", err.Error()
				return
			}
			base, _ = compiledCache.LoadOrStore(src, b)
		}
		c = base.(*tengo.Compiled).Clone()
		for i, v := range vars {
			_ = c.Set(varNames[i], v)
		}
	} else {
		s := tengo.NewScript([]byte(src))
		for i, v := range vars {
			if err := s.Add(varNames[i], v); err != nil {
				res.class, res.errText = "compile-error", "Add: "+err.Error()
				return
			}
		}
		var err error
		c, err = s.Compile()
		if err != nil {
			res.class, res.errText = "compile-error", err.Error()
			return
		}
	}
	err := c.Run()
	readBack(c, &res, wantEq)
	if err != nil {
		res.class, res.errText = "runtime-error", err.Error()
		return
	}
	res.class = "ok"
	return
}

func readBack(c *tengo.Compiled, res *runRes, wantEq bool) {
	for i := range res.vars {
		if o := c.Get(varNames[i]).Object(); o != nil {
			res.vars[i] = o
		}
	}
	res.got = true
	if wantEq {
		res.eq = c.Get("eq__").Object()
		res.refl = c.Get("refl__").Object()
	}
}

type stepOut struct {
	class, errText string
	effect         string
	viols          []viol
	unprotChanged  int
}

func erased(s string) string {
	s = strings.ReplaceAll(s, "imarray[", "array[")
	return strings.ReplaceAll(s, "immap{", "map{")
}

// step applies op to the live heap. With check=false (replayed prefix) the
// heap, the routes and the records are maintained but no verdict is computed.
func (h *heap) step(op *opDef, check bool) (out stepOut) {
	// state before: which containers the program could reach
	_, preMut := h.mutables(h.vars[:])
	preAll := map[tengo.Object]bool{}
	if op.Freeze {
		walk(h.vars[:], func(o tengo.Object) { preAll[o] = true })
	}
	var arg tengo.Object
	var argBefore string
	if op.Freeze {
		arg = h.vars[op.Target]
		argBefore = val.Snapshot(arg)
	}
	old := h.vars
	baseRoute := h.chain[op.Target]

	res := runScript(op.Src, h.vars, op.Freeze)
	out.class, out.errText = res.class, res.errText
	if res.got {
		h.vars = res.vars
	}
	rebound := false
	for d := range h.vars {
		if h.vars[d] != old[d] {
			rebound = true
			if d == op.Dest {
				// the route of a variable = the class of the operation that
				// created its value (a plain alias inherits the route of its source)
				switch {
				case op.Class == "alias-indexset" && len(baseRoute) > 0:
					h.chain[d] = baseRoute
				case op.Class == "alias-indexset":
					h.chain[d] = []string{"alias"}
				default:
					h.chain[d] = []string{op.Route}
				}
			} else {
				h.chain[d] = []string{"unexpected-rebinding"}
			}
		}
	}
	out.effect = "inplace"
	if rebound {
		out.effect = "rebound"
	}

	// new immutable values
	h.registerNew(op.Class)
	var frozen *rec
	if op.Freeze && res.class == "ok" && op.Dest >= 0 {
		frozen = h.addDeep(h.vars[op.Dest], "freeze", false, preMut, preAll)
	}
	_ = frozen

	// invariant: every protected record equals its creation snapshot
	via := "direct-" + op.Route
	if op.Class == "alias-indexset" {
		via = "alias-then-indexset"
	}
	if len(baseRoute) > 0 {
		via = strings.Join(baseRoute, "+") + "-then-" + op.Route
	}
	failed := res.class != "ok"
	rootFired := false
	var derivedViols []viol
	for _, r := range h.recs {
		cur := h.snapOf(r)
		changedNow := cur != r.last
		r.last = cur
		if !check {
			continue
		}
		if !r.prot {
			if changedNow {
				out.unprotChanged++
			}
			continue
		}
		if cur == r.snap {
			continue
		}
		v := via
		if r.deep && maskedSnap(r.obj, 0) == r.masked {
			v = "freeze-error-child"
		}
		what := "root-changed"
		whose := "the protected root"
		if !r.isRoot {
			// derived immutable value: name how it was made and the writing
			// operation (the route of the written-through variable is in the text)
			what = "derived-" + r.origin + "-changed"
			whose = "an immutable value created by '" + r.origin + "' during the path (write route: " + via + ")"
			if v == via {
				v = r.origin + "-result-then-" + op.Route
			}
		}
		if failed {
			what = "failed-op-changed-" + strings.TrimSuffix(strings.TrimPrefix(what, "derived-"), "-changed")
			if r.isRoot {
				what = "failed-op-changed-root"
			}
		}
		after := val.Snapshot(r.obj)
		vi := viol{
			sig: h.sigBase() + "/via=" + v + "/" + what,
			what: fmt.Sprintf("%s (%s, made by %s) changed: operation `%s` (%s%s) ; before=%s after=%s ; protected part before=%s after=%s",
				whose, r.tag(), r.origin, op.Src, res.class, errSuffix(res.errText), r.full, after, r.snap, cur),
			before: r.full, after: after}
		if r.isRoot {
			if !rootFired {
				out.viols = append(out.viols, vi)
			}
			rootFired = true
		} else {
			derivedViols = append(derivedViols, vi)
		}
	}
	if !rootFired && len(derivedViols) > 0 {
		out.viols = append(out.viols, derivedViols[0]) // nested records of the same value are consequences of the first
	}
	if rootFired && out.effect == "inplace" {
		out.effect = "root-changed"
	}

	// freeze laws
	if check && op.Freeze && res.class == "ok" {
		fvia := "direct-freeze"
		if len(baseRoute) > 0 {
			fvia = strings.Join(baseRoute, "+") + "-then-freeze"
		}
		result := h.vars[op.Dest]
		rs := val.Snapshot(result)
		argAfter := val.Snapshot(arg)
		if argAfter != argBefore {
			out.viols = append(out.viols, viol{
				sig:    h.sigBase() + "/via=" + fvia + "/freeze-modified-arg",
				what:   fmt.Sprintf("freeze(%s) modified its argument: before=%s after=%s", varNames[op.Target], argBefore, argAfter),
				before: argBefore, after: argAfter})
		}
		if res.refl == tengo.TrueValue && res.eq != tengo.TrueValue {
			out.viols = append(out.viols, viol{
				sig:    h.sigBase() + "/via=" + fvia + "/freeze-not-equal",
				what:   fmt.Sprintf("freeze(x) == x is %s although x == x is true: x=%s freeze(x)=%s", val.Snapshot(res.eq), argBefore, rs),
				before: argBefore, after: rs})
		} else if erased(rs) != erased(argBefore) {
			out.viols = append(out.viols, viol{
				sig:    h.sigBase() + "/via=" + fvia + "/freeze-not-equal",
				what:   fmt.Sprintf("freeze(x) differs structurally from x (immutability tags ignored): x=%s freeze(x)=%s", argBefore, rs),
				before: argBefore, after: rs})
		}
	}
	if check && res.class == "panic" {
		out.viols = append(out.viols, viol{
			sig:  h.sigBase() + "/via=" + via + "/panic",
			what: fmt.Sprintf("operation `%s` panicked: %s", op.Src, firstLine(res.errText))})
	}
	return
}

func errSuffix(e string) string {
	if e == "" {
		return ""
	}
	return ": " + firstLine(e)
}
