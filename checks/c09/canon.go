package main

import (
	"sort"
	"strconv"
	"strings"

	"github.com/d5/tengo/v2"
	"verif/engine/val"
)

// canon renders everything the future behaviour of the heap can depend on.
//
// Kept:
//   - the values of root object, r, t, u, w (engine/val.Snapshot, and again in
//     the graph rendering below);
//   - the aliasing graph: every array / map / error object reachable from the
//     five roots gets a number in DFS first-visit order; a second visit prints
//     a back reference, so "which variables / nested positions are the same
//     object" is part of the state (error values included: Error.Equals is
//     pointer identity);
//   - for every array object: which backing array it lives in (backing arrays
//     = connected groups of overlapping [data, data+cap) ranges, numbered in
//     DFS order), its offset inside it, len and cap. Capacity decides whether a
//     later append/splice writes in place, the offset decides which slots two
//     arrays share;
//   - for every map object: which Go map it wraps (Map/ImmutableMap pairs made
//     by OpImmutable share one);
//   - immutability tags (the object's type) and, for immutable containers, the
//     protection status of their records (the oracle's verdict on later
//     changes depends on it).
//
// Dropped, with the argument:
//   - numeric pointer values: replaced by the DFS numbering; no Tengo operation
//     observes an address.
//   - identity of scalar objects (Int, String, ...): they are never written in
//     place and every operation of the alphabet observes them by value only
//     (== on scalars is by value).
//   - contents of backing-array slots outside every reachable array's
//     [0, len): append and splice overwrite such a slot before it becomes
//     visible, nothing reads it first.
//   - Go map internals (bucket layout, iteration order): the two iterating
//     operations write the same value to every key / every non-empty mutable
//     array child and no write inside the loop can fail half way (ops.go), so
//     their effect is order independent; `X[k] = 9` over an immutable target
//     fails at the first element, changing nothing.
//   - the route strings (heap.chain): used only to name signatures.
//   - records of immutable values that are no longer reachable from
//     root/r/t/u/w: with no reachable alias nothing can write to them; if a
//     (buggy) storage alias survives, the sharing was part of the canonical
//     state while the value was still reachable, and every write was explored
//     from there at a smaller depth. They are still checked along each replay.
//   - creation snapshots of the records: on every expanded path the invariant
//     held so far, so they equal the current contents (violating states are
//     not expanded).
func (h *heap) canon() string {
	roots := h.roots()
	var order []tengo.Object
	num := map[tengo.Object]int{}
	walk(roots, func(o tengo.Object) {
		num[o] = len(order)
		order = append(order, o)
	})

	// backing-array groups
	type iv struct {
		lo, hi uintptr
		o      int
	}
	var ivs []iv
	for i, o := range order {
		if d, _, c, ok := arrInfo(o); ok && c > 0 {
			ivs = append(ivs, iv{d, d + uintptr(c)*objSize, i})
		}
	}
	sort.Slice(ivs, func(a, b int) bool {
		if ivs[a].lo != ivs[b].lo {
			return ivs[a].lo < ivs[b].lo
		}
		return ivs[a].o < ivs[b].o
	})
	tmpGroup := map[int]int{}      // object index -> temporary group
	groupBase := map[int]uintptr{} // temporary group -> lowest address
	g, hi := -1, uintptr(0)
	for _, v := range ivs {
		if g < 0 || v.lo >= hi {
			g++
			groupBase[g] = v.lo
			hi = v.hi
		} else if v.hi > hi {
			hi = v.hi
		}
		tmpGroup[v.o] = g
	}
	groupNum := map[int]int{} // temporary group -> number in DFS order
	mapNum := map[uintptr]int{}

	var sb strings.Builder
	seen := map[tengo.Object]bool{}
	var render func(o tengo.Object)
	render = func(o tengo.Object) {
		if o == nil {
			sb.WriteString("nil")
			return
		}
		if !isContainer(o) {
			sb.WriteString(val.Snapshot(o))
			return
		}
		n := num[o]
		if seen[o] {
			sb.WriteString("@" + strconv.Itoa(n))
			return
		}
		seen[o] = true
		sb.WriteString("#" + strconv.Itoa(n) + tagOf(o))
		if d, ln, c, ok := arrInfo(o); ok {
			if c > 0 {
				tg := tmpGroup[n]
				gn, ok := groupNum[tg]
				if !ok {
					gn = len(groupNum)
					groupNum[tg] = gn
				}
				off := (d - groupBase[tg]) / objSize
				sb.WriteString("<g" + strconv.Itoa(gn) + "+" + strconv.Itoa(int(off)) + "," + strconv.Itoa(ln) + "," + strconv.Itoa(c) + ">")
			} else {
				sb.WriteString("<nocap>")
			}
		}
		if p, ok := mapPtr(o); ok {
			mn, ok := mapNum[p]
			if !ok {
				mn = len(mapNum)
				mapNum[p] = mn
			}
			sb.WriteString("<m" + strconv.Itoa(mn) + ">")
		}
		if isImmutableContainer(o) {
			if r := h.shallow[o]; r == nil {
				sb.WriteString("?")
			} else if r.prot {
				sb.WriteString("P")
			} else {
				sb.WriteString("U")
			}
			if r := h.deep[o]; r != nil {
				if r.prot {
					sb.WriteString("D")
				} else {
					sb.WriteString("d")
				}
			}
		} else if r := h.deep[o]; r != nil { // an error value returned by freeze
			if r.prot {
				sb.WriteString("D")
			} else {
				sb.WriteString("d")
			}
		}
		sb.WriteString("(")
		each(o, func(k string, c tengo.Object) {
			sb.WriteString(k + ":")
			render(c)
			sb.WriteString(",")
		})
		sb.WriteString(")")
	}
	names := []string{"root", "r", "t", "u", "w"}
	for i, o := range roots {
		sb.WriteString(names[i] + "=")
		render(o)
		sb.WriteString(";")
	}
	sb.WriteString("|")
	for i, o := range roots {
		sb.WriteString(names[i] + "=" + val.Snapshot(o) + ";")
	}
	return sb.String()
}
